/-
C15 — the six elastic parameters.  For each of the fifteen ways of specifying an isotropic material
by a pair of the six parameters (λ, G, E, ν, K, M), `set_elastic_params`
(`exactpack/solvers/blake/set_check_elastic_params.py`, traced once per pair with both supplied values
symbolic — models `BlakeMod<XY>`) either

  * returns six values that reproduce the two supplied ones and satisfy the isotropic-elasticity
    identities  K = λ + 2G/3,  M = λ + 2G,  E = G(3λ+2G)/(λ+G),  ν = λ/(2(λ+G))  with  G > 0,
    3λ + 2G > 0  (`Spec.Blake.IsoMaterial`: one positive-definite material) — theorems `mod<XY>_ok`, or
  * raises `ValueError` — theorems `mod<XY>_raise`.

All reals, all branches of the traced decision trees; for the two-valued pair (E, M) the statement is
about the branch the code selects (the positive square root).  The only division whose denominator is
not excluded by an earlier check on the same path is `…/pnu` in the pair (λ, ν): see
`EPV.C15.finding_modLNu_division_by_zero` (FindingModuli.lean).

The proofs of the `_ok` statements live in `EPV/Lemmas/BlakeModuli.lean` (they are shared with the C20
acceptance theorems); they are restated here as the property theorems.
-/
import EPV.Gen.BlakeModLG
import EPV.Gen.BlakeModLE
import EPV.Gen.BlakeModLNu
import EPV.Gen.BlakeModLK
import EPV.Gen.BlakeModLM
import EPV.Gen.BlakeModGE
import EPV.Gen.BlakeModGNu
import EPV.Gen.BlakeModGK
import EPV.Gen.BlakeModGM
import EPV.Gen.BlakeModENu
import EPV.Gen.BlakeModEK
import EPV.Gen.BlakeModEM
import EPV.Gen.BlakeModNuK
import EPV.Gen.BlakeModNuM
import EPV.Gen.BlakeModKM
import EPV.Spec.Blake
import EPV.Lemmas.Blake
import EPV.Lemmas.BlakeModuli
import EPV.Tactics

set_option linter.all false

open EPV EPV.Gen EPV.Spec.Blake EPV.Blake

namespace EPV.C15

/-- pair (λ, G): an accepting call returns one positive-definite isotropic material that reproduces the
two supplied values -/
theorem modLG_ok (p : BlakeModLG.P) (h : BlakeModLG.outcome p = .ok) :
    IsoMaterial (BlakeModLG.lame_mod p) (BlakeModLG.shear_mod p) (BlakeModLG.youngs_mod p) (BlakeModLG.poisson_ratio p) (BlakeModLG.bulk_mod p) (BlakeModLG.long_mod p)
      ∧ BlakeModLG.lame_mod p = p.lame_mod ∧ BlakeModLG.shear_mod p = p.shear_mod :=
  EPV.Blake.modLG_ok p h

/-- pair (λ, G): every other path of the traced call ends in `raise ValueError` -/
theorem modLG_raise (p : BlakeModLG.P) (h : BlakeModLG.outcome p ≠ .ok) :
    BlakeModLG.outcome p = .raise "ValueError" := by
  simp only [epv_tree] at *
  split_ifs at * <;> first | rfl | contradiction

/-- non-vacuity: the default material (GPa) is accepted through the pair (λ, G) -/
example : BlakeModLG.outcome { lame_mod := 25, shear_mod := 25 } = .ok := by
  simp only [epv_tree, epv_cond]
  norm_num

/-- pair (λ, E): an accepting call returns one positive-definite isotropic material that reproduces the
two supplied values -/
theorem modLE_ok (p : BlakeModLE.P) (h : BlakeModLE.outcome p = .ok) :
    IsoMaterial (BlakeModLE.lame_mod p) (BlakeModLE.shear_mod p) (BlakeModLE.youngs_mod p) (BlakeModLE.poisson_ratio p) (BlakeModLE.bulk_mod p) (BlakeModLE.long_mod p)
      ∧ BlakeModLE.lame_mod p = p.lame_mod ∧ BlakeModLE.youngs_mod p = p.youngs_mod :=
  EPV.Blake.modLE_ok p h

/-- pair (λ, E): every other path of the traced call ends in `raise ValueError` -/
theorem modLE_raise (p : BlakeModLE.P) (h : BlakeModLE.outcome p ≠ .ok) :
    BlakeModLE.outcome p = .raise "ValueError" := by
  simp only [epv_tree] at *
  split_ifs at * <;> first | rfl | contradiction

/-- non-vacuity: the default material (GPa) is accepted through the pair (λ, E) -/
example : BlakeModLE.outcome { lame_mod := 25, youngs_mod := 125/2 } = .ok := by
  simp only [epv_tree, epv_cond]
  epv_deton_rpow_half_eval (225 / 2 : ℝ)
  norm_num

/-- pair (λ, ν): an accepting call returns one positive-definite isotropic material that reproduces the
two supplied values -/
theorem modLNu_ok (p : BlakeModLNu.P) (h : BlakeModLNu.outcome p = .ok) :
    IsoMaterial (BlakeModLNu.lame_mod p) (BlakeModLNu.shear_mod p) (BlakeModLNu.youngs_mod p) (BlakeModLNu.poisson_ratio p) (BlakeModLNu.bulk_mod p) (BlakeModLNu.long_mod p)
      ∧ BlakeModLNu.lame_mod p = p.lame_mod ∧ BlakeModLNu.poisson_ratio p = p.poisson_ratio :=
  EPV.Blake.modLNu_ok p h

/-- pair (λ, ν): every other path of the traced call ends in `raise ValueError` (for ν ≠ 0: at ν = 0 the code divides
by `pnu` before any check that could reject — see `finding_modLNu_division_by_zero`) -/
theorem modLNu_raise (p : BlakeModLNu.P) (hν : p.poisson_ratio ≠ 0) (h : BlakeModLNu.outcome p ≠ .ok) :
    BlakeModLNu.outcome p = .raise "ValueError" := by
  simp only [epv_tree] at *
  split_ifs at * <;> first | rfl | contradiction

/-- non-vacuity: the default material (GPa) is accepted through the pair (λ, ν) -/
example : BlakeModLNu.outcome { lame_mod := 25, poisson_ratio := 1/4 } = .ok := by
  simp only [epv_tree, epv_cond]
  norm_num

/-- pair (λ, K): an accepting call returns one positive-definite isotropic material that reproduces the
two supplied values -/
theorem modLK_ok (p : BlakeModLK.P) (h : BlakeModLK.outcome p = .ok) :
    IsoMaterial (BlakeModLK.lame_mod p) (BlakeModLK.shear_mod p) (BlakeModLK.youngs_mod p) (BlakeModLK.poisson_ratio p) (BlakeModLK.bulk_mod p) (BlakeModLK.long_mod p)
      ∧ BlakeModLK.lame_mod p = p.lame_mod ∧ BlakeModLK.bulk_mod p = p.bulk_mod :=
  EPV.Blake.modLK_ok p h

/-- pair (λ, K): every other path of the traced call ends in `raise ValueError` -/
theorem modLK_raise (p : BlakeModLK.P) (h : BlakeModLK.outcome p ≠ .ok) :
    BlakeModLK.outcome p = .raise "ValueError" := by
  simp only [epv_tree] at *
  split_ifs at * <;> first | rfl | contradiction

/-- non-vacuity: the default material (GPa) is accepted through the pair (λ, K) -/
example : BlakeModLK.outcome { lame_mod := 25, bulk_mod := 125/3 } = .ok := by
  simp only [epv_tree, epv_cond]
  norm_num

/-- pair (λ, M): an accepting call returns one positive-definite isotropic material that reproduces the
two supplied values -/
theorem modLM_ok (p : BlakeModLM.P) (h : BlakeModLM.outcome p = .ok) :
    IsoMaterial (BlakeModLM.lame_mod p) (BlakeModLM.shear_mod p) (BlakeModLM.youngs_mod p) (BlakeModLM.poisson_ratio p) (BlakeModLM.bulk_mod p) (BlakeModLM.long_mod p)
      ∧ BlakeModLM.lame_mod p = p.lame_mod ∧ BlakeModLM.long_mod p = p.long_mod :=
  EPV.Blake.modLM_ok p h

/-- pair (λ, M): every other path of the traced call ends in `raise ValueError` -/
theorem modLM_raise (p : BlakeModLM.P) (h : BlakeModLM.outcome p ≠ .ok) :
    BlakeModLM.outcome p = .raise "ValueError" := by
  simp only [epv_tree] at *
  split_ifs at * <;> first | rfl | contradiction

/-- non-vacuity: the default material (GPa) is accepted through the pair (λ, M) -/
example : BlakeModLM.outcome { lame_mod := 25, long_mod := 75 } = .ok := by
  simp only [epv_tree, epv_cond]
  norm_num

/-- pair (G, E): an accepting call returns one positive-definite isotropic material that reproduces the
two supplied values -/
theorem modGE_ok (p : BlakeModGE.P) (h : BlakeModGE.outcome p = .ok) :
    IsoMaterial (BlakeModGE.lame_mod p) (BlakeModGE.shear_mod p) (BlakeModGE.youngs_mod p) (BlakeModGE.poisson_ratio p) (BlakeModGE.bulk_mod p) (BlakeModGE.long_mod p)
      ∧ BlakeModGE.shear_mod p = p.shear_mod ∧ BlakeModGE.youngs_mod p = p.youngs_mod :=
  EPV.Blake.modGE_ok p h

/-- pair (G, E): every other path of the traced call ends in `raise ValueError` -/
theorem modGE_raise (p : BlakeModGE.P) (h : BlakeModGE.outcome p ≠ .ok) :
    BlakeModGE.outcome p = .raise "ValueError" := by
  simp only [epv_tree] at *
  split_ifs at * <;> first | rfl | contradiction

/-- non-vacuity: the default material (GPa) is accepted through the pair (G, E) -/
example : BlakeModGE.outcome { shear_mod := 25, youngs_mod := 125/2 } = .ok := by
  simp only [epv_tree, epv_cond]
  norm_num

/-- pair (G, ν): an accepting call returns one positive-definite isotropic material that reproduces the
two supplied values -/
theorem modGNu_ok (p : BlakeModGNu.P) (h : BlakeModGNu.outcome p = .ok) :
    IsoMaterial (BlakeModGNu.lame_mod p) (BlakeModGNu.shear_mod p) (BlakeModGNu.youngs_mod p) (BlakeModGNu.poisson_ratio p) (BlakeModGNu.bulk_mod p) (BlakeModGNu.long_mod p)
      ∧ BlakeModGNu.shear_mod p = p.shear_mod ∧ BlakeModGNu.poisson_ratio p = p.poisson_ratio :=
  EPV.Blake.modGNu_ok p h

/-- pair (G, ν): every other path of the traced call ends in `raise ValueError` -/
theorem modGNu_raise (p : BlakeModGNu.P) (h : BlakeModGNu.outcome p ≠ .ok) :
    BlakeModGNu.outcome p = .raise "ValueError" := by
  simp only [epv_tree] at *
  split_ifs at * <;> first | rfl | contradiction

/-- non-vacuity: the default material (GPa) is accepted through the pair (G, ν) -/
example : BlakeModGNu.outcome { shear_mod := 25, poisson_ratio := 1/4 } = .ok := by
  simp only [epv_tree, epv_cond]
  norm_num

/-- pair (G, K): an accepting call returns one positive-definite isotropic material that reproduces the
two supplied values -/
theorem modGK_ok (p : BlakeModGK.P) (h : BlakeModGK.outcome p = .ok) :
    IsoMaterial (BlakeModGK.lame_mod p) (BlakeModGK.shear_mod p) (BlakeModGK.youngs_mod p) (BlakeModGK.poisson_ratio p) (BlakeModGK.bulk_mod p) (BlakeModGK.long_mod p)
      ∧ BlakeModGK.shear_mod p = p.shear_mod ∧ BlakeModGK.bulk_mod p = p.bulk_mod :=
  EPV.Blake.modGK_ok p h

/-- pair (G, K): every other path of the traced call ends in `raise ValueError` -/
theorem modGK_raise (p : BlakeModGK.P) (h : BlakeModGK.outcome p ≠ .ok) :
    BlakeModGK.outcome p = .raise "ValueError" := by
  simp only [epv_tree] at *
  split_ifs at * <;> first | rfl | contradiction

/-- non-vacuity: the default material (GPa) is accepted through the pair (G, K) -/
example : BlakeModGK.outcome { shear_mod := 25, bulk_mod := 125/3 } = .ok := by
  simp only [epv_tree, epv_cond]
  norm_num

/-- pair (G, M): an accepting call returns one positive-definite isotropic material that reproduces the
two supplied values -/
theorem modGM_ok (p : BlakeModGM.P) (h : BlakeModGM.outcome p = .ok) :
    IsoMaterial (BlakeModGM.lame_mod p) (BlakeModGM.shear_mod p) (BlakeModGM.youngs_mod p) (BlakeModGM.poisson_ratio p) (BlakeModGM.bulk_mod p) (BlakeModGM.long_mod p)
      ∧ BlakeModGM.shear_mod p = p.shear_mod ∧ BlakeModGM.long_mod p = p.long_mod :=
  EPV.Blake.modGM_ok p h

/-- pair (G, M): every other path of the traced call ends in `raise ValueError` -/
theorem modGM_raise (p : BlakeModGM.P) (h : BlakeModGM.outcome p ≠ .ok) :
    BlakeModGM.outcome p = .raise "ValueError" := by
  simp only [epv_tree] at *
  split_ifs at * <;> first | rfl | contradiction

/-- non-vacuity: the default material (GPa) is accepted through the pair (G, M) -/
example : BlakeModGM.outcome { shear_mod := 25, long_mod := 75 } = .ok := by
  simp only [epv_tree, epv_cond]
  norm_num

/-- pair (E, ν): an accepting call returns one positive-definite isotropic material that reproduces the
two supplied values -/
theorem modENu_ok (p : BlakeModENu.P) (h : BlakeModENu.outcome p = .ok) :
    IsoMaterial (BlakeModENu.lame_mod p) (BlakeModENu.shear_mod p) (BlakeModENu.youngs_mod p) (BlakeModENu.poisson_ratio p) (BlakeModENu.bulk_mod p) (BlakeModENu.long_mod p)
      ∧ BlakeModENu.youngs_mod p = p.youngs_mod ∧ BlakeModENu.poisson_ratio p = p.poisson_ratio :=
  EPV.Blake.modENu_ok p h

/-- pair (E, ν): every other path of the traced call ends in `raise ValueError` -/
theorem modENu_raise (p : BlakeModENu.P) (h : BlakeModENu.outcome p ≠ .ok) :
    BlakeModENu.outcome p = .raise "ValueError" := by
  simp only [epv_tree] at *
  split_ifs at * <;> first | rfl | contradiction

/-- non-vacuity: the default material (GPa) is accepted through the pair (E, ν) -/
example : BlakeModENu.outcome { youngs_mod := 125/2, poisson_ratio := 1/4 } = .ok := by
  simp only [epv_tree, epv_cond]
  norm_num

/-- pair (E, K): an accepting call returns one positive-definite isotropic material that reproduces the
two supplied values -/
theorem modEK_ok (p : BlakeModEK.P) (h : BlakeModEK.outcome p = .ok) :
    IsoMaterial (BlakeModEK.lame_mod p) (BlakeModEK.shear_mod p) (BlakeModEK.youngs_mod p) (BlakeModEK.poisson_ratio p) (BlakeModEK.bulk_mod p) (BlakeModEK.long_mod p)
      ∧ BlakeModEK.youngs_mod p = p.youngs_mod ∧ BlakeModEK.bulk_mod p = p.bulk_mod :=
  EPV.Blake.modEK_ok p h

/-- pair (E, K): every other path of the traced call ends in `raise ValueError` -/
theorem modEK_raise (p : BlakeModEK.P) (h : BlakeModEK.outcome p ≠ .ok) :
    BlakeModEK.outcome p = .raise "ValueError" := by
  simp only [epv_tree] at *
  split_ifs at * <;> first | rfl | contradiction

/-- non-vacuity: the default material (GPa) is accepted through the pair (E, K) -/
example : BlakeModEK.outcome { youngs_mod := 125/2, bulk_mod := 125/3 } = .ok := by
  simp only [epv_tree, epv_cond]
  norm_num

/-- pair (E, M): an accepting call returns one positive-definite isotropic material that reproduces the
two supplied values -/
theorem modEM_ok (p : BlakeModEM.P) (h : BlakeModEM.outcome p = .ok) :
    IsoMaterial (BlakeModEM.lame_mod p) (BlakeModEM.shear_mod p) (BlakeModEM.youngs_mod p) (BlakeModEM.poisson_ratio p) (BlakeModEM.bulk_mod p) (BlakeModEM.long_mod p)
      ∧ BlakeModEM.youngs_mod p = p.youngs_mod ∧ BlakeModEM.long_mod p = p.long_mod :=
  EPV.Blake.modEM_ok p h

/-- pair (E, M): every other path of the traced call ends in `raise ValueError` -/
theorem modEM_raise (p : BlakeModEM.P) (h : BlakeModEM.outcome p ≠ .ok) :
    BlakeModEM.outcome p = .raise "ValueError" := by
  simp only [epv_tree] at *
  split_ifs at * <;> first | rfl | contradiction

/-- non-vacuity: the default material (GPa) is accepted through the pair (E, M) -/
example : BlakeModEM.outcome { youngs_mod := 125/2, long_mod := 75 } = .ok := by
  simp only [epv_tree, epv_cond]
  epv_deton_rpow_half_eval (175 / 2 : ℝ)
  norm_num

/-- pair (ν, K): an accepting call returns one positive-definite isotropic material that reproduces the
two supplied values -/
theorem modNuK_ok (p : BlakeModNuK.P) (h : BlakeModNuK.outcome p = .ok) :
    IsoMaterial (BlakeModNuK.lame_mod p) (BlakeModNuK.shear_mod p) (BlakeModNuK.youngs_mod p) (BlakeModNuK.poisson_ratio p) (BlakeModNuK.bulk_mod p) (BlakeModNuK.long_mod p)
      ∧ BlakeModNuK.poisson_ratio p = p.poisson_ratio ∧ BlakeModNuK.bulk_mod p = p.bulk_mod :=
  EPV.Blake.modNuK_ok p h

/-- pair (ν, K): every other path of the traced call ends in `raise ValueError` -/
theorem modNuK_raise (p : BlakeModNuK.P) (h : BlakeModNuK.outcome p ≠ .ok) :
    BlakeModNuK.outcome p = .raise "ValueError" := by
  simp only [epv_tree] at *
  split_ifs at * <;> first | rfl | contradiction

/-- non-vacuity: the default material (GPa) is accepted through the pair (ν, K) -/
example : BlakeModNuK.outcome { poisson_ratio := 1/4, bulk_mod := 125/3 } = .ok := by
  simp only [epv_tree, epv_cond]
  norm_num

/-- pair (ν, M): an accepting call returns one positive-definite isotropic material that reproduces the
two supplied values -/
theorem modNuM_ok (p : BlakeModNuM.P) (h : BlakeModNuM.outcome p = .ok) :
    IsoMaterial (BlakeModNuM.lame_mod p) (BlakeModNuM.shear_mod p) (BlakeModNuM.youngs_mod p) (BlakeModNuM.poisson_ratio p) (BlakeModNuM.bulk_mod p) (BlakeModNuM.long_mod p)
      ∧ BlakeModNuM.poisson_ratio p = p.poisson_ratio ∧ BlakeModNuM.long_mod p = p.long_mod :=
  EPV.Blake.modNuM_ok p h

/-- pair (ν, M): every other path of the traced call ends in `raise ValueError` -/
theorem modNuM_raise (p : BlakeModNuM.P) (h : BlakeModNuM.outcome p ≠ .ok) :
    BlakeModNuM.outcome p = .raise "ValueError" := by
  simp only [epv_tree] at *
  split_ifs at * <;> first | rfl | contradiction

/-- non-vacuity: the default material (GPa) is accepted through the pair (ν, M) -/
example : BlakeModNuM.outcome { poisson_ratio := 1/4, long_mod := 75 } = .ok := by
  simp only [epv_tree, epv_cond]
  norm_num

/-- pair (K, M): an accepting call returns one positive-definite isotropic material that reproduces the
two supplied values -/
theorem modKM_ok (p : BlakeModKM.P) (h : BlakeModKM.outcome p = .ok) :
    IsoMaterial (BlakeModKM.lame_mod p) (BlakeModKM.shear_mod p) (BlakeModKM.youngs_mod p) (BlakeModKM.poisson_ratio p) (BlakeModKM.bulk_mod p) (BlakeModKM.long_mod p)
      ∧ BlakeModKM.bulk_mod p = p.bulk_mod ∧ BlakeModKM.long_mod p = p.long_mod :=
  EPV.Blake.modKM_ok p h

/-- pair (K, M): every other path of the traced call ends in `raise ValueError` -/
theorem modKM_raise (p : BlakeModKM.P) (h : BlakeModKM.outcome p ≠ .ok) :
    BlakeModKM.outcome p = .raise "ValueError" := by
  simp only [epv_tree] at *
  split_ifs at * <;> first | rfl | contradiction

/-- non-vacuity: the default material (GPa) is accepted through the pair (K, M) -/
example : BlakeModKM.outcome { bulk_mod := 125/3, long_mod := 75 } = .ok := by
  simp only [epv_tree, epv_cond]
  norm_num

end EPV.C15
