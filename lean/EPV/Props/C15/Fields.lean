/-
C15 — the Blake fields.  Model: `BlakeFields` = `Blake._run(r, t)` traced as a function of the instance
attributes (cavity radius a, reference density ρ₀, pressure scale P₀ and the elastic parameters
λ, G, ν, M the method reads), every one of them a free real.  The theorems assume exactly what the
constructor establishes (proved for each of the fifteen pairs in `Props/C15/Moduli.lean`): the
parameters describe one positive-definite isotropic material (`IsoMaterial`), and ρ₀, a, P₀ > 0
(`Admissible`).  So they hold for every way of specifying the material.

  * constitutive part (every leaf, no hypothesis): ε_θθ = u/r, ε_vol = ε_rr + 2 ε_θθ, Hooke's law for
    σ_rr and σ_θθ, pressure = -(σ_rr + 2σ_θθ)/3 = -K ε_vol, deviators, stress difference, density,
    current position;
  * ε_rr = ∂u/∂r: the separately coded radial strain is the r-derivative of the returned displacement
    (behind the front, ahead of the front, and one-sided at the cavity wall);
  * u_tt = (M/ρ₀)(u_rr + 2u_r/r - 2u/r²) behind the front (and trivially ahead of it);
  * σ_rr(a, t) = -P₀ for t > 0;
  * displacement, strains (and stresses) vanish for t ≤ (r - a)/c_L.

At the front itself (t = (r-a)/c_L, r > a) the solution of the step-loaded problem has a stress jump:
u is continuous but not differentiable there, so no derivative statement is made on that curve.
-/
import EPV.Gen.BlakeFieldsD
import EPV.Spec.Blake
import EPV.Lemmas.Blake
import EPV.Lemmas.BlakeFields
import EPV.Tactics
import EPV.Lemmas.Bridge.BlakeAtoms

set_option linter.all false

open EPV EPV.Gen EPV.Spec.Blake EPV.Blake

namespace EPV.C15

/-- the traced model has exactly the leaves the theorems below cover:
1 = disturbed region (a ≤ r, t' > 0), 2 = inside the cavity (0 ≤ r < a), 3 = ahead of the front -/
theorem fields_leaves : BlakeFields.okLeaves = [1, 2, 3] := rfl

/-- c_L² = M/ρ₀: the speed in the wave equation below is the longitudinal wave speed of the material -/
theorem cL_sq {p : BlakeFields.P} (h : Admissible p) : cL p ^ 2 = p.long_mod / p.ref_density := EPV.Blake.cL_sq h

/-- c_L² = (λ + 2G)/ρ₀ -/
theorem cL_sq_lame {p : BlakeFields.P} (h : Admissible p) :
    cL p ^ 2 = (p.lame_mod + 2 * p.shear_mod) / p.ref_density := EPV.Blake.cL_sq_lame h

/-! ### constitutive identities (all leaves, all real parameter values) -/

/-- ε_θθ = u / r -/
theorem strain_qq_eq (p : BlakeFields.P) (r t : ℝ) (h : BlakeFields.outcome p r t = .ok) :
    BlakeFields.strain_qq p r t = BlakeFields.displacement p r t / r := by
  epv_on_leaves (first | rfl | epv_leaf_ring)

/-- ε_vol = ε_rr + 2 ε_θθ -/
theorem strain_vol_eq (p : BlakeFields.P) (r t : ℝ) (h : BlakeFields.outcome p r t = .ok) :
    BlakeFields.strain_vol p r t = BlakeFields.strain_rr p r t + 2 * BlakeFields.strain_qq p r t := by
  epv_on_leaves (first | rfl | epv_leaf_ring)

/-- Hooke's law, radial stress -/
theorem stress_rr_hooke (p : BlakeFields.P) (r t : ℝ) (h : BlakeFields.outcome p r t = .ok) :
    BlakeFields.stress_rr p r t
      = hookeRR p.lame_mod p.shear_mod (BlakeFields.strain_rr p r t) (BlakeFields.strain_qq p r t) := by
  epv_on_leaves (simp only [epv_leaf, hookeRR]; ring)

/-- Hooke's law, hoop stress -/
theorem stress_qq_hooke (p : BlakeFields.P) (r t : ℝ) (h : BlakeFields.outcome p r t = .ok) :
    BlakeFields.stress_qq p r t
      = hookeQQ p.lame_mod p.shear_mod (BlakeFields.strain_rr p r t) (BlakeFields.strain_qq p r t) := by
  epv_on_leaves (simp only [epv_leaf, hookeQQ]; ring)

/-- pressure = -(1/3) tr σ -/
theorem pressure_eq (p : BlakeFields.P) (r t : ℝ) (h : BlakeFields.outcome p r t = .ok) :
    BlakeFields.pressure p r t = -(BlakeFields.stress_rr p r t + 2 * BlakeFields.stress_qq p r t) / 3 := by
  epv_on_leaves (simp only [epv_leaf]; ring)

/-- pressure = -K ε_vol with the bulk modulus K = λ + 2G/3 -/
theorem pressure_bulk (p : BlakeFields.P) (r t : ℝ) (h : BlakeFields.outcome p r t = .ok) :
    BlakeFields.pressure p r t = -(p.lame_mod + 2 * p.shear_mod / 3) * BlakeFields.strain_vol p r t := by
  epv_on_leaves (simp only [epv_leaf]; ring)

/-- deviators: s = σ + p 1 -/
theorem stress_dev_eq (p : BlakeFields.P) (r t : ℝ) (h : BlakeFields.outcome p r t = .ok) :
    BlakeFields.stress_dev_rr p r t = BlakeFields.stress_rr p r t + BlakeFields.pressure p r t
    ∧ BlakeFields.stress_dev_qq p r t = BlakeFields.stress_qq p r t + BlakeFields.pressure p r t := by
  constructor <;> epv_on_leaves (first | rfl | epv_leaf_ring)

/-- the deviator is trace free and equals 2G × (strain deviator) -/
theorem stress_dev_shear (p : BlakeFields.P) (r t : ℝ) (h : BlakeFields.outcome p r t = .ok) :
    BlakeFields.stress_dev_rr p r t + 2 * BlakeFields.stress_dev_qq p r t = 0
    ∧ BlakeFields.stress_dev_rr p r t
        = 2 * p.shear_mod * (BlakeFields.strain_rr p r t - BlakeFields.strain_vol p r t / 3) := by
  constructor <;> epv_on_leaves (simp only [epv_leaf]; ring)

/-- stress_diff = |σ_rr - σ_θθ| -/
theorem stress_diff_eq (p : BlakeFields.P) (r t : ℝ) (h : BlakeFields.outcome p r t = .ok) :
    BlakeFields.stress_diff p r t = |BlakeFields.stress_rr p r t - BlakeFields.stress_qq p r t| := by
  epv_on_leaves (first | rfl | epv_leaf_ring)

/-- density = ρ₀ / (1 + ε_vol) (mass conservation at small strain), current position = r + u -/
theorem density_posn_eq (p : BlakeFields.P) (r t : ℝ) (h : BlakeFields.outcome p r t = .ok) :
    BlakeFields.density p r t = p.ref_density / (1 + BlakeFields.strain_vol p r t)
    ∧ BlakeFields.curr_posn p r t = r + BlakeFields.displacement p r t
    ∧ BlakeFields.position p r t = r := by
  refine ⟨?_, ?_, ?_⟩ <;> epv_on_leaves (first | rfl | epv_leaf_ring)

/-! ### the strain is the derivative of the displacement; the wave equation -/

/-- leaf 1: the generated r-derivative of the displacement formula equals the separately coded radial strain -/
theorem L1_strain_rr_eq_dr (p : BlakeFields.P) (r t : ℝ) (hr : r ≠ 0) (hc : cL p ≠ 0) (hn : nn p ≠ 0)
    (hb : bb p ≠ 0) : BlakeFields.L1.displacement_dr p r t = BlakeFields.L1.strain_rr p r t := by
  simp only [epv_deriv, epv_leaf]
  -- c_L, b, the Poisson fraction, the exponentials (split into exponentials of canonical monomials), sin, cos and
  -- k1's denominator become atoms selected by what they are, not by how the Python writes them; the rest is a
  -- rational identity (EPV/Lemmas/Bridge/BlakeAtoms.lean)
  epv_deton_blake_identity hc hn hb

/-- leaf 1: the displacement formula satisfies the spherical wave equation with speed² = (cL p)² -/
theorem L1_wave (p : BlakeFields.P) (r t : ℝ) (hr : r ≠ 0) (hc : cL p ≠ 0) (hn : nn p ≠ 0) (hb : bb p ≠ 0) :
    BlakeFields.L1.displacement_dt_dt p r t = cL p ^ 2 *
      (BlakeFields.L1.displacement_dr_dr p r t + 2 / r * BlakeFields.L1.displacement_dr p r t
        - 2 * BlakeFields.L1.displacement p r t / r ^ 2) := by
  simp only [epv_deriv, epv_leaf]
  epv_deton_blake_identity hc hn hb

/-- the open set of radii behind the front at time t -/
def behind (p : BlakeFields.P) (t : ℝ) : Set ℝ := {x | p.cavity_radius < x ∧ 0 < tred p x t}
/-- the open set of times after the front has passed r -/
def after (p : BlakeFields.P) (r : ℝ) : Set ℝ := {s | 0 < tred p r s}
/-- the open set of radii ahead of the front at time t -/
def ahead (p : BlakeFields.P) (t : ℝ) : Set ℝ := {x | 0 < x ∧ tred p x t < 0}

theorem behind_open (p : BlakeFields.P) (t : ℝ) : IsOpen (behind p t) := by
  have hc : Continuous (fun x : ℝ => t - (x - p.cavity_radius) / cL p) := by fun_prop
  exact (isOpen_lt continuous_const continuous_id).inter (isOpen_lt continuous_const hc)

theorem after_open (p : BlakeFields.P) (r : ℝ) : IsOpen (after p r) := by
  unfold after tred
  exact isOpen_lt continuous_const (by fun_prop)

theorem ahead_open (p : BlakeFields.P) (t : ℝ) : IsOpen (ahead p t) := by
  have hc : Continuous (fun x : ℝ => t - (x - p.cavity_radius) / cL p) := by fun_prop
  exact (isOpen_lt continuous_const continuous_id).inter (isOpen_lt hc continuous_const)

/-- **ε_rr = ∂u/∂r** behind the front: the returned radial strain is the r-derivative of the returned
displacement (as functions of the radius at fixed time), at every a < r with t' > 0 -/
theorem strain_rr_is_dr_displacement {p : BlakeFields.P} (h : Admissible p) {r t : ℝ}
    (hr : p.cavity_radius < r) (hτ : 0 < tred p r t) :
    HasDerivAt (fun x => BlakeFields.displacement p x t) (BlakeFields.strain_rr p r t) r := by
  have ha := h.radius
  have hr0 : r ≠ 0 := by intro h0; linarith
  rw [(disturbed_leaf ha hr.le hτ).2.1,
    ← L1_strain_rr_eq_dr p r t hr0 (cL_pos h).ne' (nn_pos h).ne' (bb_pos h).ne']
  exact hasDerivAt_of_eqOn_open (behind_open p t) ⟨hr, hτ⟩
    (fun y hy => (disturbed_leaf ha hy.1.le hy.2).1)
    (BlakeFields.L1.displacement_hasDerivAt_r p r t (mul_ne_zero hr0 hr0))

/-- ε_rr = ∂u/∂r at the cavity wall r = a (t > 0), as a derivative from the material side r ≥ a -/
theorem strain_rr_is_dr_displacement_wall {p : BlakeFields.P} (h : Admissible p) {t : ℝ} (ht : 0 < t) :
    HasDerivWithinAt (fun x => BlakeFields.displacement p x t)
      (BlakeFields.strain_rr p p.cavity_radius t) (Set.Ici p.cavity_radius) p.cavity_radius := by
  have ha := h.radius
  have ha0 : p.cavity_radius ≠ 0 := ha.ne'
  have hτ : 0 < tred p p.cavity_radius t := by unfold tred; simpa using ht
  rw [(disturbed_leaf ha le_rfl hτ).2.1,
    ← L1_strain_rr_eq_dr p _ t ha0 (cL_pos h).ne' (nn_pos h).ne' (bb_pos h).ne']
  have hd := (BlakeFields.L1.displacement_hasDerivAt_r p p.cavity_radius t (mul_ne_zero ha0 ha0)).hasDerivWithinAt
    (s := Set.Ici p.cavity_radius)
  refine hd.congr_of_eventuallyEq ?_ (disturbed_leaf ha le_rfl hτ).1
  -- near a, on the side r ≥ a, the front has already passed
  have hopen : IsOpen {x : ℝ | 0 < tred p x t} := by
    unfold tred; exact isOpen_lt continuous_const (by fun_prop)
  have hmem : {x : ℝ | 0 < tred p x t} ∈ nhdsWithin p.cavity_radius (Set.Ici p.cavity_radius) :=
    mem_nhdsWithin_of_mem_nhds (hopen.mem_nhds hτ)
  filter_upwards [hmem, self_mem_nhdsWithin] with x hx hxa
  exact (disturbed_leaf ha hxa hx).1

/-- ε_rr = ∂u/∂r ahead of the front (both vanish identically there) -/
theorem strain_rr_is_dr_displacement_ahead {p : BlakeFields.P} {r t : ℝ} (hr : 0 < r) (hτ : tred p r t < 0) :
    HasDerivAt (fun x => BlakeFields.displacement p x t) (BlakeFields.strain_rr p r t) r := by
  rw [(quiet_leaf hr.le hτ.le).2.2.1]
  exact hasDerivAt_of_eqOn_open (ahead_open p t) ⟨hr, hτ⟩
    (fun y hy => (quiet_leaf hy.1.le hy.2.le).2.1) (hasDerivAt_const r (0 : ℝ))

/-- **wave equation** behind the front:  u_tt = (M/ρ₀) (u_rr + (2/r) u_r - 2u/r²)  for the returned
displacement, with the longitudinal wave speed c_L² = M/ρ₀ = (λ + 2G)/ρ₀ of the material -/
theorem displacement_wave_equation {p : BlakeFields.P} (h : Admissible p) {r t : ℝ}
    (hr : p.cavity_radius < r) (hτ : 0 < tred p r t) :
    waveRes (BlakeFields.displacement p) (p.long_mod / p.ref_density) r t = 0 := by
  have ha := h.radius
  have hr0 : r ≠ 0 := by intro h0; linarith
  have hpos : ∀ y ∈ behind p t, y * y ≠ 0 := fun y hy => by
    have : 0 < y := lt_trans ha hy.1
    positivity
  -- time derivatives
  have e_tt : dt (dt (BlakeFields.displacement p)) r t = BlakeFields.L1.displacement_dt_dt p r t := by
    unfold dt
    exact deriv2_eq_of_eqOn_open (f := fun s => BlakeFields.displacement p r s)
      (g := fun s => BlakeFields.L1.displacement p r s) (g' := fun s => BlakeFields.L1.displacement_dt p r s)
      (after_open p r) hτ (fun s hs => (disturbed_leaf ha hr.le hs).1)
      (fun s _ => BlakeFields.L1.displacement_hasDerivAt_t p r s)
      (BlakeFields.L1.displacement_dt_hasDerivAt_t p r t)
  -- radial derivatives
  have e_r : dr (BlakeFields.displacement p) r t = BlakeFields.L1.displacement_dr p r t := by
    unfold dr
    exact deriv_eq_of_eqOn_open (f := fun x => BlakeFields.displacement p x t)
      (g := fun x => BlakeFields.L1.displacement p x t) (g' := fun x => BlakeFields.L1.displacement_dr p x t)
      (behind_open p t) ⟨hr, hτ⟩ (fun y hy => (disturbed_leaf ha hy.1.le hy.2).1)
      (BlakeFields.L1.displacement_hasDerivAt_r p r t (mul_ne_zero hr0 hr0))
  have e_rr : dr (dr (BlakeFields.displacement p)) r t = BlakeFields.L1.displacement_dr_dr p r t := by
    unfold dr
    exact deriv2_eq_of_eqOn_open (f := fun x => BlakeFields.displacement p x t)
      (g := fun x => BlakeFields.L1.displacement p x t) (g' := fun x => BlakeFields.L1.displacement_dr p x t)
      (behind_open p t) ⟨hr, hτ⟩ (fun y hy => (disturbed_leaf ha hy.1.le hy.2).1)
      (fun y hy => BlakeFields.L1.displacement_hasDerivAt_r p y t (hpos y hy))
      (BlakeFields.L1.displacement_dr_hasDerivAt_r p r t (pow_ne_zero 2 (mul_ne_zero hr0 hr0)) (mul_ne_zero hr0 hr0))
  unfold waveRes
  rw [e_tt, e_r, e_rr, (disturbed_leaf ha hr.le hτ).1, ← EPV.Blake.cL_sq h,
    L1_wave p r t hr0 (cL_pos h).ne' (nn_pos h).ne' (bb_pos h).ne']
  ring

/-- the same with the speed written in the Lamé moduli: c_L² = (λ + 2G)/ρ₀ -/
theorem displacement_wave_equation_lame {p : BlakeFields.P} (h : Admissible p) {r t : ℝ}
    (hr : p.cavity_radius < r) (hτ : 0 < tred p r t) :
    waveRes (BlakeFields.displacement p) ((p.lame_mod + 2 * p.shear_mod) / p.ref_density) r t = 0 := by
  obtain ⟨E, K, m⟩ := h.material
  rw [← m.long]; exact displacement_wave_equation h hr hτ

/-- ahead of the front the (identically vanishing) displacement satisfies the wave equation trivially -/
theorem displacement_wave_equation_ahead {p : BlakeFields.P} {r t : ℝ} (c2 : ℝ) (hr : 0 < r) (hτ : tred p r t < 0) :
    waveRes (BlakeFields.displacement p) c2 r t = 0 := by
  have hopen : IsOpen {s : ℝ | tred p r s < 0} := by
    unfold tred; exact isOpen_lt (by fun_prop) continuous_const
  have e_tt : dt (dt (BlakeFields.displacement p)) r t = 0 := by
    unfold dt
    exact deriv2_eq_of_eqOn_open (f := fun s => BlakeFields.displacement p r s)
      (g := fun _ => (0 : ℝ)) (g' := fun _ => (0 : ℝ)) hopen hτ
      (fun s hs => (quiet_leaf hr.le (le_of_lt hs)).2.1) (fun s _ => hasDerivAt_const s (0 : ℝ))
      (hasDerivAt_const t (0 : ℝ))
  have e_r : dr (BlakeFields.displacement p) r t = 0 := by
    unfold dr
    exact deriv_eq_of_eqOn_open (f := fun x => BlakeFields.displacement p x t)
      (g := fun _ => (0 : ℝ)) (g' := fun _ => (0 : ℝ)) (ahead_open p t) ⟨hr, hτ⟩
      (fun y hy => (quiet_leaf hy.1.le hy.2.le).2.1) (hasDerivAt_const r (0 : ℝ))
  have e_rr : dr (dr (BlakeFields.displacement p)) r t = 0 := by
    unfold dr
    exact deriv2_eq_of_eqOn_open (f := fun x => BlakeFields.displacement p x t)
      (g := fun _ => (0 : ℝ)) (g' := fun _ => (0 : ℝ)) (ahead_open p t) ⟨hr, hτ⟩
      (fun y hy => (quiet_leaf hy.1.le hy.2.le).2.1) (fun y _ => hasDerivAt_const y (0 : ℝ))
      (hasDerivAt_const r (0 : ℝ))
  unfold waveRes
  rw [e_tt, e_r, e_rr, (quiet_leaf hr.le hτ.le).2.1]
  ring

/-! ### boundary condition and causality -/

/-- **σ_rr(a, t) = -P₀** for every t > 0: the returned radial stress on the cavity wall is minus the
applied pressure -/
theorem wall_stress {p : BlakeFields.P} (h : Admissible p) {t : ℝ} (ht : 0 < t) :
    BlakeFields.stress_rr p p.cavity_radius t = -p.pressure_scale := by
  have ha := h.radius
  have hτ : 0 < tred p p.cavity_radius t := by unfold tred; simpa using ht
  rw [(disturbed_leaf ha le_rfl hτ).2.2]
  obtain ⟨E, K, m⟩ := h.material
  have hc := (cL_pos h).ne'; have hn := (nn_pos h).ne'; have hb := (bb_pos h).ne'
  have r1 := bb_nn_rel h; have r2 := nn_rel h; have r3 := cL_sq h
  have hρ := h.density
  have hM := m.long
  have hG := m.shear_pos
  simp only [epv_leaf]
  -- atoms by what they are (EPV/Lemmas/Bridge/BlakeAtoms.lean): c_L, b, the Poisson fraction q
  epv_deton_blake_atoms hc hn hb
  -- the material relations in these atoms; n = q c_L / a becomes a variable of its own
  unfold nn at r1 r2
  simp only [← eb, ← ecl, ← eq] at r1 r2 r3
  clear ecl eb eq hc hn hb
  obtain ⟨n, rfl⟩ : ∃ n, q = n * p.cavity_radius / cl := ⟨q * cl / p.cavity_radius, by field_simp⟩
  have hn0 : n ≠ 0 := by intro h0; apply hq; rw [h0]; simp
  -- canonical arguments; exponentials of monomials, sin, cos as atoms
  epv_deton_blake_canon
  generalize p.cavity_radius = a at *
  generalize p.ref_density = ρ at *
  generalize p.pressure_scale = P at *
  generalize p.lame_mod = lam at *
  generalize p.shear_mod = G at *
  generalize p.long_mod = M at *
  -- eliminate M, λ, G and a through the material relations
  have hρM : M = ρ * cl ^ 2 := by rw [r3]; field_simp
  subst hρM
  obtain rfl : lam = ρ * cl ^ 2 - 2 * G := by linarith
  have hG' : G = n * ρ * cl * a / 2 := by
    field_simp at r2
    linarith
  subst hG'
  have hbn : 0 < b ^ 2 + n ^ 2 := by positivity
  have hA : a = 2 * n * cl / (b ^ 2 + n ^ 2) := by
    field_simp at r1 ⊢
    linarith
  subst hA
  epv_deton_fs
  ring

/-- **causality**: for t ≤ (r - a)/c_L (the front has not arrived, or is just arriving) the returned
displacement and strains — and with them stresses and pressure — vanish -/
theorem vanishes_ahead_of_front (p : BlakeFields.P) {r t : ℝ} (hr : 0 ≤ r)
    (hτ : t ≤ (r - p.cavity_radius) / cL p) :
    BlakeFields.displacement p r t = 0 ∧ BlakeFields.strain_rr p r t = 0 ∧ BlakeFields.strain_qq p r t = 0
    ∧ BlakeFields.stress_rr p r t = 0 ∧ BlakeFields.stress_qq p r t = 0 ∧ BlakeFields.pressure p r t = 0 :=
  (quiet_leaf hr (by unfold tred; linarith)).2

/-- … and the density is the reference density there -/
theorem density_ahead_of_front (p : BlakeFields.P) {r t : ℝ} (hr : 0 < r)
    (hτ : t ≤ (r - p.cavity_radius) / cL p) : BlakeFields.density p r t = p.ref_density := by
  have hq := quiet_leaf hr.le (show tred p r t ≤ 0 by unfold tred; linarith)
  rw [(density_posn_eq p r t hq.1).1, strain_vol_eq p r t hq.1, hq.2.2.1, hq.2.2.2.1]
  simp

/-! ### non-vacuity at the default problem -/

example : Admissible dflt := dflt_admissible

/-- r = 0.2 m at the default snapshot time 1.6e-4 s lies behind the front -/
example : dflt.cavity_radius < (1 / 5 : ℝ) ∧ 0 < tred dflt (1 / 5) (16 / 100000) := by
  unfold tred; rw [dflt_cL]; norm_num [dflt]

/-- r = 1 m at the same time lies ahead of the front -/
example : (16 / 100000 : ℝ) ≤ ((1 : ℝ) - dflt.cavity_radius) / cL dflt := by
  rw [dflt_cL]; norm_num [dflt]

end EPV.C15
