/-
C11 companions / C01 share — the similarity functions of `sedov_funcs_standard` and the two
energy integrands `efun01`, `efun02`, on the generated models SedovFuncs (special_singularity
none), SedovFuncsO2 (omega2), SedovFuncsO3 (omega3); the derived constants a0…a5, a_val…e_val,
xg2, gamp1, gpogm, geometry, omega are arbitrary reals (stronger than what `__init__` produces).

  * (Props/C01/Sedov.lean: the coded `dlamdv` is the derivative of the coded λ(v), all three
    singularity branches;)
  * `*_efun01_pullback`, `*_efun02_pullback`: the integrands of `quad` in `__init__` are the
    λ-space energy integrands (the ones `EPV.C11.eval1`, `eval2` integrate) composed with λ(v),
    times dλ/dv — i.e. `quad(efun0i, vmin, v2)` is the λ-space integral after substitution.
    The substitution rule itself across the endpoint singularity (λ → 0 as v → vmin, where
    λ is not differentiable) is a hypothesis of `sedov_eval_of_substitution_partial`.
-/
import EPV.Lemmas.SedovFuncs
import EPV.Spec.Sedov
import EPV.Tactics

set_option linter.all false
set_option maxRecDepth 100000

open EPV EPV.Gen EPV.Sedov

namespace EPV.C11

/-- SedovFuncs (C11 companion): `efun02` is the λ-space internal-energy integrand h λ^(k-1), times the
constant 8/((k+2-ω)²(γ+1)), pulled back along λ(v), times dλ/dv — no side condition -/
theorem SedovFuncs_efun02_pullback (p : SedovFuncs.P) (v : ℝ) (hleaf : SedovFuncs.leaf p v = 1) :
    SedovFuncs.efun02 p v = 8 / ((p.geometry + 2 - p.omega) ^ 2 * p.gamp1)
      * (SedovFuncs.h_fun p v * SedovFuncs.l_fun p v ^ (p.geometry - 1)) * SedovFuncs.dlamdv p v := by
  obtain ⟨h0, h1⟩ := (SedovFuncs_leaf1 p v).mp hleaf
  simp only [epv_tree, h0, h1, if_false, if_true]
  simp only [epv_semi_leaf]
  ring

/-- SedovFuncs (C11 companion): `efun01` is the λ-space kinetic-energy integrand g f² λ^(k-1), times
the constant gpogm / a_val², pulled back along λ(v), times dλ/dv (uses f = a_val·v·λ) -/
theorem SedovFuncs_efun01_pullback (p : SedovFuncs.P) (v : ℝ) (hleaf : SedovFuncs.leaf p v = 1)
    (ha : p.a_val ≠ 0) (hl : 0 < SedovFuncs.l_fun p v) :
    SedovFuncs.efun01 p v = p.gpogm / p.a_val ^ 2
      * (SedovFuncs.g_fun p v * SedovFuncs.f_fun p v ^ 2 * SedovFuncs.l_fun p v ^ (p.geometry - 1)) * SedovFuncs.dlamdv p v := by
  obtain ⟨h0, h1⟩ := (SedovFuncs_leaf1 p v).mp hleaf
  have hf : SedovFuncs.f_fun p v = p.a_val * v * SedovFuncs.l_fun p v := by
    simp only [epv_tree, h0, h1, if_false, if_true]
    simp only [epv_semi_leaf]
  have he : SedovFuncs.efun01 p v = SedovFuncs.dlamdv p v * SedovFuncs.l_fun p v ^ (p.geometry + 1) * p.gpogm
      * SedovFuncs.g_fun p v * v ^ 2 := by
    simp only [epv_tree, h0, h1, if_false, if_true]
    simp only [epv_semi_leaf]
  have hpow : SedovFuncs.l_fun p v ^ (p.geometry + 1) = SedovFuncs.l_fun p v ^ (p.geometry - 1) * SedovFuncs.l_fun p v ^ 2 := by
    have e : p.geometry + 1 = (p.geometry - 1) + (2 : ℝ) := by ring
    rw [e, Real.rpow_add hl]
    norm_cast
  rw [he, hf, hpow]
  field_simp

/-- SedovFuncsO2 (C11 companion): `efun02` is the λ-space internal-energy integrand h λ^(k-1), times the
constant 8/((k+2-ω)²(γ+1)), pulled back along λ(v), times dλ/dv — no side condition -/
theorem SedovFuncsO2_efun02_pullback (p : SedovFuncsO2.P) (v : ℝ) (hleaf : SedovFuncsO2.leaf p v = 1) :
    SedovFuncsO2.efun02 p v = 8 / ((p.geometry + 2 - p.omega) ^ 2 * p.gamp1)
      * (SedovFuncsO2.h_fun p v * SedovFuncsO2.l_fun p v ^ (p.geometry - 1)) * SedovFuncsO2.dlamdv p v := by
  obtain ⟨h0, h1⟩ := (SedovFuncsO2_leaf1 p v).mp hleaf
  simp only [epv_tree, h0, h1, if_false, if_true]
  simp only [epv_semi_leaf]
  ring

/-- SedovFuncsO2 (C11 companion): `efun01` is the λ-space kinetic-energy integrand g f² λ^(k-1), times
the constant gpogm / a_val², pulled back along λ(v), times dλ/dv (uses f = a_val·v·λ) -/
theorem SedovFuncsO2_efun01_pullback (p : SedovFuncsO2.P) (v : ℝ) (hleaf : SedovFuncsO2.leaf p v = 1)
    (ha : p.a_val ≠ 0) (hl : 0 < SedovFuncsO2.l_fun p v) :
    SedovFuncsO2.efun01 p v = p.gpogm / p.a_val ^ 2
      * (SedovFuncsO2.g_fun p v * SedovFuncsO2.f_fun p v ^ 2 * SedovFuncsO2.l_fun p v ^ (p.geometry - 1)) * SedovFuncsO2.dlamdv p v := by
  obtain ⟨h0, h1⟩ := (SedovFuncsO2_leaf1 p v).mp hleaf
  have hf : SedovFuncsO2.f_fun p v = p.a_val * v * SedovFuncsO2.l_fun p v := by
    simp only [epv_tree, h0, h1, if_false, if_true]
    simp only [epv_semi_leaf]
  have he : SedovFuncsO2.efun01 p v = SedovFuncsO2.dlamdv p v * SedovFuncsO2.l_fun p v ^ (p.geometry + 1) * p.gpogm
      * SedovFuncsO2.g_fun p v * v ^ 2 := by
    simp only [epv_tree, h0, h1, if_false, if_true]
    simp only [epv_semi_leaf]
  have hpow : SedovFuncsO2.l_fun p v ^ (p.geometry + 1) = SedovFuncsO2.l_fun p v ^ (p.geometry - 1) * SedovFuncsO2.l_fun p v ^ 2 := by
    have e : p.geometry + 1 = (p.geometry - 1) + (2 : ℝ) := by ring
    rw [e, Real.rpow_add hl]
    norm_cast
  rw [he, hf, hpow]
  field_simp

/-- SedovFuncsO3 (C11 companion): `efun02` is the λ-space internal-energy integrand h λ^(k-1), times the
constant 8/((k+2-ω)²(γ+1)), pulled back along λ(v), times dλ/dv — no side condition -/
theorem SedovFuncsO3_efun02_pullback (p : SedovFuncsO3.P) (v : ℝ) (hleaf : SedovFuncsO3.leaf p v = 1) :
    SedovFuncsO3.efun02 p v = 8 / ((p.geometry + 2 - p.omega) ^ 2 * p.gamp1)
      * (SedovFuncsO3.h_fun p v * SedovFuncsO3.l_fun p v ^ (p.geometry - 1)) * SedovFuncsO3.dlamdv p v := by
  obtain ⟨h0, h1⟩ := (SedovFuncsO3_leaf1 p v).mp hleaf
  simp only [epv_tree, h0, h1, if_false, if_true]
  simp only [epv_semi_leaf]
  ring

/-- SedovFuncsO3 (C11 companion): `efun01` is the λ-space kinetic-energy integrand g f² λ^(k-1), times
the constant gpogm / a_val², pulled back along λ(v), times dλ/dv (uses f = a_val·v·λ) -/
theorem SedovFuncsO3_efun01_pullback (p : SedovFuncsO3.P) (v : ℝ) (hleaf : SedovFuncsO3.leaf p v = 1)
    (ha : p.a_val ≠ 0) (hl : 0 < SedovFuncsO3.l_fun p v) :
    SedovFuncsO3.efun01 p v = p.gpogm / p.a_val ^ 2
      * (SedovFuncsO3.g_fun p v * SedovFuncsO3.f_fun p v ^ 2 * SedovFuncsO3.l_fun p v ^ (p.geometry - 1)) * SedovFuncsO3.dlamdv p v := by
  obtain ⟨h0, h1⟩ := (SedovFuncsO3_leaf1 p v).mp hleaf
  have hf : SedovFuncsO3.f_fun p v = p.a_val * v * SedovFuncsO3.l_fun p v := by
    simp only [epv_tree, h0, h1, if_false, if_true]
    simp only [epv_semi_leaf]
  have he : SedovFuncsO3.efun01 p v = SedovFuncsO3.dlamdv p v * SedovFuncsO3.l_fun p v ^ (p.geometry + 1) * p.gpogm
      * SedovFuncsO3.g_fun p v * v ^ 2 := by
    simp only [epv_tree, h0, h1, if_false, if_true]
    simp only [epv_semi_leaf]
  have hpow : SedovFuncsO3.l_fun p v ^ (p.geometry + 1) = SedovFuncsO3.l_fun p v ^ (p.geometry - 1) * SedovFuncsO3.l_fun p v ^ 2 := by
    have e : p.geometry + 1 = (p.geometry - 1) + (2 : ℝ) := by ring
    rw [e, Real.rpow_add hl]
    norm_cast
  rw [he, hf, hpow]
  field_simp

open EPV.Spec.Sedov MeasureTheory

/-- SedovFuncs (C11 companion, PARTIAL): IF the substitution rule λ = λ(v), dλ = (dλ/dv) dv holds for the
two λ-space energy integrands between v = vmin (λ = 0) and v = v2 (λ = 1) — hypotheses `hsub1`,
`hsub2`: λ(v) is not differentiable at the endpoint vmin (λ ~ (v - vmin)^(-a2)), so Mathlib's
`integral_comp_mul_deriv` does not apply directly; this improper change of variables is the
assumed step — and f, g, h are the similarity functions in λ-space (`hf`, `hg`, `hh`: what the root
finding v(λ) computes), THEN the two integrals `quad(efun01, vmin, v2)`, `quad(efun02, vmin, v2)`
of `__init__` are the constants gpogm/a_val², 8/((k+2-ω)²(γ+1)) times the λ-space integrals
`J1`, `J2` — i.e. `eval1`, `eval2` of the energy theorem `sedov_energy` once gpogm, a_val, gamp1
have the values `__init__` gives them. -/
theorem SedovFuncs_eval_of_substitution_partial (q : SedovFuncs.P) (k : ℕ) (hk : 1 ≤ k) (hgeo : q.geometry = k)
    (vmin v2 : ℝ) (f g h : ℝ → ℝ) (ha : q.a_val ≠ 0)
    (hleaf : ∀ v ∈ Set.uIoc vmin v2, SedovFuncs.leaf q v = 1)
    (hl : ∀ v ∈ Set.uIoc vmin v2, 0 < SedovFuncs.l_fun q v)
    (hf : ∀ v ∈ Set.uIoc vmin v2, f (SedovFuncs.l_fun q v) = SedovFuncs.f_fun q v)
    (hg : ∀ v ∈ Set.uIoc vmin v2, g (SedovFuncs.l_fun q v) = SedovFuncs.g_fun q v)
    (hh : ∀ v ∈ Set.uIoc vmin v2, h (SedovFuncs.l_fun q v) = SedovFuncs.h_fun q v)
    (hsub1 : ∫ v in vmin..v2, (fun x => g x * f x ^ 2 * x ^ (k - 1)) (SedovFuncs.l_fun q v) * SedovFuncs.dlamdv q v = J1 k f g)
    (hsub2 : ∫ v in vmin..v2, (fun x => h x * x ^ (k - 1)) (SedovFuncs.l_fun q v) * SedovFuncs.dlamdv q v = J2 k h) :
    ∫ v in vmin..v2, SedovFuncs.efun01 q v = q.gpogm / q.a_val ^ 2 * J1 k f g ∧
    ∫ v in vmin..v2, SedovFuncs.efun02 q v = 8 / ((q.geometry + 2 - q.omega) ^ 2 * q.gamp1) * J2 k h := by
  have hkr : q.geometry - 1 = ((k - 1 : ℕ) : ℝ) := by
    rw [hgeo, Nat.cast_sub hk]; norm_num
  constructor
  · rw [← hsub1, ← intervalIntegral.integral_const_mul]
    apply intervalIntegral.integral_congr_ae
    refine Filter.Eventually.of_forall fun v hv => ?_
    rw [SedovFuncs_efun01_pullback q v (hleaf v hv) ha (hl v hv), hkr, Real.rpow_natCast]
    simp only
    rw [hf v hv, hg v hv]
    ring
  · rw [← hsub2, ← intervalIntegral.integral_const_mul]
    apply intervalIntegral.integral_congr_ae
    refine Filter.Eventually.of_forall fun v hv => ?_
    rw [SedovFuncs_efun02_pullback q v (hleaf v hv), hkr, Real.rpow_natCast]
    simp only
    rw [hh v hv]
    ring

/-- SedovFuncsO2 (C11 companion, PARTIAL): IF the substitution rule λ = λ(v), dλ = (dλ/dv) dv holds for the
two λ-space energy integrands between v = vmin (λ = 0) and v = v2 (λ = 1) — hypotheses `hsub1`,
`hsub2`: λ(v) is not differentiable at the endpoint vmin (λ ~ (v - vmin)^(-a2)), so Mathlib's
`integral_comp_mul_deriv` does not apply directly; this improper change of variables is the
assumed step — and f, g, h are the similarity functions in λ-space (`hf`, `hg`, `hh`: what the root
finding v(λ) computes), THEN the two integrals `quad(efun01, vmin, v2)`, `quad(efun02, vmin, v2)`
of `__init__` are the constants gpogm/a_val², 8/((k+2-ω)²(γ+1)) times the λ-space integrals
`J1`, `J2` — i.e. `eval1`, `eval2` of the energy theorem `sedov_energy` once gpogm, a_val, gamp1
have the values `__init__` gives them. -/
theorem SedovFuncsO2_eval_of_substitution_partial (q : SedovFuncsO2.P) (k : ℕ) (hk : 1 ≤ k) (hgeo : q.geometry = k)
    (vmin v2 : ℝ) (f g h : ℝ → ℝ) (ha : q.a_val ≠ 0)
    (hleaf : ∀ v ∈ Set.uIoc vmin v2, SedovFuncsO2.leaf q v = 1)
    (hl : ∀ v ∈ Set.uIoc vmin v2, 0 < SedovFuncsO2.l_fun q v)
    (hf : ∀ v ∈ Set.uIoc vmin v2, f (SedovFuncsO2.l_fun q v) = SedovFuncsO2.f_fun q v)
    (hg : ∀ v ∈ Set.uIoc vmin v2, g (SedovFuncsO2.l_fun q v) = SedovFuncsO2.g_fun q v)
    (hh : ∀ v ∈ Set.uIoc vmin v2, h (SedovFuncsO2.l_fun q v) = SedovFuncsO2.h_fun q v)
    (hsub1 : ∫ v in vmin..v2, (fun x => g x * f x ^ 2 * x ^ (k - 1)) (SedovFuncsO2.l_fun q v) * SedovFuncsO2.dlamdv q v = J1 k f g)
    (hsub2 : ∫ v in vmin..v2, (fun x => h x * x ^ (k - 1)) (SedovFuncsO2.l_fun q v) * SedovFuncsO2.dlamdv q v = J2 k h) :
    ∫ v in vmin..v2, SedovFuncsO2.efun01 q v = q.gpogm / q.a_val ^ 2 * J1 k f g ∧
    ∫ v in vmin..v2, SedovFuncsO2.efun02 q v = 8 / ((q.geometry + 2 - q.omega) ^ 2 * q.gamp1) * J2 k h := by
  have hkr : q.geometry - 1 = ((k - 1 : ℕ) : ℝ) := by
    rw [hgeo, Nat.cast_sub hk]; norm_num
  constructor
  · rw [← hsub1, ← intervalIntegral.integral_const_mul]
    apply intervalIntegral.integral_congr_ae
    refine Filter.Eventually.of_forall fun v hv => ?_
    rw [SedovFuncsO2_efun01_pullback q v (hleaf v hv) ha (hl v hv), hkr, Real.rpow_natCast]
    simp only
    rw [hf v hv, hg v hv]
    ring
  · rw [← hsub2, ← intervalIntegral.integral_const_mul]
    apply intervalIntegral.integral_congr_ae
    refine Filter.Eventually.of_forall fun v hv => ?_
    rw [SedovFuncsO2_efun02_pullback q v (hleaf v hv), hkr, Real.rpow_natCast]
    simp only
    rw [hh v hv]
    ring

/-- SedovFuncsO3 (C11 companion, PARTIAL): IF the substitution rule λ = λ(v), dλ = (dλ/dv) dv holds for the
two λ-space energy integrands between v = vmin (λ = 0) and v = v2 (λ = 1) — hypotheses `hsub1`,
`hsub2`: λ(v) is not differentiable at the endpoint vmin (λ ~ (v - vmin)^(-a2)), so Mathlib's
`integral_comp_mul_deriv` does not apply directly; this improper change of variables is the
assumed step — and f, g, h are the similarity functions in λ-space (`hf`, `hg`, `hh`: what the root
finding v(λ) computes), THEN the two integrals `quad(efun01, vmin, v2)`, `quad(efun02, vmin, v2)`
of `__init__` are the constants gpogm/a_val², 8/((k+2-ω)²(γ+1)) times the λ-space integrals
`J1`, `J2` — i.e. `eval1`, `eval2` of the energy theorem `sedov_energy` once gpogm, a_val, gamp1
have the values `__init__` gives them. -/
theorem SedovFuncsO3_eval_of_substitution_partial (q : SedovFuncsO3.P) (k : ℕ) (hk : 1 ≤ k) (hgeo : q.geometry = k)
    (vmin v2 : ℝ) (f g h : ℝ → ℝ) (ha : q.a_val ≠ 0)
    (hleaf : ∀ v ∈ Set.uIoc vmin v2, SedovFuncsO3.leaf q v = 1)
    (hl : ∀ v ∈ Set.uIoc vmin v2, 0 < SedovFuncsO3.l_fun q v)
    (hf : ∀ v ∈ Set.uIoc vmin v2, f (SedovFuncsO3.l_fun q v) = SedovFuncsO3.f_fun q v)
    (hg : ∀ v ∈ Set.uIoc vmin v2, g (SedovFuncsO3.l_fun q v) = SedovFuncsO3.g_fun q v)
    (hh : ∀ v ∈ Set.uIoc vmin v2, h (SedovFuncsO3.l_fun q v) = SedovFuncsO3.h_fun q v)
    (hsub1 : ∫ v in vmin..v2, (fun x => g x * f x ^ 2 * x ^ (k - 1)) (SedovFuncsO3.l_fun q v) * SedovFuncsO3.dlamdv q v = J1 k f g)
    (hsub2 : ∫ v in vmin..v2, (fun x => h x * x ^ (k - 1)) (SedovFuncsO3.l_fun q v) * SedovFuncsO3.dlamdv q v = J2 k h) :
    ∫ v in vmin..v2, SedovFuncsO3.efun01 q v = q.gpogm / q.a_val ^ 2 * J1 k f g ∧
    ∫ v in vmin..v2, SedovFuncsO3.efun02 q v = 8 / ((q.geometry + 2 - q.omega) ^ 2 * q.gamp1) * J2 k h := by
  have hkr : q.geometry - 1 = ((k - 1 : ℕ) : ℝ) := by
    rw [hgeo, Nat.cast_sub hk]; norm_num
  constructor
  · rw [← hsub1, ← intervalIntegral.integral_const_mul]
    apply intervalIntegral.integral_congr_ae
    refine Filter.Eventually.of_forall fun v hv => ?_
    rw [SedovFuncsO3_efun01_pullback q v (hleaf v hv) ha (hl v hv), hkr, Real.rpow_natCast]
    simp only
    rw [hf v hv, hg v hv]
    ring
  · rw [← hsub2, ← intervalIntegral.integral_const_mul]
    apply intervalIntegral.integral_congr_ae
    refine Filter.Eventually.of_forall fun v hv => ?_
    rw [SedovFuncsO3_efun02_pullback q v (hleaf v hv), hkr, Real.rpow_natCast]
    simp only
    rw [hh v hv]
    ring

/-- with the constants `__init__` computes (generated SedovInit: gpogm = (γ+1)/(γ-1),
a_val = ¼(k+2-ω)(γ+1), gamp1 = γ+1) the right-hand sides above are `eval1`, `eval2` -/
theorem eval_constants (k : ℕ) (γ ω : ℝ) (f g h : ℝ → ℝ) :
    ((γ + 1) / (γ - 1)) / ((1 / 4) * ((k : ℝ) + 2 - ω) * (γ + 1)) ^ 2 * J1 k f g = eval1 k γ ω f g ∧
    8 / (((k : ℝ) + 2 - ω) ^ 2 * (γ + 1)) * J2 k h = eval2 k γ ω h := ⟨rfl, rfl⟩

/-! ### non-vacuity: the hypotheses hold at the constants `__init__` computes for the default
spherical problem (γ = 7/5, ω = 0: special_singularity none, v = 0.3 ∈ (v0, v2) = (2/7, 1/3)), for
the omega2 problem (γ = 7/5, k = 3, ω = 19/7, vacuum type, v = 0.8 ∈ (v2, vv)) and for the omega3
problem (γ = 7/5, k = 3, ω = 9/5, v = 0.5 ∈ (v0, v2)) -/

noncomputable def exStd : SedovFuncs.P :=
  { a0 := 2/5, a1 := 173/380, a2 := -2/19, a3 := 15/19, a4 := 865/228, a5 := -10/3, a_val := 3, b_val := 6,
    c_val := 7/2, d_val := 15/7, e_val := 8/5, gamp1 := 12/5, geometry := 3, gpogm := 6, omega := 0, xg2 := 5 }
noncomputable def exO2 : SedovFuncsO2.P :=
  { a0 := 7/8, a5 := -9/16, a_val := 48/35, b_val := 6, c_val := 8/5, e_val := 8/5, gamm1 := 2/5, gamma := 7/5,
    gamp1 := 12/5, geometry := 3, gpogm := 6, omega := 19/7, xg2 := 16/7 }
noncomputable def exO3 : SedovFuncsO3.P :=
  { a0 := 5/8, a1 := 7/16, a2 := -5/16, a3 := 15/16, a_val := 48/25, b_val := 6, c_val := 56/25, e_val := 8/5,
    gamm1 := 2/5, gamma := 7/5, gamp1 := 12/5, geometry := 3, gpogm := 6, omega := 9/5, xg2 := 16/5 }

example : (0 < exStd.a_val * (3/10) ∧ 0 < exStd.b_val * (exStd.c_val * (3/10) - 1) ∧ 0 < exStd.d_val * (1 - exStd.e_val * (3/10)))
    ∧ SedovFuncs.leaf exStd (3/10) = 1 ∧ exStd.a_val ≠ 0 := by
  refine ⟨by norm_num [exStd], ?_, by norm_num [exStd]⟩
  rw [SedovFuncs_leaf1]; simp only [epv_semi_cond, exStd]; norm_num
example : (0 < exO2.a_val * (4/5) ∧ 0 < exO2.b_val * (exO2.c_val * (4/5) - 1) ∧ exO2.a_val * (4/5) - 1 / 2 * exO2.gamp1 / exO2.gamma ≠ 0)
    ∧ SedovFuncsO2.leaf exO2 (4/5) = 1 := by
  refine ⟨by norm_num [exO2], ?_⟩
  rw [SedovFuncsO2_leaf1]; simp only [epv_semi_cond, exO2]; norm_num
example : (0 < exO3.a_val * (1/2) ∧ 0 < exO3.b_val * (exO3.c_val * (1/2) - 1) ∧ 0 < exO3.b_val * (1 - 1 / 2 * exO3.xg2 * (1/2)))
    ∧ SedovFuncsO3.leaf exO3 (1/2) = 1 := by
  refine ⟨by norm_num [exO3], ?_⟩
  rw [SedovFuncsO3_leaf1]; simp only [epv_semi_cond, exO3]; norm_num

end EPV.C11
