/-
C11 — Sedov, the ENERGY statement on the code's own similarity functions and the code's own alpha
(work package sedov3): the last `_partial` hypothesis of the energy half of C11 is closed.

  `sedov_energy` (Props/C11/Sedov.lean) holds for arbitrary f, g, h with alpha DEFINED from the
  λ-space energy integrals; `*_eval_of_substitution_partial` (Props/C11/SedovIntegrands.lean) assumed
  that the v-space quadratures `eval1 = ∫ efun01 dv`, `eval2 = ∫ efun02 dv` of `__init__` equal those
  λ-space integrals (hypotheses `hsub1`, `hsub2`: the improper change of variables v ↔ λ across the
  singular end of the branch) and `sedov_energy` assumed interval integrability of the λ-space
  integrands and alpha > 0.

Here all of that is PROVED (Lemmas/SedovEnergy{Abstract,,Std,Vac,O2,O3}.lean: monotone change of
variables on the open branch + integrability from the one-signed exact mass differential of wp
sedov2 and from continuity of the pressure function up to the singular end), so that

  `sedov_energy_code`:  for the traced constructor (generated model SedovInit: alpha as `__init__`
  computes it from the two quadratures), documented parameters, every t > 0,
        A_k ∫₀^{r2(t)} (½ ρ u² + p/(γ-1)) r^(k-1) dr = eblast
  for the fields ρ₂ g, u₂ f, p₂ h of `_run`, where f, g, h are the traced closed forms of
  `sedov_funcs_standard` as functions of λ,

leaving exactly two ATOMS (hypotheses, the trusted numerical base):
  (quad)  `eval1_quad`, `eval2_quad` — what `scipy.integrate.quad(self.efun01|efun02, vmin, v2)` returns —
          ARE the integrals of the traced integrands over the code's limits (vmin = v0 for the standard,
          vmin = vv for the vacuum type, upper limit v2);
  (root)  f, g, h are functions of λ with f(λ(v)) = F(v), g(λ(v)) = G(v), h(λ(v)) = H(v) strictly inside
          the branch — what the root finder v(λ) (`fminbound`) computes — and g = h = 0 inside the vacuum
          boundary (`sedov_funcs_vacuum`).
Nothing else: no integrability, no limit, no sign hypothesis; alpha > 0 is a consequence.

Covered constructor paths (`Atoms`): solution type standard or vacuum with special_singularity none
(every such parameter set), and the omega2 / omega3 closed forms AT the exactly special ω (on the rest of
the bands |denom| ≤ 1e-4 the coded closed forms are approximations; there `sedov_energy_band_omega3_partial`
shows that the ENERGY statement still holds exactly on the omega3 band — what is off inside a band is alpha
itself, the mass integral and the ODE residuals, O(|denom|): oracle `o_sedov3.band`).  The singular type is `sedov_energy_singular` (Props/C11/Sedov.lean).

On the guards: the integrands are LEAF 1 of the traced `efun01`, `efun02` (neither clamp
`max(1e-30, c_val v - 1)`, `max(x4, 1e-12)` active).  Every v of the branch with c_val v - 1 > 1e-30 and
x4 ≥ 1e-12 selects that leaf (`code_integrand_is_leaf1`); the clamps change the integrand only on a
sliver of v-length 1e-30 / c_val next to v0 (below the spacing of doubles: no quadrature node lies in
it) and where x4 < 1e-12 next to vv.

Is the energy integrand integrable for every admissible parameter set?  YES: the density exponent at the
vacuum edge satisfies a5 > -1 on the whole vacuum type (1 + a5 = -γ(k-ω)/denom3 with denom3 < 0), and at
the origin of the standard type λ^(k+1) g λ' ~ x2^(γ(k-ω)/denom2 + 2(γ-1)/denom2 - 1) with exponent > -1.
No finding about the documented domain results from the exponents.
-/
import EPV.Lemmas.SedovEnergyStd
import EPV.Lemmas.SedovEnergyVac
import EPV.Lemmas.SedovEnergyO2
import EPV.Lemmas.SedovEnergyO3
import EPV.Lemmas.SedovEnergyBand
import EPV.Lemmas.SedovInit
import EPV.Gen.SedovQuad
import EPV.Lemmas.Bridge.SemiSedovInit
import EPV.Spec.Sedov

set_option linter.all false
set_option maxRecDepth 100000

open EPV EPV.Gen EPV.Spec.Sedov EPV.Spec.SedovODE EPV.Lemmas.Sedov EPV.Sedov EPV.Sedov.Energy MeasureTheory Set

namespace EPV.C11

noncomputable section

/-- a traced condition of SedovInit at concrete parameter values (known definitionally): substitute the values and
evaluate — whatever form the Python gives the test (no literal `show` of the generated term) -/
local macro "init_cond_at " qi:ident γ:term:max k:term:max ω:term:max : tactic =>
  `(tactic| (have eγ : SedovInit.P.gamma $qi = $γ := rfl
             have ek : SedovInit.P.geometry $qi = $k := rfl
             have eω : SedovInit.P.omega $qi = $ω := rfl
             simp only [epv_semi_cond, eγ, ek, eω, abs_le]
             norm_num))

/-- the parameters of the SedovInit trace as input of the SedovConsts trace (the same constructor,
traced with the constants of `sedov_funcs_standard` as outputs) -/
def constsOf (qi : SedovInit.P) : SedovConsts.P :=
  { eblast := qi.eblast, gamma := qi.gamma, geometry := qi.geometry, omega := qi.omega, rho0 := qi.rho0 }

/-- the object `_run` works on: the five parameters, and `alpha` AS THE TRACED CONSTRUCTOR COMPUTES IT -/
def shockOf (qi : SedovInit.P) : SedovShock.P :=
  { alpha := SedovInit.alpha qi, eblast := qi.eblast, gamma := qi.gamma, geometry := qi.geometry,
    omega := qi.omega, rho0 := qi.rho0 }

/-- on every accepting path that is not of the singular type the traced constructor sets
alpha = alphaCode(geometry, γ, eval1_quad, eval2_quad)  (sedov.py:166-180; repeated from
Props/C11/SedovAlpha.lean, Props files being leaves) -/
theorem init_alpha (p : SedovInit.P) (A : Accepted p) (h8 : ¬ SedovInit.c8 p) :
    SedovInit.alpha p = alphaCode p.geometry p.gamma p.eval1_quad p.eval2_quad := by
  init_cases A p on SedovInit.alpha, h8 with
    first
    | (simp only [epv_leaf]
       unfold alphaCode
       rw [hg]
       (try norm_num) <;> epv_semi_eq)
    | (exfalso
       simp only [epv_cond] at *
       epv_semi_abs_lin)

theorem acceptedC_of (qi : SedovInit.P) (D : Documented qi) : AcceptedC (constsOf qi) :=
  ⟨D.geo, not_lt.mpr D.gamma.le, not_lt.mpr D.rho0.le, not_lt.mpr D.eblast.le, not_lt.mpr D.omega0, not_le.mpr D.omegak⟩

theorem params_of (qi : SedovInit.P) (D : Documented qi) (kn : ℕ) (hk : qi.geometry = kn) :
    Params qi.gamma kn qi.omega := by
  refine ⟨D.gamma, ?_, by rw [← hk]; exact D.omegak⟩
  rcases D.geo with h | h | h <;> rw [← hk, h] <;> norm_num

theorem kn_cases (qi : SedovInit.P) (D : Documented qi) (kn : ℕ) (hk : qi.geometry = kn) : kn = 1 ∨ kn = 2 ∨ kn = 3 := by
  rcases D.geo with h | h | h
  · left; exact_mod_cast (hk.symm.trans h)
  · right; left; exact_mod_cast (hk.symm.trans h)
  · right; right; exact_mod_cast (hk.symm.trans h)

/-- the code's test `v2 < vstar - 1e-4` (solution_type 'standard') -/
theorem std_of_c10 (qi : SedovInit.P) (kn : ℕ) (hk : qi.geometry = kn) (h : SedovInit.c10 qi) :
    v2 qi.gamma kn qi.omega < vstar qi.gamma kn ∧ ¬ SedovInit.c8 qi := by
  simp only [epv_semi_cond] at h ⊢
  rw [hk] at h ⊢
  unfold v2 vstar
  refine ⟨by linarith, ?_⟩
  rw [not_le, lt_abs]; right; linarith

/-- the code's test `v2 > vstar + 1e-4` (solution_type 'vacuum') -/
theorem vac_of_c11 (qi : SedovInit.P) (kn : ℕ) (hk : qi.geometry = kn) (h : SedovInit.c11 qi) :
    vstar qi.gamma kn < v2 qi.gamma kn qi.omega ∧ ¬ SedovInit.c8 qi := by
  simp only [epv_semi_cond] at h ⊢
  rw [hk] at h ⊢
  unfold v2 vstar
  refine ⟨by linarith, ?_⟩
  rw [not_le, lt_abs]; left; linarith

/-- the last step, common to all paths: from the two evaluated integrals to the energy statement -/
theorem energy_of_evals (qi : SedovInit.P) (D : Documented qi) (kn : ℕ) (hk : qi.geometry = kn)
    (h8 : ¬ SedovInit.c8 qi) (f g h : ℝ → ℝ)
    (hI1 : IntervalIntegrable (fun x => g x * f x ^ 2 * x ^ (kn - 1)) volume 0 1)
    (hI2 : IntervalIntegrable (fun x => h x * x ^ (kn - 1)) volume 0 1)
    (hq1 : qi.eval1_quad = eval1 kn qi.gamma qi.omega f g) (hq2 : qi.eval2_quad = eval2 kn qi.gamma qi.omega h)
    (hN1 : 0 ≤ eval1 kn qi.gamma qi.omega f g) (hN2 : 0 < eval2 kn qi.gamma qi.omega h) (t : ℝ) (ht : 0 < t) :
    EnergyConserved kn qi.gamma qi.eblast (density (shockOf qi) g t) (velocity (shockOf qi) f t)
      (pressure (shockOf qi) h t) (SedovShock.r2 (shockOf qi) t) := by
  have hα : (shockOf qi).alpha = alphaCode kn qi.gamma (eval1 kn qi.gamma qi.omega f g) (eval2 kn qi.gamma qi.omega h) := by
    show SedovInit.alpha qi = _
    rw [init_alpha qi D.accepted h8, hq1, hq2, hk]
  have hkc := kn_cases qi D kn hk
  have A : Admissible (shockOf qi) kn :=
    ⟨hkc, hk, D.gamma, D.rho0, D.eblast, D.omega0, by rw [← hk]; exact D.omegak,
      by rw [hα]; exact alphaCode_pos hkc D.gamma hN1 hN2⟩
  exact energy_of_alpha (shockOf qi) kn A f g h hI1 hI2 hα t ht

/-- **C11, energy, on the code's own functions and alpha: standard type, special_singularity none.** -/
theorem sedov_energy_code_standard (qi : SedovInit.P) (D : Documented qi) (kn : ℕ) (hk : qi.geometry = kn)
    (hstd : SedovInit.c10 qi) (h9 : ¬ SedovInit.c9 qi) (h12 : ¬ SedovInit.c12 qi)
    (hq1 : qi.eval1_quad = ∫ v in (v0 qi.gamma kn qi.omega)..(v2 qi.gamma kn qi.omega), SedovFuncs.L1.efun01 (stdFuncs (constsOf qi)) v)
    (hq2 : qi.eval2_quad = ∫ v in (v0 qi.gamma kn qi.omega)..(v2 qi.gamma kn qi.omega), SedovFuncs.L1.efun02 (stdFuncs (constsOf qi)) v)
    (f g h : ℝ → ℝ)
    (hf : ∀ v ∈ Ioo (v0 qi.gamma kn qi.omega) (v2 qi.gamma kn qi.omega),
      f (SedovFuncs.L1.l_fun (stdFuncs (constsOf qi)) v) = SedovFuncs.L1.f_fun (stdFuncs (constsOf qi)) v)
    (hg : ∀ v ∈ Ioo (v0 qi.gamma kn qi.omega) (v2 qi.gamma kn qi.omega),
      g (SedovFuncs.L1.l_fun (stdFuncs (constsOf qi)) v) = SedovFuncs.L1.g_fun (stdFuncs (constsOf qi)) v)
    (hh : ∀ v ∈ Ioo (v0 qi.gamma kn qi.omega) (v2 qi.gamma kn qi.omega),
      h (SedovFuncs.L1.l_fun (stdFuncs (constsOf qi)) v) = SedovFuncs.L1.h_fun (stdFuncs (constsOf qi)) v)
    (t : ℝ) (ht : 0 < t) :
    EnergyConserved kn qi.gamma qi.eblast (density (shockOf qi) g t) (velocity (shockOf qi) f t)
      (pressure (shockOf qi) h t) (SedovShock.r2 (shockOf qi) t) := by
  obtain ⟨htype, h8⟩ := std_of_c10 qi kn hk hstd
  have hC : StdConsts (stdFuncs (constsOf qi)) qi.gamma kn qi.omega := by
    have := consts_none (constsOf qi) (acceptedC_of qi D) h9 h12
    rwa [show (constsOf qi).geometry = (kn : ℝ) from hk] at this
  have hd3 : K.denom3 qi.gamma kn qi.omega ≠ 0 := by
    intro h0; apply h12; simp only [epv_semi_cond]; unfold K.denom3 at h0; rw [hk, h0, abs_zero]; norm_num
  have h1 : 1 ≤ kn := by rcases kn_cases qi D kn hk with h | h | h <;> omega
  obtain ⟨I1, I2, Q1, Q2, N1, N2⟩ := eval_std kn h1 hC (params_of qi D kn hk) htype hd3 f g h hf hg hh
  exact energy_of_evals qi D kn hk h8 f g h I1 I2 (hq1.trans Q1) (hq2.trans Q2) N1 N2 t ht

/-- **C11, energy, on the code's own functions and alpha: vacuum type, special_singularity none.**
`__init__` integrates from vmin = vv down to v2. -/
theorem sedov_energy_code_vacuum (qi : SedovInit.P) (D : Documented qi) (kn : ℕ) (hk : qi.geometry = kn)
    (hvac : SedovInit.c11 qi) (h9 : ¬ SedovInit.c9 qi) (h12 : ¬ SedovInit.c12 qi)
    (hq1 : qi.eval1_quad = ∫ v in (vv kn qi.omega)..(v2 qi.gamma kn qi.omega), SedovFuncs.L1.efun01 (stdFuncs (constsOf qi)) v)
    (hq2 : qi.eval2_quad = ∫ v in (vv kn qi.omega)..(v2 qi.gamma kn qi.omega), SedovFuncs.L1.efun02 (stdFuncs (constsOf qi)) v)
    (f g h : ℝ → ℝ)
    (hf : ∀ v ∈ Ioo (v2 qi.gamma kn qi.omega) (vv kn qi.omega),
      f (SedovFuncs.L1.l_fun (stdFuncs (constsOf qi)) v) = SedovFuncs.L1.f_fun (stdFuncs (constsOf qi)) v)
    (hg : ∀ v ∈ Ioo (v2 qi.gamma kn qi.omega) (vv kn qi.omega),
      g (SedovFuncs.L1.l_fun (stdFuncs (constsOf qi)) v) = SedovFuncs.L1.g_fun (stdFuncs (constsOf qi)) v)
    (hh : ∀ v ∈ Ioo (v2 qi.gamma kn qi.omega) (vv kn qi.omega),
      h (SedovFuncs.L1.l_fun (stdFuncs (constsOf qi)) v) = SedovFuncs.L1.h_fun (stdFuncs (constsOf qi)) v)
    (hgh : ∀ x ∈ Ioo 0 (SedovFuncs.L1.l_fun (stdFuncs (constsOf qi)) (vv kn qi.omega)), g x = 0)
    (hhh : ∀ x ∈ Ioo 0 (SedovFuncs.L1.l_fun (stdFuncs (constsOf qi)) (vv kn qi.omega)), h x = 0)
    (t : ℝ) (ht : 0 < t) :
    EnergyConserved kn qi.gamma qi.eblast (density (shockOf qi) g t) (velocity (shockOf qi) f t)
      (pressure (shockOf qi) h t) (SedovShock.r2 (shockOf qi) t) := by
  obtain ⟨htype, h8⟩ := vac_of_c11 qi kn hk hvac
  have hC : StdConsts (stdFuncs (constsOf qi)) qi.gamma kn qi.omega := by
    have := consts_none (constsOf qi) (acceptedC_of qi D) h9 h12
    rwa [show (constsOf qi).geometry = (kn : ℝ) from hk] at this
  have hd2 : K.denom2 qi.gamma kn qi.omega ≠ 0 := by
    intro h0; apply h9; simp only [epv_semi_cond]; unfold K.denom2 at h0; rw [hk, h0, abs_zero]; norm_num
  have h1 : 1 ≤ kn := by rcases kn_cases qi D kn hk with h | h | h <;> omega
  obtain ⟨I1, I2, Q1, Q2, N1, N2⟩ := eval_vac kn h1 hC (params_of qi D kn hk) htype hd2 f g h hf hg hh hgh hhh
  exact energy_of_evals qi D kn hk h8 f g h I1 I2 (hq1.trans Q1) (hq2.trans Q2) N1 N2 t ht

/-- **C11, energy, on the code's own functions and alpha: special_singularity omega2**, at the exactly
special ω = (2(γ-1)+k)/γ (vacuum type; `hvac`: the code does not classify the problem as singular type,
which it does for γ so close to 1 that v2 - vstar ≤ 1e-4). -/
theorem sedov_energy_code_omega2 (qi : SedovInit.P) (D : Documented qi) (kn : ℕ) (hk : qi.geometry = kn)
    (hvac : SedovInit.c11 qi) (hω2 : K.denom2 qi.gamma kn qi.omega = 0)
    (hq1 : qi.eval1_quad = ∫ v in (vv kn qi.omega)..(v2 qi.gamma kn qi.omega), SedovFuncsO2.L1.efun01 (o2Funcs (constsOf qi)) v)
    (hq2 : qi.eval2_quad = ∫ v in (vv kn qi.omega)..(v2 qi.gamma kn qi.omega), SedovFuncsO2.L1.efun02 (o2Funcs (constsOf qi)) v)
    (f g h : ℝ → ℝ)
    (hf : ∀ v ∈ Ioo (v2 qi.gamma kn qi.omega) (vv kn qi.omega),
      f (SedovFuncsO2.L1.l_fun (o2Funcs (constsOf qi)) v) = SedovFuncsO2.L1.f_fun (o2Funcs (constsOf qi)) v)
    (hg : ∀ v ∈ Ioo (v2 qi.gamma kn qi.omega) (vv kn qi.omega),
      g (SedovFuncsO2.L1.l_fun (o2Funcs (constsOf qi)) v) = SedovFuncsO2.L1.g_fun (o2Funcs (constsOf qi)) v)
    (hh : ∀ v ∈ Ioo (v2 qi.gamma kn qi.omega) (vv kn qi.omega),
      h (SedovFuncsO2.L1.l_fun (o2Funcs (constsOf qi)) v) = SedovFuncsO2.L1.h_fun (o2Funcs (constsOf qi)) v)
    (hgh : ∀ x ∈ Ioo 0 (SedovFuncsO2.L1.l_fun (o2Funcs (constsOf qi)) (vv kn qi.omega)), g x = 0)
    (hhh : ∀ x ∈ Ioo 0 (SedovFuncsO2.L1.l_fun (o2Funcs (constsOf qi)) (vv kn qi.omega)), h x = 0)
    (t : ℝ) (ht : 0 < t) :
    EnergyConserved kn qi.gamma qi.eblast (density (shockOf qi) g t) (velocity (shockOf qi) f t)
      (pressure (shockOf qi) h t) (SedovShock.r2 (shockOf qi) t) := by
  obtain ⟨-, h8⟩ := vac_of_c11 qi kn hk hvac
  have h9 : SedovConsts.c9 (constsOf qi) := by
    rw [consts_c9]; show |K.denom2 qi.gamma qi.geometry qi.omega| ≤ _
    rw [hk, hω2, abs_zero]; norm_num
  have hC : O2Consts (o2Funcs (constsOf qi)) qi.gamma kn qi.omega := by
    have := consts_omega2 (constsOf qi) (acceptedC_of qi D) h9
    rwa [show (constsOf qi).geometry = (kn : ℝ) from hk] at this
  have h1 : 1 ≤ kn := by rcases kn_cases qi D kn hk with h | h | h <;> omega
  obtain ⟨I1, I2, Q1, Q2, N1, N2⟩ := eval_o2 kn h1 hC (params_of qi D kn hk) hω2 f g h hf hg hh hgh hhh
  exact energy_of_evals qi D kn hk h8 f g h I1 I2 (hq1.trans Q1) (hq2.trans Q2) N1 N2 t ht

/-- **C11, energy, on the code's own functions and alpha: special_singularity omega3**, at the exactly
special ω = k(2-γ) (standard type; `hstd`: not classified as singular type). -/
theorem sedov_energy_code_omega3 (qi : SedovInit.P) (D : Documented qi) (kn : ℕ) (hk : qi.geometry = kn)
    (hstd : SedovInit.c10 qi) (h9 : ¬ SedovInit.c9 qi) (hω3 : K.denom3 qi.gamma kn qi.omega = 0)
    (hq1 : qi.eval1_quad = ∫ v in (v0 qi.gamma kn qi.omega)..(v2 qi.gamma kn qi.omega), SedovFuncsO3.L1.efun01 (o3Funcs (constsOf qi)) v)
    (hq2 : qi.eval2_quad = ∫ v in (v0 qi.gamma kn qi.omega)..(v2 qi.gamma kn qi.omega), SedovFuncsO3.L1.efun02 (o3Funcs (constsOf qi)) v)
    (f g h : ℝ → ℝ)
    (hf : ∀ v ∈ Ioo (v0 qi.gamma kn qi.omega) (v2 qi.gamma kn qi.omega),
      f (SedovFuncsO3.L1.l_fun (o3Funcs (constsOf qi)) v) = SedovFuncsO3.L1.f_fun (o3Funcs (constsOf qi)) v)
    (hg : ∀ v ∈ Ioo (v0 qi.gamma kn qi.omega) (v2 qi.gamma kn qi.omega),
      g (SedovFuncsO3.L1.l_fun (o3Funcs (constsOf qi)) v) = SedovFuncsO3.L1.g_fun (o3Funcs (constsOf qi)) v)
    (hh : ∀ v ∈ Ioo (v0 qi.gamma kn qi.omega) (v2 qi.gamma kn qi.omega),
      h (SedovFuncsO3.L1.l_fun (o3Funcs (constsOf qi)) v) = SedovFuncsO3.L1.h_fun (o3Funcs (constsOf qi)) v)
    (t : ℝ) (ht : 0 < t) :
    EnergyConserved kn qi.gamma qi.eblast (density (shockOf qi) g t) (velocity (shockOf qi) f t)
      (pressure (shockOf qi) h t) (SedovShock.r2 (shockOf qi) t) := by
  obtain ⟨-, h8⟩ := std_of_c10 qi kn hk hstd
  have h12 : SedovConsts.c12 (constsOf qi) := by
    rw [consts_c12]; show |K.denom3 qi.gamma qi.geometry qi.omega| ≤ _
    rw [hk, hω3, abs_zero]; norm_num
  have hC : O3Consts (o3Funcs (constsOf qi)) qi.gamma kn qi.omega := by
    have := consts_omega3 (constsOf qi) (acceptedC_of qi D) h9 h12
    rwa [show (constsOf qi).geometry = (kn : ℝ) from hk] at this
  have h1 : 1 ≤ kn := by rcases kn_cases qi D kn hk with h | h | h <;> omega
  obtain ⟨I1, I2, Q1, Q2, N1, N2⟩ := eval_o3 kn h1 hC (params_of qi D kn hk) hω3 f g h hf hg hh
  exact energy_of_evals qi D kn hk h8 f g h I1 I2 (hq1.trans Q1) (hq2.trans Q2) N1 N2 t ht

/-! ### The headline statement -/

/-- The two numerical ATOMS on the constructor path of `qi`, for similarity functions f, g, h of λ:
`quad` returns the integral of the traced integrand between the code's limits, and f, g, h are the
traced closed forms of `sedov_funcs_standard` composed with the root finder v(λ) (zero density and
pressure in the vacuum hole).  One constructor per covered path of the traced `__init__`. -/
inductive Atoms (qi : SedovInit.P) (kn : ℕ) (f g h : ℝ → ℝ) : Prop
  | standard (hstd : SedovInit.c10 qi) (h9 : ¬ SedovInit.c9 qi) (h12 : ¬ SedovInit.c12 qi)
      (hq1 : qi.eval1_quad = ∫ v in (v0 qi.gamma kn qi.omega)..(v2 qi.gamma kn qi.omega), SedovFuncs.L1.efun01 (stdFuncs (constsOf qi)) v)
      (hq2 : qi.eval2_quad = ∫ v in (v0 qi.gamma kn qi.omega)..(v2 qi.gamma kn qi.omega), SedovFuncs.L1.efun02 (stdFuncs (constsOf qi)) v)
      (hf : ∀ v ∈ Ioo (v0 qi.gamma kn qi.omega) (v2 qi.gamma kn qi.omega),
        f (SedovFuncs.L1.l_fun (stdFuncs (constsOf qi)) v) = SedovFuncs.L1.f_fun (stdFuncs (constsOf qi)) v)
      (hg : ∀ v ∈ Ioo (v0 qi.gamma kn qi.omega) (v2 qi.gamma kn qi.omega),
        g (SedovFuncs.L1.l_fun (stdFuncs (constsOf qi)) v) = SedovFuncs.L1.g_fun (stdFuncs (constsOf qi)) v)
      (hh : ∀ v ∈ Ioo (v0 qi.gamma kn qi.omega) (v2 qi.gamma kn qi.omega),
        h (SedovFuncs.L1.l_fun (stdFuncs (constsOf qi)) v) = SedovFuncs.L1.h_fun (stdFuncs (constsOf qi)) v) : Atoms qi kn f g h
  | vacuum (hvac : SedovInit.c11 qi) (h9 : ¬ SedovInit.c9 qi) (h12 : ¬ SedovInit.c12 qi)
      (hq1 : qi.eval1_quad = ∫ v in (vv kn qi.omega)..(v2 qi.gamma kn qi.omega), SedovFuncs.L1.efun01 (stdFuncs (constsOf qi)) v)
      (hq2 : qi.eval2_quad = ∫ v in (vv kn qi.omega)..(v2 qi.gamma kn qi.omega), SedovFuncs.L1.efun02 (stdFuncs (constsOf qi)) v)
      (hf : ∀ v ∈ Ioo (v2 qi.gamma kn qi.omega) (vv kn qi.omega),
        f (SedovFuncs.L1.l_fun (stdFuncs (constsOf qi)) v) = SedovFuncs.L1.f_fun (stdFuncs (constsOf qi)) v)
      (hg : ∀ v ∈ Ioo (v2 qi.gamma kn qi.omega) (vv kn qi.omega),
        g (SedovFuncs.L1.l_fun (stdFuncs (constsOf qi)) v) = SedovFuncs.L1.g_fun (stdFuncs (constsOf qi)) v)
      (hh : ∀ v ∈ Ioo (v2 qi.gamma kn qi.omega) (vv kn qi.omega),
        h (SedovFuncs.L1.l_fun (stdFuncs (constsOf qi)) v) = SedovFuncs.L1.h_fun (stdFuncs (constsOf qi)) v)
      (hgh : ∀ x ∈ Ioo 0 (SedovFuncs.L1.l_fun (stdFuncs (constsOf qi)) (vv kn qi.omega)), g x = 0)
      (hhh : ∀ x ∈ Ioo 0 (SedovFuncs.L1.l_fun (stdFuncs (constsOf qi)) (vv kn qi.omega)), h x = 0) : Atoms qi kn f g h
  | omega2 (hvac : SedovInit.c11 qi) (hω2 : K.denom2 qi.gamma kn qi.omega = 0)
      (hq1 : qi.eval1_quad = ∫ v in (vv kn qi.omega)..(v2 qi.gamma kn qi.omega), SedovFuncsO2.L1.efun01 (o2Funcs (constsOf qi)) v)
      (hq2 : qi.eval2_quad = ∫ v in (vv kn qi.omega)..(v2 qi.gamma kn qi.omega), SedovFuncsO2.L1.efun02 (o2Funcs (constsOf qi)) v)
      (hf : ∀ v ∈ Ioo (v2 qi.gamma kn qi.omega) (vv kn qi.omega),
        f (SedovFuncsO2.L1.l_fun (o2Funcs (constsOf qi)) v) = SedovFuncsO2.L1.f_fun (o2Funcs (constsOf qi)) v)
      (hg : ∀ v ∈ Ioo (v2 qi.gamma kn qi.omega) (vv kn qi.omega),
        g (SedovFuncsO2.L1.l_fun (o2Funcs (constsOf qi)) v) = SedovFuncsO2.L1.g_fun (o2Funcs (constsOf qi)) v)
      (hh : ∀ v ∈ Ioo (v2 qi.gamma kn qi.omega) (vv kn qi.omega),
        h (SedovFuncsO2.L1.l_fun (o2Funcs (constsOf qi)) v) = SedovFuncsO2.L1.h_fun (o2Funcs (constsOf qi)) v)
      (hgh : ∀ x ∈ Ioo 0 (SedovFuncsO2.L1.l_fun (o2Funcs (constsOf qi)) (vv kn qi.omega)), g x = 0)
      (hhh : ∀ x ∈ Ioo 0 (SedovFuncsO2.L1.l_fun (o2Funcs (constsOf qi)) (vv kn qi.omega)), h x = 0) : Atoms qi kn f g h
  | omega3 (hstd : SedovInit.c10 qi) (h9 : ¬ SedovInit.c9 qi) (hω3 : K.denom3 qi.gamma kn qi.omega = 0)
      (hq1 : qi.eval1_quad = ∫ v in (v0 qi.gamma kn qi.omega)..(v2 qi.gamma kn qi.omega), SedovFuncsO3.L1.efun01 (o3Funcs (constsOf qi)) v)
      (hq2 : qi.eval2_quad = ∫ v in (v0 qi.gamma kn qi.omega)..(v2 qi.gamma kn qi.omega), SedovFuncsO3.L1.efun02 (o3Funcs (constsOf qi)) v)
      (hf : ∀ v ∈ Ioo (v0 qi.gamma kn qi.omega) (v2 qi.gamma kn qi.omega),
        f (SedovFuncsO3.L1.l_fun (o3Funcs (constsOf qi)) v) = SedovFuncsO3.L1.f_fun (o3Funcs (constsOf qi)) v)
      (hg : ∀ v ∈ Ioo (v0 qi.gamma kn qi.omega) (v2 qi.gamma kn qi.omega),
        g (SedovFuncsO3.L1.l_fun (o3Funcs (constsOf qi)) v) = SedovFuncsO3.L1.g_fun (o3Funcs (constsOf qi)) v)
      (hh : ∀ v ∈ Ioo (v0 qi.gamma kn qi.omega) (v2 qi.gamma kn qi.omega),
        h (SedovFuncsO3.L1.l_fun (o3Funcs (constsOf qi)) v) = SedovFuncsO3.L1.h_fun (o3Funcs (constsOf qi)) v) : Atoms qi kn f g h

/-- **C11, energy half, on the code's own similarity functions and the code's own alpha.**
Documented parameters (geometry k ∈ {1,2,3}, γ > 1, ρ₀ > 0, E > 0, 0 ≤ ω < k), `alpha` as the traced
constructor computes it from its two quadratures, f, g, h the traced closed forms of
`sedov_funcs_standard` as functions of λ; under the two numerical atoms (`Atoms`: quad returns the
integral, the root finder returns v(λ)) and nothing else, at EVERY t > 0

    A_k ∫₀^{r2(t)} (½ ρ u² + p/(γ-1)) r^(k-1) dr = eblast . -/
theorem sedov_energy_code (qi : SedovInit.P) (D : Documented qi) (kn : ℕ) (hk : qi.geometry = kn)
    (f g h : ℝ → ℝ) (At : Atoms qi kn f g h) (t : ℝ) (ht : 0 < t) :
    EnergyConserved kn qi.gamma qi.eblast (density (shockOf qi) g t) (velocity (shockOf qi) f t)
      (pressure (shockOf qi) h t) (SedovShock.r2 (shockOf qi) t) := by
  cases At with
  | standard hstd h9 h12 hq1 hq2 hf hg hh =>
    exact sedov_energy_code_standard qi D kn hk hstd h9 h12 hq1 hq2 f g h hf hg hh t ht
  | vacuum hvac h9 h12 hq1 hq2 hf hg hh hgh hhh =>
    exact sedov_energy_code_vacuum qi D kn hk hvac h9 h12 hq1 hq2 f g h hf hg hh hgh hhh t ht
  | omega2 hvac hω2 hq1 hq2 hf hg hh hgh hhh =>
    exact sedov_energy_code_omega2 qi D kn hk hvac hω2 hq1 hq2 f g h hf hg hh hgh hhh t ht
  | omega3 hstd h9 hω3 hq1 hq2 hf hg hh =>
    exact sedov_energy_code_omega3 qi D kn hk hstd h9 hω3 hq1 hq2 f g h hf hg hh t ht

/-- the λ-space similarity functions and the substitution, stated on their own (what replaces the
hypotheses `hsub1`, `hsub2` of `SedovFuncs_eval_of_substitution_partial`): standard type -/
theorem sedov_eval_of_substitution_standard {p : SedovFuncs.P} {γ ω : ℝ} (kn : ℕ) (h1 : 1 ≤ kn) (hC : StdConsts p γ kn ω)
    (P : Params γ kn ω) (htype : v2 γ kn ω < vstar γ kn) (hd3 : K.denom3 γ kn ω ≠ 0) (f g h : ℝ → ℝ)
    (hf : ∀ v ∈ Ioo (v0 γ kn ω) (v2 γ kn ω), f (SedovFuncs.L1.l_fun p v) = SedovFuncs.L1.f_fun p v)
    (hg : ∀ v ∈ Ioo (v0 γ kn ω) (v2 γ kn ω), g (SedovFuncs.L1.l_fun p v) = SedovFuncs.L1.g_fun p v)
    (hh : ∀ v ∈ Ioo (v0 γ kn ω) (v2 γ kn ω), h (SedovFuncs.L1.l_fun p v) = SedovFuncs.L1.h_fun p v) :
    ∫ v in (v0 γ kn ω)..(v2 γ kn ω), SedovFuncs.L1.efun01 p v = eval1 kn γ ω f g ∧
    ∫ v in (v0 γ kn ω)..(v2 γ kn ω), SedovFuncs.L1.efun02 p v = eval2 kn γ ω h := by
  obtain ⟨-, -, Q1, Q2, -, -⟩ := eval_std kn h1 hC P htype hd3 f g h hf hg hh
  exact ⟨Q1, Q2⟩

/-- the same for the vacuum type (limits vv → v2 as in `__init__`) -/
theorem sedov_eval_of_substitution_vacuum {p : SedovFuncs.P} {γ ω : ℝ} (kn : ℕ) (h1 : 1 ≤ kn) (hC : StdConsts p γ kn ω)
    (P : Params γ kn ω) (htype : vstar γ kn < v2 γ kn ω) (hd2 : K.denom2 γ kn ω ≠ 0) (f g h : ℝ → ℝ)
    (hf : ∀ v ∈ Ioo (v2 γ kn ω) (vv kn ω), f (SedovFuncs.L1.l_fun p v) = SedovFuncs.L1.f_fun p v)
    (hg : ∀ v ∈ Ioo (v2 γ kn ω) (vv kn ω), g (SedovFuncs.L1.l_fun p v) = SedovFuncs.L1.g_fun p v)
    (hh : ∀ v ∈ Ioo (v2 γ kn ω) (vv kn ω), h (SedovFuncs.L1.l_fun p v) = SedovFuncs.L1.h_fun p v)
    (hgh : ∀ x ∈ Ioo 0 (SedovFuncs.L1.l_fun p (vv kn ω)), g x = 0)
    (hhh : ∀ x ∈ Ioo 0 (SedovFuncs.L1.l_fun p (vv kn ω)), h x = 0) :
    ∫ v in (vv kn ω)..(v2 γ kn ω), SedovFuncs.L1.efun01 p v = eval1 kn γ ω f g ∧
    ∫ v in (vv kn ω)..(v2 γ kn ω), SedovFuncs.L1.efun02 p v = eval2 kn γ ω h := by
  obtain ⟨-, -, Q1, Q2, -, -⟩ := eval_vac kn h1 hC P htype hd2 f g h hf hg hh hgh hhh
  exact ⟨Q1, Q2⟩

/-- the guards: strictly inside the branch, beyond the two slivers, the traced integrands of the real
`efun01`, `efun02` (tree level) ARE the leaf-1 integrands of the theorems -/
theorem code_integrand_is_leaf1 (p : SedovFuncs.P) (v : ℝ)
    (h0 : (178405961588245 : ℝ) / 178405961588244985132285746181186892047843328 < p.c_val * v - 1)
    (h1 : (4951760157141521 : ℝ) / 4951760157141521099596496896 ≤ p.b_val * (1 - 1 / 2 * p.xg2 * v)) :
    SedovFuncs.efun01 p v = SedovFuncs.L1.efun01 p v ∧ SedovFuncs.efun02 p v = SedovFuncs.L1.efun02 p v :=
  (leaf1_of_interior p v h0 h1).2

/-- the two literals are the doubles 1e-30 and 1e-12 of the guards (rationalised by the translator) -/
example : |(178405961588245 : ℝ) / 178405961588244985132285746181186892047843328 - 1e-30| < 1e-45 ∧
    |(4951760157141521 : ℝ) / 4951760157141521099596496896 - 1e-12| < 1e-27 := by
  constructor <;> rw [abs_lt] <;> constructor <;> norm_num

/-! ### Non-vacuity: every hypothesis of every path is satisfiable at concrete documented parameters -/

/-- a record of the SedovInit trace from the five parameters and two quadrature values -/
def withQuads (c : SedovConsts.P) (e1 e2 : ℝ) : SedovInit.P :=
  { eblast := c.eblast, eval1_quad := e1, eval2_quad := e2, gamma := c.gamma, geometry := c.geometry,
    omega := c.omega, rho0 := c.rho0 }

/-- the default spherical problem γ = 7/5, k = 3, ω = 0, ρ₀ = 1, E = 0.851072: standard type, none -/
def exStdC : SedovConsts.P := ⟨851072/1000000, 7/5, 3, 0, 1⟩
/-- γ = 7/5, k = 3, ω = 5/2: vacuum type, none -/
def exVacC : SedovConsts.P := ⟨851072/1000000, 7/5, 3, 5/2, 1⟩
/-- γ = 7/5, k = 3, ω = 19/7: omega2 -/
def exO2C : SedovConsts.P := ⟨851072/1000000, 7/5, 3, 19/7, 1⟩
/-- γ = 7/5, k = 3, ω = 9/5: omega3 -/
def exO3C : SedovConsts.P := ⟨851072/1000000, 7/5, 3, 9/5, 1⟩

theorem documented_withQuads (c : SedovConsts.P) (e1 e2 : ℝ) (hg : c.geometry = 1 ∨ c.geometry = 2 ∨ c.geometry = 3)
    (h1 : 1 < c.gamma) (h2 : 0 < c.rho0) (h3 : 0 < c.eblast) (h4 : 0 ≤ c.omega) (h5 : c.omega < c.geometry) :
    Documented (withQuads c e1 e2) := ⟨hg, h1, h2, h3, h4, h5⟩

/-- standard path: at the default problem there are quadrature values and similarity functions with `Atoms` -/
example : ∃ (qi : SedovInit.P) (f g h : ℝ → ℝ), Documented qi ∧ qi.geometry = ((3 : ℕ) : ℝ) ∧ Atoms qi 3 f g h := by
  let qi := withQuads exStdC
    (∫ v in (v0 (7/5) (3:ℕ) 0)..(v2 (7/5) (3:ℕ) 0), SedovFuncs.L1.efun01 (stdFuncs exStdC) v)
    (∫ v in (v0 (7/5) (3:ℕ) 0)..(v2 (7/5) (3:ℕ) 0), SedovFuncs.L1.efun02 (stdFuncs exStdC) v)
  have D : Documented qi := documented_withQuads _ _ _ (Or.inr (Or.inr rfl)) (by norm_num [exStdC]) (by norm_num [exStdC])
    (by norm_num [exStdC]) (by norm_num [exStdC]) (by norm_num [exStdC])
  have hk : qi.geometry = ((3 : ℕ) : ℝ) := by show (3 : ℝ) = _; norm_num
  have hstd : SedovInit.c10 qi := by init_cond_at qi (7/5) 3 0
  have h9 : ¬ SedovInit.c9 qi := by
    init_cond_at qi (7/5) 3 0
  have h12 : ¬ SedovInit.c12 qi := by
    init_cond_at qi (7/5) 3 0
  obtain ⟨htype, -⟩ := std_of_c10 qi 3 hk hstd
  have hC : StdConsts (stdFuncs (constsOf qi)) qi.gamma (3:ℕ) qi.omega := by
    have := consts_none (constsOf qi) (acceptedC_of qi D) h9 h12
    rwa [show (constsOf qi).geometry = ((3:ℕ) : ℝ) from hk] at this
  have hd3 : K.denom3 qi.gamma (3:ℕ) qi.omega ≠ 0 := by show K.denom3 (7/5) (3:ℕ) 0 ≠ 0; norm_num [K.denom3]
  obtain ⟨f, g, h, hf, hg, hh⟩ := exists_funcs_std 3 (by norm_num) hC (params_of qi D 3 hk) htype hd3
  exact ⟨qi, f, g, h, D, hk, Atoms.standard hstd h9 h12 rfl rfl hf hg hh⟩

/-- vacuum path -/
example : ∃ (qi : SedovInit.P) (f g h : ℝ → ℝ), Documented qi ∧ qi.geometry = ((3 : ℕ) : ℝ) ∧ Atoms qi 3 f g h := by
  let qi := withQuads exVacC
    (∫ v in (vv (3:ℕ) (5/2))..(v2 (7/5) (3:ℕ) (5/2)), SedovFuncs.L1.efun01 (stdFuncs exVacC) v)
    (∫ v in (vv (3:ℕ) (5/2))..(v2 (7/5) (3:ℕ) (5/2)), SedovFuncs.L1.efun02 (stdFuncs exVacC) v)
  have D : Documented qi := documented_withQuads _ _ _ (Or.inr (Or.inr rfl)) (by norm_num [exVacC]) (by norm_num [exVacC])
    (by norm_num [exVacC]) (by norm_num [exVacC]) (by norm_num [exVacC])
  have hk : qi.geometry = ((3 : ℕ) : ℝ) := by show (3 : ℝ) = _; norm_num
  have hvac : SedovInit.c11 qi := by init_cond_at qi (7/5) 3 (5/2)
  have h9 : ¬ SedovInit.c9 qi := by
    init_cond_at qi (7/5) 3 (5/2)
  have h12 : ¬ SedovInit.c12 qi := by
    init_cond_at qi (7/5) 3 (5/2)
  obtain ⟨htype, -⟩ := vac_of_c11 qi 3 hk hvac
  have hC : StdConsts (stdFuncs (constsOf qi)) qi.gamma (3:ℕ) qi.omega := by
    have := consts_none (constsOf qi) (acceptedC_of qi D) h9 h12
    rwa [show (constsOf qi).geometry = ((3:ℕ) : ℝ) from hk] at this
  have hd2 : K.denom2 qi.gamma (3:ℕ) qi.omega ≠ 0 := by show K.denom2 (7/5) (3:ℕ) (5/2) ≠ 0; norm_num [K.denom2]
  obtain ⟨f, g, h, hf, hg, hh, hgh, hhh⟩ := exists_funcs_vac 3 (by norm_num) hC (params_of qi D 3 hk) htype hd2
  exact ⟨qi, f, g, h, D, hk, Atoms.vacuum hvac h9 h12 rfl rfl hf hg hh hgh hhh⟩

/-- omega2 path, at the exactly special ω = 19/7 -/
example : ∃ (qi : SedovInit.P) (f g h : ℝ → ℝ), Documented qi ∧ qi.geometry = ((3 : ℕ) : ℝ) ∧ Atoms qi 3 f g h := by
  let qi := withQuads exO2C
    (∫ v in (vv (3:ℕ) (19/7))..(v2 (7/5) (3:ℕ) (19/7)), SedovFuncsO2.L1.efun01 (o2Funcs exO2C) v)
    (∫ v in (vv (3:ℕ) (19/7))..(v2 (7/5) (3:ℕ) (19/7)), SedovFuncsO2.L1.efun02 (o2Funcs exO2C) v)
  have D : Documented qi := documented_withQuads _ _ _ (Or.inr (Or.inr rfl)) (by norm_num [exO2C]) (by norm_num [exO2C])
    (by norm_num [exO2C]) (by norm_num [exO2C]) (by norm_num [exO2C])
  have hk : qi.geometry = ((3 : ℕ) : ℝ) := by show (3 : ℝ) = _; norm_num
  have hvac : SedovInit.c11 qi := by init_cond_at qi (7/5) 3 (19/7)
  have hω2 : K.denom2 qi.gamma (3:ℕ) qi.omega = 0 := by show K.denom2 (7/5) (3:ℕ) (19/7) = 0; norm_num [K.denom2]
  have h9 : SedovConsts.c9 (constsOf qi) := by
    rw [consts_c9]; show |K.denom2 qi.gamma qi.geometry qi.omega| ≤ _
    rw [hk, hω2, abs_zero]; norm_num
  have hC : O2Consts (o2Funcs (constsOf qi)) qi.gamma (3:ℕ) qi.omega := by
    have := consts_omega2 (constsOf qi) (acceptedC_of qi D) h9
    rwa [show (constsOf qi).geometry = ((3:ℕ) : ℝ) from hk] at this
  obtain ⟨f, g, h, hf, hg, hh, hgh, hhh⟩ := exists_funcs_o2 3 (by norm_num) hC (params_of qi D 3 hk) hω2
  exact ⟨qi, f, g, h, D, hk, Atoms.omega2 hvac hω2 rfl rfl hf hg hh hgh hhh⟩

/-- omega3 path, at the exactly special ω = 9/5 -/
example : ∃ (qi : SedovInit.P) (f g h : ℝ → ℝ), Documented qi ∧ qi.geometry = ((3 : ℕ) : ℝ) ∧ Atoms qi 3 f g h := by
  let qi := withQuads exO3C
    (∫ v in (v0 (7/5) (3:ℕ) (9/5))..(v2 (7/5) (3:ℕ) (9/5)), SedovFuncsO3.L1.efun01 (o3Funcs exO3C) v)
    (∫ v in (v0 (7/5) (3:ℕ) (9/5))..(v2 (7/5) (3:ℕ) (9/5)), SedovFuncsO3.L1.efun02 (o3Funcs exO3C) v)
  have D : Documented qi := documented_withQuads _ _ _ (Or.inr (Or.inr rfl)) (by norm_num [exO3C]) (by norm_num [exO3C])
    (by norm_num [exO3C]) (by norm_num [exO3C]) (by norm_num [exO3C])
  have hk : qi.geometry = ((3 : ℕ) : ℝ) := by show (3 : ℝ) = _; norm_num
  have hstd : SedovInit.c10 qi := by init_cond_at qi (7/5) 3 (9/5)
  have h9 : ¬ SedovInit.c9 qi := by
    init_cond_at qi (7/5) 3 (9/5)
  have hω3 : K.denom3 qi.gamma (3:ℕ) qi.omega = 0 := by show K.denom3 (7/5) (3:ℕ) (9/5) = 0; norm_num [K.denom3]
  have h12 : SedovConsts.c12 (constsOf qi) := by
    rw [consts_c12]; show |K.denom3 qi.gamma qi.geometry qi.omega| ≤ _
    rw [hk, hω3, abs_zero]; norm_num
  have hC : O3Consts (o3Funcs (constsOf qi)) qi.gamma (3:ℕ) qi.omega := by
    have := consts_omega3 (constsOf qi) (acceptedC_of qi D) h9 h12
    rwa [show (constsOf qi).geometry = ((3:ℕ) : ℝ) from hk] at this
  obtain ⟨f, g, h, hf, hg, hh⟩ := exists_funcs_o3 3 (by norm_num) hC (params_of qi D 3 hk) hω3
  exact ⟨qi, f, g, h, D, hk, Atoms.omega3 hstd h9 hω3 rfl rfl hf hg hh⟩

/-! ### Inside the omega3 band

On the band |denom3| ≤ 1e-4 (`SedovInit.c12`) the constructor takes the omega3 path also for ω ≠ k(2-γ):
`sedov_funcs_standard` then evaluates closed forms that are only approximations of the Sedov functions
(the similarity ODEs and the mass integral are off by O(|denom3|)).  The ENERGY statement is not affected:
alpha is computed from the same functions, and the substitution and the integrability hold for them too. -/

/-- **C11, energy, inside the omega3 band (PARTIAL).**  As `sedov_energy_code_omega3`, for ANY ω on the omega3
path of the constructor (|denom3| ≤ 1e-4, not necessarily 0), under three sign conditions on the coded
constants — 0 ≤ a1, 0 ≤ a3 + ω a2 (g bounded at the origin), 2 denom2 ≤ (k+2-ω)(γ+1) — which hold on the
band whenever k(γ-1)² ≥ 1.01e-4 γ (see the example below).  Partial because of those conditions and because
the omega2 band (vacuum type, g unbounded at the vacuum edge, no exact mass differential off the special ω)
is not covered: there the statement is checked numerically (`o_sedov3.quad_atom`, `o_sedov.energy_all`).
The energy behind the shock of the fields the code returns is eblast EXACTLY, although f, g, h are not
exact Sedov functions there: what is off inside the band is alpha itself (the shock position), the mass
integral and the ODE residuals, by at most 0.32 |denom|/(γ-1) (oracle `o_sedov3.band`). -/
theorem sedov_energy_band_omega3_partial (qi : SedovInit.P) (D : Documented qi) (kn : ℕ) (hk : qi.geometry = kn)
    (hstd : SedovInit.c10 qi) (h9 : ¬ SedovInit.c9 qi) (h12 : SedovInit.c12 qi)
    (ha1 : 0 ≤ K.a1 qi.gamma kn qi.omega)
    (hpp1 : 0 ≤ K.a3 qi.gamma kn qi.omega + qi.omega * K.a2 qi.gamma kn qi.omega)
    (hX : 2 * K.denom2 qi.gamma kn qi.omega ≤ ((kn : ℝ) + 2 - qi.omega) * (qi.gamma + 1))
    (hq1 : qi.eval1_quad = ∫ v in (v0 qi.gamma kn qi.omega)..(v2 qi.gamma kn qi.omega), SedovFuncsO3.L1.efun01 (o3Funcs (constsOf qi)) v)
    (hq2 : qi.eval2_quad = ∫ v in (v0 qi.gamma kn qi.omega)..(v2 qi.gamma kn qi.omega), SedovFuncsO3.L1.efun02 (o3Funcs (constsOf qi)) v)
    (f g h : ℝ → ℝ)
    (hf : ∀ v ∈ Ioo (v0 qi.gamma kn qi.omega) (v2 qi.gamma kn qi.omega),
      f (SedovFuncsO3.L1.l_fun (o3Funcs (constsOf qi)) v) = SedovFuncsO3.L1.f_fun (o3Funcs (constsOf qi)) v)
    (hg : ∀ v ∈ Ioo (v0 qi.gamma kn qi.omega) (v2 qi.gamma kn qi.omega),
      g (SedovFuncsO3.L1.l_fun (o3Funcs (constsOf qi)) v) = SedovFuncsO3.L1.g_fun (o3Funcs (constsOf qi)) v)
    (hh : ∀ v ∈ Ioo (v0 qi.gamma kn qi.omega) (v2 qi.gamma kn qi.omega),
      h (SedovFuncsO3.L1.l_fun (o3Funcs (constsOf qi)) v) = SedovFuncsO3.L1.h_fun (o3Funcs (constsOf qi)) v)
    (t : ℝ) (ht : 0 < t) :
    EnergyConserved kn qi.gamma qi.eblast (density (shockOf qi) g t) (velocity (shockOf qi) f t)
      (pressure (shockOf qi) h t) (SedovShock.r2 (shockOf qi) t) := by
  obtain ⟨htype, h8⟩ := std_of_c10 qi kn hk hstd
  have hC : O3Consts (o3Funcs (constsOf qi)) qi.gamma kn qi.omega := by
    have := consts_omega3 (constsOf qi) (acceptedC_of qi D) h9 h12
    rwa [show (constsOf qi).geometry = (kn : ℝ) from hk] at this
  have h1 : 1 ≤ kn := by rcases kn_cases qi D kn hk with h | h | h <;> omega
  obtain ⟨I1, I2, Q1, Q2, N1, N2⟩ := eval_o3_band kn h1 hC (params_of qi D kn hk) htype
    (by rw [hC.a1]; exact ha1) (by rw [hC.a3, hC.a2, hC.omega]; exact hpp1) hX f g h hf hg hh
  exact energy_of_evals qi D kn hk h8 f g h I1 I2 (hq1.trans Q1) (hq2.trans Q2) N1 N2 t ht

/-- γ = 7/5, k = 3, ω = 9/5 + 5e-5 (denom3 = -5e-5 ≠ 0: inside the band, not special): a point of the omega3
path where every hypothesis of `sedov_energy_band_omega3_partial` is satisfiable -/
def exBandC : SedovConsts.P := ⟨851072/1000000, 7/5, 3, 36001/20000, 1⟩

example : ∃ (qi : SedovInit.P) (f g h : ℝ → ℝ), Documented qi ∧ qi.geometry = ((3 : ℕ) : ℝ)
    ∧ SedovInit.c10 qi ∧ ¬ SedovInit.c9 qi ∧ SedovInit.c12 qi ∧ K.denom3 qi.gamma (3 : ℕ) qi.omega ≠ 0
    ∧ 0 ≤ K.a1 qi.gamma (3 : ℕ) qi.omega
    ∧ 0 ≤ K.a3 qi.gamma (3 : ℕ) qi.omega + qi.omega * K.a2 qi.gamma (3 : ℕ) qi.omega
    ∧ 2 * K.denom2 qi.gamma (3 : ℕ) qi.omega ≤ (((3 : ℕ) : ℝ) + 2 - qi.omega) * (qi.gamma + 1)
    ∧ (∀ v ∈ Ioo (v0 qi.gamma (3 : ℕ) qi.omega) (v2 qi.gamma (3 : ℕ) qi.omega),
        f (SedovFuncsO3.L1.l_fun (o3Funcs (constsOf qi)) v) = SedovFuncsO3.L1.f_fun (o3Funcs (constsOf qi)) v)
    ∧ (∀ v ∈ Ioo (v0 qi.gamma (3 : ℕ) qi.omega) (v2 qi.gamma (3 : ℕ) qi.omega),
        g (SedovFuncsO3.L1.l_fun (o3Funcs (constsOf qi)) v) = SedovFuncsO3.L1.g_fun (o3Funcs (constsOf qi)) v)
    ∧ (∀ v ∈ Ioo (v0 qi.gamma (3 : ℕ) qi.omega) (v2 qi.gamma (3 : ℕ) qi.omega),
        h (SedovFuncsO3.L1.l_fun (o3Funcs (constsOf qi)) v) = SedovFuncsO3.L1.h_fun (o3Funcs (constsOf qi)) v) := by
  let qi := withQuads exBandC 1 1
  have D : Documented qi := documented_withQuads _ _ _ (Or.inr (Or.inr rfl)) (by norm_num [exBandC]) (by norm_num [exBandC])
    (by norm_num [exBandC]) (by norm_num [exBandC]) (by norm_num [exBandC])
  have hk : qi.geometry = ((3 : ℕ) : ℝ) := by show (3 : ℝ) = _; norm_num
  have hstd : SedovInit.c10 qi := by
    init_cond_at qi (7/5) 3 (36001/20000)
  have h9 : ¬ SedovInit.c9 qi := by
    init_cond_at qi (7/5) 3 (36001/20000)
  have h12 : SedovInit.c12 qi := by
    init_cond_at qi (7/5) 3 (36001/20000)
  have hd3 : K.denom3 qi.gamma (3 : ℕ) qi.omega ≠ 0 := by show K.denom3 (7/5) (3:ℕ) (36001/20000) ≠ 0; norm_num [K.denom3]
  have ha1 : 0 ≤ K.a1 qi.gamma (3 : ℕ) qi.omega := by
    show 0 ≤ K.a1 (7/5) (3:ℕ) (36001/20000); unfold K.a1 K.a2; norm_num
  have hpp1 : 0 ≤ K.a3 qi.gamma (3 : ℕ) qi.omega + qi.omega * K.a2 qi.gamma (3 : ℕ) qi.omega := by
    show 0 ≤ K.a3 (7/5) (3:ℕ) (36001/20000) + 36001/20000 * K.a2 (7/5) (3:ℕ) (36001/20000); unfold K.a3 K.a2; norm_num
  have hX : 2 * K.denom2 qi.gamma (3 : ℕ) qi.omega ≤ (((3 : ℕ) : ℝ) + 2 - qi.omega) * (qi.gamma + 1) := by
    show 2 * K.denom2 (7/5) (3:ℕ) (36001/20000) ≤ (((3 : ℕ) : ℝ) + 2 - 36001/20000) * (7/5 + 1); unfold K.denom2; norm_num
  obtain ⟨htype, -⟩ := std_of_c10 qi 3 hk hstd
  have hC : O3Consts (o3Funcs (constsOf qi)) qi.gamma (3:ℕ) qi.omega := by
    have := consts_omega3 (constsOf qi) (acceptedC_of qi D) h9 h12
    rwa [show (constsOf qi).geometry = ((3:ℕ) : ℝ) from hk] at this
  obtain ⟨f, g, h, hf, hg, hh⟩ := exists_funcs_o3_band 3 (by norm_num) hC (params_of qi D 3 hk) htype
    (by rw [hC.a1]; exact ha1) (by rw [hC.a3, hC.a2, hC.omega]; exact hpp1) hX
  exact ⟨qi, f, g, h, D, hk, hstd, h9, h12, hd3, ha1, hpp1, hX, hf, hg, hh⟩

/-! ### The limits of the two quadratures (generated model SedovQuad)

`Atoms` says "quad returns the integral between the code's limits".  Which limits the real constructor
passes to `sci_int.quad` is traced (generated model SedovQuad: the same constructor trace with the
ARGUMENTS of the two quad calls as outputs): on every accepting path that is not of the singular type
quad is called exactly twice, both times up to v2, from v0 on the standard type and from vv on the
vacuum type — the limits of `Atoms`.  A change of `vmin` or of the calls breaks this theorem. -/

/-- pins: the decisions of the SedovQuad trace are those of SedovInit -/
theorem quad_c0 (p : SedovQuad.P) : SedovQuad.c0 p ↔ p.geometry = 1 := by epv_semi_bridge_cond
theorem quad_c2 (p : SedovQuad.P) : SedovQuad.c2 p ↔ p.geometry = 2 := by epv_semi_bridge_cond
theorem quad_c3 (p : SedovQuad.P) : SedovQuad.c3 p ↔ p.geometry = 3 := by epv_semi_bridge_cond
theorem quad_c1 (p : SedovQuad.P) : SedovQuad.c1 p ↔ p.gamma < 1 := by epv_semi_bridge_cond
theorem quad_c4 (p : SedovQuad.P) : SedovQuad.c4 p ↔ p.rho0 < 0 := by epv_semi_bridge_cond
theorem quad_c5 (p : SedovQuad.P) : SedovQuad.c5 p ↔ p.eblast < 0 := by epv_semi_bridge_cond
theorem quad_c6 (p : SedovQuad.P) : SedovQuad.c6 p ↔ p.omega < 0 := by epv_semi_bridge_cond
theorem quad_c7 (p : SedovQuad.P) : SedovQuad.c7 p ↔ p.geometry ≤ p.omega := by epv_semi_bridge_cond
theorem quad_c8 (p : SedovQuad.P) : SedovQuad.c8 p ↔
    |4 / ((p.geometry + 2 - p.omega) * (p.gamma + 1)) - 2 / ((p.gamma - 1) * p.geometry + 2)| ≤ 1 / 10000 := by
  epv_semi_bridge_cond
theorem quad_c10 (p : SedovQuad.P) : SedovQuad.c10 p ↔
    4 / ((p.geometry + 2 - p.omega) * (p.gamma + 1)) < 2 / ((p.gamma - 1) * p.geometry + 2) - 1 / 10000 := by
  epv_semi_bridge_cond
theorem quad_c11 (p : SedovQuad.P) : SedovQuad.c11 p ↔
    2 / ((p.gamma - 1) * p.geometry + 2) + 1 / 10000 < 4 / ((p.geometry + 2 - p.omega) * (p.gamma + 1)) := by
  epv_semi_bridge_cond

/-- what the constructor's six checks let through -/
structure AcceptedQ (p : SedovQuad.P) : Prop where
  geo : p.geometry = 1 ∨ p.geometry = 2 ∨ p.geometry = 3
  gamma : ¬ p.gamma < 1
  rho0 : ¬ p.rho0 < 0
  eblast : ¬ p.eblast < 0
  omega0 : ¬ p.omega < 0
  omegak : ¬ p.geometry ≤ p.omega

set_option hygiene false in
/-- prune the traced tree by the acceptance facts and the geometry (`epv_semi_prune`: whatever the number of a
condition and the order of the constructor's checks), split what is left and run `tac` on every remaining leaf -/
macro "quad_cases " A:ident p:ident " on " defs:Lean.Parser.Tactic.simpLemma,* " with " tac:tacticSeq : tactic =>
  `(tactic| (have hAgamma := (AcceptedQ.gamma $A)
             have hArho0 := (AcceptedQ.rho0 $A)
             have hAeblast := (AcceptedQ.eblast $A)
             have hAomega0 := (AcceptedQ.omega0 $A)
             have hAomegak := (AcceptedQ.omegak $A)
             rcases (AcceptedQ.geo $A) with hg | hg | hg <;>
             (simp only [$defs,*, if_true, if_false]
              epv_semi_prune
              (try split_ifs) <;> ($tac))))

/-- **the limits of the two quadratures**: accepted, not singular type ⇒ two calls, (v0 | vv) → v2 -/
theorem quad_limits (p : SedovQuad.P) (A : AcceptedQ p) (h8 : ¬ SedovQuad.c8 p) :
    SedovQuad.ncalls p = 2 ∧ SedovQuad.q1_hi p = v2 p.gamma p.geometry p.omega
    ∧ SedovQuad.q2_hi p = v2 p.gamma p.geometry p.omega ∧ SedovQuad.q2_lo p = SedovQuad.q1_lo p
    ∧ (SedovQuad.c10 p → SedovQuad.q1_lo p = v0 p.gamma p.geometry p.omega)
    ∧ (SedovQuad.c11 p → SedovQuad.q1_lo p = vv p.geometry p.omega) := by
  quad_cases A p on SedovQuad.ncalls, SedovQuad.q1_lo, SedovQuad.q1_hi, SedovQuad.q2_lo, SedovQuad.q2_hi, h8 with
    first
    | (refine ⟨by simp only [epv_leaf], by simp only [epv_leaf, v2] <;> epv_semi_eq, by simp only [epv_leaf, v2] <;> epv_semi_eq,
         by simp only [epv_leaf], fun h10 => ?_, fun h11 => ?_⟩
       · first
         | (simp only [epv_leaf, v0]; done)
         | (exfalso; simp only [epv_cond] at *; linarith)
         | (simp only [epv_leaf, v0] <;> epv_semi_eq)
       · first
         | (simp only [epv_leaf, vv]; done)
         | (exfalso; simp only [epv_cond] at *; linarith)
         | (simp only [epv_leaf, vv] <;> epv_semi_eq))
    | -- the `raise AttributeError` leaves (solution_type never assigned) are unreachable for real numbers
      (exfalso
       simp only [epv_cond] at *
       epv_semi_abs_lin)

/-- non-vacuity: the default problem is accepted and not of singular type -/
example : ∃ p : SedovQuad.P, AcceptedQ p ∧ ¬ SedovQuad.c8 p ∧ SedovQuad.c10 p := by
  refine ⟨⟨851072/1000000, 7/5, 3, 0, 1⟩, ⟨Or.inr (Or.inr rfl), by norm_num, by norm_num, by norm_num, by norm_num, by norm_num⟩, ?_, ?_⟩
  · rw [quad_c8]; norm_num [abs_le]
  · rw [quad_c10]; norm_num

end

end EPV.C11
