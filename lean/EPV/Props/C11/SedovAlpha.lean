/-
C11 companions — how `__init__` obtains `alpha` (generated model SedovInit, the real
constructor on five symbolic parameters; `quad(efun01|efun02, vmin, v2)` are the atoms
`eval1_quad`, `eval2_quad`):

  * `init_alpha_code`: on every accepting path that is not of the singular type,
    alpha = `alphaCode geometry γ eval1_quad eval2_quad` — the definition the energy theorem
    `sedov_energy` assumes;
  * `singular_integrals`, `singular_closed_forms`: for the singular similarity functions
    f = λ, g = λ^(k-2), h = λ^k (generated model SedovSingular) the two λ-space energy
    integrals are 1/(2k), and when v2 = vstar EXACTLY the closed forms coded for eval1, eval2,
    alpha (sedov.py:143-150) are `eval1`, `eval2`, `alphaCode` of those integrals;
  * `init_singular_closed`: the singular leaves of SedovInit carry exactly those closed forms.

Not covered: the code takes the singular branch on the whole band |v2 - vstar| ≤ 1e-4, where
the closed forms are only approximations of the integrals (relative error ≤ (v2/vstar)² - 1,
about 3e-4); and at the exactly singular ω the real constructor dies with ZeroDivisionError in
`d_val` (finding, see Props/C20/Sedov.lean).
-/
import EPV.Lemmas.SedovInit
import EPV.Gen.SedovSingular
import EPV.Spec.Sedov
import EPV.Tactics
import Mathlib.Analysis.SpecialFunctions.Integrals.Basic

set_option linter.all false
set_option maxRecDepth 100000

open EPV EPV.Gen EPV.Spec.Sedov EPV.Sedov MeasureTheory

namespace EPV.C11

noncomputable section

/-- non-singular accepting paths: eval1, eval2 are the two quadratures and alpha is `alphaCode` -/
theorem init_alpha_code (p : SedovInit.P) (A : Accepted p) (hns : ¬ SingularType p) :
    SedovInit.eval1 p = p.eval1_quad ∧ SedovInit.eval2 p = p.eval2_quad ∧
    SedovInit.alpha p = alphaCode p.geometry p.gamma p.eval1_quad p.eval2_quad := by
  have h8 : ¬ SedovInit.c8 p := hns
  init_cases A p on SedovInit.eval1, SedovInit.eval2, SedovInit.alpha, h8 with
    first
    | (simp only [epv_leaf, true_and]
       unfold alphaCode
       rw [hg]
       norm_num)
    | -- the three `raise AttributeError` leaves (solution_type left unset: neither |v2-vstar| ≤ s,
      -- nor v2 < vstar - s, nor v2 > vstar + s) are unreachable for real numbers
      (exfalso
       simp only [epv_cond, SingularType, not_le, not_lt] at *
       rcases lt_abs.mp h8 with hh | hh <;> linarith)

/-- the singular similarity functions (generated SedovSingular with r2 = 1, i.e. functions of λ) -/
def fS (k : ℕ) : ℝ → ℝ := fun x => SedovSingular.f_fun ⟨k, 1⟩ x
def gS (k : ℕ) : ℝ → ℝ := fun x => SedovSingular.g_fun ⟨k, 1⟩ x
def hS (k : ℕ) : ℝ → ℝ := fun x => SedovSingular.h_fun ⟨k, 1⟩ x

theorem singular_leaves : SedovSingular.okLeaves = [0] := rfl

/-- ∫₀¹ g f² λ^(k-1) = ∫₀¹ h λ^(k-1) = 1/(2k) for the singular functions -/
theorem singular_integrals (k : ℕ) (hk : k = 1 ∨ k = 2 ∨ k = 3) :
    J1 k (fS k) (gS k) = 1 / (2 * k) ∧ J2 k (hS k) = 1 / (2 * k) := by
  unfold J1 J2 fS gS hS
  simp only [epv_tree, epv_leaf, div_one]
  rcases hk with rfl | rfl | rfl
  · constructor
    · have : ∫ x in (0:ℝ)..1, x ^ (((1:ℕ):ℝ) - 2) * x ^ 2 * x ^ (1 - 1) = ∫ x in (0:ℝ)..1, x := by
        apply intervalIntegral.integral_congr_ae
        refine Filter.Eventually.of_forall fun x hx => ?_
        rw [Set.uIoc_of_le zero_le_one] at hx
        have e : ((1:ℕ):ℝ) - 2 = -1 := by norm_num
        rw [e, Real.rpow_neg_one, Nat.sub_self, pow_zero, mul_one]
        field_simp [hx.1.ne']
      rw [this]; simp
    · have : ∫ x in (0:ℝ)..1, x ^ ((1:ℕ):ℝ) * x ^ (1 - 1) = ∫ x in (0:ℝ)..1, x := by
        congr 1; funext x; simp
      rw [this]; simp
  · constructor
    · have : ∫ x in (0:ℝ)..1, x ^ (((2:ℕ):ℝ) - 2) * x ^ 2 * x ^ (2 - 1) = ∫ x in (0:ℝ)..1, x ^ 3 := by
        congr 1; funext x
        have e : ((2:ℕ):ℝ) - 2 = 0 := by norm_num
        rw [e, Real.rpow_zero]; ring
      rw [this, integral_pow]; norm_num
    · have : ∫ x in (0:ℝ)..1, x ^ ((2:ℕ):ℝ) * x ^ (2 - 1) = ∫ x in (0:ℝ)..1, x ^ 3 := by
        congr 1; funext x
        rw [Real.rpow_natCast]; ring
      rw [this, integral_pow]; norm_num
  · constructor
    · have : ∫ x in (0:ℝ)..1, x ^ (((3:ℕ):ℝ) - 2) * x ^ 2 * x ^ (3 - 1) = ∫ x in (0:ℝ)..1, x ^ 5 := by
        congr 1; funext x
        have e : ((3:ℕ):ℝ) - 2 = 1 := by norm_num
        rw [e, Real.rpow_one]; ring
      rw [this, integral_pow]; norm_num
    · have : ∫ x in (0:ℝ)..1, x ^ ((3:ℕ):ℝ) * x ^ (3 - 1) = ∫ x in (0:ℝ)..1, x ^ 5 := by
        congr 1; funext x
        rw [Real.rpow_natCast]; ring
      rw [this, integral_pow]; norm_num

/-- closed forms of sedov.py:143-150 = the definitions, when v2 = vstar exactly -/
theorem singular_closed_forms (k : ℕ) (hk : k = 1 ∨ k = 2 ∨ k = 3) (γ ω : ℝ) (hγ : 1 < γ)
    (hx : (k : ℝ) + 2 - ω ≠ 0)
    (hsing : 4 / (((k : ℝ) + 2 - ω) * (γ + 1)) = 2 / ((γ - 1) * k + 2)) :
    eval2 k γ ω (hS k) = (γ + 1) / (k * ((γ - 1) * k + 2) ^ 2) ∧
    eval1 k γ ω (fS k) (gS k) = 2 / (γ - 1) * ((γ + 1) / (k * ((γ - 1) * k + 2) ^ 2)) ∧
    alphaCode k γ (eval1 k γ ω (fS k) (gS k)) (eval2 k γ ω (hS k))
      = (γ + 1) / (γ - 1) * 2 ^ k / (k * ((γ - 1) * k + 2) ^ 2) * (if k = 1 then 1 else Real.pi) := by
  obtain ⟨h1, h2⟩ := singular_integrals k hk
  have hγ1 : γ - 1 ≠ 0 := by linarith
  have hγ2 : γ + 1 ≠ 0 := by linarith
  have hk0 : (k : ℝ) ≠ 0 := by rcases hk with rfl | rfl | rfl <;> norm_num
  have hkpos : (0 : ℝ) < k := by rcases hk with rfl | rfl | rfl <;> norm_num
  have hd : (γ - 1) * k + 2 ≠ 0 := by
    have : 0 < (γ - 1) * k := mul_pos (by linarith) hkpos
    linarith
  -- v2 = vstar  ⟺  (k+2-ω)(γ+1) = 2((γ-1)k + 2)
  have hrel : ((k : ℝ) + 2 - ω) * (γ + 1) = 2 * ((γ - 1) * k + 2) := by
    rw [div_eq_div_iff (mul_ne_zero hx hγ2) hd] at hsing
    linarith
  have hX : (k : ℝ) + 2 - ω = 2 * ((γ - 1) * k + 2) / (γ + 1) := by
    field_simp; linarith
  unfold eval1 eval2 alphaCode
  rw [h1, h2, hX]
  refine ⟨?_, ?_, ?_⟩
  · field_simp; norm_num
  · field_simp; ring
  · rcases hk with rfl | rfl | rfl
    · simp only [Nat.cast_one, if_true]; field_simp; ring
    · rw [if_neg (by norm_num), if_neg (by norm_num)]; push_cast; field_simp; ring
    · rw [if_neg (by norm_num), if_neg (by norm_num)]; push_cast; field_simp; norm_num

/-- `if self.geometry != 1: self.alpha *= math.pi` -/
def piFactor (kr : ℝ) : ℝ := if kr = 1 then 1 else Real.pi

/-- the singular accepting leaves of the traced constructor carry exactly these closed forms -/
theorem init_singular_closed (p : SedovInit.P) (A : Accepted p) (hs : SingularType p) :
    SedovInit.eval2 p = (p.gamma + 1) / (p.geometry * ((p.gamma - 1) * p.geometry + 2) ^ 2) ∧
    SedovInit.eval1 p = 2 / (p.gamma - 1) * ((p.gamma + 1) / (p.geometry * ((p.gamma - 1) * p.geometry + 2) ^ 2)) ∧
    SedovInit.alpha p = (p.gamma + 1) / (p.gamma - 1) * 2 ^ p.geometry
        / (p.geometry * ((p.gamma - 1) * p.geometry + 2) ^ 2) * piFactor p.geometry := by
  have h8 : SedovInit.c8 p := hs
  init_cases A p on SedovInit.eval1, SedovInit.eval2, SedovInit.alpha, h8 with
    (simp only [epv_leaf, true_and]
     unfold piFactor
     rw [hg]
     norm_num)

/-- non-vacuity of `singular_closed_forms`: γ = 7/5, k = 3, ω = 7/3 -/
example : (1:ℝ) < 7/5 ∧ ((3:ℕ):ℝ) + 2 - 7/3 ≠ 0 ∧
    4 / ((((3:ℕ):ℝ) + 2 - 7/3) * ((7:ℝ)/5 + 1)) = 2 / (((7:ℝ)/5 - 1) * (3:ℕ) + 2) := by
  norm_num

end

end EPV.C11
