/-
C11 companions — how `__init__` obtains `alpha` (generated model SedovInit, the real
constructor on five symbolic parameters; `quad(efun01|efun02, vmin, v2)` are the atoms
`eval1_quad`, `eval2_quad`):

  * `init_alpha_code`: on every accepting path that is not of the singular type,
    alpha = `alphaCode geometry γ eval1_quad eval2_quad` — the definition the energy theorem
    `sedov_energy` assumes;
  * `singular_integrals`, `singular_closed_forms`: for the singular similarity functions
    f = λ, g = λ^(k-2), h = λ^k (generated model SedovSingular) the two λ-space energy
    integrals are 1/(2k), and when v2 = vstar EXACTLY the closed forms coded for eval1, eval2,
    alpha (sedov.py:143-150) are `eval1`, `eval2`, `alphaCode` of those integrals;
  * `init_singular_closed`: the singular leaves of SedovInit carry exactly those closed forms.

Not covered: the code takes the singular branch on the whole band |v2 - vstar| ≤ 1e-4, where
the closed forms are only approximations of the integrals (relative error ≤ (v2/vstar)² - 1,
about 3e-4); and at the exactly singular ω the real constructor dies with ZeroDivisionError in
`d_val` (finding, see Props/C20/Sedov.lean).
-/
import EPV.Lemmas.SedovInit
import EPV.Lemmas.SedovSingular
import EPV.Spec.Sedov
import EPV.Tactics
import EPV.Lemmas.Bridge.SemiTac
import Mathlib.Analysis.SpecialFunctions.Integrals.Basic

set_option linter.all false
set_option maxRecDepth 100000

open EPV EPV.Gen EPV.Spec.Sedov EPV.Sedov MeasureTheory

namespace EPV.C11

noncomputable section

/-- non-singular accepting paths: eval1, eval2 are the two quadratures and alpha is `alphaCode` -/
theorem init_alpha_code (p : SedovInit.P) (A : Accepted p) (hns : ¬ SingularType p) :
    SedovInit.eval1 p = p.eval1_quad ∧ SedovInit.eval2 p = p.eval2_quad ∧
    SedovInit.alpha p = alphaCode p.geometry p.gamma p.eval1_quad p.eval2_quad := by
  have h8 : ¬ SedovInit.c8 p := (init_c8 p).not.mpr hns
  init_cases A p on SedovInit.eval1, SedovInit.eval2, SedovInit.alpha, h8 with
    first
    | (simp only [epv_leaf]
       unfold alphaCode
       rw [hg]
       refine ⟨?_, ?_, ?_⟩ <;> (try norm_num) <;> epv_semi_eq)
    | -- the three `raise AttributeError` leaves (solution_type left unset: neither |v2-vstar| ≤ s,
      -- nor v2 < vstar - s, nor v2 > vstar + s) are unreachable for real numbers
      (exfalso
       simp only [epv_cond] at *
       epv_semi_abs_lin)

/-- `if self.geometry != 1: self.alpha *= math.pi` -/
def piFactor (kr : ℝ) : ℝ := if kr = 1 then 1 else Real.pi

/-- the singular accepting leaves of the traced constructor carry exactly these closed forms -/
theorem init_singular_closed (p : SedovInit.P) (A : Accepted p) (hs : SingularType p) :
    SedovInit.eval2 p = (p.gamma + 1) / (p.geometry * ((p.gamma - 1) * p.geometry + 2) ^ 2) ∧
    SedovInit.eval1 p = 2 / (p.gamma - 1) * ((p.gamma + 1) / (p.geometry * ((p.gamma - 1) * p.geometry + 2) ^ 2)) ∧
    SedovInit.alpha p = (p.gamma + 1) / (p.gamma - 1) * 2 ^ p.geometry
        / (p.geometry * ((p.gamma - 1) * p.geometry + 2) ^ 2) * piFactor p.geometry := by
  have h8 : SedovInit.c8 p := (init_c8 p).mpr hs
  init_cases A p on SedovInit.eval1, SedovInit.eval2, SedovInit.alpha, h8 with
    (simp only [epv_leaf]
     unfold piFactor
     rw [hg]
     refine ⟨?_, ?_, ?_⟩ <;> (try norm_num) <;> epv_semi_eq)

/-- non-vacuity of `singular_closed_forms`: γ = 7/5, k = 3, ω = 7/3 -/
example : (1:ℝ) < 7/5 ∧ ((3:ℕ):ℝ) + 2 - 7/3 ≠ 0 ∧
    4 / ((((3:ℕ):ℝ) + 2 - 7/3) * ((7:ℝ)/5 + 1)) = 2 / (((7:ℝ)/5 - 1) * (3:ℕ) + 2) := by
  norm_num

end

end EPV.C11
