/-
C11 — Sedov: the energy behind the shock is the blast energy, the mass behind the shock is
the mass the initial profile held inside the shock radius, and ahead of the shock the solver
returns the undisturbed initial state.

Objects.  `SedovShock` is the generated model of `_run` lines 185-242: shock radius
r2(t) = (E/(α ρ₀))^(1/(k+2-ω)) t^(2/(k+2-ω)), shock speed, post-shock state (ρ₂, u₂, p₂), as
functions of the parameters and of `alpha`.  Behind the shock `_run`/`physical` return
ρ = ρ₂ g(λ), u = u₂ f(λ), p = p₂ h(λ) at λ = r / r2 (generated models SedovPhysical,
SedovRunSing/Std/Vac).  In the theorems below f, g, h are ARBITRARY functions on [0, 1]
(integrable where an integral has to be split) and α is DEFINED the way `__init__` defines it
from the two energy integrals (`alphaCode`, `eval1`, `eval2`), so the statement is exactly:
"the normalisation chosen by the code makes the energy integral equal to eblast at every
time, whatever the similarity functions are".  What is NOT proved here: that the traced
f, g, h of `sedov_funcs_standard` satisfy the mass identity ∫ g λ^(k-1) = (γ-1)/((γ+1)(k-ω))
(stated as the remaining obligation in `sedov_mass_iff_partial`), and the change of variables
v ↔ λ with its endpoint singularity that turns `quad(efun01, vmin, v2)` into the λ-space
integral (a hypothesis of `sedov_eval_of_substitution_partial`).
-/
import EPV.Lemmas.SedovFields
import EPV.Lemmas.SedovSingular
import EPV.Spec.Sedov

set_option linter.all false

open EPV EPV.Gen EPV.Spec.Sedov EPV.Lemmas.Sedov EPV.Sedov MeasureTheory

namespace EPV.C11

noncomputable section

/-- **C11, energy (full strength).**  For every geometry k ∈ {1,2,3}, γ > 1, ρ₀ > 0, E > 0,
0 ≤ ω < k, every t > 0 and ARBITRARY similarity functions f, g, h (with the two energy
integrands integrable on [0,1]): if `alpha` is what `__init__` computes from the two energy
integrals (and is positive), the energy behind the shock of the returned fields equals eblast. -/
theorem sedov_energy (p : SedovShock.P) (k : ℕ) (A : Admissible p k) (f g h : ℝ → ℝ)
    (hI1 : IntervalIntegrable (fun x => g x * f x ^ 2 * x ^ (k - 1)) volume 0 1)
    (hI2 : IntervalIntegrable (fun x => h x * x ^ (k - 1)) volume 0 1)
    (hα : p.alpha = alphaCode k p.gamma (eval1 k p.gamma p.omega f g) (eval2 k p.gamma p.omega h))
    (t : ℝ) (ht : 0 < t) :
    EnergyConserved k p.gamma p.eblast (density p g t) (velocity p f t) (pressure p h t)
      (SedovShock.r2 p t) := by
  have hRpos := r2_pos A ht
  have hkey := r2_rpow_xg2 A ht
  have hγ1 : p.gamma - 1 ≠ 0 := by have := A.gamma; linarith
  have hγ2 : p.gamma + 1 ≠ 0 := by have := A.gamma; linarith
  have hx : p.geometry + 2 - p.omega ≠ 0 := A.xg2_pos.ne'
  have hα0 := A.alpha.ne'
  have hρ0 := A.rho0.ne'
  obtain ⟨j, hj⟩ : ∃ j, k = j + 1 := by
    rcases A.hk with h | h | h <;> exact ⟨k - 1, by omega⟩
  -- the post-shock state in terms of R = r2 p t
  have hrho2 : SedovShock.rho2 p t = (p.gamma + 1) / (p.gamma - 1) * (p.rho0 * SedovShock.r2 p t ^ (-p.omega)) := by
    epv_semi_tree
  have hu2 : SedovShock.u2 p t = 2 * (2 / (p.geometry + 2 - p.omega) * SedovShock.r2 p t / t) / (p.gamma + 1) := by
    epv_semi_tree
  have hp2 : SedovShock.p2 p t = 2 * (p.rho0 * SedovShock.r2 p t ^ (-p.omega))
      * (2 / (p.geometry + 2 - p.omega) * SedovShock.r2 p t / t) ^ 2 / (p.gamma + 1) := by
    epv_semi_tree
  unfold EnergyConserved energyBehind density velocity pressure
  rw [hrho2, hu2, hp2]
  have hpc := pow_combine (SedovShock.r2 p t) p.omega k hRpos
  rw [← A.geo, hkey] at hpc
  generalize SedovShock.r2 p t = R at *
  generalize R ^ (-p.omega) = Rω at *
  -- bring the integrand into similarity form
  obtain ⟨c, hc⟩ : ∃ c, c = 8 * p.rho0 * Rω * R ^ 2
      / (t ^ 2 * (p.geometry + 2 - p.omega) ^ 2 * (p.gamma - 1) * (p.gamma + 1)) := ⟨_, rfl⟩
  obtain ⟨F, hF⟩ : ∃ F : ℝ → ℝ, F = fun x => c * (g x * f x ^ 2) + c * h x := ⟨_, rfl⟩
  have hform : (fun r : ℝ => ((p.gamma + 1) / (p.gamma - 1) * (p.rho0 * Rω) * g (r / R)
        * (2 * (2 / (p.geometry + 2 - p.omega) * R / t) / (p.gamma + 1) * f (r / R)) ^ 2 / 2
        + 2 * (p.rho0 * Rω) * (2 / (p.geometry + 2 - p.omega) * R / t) ^ 2 / (p.gamma + 1) * h (r / R)
          / (p.gamma - 1)) * r ^ (k - 1))
      = fun r : ℝ => F (r / R) * r ^ (k - 1) := by
    funext r
    rw [hF, hc]
    simp only
    field_simp
    ring
  rw [hform, integral_similarity F R hRpos (k - 1)]
  have hsplit : ∫ x in (0:ℝ)..1, F x * x ^ (k - 1) = c * J1 k f g + c * J2 k h := by
    unfold J1 J2
    rw [← integral_lin _ _ _ _ 0 1 hI1 hI2, hF]
    congr 1
    funext x
    ring
  rw [hsplit, hc]
  have hk1 : k - 1 + 1 = k := by omega
  rw [hk1]
  -- eliminate E through the scaling law, then it is an identity in the remaining variables
  have hE : p.eblast = R ^ k * Rω * R ^ 2 * (p.alpha * p.rho0) / t ^ 2 := by
    rw [hpc]; field_simp
  have hgeo := A.geo
  rw [hE, hα]
  unfold alphaCode eval1 eval2
  rw [← hgeo]
  rcases A.hk with h1 | h1 | h1
  · subst h1
    have hg1 : p.geometry = 1 := by rw [hgeo]; norm_num
    rw [Ak_one, if_pos hg1, hg1]
    field_simp
    ring
  · subst h1
    have hg1 : p.geometry = 2 := by rw [hgeo]; norm_num
    rw [Ak_two, if_neg (by rw [hg1]; norm_num), hg1]
    field_simp
    ring
  · subst h1
    have hg1 : p.geometry = 3 := by rw [hgeo]; norm_num
    rw [Ak_three, if_neg (by rw [hg1]; norm_num), hg1]
    field_simp
    ring

/-- non-vacuity of `sedov_energy`: the default spherical problem (γ = 7/5, ρ₀ = 1, ω = 0,
E = 0.851072) with the constant similarity functions f = g = h = 1 satisfies every hypothesis -/
example : ∃ (p : SedovShock.P) (k : ℕ) (f g h : ℝ → ℝ), Admissible p k
    ∧ IntervalIntegrable (fun x => g x * f x ^ 2 * x ^ (k - 1)) volume 0 1
    ∧ IntervalIntegrable (fun x => h x * x ^ (k - 1)) volume 0 1
    ∧ p.alpha = alphaCode k p.gamma (eval1 k p.gamma p.omega f g) (eval2 k p.gamma p.omega h) := by
  have hJ1 : J1 3 (fun _ => 1) (fun _ => 1) = 1 / 3 := by
    unfold J1; simp [integral_pow]; norm_num
  have hJ2 : J2 3 (fun _ => 1) = 1 / 3 := by
    unfold J2; simp [integral_pow]; norm_num
  refine ⟨⟨alphaCode 3 (7/5) (eval1 3 (7/5) 0 (fun _ => 1) (fun _ => 1)) (eval2 3 (7/5) 0 (fun _ => 1)),
    851072/1000000, 7/5, 3, 0, 1⟩, 3, fun _ => 1, fun _ => 1, fun _ => 1, ?_, ?_, ?_, ?_⟩
  · refine ⟨Or.inr (Or.inr rfl), by norm_num, by norm_num, by norm_num, by norm_num, by norm_num,
      by norm_num, ?_⟩
    show 0 < alphaCode 3 (7/5) (eval1 3 (7/5) 0 (fun _ => 1) (fun _ => 1)) (eval2 3 (7/5) 0 (fun _ => 1))
    unfold alphaCode eval1 eval2
    rw [hJ1, hJ2, if_neg (by norm_num)]
    have := Real.pi_pos
    norm_num
    positivity
  · exact (by fun_prop : Continuous fun x : ℝ => (1:ℝ) * (1:ℝ) ^ 2 * x ^ (3 - 1)).intervalIntegrable 0 1
  · exact (by fun_prop : Continuous fun x : ℝ => (1:ℝ) * x ^ (3 - 1)).intervalIntegrable 0 1
  · norm_num

/-- **C11, mass.**  The mass behind the shock equals the mass the initial profile ρ₀ r^(-ω)
held inside the shock radius IF AND ONLY IF the density similarity function satisfies
∫₀¹ g λ^(k-1) dλ = (γ-1)/((γ+1)(k-ω)).  That integral identity for the traced `g_fun` of
`sedov_funcs_standard` is the remaining obligation (a growth target; checked numerically by
the oracle `o_sedov.mass`). -/
theorem sedov_mass_iff_partial (p : SedovShock.P) (k : ℕ) (A : Admissible p k) (g : ℝ → ℝ) (t : ℝ) (ht : 0 < t) :
    MassConserved k p.rho0 p.omega (density p g t) (SedovShock.r2 p t)
      ↔ ∫ x in (0:ℝ)..1, g x * x ^ (k - 1) = (p.gamma - 1) / ((p.gamma + 1) * ((k : ℝ) - p.omega)) := by
  have hRpos := r2_pos A ht
  have hγ1 : p.gamma - 1 ≠ 0 := by have := A.gamma; linarith
  have hγ2 : p.gamma + 1 ≠ 0 := by have := A.gamma; linarith
  have hkω : (k : ℝ) - p.omega ≠ 0 := by have := A.omegak; linarith
  have hk1 : k - 1 + 1 = k := by rcases A.hk with h | h | h <;> omega
  have hk1r : ((k - 1 : ℕ) : ℝ) + 1 = (k : ℝ) := by exact_mod_cast hk1
  have hrho2 : SedovShock.rho2 p t = (p.gamma + 1) / (p.gamma - 1) * (p.rho0 * SedovShock.r2 p t ^ (-p.omega)) := by
    epv_semi_tree
  unfold MassConserved massBehind density ambientDensity
  rw [hrho2]
  have hamb := integral_ambient p.rho0 p.omega (SedovShock.r2 p t) (k - 1) hRpos (by rw [hk1r]; exact A.omegak)
  rw [hk1r] at hamb
  rw [hamb]
  have hRk : SedovShock.r2 p t ^ ((k : ℝ) - p.omega) = SedovShock.r2 p t ^ k * SedovShock.r2 p t ^ (-p.omega) := by
    rw [← Real.rpow_natCast, ← Real.rpow_add hRpos]
    congr 1
  rw [hRk]
  have hRkpos : 0 < SedovShock.r2 p t ^ k := pow_pos hRpos k
  have hRωpos : 0 < SedovShock.r2 p t ^ (-p.omega) := Real.rpow_pos_of_pos hRpos _
  generalize SedovShock.r2 p t = R at *
  generalize R ^ (-p.omega) = Rω at *
  obtain ⟨F, hF⟩ : ∃ F : ℝ → ℝ, F = fun x => (p.gamma + 1) / (p.gamma - 1) * (p.rho0 * Rω) * g x := ⟨_, rfl⟩
  have hform : (fun r : ℝ => (p.gamma + 1) / (p.gamma - 1) * (p.rho0 * Rω) * g (r / R) * r ^ (k - 1))
      = fun r : ℝ => F (r / R) * r ^ (k - 1) := by rw [hF]
  rw [hform, integral_similarity F R hRpos (k - 1), hk1, hF]
  have hmul : ∫ x in (0:ℝ)..1, (p.gamma + 1) / (p.gamma - 1) * (p.rho0 * Rω) * g x * x ^ (k - 1)
      = (p.gamma + 1) / (p.gamma - 1) * (p.rho0 * Rω) * ∫ x in (0:ℝ)..1, g x * x ^ (k - 1) := by
    rw [← intervalIntegral.integral_const_mul]
    congr 1
    funext x
    ring
  rw [hmul]
  generalize (∫ x in (0:ℝ)..1, g x * x ^ (k - 1)) = G
  have hAk := (Ak_pos A.hk).ne'
  have hρ := A.rho0.ne'
  constructor
  · intro h
    have h2 := mul_left_cancel₀ hAk h
    field_simp at h2 ⊢
    linear_combination h2
  · intro h
    rw [h]
    field_simp

/-! ### The singular solution type, in full

For the exactly singular density exponent (v2 = vstar, i.e. (k+2-ω)(γ+1) = 2((γ-1)k+2); k = 2, 3 —
in planar geometry the singular ω equals the geometry and is excluded) the similarity functions
are the closed forms f = λ, g = λ^(k-2), h = λ^k of `sedov_funcs_singular` and `alpha` is the closed
form of sedov.py:147-150.  Then BOTH halves of C11 are proved with no remaining hypothesis.
(The code uses these closed forms on the whole band |v2 - vstar| ≤ 1e-4, where they are
approximations; and at the exactly singular ω the real constructor raises ZeroDivisionError —
finding, Props/C20/FindingSedov.lean.) -/

/-- the coded closed form of alpha in the singular case -/
def alphaSingular (k : ℕ) (γ : ℝ) : ℝ :=
  (γ + 1) / (γ - 1) * 2 ^ k / (k * ((γ - 1) * k + 2) ^ 2) * (if k = 1 then 1 else Real.pi)

theorem sedov_energy_singular (p : SedovShock.P) (k : ℕ) (A : Admissible p k) (hk : k = 2 ∨ k = 3)
    (hsing : 4 / (((k : ℝ) + 2 - p.omega) * (p.gamma + 1)) = 2 / ((p.gamma - 1) * k + 2))
    (hα : p.alpha = alphaSingular k p.gamma) (t : ℝ) (ht : 0 < t) :
    EnergyConserved k p.gamma p.eblast (density p (gS k) t) (velocity p (fS k) t) (pressure p (hS k) t)
      (SedovShock.r2 p t) := by
  obtain ⟨hI1, hI2⟩ := singular_integrable k hk
  have hx : (k : ℝ) + 2 - p.omega ≠ 0 := by have := A.xg2_pos; rw [A.geo] at this; exact this.ne'
  have hcl := (singular_closed_forms k A.hk p.gamma p.omega A.gamma hx hsing).2.2
  exact sedov_energy p k A (fS k) (gS k) (hS k) hI1 hI2 (by rw [hα, hcl]; rfl) t ht

theorem sedov_mass_singular (p : SedovShock.P) (k : ℕ) (A : Admissible p k) (hk : k = 2 ∨ k = 3)
    (hsing : 4 / (((k : ℝ) + 2 - p.omega) * (p.gamma + 1)) = 2 / ((p.gamma - 1) * k + 2))
    (t : ℝ) (ht : 0 < t) :
    MassConserved k p.rho0 p.omega (density p (gS k) t) (SedovShock.r2 p t) := by
  rw [sedov_mass_iff_partial p k A (gS k) t ht, singular_mass_integral k hk]
  have hγ := A.gamma
  have hγ1 : p.gamma - 1 ≠ 0 := by linarith
  have hγ2 : p.gamma + 1 ≠ 0 := by linarith
  have hk1 : (k : ℝ) - 1 ≠ 0 := by rcases hk with rfl | rfl <;> norm_num
  have hkpos : (0 : ℝ) < k := by rcases hk with rfl | rfl <;> norm_num
  have hx : (k : ℝ) + 2 - p.omega ≠ 0 := by have := A.xg2_pos; rw [A.geo] at this; exact this.ne'
  have hd : (p.gamma - 1) * k + 2 ≠ 0 := by
    have : 0 < (p.gamma - 1) * k := mul_pos (by linarith) hkpos
    linarith
  -- v2 = vstar  ⟹  k - ω = 2 (k-1)(γ-1)/(γ+1)
  rw [div_eq_div_iff (mul_ne_zero hx hγ2) hd] at hsing
  have hkω : (k : ℝ) - p.omega = 2 * ((k : ℝ) - 1) * (p.gamma - 1) / (p.gamma + 1) := by
    field_simp; linarith
  rw [hkω]
  field_simp

/-- non-vacuity: γ = 7/5, k = 3, ω = 7/3 is exactly singular and admissible -/
example : ∃ (p : SedovShock.P) (k : ℕ), Admissible p k ∧ (k = 2 ∨ k = 3)
    ∧ 4 / (((k : ℝ) + 2 - p.omega) * (p.gamma + 1)) = 2 / ((p.gamma - 1) * k + 2)
    ∧ p.alpha = alphaSingular k p.gamma := by
  refine ⟨⟨alphaSingular 3 (7/5), 851072/1000000, 7/5, 3, 7/3, 1⟩, 3, ?_, Or.inr rfl, by norm_num, rfl⟩
  refine ⟨Or.inr (Or.inr rfl), by norm_num, by norm_num, by norm_num, by norm_num, by norm_num, by norm_num, ?_⟩
  show 0 < alphaSingular 3 (7/5)
  unfold alphaSingular
  have := Real.pi_pos
  norm_num
  positivity

end

end EPV.C11
