/-
C11 (third sentence) — "Ahead of the shock the returned state is the undisturbed initial state."

Proved on the generated models of the WHOLE `_run` (two-node grid, one symbolic point:
SedovRunSing / SedovRunStd / SedovRunVac, i.e. every solution type), at tree level: for every
t > 0 and every r beyond the shock radius the code computes (the generated `SedovShock.r2`),
the returned density is ρ₀ r^(-ω) and velocity, pressure, specific internal energy and sound
speed are 0 — for all real parameters, whatever the numerical atoms are.
(On the 3001-node grid of the public call the same node values are then interpolated linearly;
that step is the hand model `EPV.Model.Sedov.assemble`, tied by `o_sedov.tie_assemble`.)
-/
import EPV.Lemmas.SedovRun
import EPV.Spec.Sedov

set_option linter.all false
set_option maxRecDepth 100000

open EPV EPV.Gen EPV.Spec.Sedov EPV.Sedov

namespace EPV.C11

noncomputable section

/-- the undisturbed initial state: ρ₀ r^(-ω), at rest, zero pressure (hence e = 0, c = 0) -/
def IsAmbient (ρ₀ ω r ρ u p e c : ℝ) : Prop :=
  ρ = ambientDensity ρ₀ ω r ∧ u = 0 ∧ p = 0 ∧ e = 0 ∧ c = 0

theorem half_ne : ((1:ℝ) / 2) ≠ 0 := by norm_num

/-- singular solution type -/
theorem sedov_ambient_sing (p : SedovRunSing.P) (r t : ℝ) (ht : 0 < t)
    (hr : SedovShock.r2 (singToShock p) t < r) :
    IsAmbient p.rho0 p.omega r (SedovRunSing.density p r t) (SedovRunSing.velocity p r t)
      (SedovRunSing.pressure p r t) (SedovRunSing.specific_internal_energy p r t)
      (SedovRunSing.sound_speed p r t) := by
  rw [shock_r2_of_pos _ ht] at hr
  have h0 : ¬ SedovRunSing.c0 p r t := by rw [runSing_c0]; exact not_le.mpr ht
  have h1 : ¬ SedovRunSing.c1 p r t := by rw [runSing_c1]; exact not_le.mpr hr
  unfold IsAmbient ambientDensity
  simp only [epv_tree, h0, h1, if_false]
  -- on every remaining leaf: unfold, then each component up to normalisation (ρ₀ r^(-ω) however the product is
  -- written; the zero fields through `0 * x = 0`, `0 / x = 0`, `0 ^ (1/2) = 0`)
  split_ifs <;> simp only [epv_leaf] <;> (repeat' apply And.intro) <;>
    first
    | trivial
    | epv_semi_eq
    | (simp only [mul_zero, zero_mul, zero_div, Real.zero_rpow half_ne] <;> first | done | epv_semi_eq)

/-- standard solution type.  `hR`: the shock radius is not negative (true for every admissible
problem, `EPV.C11.r2_pos`; for a negative r2 — impossible in real arithmetic with
E/(αρ₀) ≥ 0 — no grid node would lie behind the shock and the code would die with
UnboundLocalError on `vmin`, the one raising leaf of the traced tree). -/
theorem sedov_ambient_std (p : SedovRunStd.P) (r t : ℝ) (ht : 0 < t)
    (hR : 0 ≤ SedovShock.r2 (stdToShock p) t)
    (hr : SedovShock.r2 (stdToShock p) t < r) :
    IsAmbient p.rho0 p.omega r (SedovRunStd.density p r t) (SedovRunStd.velocity p r t)
      (SedovRunStd.pressure p r t) (SedovRunStd.specific_internal_energy p r t)
      (SedovRunStd.sound_speed p r t) := by
  rw [shock_r2_of_pos _ ht] at hr
  have h0 : ¬ SedovRunStd.c0 p r t := by rw [runStd_c0]; exact not_le.mpr ht
  rw [shock_r2_of_pos _ ht] at hR
  have h1 : ¬ SedovRunStd.c1 p r t := by rw [runStd_c1]; exact not_le.mpr hr
  have h3 : SedovRunStd.c3 p r t := by rw [runStd_c3]; exact hR
  unfold IsAmbient ambientDensity
  simp only [epv_tree, h0, h1, h3, if_false, if_true]
  -- on every remaining leaf: unfold, then each component up to normalisation (ρ₀ r^(-ω) however the product is
  -- written; the zero fields through `0 * x = 0`, `0 / x = 0`, `0 ^ (1/2) = 0`)
  split_ifs <;> simp only [epv_leaf] <;> (repeat' apply And.intro) <;>
    first
    | trivial
    | epv_semi_eq
    | (simp only [mul_zero, zero_mul, zero_div, Real.zero_rpow half_ne] <;> first | done | epv_semi_eq)

/-- vacuum solution type -/
theorem sedov_ambient_vac (p : SedovRunVac.P) (r t : ℝ) (ht : 0 < t)
    (hr : SedovShock.r2 (vacToShock p) t < r) :
    IsAmbient p.rho0 p.omega r (SedovRunVac.density p r t) (SedovRunVac.velocity p r t)
      (SedovRunVac.pressure p r t) (SedovRunVac.specific_internal_energy p r t)
      (SedovRunVac.sound_speed p r t) := by
  rw [shock_r2_of_pos _ ht] at hr
  have h0 : ¬ SedovRunVac.c0 p r t := by rw [runVac_c0]; exact not_le.mpr ht
  have h1 : ¬ SedovRunVac.c1 p r t := by rw [runVac_c1]; exact not_le.mpr hr
  unfold IsAmbient ambientDensity
  simp only [epv_tree, h0, h1, if_false]
  -- on every remaining leaf: unfold, then each component up to normalisation (ρ₀ r^(-ω) however the product is
  -- written; the zero fields through `0 * x = 0`, `0 / x = 0`, `0 ^ (1/2) = 0`)
  split_ifs <;> simp only [epv_leaf] <;> (repeat' apply And.intro) <;>
    first
    | trivial
    | epv_semi_eq
    | (simp only [mul_zero, zero_mul, zero_div, Real.zero_rpow half_ne] <;> first | done | epv_semi_eq)

/-- non-vacuity: default spherical problem at t = 1, α = 851072/1000000 (so r2 = 1), r = 2 -/
example : ∃ (p : SedovRunSing.P) (r t : ℝ), 0 < t ∧ SedovShock.r2 (singToShock p) t < r := by
  refine ⟨⟨851072/1000000, 851072/1000000, 7/5, 3, 0, 1⟩, 2, 1, one_pos, ?_⟩
  rw [shock_r2_of_pos _ one_pos]
  simp only [epv_leaf, singToShock]
  norm_num

end

end EPV.C11
