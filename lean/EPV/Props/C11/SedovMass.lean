/-
C11 — Sedov, the remaining mass obligation closed: THE MASS BEHIND THE SHOCK IS THE MASS THE INITIAL
PROFILE ρ₀ r^(-ω) HELD INSIDE THE SHOCK RADIUS, for the traced similarity functions of
`sedov_funcs_standard` (generated model SedovFuncs, special_singularity none), standard AND vacuum
solution type, every geometry k ∈ {1,2,3}, γ > 1, ρ₀ > 0, E > 0, 0 ≤ ω < k, every t > 0.

`EPV.C11.sedov_mass_iff_partial` (Props/C11/Sedov.lean) reduced mass conservation to
∫₀¹ g λ^(k-1) dλ = (γ-1)/((γ+1)(k-ω)).  That identity is proved here FROM THE MASS ODE
(Props/C01/SedovODE.lean, `Std.mass_ode`): in similarity form the mass equation is an exact
differential, d/dv [λ^k g (1 - X v/2)] = (k-ω) g λ^(k-1) dλ/dv (`sedov_mass_exact_differential`; in
λ-space m(λ) = λ^(k-1) g (λ - 2f/(γ+1))/(k-ω) is the mass inside λ), so the integral is a boundary
term: (γ-1)/(γ+1) at the shock (λ = f = g = 1) minus 0 at the inner end.  The inner end is handled
in full — no integrability or limit hypothesis is left:
  * standard type: λ → 0 as v → v0; g may be UNBOUNDED there (planar, ω > 1/γ: the integrable origin
    singularity that the solver's grid cannot resolve — known finding of the oracle), but
    λ^k g ~ x2^(γ(k-ω)/denom2) → 0 with a positive exponent;
  * vacuum type: g ~ x4^a5 may be unbounded at the vacuum boundary (a5 < 0), but
    g (1 - X v/2) ~ x4^(1+a5) → 0, 1 + a5 = -γ(k-ω)/denom3 > 0; inside the boundary g = 0.
The density similarity function in λ-space is ANY g with g(λ(v)) = G(v) strictly inside the branch
(what the root finding v(λ) computes; the root finding itself is modelled-not-verified), plus g = 0
in the hole for the vacuum type.  The change of variables λ = λ(v) across the singular end is
PROVED here for the mass integrand (monotone change of variables + the sign of dλ/dv), so the
hypothesis `hsub` of `SedovFuncs_eval_of_substitution_partial` has no analogue in this file.

The ω-special branches are covered too, AT the exactly special ω (the code uses those closed forms
on the band |denom| ≤ 1e-4 around it, where they are approximations — oracle tolerance 2|denom|):
`sedov_mass_omega3` (ω = k(2-γ), always standard type) and `sedov_mass_omega2` (ω = (2(γ-1)+k)/γ,
always vacuum type; the essential singularity exp(c/(v - v0)) of the closed form lies outside the
vacuum branch).  The singular solution type is proved in Props/C11/Sedov.lean.  So, together, the
mass half of C11 holds for every solution type and every singularity branch of the code at the
parameters where the coded closed forms are exact.
-/
import EPV.Lemmas.SedovMassVac
import EPV.Lemmas.SedovMassO2
import EPV.Lemmas.SedovMassO3
import EPV.Lemmas.SedovFields
import EPV.Spec.Sedov

set_option linter.all false
set_option maxRecDepth 100000

open EPV EPV.Gen EPV.Spec.Sedov EPV.Spec.SedovODE EPV.Lemmas.Sedov EPV.Sedov MeasureTheory Set

namespace EPV.C11

noncomputable section

/-- mass conservation ⇔ the λ-space integral identity (same statement and proof as
`sedov_mass_iff_partial` of Props/C11/Sedov.lean; Props files are leaves, so it is repeated here) -/
theorem mass_iff_integral (p : SedovShock.P) (k : ℕ) (A : Admissible p k) (g : ℝ → ℝ) (t : ℝ) (ht : 0 < t) :
    MassConserved k p.rho0 p.omega (density p g t) (SedovShock.r2 p t)
      ↔ ∫ x in (0:ℝ)..1, g x * x ^ (k - 1) = (p.gamma - 1) / ((p.gamma + 1) * ((k : ℝ) - p.omega)) := by
  have hRpos := r2_pos A ht
  have hγ1 : p.gamma - 1 ≠ 0 := by have := A.gamma; linarith
  have hγ2 : p.gamma + 1 ≠ 0 := by have := A.gamma; linarith
  have hkω : (k : ℝ) - p.omega ≠ 0 := by have := A.omegak; linarith
  have hk1 : k - 1 + 1 = k := by rcases A.hk with h | h | h <;> omega
  have hk1r : ((k - 1 : ℕ) : ℝ) + 1 = (k : ℝ) := by exact_mod_cast hk1
  have hrho2 : SedovShock.rho2 p t = (p.gamma + 1) / (p.gamma - 1) * (p.rho0 * SedovShock.r2 p t ^ (-p.omega)) := by
    epv_semi_tree
  unfold MassConserved massBehind density ambientDensity
  rw [hrho2]
  have hamb := integral_ambient p.rho0 p.omega (SedovShock.r2 p t) (k - 1) hRpos (by rw [hk1r]; exact A.omegak)
  rw [hk1r] at hamb
  rw [hamb]
  have hRk : SedovShock.r2 p t ^ ((k : ℝ) - p.omega) = SedovShock.r2 p t ^ k * SedovShock.r2 p t ^ (-p.omega) := by
    rw [← Real.rpow_natCast, ← Real.rpow_add hRpos]
    congr 1
  rw [hRk]
  have hRkpos : 0 < SedovShock.r2 p t ^ k := pow_pos hRpos k
  have hRωpos : 0 < SedovShock.r2 p t ^ (-p.omega) := Real.rpow_pos_of_pos hRpos _
  generalize SedovShock.r2 p t = R at *
  generalize R ^ (-p.omega) = Rω at *
  obtain ⟨F, hF⟩ : ∃ F : ℝ → ℝ, F = fun x => (p.gamma + 1) / (p.gamma - 1) * (p.rho0 * Rω) * g x := ⟨_, rfl⟩
  have hform : (fun r : ℝ => (p.gamma + 1) / (p.gamma - 1) * (p.rho0 * Rω) * g (r / R) * r ^ (k - 1))
      = fun r : ℝ => F (r / R) * r ^ (k - 1) := by rw [hF]
  rw [hform, integral_similarity F R hRpos (k - 1), hk1, hF]
  have hmul : ∫ x in (0:ℝ)..1, (p.gamma + 1) / (p.gamma - 1) * (p.rho0 * Rω) * g x * x ^ (k - 1)
      = (p.gamma + 1) / (p.gamma - 1) * (p.rho0 * Rω) * ∫ x in (0:ℝ)..1, g x * x ^ (k - 1) := by
    rw [← intervalIntegral.integral_const_mul]
    congr 1
    funext x
    ring
  rw [hmul]
  generalize (∫ x in (0:ℝ)..1, g x * x ^ (k - 1)) = G
  have hAk := (Ak_pos A.hk).ne'
  have hρ := A.rho0.ne'
  constructor
  · intro h
    have h2 := mul_left_cancel₀ hAk h
    field_simp at h2 ⊢
    linear_combination h2
  · intro h
    rw [h]
    field_simp

theorem params_of_admissible {q : SedovShock.P} {kn : ℕ} (A : Admissible q kn) : Params q.gamma kn q.omega :=
  ⟨A.gamma, by rcases A.hk with h | h | h <;> subst h <;> norm_num, A.omegak⟩

theorem one_le_of_admissible {q : SedovShock.P} {kn : ℕ} (A : Admissible q kn) : 1 ≤ kn := by
  rcases A.hk with h | h | h <;> omega

/-- **the mass ODE is an exact differential** (special_singularity none, either branch):
d/dv [λ^k g (1 - X v/2)] = (k-ω) g λ^(k-1) dλ/dv with the generated dλ/dv -/
theorem sedov_mass_exact_differential {p : SedovFuncs.P} {γ ω v : ℝ} (kn : ℕ) (h1 : 1 ≤ kn)
    (hC : StdConsts p γ kn ω) (I : StdInterior γ kn ω v ∨ VacInterior γ kn ω v)
    (hd2 : K.denom2 γ kn ω ≠ 0) (hd3 : K.denom3 γ kn ω ≠ 0) :
    HasDerivAt (fun v => SedovFuncs.L1.l_fun p v ^ kn * SedovFuncs.L1.g_fun p v * (1 - ((kn : ℝ) + 2 - ω) / 2 * v))
      (((kn : ℝ) - ω) * (SedovFuncs.L1.g_fun p v * SedovFuncs.L1.l_fun p v ^ (kn - 1)) * SedovFuncs.L1.l_fun_dv p v) v :=
  Mass.M_hasDerivAt hC (Std.signs_of_interior I) hd2 hd3 kn rfl h1

/-- **the integral identity, standard type** -/
theorem sedov_mass_integral_standard {p : SedovFuncs.P} {γ ω : ℝ} (kn : ℕ) (h1 : 1 ≤ kn) (hC : StdConsts p γ kn ω)
    (P : Params γ kn ω) (htype : v2 γ kn ω < vstar γ kn) (hd3 : K.denom3 γ kn ω ≠ 0) (g : ℝ → ℝ)
    (hg : ∀ v ∈ Ioo (v0 γ kn ω) (v2 γ kn ω), g (SedovFuncs.L1.l_fun p v) = SedovFuncs.L1.g_fun p v) :
    ∫ x in (0:ℝ)..1, g x * x ^ (kn - 1) = (γ - 1) / ((γ + 1) * ((kn : ℝ) - ω)) :=
  Mass.mass_integral_std kn h1 hC P htype hd3 g hg

/-- **the integral identity, vacuum type** -/
theorem sedov_mass_integral_vacuum {p : SedovFuncs.P} {γ ω : ℝ} (kn : ℕ) (h1 : 1 ≤ kn) (hC : StdConsts p γ kn ω)
    (P : Params γ kn ω) (htype : vstar γ kn < v2 γ kn ω) (hd2 : K.denom2 γ kn ω ≠ 0) (g : ℝ → ℝ)
    (hg : ∀ v ∈ Ioo (v2 γ kn ω) (vv kn ω), g (SedovFuncs.L1.l_fun p v) = SedovFuncs.L1.g_fun p v)
    (hhole : ∀ x ∈ Ioo 0 (SedovFuncs.L1.l_fun p (vv kn ω)), g x = 0) :
    ∫ x in (0:ℝ)..1, g x * x ^ (kn - 1) = (γ - 1) / ((γ + 1) * ((kn : ℝ) - ω)) :=
  Mass.mass_integral_vac kn h1 hC P htype hd2 g hg hhole

/-- **C11, mass, standard solution type (full).**  Documented domain (`Admissible`), constants of
`__init__` (`StdConsts`), v2 < vstar, special_singularity none; g the traced density similarity
function in λ-space.  At every t > 0 the mass behind the shock equals the initial mass inside r2(t). -/
theorem sedov_mass_standard (q : SedovShock.P) (kn : ℕ) (A : Admissible q kn) {p : SedovFuncs.P}
    (hC : StdConsts p q.gamma kn q.omega) (htype : v2 q.gamma kn q.omega < vstar q.gamma kn)
    (hd3 : K.denom3 q.gamma kn q.omega ≠ 0) (g : ℝ → ℝ)
    (hg : ∀ v ∈ Ioo (v0 q.gamma kn q.omega) (v2 q.gamma kn q.omega), g (SedovFuncs.L1.l_fun p v) = SedovFuncs.L1.g_fun p v)
    (t : ℝ) (ht : 0 < t) :
    MassConserved kn q.rho0 q.omega (density q g t) (SedovShock.r2 q t) := by
  rw [mass_iff_integral q kn A g t ht]
  exact Mass.mass_integral_std kn (one_le_of_admissible A) hC (params_of_admissible A) htype hd3 g hg

/-- **C11, mass, vacuum solution type (full).**  As above with vstar < v2; g vanishes inside the
vacuum boundary λ(vv) (`sedov_funcs_vacuum`). -/
theorem sedov_mass_vacuum (q : SedovShock.P) (kn : ℕ) (A : Admissible q kn) {p : SedovFuncs.P}
    (hC : StdConsts p q.gamma kn q.omega) (htype : vstar q.gamma kn < v2 q.gamma kn q.omega)
    (hd2 : K.denom2 q.gamma kn q.omega ≠ 0) (g : ℝ → ℝ)
    (hg : ∀ v ∈ Ioo (v2 q.gamma kn q.omega) (vv kn q.omega), g (SedovFuncs.L1.l_fun p v) = SedovFuncs.L1.g_fun p v)
    (hhole : ∀ x ∈ Ioo 0 (SedovFuncs.L1.l_fun p (vv kn q.omega)), g x = 0)
    (t : ℝ) (ht : 0 < t) :
    MassConserved kn q.rho0 q.omega (density q g t) (SedovShock.r2 q t) := by
  rw [mass_iff_integral q kn A g t ht]
  exact Mass.mass_integral_vac kn (one_le_of_admissible A) hC (params_of_admissible A) htype hd2 g hg hhole

/-- the same with the constants of the traced constructor (generated SedovConsts): for accepted
parameters on a path with special_singularity none, standard type -/
theorem sedov_mass_standard_code (qc : SedovConsts.P) (Ac : AcceptedC qc) (h9 : ¬ SedovConsts.c9 qc)
    (h12 : ¬ SedovConsts.c12 qc) (q : SedovShock.P) (kn : ℕ) (A : Admissible q kn)
    (hγ : qc.gamma = q.gamma) (hk : qc.geometry = kn) (hω : qc.omega = q.omega)
    (htype : v2 q.gamma kn q.omega < vstar q.gamma kn) (g : ℝ → ℝ)
    (hg : ∀ v ∈ Ioo (v0 q.gamma kn q.omega) (v2 q.gamma kn q.omega),
      g (SedovFuncs.L1.l_fun (stdFuncs qc) v) = SedovFuncs.L1.g_fun (stdFuncs qc) v)
    (t : ℝ) (ht : 0 < t) :
    MassConserved kn q.rho0 q.omega (density q g t) (SedovShock.r2 q t) := by
  have hC := consts_none qc Ac h9 h12
  rw [hγ, hk, hω] at hC
  have hd3 : K.denom3 q.gamma kn q.omega ≠ 0 := by
    intro h0; apply h12; rw [consts_c12, hγ, hk, hω, h0, abs_zero]; norm_num
  exact sedov_mass_standard q kn A hC htype hd3 g hg t ht

/-! ### The ω-special branches, at the exactly special ω -/

/-- omega2: the mass ODE is an exact differential -/
theorem sedov_mass_exact_differential_omega2 {p : SedovFuncsO2.P} {γ ω v : ℝ} (kn : ℕ) (h1 : 1 ≤ kn)
    (hC : O2Consts p γ kn ω) (I : StdInterior γ kn ω v ∨ VacInterior γ kn ω v) (hω2 : K.denom2 γ kn ω = 0) :
    HasDerivAt (fun v => SedovFuncsO2.L1.l_fun p v ^ kn * SedovFuncsO2.L1.g_fun p v * (1 - ((kn : ℝ) + 2 - ω) / 2 * v))
      (((kn : ℝ) - ω) * (SedovFuncsO2.L1.g_fun p v * SedovFuncsO2.L1.l_fun p v ^ (kn - 1)) * SedovFuncsO2.L1.l_fun_dv p v) v :=
  Mass.M2_hasDerivAt hC (Std.signs_of_interior I).toO2 hω2 kn rfl h1

/-- omega3: the mass ODE is an exact differential -/
theorem sedov_mass_exact_differential_omega3 {p : SedovFuncsO3.P} {γ ω v : ℝ} (kn : ℕ) (h1 : 1 ≤ kn)
    (hC : O3Consts p γ kn ω) (I : StdInterior γ kn ω v ∨ VacInterior γ kn ω v) (hω3 : K.denom3 γ kn ω = 0) :
    HasDerivAt (fun v => SedovFuncsO3.L1.l_fun p v ^ kn * SedovFuncsO3.L1.g_fun p v * (1 - ((kn : ℝ) + 2 - ω) / 2 * v))
      (((kn : ℝ) - ω) * (SedovFuncsO3.L1.g_fun p v * SedovFuncsO3.L1.l_fun p v ^ (kn - 1)) * SedovFuncsO3.L1.l_fun_dv p v) v :=
  Mass.M3_hasDerivAt hC (Std.signs_of_interior I).toO2 hω3 kn rfl h1

/-- **C11, mass, special_singularity omega2 (full, at the exactly special ω; vacuum type).** -/
theorem sedov_mass_omega2 (q : SedovShock.P) (kn : ℕ) (A : Admissible q kn) {p : SedovFuncsO2.P}
    (hC : O2Consts p q.gamma kn q.omega) (hω2 : K.denom2 q.gamma kn q.omega = 0) (g : ℝ → ℝ)
    (hg : ∀ v ∈ Ioo (v2 q.gamma kn q.omega) (vv kn q.omega), g (SedovFuncsO2.L1.l_fun p v) = SedovFuncsO2.L1.g_fun p v)
    (hhole : ∀ x ∈ Ioo 0 (SedovFuncsO2.L1.l_fun p (vv kn q.omega)), g x = 0)
    (t : ℝ) (ht : 0 < t) :
    MassConserved kn q.rho0 q.omega (density q g t) (SedovShock.r2 q t) := by
  rw [mass_iff_integral q kn A g t ht]
  exact Mass.mass_integral_o2 kn (one_le_of_admissible A) hC (params_of_admissible A) hω2 g hg hhole

/-- **C11, mass, special_singularity omega3 (full, at the exactly special ω; standard type).** -/
theorem sedov_mass_omega3 (q : SedovShock.P) (kn : ℕ) (A : Admissible q kn) {p : SedovFuncsO3.P}
    (hC : O3Consts p q.gamma kn q.omega) (hω3 : K.denom3 q.gamma kn q.omega = 0) (g : ℝ → ℝ)
    (hg : ∀ v ∈ Ioo (v0 q.gamma kn q.omega) (v2 q.gamma kn q.omega), g (SedovFuncsO3.L1.l_fun p v) = SedovFuncsO3.L1.g_fun p v)
    (t : ℝ) (ht : 0 < t) :
    MassConserved kn q.rho0 q.omega (density q g t) (SedovShock.r2 q t) := by
  rw [mass_iff_integral q kn A g t ht]
  exact Mass.mass_integral_o3 kn (one_le_of_admissible A) hC (params_of_admissible A) hω3 g hg

/-- the hypothesis `hg` is satisfiable: λ is strictly increasing on the open standard branch, hence
injective, so a density similarity function of λ with g(λ(v)) = G(v) on the whole branch EXISTS -/
theorem exists_density_of_lambda {p : SedovFuncs.P} {γ k ω : ℝ} (hC : StdConsts p γ k ω) (P : Params γ k ω)
    (htype : v2 γ k ω < vstar γ k) (hd2 : K.denom2 γ k ω ≠ 0) (hd3 : K.denom3 γ k ω ≠ 0) :
    ∃ g : ℝ → ℝ, ∀ v ∈ Ioo (v0 γ k ω) (v2 γ k ω), g (SedovFuncs.L1.l_fun p v) = SedovFuncs.L1.g_fun p v := by
  have hint : ∀ v ∈ Ioo (v0 γ k ω) (v2 γ k ω), StdInterior γ k ω v := fun v hv => ⟨P, htype, hv.1, hv.2⟩
  have hd : ∀ v ∈ Ioo (v0 γ k ω) (v2 γ k ω), HasDerivAt (SedovFuncs.L1.l_fun p) (SedovFuncs.L1.l_fun_dv p v) v :=
    fun v hv => (Std.hasDerivAt p v (Std.bases hC (hint v hv).toSigns)).1
  have hmono : StrictMonoOn (SedovFuncs.L1.l_fun p) (Ioo (v0 γ k ω) (v2 γ k ω)) := by
    apply strictMonoOn_of_deriv_pos (convex_Ioo _ _) (fun v hv => (hd v hv).continuousAt.continuousWithinAt)
    intro x hx
    rw [interior_Ioo] at hx
    rw [(hd x hx).deriv]
    exact Std.l_dv_pos hC (hint x hx) hd2 hd3
  refine ⟨fun x => SedovFuncs.L1.g_fun p (Function.invFunOn (SedovFuncs.L1.l_fun p) (Ioo (v0 γ k ω) (v2 γ k ω)) x), ?_⟩
  intro v hv
  simp only
  rw [hmono.injOn.leftInvOn_invFunOn hv]

/-! ### Non-vacuity -/

/-- the default spherical problem (γ = 7/5, ρ₀ = 1, ω = 0, E = α = 0.851072) is admissible, of standard
type with special_singularity none, with the constants `__init__` computes -/
example : ∃ (q : SedovShock.P) (kn : ℕ) (p : SedovFuncs.P), Admissible q kn ∧ StdConsts p q.gamma kn q.omega
    ∧ v2 q.gamma kn q.omega < vstar q.gamma kn ∧ K.denom3 q.gamma kn q.omega ≠ 0 := by
  refine ⟨⟨851072/1000000, 851072/1000000, 7/5, 3, 0, 1⟩, 3,
    { a0 := 2/5, a1 := 173/380, a2 := -2/19, a3 := 15/19, a4 := 865/228, a5 := -10/3, a_val := 3, b_val := 6,
      c_val := 7/2, d_val := 15/7, e_val := 8/5, gamp1 := 12/5, geometry := 3, gpogm := 6, omega := 0, xg2 := 5 },
    ⟨Or.inr (Or.inr rfl), by norm_num, by norm_num, by norm_num, by norm_num, by norm_num, by norm_num, by norm_num⟩,
    ⟨?_, ?_, ?_, ?_, ?_, ?_, ?_, ?_, ?_, ?_, ?_, ?_, ?_, ?_, ?_, ?_⟩, by norm_num [v2, vstar], by norm_num [K.denom3]⟩ <;>
  norm_num [K.a0, K.a1, K.a2, K.a3, K.a4, K.a5, K.a_val, K.b_val, K.c_val, K.d_val, K.e_val]

/-- a vacuum-type problem: γ = 7/5, k = 3, ω = 5/2 (denom2 = 3/10 ≠ 0) -/
example : Params (7/5) (3 : ℕ) (5/2) ∧ vstar (7/5) (3 : ℕ) < v2 (7/5) (3 : ℕ) (5/2) ∧ K.denom2 (7/5) (3 : ℕ) (5/2) ≠ 0 := by
  refine ⟨⟨by norm_num, by norm_num, by norm_num⟩, by norm_num [v2, vstar], by norm_num [K.denom2]⟩

/-- the omega3 problem γ = 7/5, k = 3, ω = 9/5 and the omega2 problem γ = 7/5, k = 3, ω = 19/7 with the
constants `__init__` computes -/
def massExO3 : SedovFuncsO3.P :=
  { a0 := 5/8, a1 := 7/16, a2 := -5/16, a3 := 15/16, a_val := 48/25, b_val := 6, c_val := 56/25, e_val := 8/5,
    gamm1 := 2/5, gamma := 7/5, gamp1 := 12/5, geometry := 3, gpogm := 6, omega := 9/5, xg2 := 16/5 }
def massExO2 : SedovFuncsO2.P :=
  { a0 := 7/8, a5 := -9/16, a_val := 48/35, b_val := 6, c_val := 8/5, e_val := 8/5, gamm1 := 2/5, gamma := 7/5,
    gamp1 := 12/5, geometry := 3, gpogm := 6, omega := 19/7, xg2 := 16/7 }
example : O3Consts massExO3 (7/5) (3 : ℕ) (9/5) ∧ K.denom3 (7/5) (3 : ℕ) (9/5) = 0 := by
  refine ⟨⟨?_, ?_, ?_, ?_, ?_, ?_, ?_, ?_, ?_, ?_, ?_, ?_, ?_, ?_, ?_⟩, by norm_num [K.denom3]⟩ <;>
  norm_num [massExO3, K.a0, K.a1, K.a2, K.a3, K.a_val, K.b_val, K.c_val, K.e_val]
example : O2Consts massExO2 (7/5) (3 : ℕ) (19/7) ∧ K.denom2 (7/5) (3 : ℕ) (19/7) = 0 := by
  refine ⟨⟨?_, ?_, ?_, ?_, ?_, ?_, ?_, ?_, ?_, ?_, ?_, ?_, ?_⟩, by norm_num [K.denom2]⟩ <;>
  norm_num [massExO2, K.a0, K.a5, K.a_val, K.b_val, K.c_val, K.e_val]

end

end EPV.C11
