/-
C16 — FINDING: `carnahan_starling_eos.de_drho` is not ∂e/∂ρ.

The method is declared `de_drho(self, P, rho)` — arguments swapped relative to the base
class, the documentation and every caller (`equation_of_state.de_drho(rho, P)`) — and its
formula lacks the factor P.  Witness: class defaults γ = 5/3, b = 1, state ρ = 1/2, P = 1/4:

    ∂e/∂ρ (ρ, P)             = -171/338   ≈ -0.5059   (finite differences agree)
    de_drho(ρ, P)  (as called) ≈ -17.59
    de_drho(P, ρ)  (swapped)   = -342/169 ≈ -2.0237  = (∂e/∂ρ)/P
-/
import EPV.Props.C16.CarnahanStarling

set_option linter.all false

open EPV EPV.Gen EPV.Spec

namespace EPV.C16

/-- with the documented argument order the analytic derivatives of `e` are wrong -/
theorem cs_de_drho_finding : ¬ (csEOS (5/3) 1).EnergyDerivsAt (1/2) (1/4) := by
  rintro ⟨h, _⟩
  have hc := cs_e_hasDerivAt_rho (5/3) 1 (1/2) (1/4) (by norm_num) (by norm_num) (by norm_num) (by norm_num [csZnum])
  have := h.unique hc
  simp only [csEOS, epv_tree, epv_cond, epv_deriv, epv_leaf] at this
  norm_num at this

/-- and calling it with the arguments swapped does not repair it: the factor P is missing -/
theorem cs_de_drho_swapped_finding :
    ¬ HasDerivAt (fun r => (csEOS (5/3) 1).e r (1/4)) ((csEOS (5/3) 1).de_drho (1/4) (1/2)) (1/2) := by
  intro h
  have hc := cs_e_hasDerivAt_rho (5/3) 1 (1/2) (1/4) (by norm_num) (by norm_num) (by norm_num) (by norm_num [csZnum])
  have := h.unique hc
  simp only [csEOS, epv_tree, epv_cond, epv_deriv, epv_leaf] at this
  norm_num at this

end EPV.C16
