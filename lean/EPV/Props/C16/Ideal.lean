/-
C16 — ideal gas (`ideal_gas_eos`): the closures `e(ρ,P)` and `P(ρ,e)` are mutual inverses
and the four analytic partial derivatives are the derivatives of the closures, for every
γ ≠ 1 (what the constructor asserts) and every density ρ ≠ 0 (what the methods guard).
Stated on the tree-level traced models, so the guards are part of the statement.
-/
import EPV.Gen.EosIdeal_eD
import EPV.Gen.EosIdeal_de_drho
import EPV.Gen.EosIdeal_de_dP
import EPV.Gen.EosIdeal_PD
import EPV.Gen.EosIdeal_dP_drho
import EPV.Gen.EosIdeal_dP_de
import EPV.Spec.EOS
import EPV.Tactics
import EPV.Lemmas.Bridge.EosTac

set_option linter.all false

open EPV EPV.Gen EPV.Spec

namespace EPV.C16

/-- `ideal_gas_eos(gamma)`: every method is the traced model of the Python method -/
noncomputable def idealEOS (γ : ℝ) : EOS where
  e := EosIdeal_e.e { gamma := γ }
  de_drho := EosIdeal_de_drho.de_drho { gamma := γ }
  de_dP := EosIdeal_de_dP.de_dP { gamma := γ }
  P := EosIdeal_P.Pfun { gamma := γ }
  dP_drho := EosIdeal_dP_drho.dP_drho { gamma := γ }
  dP_de := EosIdeal_dP_de.dP_de { gamma := γ }

/-- the traced models have exactly the leaves the proofs below name -/
theorem ideal_leaves : EosIdeal_e.okLeaves = [2] ∧ EosIdeal_P.okLeaves = [1] := ⟨rfl, rfl⟩

/-- closures are mutual inverses: `P(ρ, e(ρ,P)) = P` and `e(ρ, P(ρ,e)) = e` -/
theorem ideal_inverse (γ ρ : ℝ) (hγ : γ ≠ 1) (hρ : ρ ≠ 0) : (idealEOS γ).InverseAt ρ := by
  have h1 : γ - 1 ≠ 0 := sub_ne_zero.mpr hγ
  constructor
  · intro P
    simp only [idealEOS]
    epv_eos_eq
  · intro e
    simp only [idealEOS]
    epv_eos_eq

/-- `de_drho`, `de_dP` are the partial derivatives of `e(ρ, P)` -/
theorem ideal_energy_derivs (γ ρ P : ℝ) (hγ : γ ≠ 1) (hρ : ρ ≠ 0) : (idealEOS γ).EnergyDerivsAt ρ P := by
  have h1 : γ - 1 ≠ 0 := sub_ne_zero.mpr hγ
  constructor
  · have hev : (fun r => EosIdeal_e.e { gamma := γ } r P) =ᶠ[nhds ρ] fun r => EosIdeal_e.L2.e { gamma := γ } r P := by
      filter_upwards [isOpen_ne.mem_nhds hρ] with r hr
      epv_eos_at_leaf
    epv_eos_have_cert hd : EosIdeal_e.L2.e_hasDerivAt_rho { gamma := γ } ρ P
    refine (hd.congr_of_eventuallyEq hev).congr_deriv ?_
    simp only [idealEOS]
    epv_eos_eq
  · have hev : (fun q => EosIdeal_e.e { gamma := γ } ρ q) = fun q => EosIdeal_e.L2.e { gamma := γ } ρ q := by
      funext q
      epv_eos_at_leaf
    simp only [idealEOS]
    rw [hev]
    epv_eos_have_cert hd : EosIdeal_e.L2.e_hasDerivAt_pres { gamma := γ } ρ P
    refine hd.congr_deriv ?_
    epv_eos_eq

/-- `dP_drho`, `dP_de` are the partial derivatives of `P(ρ, e)` (no density guard: `P` has none) -/
theorem ideal_pressure_derivs (γ ρ e : ℝ) (hγ : γ ≠ 1) : (idealEOS γ).PressureDerivsAt ρ e := by
  have hev : EosIdeal_P.Pfun { gamma := γ } = EosIdeal_P.L1.Pfun { gamma := γ } := by
    funext r q
    epv_eos_at_leaf
  constructor
  · simp only [idealEOS]
    rw [hev]
    epv_eos_have_cert hd : EosIdeal_P.L1.Pfun_hasDerivAt_rho { gamma := γ } ρ e
    refine hd.congr_deriv ?_
    epv_eos_eq
  · simp only [idealEOS]
    rw [hev]
    epv_eos_have_cert hd : EosIdeal_P.L1.Pfun_hasDerivAt_sie { gamma := γ } ρ e
    refine hd.congr_deriv ?_
    epv_eos_eq

/-- non-vacuity at the class default γ = 5/3 and the Noh initial density ρ = 1 -/
example : (idealEOS (5/3)).InverseAt 1 ∧ (idealEOS (5/3)).EnergyDerivsAt 1 0 ∧ (idealEOS (5/3)).PressureDerivsAt 1 0 :=
  ⟨ideal_inverse _ _ (by norm_num) (by norm_num), ideal_energy_derivs _ _ _ (by norm_num) (by norm_num),
   ideal_pressure_derivs _ _ _ (by norm_num)⟩

end EPV.C16
