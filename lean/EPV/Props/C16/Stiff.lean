/-
C16 — stiffened gas (`stiffened_gas_eos`): closures mutually inverse, the four analytic
partial derivatives are the derivatives of the closures, for all constants c_s, ρ_∞, every
γ ≠ 1 (the closures divide by γ - 1) and every density ρ ≠ 0 (what the methods guard).
-/
import EPV.Gen.EosStiff_eD
import EPV.Gen.EosStiff_de_drho
import EPV.Gen.EosStiff_de_dP
import EPV.Gen.EosStiff_PD
import EPV.Gen.EosStiff_dP_drho
import EPV.Gen.EosStiff_dP_de
import EPV.Spec.EOS
import EPV.Tactics
import EPV.Lemmas.Bridge.EosTac

set_option linter.all false

open EPV EPV.Gen EPV.Spec

namespace EPV.C16

/-- `stiffened_gas_eos(gamma, c_s, rho_inf)`: every method is the traced model of the Python method -/
noncomputable def stiffEOS (γ c ρi : ℝ) : EOS where
  e := EosStiff_e.e { gamma := γ, c_s := c, rho_inf := ρi }
  de_drho := EosStiff_de_drho.de_drho { gamma := γ, c_s := c, rho_inf := ρi }
  de_dP := EosStiff_de_dP.de_dP { gamma := γ }
  P := EosStiff_P.Pfun { gamma := γ, c_s := c, rho_inf := ρi }
  dP_drho := EosStiff_dP_drho.dP_drho { gamma := γ, c_s := c }
  dP_de := EosStiff_dP_de.dP_de { gamma := γ }

/-- the traced models have exactly the leaves the proofs below name -/
theorem stiff_leaves : EosStiff_e.okLeaves = [1] ∧ EosStiff_P.okLeaves = [0] := ⟨rfl, rfl⟩

/-- closures are mutual inverses -/
theorem stiff_inverse (γ c ρi ρ : ℝ) (hγ : γ ≠ 1) (hρ : ρ ≠ 0) : (stiffEOS γ c ρi).InverseAt ρ := by
  have h1 : γ - 1 ≠ 0 := sub_ne_zero.mpr hγ
  constructor
  · intro P
    simp only [stiffEOS]
    epv_eos_eq
  · intro e
    simp only [stiffEOS]
    epv_eos_eq

/-- `de_drho`, `de_dP` are the partial derivatives of `e(ρ, P)` -/
theorem stiff_energy_derivs (γ c ρi ρ P : ℝ) (hγ : γ ≠ 1) (hρ : ρ ≠ 0) : (stiffEOS γ c ρi).EnergyDerivsAt ρ P := by
  have h1 : γ - 1 ≠ 0 := sub_ne_zero.mpr hγ
  constructor
  · have hev : (fun r => EosStiff_e.e { gamma := γ, c_s := c, rho_inf := ρi } r P)
        =ᶠ[nhds ρ] fun r => EosStiff_e.L1.e { gamma := γ, c_s := c, rho_inf := ρi } r P := by
      filter_upwards [isOpen_ne.mem_nhds hρ] with r hr
      epv_eos_at_leaf
    epv_eos_have_cert hd : EosStiff_e.L1.e_hasDerivAt_rho { gamma := γ, c_s := c, rho_inf := ρi } ρ P
    refine (hd.congr_of_eventuallyEq hev).congr_deriv ?_
    simp only [stiffEOS]
    epv_eos_eq
  · have hev : (fun q => EosStiff_e.e { gamma := γ, c_s := c, rho_inf := ρi } ρ q)
        = fun q => EosStiff_e.L1.e { gamma := γ, c_s := c, rho_inf := ρi } ρ q := by
      funext q
      epv_eos_at_leaf
    simp only [stiffEOS]
    rw [hev]
    epv_eos_have_cert hd : EosStiff_e.L1.e_hasDerivAt_pres { gamma := γ, c_s := c, rho_inf := ρi } ρ P
    refine hd.congr_deriv ?_
    epv_eos_eq

/-- `dP_drho`, `dP_de` are the partial derivatives of `P(ρ, e)` (all ρ, all γ: `P` has no guard) -/
theorem stiff_pressure_derivs (γ c ρi ρ e : ℝ) : (stiffEOS γ c ρi).PressureDerivsAt ρ e := by
  have hev : EosStiff_P.Pfun { gamma := γ, c_s := c, rho_inf := ρi }
      = EosStiff_P.L0.Pfun { gamma := γ, c_s := c, rho_inf := ρi } := by
    funext r q
    epv_eos_at_leaf
  constructor
  · simp only [stiffEOS]
    rw [hev]
    epv_eos_have_cert hd : EosStiff_P.L0.Pfun_hasDerivAt_rho { gamma := γ, c_s := c, rho_inf := ρi } ρ e
    refine hd.congr_deriv ?_
    epv_eos_eq
  · simp only [stiffEOS]
    rw [hev]
    epv_eos_have_cert hd : EosStiff_P.L0.Pfun_hasDerivAt_sie { gamma := γ, c_s := c, rho_inf := ρi } ρ e
    refine hd.congr_deriv ?_
    epv_eos_eq

/-- non-vacuity at the class defaults γ = 5/3, c_s² = 5/3, ρ_∞ = 1 and ρ = 1 -/
example : (stiffEOS (5/3) (Real.sqrt (5/3)) 1).InverseAt 1 ∧ (stiffEOS (5/3) (Real.sqrt (5/3)) 1).EnergyDerivsAt 1 0 :=
  ⟨stiff_inverse _ _ _ _ (by norm_num) (by norm_num), stiff_energy_derivs _ _ _ _ _ (by norm_num) (by norm_num)⟩

end EPV.C16
