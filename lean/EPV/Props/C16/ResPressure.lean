-- Written by EPV/Props/C16/gen_res.py (templates over symmetry and matrix entry); plain Lean, reviewed as such.

/-
C16 — `pressure_noh_residual` over an abstract equation of state: every entry of `F_prime` is the partial
derivative of the corresponding component of `F` (given that the EOS derivative methods are correct at the state),
`determinant` is the determinant of `F_prime`, and `F_prime_inv · F_prime = 1` wherever `determinant ≠ 0`.
One theorem per symmetry m = 0, 1, 2 (planar, cylindrical, spherical).  Hypotheses: what the constructor accepts
(`NohIC.Admissible m`), ρ ≠ 0 (the guard of every method) and D ≠ 0 (the code divides by D).
-/
import EPV.Lemmas.C16ResDefs
import EPV.Lemmas.Bridge.EosTac

set_option linter.all false
set_option maxHeartbeats 1000000

open EPV EPV.Gen EPV.Spec

namespace EPV.C16

/-- the traced models have exactly the leaves the proofs below name -/
theorem resPressure_leaves : ResPressureAbsS0_res.okLeaves = [4] ∧ ResPressureAbsS1_res.okLeaves = [5] ∧ ResPressureAbsS2_res.okLeaves = [5] := ⟨rfl, rfl, rfl⟩

/-- `pressure_noh_residual`, planar: every entry of `F_prime` EXCEPT `DF[2,0]` is the partial derivative of the corresponding component of `F` — `_partial`: `DF[2,0]` has the wrong sign when P₀ ≠ 0 (finding `pressure_DF20_finding`) -/
theorem pressureS0_jacobian_partial (s : EOS) (ic : NohIC) (ρ x D : ℝ) (hic : ic.Admissible 0) (hρ : ρ ≠ 0) (hD : D ≠ 0)
    (hs : s.PressureDerivsAt ρ x) :
    HasDerivAt (fun r => PressureS0.F s ic r x D 0) (PressureS0.J s ic ρ x D 0 0) ρ ∧ HasDerivAt (fun r => PressureS0.F s ic ρ r D 0) (PressureS0.J s ic ρ x D 0 1) x ∧ HasDerivAt (fun r => PressureS0.F s ic ρ x r 0) (PressureS0.J s ic ρ x D 0 2) D ∧ HasDerivAt (fun r => PressureS0.F s ic r x D 1) (PressureS0.J s ic ρ x D 1 0) ρ ∧ HasDerivAt (fun r => PressureS0.F s ic ρ r D 1) (PressureS0.J s ic ρ x D 1 1) x ∧ HasDerivAt (fun r => PressureS0.F s ic ρ x r 1) (PressureS0.J s ic ρ x D 1 2) D ∧ HasDerivAt (fun r => PressureS0.F s ic ρ r D 2) (PressureS0.J s ic ρ x D 2 1) x ∧ HasDerivAt (fun r => PressureS0.F s ic ρ x r 2) (PressureS0.J s ic ρ x D 2 2) D := by
  obtain ⟨hu, hr0, hP0, hm⟩ := hic
  set p := PressureS0.pres s ic ρ x with hp
  refine ⟨?_, ?_, ?_, ?_, ?_, ?_, ?_, ?_⟩
  · have hc : HasDerivAt (fun r => ResPressureAbsS0_res.L4.F0 p r x D) (ResPressureAbsS0_res.L4.F0_drho p ρ x D) ρ := by
      epv_eos_cert ResPressureAbsS0_res.L4.F0_hasDerivAt_rho p ρ x D
    have hev : (fun r => PressureS0.F s ic r x D 0) =ᶠ[nhds ρ] fun r => ResPressureAbsS0_res.L4.F0 p r x D := by
      filter_upwards [isOpen_ne.mem_nhds hρ] with r hr
      simp only [PressureS0.F, hp] <;> epv_eos_res_eq
    refine (hc.congr_of_eventuallyEq hev).congr_deriv ?_
    simp only [PressureS0.J, hp] <;> epv_eos_res_unfold <;> epv_eos_field
  · have hc : HasDerivAt (fun r => ResPressureAbsS0_res.L4.F0 p ρ r D) (ResPressureAbsS0_res.L4.F0_dsie p ρ x D) x := by
      epv_eos_cert ResPressureAbsS0_res.L4.F0_hasDerivAt_sie p ρ x D
    have hev : (fun r => PressureS0.F s ic ρ r D 0) =ᶠ[nhds x] fun r => ResPressureAbsS0_res.L4.F0 p ρ r D := by
      filter_upwards with r
      simp only [PressureS0.F, hp] <;> epv_eos_res_eq
    refine (hc.congr_of_eventuallyEq hev).congr_deriv ?_
    simp only [PressureS0.J, hp] <;> epv_eos_res_unfold <;> epv_eos_field
  · have hc : HasDerivAt (fun r => ResPressureAbsS0_res.L4.F0 p ρ x r) (ResPressureAbsS0_res.L4.F0_dD p ρ x D) D := by
      epv_eos_cert ResPressureAbsS0_res.L4.F0_hasDerivAt_D p ρ x D
    have hev : (fun r => PressureS0.F s ic ρ x r 0) =ᶠ[nhds D] fun r => ResPressureAbsS0_res.L4.F0 p ρ x r := by
      filter_upwards [isOpen_ne.mem_nhds hD] with r hr
      simp only [PressureS0.F, hp] <;> epv_eos_res_eq
    refine (hc.congr_of_eventuallyEq hev).congr_deriv ?_
    simp only [PressureS0.J, hp] <;> epv_eos_res_unfold <;> epv_eos_field
  · have hc : HasDerivAt (fun r => ResPressureAbsS0_res.L4.F1 p r x D) (ResPressureAbsS0_res.L4.F1_drho p ρ x D) ρ := by
      epv_eos_cert ResPressureAbsS0_res.L4.F1_hasDerivAt_rho p ρ x D
    have hev : (fun r => PressureS0.F s ic r x D 1) =ᶠ[nhds ρ] fun r => (s.P r x - s.P ρ x) + ResPressureAbsS0_res.L4.F1 p r x D := by
      filter_upwards [isOpen_ne.mem_nhds hρ] with r hr
      simp only [PressureS0.F, hp] <;> epv_eos_res_eq
    refine (((hs.1.sub_const _).add hc).congr_of_eventuallyEq hev).congr_deriv ?_
    simp only [PressureS0.J, hp] <;> epv_eos_res_unfold <;> epv_eos_field
  · have hc : HasDerivAt (fun r => ResPressureAbsS0_res.L4.F1 p ρ r D) (ResPressureAbsS0_res.L4.F1_dsie p ρ x D) x := by
      epv_eos_cert ResPressureAbsS0_res.L4.F1_hasDerivAt_sie p ρ x D
    have hev : (fun r => PressureS0.F s ic ρ r D 1) =ᶠ[nhds x] fun r => (s.P ρ r - s.P ρ x) + ResPressureAbsS0_res.L4.F1 p ρ r D := by
      filter_upwards with r
      simp only [PressureS0.F, hp] <;> epv_eos_res_eq
    refine (((hs.2.sub_const _).add hc).congr_of_eventuallyEq hev).congr_deriv ?_
    simp only [PressureS0.J, hp] <;> epv_eos_res_unfold <;> epv_eos_field
  · have hc : HasDerivAt (fun r => ResPressureAbsS0_res.L4.F1 p ρ x r) (ResPressureAbsS0_res.L4.F1_dD p ρ x D) D := by
      epv_eos_cert ResPressureAbsS0_res.L4.F1_hasDerivAt_D p ρ x D
    have hev : (fun r => PressureS0.F s ic ρ x r 1) =ᶠ[nhds D] fun r => ResPressureAbsS0_res.L4.F1 p ρ x r := by
      filter_upwards [isOpen_ne.mem_nhds hD] with r hr
      simp only [PressureS0.F, hp] <;> epv_eos_res_eq
    refine (hc.congr_of_eventuallyEq hev).congr_deriv ?_
    simp only [PressureS0.J, hp] <;> epv_eos_res_unfold <;> epv_eos_field
  · have hc : HasDerivAt (fun r => ResPressureAbsS0_res.L4.F2 p ρ r D) (ResPressureAbsS0_res.L4.F2_dsie p ρ x D) x := by
      epv_eos_cert ResPressureAbsS0_res.L4.F2_hasDerivAt_sie p ρ x D
    have hev : (fun r => PressureS0.F s ic ρ r D 2) =ᶠ[nhds x] fun r => ResPressureAbsS0_res.L4.F2 p ρ r D := by
      filter_upwards with r
      simp only [PressureS0.F, hp] <;> epv_eos_res_eq
    refine (hc.congr_of_eventuallyEq hev).congr_deriv ?_
    simp only [PressureS0.J, hp] <;> epv_eos_res_unfold <;> epv_eos_field
  · have hc : HasDerivAt (fun r => ResPressureAbsS0_res.L4.F2 p ρ x r) (ResPressureAbsS0_res.L4.F2_dD p ρ x D) D := by
      epv_eos_cert ResPressureAbsS0_res.L4.F2_hasDerivAt_D p ρ x D
    have hev : (fun r => PressureS0.F s ic ρ x r 2) =ᶠ[nhds D] fun r => ResPressureAbsS0_res.L4.F2 p ρ x r := by
      filter_upwards [isOpen_ne.mem_nhds hD] with r hr
      simp only [PressureS0.F, hp] <;> epv_eos_res_eq
    refine (hc.congr_of_eventuallyEq hev).congr_deriv ?_
    simp only [PressureS0.J, hp] <;> epv_eos_res_unfold <;> epv_eos_field

/-- `pressure_noh_residual`, planar, P₀ = 0: the whole `F_prime` is the Jacobian of `F` -/
theorem pressureS0_jacobian_P0_zero (s : EOS) (ic : NohIC) (ρ x D : ℝ) (hic : ic.Admissible 0) (hρ : ρ ≠ 0) (hD : D ≠ 0) (hP : ic.P_0 = 0)
    (hs : s.PressureDerivsAt ρ x) :
    IsJacobian3 (PressureS0.F s ic) (PressureS0.J s ic ρ x D) ρ x D := by
  obtain ⟨hu, hr0, hP0, hm⟩ := hic
  set p := PressureS0.pres s ic ρ x with hp
  intro i
  fin_cases i <;> (try simp only [Fin.zero_eta, Fin.mk_one, Fin.reduceFinMk])
  · refine ⟨?_, ?_, ?_⟩
    · have hc : HasDerivAt (fun r => ResPressureAbsS0_res.L4.F0 p r x D) (ResPressureAbsS0_res.L4.F0_drho p ρ x D) ρ := by
        epv_eos_cert ResPressureAbsS0_res.L4.F0_hasDerivAt_rho p ρ x D
      have hev : (fun r => PressureS0.F s ic r x D 0) =ᶠ[nhds ρ] fun r => ResPressureAbsS0_res.L4.F0 p r x D := by
        filter_upwards [isOpen_ne.mem_nhds hρ] with r hr
        simp only [PressureS0.F, hp] <;> epv_eos_res_eq
      refine (hc.congr_of_eventuallyEq hev).congr_deriv ?_
      simp only [PressureS0.J, hp] <;> epv_eos_res_unfold <;> (try simp only [hP]) <;> epv_eos_field
    · have hc : HasDerivAt (fun r => ResPressureAbsS0_res.L4.F0 p ρ r D) (ResPressureAbsS0_res.L4.F0_dsie p ρ x D) x := by
        epv_eos_cert ResPressureAbsS0_res.L4.F0_hasDerivAt_sie p ρ x D
      have hev : (fun r => PressureS0.F s ic ρ r D 0) =ᶠ[nhds x] fun r => ResPressureAbsS0_res.L4.F0 p ρ r D := by
        filter_upwards with r
        simp only [PressureS0.F, hp] <;> epv_eos_res_eq
      refine (hc.congr_of_eventuallyEq hev).congr_deriv ?_
      simp only [PressureS0.J, hp] <;> epv_eos_res_unfold <;> (try simp only [hP]) <;> epv_eos_field
    · have hc : HasDerivAt (fun r => ResPressureAbsS0_res.L4.F0 p ρ x r) (ResPressureAbsS0_res.L4.F0_dD p ρ x D) D := by
        epv_eos_cert ResPressureAbsS0_res.L4.F0_hasDerivAt_D p ρ x D
      have hev : (fun r => PressureS0.F s ic ρ x r 0) =ᶠ[nhds D] fun r => ResPressureAbsS0_res.L4.F0 p ρ x r := by
        filter_upwards [isOpen_ne.mem_nhds hD] with r hr
        simp only [PressureS0.F, hp] <;> epv_eos_res_eq
      refine (hc.congr_of_eventuallyEq hev).congr_deriv ?_
      simp only [PressureS0.J, hp] <;> epv_eos_res_unfold <;> (try simp only [hP]) <;> epv_eos_field
  · refine ⟨?_, ?_, ?_⟩
    · have hc : HasDerivAt (fun r => ResPressureAbsS0_res.L4.F1 p r x D) (ResPressureAbsS0_res.L4.F1_drho p ρ x D) ρ := by
        epv_eos_cert ResPressureAbsS0_res.L4.F1_hasDerivAt_rho p ρ x D
      have hev : (fun r => PressureS0.F s ic r x D 1) =ᶠ[nhds ρ] fun r => (s.P r x - s.P ρ x) + ResPressureAbsS0_res.L4.F1 p r x D := by
        filter_upwards [isOpen_ne.mem_nhds hρ] with r hr
        simp only [PressureS0.F, hp] <;> epv_eos_res_eq
      refine (((hs.1.sub_const _).add hc).congr_of_eventuallyEq hev).congr_deriv ?_
      simp only [PressureS0.J, hp] <;> epv_eos_res_unfold <;> (try simp only [hP]) <;> epv_eos_field
    · have hc : HasDerivAt (fun r => ResPressureAbsS0_res.L4.F1 p ρ r D) (ResPressureAbsS0_res.L4.F1_dsie p ρ x D) x := by
        epv_eos_cert ResPressureAbsS0_res.L4.F1_hasDerivAt_sie p ρ x D
      have hev : (fun r => PressureS0.F s ic ρ r D 1) =ᶠ[nhds x] fun r => (s.P ρ r - s.P ρ x) + ResPressureAbsS0_res.L4.F1 p ρ r D := by
        filter_upwards with r
        simp only [PressureS0.F, hp] <;> epv_eos_res_eq
      refine (((hs.2.sub_const _).add hc).congr_of_eventuallyEq hev).congr_deriv ?_
      simp only [PressureS0.J, hp] <;> epv_eos_res_unfold <;> (try simp only [hP]) <;> epv_eos_field
    · have hc : HasDerivAt (fun r => ResPressureAbsS0_res.L4.F1 p ρ x r) (ResPressureAbsS0_res.L4.F1_dD p ρ x D) D := by
        epv_eos_cert ResPressureAbsS0_res.L4.F1_hasDerivAt_D p ρ x D
      have hev : (fun r => PressureS0.F s ic ρ x r 1) =ᶠ[nhds D] fun r => ResPressureAbsS0_res.L4.F1 p ρ x r := by
        filter_upwards [isOpen_ne.mem_nhds hD] with r hr
        simp only [PressureS0.F, hp] <;> epv_eos_res_eq
      refine (hc.congr_of_eventuallyEq hev).congr_deriv ?_
      simp only [PressureS0.J, hp] <;> epv_eos_res_unfold <;> (try simp only [hP]) <;> epv_eos_field
  · refine ⟨?_, ?_, ?_⟩
    · have hc : HasDerivAt (fun r => ResPressureAbsS0_res.L4.F2 p r x D) (ResPressureAbsS0_res.L4.F2_drho p ρ x D) ρ := by
        epv_eos_cert ResPressureAbsS0_res.L4.F2_hasDerivAt_rho p ρ x D
      have hev : (fun r => PressureS0.F s ic r x D 2) =ᶠ[nhds ρ] fun r => ResPressureAbsS0_res.L4.F2 p r x D := by
        filter_upwards [isOpen_ne.mem_nhds hρ] with r hr
        simp only [PressureS0.F, hp] <;> epv_eos_res_eq
      refine (hc.congr_of_eventuallyEq hev).congr_deriv ?_
      simp only [PressureS0.J, hp] <;> epv_eos_res_unfold <;> (try simp only [hP]) <;> epv_eos_field
    · have hc : HasDerivAt (fun r => ResPressureAbsS0_res.L4.F2 p ρ r D) (ResPressureAbsS0_res.L4.F2_dsie p ρ x D) x := by
        epv_eos_cert ResPressureAbsS0_res.L4.F2_hasDerivAt_sie p ρ x D
      have hev : (fun r => PressureS0.F s ic ρ r D 2) =ᶠ[nhds x] fun r => ResPressureAbsS0_res.L4.F2 p ρ r D := by
        filter_upwards with r
        simp only [PressureS0.F, hp] <;> epv_eos_res_eq
      refine (hc.congr_of_eventuallyEq hev).congr_deriv ?_
      simp only [PressureS0.J, hp] <;> epv_eos_res_unfold <;> (try simp only [hP]) <;> epv_eos_field
    · have hc : HasDerivAt (fun r => ResPressureAbsS0_res.L4.F2 p ρ x r) (ResPressureAbsS0_res.L4.F2_dD p ρ x D) D := by
        epv_eos_cert ResPressureAbsS0_res.L4.F2_hasDerivAt_D p ρ x D
      have hev : (fun r => PressureS0.F s ic ρ x r 2) =ᶠ[nhds D] fun r => ResPressureAbsS0_res.L4.F2 p ρ x r := by
        filter_upwards [isOpen_ne.mem_nhds hD] with r hr
        simp only [PressureS0.F, hp] <;> epv_eos_res_eq
      refine (hc.congr_of_eventuallyEq hev).congr_deriv ?_
      simp only [PressureS0.J, hp] <;> epv_eos_res_unfold <;> (try simp only [hP]) <;> epv_eos_field

/-- `determinant` is the determinant of `F_prime` -/
theorem pressureS0_det (s : EOS) (ic : NohIC) (ρ x D : ℝ) (hic : ic.Admissible 0) (hρ : ρ ≠ 0) :
    PressureS0.detv s ic ρ x D = (PressureS0.J s ic ρ x D).det := by
  obtain ⟨hu, hr0, hP0, hm⟩ := hic
  rw [Matrix.det_fin_three]
  simp only [PressureS0.detv, PressureS0.J] <;> epv_eos_res_eq

/-- `F_prime_inv · F_prime = 1` wherever the class does not raise `ZeroDeterminantError` (`determinant ≠ 0`) -/
theorem pressureS0_inverse (s : EOS) (ic : NohIC) (ρ x D : ℝ) (hic : ic.Admissible 0) (hρ : ρ ≠ 0) (hD : D ≠ 0)
    (hdet : PressureS0.detv s ic ρ x D ≠ 0) :
    PressureS0.Jinv s ic ρ x D * PressureS0.J s ic ρ x D = 1 := by
  obtain ⟨hu, hr0, hP0, hm⟩ := hic
  have hdet' := hdet
  simp only [PressureS0.detv, epv_c16, epv_tree] at hdet'
  revert hdet'
  epv_eos_ifs
  intro hdet'
  simp only [epv_leaf] at hdet'
  epv_eos_gen_ne hdet'
  -- the guards of all entries of `F_prime_inv` and `F_prime` are decided once, at matrix level
  simp only [PressureS0.Jinv, PressureS0.J, epv_c16]
  simp only [epv_tree]
  epv_eos_ifs
  ext i j
  fin_cases i <;> fin_cases j <;>
    (simp only [Matrix.mul_apply, Fin.sum_univ_three, Matrix.one_apply, Fin.reduceEq, if_true, if_false, Matrix.of_apply, Matrix.cons_val, Fin.zero_eta, Fin.mk_one, Fin.reduceFinMk, Fin.isValue]
     simp only [epv_leaf]
     epv_eos_inv_entry)

/-- `pressure_noh_residual`, symmetry 1: every entry of `F_prime` is the partial derivative of the corresponding component of `F`, for any EOS whose derivative methods are correct at the state -/
theorem pressureS1_jacobian (s : EOS) (ic : NohIC) (ρ x D : ℝ) (hic : ic.Admissible 1) (hρ : ρ ≠ 0) (hD : D ≠ 0)
    (hs : s.PressureDerivsAt ρ x) :
    IsJacobian3 (PressureS1.F s ic) (PressureS1.J s ic ρ x D) ρ x D := by
  obtain ⟨hu, hr0, hP0, hm⟩ := hic
  have hPz : ic.P_0 = 0 := hm (by norm_num)
  set p := PressureS1.pres s ic ρ x with hp
  intro i
  fin_cases i <;> (try simp only [Fin.zero_eta, Fin.mk_one, Fin.reduceFinMk])
  · refine ⟨?_, ?_, ?_⟩
    · have hc : HasDerivAt (fun r => ResPressureAbsS1_res.L5.F0 p r x D) (ResPressureAbsS1_res.L5.F0_drho p ρ x D) ρ := by
        epv_eos_cert ResPressureAbsS1_res.L5.F0_hasDerivAt_rho p ρ x D
      have hev : (fun r => PressureS1.F s ic r x D 0) =ᶠ[nhds ρ] fun r => ResPressureAbsS1_res.L5.F0 p r x D := by
        filter_upwards [isOpen_ne.mem_nhds hρ] with r hr
        simp only [PressureS1.F, hp] <;> epv_eos_res_eq
      refine (hc.congr_of_eventuallyEq hev).congr_deriv ?_
      simp only [PressureS1.J, hp] <;> epv_eos_res_unfold <;> (try simp only [hPz]) <;> epv_eos_field
    · have hc : HasDerivAt (fun r => ResPressureAbsS1_res.L5.F0 p ρ r D) (ResPressureAbsS1_res.L5.F0_dsie p ρ x D) x := by
        epv_eos_cert ResPressureAbsS1_res.L5.F0_hasDerivAt_sie p ρ x D
      have hev : (fun r => PressureS1.F s ic ρ r D 0) =ᶠ[nhds x] fun r => ResPressureAbsS1_res.L5.F0 p ρ r D := by
        filter_upwards with r
        simp only [PressureS1.F, hp] <;> epv_eos_res_eq
      refine (hc.congr_of_eventuallyEq hev).congr_deriv ?_
      simp only [PressureS1.J, hp] <;> epv_eos_res_unfold <;> (try simp only [hPz]) <;> epv_eos_field
    · have hc : HasDerivAt (fun r => ResPressureAbsS1_res.L5.F0 p ρ x r) (ResPressureAbsS1_res.L5.F0_dD p ρ x D) D := by
        epv_eos_cert ResPressureAbsS1_res.L5.F0_hasDerivAt_D p ρ x D
      have hev : (fun r => PressureS1.F s ic ρ x r 0) =ᶠ[nhds D] fun r => ResPressureAbsS1_res.L5.F0 p ρ x r := by
        filter_upwards [isOpen_ne.mem_nhds hD] with r hr
        simp only [PressureS1.F, hp] <;> epv_eos_res_eq
      refine (hc.congr_of_eventuallyEq hev).congr_deriv ?_
      simp only [PressureS1.J, hp] <;> epv_eos_res_unfold <;> (try simp only [hPz]) <;> epv_eos_field
  · refine ⟨?_, ?_, ?_⟩
    · have hc : HasDerivAt (fun r => ResPressureAbsS1_res.L5.F1 p r x D) (ResPressureAbsS1_res.L5.F1_drho p ρ x D) ρ := by
        epv_eos_cert ResPressureAbsS1_res.L5.F1_hasDerivAt_rho p ρ x D
      have hev : (fun r => PressureS1.F s ic r x D 1) =ᶠ[nhds ρ] fun r => (s.P r x - s.P ρ x) + ResPressureAbsS1_res.L5.F1 p r x D := by
        filter_upwards [isOpen_ne.mem_nhds hρ] with r hr
        simp only [PressureS1.F, hp] <;> epv_eos_res_eq
      refine (((hs.1.sub_const _).add hc).congr_of_eventuallyEq hev).congr_deriv ?_
      simp only [PressureS1.J, hp] <;> epv_eos_res_unfold <;> (try simp only [hPz]) <;> epv_eos_field
    · have hc : HasDerivAt (fun r => ResPressureAbsS1_res.L5.F1 p ρ r D) (ResPressureAbsS1_res.L5.F1_dsie p ρ x D) x := by
        epv_eos_cert ResPressureAbsS1_res.L5.F1_hasDerivAt_sie p ρ x D
      have hev : (fun r => PressureS1.F s ic ρ r D 1) =ᶠ[nhds x] fun r => (s.P ρ r - s.P ρ x) + ResPressureAbsS1_res.L5.F1 p ρ r D := by
        filter_upwards with r
        simp only [PressureS1.F, hp] <;> epv_eos_res_eq
      refine (((hs.2.sub_const _).add hc).congr_of_eventuallyEq hev).congr_deriv ?_
      simp only [PressureS1.J, hp] <;> epv_eos_res_unfold <;> (try simp only [hPz]) <;> epv_eos_field
    · have hc : HasDerivAt (fun r => ResPressureAbsS1_res.L5.F1 p ρ x r) (ResPressureAbsS1_res.L5.F1_dD p ρ x D) D := by
        epv_eos_cert ResPressureAbsS1_res.L5.F1_hasDerivAt_D p ρ x D
      have hev : (fun r => PressureS1.F s ic ρ x r 1) =ᶠ[nhds D] fun r => ResPressureAbsS1_res.L5.F1 p ρ x r := by
        filter_upwards [isOpen_ne.mem_nhds hD] with r hr
        simp only [PressureS1.F, hp] <;> epv_eos_res_eq
      refine (hc.congr_of_eventuallyEq hev).congr_deriv ?_
      simp only [PressureS1.J, hp] <;> epv_eos_res_unfold <;> (try simp only [hPz]) <;> epv_eos_field
  · refine ⟨?_, ?_, ?_⟩
    · have hc : HasDerivAt (fun r => ResPressureAbsS1_res.L5.F2 p r x D) (ResPressureAbsS1_res.L5.F2_drho p ρ x D) ρ := by
        epv_eos_cert ResPressureAbsS1_res.L5.F2_hasDerivAt_rho p ρ x D
      have hev : (fun r => PressureS1.F s ic r x D 2) =ᶠ[nhds ρ] fun r => ResPressureAbsS1_res.L5.F2 p r x D := by
        filter_upwards [isOpen_ne.mem_nhds hρ] with r hr
        simp only [PressureS1.F, hp] <;> epv_eos_res_eq
      refine (hc.congr_of_eventuallyEq hev).congr_deriv ?_
      simp only [PressureS1.J, hp] <;> epv_eos_res_unfold <;> (try simp only [hPz]) <;> epv_eos_field
    · have hc : HasDerivAt (fun r => ResPressureAbsS1_res.L5.F2 p ρ r D) (ResPressureAbsS1_res.L5.F2_dsie p ρ x D) x := by
        epv_eos_cert ResPressureAbsS1_res.L5.F2_hasDerivAt_sie p ρ x D
      have hev : (fun r => PressureS1.F s ic ρ r D 2) =ᶠ[nhds x] fun r => ResPressureAbsS1_res.L5.F2 p ρ r D := by
        filter_upwards with r
        simp only [PressureS1.F, hp] <;> epv_eos_res_eq
      refine (hc.congr_of_eventuallyEq hev).congr_deriv ?_
      simp only [PressureS1.J, hp] <;> epv_eos_res_unfold <;> (try simp only [hPz]) <;> epv_eos_field
    · have hc : HasDerivAt (fun r => ResPressureAbsS1_res.L5.F2 p ρ x r) (ResPressureAbsS1_res.L5.F2_dD p ρ x D) D := by
        epv_eos_cert ResPressureAbsS1_res.L5.F2_hasDerivAt_D p ρ x D
      have hev : (fun r => PressureS1.F s ic ρ x r 2) =ᶠ[nhds D] fun r => ResPressureAbsS1_res.L5.F2 p ρ x r := by
        filter_upwards [isOpen_ne.mem_nhds hD] with r hr
        simp only [PressureS1.F, hp] <;> epv_eos_res_eq
      refine (hc.congr_of_eventuallyEq hev).congr_deriv ?_
      simp only [PressureS1.J, hp] <;> epv_eos_res_unfold <;> (try simp only [hPz]) <;> epv_eos_field

/-- `determinant` is the determinant of `F_prime` -/
theorem pressureS1_det (s : EOS) (ic : NohIC) (ρ x D : ℝ) (hic : ic.Admissible 1) (hρ : ρ ≠ 0) :
    PressureS1.detv s ic ρ x D = (PressureS1.J s ic ρ x D).det := by
  obtain ⟨hu, hr0, hP0, hm⟩ := hic
  have hPz : ic.P_0 = 0 := hm (by norm_num)
  rw [Matrix.det_fin_three]
  simp only [PressureS1.detv, PressureS1.J] <;> epv_eos_res_eq

/-- `F_prime_inv · F_prime = 1` wherever the class does not raise `ZeroDeterminantError` (`determinant ≠ 0`) -/
theorem pressureS1_inverse (s : EOS) (ic : NohIC) (ρ x D : ℝ) (hic : ic.Admissible 1) (hρ : ρ ≠ 0) (hD : D ≠ 0)
    (hdet : PressureS1.detv s ic ρ x D ≠ 0) :
    PressureS1.Jinv s ic ρ x D * PressureS1.J s ic ρ x D = 1 := by
  obtain ⟨hu, hr0, hP0, hm⟩ := hic
  have hPz : ic.P_0 = 0 := hm (by norm_num)
  have hdet' := hdet
  simp only [PressureS1.detv, epv_c16, epv_tree] at hdet'
  revert hdet'
  epv_eos_ifs
  intro hdet'
  simp only [epv_leaf] at hdet'
  epv_eos_gen_ne hdet'
  -- the guards of all entries of `F_prime_inv` and `F_prime` are decided once, at matrix level
  simp only [PressureS1.Jinv, PressureS1.J, epv_c16]
  simp only [epv_tree]
  epv_eos_ifs
  ext i j
  fin_cases i <;> fin_cases j <;>
    (simp only [Matrix.mul_apply, Fin.sum_univ_three, Matrix.one_apply, Fin.reduceEq, if_true, if_false, Matrix.of_apply, Matrix.cons_val, Fin.zero_eta, Fin.mk_one, Fin.reduceFinMk, Fin.isValue]
     simp only [epv_leaf]
     epv_eos_inv_entry)

/-- `pressure_noh_residual`, symmetry 2: every entry of `F_prime` is the partial derivative of the corresponding component of `F`, for any EOS whose derivative methods are correct at the state -/
theorem pressureS2_jacobian (s : EOS) (ic : NohIC) (ρ x D : ℝ) (hic : ic.Admissible 2) (hρ : ρ ≠ 0) (hD : D ≠ 0)
    (hs : s.PressureDerivsAt ρ x) :
    IsJacobian3 (PressureS2.F s ic) (PressureS2.J s ic ρ x D) ρ x D := by
  obtain ⟨hu, hr0, hP0, hm⟩ := hic
  have hPz : ic.P_0 = 0 := hm (by norm_num)
  set p := PressureS2.pres s ic ρ x with hp
  intro i
  fin_cases i <;> (try simp only [Fin.zero_eta, Fin.mk_one, Fin.reduceFinMk])
  · refine ⟨?_, ?_, ?_⟩
    · have hc : HasDerivAt (fun r => ResPressureAbsS2_res.L5.F0 p r x D) (ResPressureAbsS2_res.L5.F0_drho p ρ x D) ρ := by
        epv_eos_cert ResPressureAbsS2_res.L5.F0_hasDerivAt_rho p ρ x D
      have hev : (fun r => PressureS2.F s ic r x D 0) =ᶠ[nhds ρ] fun r => ResPressureAbsS2_res.L5.F0 p r x D := by
        filter_upwards [isOpen_ne.mem_nhds hρ] with r hr
        simp only [PressureS2.F, hp] <;> epv_eos_res_eq
      refine (hc.congr_of_eventuallyEq hev).congr_deriv ?_
      simp only [PressureS2.J, hp] <;> epv_eos_res_unfold <;> (try simp only [hPz]) <;> epv_eos_field
    · have hc : HasDerivAt (fun r => ResPressureAbsS2_res.L5.F0 p ρ r D) (ResPressureAbsS2_res.L5.F0_dsie p ρ x D) x := by
        epv_eos_cert ResPressureAbsS2_res.L5.F0_hasDerivAt_sie p ρ x D
      have hev : (fun r => PressureS2.F s ic ρ r D 0) =ᶠ[nhds x] fun r => ResPressureAbsS2_res.L5.F0 p ρ r D := by
        filter_upwards with r
        simp only [PressureS2.F, hp] <;> epv_eos_res_eq
      refine (hc.congr_of_eventuallyEq hev).congr_deriv ?_
      simp only [PressureS2.J, hp] <;> epv_eos_res_unfold <;> (try simp only [hPz]) <;> epv_eos_field
    · have hc : HasDerivAt (fun r => ResPressureAbsS2_res.L5.F0 p ρ x r) (ResPressureAbsS2_res.L5.F0_dD p ρ x D) D := by
        epv_eos_cert ResPressureAbsS2_res.L5.F0_hasDerivAt_D p ρ x D
      have hev : (fun r => PressureS2.F s ic ρ x r 0) =ᶠ[nhds D] fun r => ResPressureAbsS2_res.L5.F0 p ρ x r := by
        filter_upwards [isOpen_ne.mem_nhds hD] with r hr
        simp only [PressureS2.F, hp] <;> epv_eos_res_eq
      refine (hc.congr_of_eventuallyEq hev).congr_deriv ?_
      simp only [PressureS2.J, hp] <;> epv_eos_res_unfold <;> (try simp only [hPz]) <;> epv_eos_field
  · refine ⟨?_, ?_, ?_⟩
    · have hc : HasDerivAt (fun r => ResPressureAbsS2_res.L5.F1 p r x D) (ResPressureAbsS2_res.L5.F1_drho p ρ x D) ρ := by
        epv_eos_cert ResPressureAbsS2_res.L5.F1_hasDerivAt_rho p ρ x D
      have hev : (fun r => PressureS2.F s ic r x D 1) =ᶠ[nhds ρ] fun r => (s.P r x - s.P ρ x) + ResPressureAbsS2_res.L5.F1 p r x D := by
        filter_upwards [isOpen_ne.mem_nhds hρ] with r hr
        simp only [PressureS2.F, hp] <;> epv_eos_res_eq
      refine (((hs.1.sub_const _).add hc).congr_of_eventuallyEq hev).congr_deriv ?_
      simp only [PressureS2.J, hp] <;> epv_eos_res_unfold <;> (try simp only [hPz]) <;> epv_eos_field
    · have hc : HasDerivAt (fun r => ResPressureAbsS2_res.L5.F1 p ρ r D) (ResPressureAbsS2_res.L5.F1_dsie p ρ x D) x := by
        epv_eos_cert ResPressureAbsS2_res.L5.F1_hasDerivAt_sie p ρ x D
      have hev : (fun r => PressureS2.F s ic ρ r D 1) =ᶠ[nhds x] fun r => (s.P ρ r - s.P ρ x) + ResPressureAbsS2_res.L5.F1 p ρ r D := by
        filter_upwards with r
        simp only [PressureS2.F, hp] <;> epv_eos_res_eq
      refine (((hs.2.sub_const _).add hc).congr_of_eventuallyEq hev).congr_deriv ?_
      simp only [PressureS2.J, hp] <;> epv_eos_res_unfold <;> (try simp only [hPz]) <;> epv_eos_field
    · have hc : HasDerivAt (fun r => ResPressureAbsS2_res.L5.F1 p ρ x r) (ResPressureAbsS2_res.L5.F1_dD p ρ x D) D := by
        epv_eos_cert ResPressureAbsS2_res.L5.F1_hasDerivAt_D p ρ x D
      have hev : (fun r => PressureS2.F s ic ρ x r 1) =ᶠ[nhds D] fun r => ResPressureAbsS2_res.L5.F1 p ρ x r := by
        filter_upwards [isOpen_ne.mem_nhds hD] with r hr
        simp only [PressureS2.F, hp] <;> epv_eos_res_eq
      refine (hc.congr_of_eventuallyEq hev).congr_deriv ?_
      simp only [PressureS2.J, hp] <;> epv_eos_res_unfold <;> (try simp only [hPz]) <;> epv_eos_field
  · refine ⟨?_, ?_, ?_⟩
    · have hc : HasDerivAt (fun r => ResPressureAbsS2_res.L5.F2 p r x D) (ResPressureAbsS2_res.L5.F2_drho p ρ x D) ρ := by
        epv_eos_cert ResPressureAbsS2_res.L5.F2_hasDerivAt_rho p ρ x D
      have hev : (fun r => PressureS2.F s ic r x D 2) =ᶠ[nhds ρ] fun r => ResPressureAbsS2_res.L5.F2 p r x D := by
        filter_upwards [isOpen_ne.mem_nhds hρ] with r hr
        simp only [PressureS2.F, hp] <;> epv_eos_res_eq
      refine (hc.congr_of_eventuallyEq hev).congr_deriv ?_
      simp only [PressureS2.J, hp] <;> epv_eos_res_unfold <;> (try simp only [hPz]) <;> epv_eos_field
    · have hc : HasDerivAt (fun r => ResPressureAbsS2_res.L5.F2 p ρ r D) (ResPressureAbsS2_res.L5.F2_dsie p ρ x D) x := by
        epv_eos_cert ResPressureAbsS2_res.L5.F2_hasDerivAt_sie p ρ x D
      have hev : (fun r => PressureS2.F s ic ρ r D 2) =ᶠ[nhds x] fun r => ResPressureAbsS2_res.L5.F2 p ρ r D := by
        filter_upwards with r
        simp only [PressureS2.F, hp] <;> epv_eos_res_eq
      refine (hc.congr_of_eventuallyEq hev).congr_deriv ?_
      simp only [PressureS2.J, hp] <;> epv_eos_res_unfold <;> (try simp only [hPz]) <;> epv_eos_field
    · have hc : HasDerivAt (fun r => ResPressureAbsS2_res.L5.F2 p ρ x r) (ResPressureAbsS2_res.L5.F2_dD p ρ x D) D := by
        epv_eos_cert ResPressureAbsS2_res.L5.F2_hasDerivAt_D p ρ x D
      have hev : (fun r => PressureS2.F s ic ρ x r 2) =ᶠ[nhds D] fun r => ResPressureAbsS2_res.L5.F2 p ρ x r := by
        filter_upwards [isOpen_ne.mem_nhds hD] with r hr
        simp only [PressureS2.F, hp] <;> epv_eos_res_eq
      refine (hc.congr_of_eventuallyEq hev).congr_deriv ?_
      simp only [PressureS2.J, hp] <;> epv_eos_res_unfold <;> (try simp only [hPz]) <;> epv_eos_field

/-- `determinant` is the determinant of `F_prime` -/
theorem pressureS2_det (s : EOS) (ic : NohIC) (ρ x D : ℝ) (hic : ic.Admissible 2) (hρ : ρ ≠ 0) :
    PressureS2.detv s ic ρ x D = (PressureS2.J s ic ρ x D).det := by
  obtain ⟨hu, hr0, hP0, hm⟩ := hic
  have hPz : ic.P_0 = 0 := hm (by norm_num)
  rw [Matrix.det_fin_three]
  simp only [PressureS2.detv, PressureS2.J] <;> epv_eos_res_eq

/-- `F_prime_inv · F_prime = 1` wherever the class does not raise `ZeroDeterminantError` (`determinant ≠ 0`) -/
theorem pressureS2_inverse (s : EOS) (ic : NohIC) (ρ x D : ℝ) (hic : ic.Admissible 2) (hρ : ρ ≠ 0) (hD : D ≠ 0)
    (hdet : PressureS2.detv s ic ρ x D ≠ 0) :
    PressureS2.Jinv s ic ρ x D * PressureS2.J s ic ρ x D = 1 := by
  obtain ⟨hu, hr0, hP0, hm⟩ := hic
  have hPz : ic.P_0 = 0 := hm (by norm_num)
  have hdet' := hdet
  simp only [PressureS2.detv, epv_c16, epv_tree] at hdet'
  revert hdet'
  epv_eos_ifs
  intro hdet'
  simp only [epv_leaf] at hdet'
  epv_eos_gen_ne hdet'
  -- the guards of all entries of `F_prime_inv` and `F_prime` are decided once, at matrix level
  simp only [PressureS2.Jinv, PressureS2.J, epv_c16]
  simp only [epv_tree]
  epv_eos_ifs
  ext i j
  fin_cases i <;> fin_cases j <;>
    (simp only [Matrix.mul_apply, Fin.sum_univ_three, Matrix.one_apply, Fin.reduceEq, if_true, if_false, Matrix.of_apply, Matrix.cons_val, Fin.zero_eta, Fin.mk_one, Fin.reduceFinMk, Fin.isValue]
     simp only [epv_leaf]
     epv_eos_inv_entry)

/-- non-vacuity: the default initial state ρ₀ = 1, u₀ = -1, P₀ = 0 is admissible in every symmetry -/
example : (⟨1, -1, 0⟩ : NohIC).Admissible 0 ∧ (⟨1, -1, 0⟩ : NohIC).Admissible 1 ∧ (⟨1, -1, 0⟩ : NohIC).Admissible 2 := by
  refine ⟨⟨?_, ?_, ?_, ?_⟩, ⟨?_, ?_, ?_, ?_⟩, ⟨?_, ?_, ?_, ?_⟩⟩ <;> norm_num

end EPV.C16
