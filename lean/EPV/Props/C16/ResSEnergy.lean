-- Written by EPV/Props/C16/gen_res.py (templates over symmetry and matrix entry); plain Lean, reviewed as such.

/-
C16 — `simplified_energy_noh_residual` over an abstract equation of state: every entry of `F_prime` is the partial
derivative of the corresponding component of `F` (given that the EOS derivative methods are correct at the state),
`determinant` is the determinant of `F_prime`, and `F_prime_inv · F_prime = 1` wherever `determinant ≠ 0`.
Planar symmetry and P₀ = 0 only (what the constructor accepts).  Hypotheses: what the constructor accepts
(`NohIC.Admissible 0` and P₀ = 0) and ρ ≠ 0 (the guard of every method).  Inverse and determinant are hand-coded in the class.
-/
import EPV.Lemmas.C16ResDefs
import EPV.Lemmas.Bridge.EosTac

set_option linter.all false
set_option maxHeartbeats 1000000

open EPV EPV.Gen EPV.Spec

namespace EPV.C16

/-- the traced models have exactly the leaves the proofs below name -/
theorem resSEnergy_leaves : ResSEnergyAbsS0_res.okLeaves = [4] := rfl

/-- `simplified_energy_noh_residual`, symmetry 0: every entry of `F_prime` is the partial derivative of the corresponding component of `F`, for any EOS whose derivative methods are correct at the state -/
theorem sEnergyS0_jacobian (s : EOS) (ic : NohIC) (ρ x : ℝ) (hic : ic.Admissible 0) (hP : ic.P_0 = 0) (hρ : ρ ≠ 0)
    (hs : s.EnergyDerivsAt ρ x) :
    IsJacobian2 (SEnergyS0.F s ic) (SEnergyS0.J s ic ρ x) ρ x := by
  obtain ⟨hu, hr0, hP0, hm⟩ := hic
  set p := SEnergyS0.pres s ic ρ x with hp
  intro i
  fin_cases i <;> (try simp only [Fin.zero_eta, Fin.mk_one, Fin.reduceFinMk])
  · refine ⟨?_, ?_⟩
    · have hc : HasDerivAt (fun r => ResSEnergyAbsS0_res.L4.F0 p r x) (ResSEnergyAbsS0_res.L4.F0_drho p ρ x) ρ := by
        epv_eos_cert ResSEnergyAbsS0_res.L4.F0_hasDerivAt_rho p ρ x
      have hev : (fun r => SEnergyS0.F s ic r x 0) =ᶠ[nhds ρ] fun r => ResSEnergyAbsS0_res.L4.F0 p r x := by
        filter_upwards [isOpen_ne.mem_nhds hρ] with r hr
        simp only [SEnergyS0.F, hp] <;> epv_eos_res_eq
      refine (hc.congr_of_eventuallyEq hev).congr_deriv ?_
      simp only [SEnergyS0.J, hp] <;> epv_eos_res_unfold <;> epv_eos_field
    · have hc : HasDerivAt (fun r => ResSEnergyAbsS0_res.L4.F0 p ρ r) (ResSEnergyAbsS0_res.L4.F0_dpres p ρ x) x := by
        epv_eos_cert ResSEnergyAbsS0_res.L4.F0_hasDerivAt_pres p ρ x
      have hev : (fun r => SEnergyS0.F s ic ρ r 0) =ᶠ[nhds x] fun r => ResSEnergyAbsS0_res.L4.F0 p ρ r := by
        filter_upwards with r
        simp only [SEnergyS0.F, hp] <;> epv_eos_res_eq
      refine (hc.congr_of_eventuallyEq hev).congr_deriv ?_
      simp only [SEnergyS0.J, hp] <;> epv_eos_res_unfold <;> epv_eos_field
  · refine ⟨?_, ?_⟩
    · have hc : HasDerivAt (fun r => ResSEnergyAbsS0_res.L4.F1 p r x) (ResSEnergyAbsS0_res.L4.F1_drho p ρ x) ρ := by
        epv_eos_cert ResSEnergyAbsS0_res.L4.F1_hasDerivAt_rho p ρ x
      have hev : (fun r => SEnergyS0.F s ic r x 1) =ᶠ[nhds ρ] fun r => (s.e r x - s.e ρ x) + ResSEnergyAbsS0_res.L4.F1 p r x := by
        filter_upwards [isOpen_ne.mem_nhds hρ] with r hr
        simp only [SEnergyS0.F, hp] <;> epv_eos_res_eq
      refine (((hs.1.sub_const _).add hc).congr_of_eventuallyEq hev).congr_deriv ?_
      simp only [SEnergyS0.J, hp] <;> epv_eos_res_unfold <;> epv_eos_field
    · have hc : HasDerivAt (fun r => ResSEnergyAbsS0_res.L4.F1 p ρ r) (ResSEnergyAbsS0_res.L4.F1_dpres p ρ x) x := by
        epv_eos_cert ResSEnergyAbsS0_res.L4.F1_hasDerivAt_pres p ρ x
      have hev : (fun r => SEnergyS0.F s ic ρ r 1) =ᶠ[nhds x] fun r => (s.e ρ r - s.e ρ x) + ResSEnergyAbsS0_res.L4.F1 p ρ r := by
        filter_upwards with r
        simp only [SEnergyS0.F, hp] <;> epv_eos_res_eq
      refine (((hs.2.sub_const _).add hc).congr_of_eventuallyEq hev).congr_deriv ?_
      simp only [SEnergyS0.J, hp] <;> epv_eos_res_unfold <;> epv_eos_field

/-- `determinant` is the determinant of `F_prime` -/
theorem sEnergyS0_det (s : EOS) (ic : NohIC) (ρ x : ℝ) (hic : ic.Admissible 0) (hP : ic.P_0 = 0) (hρ : ρ ≠ 0) :
    SEnergyS0.detv s ic ρ x = (SEnergyS0.J s ic ρ x).det := by
  obtain ⟨hu, hr0, hP0, hm⟩ := hic
  rw [Matrix.det_fin_two]
  simp only [SEnergyS0.detv, SEnergyS0.J] <;> epv_eos_res_eq

/-- `F_prime_inv · F_prime = 1` wherever the class does not raise `ZeroDeterminantError` (`determinant ≠ 0`) -/
theorem sEnergyS0_inverse (s : EOS) (ic : NohIC) (ρ x : ℝ) (hic : ic.Admissible 0) (hP : ic.P_0 = 0) (hρ : ρ ≠ 0)
    (hdet : SEnergyS0.detv s ic ρ x ≠ 0) :
    SEnergyS0.Jinv s ic ρ x * SEnergyS0.J s ic ρ x = 1 := by
  obtain ⟨hu, hr0, hP0, hm⟩ := hic
  have hdet' := hdet
  simp only [SEnergyS0.detv, epv_c16, epv_tree] at hdet'
  revert hdet'
  epv_eos_ifs
  intro hdet'
  simp only [epv_leaf] at hdet'
  epv_eos_gen_ne hdet'
  -- the guards of all entries of `F_prime_inv` and `F_prime` are decided once, at matrix level
  simp only [SEnergyS0.Jinv, SEnergyS0.J, epv_c16]
  simp only [epv_tree]
  epv_eos_ifs
  ext i j
  fin_cases i <;> fin_cases j <;>
    (simp only [Matrix.mul_apply, Fin.sum_univ_two, Matrix.one_apply, Fin.reduceEq, if_true, if_false, Matrix.of_apply, Matrix.cons_val, Fin.zero_eta, Fin.mk_one, Fin.reduceFinMk, Fin.isValue]
     simp only [epv_leaf]
     epv_eos_inv_entry)

/-- non-vacuity: the default initial state ρ₀ = 1, u₀ = -1, P₀ = 0 is admissible in every symmetry -/
example : (⟨1, -1, 0⟩ : NohIC).Admissible 0 ∧ (⟨1, -1, 0⟩ : NohIC).Admissible 1 ∧ (⟨1, -1, 0⟩ : NohIC).Admissible 2 := by
  refine ⟨⟨?_, ?_, ?_, ?_⟩, ⟨?_, ?_, ?_, ?_⟩, ⟨?_, ?_, ?_, ?_⟩⟩ <;> norm_num

end EPV.C16
