-- Written by EPV/Props/C16/gen_res.py (templates over symmetry and matrix entry); plain Lean, reviewed as such.

/-
C16 — `energy_noh_residual` over an abstract equation of state: every entry of `F_prime` is the partial
derivative of the corresponding component of `F` (given that the EOS derivative methods are correct at the state),
`determinant` is the determinant of `F_prime`, and `F_prime_inv · F_prime = 1` wherever `determinant ≠ 0`.
One theorem per symmetry m = 0, 1, 2 (planar, cylindrical, spherical).  Hypotheses: what the constructor accepts
(`NohIC.Admissible m`), ρ ≠ 0 (the guard of every method) and D ≠ 0 (the code divides by D).
-/
import EPV.Lemmas.C16ResDefs
import EPV.Lemmas.Bridge.EosTac

set_option linter.all false
set_option maxHeartbeats 1000000

open EPV EPV.Gen EPV.Spec

namespace EPV.C16

/-- the traced models have exactly the leaves the proofs below name -/
theorem resEnergy_leaves : ResEnergyAbsS0_res.okLeaves = [4] ∧ ResEnergyAbsS1_res.okLeaves = [5] ∧ ResEnergyAbsS2_res.okLeaves = [5] := ⟨rfl, rfl, rfl⟩

/-- `energy_noh_residual`, symmetry 0: every entry of `F_prime` is the partial derivative of the corresponding component of `F`, for any EOS whose derivative methods are correct at the state -/
theorem energyS0_jacobian (s : EOS) (ic : NohIC) (ρ x D : ℝ) (hic : ic.Admissible 0) (hρ : ρ ≠ 0) (hD : D ≠ 0)
    (hs : s.EnergyDerivsAt ρ x) :
    IsJacobian3 (EnergyS0.F s ic) (EnergyS0.J s ic ρ x D) ρ x D := by
  obtain ⟨hu, hr0, hP0, hm⟩ := hic
  set p := EnergyS0.pres s ic ρ x with hp
  intro i
  fin_cases i <;> (try simp only [Fin.zero_eta, Fin.mk_one, Fin.reduceFinMk])
  · refine ⟨?_, ?_, ?_⟩
    · have hc : HasDerivAt (fun r => ResEnergyAbsS0_res.L4.F0 p r x D) (ResEnergyAbsS0_res.L4.F0_drho p ρ x D) ρ := by
        epv_eos_cert ResEnergyAbsS0_res.L4.F0_hasDerivAt_rho p ρ x D
      have hev : (fun r => EnergyS0.F s ic r x D 0) =ᶠ[nhds ρ] fun r => ResEnergyAbsS0_res.L4.F0 p r x D := by
        filter_upwards [isOpen_ne.mem_nhds hρ] with r hr
        simp only [EnergyS0.F, hp] <;> epv_eos_res_eq
      refine (hc.congr_of_eventuallyEq hev).congr_deriv ?_
      simp only [EnergyS0.J, hp] <;> epv_eos_res_unfold <;> epv_eos_field
    · have hc : HasDerivAt (fun r => ResEnergyAbsS0_res.L4.F0 p ρ r D) (ResEnergyAbsS0_res.L4.F0_dpres p ρ x D) x := by
        epv_eos_cert ResEnergyAbsS0_res.L4.F0_hasDerivAt_pres p ρ x D
      have hev : (fun r => EnergyS0.F s ic ρ r D 0) =ᶠ[nhds x] fun r => ResEnergyAbsS0_res.L4.F0 p ρ r D := by
        filter_upwards with r
        simp only [EnergyS0.F, hp] <;> epv_eos_res_eq
      refine (hc.congr_of_eventuallyEq hev).congr_deriv ?_
      simp only [EnergyS0.J, hp] <;> epv_eos_res_unfold <;> epv_eos_field
    · have hc : HasDerivAt (fun r => ResEnergyAbsS0_res.L4.F0 p ρ x r) (ResEnergyAbsS0_res.L4.F0_dD p ρ x D) D := by
        epv_eos_cert ResEnergyAbsS0_res.L4.F0_hasDerivAt_D p ρ x D
      have hev : (fun r => EnergyS0.F s ic ρ x r 0) =ᶠ[nhds D] fun r => ResEnergyAbsS0_res.L4.F0 p ρ x r := by
        filter_upwards [isOpen_ne.mem_nhds hD] with r hr
        simp only [EnergyS0.F, hp] <;> epv_eos_res_eq
      refine (hc.congr_of_eventuallyEq hev).congr_deriv ?_
      simp only [EnergyS0.J, hp] <;> epv_eos_res_unfold <;> epv_eos_field
  · refine ⟨?_, ?_, ?_⟩
    · have hc : HasDerivAt (fun r => ResEnergyAbsS0_res.L4.F1 p r x D) (ResEnergyAbsS0_res.L4.F1_drho p ρ x D) ρ := by
        epv_eos_cert ResEnergyAbsS0_res.L4.F1_hasDerivAt_rho p ρ x D
      have hev : (fun r => EnergyS0.F s ic r x D 1) =ᶠ[nhds ρ] fun r => ResEnergyAbsS0_res.L4.F1 p r x D := by
        filter_upwards [isOpen_ne.mem_nhds hρ] with r hr
        simp only [EnergyS0.F, hp] <;> epv_eos_res_eq
      refine (hc.congr_of_eventuallyEq hev).congr_deriv ?_
      simp only [EnergyS0.J, hp] <;> epv_eos_res_unfold <;> epv_eos_field
    · have hc : HasDerivAt (fun r => ResEnergyAbsS0_res.L4.F1 p ρ r D) (ResEnergyAbsS0_res.L4.F1_dpres p ρ x D) x := by
        epv_eos_cert ResEnergyAbsS0_res.L4.F1_hasDerivAt_pres p ρ x D
      have hev : (fun r => EnergyS0.F s ic ρ r D 1) =ᶠ[nhds x] fun r => ResEnergyAbsS0_res.L4.F1 p ρ r D := by
        filter_upwards with r
        simp only [EnergyS0.F, hp] <;> epv_eos_res_eq
      refine (hc.congr_of_eventuallyEq hev).congr_deriv ?_
      simp only [EnergyS0.J, hp] <;> epv_eos_res_unfold <;> epv_eos_field
    · have hc : HasDerivAt (fun r => ResEnergyAbsS0_res.L4.F1 p ρ x r) (ResEnergyAbsS0_res.L4.F1_dD p ρ x D) D := by
        epv_eos_cert ResEnergyAbsS0_res.L4.F1_hasDerivAt_D p ρ x D
      have hev : (fun r => EnergyS0.F s ic ρ x r 1) =ᶠ[nhds D] fun r => ResEnergyAbsS0_res.L4.F1 p ρ x r := by
        filter_upwards [isOpen_ne.mem_nhds hD] with r hr
        simp only [EnergyS0.F, hp] <;> epv_eos_res_eq
      refine (hc.congr_of_eventuallyEq hev).congr_deriv ?_
      simp only [EnergyS0.J, hp] <;> epv_eos_res_unfold <;> epv_eos_field
  · refine ⟨?_, ?_, ?_⟩
    · have hc : HasDerivAt (fun r => ResEnergyAbsS0_res.L4.F2 p r x D) (ResEnergyAbsS0_res.L4.F2_drho p ρ x D) ρ := by
        epv_eos_cert ResEnergyAbsS0_res.L4.F2_hasDerivAt_rho p ρ x D
      have hev : (fun r => EnergyS0.F s ic r x D 2) =ᶠ[nhds ρ] fun r => (s.e r x - s.e ρ x) + ResEnergyAbsS0_res.L4.F2 p r x D := by
        filter_upwards [isOpen_ne.mem_nhds hρ] with r hr
        simp only [EnergyS0.F, hp] <;> epv_eos_res_eq
      refine (((hs.1.sub_const _).add hc).congr_of_eventuallyEq hev).congr_deriv ?_
      simp only [EnergyS0.J, hp] <;> epv_eos_res_unfold <;> epv_eos_field
    · have hc : HasDerivAt (fun r => ResEnergyAbsS0_res.L4.F2 p ρ r D) (ResEnergyAbsS0_res.L4.F2_dpres p ρ x D) x := by
        epv_eos_cert ResEnergyAbsS0_res.L4.F2_hasDerivAt_pres p ρ x D
      have hev : (fun r => EnergyS0.F s ic ρ r D 2) =ᶠ[nhds x] fun r => (s.e ρ r - s.e ρ x) + ResEnergyAbsS0_res.L4.F2 p ρ r D := by
        filter_upwards with r
        simp only [EnergyS0.F, hp] <;> epv_eos_res_eq
      refine (((hs.2.sub_const _).add hc).congr_of_eventuallyEq hev).congr_deriv ?_
      simp only [EnergyS0.J, hp] <;> epv_eos_res_unfold <;> epv_eos_field
    · have hc : HasDerivAt (fun r => ResEnergyAbsS0_res.L4.F2 p ρ x r) (ResEnergyAbsS0_res.L4.F2_dD p ρ x D) D := by
        epv_eos_cert ResEnergyAbsS0_res.L4.F2_hasDerivAt_D p ρ x D
      have hev : (fun r => EnergyS0.F s ic ρ x r 2) =ᶠ[nhds D] fun r => ResEnergyAbsS0_res.L4.F2 p ρ x r := by
        filter_upwards [isOpen_ne.mem_nhds hD] with r hr
        simp only [EnergyS0.F, hp] <;> epv_eos_res_eq
      refine (hc.congr_of_eventuallyEq hev).congr_deriv ?_
      simp only [EnergyS0.J, hp] <;> epv_eos_res_unfold <;> epv_eos_field

/-- `determinant` is the determinant of `F_prime` -/
theorem energyS0_det (s : EOS) (ic : NohIC) (ρ x D : ℝ) (hic : ic.Admissible 0) (hρ : ρ ≠ 0) :
    EnergyS0.detv s ic ρ x D = (EnergyS0.J s ic ρ x D).det := by
  obtain ⟨hu, hr0, hP0, hm⟩ := hic
  rw [Matrix.det_fin_three]
  simp only [EnergyS0.detv, EnergyS0.J] <;> epv_eos_res_eq

/-- `F_prime_inv · F_prime = 1` wherever the class does not raise `ZeroDeterminantError` (`determinant ≠ 0`) -/
theorem energyS0_inverse (s : EOS) (ic : NohIC) (ρ x D : ℝ) (hic : ic.Admissible 0) (hρ : ρ ≠ 0) (hD : D ≠ 0)
    (hdet : EnergyS0.detv s ic ρ x D ≠ 0) :
    EnergyS0.Jinv s ic ρ x D * EnergyS0.J s ic ρ x D = 1 := by
  obtain ⟨hu, hr0, hP0, hm⟩ := hic
  have hdet' := hdet
  simp only [EnergyS0.detv, epv_c16, epv_tree] at hdet'
  revert hdet'
  epv_eos_ifs
  intro hdet'
  simp only [epv_leaf] at hdet'
  epv_eos_gen_ne hdet'
  -- the guards of all entries of `F_prime_inv` and `F_prime` are decided once, at matrix level
  simp only [EnergyS0.Jinv, EnergyS0.J, epv_c16]
  simp only [epv_tree]
  epv_eos_ifs
  ext i j
  fin_cases i <;> fin_cases j <;>
    (simp only [Matrix.mul_apply, Fin.sum_univ_three, Matrix.one_apply, Fin.reduceEq, if_true, if_false, Matrix.of_apply, Matrix.cons_val, Fin.zero_eta, Fin.mk_one, Fin.reduceFinMk, Fin.isValue]
     simp only [epv_leaf]
     epv_eos_inv_entry)

/-- `energy_noh_residual`, symmetry 1: every entry of `F_prime` is the partial derivative of the corresponding component of `F`, for any EOS whose derivative methods are correct at the state -/
theorem energyS1_jacobian (s : EOS) (ic : NohIC) (ρ x D : ℝ) (hic : ic.Admissible 1) (hρ : ρ ≠ 0) (hD : D ≠ 0)
    (hs : s.EnergyDerivsAt ρ x) :
    IsJacobian3 (EnergyS1.F s ic) (EnergyS1.J s ic ρ x D) ρ x D := by
  obtain ⟨hu, hr0, hP0, hm⟩ := hic
  have hPz : ic.P_0 = 0 := hm (by norm_num)
  set p := EnergyS1.pres s ic ρ x with hp
  intro i
  fin_cases i <;> (try simp only [Fin.zero_eta, Fin.mk_one, Fin.reduceFinMk])
  · refine ⟨?_, ?_, ?_⟩
    · have hc : HasDerivAt (fun r => ResEnergyAbsS1_res.L5.F0 p r x D) (ResEnergyAbsS1_res.L5.F0_drho p ρ x D) ρ := by
        epv_eos_cert ResEnergyAbsS1_res.L5.F0_hasDerivAt_rho p ρ x D
      have hev : (fun r => EnergyS1.F s ic r x D 0) =ᶠ[nhds ρ] fun r => ResEnergyAbsS1_res.L5.F0 p r x D := by
        filter_upwards [isOpen_ne.mem_nhds hρ] with r hr
        simp only [EnergyS1.F, hp] <;> epv_eos_res_eq
      refine (hc.congr_of_eventuallyEq hev).congr_deriv ?_
      simp only [EnergyS1.J, hp] <;> epv_eos_res_unfold <;> epv_eos_field
    · have hc : HasDerivAt (fun r => ResEnergyAbsS1_res.L5.F0 p ρ r D) (ResEnergyAbsS1_res.L5.F0_dpres p ρ x D) x := by
        epv_eos_cert ResEnergyAbsS1_res.L5.F0_hasDerivAt_pres p ρ x D
      have hev : (fun r => EnergyS1.F s ic ρ r D 0) =ᶠ[nhds x] fun r => ResEnergyAbsS1_res.L5.F0 p ρ r D := by
        filter_upwards with r
        simp only [EnergyS1.F, hp] <;> epv_eos_res_eq
      refine (hc.congr_of_eventuallyEq hev).congr_deriv ?_
      simp only [EnergyS1.J, hp] <;> epv_eos_res_unfold <;> epv_eos_field
    · have hc : HasDerivAt (fun r => ResEnergyAbsS1_res.L5.F0 p ρ x r) (ResEnergyAbsS1_res.L5.F0_dD p ρ x D) D := by
        epv_eos_cert ResEnergyAbsS1_res.L5.F0_hasDerivAt_D p ρ x D
      have hev : (fun r => EnergyS1.F s ic ρ x r 0) =ᶠ[nhds D] fun r => ResEnergyAbsS1_res.L5.F0 p ρ x r := by
        filter_upwards [isOpen_ne.mem_nhds hD] with r hr
        simp only [EnergyS1.F, hp] <;> epv_eos_res_eq
      refine (hc.congr_of_eventuallyEq hev).congr_deriv ?_
      simp only [EnergyS1.J, hp] <;> epv_eos_res_unfold <;> epv_eos_field
  · refine ⟨?_, ?_, ?_⟩
    · have hc : HasDerivAt (fun r => ResEnergyAbsS1_res.L5.F1 p r x D) (ResEnergyAbsS1_res.L5.F1_drho p ρ x D) ρ := by
        epv_eos_cert ResEnergyAbsS1_res.L5.F1_hasDerivAt_rho p ρ x D
      have hev : (fun r => EnergyS1.F s ic r x D 1) =ᶠ[nhds ρ] fun r => ResEnergyAbsS1_res.L5.F1 p r x D := by
        filter_upwards [isOpen_ne.mem_nhds hρ] with r hr
        simp only [EnergyS1.F, hp] <;> epv_eos_res_eq
      refine (hc.congr_of_eventuallyEq hev).congr_deriv ?_
      simp only [EnergyS1.J, hp] <;> epv_eos_res_unfold <;> epv_eos_field
    · have hc : HasDerivAt (fun r => ResEnergyAbsS1_res.L5.F1 p ρ r D) (ResEnergyAbsS1_res.L5.F1_dpres p ρ x D) x := by
        epv_eos_cert ResEnergyAbsS1_res.L5.F1_hasDerivAt_pres p ρ x D
      have hev : (fun r => EnergyS1.F s ic ρ r D 1) =ᶠ[nhds x] fun r => ResEnergyAbsS1_res.L5.F1 p ρ r D := by
        filter_upwards with r
        simp only [EnergyS1.F, hp] <;> epv_eos_res_eq
      refine (hc.congr_of_eventuallyEq hev).congr_deriv ?_
      simp only [EnergyS1.J, hp] <;> epv_eos_res_unfold <;> epv_eos_field
    · have hc : HasDerivAt (fun r => ResEnergyAbsS1_res.L5.F1 p ρ x r) (ResEnergyAbsS1_res.L5.F1_dD p ρ x D) D := by
        epv_eos_cert ResEnergyAbsS1_res.L5.F1_hasDerivAt_D p ρ x D
      have hev : (fun r => EnergyS1.F s ic ρ x r 1) =ᶠ[nhds D] fun r => ResEnergyAbsS1_res.L5.F1 p ρ x r := by
        filter_upwards [isOpen_ne.mem_nhds hD] with r hr
        simp only [EnergyS1.F, hp] <;> epv_eos_res_eq
      refine (hc.congr_of_eventuallyEq hev).congr_deriv ?_
      simp only [EnergyS1.J, hp] <;> epv_eos_res_unfold <;> epv_eos_field
  · refine ⟨?_, ?_, ?_⟩
    · have hc : HasDerivAt (fun r => ResEnergyAbsS1_res.L5.F2 p r x D) (ResEnergyAbsS1_res.L5.F2_drho p ρ x D) ρ := by
        epv_eos_cert ResEnergyAbsS1_res.L5.F2_hasDerivAt_rho p ρ x D
      have hev : (fun r => EnergyS1.F s ic r x D 2) =ᶠ[nhds ρ] fun r => (s.e r x - s.e ρ x) + ResEnergyAbsS1_res.L5.F2 p r x D := by
        filter_upwards [isOpen_ne.mem_nhds hρ] with r hr
        simp only [EnergyS1.F, hp] <;> epv_eos_res_eq
      refine (((hs.1.sub_const _).add hc).congr_of_eventuallyEq hev).congr_deriv ?_
      simp only [EnergyS1.J, hp] <;> epv_eos_res_unfold <;> epv_eos_field
    · have hc : HasDerivAt (fun r => ResEnergyAbsS1_res.L5.F2 p ρ r D) (ResEnergyAbsS1_res.L5.F2_dpres p ρ x D) x := by
        epv_eos_cert ResEnergyAbsS1_res.L5.F2_hasDerivAt_pres p ρ x D
      have hev : (fun r => EnergyS1.F s ic ρ r D 2) =ᶠ[nhds x] fun r => (s.e ρ r - s.e ρ x) + ResEnergyAbsS1_res.L5.F2 p ρ r D := by
        filter_upwards with r
        simp only [EnergyS1.F, hp] <;> epv_eos_res_eq
      refine (((hs.2.sub_const _).add hc).congr_of_eventuallyEq hev).congr_deriv ?_
      simp only [EnergyS1.J, hp] <;> epv_eos_res_unfold <;> epv_eos_field
    · have hc : HasDerivAt (fun r => ResEnergyAbsS1_res.L5.F2 p ρ x r) (ResEnergyAbsS1_res.L5.F2_dD p ρ x D) D := by
        epv_eos_cert ResEnergyAbsS1_res.L5.F2_hasDerivAt_D p ρ x D
      have hev : (fun r => EnergyS1.F s ic ρ x r 2) =ᶠ[nhds D] fun r => ResEnergyAbsS1_res.L5.F2 p ρ x r := by
        filter_upwards [isOpen_ne.mem_nhds hD] with r hr
        simp only [EnergyS1.F, hp] <;> epv_eos_res_eq
      refine (hc.congr_of_eventuallyEq hev).congr_deriv ?_
      simp only [EnergyS1.J, hp] <;> epv_eos_res_unfold <;> epv_eos_field

/-- `determinant` is the determinant of `F_prime` -/
theorem energyS1_det (s : EOS) (ic : NohIC) (ρ x D : ℝ) (hic : ic.Admissible 1) (hρ : ρ ≠ 0) :
    EnergyS1.detv s ic ρ x D = (EnergyS1.J s ic ρ x D).det := by
  obtain ⟨hu, hr0, hP0, hm⟩ := hic
  have hPz : ic.P_0 = 0 := hm (by norm_num)
  rw [Matrix.det_fin_three]
  simp only [EnergyS1.detv, EnergyS1.J] <;> epv_eos_res_eq

/-- `F_prime_inv · F_prime = 1` wherever the class does not raise `ZeroDeterminantError` (`determinant ≠ 0`) -/
theorem energyS1_inverse (s : EOS) (ic : NohIC) (ρ x D : ℝ) (hic : ic.Admissible 1) (hρ : ρ ≠ 0) (hD : D ≠ 0)
    (hdet : EnergyS1.detv s ic ρ x D ≠ 0) :
    EnergyS1.Jinv s ic ρ x D * EnergyS1.J s ic ρ x D = 1 := by
  obtain ⟨hu, hr0, hP0, hm⟩ := hic
  have hPz : ic.P_0 = 0 := hm (by norm_num)
  have hdet' := hdet
  simp only [EnergyS1.detv, epv_c16, epv_tree] at hdet'
  revert hdet'
  epv_eos_ifs
  intro hdet'
  simp only [epv_leaf] at hdet'
  epv_eos_gen_ne hdet'
  -- the guards of all entries of `F_prime_inv` and `F_prime` are decided once, at matrix level
  simp only [EnergyS1.Jinv, EnergyS1.J, epv_c16]
  simp only [epv_tree]
  epv_eos_ifs
  ext i j
  fin_cases i <;> fin_cases j <;>
    (simp only [Matrix.mul_apply, Fin.sum_univ_three, Matrix.one_apply, Fin.reduceEq, if_true, if_false, Matrix.of_apply, Matrix.cons_val, Fin.zero_eta, Fin.mk_one, Fin.reduceFinMk, Fin.isValue]
     simp only [epv_leaf]
     epv_eos_inv_entry)

/-- `energy_noh_residual`, symmetry 2: every entry of `F_prime` is the partial derivative of the corresponding component of `F`, for any EOS whose derivative methods are correct at the state -/
theorem energyS2_jacobian (s : EOS) (ic : NohIC) (ρ x D : ℝ) (hic : ic.Admissible 2) (hρ : ρ ≠ 0) (hD : D ≠ 0)
    (hs : s.EnergyDerivsAt ρ x) :
    IsJacobian3 (EnergyS2.F s ic) (EnergyS2.J s ic ρ x D) ρ x D := by
  obtain ⟨hu, hr0, hP0, hm⟩ := hic
  have hPz : ic.P_0 = 0 := hm (by norm_num)
  set p := EnergyS2.pres s ic ρ x with hp
  intro i
  fin_cases i <;> (try simp only [Fin.zero_eta, Fin.mk_one, Fin.reduceFinMk])
  · refine ⟨?_, ?_, ?_⟩
    · have hc : HasDerivAt (fun r => ResEnergyAbsS2_res.L5.F0 p r x D) (ResEnergyAbsS2_res.L5.F0_drho p ρ x D) ρ := by
        epv_eos_cert ResEnergyAbsS2_res.L5.F0_hasDerivAt_rho p ρ x D
      have hev : (fun r => EnergyS2.F s ic r x D 0) =ᶠ[nhds ρ] fun r => ResEnergyAbsS2_res.L5.F0 p r x D := by
        filter_upwards [isOpen_ne.mem_nhds hρ] with r hr
        simp only [EnergyS2.F, hp] <;> epv_eos_res_eq
      refine (hc.congr_of_eventuallyEq hev).congr_deriv ?_
      simp only [EnergyS2.J, hp] <;> epv_eos_res_unfold <;> epv_eos_field
    · have hc : HasDerivAt (fun r => ResEnergyAbsS2_res.L5.F0 p ρ r D) (ResEnergyAbsS2_res.L5.F0_dpres p ρ x D) x := by
        epv_eos_cert ResEnergyAbsS2_res.L5.F0_hasDerivAt_pres p ρ x D
      have hev : (fun r => EnergyS2.F s ic ρ r D 0) =ᶠ[nhds x] fun r => ResEnergyAbsS2_res.L5.F0 p ρ r D := by
        filter_upwards with r
        simp only [EnergyS2.F, hp] <;> epv_eos_res_eq
      refine (hc.congr_of_eventuallyEq hev).congr_deriv ?_
      simp only [EnergyS2.J, hp] <;> epv_eos_res_unfold <;> epv_eos_field
    · have hc : HasDerivAt (fun r => ResEnergyAbsS2_res.L5.F0 p ρ x r) (ResEnergyAbsS2_res.L5.F0_dD p ρ x D) D := by
        epv_eos_cert ResEnergyAbsS2_res.L5.F0_hasDerivAt_D p ρ x D
      have hev : (fun r => EnergyS2.F s ic ρ x r 0) =ᶠ[nhds D] fun r => ResEnergyAbsS2_res.L5.F0 p ρ x r := by
        filter_upwards [isOpen_ne.mem_nhds hD] with r hr
        simp only [EnergyS2.F, hp] <;> epv_eos_res_eq
      refine (hc.congr_of_eventuallyEq hev).congr_deriv ?_
      simp only [EnergyS2.J, hp] <;> epv_eos_res_unfold <;> epv_eos_field
  · refine ⟨?_, ?_, ?_⟩
    · have hc : HasDerivAt (fun r => ResEnergyAbsS2_res.L5.F1 p r x D) (ResEnergyAbsS2_res.L5.F1_drho p ρ x D) ρ := by
        epv_eos_cert ResEnergyAbsS2_res.L5.F1_hasDerivAt_rho p ρ x D
      have hev : (fun r => EnergyS2.F s ic r x D 1) =ᶠ[nhds ρ] fun r => ResEnergyAbsS2_res.L5.F1 p r x D := by
        filter_upwards [isOpen_ne.mem_nhds hρ] with r hr
        simp only [EnergyS2.F, hp] <;> epv_eos_res_eq
      refine (hc.congr_of_eventuallyEq hev).congr_deriv ?_
      simp only [EnergyS2.J, hp] <;> epv_eos_res_unfold <;> epv_eos_field
    · have hc : HasDerivAt (fun r => ResEnergyAbsS2_res.L5.F1 p ρ r D) (ResEnergyAbsS2_res.L5.F1_dpres p ρ x D) x := by
        epv_eos_cert ResEnergyAbsS2_res.L5.F1_hasDerivAt_pres p ρ x D
      have hev : (fun r => EnergyS2.F s ic ρ r D 1) =ᶠ[nhds x] fun r => ResEnergyAbsS2_res.L5.F1 p ρ r D := by
        filter_upwards with r
        simp only [EnergyS2.F, hp] <;> epv_eos_res_eq
      refine (hc.congr_of_eventuallyEq hev).congr_deriv ?_
      simp only [EnergyS2.J, hp] <;> epv_eos_res_unfold <;> epv_eos_field
    · have hc : HasDerivAt (fun r => ResEnergyAbsS2_res.L5.F1 p ρ x r) (ResEnergyAbsS2_res.L5.F1_dD p ρ x D) D := by
        epv_eos_cert ResEnergyAbsS2_res.L5.F1_hasDerivAt_D p ρ x D
      have hev : (fun r => EnergyS2.F s ic ρ x r 1) =ᶠ[nhds D] fun r => ResEnergyAbsS2_res.L5.F1 p ρ x r := by
        filter_upwards [isOpen_ne.mem_nhds hD] with r hr
        simp only [EnergyS2.F, hp] <;> epv_eos_res_eq
      refine (hc.congr_of_eventuallyEq hev).congr_deriv ?_
      simp only [EnergyS2.J, hp] <;> epv_eos_res_unfold <;> epv_eos_field
  · refine ⟨?_, ?_, ?_⟩
    · have hc : HasDerivAt (fun r => ResEnergyAbsS2_res.L5.F2 p r x D) (ResEnergyAbsS2_res.L5.F2_drho p ρ x D) ρ := by
        epv_eos_cert ResEnergyAbsS2_res.L5.F2_hasDerivAt_rho p ρ x D
      have hev : (fun r => EnergyS2.F s ic r x D 2) =ᶠ[nhds ρ] fun r => (s.e r x - s.e ρ x) + ResEnergyAbsS2_res.L5.F2 p r x D := by
        filter_upwards [isOpen_ne.mem_nhds hρ] with r hr
        simp only [EnergyS2.F, hp] <;> epv_eos_res_eq
      refine (((hs.1.sub_const _).add hc).congr_of_eventuallyEq hev).congr_deriv ?_
      simp only [EnergyS2.J, hp] <;> epv_eos_res_unfold <;> epv_eos_field
    · have hc : HasDerivAt (fun r => ResEnergyAbsS2_res.L5.F2 p ρ r D) (ResEnergyAbsS2_res.L5.F2_dpres p ρ x D) x := by
        epv_eos_cert ResEnergyAbsS2_res.L5.F2_hasDerivAt_pres p ρ x D
      have hev : (fun r => EnergyS2.F s ic ρ r D 2) =ᶠ[nhds x] fun r => (s.e ρ r - s.e ρ x) + ResEnergyAbsS2_res.L5.F2 p ρ r D := by
        filter_upwards with r
        simp only [EnergyS2.F, hp] <;> epv_eos_res_eq
      refine (((hs.2.sub_const _).add hc).congr_of_eventuallyEq hev).congr_deriv ?_
      simp only [EnergyS2.J, hp] <;> epv_eos_res_unfold <;> epv_eos_field
    · have hc : HasDerivAt (fun r => ResEnergyAbsS2_res.L5.F2 p ρ x r) (ResEnergyAbsS2_res.L5.F2_dD p ρ x D) D := by
        epv_eos_cert ResEnergyAbsS2_res.L5.F2_hasDerivAt_D p ρ x D
      have hev : (fun r => EnergyS2.F s ic ρ x r 2) =ᶠ[nhds D] fun r => ResEnergyAbsS2_res.L5.F2 p ρ x r := by
        filter_upwards [isOpen_ne.mem_nhds hD] with r hr
        simp only [EnergyS2.F, hp] <;> epv_eos_res_eq
      refine (hc.congr_of_eventuallyEq hev).congr_deriv ?_
      simp only [EnergyS2.J, hp] <;> epv_eos_res_unfold <;> epv_eos_field

/-- `determinant` is the determinant of `F_prime` -/
theorem energyS2_det (s : EOS) (ic : NohIC) (ρ x D : ℝ) (hic : ic.Admissible 2) (hρ : ρ ≠ 0) :
    EnergyS2.detv s ic ρ x D = (EnergyS2.J s ic ρ x D).det := by
  obtain ⟨hu, hr0, hP0, hm⟩ := hic
  have hPz : ic.P_0 = 0 := hm (by norm_num)
  rw [Matrix.det_fin_three]
  simp only [EnergyS2.detv, EnergyS2.J] <;> epv_eos_res_eq

/-- `F_prime_inv · F_prime = 1` wherever the class does not raise `ZeroDeterminantError` (`determinant ≠ 0`) -/
theorem energyS2_inverse (s : EOS) (ic : NohIC) (ρ x D : ℝ) (hic : ic.Admissible 2) (hρ : ρ ≠ 0) (hD : D ≠ 0)
    (hdet : EnergyS2.detv s ic ρ x D ≠ 0) :
    EnergyS2.Jinv s ic ρ x D * EnergyS2.J s ic ρ x D = 1 := by
  obtain ⟨hu, hr0, hP0, hm⟩ := hic
  have hPz : ic.P_0 = 0 := hm (by norm_num)
  have hdet' := hdet
  simp only [EnergyS2.detv, epv_c16, epv_tree] at hdet'
  revert hdet'
  epv_eos_ifs
  intro hdet'
  simp only [epv_leaf] at hdet'
  epv_eos_gen_ne hdet'
  -- the guards of all entries of `F_prime_inv` and `F_prime` are decided once, at matrix level
  simp only [EnergyS2.Jinv, EnergyS2.J, epv_c16]
  simp only [epv_tree]
  epv_eos_ifs
  ext i j
  fin_cases i <;> fin_cases j <;>
    (simp only [Matrix.mul_apply, Fin.sum_univ_three, Matrix.one_apply, Fin.reduceEq, if_true, if_false, Matrix.of_apply, Matrix.cons_val, Fin.zero_eta, Fin.mk_one, Fin.reduceFinMk, Fin.isValue]
     simp only [epv_leaf]
     epv_eos_inv_entry)

/-- non-vacuity: the default initial state ρ₀ = 1, u₀ = -1, P₀ = 0 is admissible in every symmetry -/
example : (⟨1, -1, 0⟩ : NohIC).Admissible 0 ∧ (⟨1, -1, 0⟩ : NohIC).Admissible 1 ∧ (⟨1, -1, 0⟩ : NohIC).Admissible 2 := by
  refine ⟨⟨?_, ?_, ?_, ?_⟩, ⟨?_, ?_, ?_, ?_⟩, ⟨?_, ?_, ?_, ?_⟩⟩ <;> norm_num

end EPV.C16
