/-
C16 — FINDING: "reported convergence ⇒ positive shock speed" is false.

The residual of the black-box Noh solver has a spurious root ρ → 0, e = e₀ + u₀²/2, D → u₀ < 0
(at D = u₀ the convergence factor 1 - u₀/D vanishes): states with NEGATIVE shock speed satisfy the solver's
acceptance test ‖F x‖ ≤ tolerance to any tolerance, and two of the three jump conditions exactly.
Witness (class defaults: ideal gas γ = 5/3, ρ₀ = 1, u₀ = -1, P₀ = 0, spherical, tolerance 1e-6):

    x = (ρ, e, D) = (1/1001³, 1/2, -1001/1000):   F[0] = F[2] = 0,  |F[1]| < 1.4e-9 < 1e-6,  ρ > 0,  D < 0.

`newton_converged` (Newton.lean) shows that ‖F x‖ ≤ tol and a short last step are ALL the code guarantees, so
nothing excludes such a state; the oracle `o_c16.newton_default_guess` shows that the real solver, started from
its own default guess [ρ₀ + 1/2, P₀ + 1/2, 1/2], does return one (ρ ≈ 2e-113, D ≈ -1.0000014 after 39 iterations),
and `NohBlackBoxEos._run` then reports the whole domain as unshocked.
-/
import EPV.Props.C16.Ideal
import EPV.Lemmas.C16ResDefs

set_option linter.all false

open EPV EPV.Gen EPV.Spec

namespace EPV.C16

/-- the default problem is admissible -/
theorem spurious_admissible : (⟨1, -1, 0⟩ : NohIC).Admissible 2 := by
  refine ⟨?_, ?_, ?_, ?_⟩ <;> norm_num

/-- a state with negative shock speed passes the acceptance test of the Newton iteration
(`pressure_noh_residual`, ideal gas γ = 5/3, default initial state, spherical, tolerance 1e-6) -/
theorem spurious_root_finding :
    ∃ ρ e D : ℝ, 0 < ρ ∧ D < 0 ∧
      PressureS2.F (idealEOS (5 / 3)) ⟨1, -1, 0⟩ ρ e D 0 = 0 ∧
      |PressureS2.F (idealEOS (5 / 3)) ⟨1, -1, 0⟩ ρ e D 1| < 1e-6 ∧
      PressureS2.F (idealEOS (5 / 3)) ⟨1, -1, 0⟩ ρ e D 2 = 0 := by
  refine ⟨1 / 1001 ^ 3, 1 / 2, -1001 / 1000, by norm_num, by norm_num, ?_, ?_, ?_⟩
  · simp only [PressureS2.F, idealEOS, epv_c16, epv_tree, epv_cond, epv_leaf, Matrix.cons_val]
    norm_num
  · simp only [PressureS2.F, idealEOS, epv_c16, epv_tree, epv_cond, epv_leaf, Matrix.cons_val]
    norm_num [abs_lt]
  · simp only [PressureS2.F, idealEOS, epv_c16, epv_tree, epv_cond, epv_leaf, Matrix.cons_val]
    norm_num

/-- the same for every tolerance: there are states with D < 0, ρ > 0 whose residual is smaller than any ε > 0
(so no choice of tolerance repairs it) -/
theorem spurious_root_any_tolerance (ε : ℝ) (hε : 0 < ε) :
    ∃ ρ e D : ℝ, 0 < ρ ∧ D < 0 ∧
      PressureS2.F (idealEOS (5 / 3)) ⟨1, -1, 0⟩ ρ e D 0 = 0 ∧
      |PressureS2.F (idealEOS (5 / 3)) ⟨1, -1, 0⟩ ρ e D 1| < ε ∧
      PressureS2.F (idealEOS (5 / 3)) ⟨1, -1, 0⟩ ρ e D 2 = 0 := by
  -- D = -1/(1 - δ), 1 - u₀/D = δ, ρ = δ³, F[1] = δ³ (1/3 + 1/(1 - δ)), with 0 < δ ≤ 1/2, δ ≤ ε/3
  set δ : ℝ := min (1 / 2) (ε / 3) with hδ
  have hδ0 : 0 < δ := lt_min (by norm_num) (by positivity)
  have hδ1 : δ ≤ 1 / 2 := min_le_left _ _
  have hδ2 : δ ≤ ε / 3 := min_le_right _ _
  have h1δ : (0 : ℝ) < 1 - δ := by linarith
  refine ⟨δ ^ 3, 1 / 2, -1 / (1 - δ), by positivity, ?_, ?_, ?_, ?_⟩
  · have : 0 < 1 / (1 - δ) := by positivity
    rw [neg_div]; linarith
  · simp only [PressureS2.F, idealEOS, epv_c16, epv_tree, epv_cond, epv_leaf, Matrix.cons_val]
    have hne : (-1 : ℝ) / (1 - δ) ≠ 0 := div_ne_zero (by norm_num) (ne_of_gt h1δ)
    have hρ : δ ^ 3 ≠ 0 := ne_of_gt (by positivity)
    norm_num [hρ]
    try field_simp
    try ring
  · simp only [PressureS2.F, idealEOS, epv_c16, epv_tree, epv_cond, epv_leaf, Matrix.cons_val]
    have hρ : δ ^ 3 ≠ 0 := ne_of_gt (by positivity)
    norm_num [hρ]
    have hval : δ ^ 3 * (1 / 2) * (5 / 3 - 1) + δ ^ 3 * -1 * (-1 / (1 - δ)) = δ ^ 3 * (1 / 3 + 1 / (1 - δ)) := by
      field_simp
      ring
    have hb : 1 / (1 - δ) ≤ 2 := by
      rw [div_le_iff₀ h1δ]; linarith
    have hpos : 0 ≤ δ ^ 3 * (1 / 3 + 1 / (1 - δ)) := by positivity
    have hsmall : δ ^ 3 * (1 / 3 + 1 / (1 - δ)) < ε := by
      have h3 : δ ^ 3 ≤ δ * (1 / 4) := by
        have : δ ^ 2 ≤ 1 / 4 := by nlinarith
        nlinarith
      have : δ ^ 3 * (1 / 3 + 1 / (1 - δ)) ≤ δ * (1 / 4) * (1 / 3 + 2) := by
        apply mul_le_mul h3 (by linarith) (by positivity) (by positivity)
      nlinarith
    rw [abs_lt]
    constructor <;> nlinarith [hval, hpos, hsmall]
  · simp only [PressureS2.F, idealEOS, epv_c16, epv_tree, epv_cond, epv_leaf, Matrix.cons_val]
    have hρ : δ ^ 3 ≠ 0 := ne_of_gt (by positivity)
    norm_num [hρ]

end EPV.C16
