/-
C16 — the residual objects are RE-USED and hold a MUTABLE EOS object: `energy_noh_residual`, `pressure_noh_residual`
(setters `set_new_initial_conditions`, `set_new_equation_of_state`; the two simplified classes have no setter).

The constructor caches  e_0 = equation_of_state.e(rho_0, P_0).  As state machines over the attribute dictionary
(u_0, rho_0, P_0, symmetry, e_0 and the closure `eosE` of the held EOS object; `result`, `DF`, `DF_inv` are
scratch buffers written before they are read), every piece traced over an ABSTRACT EOS whose closure e(ρ, P) is an
uninterpreted function (t_eos_b.py: `ResB<Res>_init`, `ResB<Res>_set_new_initial_conditions`,
`ResB<Res>_set_new_equation_of_state`, the setters on a dictionary of independent symbols):

  `res<K>_accepts_iff`            constructor and set_new_initial_conditions accept exactly the same inputs (`ResAdm`)
  `res<K>_setIC_eq_construct`     after (set_new_initial_conditions ic) s = construct ic s.eos, from ANY state s —
                                  in particular it REFRESHES a stale e_0
  `res<K>_setEOS_keeps_e0`        set_new_equation_of_state replaces the EOS object and nothing else: e_0 is kept
  `res<K>_setEOS_eq_construct_iff`  … = construct ic eos'  ⇔  eos.e(ρ₀, P₀) = eos'.e(ρ₀, P₀)
  `res<K>_setEOS_stale_finding`   FINDING: after set_new_equation_of_state the object is NOT the fresh object
                                  (ideal gas γ = 7/5 → 5/3, ρ₀ = 1, P₀ = 3/10: e_0 = 3/4, fresh 9/20); the same
                                  happens when the held EOS object is mutated through its own setters (`mutateEOS`)
  `res<K>_consistent_iff_fresh`   an admissible dictionary is a fresh object ⇔ e_0 = eosE ρ₀ P₀
  `res<K>_disciplined_reachable_eq_fresh_partial`   when every change of the EOS is followed by set_new_initial_conditions —
                                  what NohBlackBoxEos.solve_jump_conditions does before every solve
                                  (SettersNewton.solve_jump_conditions_calls) — any reachable object is the fresh one
                                  (induction over the sequence)
-/
import EPV.Lemmas.SetterMachine
import EPV.Gen.ResBEnergy_init
import EPV.Gen.ResBEnergy_set_new_initial_conditions
import EPV.Gen.ResBEnergy_set_new_equation_of_state
import EPV.Gen.ResBPressure_init
import EPV.Gen.ResBPressure_set_new_initial_conditions
import EPV.Gen.ResBPressure_set_new_equation_of_state
import EPV.Gen.EosIdeal_e
import EPV.Tactics
import Mathlib.Tactic

set_option linter.all false

open EPV EPV.Gen EPV.Setters

namespace EPV.C16

noncomputable section

open Classical

/-- the attribute dictionary of a residual object; `eosE` is the closure e(ρ, P) of the EOS object it holds -/
structure ResAttrs where
  P_0 : ℝ
  e_0 : ℝ
  rho_0 : ℝ
  symmetry : ℝ
  u_0 : ℝ
  eosE : ℝ → ℝ → ℝ

/-- `initial_conditions` as the residual classes read them -/
structure ResIC where
  rho_0 : ℝ
  u_0 : ℝ
  P_0 : ℝ
  symmetry : ℝ

/-- constructor arguments: initial conditions and an EOS object -/
structure ResConsts where
  ic : ResIC
  eosE : ℝ → ℝ → ℝ

/-- what the constructor and `set_new_initial_conditions` document as admissible: inflow, positive density,
non-negative pressure, symmetry 0, 1 or 2, and zero pressure unless planar -/
def ResAdm (ic : ResIC) : Prop :=
  ic.u_0 < 0 ∧ 0 < ic.rho_0 ∧ 0 ≤ ic.P_0 ∧ (ic.symmetry = 0 ∨ ((ic.symmetry = 1 ∨ ic.symmetry = 2) ∧ ic.P_0 = 0))

/-- the operations on a residual object -/
inductive ResOp where
  /-- `set_new_initial_conditions(ic)` -/
  | setIC (ic : ResIC)
  /-- `set_new_equation_of_state(eos')`, `eos'.e = E'` -/
  | setEOS (E' : ℝ → ℝ → ℝ)
  /-- a setter of the HELD EOS object is called (`res.equation_of_state.set_new_…(v)`): no method of the residual
  runs; the object it refers to now has the closure `E'` (Python reference semantics) -/
  | mutateEOS (E' : ℝ → ℝ → ℝ)

/-- the fresh object the mutated one must equal: initial conditions and EOS last set -/
def resUpdate : ResOp → ResConsts → ResConsts
  | .setIC ic, c => { c with ic := ic }
  | .setEOS E', c => { c with eosE := E' }
  | .mutateEOS E', c => { c with eosE := E' }

/-- the cached initial energy is the held EOS's energy at the initial state -/
def ResConsistent (a : ResAttrs) : Prop := a.e_0 = a.eosE a.rho_0 a.P_0

/-- the initial conditions a dictionary stores -/
def ResAttrs.ic (a : ResAttrs) : ResIC := ⟨a.rho_0, a.u_0, a.P_0, a.symmetry⟩
/-- the DISCIPLINED operations: the initial conditions are (re)set after every change of the EOS -/
inductive ResDOp where
  /-- `set_new_initial_conditions(ic)` -/
  | setIC (ic : ResIC)
  /-- `set_new_equation_of_state(eos')` (viaSetter = true) or a setter of the held EOS object (false), then
  `set_new_initial_conditions(ic)` -/
  | setEOSThenIC (viaSetter : Bool) (E' : ℝ → ℝ → ℝ) (ic : ResIC)

/-- the initial conditions a disciplined operation sets -/
def ResDOp.ic : ResDOp → ResIC
  | .setIC ic => ic
  | .setEOSThenIC _ _ ic => ic

/-- a disciplined operation with admissible initial conditions -/
def ResDAdm (o : ResDOp) : Prop := ResAdm o.ic

/-! ### `energy_noh_residual` -/

/-- `energy_noh_residual(ic, eos)` as traced -/
def resEnergyConstruct (c : ResConsts) : ResAttrs :=
  { P_0 := ResBEnergy_init.P_0 { P_0 := c.ic.P_0, eosE := c.eosE, rho_0 := c.ic.rho_0, symmetry := c.ic.symmetry, u_0 := c.ic.u_0 },
    e_0 := ResBEnergy_init.e_0 { P_0 := c.ic.P_0, eosE := c.eosE, rho_0 := c.ic.rho_0, symmetry := c.ic.symmetry, u_0 := c.ic.u_0 },
    rho_0 := ResBEnergy_init.rho_0 { P_0 := c.ic.P_0, eosE := c.eosE, rho_0 := c.ic.rho_0, symmetry := c.ic.symmetry, u_0 := c.ic.u_0 },
    symmetry := ResBEnergy_init.symmetry { P_0 := c.ic.P_0, eosE := c.eosE, rho_0 := c.ic.rho_0, symmetry := c.ic.symmetry, u_0 := c.ic.u_0 },
    u_0 := ResBEnergy_init.u_0 { P_0 := c.ic.P_0, eosE := c.eosE, rho_0 := c.ic.rho_0, symmetry := c.ic.symmetry, u_0 := c.ic.u_0 },
    eosE := if ResBEnergy_init.eos_tag { P_0 := c.ic.P_0, eosE := c.eosE, rho_0 := c.ic.rho_0, symmetry := c.ic.symmetry, u_0 := c.ic.u_0 } = 0 then c.eosE else fun _ _ => 0 }

/-- the operations as traced, on an ARBITRARY attribute dictionary (`eos_tag` = which EOS object is held afterwards) -/
def resEnergyApply : ResOp → ResAttrs → ResAttrs
  | .setIC ic, a =>
    { P_0 := ResBEnergy_set_new_initial_conditions.P_0 { a_P_0 := a.P_0, a_e_0 := a.e_0, a_rho_0 := a.rho_0, a_symmetry := a.symmetry, a_u_0 := a.u_0, eosE := a.eosE, eosEnew := a.eosE, n_P_0 := ic.P_0, n_rho_0 := ic.rho_0, n_symmetry := ic.symmetry, n_u_0 := ic.u_0 },
      e_0 := ResBEnergy_set_new_initial_conditions.e_0 { a_P_0 := a.P_0, a_e_0 := a.e_0, a_rho_0 := a.rho_0, a_symmetry := a.symmetry, a_u_0 := a.u_0, eosE := a.eosE, eosEnew := a.eosE, n_P_0 := ic.P_0, n_rho_0 := ic.rho_0, n_symmetry := ic.symmetry, n_u_0 := ic.u_0 },
      rho_0 := ResBEnergy_set_new_initial_conditions.rho_0 { a_P_0 := a.P_0, a_e_0 := a.e_0, a_rho_0 := a.rho_0, a_symmetry := a.symmetry, a_u_0 := a.u_0, eosE := a.eosE, eosEnew := a.eosE, n_P_0 := ic.P_0, n_rho_0 := ic.rho_0, n_symmetry := ic.symmetry, n_u_0 := ic.u_0 },
      symmetry := ResBEnergy_set_new_initial_conditions.symmetry { a_P_0 := a.P_0, a_e_0 := a.e_0, a_rho_0 := a.rho_0, a_symmetry := a.symmetry, a_u_0 := a.u_0, eosE := a.eosE, eosEnew := a.eosE, n_P_0 := ic.P_0, n_rho_0 := ic.rho_0, n_symmetry := ic.symmetry, n_u_0 := ic.u_0 },
      u_0 := ResBEnergy_set_new_initial_conditions.u_0 { a_P_0 := a.P_0, a_e_0 := a.e_0, a_rho_0 := a.rho_0, a_symmetry := a.symmetry, a_u_0 := a.u_0, eosE := a.eosE, eosEnew := a.eosE, n_P_0 := ic.P_0, n_rho_0 := ic.rho_0, n_symmetry := ic.symmetry, n_u_0 := ic.u_0 },
      eosE := if ResBEnergy_set_new_initial_conditions.eos_tag { a_P_0 := a.P_0, a_e_0 := a.e_0, a_rho_0 := a.rho_0, a_symmetry := a.symmetry, a_u_0 := a.u_0, eosE := a.eosE, eosEnew := a.eosE, n_P_0 := ic.P_0, n_rho_0 := ic.rho_0, n_symmetry := ic.symmetry, n_u_0 := ic.u_0 } = 0 then a.eosE else fun _ _ => 0 }
  | .setEOS E', a =>
    { P_0 := ResBEnergy_set_new_equation_of_state.P_0 { a_P_0 := a.P_0, a_e_0 := a.e_0, a_rho_0 := a.rho_0, a_symmetry := a.symmetry, a_u_0 := a.u_0, eosE := a.eosE, eosEnew := E' },
      e_0 := ResBEnergy_set_new_equation_of_state.e_0 { a_P_0 := a.P_0, a_e_0 := a.e_0, a_rho_0 := a.rho_0, a_symmetry := a.symmetry, a_u_0 := a.u_0, eosE := a.eosE, eosEnew := E' },
      rho_0 := ResBEnergy_set_new_equation_of_state.rho_0 { a_P_0 := a.P_0, a_e_0 := a.e_0, a_rho_0 := a.rho_0, a_symmetry := a.symmetry, a_u_0 := a.u_0, eosE := a.eosE, eosEnew := E' },
      symmetry := ResBEnergy_set_new_equation_of_state.symmetry { a_P_0 := a.P_0, a_e_0 := a.e_0, a_rho_0 := a.rho_0, a_symmetry := a.symmetry, a_u_0 := a.u_0, eosE := a.eosE, eosEnew := E' },
      u_0 := ResBEnergy_set_new_equation_of_state.u_0 { a_P_0 := a.P_0, a_e_0 := a.e_0, a_rho_0 := a.rho_0, a_symmetry := a.symmetry, a_u_0 := a.u_0, eosE := a.eosE, eosEnew := E' },
      eosE := if ResBEnergy_set_new_equation_of_state.eos_tag { a_P_0 := a.P_0, a_e_0 := a.e_0, a_rho_0 := a.rho_0, a_symmetry := a.symmetry, a_u_0 := a.u_0, eosE := a.eosE, eosEnew := E' } = 1 then E' else a.eosE }
  | .mutateEOS E', a => { a with eosE := E' }

def resEnergyMachine : Machine ResConsts ResAttrs ResOp := ⟨resEnergyConstruct, resEnergyApply, resUpdate⟩

/-- constructor and setters see exactly the attributes P_0, e_0, rho_0, symmetry, u_0 (and the EOS object) -/
theorem resEnergy_attrs : ResBEnergy_init.fieldNames = ["P_0", "e_0", "rho_0", "symmetry", "u_0", "eos_tag"] ∧ ResBEnergy_set_new_initial_conditions.fieldNames = ["P_0", "e_0", "rho_0", "symmetry", "u_0", "eos_tag"]
    ∧ ResBEnergy_set_new_equation_of_state.fieldNames = ["P_0", "e_0", "rho_0", "symmetry", "u_0", "eos_tag"] := ⟨rfl, rfl, rfl⟩

/-- the constructor and `set_new_initial_conditions` accept exactly the admissible initial conditions, and raise
ValueError otherwise -/
theorem resEnergy_accepts_iff (c : ResConsts) (a : ResAttrs) (ic : ResIC) :
    (ResBEnergy_init.outcome { P_0 := c.ic.P_0, eosE := c.eosE, rho_0 := c.ic.rho_0, symmetry := c.ic.symmetry, u_0 := c.ic.u_0 } = EPV.Out.ok ↔ ResAdm c.ic)
    ∧ (ResBEnergy_set_new_initial_conditions.outcome { a_P_0 := a.P_0, a_e_0 := a.e_0, a_rho_0 := a.rho_0, a_symmetry := a.symmetry, a_u_0 := a.u_0, eosE := a.eosE, eosEnew := a.eosE, n_P_0 := ic.P_0, n_rho_0 := ic.rho_0, n_symmetry := ic.symmetry, n_u_0 := ic.u_0 } = EPV.Out.ok ↔ ResAdm ic)
    ∧ (ResBEnergy_init.outcome { P_0 := c.ic.P_0, eosE := c.eosE, rho_0 := c.ic.rho_0, symmetry := c.ic.symmetry, u_0 := c.ic.u_0 } = EPV.Out.ok ∨ ResBEnergy_init.outcome { P_0 := c.ic.P_0, eosE := c.eosE, rho_0 := c.ic.rho_0, symmetry := c.ic.symmetry, u_0 := c.ic.u_0 } = EPV.Out.raise "ValueError")
    ∧ (ResBEnergy_set_new_initial_conditions.outcome { a_P_0 := a.P_0, a_e_0 := a.e_0, a_rho_0 := a.rho_0, a_symmetry := a.symmetry, a_u_0 := a.u_0, eosE := a.eosE, eosEnew := a.eosE, n_P_0 := ic.P_0, n_rho_0 := ic.rho_0, n_symmetry := ic.symmetry, n_u_0 := ic.u_0 } = EPV.Out.ok ∨ ResBEnergy_set_new_initial_conditions.outcome { a_P_0 := a.P_0, a_e_0 := a.e_0, a_rho_0 := a.rho_0, a_symmetry := a.symmetry, a_u_0 := a.u_0, eosE := a.eosE, eosEnew := a.eosE, n_P_0 := ic.P_0, n_rho_0 := ic.rho_0, n_symmetry := ic.symmetry, n_u_0 := ic.u_0 } = EPV.Out.raise "ValueError") := by
  refine ⟨?_, ?_, ?_, ?_⟩
  · simp only [epv_tree, epv_cond, ResAdm]
    constructor
    · intro h
      split_ifs at h <;> simp_all <;> grind
    · rintro ⟨hu, hr, hp, hs⟩
      have h0 : ¬ (0 : ℝ) ≤ c.ic.u_0 := not_le.mpr hu
      have h1 : ¬ c.ic.rho_0 ≤ 0 := not_le.mpr hr
      have h2 : ¬ c.ic.P_0 < 0 := not_lt.mpr hp
      rcases hs with h3 | ⟨h4 | h6, h5⟩
      · simp [h0, h1, h2, h3]
      · simp [h0, h1, h2, h4, h5]
      · simp [h0, h1, h2, h6, h5]
  · simp only [epv_tree, epv_cond, ResAdm]
    constructor
    · intro h
      split_ifs at h <;> simp_all <;> grind
    · rintro ⟨hu, hr, hp, hs⟩
      have h0 : ¬ (0 : ℝ) ≤ ic.u_0 := not_le.mpr hu
      have h1 : ¬ ic.rho_0 ≤ 0 := not_le.mpr hr
      have h2 : ¬ ic.P_0 < 0 := not_lt.mpr hp
      rcases hs with h3 | ⟨h4 | h6, h5⟩
      · simp [h0, h1, h2, h3]
      · simp [h0, h1, h2, h4, h5]
      · simp [h0, h1, h2, h6, h5]
  · simp only [epv_tree]
    split_ifs <;> simp
  · simp only [epv_tree]
    split_ifs <;> simp

/-- what the constructor builds from admissible arguments -/
theorem resEnergy_construct_eq (c : ResConsts) (h : ResAdm c.ic) :
    resEnergyConstruct c = (⟨c.ic.P_0, c.eosE c.ic.rho_0 c.ic.P_0, c.ic.rho_0, c.ic.symmetry, c.ic.u_0, c.eosE⟩ : ResAttrs) := by
  obtain ⟨hu, hr, hp, hs⟩ := h
  have h0 : ¬ (0 : ℝ) ≤ c.ic.u_0 := not_le.mpr hu
  have h1 : ¬ c.ic.rho_0 ≤ 0 := not_le.mpr hr
  have h2 : ¬ c.ic.P_0 < 0 := not_lt.mpr hp
  rcases hs with h3 | ⟨h4 | h6, h5⟩
  · simp [resEnergyConstruct, epv_tree, epv_cond, epv_leaf, h0, h1, h2, h3]
  · simp [resEnergyConstruct, epv_tree, epv_cond, epv_leaf, h0, h1, h2, h4, h5]
  · simp [resEnergyConstruct, epv_tree, epv_cond, epv_leaf, h0, h1, h2, h6, h5]

/-- **`set_new_initial_conditions` = reconstruction, from ANY state**: all attributes, the cached e_0 recomputed with
the EOS object currently held -/
theorem resEnergy_setIC_eq_construct (a : ResAttrs) (ic : ResIC) (h : ResAdm ic) :
    resEnergyApply (.setIC ic) a = resEnergyConstruct ⟨ic, a.eosE⟩ := by
  rw [resEnergy_construct_eq ⟨ic, a.eosE⟩ h]
  obtain ⟨hu, hr, hp, hs⟩ := h
  have h0 : ¬ (0 : ℝ) ≤ ic.u_0 := not_le.mpr hu
  have h1 : ¬ ic.rho_0 ≤ 0 := not_le.mpr hr
  have h2 : ¬ ic.P_0 < 0 := not_lt.mpr hp
  rcases hs with h3 | ⟨h4 | h6, h5⟩
  · simp [resEnergyApply, epv_tree, epv_cond, epv_leaf, h0, h1, h2, h3]
  · simp [resEnergyApply, epv_tree, epv_cond, epv_leaf, h0, h1, h2, h4, h5]
  · simp [resEnergyApply, epv_tree, epv_cond, epv_leaf, h0, h1, h2, h6, h5]

/-- `set_new_equation_of_state` replaces the EOS object and NOTHING else: the cached e_0 is kept -/
theorem resEnergy_setEOS_keeps_e0 (a : ResAttrs) (E' : ℝ → ℝ → ℝ) :
    resEnergyApply (.setEOS E') a = { a with eosE := E' } := by
  simp [resEnergyApply, epv_tree, epv_leaf]

/-- so after it the object is the fresh object of the new EOS exactly when the two EOS agree on the initial energy -/
theorem resEnergy_setEOS_eq_construct_iff (c : ResConsts) (h : ResAdm c.ic) (E' : ℝ → ℝ → ℝ) :
    resEnergyApply (.setEOS E') (resEnergyConstruct c) = resEnergyConstruct (resUpdate (.setEOS E') c)
      ↔ c.eosE c.ic.rho_0 c.ic.P_0 = E' c.ic.rho_0 c.ic.P_0 := by
  rw [resEnergy_setEOS_keeps_e0, resEnergy_construct_eq c h, resEnergy_construct_eq (resUpdate (.setEOS E') c) h]
  simp [resUpdate]

/-- the same when the held EOS object is mutated through its own setters -/
theorem resEnergy_mutateEOS_eq_construct_iff (c : ResConsts) (h : ResAdm c.ic) (E' : ℝ → ℝ → ℝ) :
    resEnergyApply (.mutateEOS E') (resEnergyConstruct c) = resEnergyConstruct (resUpdate (.mutateEOS E') c)
      ↔ c.eosE c.ic.rho_0 c.ic.P_0 = E' c.ic.rho_0 c.ic.P_0 := by
  rw [resEnergy_construct_eq c h, resEnergy_construct_eq (resUpdate (.mutateEOS E') c) h]
  simp [resEnergyApply, resUpdate]

/-- **FINDING**: `set_new_equation_of_state` (and a setter of the held EOS) leaves a stale e_0.  Witness: planar,
ρ₀ = 1, u₀ = -1, P₀ = 3/10, `ideal_gas_eos(7/5)` replaced by `ideal_gas_eos(5/3)` (closures = the traced
`ideal_gas_eos.e`): the object keeps e_0 = 3/4, the fresh object has e_0 = 9/20.  Reproduced on the real classes by
`o_c16b.res_seq(False)`. -/
theorem resEnergy_setEOS_stale_finding :
    ∃ (c : ResConsts) (E' : ℝ → ℝ → ℝ), ResAdm c.ic ∧ c.eosE = EosIdeal_e.e { gamma := 7 / 5 } ∧ E' = EosIdeal_e.e { gamma := 5 / 3 }
      ∧ resEnergyApply (.setEOS E') (resEnergyConstruct c) ≠ resEnergyConstruct (resUpdate (.setEOS E') c)
      ∧ resEnergyApply (.mutateEOS E') (resEnergyConstruct c) ≠ resEnergyConstruct (resUpdate (.mutateEOS E') c)
      ∧ (resEnergyApply (.setEOS E') (resEnergyConstruct c)).e_0 = 3 / 4
      ∧ (resEnergyConstruct (resUpdate (.setEOS E') c)).e_0 = 9 / 20 := by
  have hadm : ResAdm ⟨1, -1, 3 / 10, 0⟩ := ⟨by norm_num, by norm_num, by norm_num, Or.inl rfl⟩
  have hne : EosIdeal_e.e { gamma := 7 / 5 } 1 (3 / 10) ≠ EosIdeal_e.e { gamma := 5 / 3 } 1 (3 / 10) := by
    simp only [epv_tree, epv_cond, epv_leaf]
    norm_num
  refine ⟨⟨⟨1, -1, 3 / 10, 0⟩, EosIdeal_e.e { gamma := 7 / 5 }⟩, EosIdeal_e.e { gamma := 5 / 3 }, hadm, rfl, rfl, ?_, ?_, ?_, ?_⟩
  · rw [Ne, resEnergy_setEOS_eq_construct_iff _ hadm]
    exact hne
  · rw [Ne, resEnergy_mutateEOS_eq_construct_iff _ hadm]
    exact hne
  · rw [resEnergy_setEOS_keeps_e0, resEnergy_construct_eq _ hadm]
    simp only [epv_tree, epv_cond, epv_leaf]
    norm_num
  · rw [resEnergy_construct_eq _ hadm]
    simp only [resUpdate, epv_tree, epv_cond, epv_leaf]
    norm_num

/-- hence the machine is NOT sound: the full-strength statement "any reachable object is the fresh object" fails -/
theorem resEnergy_not_sound : ¬ (∀ o c, ResAdm c.ic → (∀ ic, o = ResOp.setIC ic → ResAdm ic) →
    resEnergyMachine.apply o (resEnergyMachine.construct c) = resEnergyMachine.construct (resEnergyMachine.update o c)) := by
  intro hall
  obtain ⟨c, E', hadm, _, _, hne, _⟩ := resEnergy_setEOS_stale_finding
  exact hne (hall (.setEOS E') c hadm (fun ic h => by cases h))

/-- an admissible dictionary is a fresh object exactly when its cached e_0 is consistent with the EOS it holds -/
theorem resEnergy_consistent_iff_fresh (a : ResAttrs) (h : ResAdm a.ic) :
    ResConsistent a ↔ a = resEnergyConstruct ⟨a.ic, a.eosE⟩ := by
  rw [resEnergy_construct_eq ⟨a.ic, a.eosE⟩ h]
  obtain ⟨P_0, e_0, rho_0, symmetry, u_0, eosE⟩ := a
  simp [ResConsistent, ResAttrs.ic]

/-- the disciplined machine over admissible initial conditions (a rejected call raises and is not part of a sequence) -/
def resEnergyDisciplined : Machine { c : ResConsts // ResAdm c.ic } ResAttrs { o : ResDOp // ResDAdm o } where
  construct := fun c => resEnergyConstruct c.1
  apply := fun o a => match o.1 with
    | .setIC ic => resEnergyApply (.setIC ic) a
    | .setEOSThenIC true E' ic => resEnergyApply (.setIC ic) (resEnergyApply (.setEOS E') a)
    | .setEOSThenIC false E' ic => resEnergyApply (.setIC ic) (resEnergyApply (.mutateEOS E') a)
  update := fun o c => match o with
    | ⟨.setIC ic, h⟩ => ⟨⟨ic, c.1.eosE⟩, h⟩
    | ⟨.setEOSThenIC _ E' ic, h⟩ => ⟨⟨ic, E'⟩, h⟩

/-- every disciplined operation rebuilds the object — from ANY dictionary, stale or not -/
theorem resEnergy_disciplined_apply (o : { o : ResDOp // ResDAdm o }) (a : ResAttrs) :
    resEnergyDisciplined.apply o a = resEnergyConstruct ⟨ResDOp.ic o.1, match o.1 with | .setIC _ => a.eosE | .setEOSThenIC _ E' _ => E'⟩ := by
  obtain ⟨o, ho⟩ := o
  cases o with
  | setIC ic => exact resEnergy_setIC_eq_construct a ic ho
  | setEOSThenIC via E' ic =>
    cases via
    · show resEnergyApply (.setIC ic) (resEnergyApply (.mutateEOS E') a) = _
      rw [resEnergy_setIC_eq_construct _ ic ho]
      rfl
    · show resEnergyApply (.setIC ic) (resEnergyApply (.setEOS E') a) = _
      rw [resEnergy_setIC_eq_construct _ ic ho, resEnergy_setEOS_keeps_e0]
      rfl

/-- **with the discipline of `solve_jump_conditions`, any reachable residual object equals the fresh object with the
final initial conditions and EOS** (induction over the sequence).
Partial: the property asks this of EVERY sequence of documented operations; without `set_new_initial_conditions` after a
change of the EOS it is false (`*_setEOS_stale_finding`, `*_not_sound`). -/
theorem resEnergy_disciplined_reachable_eq_fresh_partial (ops : List { o : ResDOp // ResDAdm o }) (c : { c : ResConsts // ResAdm c.ic }) :
    resEnergyDisciplined.run ops (resEnergyConstruct c.1) = resEnergyConstruct (resEnergyDisciplined.final ops c).1 := by
  apply reachable_eq_fresh resEnergyDisciplined
  intro o c
  rw [resEnergy_disciplined_apply]
  obtain ⟨o, ho⟩ := o
  obtain ⟨c, hc⟩ := c
  have hE : (resEnergyConstruct c).eosE = c.eosE := by rw [resEnergy_construct_eq c hc]
  cases o with
  | setIC ic =>
    show resEnergyConstruct ⟨ic, (resEnergyConstruct c).eosE⟩ = resEnergyConstruct ⟨ic, c.eosE⟩
    rw [hE]
  | setEOSThenIC via E' ic => rfl

/-! ### `pressure_noh_residual` -/

/-- `pressure_noh_residual(ic, eos)` as traced -/
def resPressureConstruct (c : ResConsts) : ResAttrs :=
  { P_0 := ResBPressure_init.P_0 { P_0 := c.ic.P_0, eosE := c.eosE, rho_0 := c.ic.rho_0, symmetry := c.ic.symmetry, u_0 := c.ic.u_0 },
    e_0 := ResBPressure_init.e_0 { P_0 := c.ic.P_0, eosE := c.eosE, rho_0 := c.ic.rho_0, symmetry := c.ic.symmetry, u_0 := c.ic.u_0 },
    rho_0 := ResBPressure_init.rho_0 { P_0 := c.ic.P_0, eosE := c.eosE, rho_0 := c.ic.rho_0, symmetry := c.ic.symmetry, u_0 := c.ic.u_0 },
    symmetry := ResBPressure_init.symmetry { P_0 := c.ic.P_0, eosE := c.eosE, rho_0 := c.ic.rho_0, symmetry := c.ic.symmetry, u_0 := c.ic.u_0 },
    u_0 := ResBPressure_init.u_0 { P_0 := c.ic.P_0, eosE := c.eosE, rho_0 := c.ic.rho_0, symmetry := c.ic.symmetry, u_0 := c.ic.u_0 },
    eosE := if ResBPressure_init.eos_tag { P_0 := c.ic.P_0, eosE := c.eosE, rho_0 := c.ic.rho_0, symmetry := c.ic.symmetry, u_0 := c.ic.u_0 } = 0 then c.eosE else fun _ _ => 0 }

/-- the operations as traced, on an ARBITRARY attribute dictionary (`eos_tag` = which EOS object is held afterwards) -/
def resPressureApply : ResOp → ResAttrs → ResAttrs
  | .setIC ic, a =>
    { P_0 := ResBPressure_set_new_initial_conditions.P_0 { a_P_0 := a.P_0, a_e_0 := a.e_0, a_rho_0 := a.rho_0, a_symmetry := a.symmetry, a_u_0 := a.u_0, eosE := a.eosE, eosEnew := a.eosE, n_P_0 := ic.P_0, n_rho_0 := ic.rho_0, n_symmetry := ic.symmetry, n_u_0 := ic.u_0 },
      e_0 := ResBPressure_set_new_initial_conditions.e_0 { a_P_0 := a.P_0, a_e_0 := a.e_0, a_rho_0 := a.rho_0, a_symmetry := a.symmetry, a_u_0 := a.u_0, eosE := a.eosE, eosEnew := a.eosE, n_P_0 := ic.P_0, n_rho_0 := ic.rho_0, n_symmetry := ic.symmetry, n_u_0 := ic.u_0 },
      rho_0 := ResBPressure_set_new_initial_conditions.rho_0 { a_P_0 := a.P_0, a_e_0 := a.e_0, a_rho_0 := a.rho_0, a_symmetry := a.symmetry, a_u_0 := a.u_0, eosE := a.eosE, eosEnew := a.eosE, n_P_0 := ic.P_0, n_rho_0 := ic.rho_0, n_symmetry := ic.symmetry, n_u_0 := ic.u_0 },
      symmetry := ResBPressure_set_new_initial_conditions.symmetry { a_P_0 := a.P_0, a_e_0 := a.e_0, a_rho_0 := a.rho_0, a_symmetry := a.symmetry, a_u_0 := a.u_0, eosE := a.eosE, eosEnew := a.eosE, n_P_0 := ic.P_0, n_rho_0 := ic.rho_0, n_symmetry := ic.symmetry, n_u_0 := ic.u_0 },
      u_0 := ResBPressure_set_new_initial_conditions.u_0 { a_P_0 := a.P_0, a_e_0 := a.e_0, a_rho_0 := a.rho_0, a_symmetry := a.symmetry, a_u_0 := a.u_0, eosE := a.eosE, eosEnew := a.eosE, n_P_0 := ic.P_0, n_rho_0 := ic.rho_0, n_symmetry := ic.symmetry, n_u_0 := ic.u_0 },
      eosE := if ResBPressure_set_new_initial_conditions.eos_tag { a_P_0 := a.P_0, a_e_0 := a.e_0, a_rho_0 := a.rho_0, a_symmetry := a.symmetry, a_u_0 := a.u_0, eosE := a.eosE, eosEnew := a.eosE, n_P_0 := ic.P_0, n_rho_0 := ic.rho_0, n_symmetry := ic.symmetry, n_u_0 := ic.u_0 } = 0 then a.eosE else fun _ _ => 0 }
  | .setEOS E', a =>
    { P_0 := ResBPressure_set_new_equation_of_state.P_0 { a_P_0 := a.P_0, a_e_0 := a.e_0, a_rho_0 := a.rho_0, a_symmetry := a.symmetry, a_u_0 := a.u_0, eosE := a.eosE, eosEnew := E' },
      e_0 := ResBPressure_set_new_equation_of_state.e_0 { a_P_0 := a.P_0, a_e_0 := a.e_0, a_rho_0 := a.rho_0, a_symmetry := a.symmetry, a_u_0 := a.u_0, eosE := a.eosE, eosEnew := E' },
      rho_0 := ResBPressure_set_new_equation_of_state.rho_0 { a_P_0 := a.P_0, a_e_0 := a.e_0, a_rho_0 := a.rho_0, a_symmetry := a.symmetry, a_u_0 := a.u_0, eosE := a.eosE, eosEnew := E' },
      symmetry := ResBPressure_set_new_equation_of_state.symmetry { a_P_0 := a.P_0, a_e_0 := a.e_0, a_rho_0 := a.rho_0, a_symmetry := a.symmetry, a_u_0 := a.u_0, eosE := a.eosE, eosEnew := E' },
      u_0 := ResBPressure_set_new_equation_of_state.u_0 { a_P_0 := a.P_0, a_e_0 := a.e_0, a_rho_0 := a.rho_0, a_symmetry := a.symmetry, a_u_0 := a.u_0, eosE := a.eosE, eosEnew := E' },
      eosE := if ResBPressure_set_new_equation_of_state.eos_tag { a_P_0 := a.P_0, a_e_0 := a.e_0, a_rho_0 := a.rho_0, a_symmetry := a.symmetry, a_u_0 := a.u_0, eosE := a.eosE, eosEnew := E' } = 1 then E' else a.eosE }
  | .mutateEOS E', a => { a with eosE := E' }

def resPressureMachine : Machine ResConsts ResAttrs ResOp := ⟨resPressureConstruct, resPressureApply, resUpdate⟩

/-- constructor and setters see exactly the attributes P_0, e_0, rho_0, symmetry, u_0 (and the EOS object) -/
theorem resPressure_attrs : ResBPressure_init.fieldNames = ["P_0", "e_0", "rho_0", "symmetry", "u_0", "eos_tag"] ∧ ResBPressure_set_new_initial_conditions.fieldNames = ["P_0", "e_0", "rho_0", "symmetry", "u_0", "eos_tag"]
    ∧ ResBPressure_set_new_equation_of_state.fieldNames = ["P_0", "e_0", "rho_0", "symmetry", "u_0", "eos_tag"] := ⟨rfl, rfl, rfl⟩

/-- the constructor and `set_new_initial_conditions` accept exactly the admissible initial conditions, and raise
ValueError otherwise -/
theorem resPressure_accepts_iff (c : ResConsts) (a : ResAttrs) (ic : ResIC) :
    (ResBPressure_init.outcome { P_0 := c.ic.P_0, eosE := c.eosE, rho_0 := c.ic.rho_0, symmetry := c.ic.symmetry, u_0 := c.ic.u_0 } = EPV.Out.ok ↔ ResAdm c.ic)
    ∧ (ResBPressure_set_new_initial_conditions.outcome { a_P_0 := a.P_0, a_e_0 := a.e_0, a_rho_0 := a.rho_0, a_symmetry := a.symmetry, a_u_0 := a.u_0, eosE := a.eosE, eosEnew := a.eosE, n_P_0 := ic.P_0, n_rho_0 := ic.rho_0, n_symmetry := ic.symmetry, n_u_0 := ic.u_0 } = EPV.Out.ok ↔ ResAdm ic)
    ∧ (ResBPressure_init.outcome { P_0 := c.ic.P_0, eosE := c.eosE, rho_0 := c.ic.rho_0, symmetry := c.ic.symmetry, u_0 := c.ic.u_0 } = EPV.Out.ok ∨ ResBPressure_init.outcome { P_0 := c.ic.P_0, eosE := c.eosE, rho_0 := c.ic.rho_0, symmetry := c.ic.symmetry, u_0 := c.ic.u_0 } = EPV.Out.raise "ValueError")
    ∧ (ResBPressure_set_new_initial_conditions.outcome { a_P_0 := a.P_0, a_e_0 := a.e_0, a_rho_0 := a.rho_0, a_symmetry := a.symmetry, a_u_0 := a.u_0, eosE := a.eosE, eosEnew := a.eosE, n_P_0 := ic.P_0, n_rho_0 := ic.rho_0, n_symmetry := ic.symmetry, n_u_0 := ic.u_0 } = EPV.Out.ok ∨ ResBPressure_set_new_initial_conditions.outcome { a_P_0 := a.P_0, a_e_0 := a.e_0, a_rho_0 := a.rho_0, a_symmetry := a.symmetry, a_u_0 := a.u_0, eosE := a.eosE, eosEnew := a.eosE, n_P_0 := ic.P_0, n_rho_0 := ic.rho_0, n_symmetry := ic.symmetry, n_u_0 := ic.u_0 } = EPV.Out.raise "ValueError") := by
  refine ⟨?_, ?_, ?_, ?_⟩
  · simp only [epv_tree, epv_cond, ResAdm]
    constructor
    · intro h
      split_ifs at h <;> simp_all <;> grind
    · rintro ⟨hu, hr, hp, hs⟩
      have h0 : ¬ (0 : ℝ) ≤ c.ic.u_0 := not_le.mpr hu
      have h1 : ¬ c.ic.rho_0 ≤ 0 := not_le.mpr hr
      have h2 : ¬ c.ic.P_0 < 0 := not_lt.mpr hp
      rcases hs with h3 | ⟨h4 | h6, h5⟩
      · simp [h0, h1, h2, h3]
      · simp [h0, h1, h2, h4, h5]
      · simp [h0, h1, h2, h6, h5]
  · simp only [epv_tree, epv_cond, ResAdm]
    constructor
    · intro h
      split_ifs at h <;> simp_all <;> grind
    · rintro ⟨hu, hr, hp, hs⟩
      have h0 : ¬ (0 : ℝ) ≤ ic.u_0 := not_le.mpr hu
      have h1 : ¬ ic.rho_0 ≤ 0 := not_le.mpr hr
      have h2 : ¬ ic.P_0 < 0 := not_lt.mpr hp
      rcases hs with h3 | ⟨h4 | h6, h5⟩
      · simp [h0, h1, h2, h3]
      · simp [h0, h1, h2, h4, h5]
      · simp [h0, h1, h2, h6, h5]
  · simp only [epv_tree]
    split_ifs <;> simp
  · simp only [epv_tree]
    split_ifs <;> simp

/-- what the constructor builds from admissible arguments -/
theorem resPressure_construct_eq (c : ResConsts) (h : ResAdm c.ic) :
    resPressureConstruct c = (⟨c.ic.P_0, c.eosE c.ic.rho_0 c.ic.P_0, c.ic.rho_0, c.ic.symmetry, c.ic.u_0, c.eosE⟩ : ResAttrs) := by
  obtain ⟨hu, hr, hp, hs⟩ := h
  have h0 : ¬ (0 : ℝ) ≤ c.ic.u_0 := not_le.mpr hu
  have h1 : ¬ c.ic.rho_0 ≤ 0 := not_le.mpr hr
  have h2 : ¬ c.ic.P_0 < 0 := not_lt.mpr hp
  rcases hs with h3 | ⟨h4 | h6, h5⟩
  · simp [resPressureConstruct, epv_tree, epv_cond, epv_leaf, h0, h1, h2, h3]
  · simp [resPressureConstruct, epv_tree, epv_cond, epv_leaf, h0, h1, h2, h4, h5]
  · simp [resPressureConstruct, epv_tree, epv_cond, epv_leaf, h0, h1, h2, h6, h5]

/-- **`set_new_initial_conditions` = reconstruction, from ANY state**: all attributes, the cached e_0 recomputed with
the EOS object currently held -/
theorem resPressure_setIC_eq_construct (a : ResAttrs) (ic : ResIC) (h : ResAdm ic) :
    resPressureApply (.setIC ic) a = resPressureConstruct ⟨ic, a.eosE⟩ := by
  rw [resPressure_construct_eq ⟨ic, a.eosE⟩ h]
  obtain ⟨hu, hr, hp, hs⟩ := h
  have h0 : ¬ (0 : ℝ) ≤ ic.u_0 := not_le.mpr hu
  have h1 : ¬ ic.rho_0 ≤ 0 := not_le.mpr hr
  have h2 : ¬ ic.P_0 < 0 := not_lt.mpr hp
  rcases hs with h3 | ⟨h4 | h6, h5⟩
  · simp [resPressureApply, epv_tree, epv_cond, epv_leaf, h0, h1, h2, h3]
  · simp [resPressureApply, epv_tree, epv_cond, epv_leaf, h0, h1, h2, h4, h5]
  · simp [resPressureApply, epv_tree, epv_cond, epv_leaf, h0, h1, h2, h6, h5]

/-- `set_new_equation_of_state` replaces the EOS object and NOTHING else: the cached e_0 is kept -/
theorem resPressure_setEOS_keeps_e0 (a : ResAttrs) (E' : ℝ → ℝ → ℝ) :
    resPressureApply (.setEOS E') a = { a with eosE := E' } := by
  simp [resPressureApply, epv_tree, epv_leaf]

/-- so after it the object is the fresh object of the new EOS exactly when the two EOS agree on the initial energy -/
theorem resPressure_setEOS_eq_construct_iff (c : ResConsts) (h : ResAdm c.ic) (E' : ℝ → ℝ → ℝ) :
    resPressureApply (.setEOS E') (resPressureConstruct c) = resPressureConstruct (resUpdate (.setEOS E') c)
      ↔ c.eosE c.ic.rho_0 c.ic.P_0 = E' c.ic.rho_0 c.ic.P_0 := by
  rw [resPressure_setEOS_keeps_e0, resPressure_construct_eq c h, resPressure_construct_eq (resUpdate (.setEOS E') c) h]
  simp [resUpdate]

/-- the same when the held EOS object is mutated through its own setters -/
theorem resPressure_mutateEOS_eq_construct_iff (c : ResConsts) (h : ResAdm c.ic) (E' : ℝ → ℝ → ℝ) :
    resPressureApply (.mutateEOS E') (resPressureConstruct c) = resPressureConstruct (resUpdate (.mutateEOS E') c)
      ↔ c.eosE c.ic.rho_0 c.ic.P_0 = E' c.ic.rho_0 c.ic.P_0 := by
  rw [resPressure_construct_eq c h, resPressure_construct_eq (resUpdate (.mutateEOS E') c) h]
  simp [resPressureApply, resUpdate]

/-- **FINDING**: `set_new_equation_of_state` (and a setter of the held EOS) leaves a stale e_0.  Witness: planar,
ρ₀ = 1, u₀ = -1, P₀ = 3/10, `ideal_gas_eos(7/5)` replaced by `ideal_gas_eos(5/3)` (closures = the traced
`ideal_gas_eos.e`): the object keeps e_0 = 3/4, the fresh object has e_0 = 9/20.  Reproduced on the real classes by
`o_c16b.res_seq(False)`. -/
theorem resPressure_setEOS_stale_finding :
    ∃ (c : ResConsts) (E' : ℝ → ℝ → ℝ), ResAdm c.ic ∧ c.eosE = EosIdeal_e.e { gamma := 7 / 5 } ∧ E' = EosIdeal_e.e { gamma := 5 / 3 }
      ∧ resPressureApply (.setEOS E') (resPressureConstruct c) ≠ resPressureConstruct (resUpdate (.setEOS E') c)
      ∧ resPressureApply (.mutateEOS E') (resPressureConstruct c) ≠ resPressureConstruct (resUpdate (.mutateEOS E') c)
      ∧ (resPressureApply (.setEOS E') (resPressureConstruct c)).e_0 = 3 / 4
      ∧ (resPressureConstruct (resUpdate (.setEOS E') c)).e_0 = 9 / 20 := by
  have hadm : ResAdm ⟨1, -1, 3 / 10, 0⟩ := ⟨by norm_num, by norm_num, by norm_num, Or.inl rfl⟩
  have hne : EosIdeal_e.e { gamma := 7 / 5 } 1 (3 / 10) ≠ EosIdeal_e.e { gamma := 5 / 3 } 1 (3 / 10) := by
    simp only [epv_tree, epv_cond, epv_leaf]
    norm_num
  refine ⟨⟨⟨1, -1, 3 / 10, 0⟩, EosIdeal_e.e { gamma := 7 / 5 }⟩, EosIdeal_e.e { gamma := 5 / 3 }, hadm, rfl, rfl, ?_, ?_, ?_, ?_⟩
  · rw [Ne, resPressure_setEOS_eq_construct_iff _ hadm]
    exact hne
  · rw [Ne, resPressure_mutateEOS_eq_construct_iff _ hadm]
    exact hne
  · rw [resPressure_setEOS_keeps_e0, resPressure_construct_eq _ hadm]
    simp only [epv_tree, epv_cond, epv_leaf]
    norm_num
  · rw [resPressure_construct_eq _ hadm]
    simp only [resUpdate, epv_tree, epv_cond, epv_leaf]
    norm_num

/-- hence the machine is NOT sound: the full-strength statement "any reachable object is the fresh object" fails -/
theorem resPressure_not_sound : ¬ (∀ o c, ResAdm c.ic → (∀ ic, o = ResOp.setIC ic → ResAdm ic) →
    resPressureMachine.apply o (resPressureMachine.construct c) = resPressureMachine.construct (resPressureMachine.update o c)) := by
  intro hall
  obtain ⟨c, E', hadm, _, _, hne, _⟩ := resPressure_setEOS_stale_finding
  exact hne (hall (.setEOS E') c hadm (fun ic h => by cases h))

/-- an admissible dictionary is a fresh object exactly when its cached e_0 is consistent with the EOS it holds -/
theorem resPressure_consistent_iff_fresh (a : ResAttrs) (h : ResAdm a.ic) :
    ResConsistent a ↔ a = resPressureConstruct ⟨a.ic, a.eosE⟩ := by
  rw [resPressure_construct_eq ⟨a.ic, a.eosE⟩ h]
  obtain ⟨P_0, e_0, rho_0, symmetry, u_0, eosE⟩ := a
  simp [ResConsistent, ResAttrs.ic]

/-- the disciplined machine over admissible initial conditions (a rejected call raises and is not part of a sequence) -/
def resPressureDisciplined : Machine { c : ResConsts // ResAdm c.ic } ResAttrs { o : ResDOp // ResDAdm o } where
  construct := fun c => resPressureConstruct c.1
  apply := fun o a => match o.1 with
    | .setIC ic => resPressureApply (.setIC ic) a
    | .setEOSThenIC true E' ic => resPressureApply (.setIC ic) (resPressureApply (.setEOS E') a)
    | .setEOSThenIC false E' ic => resPressureApply (.setIC ic) (resPressureApply (.mutateEOS E') a)
  update := fun o c => match o with
    | ⟨.setIC ic, h⟩ => ⟨⟨ic, c.1.eosE⟩, h⟩
    | ⟨.setEOSThenIC _ E' ic, h⟩ => ⟨⟨ic, E'⟩, h⟩

/-- every disciplined operation rebuilds the object — from ANY dictionary, stale or not -/
theorem resPressure_disciplined_apply (o : { o : ResDOp // ResDAdm o }) (a : ResAttrs) :
    resPressureDisciplined.apply o a = resPressureConstruct ⟨ResDOp.ic o.1, match o.1 with | .setIC _ => a.eosE | .setEOSThenIC _ E' _ => E'⟩ := by
  obtain ⟨o, ho⟩ := o
  cases o with
  | setIC ic => exact resPressure_setIC_eq_construct a ic ho
  | setEOSThenIC via E' ic =>
    cases via
    · show resPressureApply (.setIC ic) (resPressureApply (.mutateEOS E') a) = _
      rw [resPressure_setIC_eq_construct _ ic ho]
      rfl
    · show resPressureApply (.setIC ic) (resPressureApply (.setEOS E') a) = _
      rw [resPressure_setIC_eq_construct _ ic ho, resPressure_setEOS_keeps_e0]
      rfl

/-- **with the discipline of `solve_jump_conditions`, any reachable residual object equals the fresh object with the
final initial conditions and EOS** (induction over the sequence).
Partial: the property asks this of EVERY sequence of documented operations; without `set_new_initial_conditions` after a
change of the EOS it is false (`*_setEOS_stale_finding`, `*_not_sound`). -/
theorem resPressure_disciplined_reachable_eq_fresh_partial (ops : List { o : ResDOp // ResDAdm o }) (c : { c : ResConsts // ResAdm c.ic }) :
    resPressureDisciplined.run ops (resPressureConstruct c.1) = resPressureConstruct (resPressureDisciplined.final ops c).1 := by
  apply reachable_eq_fresh resPressureDisciplined
  intro o c
  rw [resPressure_disciplined_apply]
  obtain ⟨o, ho⟩ := o
  obtain ⟨c, hc⟩ := c
  have hE : (resPressureConstruct c).eosE = c.eosE := by rw [resPressure_construct_eq c hc]
  cases o with
  | setIC ic =>
    show resPressureConstruct ⟨ic, (resPressureConstruct c).eosE⟩ = resPressureConstruct ⟨ic, c.eosE⟩
    rw [hE]
  | setEOSThenIC via E' ic => rfl

/-- non-vacuity: the solver's default initial conditions {'density': 1, 'velocity': -1, 'pressure': 0, 'symmetry': 2}
are admissible -/
example : ResAdm ⟨1, -1, 0, 2⟩ := ⟨by norm_num, by norm_num, le_refl _, Or.inr ⟨Or.inr rfl, rfl⟩⟩

end

end EPV.C16
