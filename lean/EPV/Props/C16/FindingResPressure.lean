/-
C16 — FINDING: `pressure_noh_residual.F_prime` entry DF[2,0] has the wrong sign when P₀ ≠ 0.

    F[2]    = e - e₀ - u₀²/2 + (u₀/ρ)(P₀/D)          ∂F[2]/∂ρ = -(u₀ P₀)/(ρ² D)
    DF[2,0] = +(u₀ P₀)/(ρ² D)                          (energy_noh_residual has the correct sign)

Witness (planar, the only symmetry in which the class accepts P₀ ≠ 0): ρ₀ = 1, u₀ = -1, P₀ = 3/10,
state (ρ, e, D) = (2, 3/2, 7/10):  ∂F[2]/∂ρ = +3/28 ≈ 0.1071,  DF[2,0] = -3/28.  Holds for EVERY equation
of state (the entry does not involve it).
-/
import EPV.Lemmas.C16ResDefs
import EPV.Lemmas.Bridge.EosTac

set_option linter.all false

open EPV EPV.Gen EPV.Spec

namespace EPV.C16

/-- the true ∂F[2]/∂ρ of the traced residual (generated certificate) -/
theorem pressureS0_F2_hasDerivAt_rho (s : EOS) (ic : NohIC) (ρ x D : ℝ) (hic : ic.Admissible 0) (hρ : ρ ≠ 0) (hD : D ≠ 0) :
    HasDerivAt (fun r => PressureS0.F s ic r x D 2)
      (ResPressureAbsS0_res.L4.F2_drho (PressureS0.pres s ic ρ x) ρ x D) ρ := by
  obtain ⟨hu, hr0, hP0, hm⟩ := hic
  set p := PressureS0.pres s ic ρ x with hp
  have hc : HasDerivAt (fun r => ResPressureAbsS0_res.L4.F2 p r x D) (ResPressureAbsS0_res.L4.F2_drho p ρ x D) ρ := by
    epv_eos_cert ResPressureAbsS0_res.L4.F2_hasDerivAt_rho p ρ x D
  have hev : (fun r => PressureS0.F s ic r x D 2) =ᶠ[nhds ρ] fun r => ResPressureAbsS0_res.L4.F2 p r x D := by
    filter_upwards [isOpen_ne.mem_nhds hρ] with r hr
    simp only [PressureS0.F, hp] <;> epv_eos_res_eq
  exact hc.congr_of_eventuallyEq hev

/-- the initial state of the witness is admissible for the planar residual -/
theorem pressure_DF20_witness_admissible : (⟨1, -1, 3 / 10⟩ : NohIC).Admissible 0 := by
  refine ⟨?_, ?_, ?_, ?_⟩ <;> norm_num

/-- `DF[2,0]` is not ∂F[2]/∂ρ — for every equation of state -/
theorem pressure_DF20_finding (s : EOS) :
    ¬ HasDerivAt (fun r => PressureS0.F s ⟨1, -1, 3 / 10⟩ r (3 / 2) (7 / 10) 2)
        (PressureS0.J s ⟨1, -1, 3 / 10⟩ 2 (3 / 2) (7 / 10) 2 0) 2 := by
  intro h
  have hc := pressureS0_F2_hasDerivAt_rho s ⟨1, -1, 3 / 10⟩ 2 (3 / 2) (7 / 10) pressure_DF20_witness_admissible
    (by norm_num) (by norm_num)
  have := h.unique hc
  simp only [PressureS0.J, epv_c16, epv_tree, epv_cond, epv_leaf, epv_deriv, Matrix.of_apply, Matrix.cons_val] at this
  norm_num at this

end EPV.C16
