/-
C16 — FINDING: `newton_solver.solve` reports NaN states as converged solutions.

The loop condition is `while residual > tolerance or error > tolerance`.  It is left as soon as NEITHER comparison is
true — which is the case for every value that is not comparable with the tolerance, in IEEE arithmetic: NaN.  When an
update produces a non-finite iterate (a step through D = 0 or ρ = 0), `residual = norm(x_new - x_old)` and
`error = norm(F(x_new))` are NaN, the loop ends, and `solve` returns `{'solution': [nan, nan, nan], …}` without any
exception.  The hand model has the same loop, and the statement is proved for it for ANY comparison `gt`:

  `loop_accepts_incomparable`: if the update from x yields (y, r, e) with `gt r tol = false` and `gt e tol = false`,
  the loop returns `converged y` — whatever r and e are.

Reproduced on the real code from starting guesses within ±30 % of the physical solution (oracle
`o_c16.newton_reasonable('nan')`, e.g. ideal gas γ = 1.4, spherical, ρ₀ = 1.978, u₀ = -1.2531, tolerance 1e-10, guess
= physical state × (0.7397, 0.7110, 1.0676): `solve()` returns [nan, nan, nan]).  Over the reals no such value exists:
there `newton_converged` applies.
-/
import EPV.Model.Newton
import Mathlib.Tactic

set_option linter.all false

open EPV.Model.Newton

namespace EPV.C16

/-- one update whose residual and error are not greater than the tolerance ends the loop with `converged` —
for any notion of "greater", in particular one for which an incomparable value (NaN) exists -/
theorem loop_accepts_incomparable {X α : Type} (gt : α → α → Bool) (step : X → Except String (X × α × α)) (tol : α)
    (fuel : Nat) (x y : X) (res err r e : α) (it : Nat)
    (henter : (gt res tol || gt err tol) = true) (hstep : step x = .ok (y, r, e))
    (hr : gt r tol = false) (he : gt e tol = false) :
    loop gt step tol (fuel + 1) x res err it = .converged y (it + 1) r e := by
  have hexit : (gt r tol || gt e tol) = false := by rw [hr, he]; rfl
  cases fuel with
  | zero =>
    simp only [loop, henter, hstep, hexit, if_true]
    simp
  | succ k =>
    simp only [loop, henter, hstep, hexit, if_true]
    simp

/-- such a comparison exists: a three-valued order with an element comparable to nothing (the shape of the IEEE
comparison with NaN) — the acceptance is not vacuous -/
theorem incomparable_exists :
    ∃ (gt : Option ℚ → Option ℚ → Bool) (nan : Option ℚ),
      (∀ a b : ℚ, gt (some a) (some b) = decide (a > b)) ∧ (∀ t, gt nan t = false) ∧ (∀ t, gt t nan = false) := by
  refine ⟨fun a b => match a, b with | some x, some y => decide (x > y) | _, _ => false, none, ?_, ?_, ?_⟩
  · intro a b; rfl
  · intro t; rfl
  · intro t; cases t <;> rfl

end EPV.C16
