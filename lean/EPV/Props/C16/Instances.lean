/-
C16 — the abstract residual theorems instantiated with the library's EOS objects, and the link between the two
ways the residual classes were traced:

  * `pressure_ideal_accepts_iff`: `pressure_noh_residual(ic, ideal_gas_eos(γ)).F(x)` (traced through the real
    constructors, symmetry symbolic) returns numbers EXACTLY on the domain the theorems assume:
    γ ≠ 1, `NohIC.Admissible m` for m ∈ {0, 1, 2}, ρ ≠ 0;
  * `pressure_ideal_concrete_eq_abstract_*`: on that domain the concrete trace equals the abstract-EOS trace
    instantiated with the traced ideal-gas methods (so the EOS stub used for the abstract trace is faithful);
  * `*_jacobian_<eos>`: "F_prime is the Jacobian of F" for the solver's default residual (pressure, spherical)
    with every EOS class whose `dP_drho`, `dP_de` are proved correct, and for the energy residual with the ideal gas.
-/
import EPV.Gen.ResPressureIdeal_res
import EPV.Props.C16.Ideal
import EPV.Props.C16.Stiff
import EPV.Props.C16.NobleAbel
import EPV.Props.C16.CarnahanStarling
import EPV.Props.C16.Steinberg
import EPV.Props.C16.ResEnergy
import EPV.Props.C16.ResPressure
import EPV.Lemmas.Bridge.EosTac

set_option linter.all false

open EPV EPV.Gen EPV.Spec

namespace EPV.C16

/-- the concrete trace returns numbers exactly on the admissible domain -/
theorem pressure_ideal_accepts_iff (p : ResPressureIdeal_res.P) (ρ e D : ℝ) :
    ResPressureIdeal_res.outcome p ρ e D = .ok ↔
      p.gamma ≠ 1 ∧ ρ ≠ 0 ∧
      ((p.symmetry = 0 ∧ (⟨p.rho_0, p.u_0, p.P_0⟩ : NohIC).Admissible 0)
        ∨ (p.symmetry = 1 ∧ (⟨p.rho_0, p.u_0, p.P_0⟩ : NohIC).Admissible 1)
        ∨ (p.symmetry = 2 ∧ (⟨p.rho_0, p.u_0, p.P_0⟩ : NohIC).Admissible 2)) := by
  simp only [NohIC.Admissible]
  constructor
  · intro h
    simp only [epv_tree] at h
    split_ifs at h <;> first
      | epv_absurd
      | (simp only [epv_cond] at *
         refine ⟨by epv_eos_fact, by epv_eos_fact, ?_⟩
         first
           | (left; exact ⟨by epv_eos_fact, by epv_eos_fact, by epv_eos_fact, by epv_eos_fact, fun h => absurd rfl h⟩)
           | (right; left; exact ⟨by epv_eos_fact, by epv_eos_fact, by epv_eos_fact, by epv_eos_fact, fun _ => by epv_eos_fact⟩)
           | (right; right; exact ⟨by epv_eos_fact, by epv_eos_fact, by epv_eos_fact, by epv_eos_fact, fun _ => by epv_eos_fact⟩))
  · rintro ⟨hγ, hρ, h⟩
    rcases h with ⟨hm, hu, hr, hP, hz⟩ | ⟨hm, hu, hr, hP, hz⟩ | ⟨hm, hu, hr, hP, hz⟩
    · simp only [epv_tree] <;> epv_eos_ifs
    · have k7 : p.P_0 = 0 := hz (by norm_num)
      simp only [epv_tree] <;> epv_eos_ifs
    · have k7 : p.P_0 = 0 := hz (by norm_num)
      simp only [epv_tree] <;> epv_eos_ifs

/-- spherical: the concrete trace is the abstract trace with the ideal-gas methods plugged in -/
theorem pressure_ideal_concrete_eq_abstract_spherical (γ : ℝ) (ic : NohIC) (ρ e D : ℝ) (hγ : γ ≠ 1)
    (hic : ic.Admissible 2) (hρ : ρ ≠ 0) :
    let p : ResPressureIdeal_res.P := { gamma := γ, P_0 := ic.P_0, rho_0 := ic.rho_0, u_0 := ic.u_0, symmetry := 2 }
    ![ResPressureIdeal_res.F0 p ρ e D, ResPressureIdeal_res.F1 p ρ e D, ResPressureIdeal_res.F2 p ρ e D]
      = PressureS2.F (idealEOS γ) ic ρ e D := by
  intro p
  obtain ⟨hu, hr, hP, hz⟩ := hic
  have k5 : ic.rho_0 ≠ 0 := ne_of_gt hr
  have k7 : ic.P_0 = 0 := hz (by norm_num)
  have hg1 : γ - 1 ≠ 0 := sub_ne_zero.mpr hγ
  have h3 : ∀ x : ℝ, x ^ ((2 : ℝ) + 1) = x ^ 3 := by
    intro x
    rw [show (2 : ℝ) + 1 = ((3 : ℕ) : ℝ) by norm_num, Real.rpow_natCast]
  -- component by component: both traces resolve their guards from the admissibility facts, the leaves agree as field
  -- expressions (the abstract trace with the ideal-gas closures `P`, `e` plugged in)
  simp only [p, PressureS2.F, idealEOS]
  congr 1 <;> [skip; congr 1 <;> [skip; congr 1]] <;>
    (simp only [epv_c16, epv_tree] <;> epv_eos_ifs <;> simp only [epv_leaf, h3, k7] <;>
      first | rfl | ring1 | epv_eos_field | (norm_num <;> epv_eos_field))

/-! ### Instantiations: the EOS hypotheses of the residual theorems discharged by the EOS theorems -/

/-- solver default (pressure residual, spherical) with the ideal gas -/
theorem pressureS2_jacobian_ideal (γ : ℝ) (ic : NohIC) (ρ e D : ℝ) (hγ : γ ≠ 1) (hic : ic.Admissible 2) (hρ : ρ ≠ 0) (hD : D ≠ 0) :
    IsJacobian3 (PressureS2.F (idealEOS γ) ic) (PressureS2.J (idealEOS γ) ic ρ e D) ρ e D :=
  pressureS2_jacobian _ ic ρ e D hic hρ hD (ideal_pressure_derivs γ ρ e hγ)

/-- … with the stiffened gas -/
theorem pressureS2_jacobian_stiff (γ c ρi : ℝ) (ic : NohIC) (ρ e D : ℝ) (hic : ic.Admissible 2) (hρ : ρ ≠ 0) (hD : D ≠ 0) :
    IsJacobian3 (PressureS2.F (stiffEOS γ c ρi) ic) (PressureS2.J (stiffEOS γ c ρi) ic ρ e D) ρ e D :=
  pressureS2_jacobian _ ic ρ e D hic hρ hD (stiff_pressure_derivs γ c ρi ρ e)

/-- … with the Noble–Abel gas -/
theorem pressureS2_jacobian_nobleAbel (γ b : ℝ) (ic : NohIC) (ρ e D : ℝ) (hic : ic.Admissible 2) (hρ : ρ ≠ 0) (hD : D ≠ 0)
    (hb : 1 - b * ρ ≠ 0) :
    IsJacobian3 (PressureS2.F (nobleAbelEOS γ b) ic) (PressureS2.J (nobleAbelEOS γ b) ic ρ e D) ρ e D :=
  pressureS2_jacobian _ ic ρ e D hic hρ hD (nobleAbel_pressure_derivs γ b ρ e hb)

/-- … with the Carnahan–Starling gas (its `de_drho` defect does not enter the pressure formulation) -/
theorem pressureS2_jacobian_cs (γ b : ℝ) (ic : NohIC) (ρ e D : ℝ) (hic : ic.Admissible 2) (hρ : ρ ≠ 0) (hD : D ≠ 0)
    (hη : b * ρ ≠ 1) :
    IsJacobian3 (PressureS2.F (csEOS γ b) ic) (PressureS2.J (csEOS γ b) ic ρ e D) ρ e D :=
  pressureS2_jacobian _ ic ρ e D hic hρ hD (cs_pressure_derivs γ b ρ e hρ hη)

/-- … with a Steinberg EOS on its expanded branch (e.g. aluminium below 2.703 g/cm³) -/
theorem pressureS2_jacobian_stein_expanded (c : SteinC) (ic : NohIC) (ρ e D : ℝ) (hic : ic.Admissible 2) (hD : D ≠ 0)
    (h : c.Expanded ρ) :
    IsJacobian3 (PressureS2.F c.eos ic) (PressureS2.J c.eos ic ρ e D) ρ e D :=
  pressureS2_jacobian _ ic ρ e D hic (ne_of_gt h.1) hD (stein_pressure_derivs_expanded c ρ e h)

/-- energy residual, spherical, ideal gas -/
theorem energyS2_jacobian_ideal (γ : ℝ) (ic : NohIC) (ρ P D : ℝ) (hγ : γ ≠ 1) (hic : ic.Admissible 2) (hρ : ρ ≠ 0) (hD : D ≠ 0) :
    IsJacobian3 (EnergyS2.F (idealEOS γ) ic) (EnergyS2.J (idealEOS γ) ic ρ P D) ρ P D :=
  energyS2_jacobian _ ic ρ P D hic hρ hD (ideal_energy_derivs γ ρ P hγ hρ)

end EPV.C16
