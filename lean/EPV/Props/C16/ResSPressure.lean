/-
C16 — `simplified_pressure_noh_residual` over an abstract equation of state (planar, P₀ = 0; unknowns
ρ, e): every entry of `F_prime` is the partial derivative of the corresponding component of `F` (given
that `dP_drho`, `dP_de` are correct at the state), the hand-coded `determinant` is the determinant of
`F_prime`, and the hand-coded `F_prime_inv` times `F_prime` is the identity wherever `determinant ≠ 0`.
Hypotheses: what the constructor accepts (`NohIC.Admissible 0`, P₀ = 0) and ρ ≠ 0 (the guard of every method).
-/
import EPV.Lemmas.C16ResDefs
import EPV.Lemmas.Bridge.EosTac

set_option linter.all false

open EPV EPV.Gen EPV.Spec

namespace EPV.C16

/-- the traced models have exactly the leaves the proofs below rely on -/
theorem resSPressure_leaves : ResSPressureAbsS0_res.okLeaves = [4] ∧ ResSPressureAbsS0_det.okLeaves = [4, 5] := ⟨rfl, rfl⟩

/-- every entry of `F_prime` is the partial derivative of the corresponding component of `F` -/
theorem sPressureS0_jacobian (s : EOS) (ic : NohIC) (ρ x : ℝ) (hic : ic.Admissible 0) (hP : ic.P_0 = 0) (hρ : ρ ≠ 0)
    (hs : s.PressureDerivsAt ρ x) :
    IsJacobian2 (SPressureS0.F s ic) (SPressureS0.J s ic ρ x) ρ x := by
  obtain ⟨hu, hr0, hP0, hm⟩ := hic
  set p := SPressureS0.pres s ic ρ x with hp
  intro i
  fin_cases i <;> (try simp only [Fin.zero_eta, Fin.mk_one, Fin.reduceFinMk])
  · refine ⟨?_, ?_⟩
    · -- F[0] = P(ρ,e) - u₀²ρ₀ - P(ρ,e)/ρ · ρ₀ : the EOS value enters twice (product/quotient rule)
      have hg : HasDerivAt (fun r => s.P r x - ic.u_0 ^ 2 * ic.rho_0 - s.P r x / r * ic.rho_0)
          (s.dP_drho ρ x - (s.dP_drho ρ x * ρ - s.P ρ x * 1) / ρ ^ 2 * ic.rho_0) ρ :=
        (hs.1.sub_const _).sub ((hs.1.div (hasDerivAt_id' ρ) hρ).mul_const _)
      have hev : (fun r => SPressureS0.F s ic r x 0) =ᶠ[nhds ρ]
          fun r => s.P r x - ic.u_0 ^ 2 * ic.rho_0 - s.P r x / r * ic.rho_0 := by
        filter_upwards [isOpen_ne.mem_nhds hρ] with r hr
        simp only [SPressureS0.F] <;> epv_eos_res_eq
      refine (hg.congr_of_eventuallyEq hev).congr_deriv ?_
      simp only [SPressureS0.J] <;> epv_eos_res_eq
    · have hg : HasDerivAt (fun q => s.P ρ q - ic.u_0 ^ 2 * ic.rho_0 - s.P ρ q / ρ * ic.rho_0)
          (s.dP_de ρ x - s.dP_de ρ x / ρ * ic.rho_0) x :=
        (hs.2.sub_const _).sub ((hs.2.div_const ρ).mul_const _)
      have hev : (fun q => SPressureS0.F s ic ρ q 0) = fun q => s.P ρ q - ic.u_0 ^ 2 * ic.rho_0 - s.P ρ q / ρ * ic.rho_0 := by
        funext q
        simp only [SPressureS0.F] <;> epv_eos_res_eq
      rw [hev]
      refine hg.congr_deriv ?_
      simp only [SPressureS0.J] <;> epv_eos_res_eq
  · refine ⟨?_, ?_⟩
    · have hc : HasDerivAt (fun r => ResSPressureAbsS0_res.L4.F1 p r x) (ResSPressureAbsS0_res.L4.F1_drho p ρ x) ρ := by
        epv_eos_cert ResSPressureAbsS0_res.L4.F1_hasDerivAt_rho p ρ x
      have hev : (fun r => SPressureS0.F s ic r x 1) =ᶠ[nhds ρ] fun r => ResSPressureAbsS0_res.L4.F1 p r x := by
        filter_upwards [isOpen_ne.mem_nhds hρ] with r hr
        simp only [SPressureS0.F, hp] <;> epv_eos_res_eq
      refine (hc.congr_of_eventuallyEq hev).congr_deriv ?_
      simp only [SPressureS0.J, hp] <;> epv_eos_res_eq
    · have hc : HasDerivAt (fun q => ResSPressureAbsS0_res.L4.F1 p ρ q) (ResSPressureAbsS0_res.L4.F1_dsie p ρ x) x := by
        epv_eos_cert ResSPressureAbsS0_res.L4.F1_hasDerivAt_sie p ρ x
      have hev : (fun q => SPressureS0.F s ic ρ q 1) = fun q => ResSPressureAbsS0_res.L4.F1 p ρ q := by
        funext q
        simp only [SPressureS0.F, hp] <;> epv_eos_res_eq
      rw [hev]
      refine hc.congr_deriv ?_
      simp only [SPressureS0.J, hp] <;> epv_eos_res_eq

/-- the hand-coded `determinant` is the determinant of `F_prime` -/
theorem sPressureS0_det (s : EOS) (ic : NohIC) (ρ x : ℝ) (hic : ic.Admissible 0) (hP : ic.P_0 = 0) (hρ : ρ ≠ 0) :
    SPressureS0.detv s ic ρ x = (SPressureS0.J s ic ρ x).det := by
  obtain ⟨hu, hr0, hP0, hm⟩ := hic
  rw [Matrix.det_fin_two]
  -- `determinant` returns the same expression on both sides of its `det == 0` warning branch: the guards the
  -- context does not decide are split, both cases are the same identity
  simp only [SPressureS0.detv, SPressureS0.J] <;> epv_eos_res_eq

/-- the hand-coded `F_prime_inv` inverts `F_prime` wherever the class does not raise `ZeroDeterminantError` -/
theorem sPressureS0_inverse (s : EOS) (ic : NohIC) (ρ x : ℝ) (hic : ic.Admissible 0) (hP : ic.P_0 = 0) (hρ : ρ ≠ 0)
    (hdet : SPressureS0.detv s ic ρ x ≠ 0) :
    SPressureS0.Jinv s ic ρ x * SPressureS0.J s ic ρ x = 1 := by
  obtain ⟨hu, hr0, hP0, hm⟩ := hic
  have hdet' := hdet
  -- `determinant` returns the same expression on both sides of its `det == 0` warning branch: merge them first
  simp only [SPressureS0.detv, epv_tree, epv_leaf, ite_self] at hdet'
  simp only [epv_c16] at hdet'
  revert hdet'
  epv_eos_ifs
  intro hdet'
  epv_eos_gen_ne hdet'
  -- the guards of all entries of `F_prime_inv` and `F_prime` are decided once, at matrix level
  simp only [SPressureS0.Jinv, SPressureS0.J, epv_c16]
  simp only [epv_tree]
  epv_eos_ifs
  ext i j
  fin_cases i <;> fin_cases j <;>
    (simp only [Matrix.mul_apply, Fin.sum_univ_two, Matrix.one_apply, Fin.reduceEq, if_true, if_false, Matrix.of_apply, Matrix.cons_val, Fin.zero_eta, Fin.mk_one, Fin.reduceFinMk, Fin.isValue]
     simp only [epv_leaf]
     epv_eos_inv_entry)

/-- non-vacuity: the default initial state ρ₀ = 1, u₀ = -1, P₀ = 0 is admissible -/
example : (⟨1, -1, 0⟩ : NohIC).Admissible 0 ∧ (⟨1, -1, 0⟩ : NohIC).P_0 = 0 := by
  refine ⟨⟨?_, ?_, ?_, ?_⟩, rfl⟩ <;> norm_num

end EPV.C16
