#!/usr/bin/env python3
"""Writes the Lean files about the two 3-unknown residual classes (energy_noh_residual,
pressure_noh_residual), which repeat one proof script per symmetry m = 0, 1, 2 and per matrix entry:

    EPV/Lemmas/C16ResDefs.lean        F, J, Jinv, det of every residual class over an abstract EOS
    EPV/Props/C16/ResEnergy.lean      Jacobian / determinant / inverse theorems
    EPV/Props/C16/ResPressure.lean
    EPV/Props/C02/BBNohResidual.lean  F = 0  <->  the three jump conditions

The output files are plain Lean and are the files that are built and reviewed; this script only spares
typing.  Run it again (python3 gen_res.py) after changing a template, never edit both.
The leaf numbers of the traced models are read from gen_manifest.json and pinned by `*_leaves` theorems."""
import json
import os

HERE = os.path.dirname(os.path.abspath(__file__))
EPV = os.path.dirname(os.path.dirname(HERE))
MAN = json.load(open(os.path.join(EPV, 'Gen', 'gen_manifest.json')))

CLASSES = {
    # key: (python class, second unknown, n, EOS value symbol in res, derivative symbols in jac, EOS field, derivs predicate)
    'Energy': dict(py='energy_noh_residual', x='pres', n=3, val='eos_e', vfield='e', dsyms=('eos_de_drho', 'eos_de_dP'),
                   dfields=('de_drho', 'de_dP'), pred='EnergyDerivsAt', row=2, extra_jac=()),
    'Pressure': dict(py='pressure_noh_residual', x='sie', n=3, val='eos_P', vfield='P', dsyms=('eos_dP_drho', 'eos_dP_de'),
                     dfields=('dP_drho', 'dP_de'), pred='PressureDerivsAt', row=1, extra_jac=()),
    'SEnergy': dict(py='simplified_energy_noh_residual', x='pres', n=2, val='eos_e', vfield='e',
                    dsyms=('eos_de_drho', 'eos_de_dP'), dfields=('de_drho', 'de_dP'), pred='EnergyDerivsAt', row=1, extra_jac=()),
    'SPressure': dict(py='simplified_pressure_noh_residual', x='sie', n=2, val='eos_P', vfield='P',
                      dsyms=('eos_dP_drho', 'eos_dP_de'), dfields=('dP_drho', 'dP_de'), pred='PressureDerivsAt', row=0,
                      extra_jac=('eos_P',)),
}
HEADER = '-- Written by EPV/Props/C16/gen_res.py (templates over symmetry and matrix entry); plain Lean, reviewed as such.\n'


def ok_leaf(model):
    ls = [l['idx'] for l in MAN[model]['leaves'] if l['kind'] == 'ok']
    return ls


def params(model):
    return MAN[model]['all_params']


def syms(K):
    return [0, 1, 2] if CLASSES[K]['n'] == 3 else [0]


def conv(K, m, kind):
    """conversion def: record of the generated model `kind` from (s, ic, ρ, x)"""
    c = CLASSES[K]
    model = 'Res%sAbsS%d_%s' % (K, m, kind)
    flds = []
    for p in params(model):
        if p in ('P_0', 'rho_0', 'u_0'):
            v = 'ic.' + p
        elif p == c['val']:
            v = 's.%s ρ x' % c['vfield']
        elif p == 'eos_e_init':
            v = 's.e ic.rho_0 ic.P_0'
        elif p in c['dsyms']:
            v = 's.%s ρ x' % c['dfields'][c['dsyms'].index(p)]
        else:
            raise SystemExit('unexpected parameter %s of %s' % (p, model))
        flds.append('%s := %s' % (p, v))
    return '@[epv_c16] def p%s (s : EOS) (ic : NohIC) (ρ x : ℝ) : %s.P :=\n  { %s }' % (kind, model, ', '.join(flds))


def unk(n):
    return ['ρ', 'x', 'D'][:n]


def defs_file():
    o = [HEADER, '/-', 'The four residual classes of residual_functions.py over an ABSTRACT equation of state `s : EPV.Spec.EOS`:',
         'the traced models were generated with an EOS stub whose methods return free symbols (`eos_e`, `eos_de_drho`, …);',
         'here each symbol is instantiated with the value of the corresponding method of `s` at the state at which the',
         'Python code calls it (the stub checks the call is `method(rho, second unknown)` — density first).', '',
         '`F`, `J`, `Jinv`, `detv` are the tree-level traced `F`, `F_prime`, `F_prime_inv`, `determinant`.', '-/']
    for K in CLASSES:
        for m in syms(K):
            for kind, d in (('res', 'D'), ('jac', ''), ('jacinv', ''), ('det', '')):
                o.append('import EPV.Gen.Res%sAbsS%d_%s%s' % (K, m, kind, d))
    o += ['import EPV.Lemmas.C16Attr', 'import EPV.Spec.EOS', 'import EPV.Tactics', '', 'set_option linter.all false', '',
          'open EPV EPV.Gen EPV.Spec', '', 'namespace EPV.C16', '']
    for K, c in CLASSES.items():
        n = c['n']
        for m in syms(K):
            ns = '%sS%d' % (K, m)
            a = ' '.join(unk(n))
            o.append('namespace %s' % ns)
            for kind in ('res', 'jac', 'jacinv', 'det'):
                o.append(conv(K, m, kind))
            R = 'Res%sAbsS%d_' % (K, m)
            o.append('/-- `%s.F(state)` (symmetry %d), the EOS methods being evaluated at the state -/' % (c['py'], m))
            o.append('noncomputable def F (s : EOS) (ic : NohIC) (%s : ℝ) : Fin %d → ℝ :=\n  ![%s]' % (
                a, n, ', '.join('%sres.F%d (pres s ic ρ x) %s' % (R, i, a) for i in range(n))))
            o.append('/-- `%s.F_prime(state)` -/' % c['py'])
            o.append('noncomputable def J (s : EOS) (ic : NohIC) (%s : ℝ) : Matrix (Fin %d) (Fin %d) ℝ :=\n  !![%s]' % (
                a, n, n, ';\n     '.join(', '.join('%sjac.DF%d%d (pjac s ic ρ x) %s' % (R, i, j, a) for j in range(n)) for i in range(n))))
            o.append('/-- `%s.F_prime_inv(state)`%s -/' % (c['py'], ' (numpy.linalg.inv modelled as adjugate / determinant)' if n == 3 else ' (hand-coded in the class)'))
            o.append('noncomputable def Jinv (s : EOS) (ic : NohIC) (%s : ℝ) : Matrix (Fin %d) (Fin %d) ℝ :=\n  !![%s]' % (
                a, n, n, ';\n     '.join(', '.join('%sjacinv.DFI%d%d (pjacinv s ic ρ x) %s' % (R, i, j, a) for j in range(n)) for i in range(n))))
            o.append('/-- `%s.determinant`%s -/' % (c['py'], ' of `F_prime(state)` (numpy.linalg.det modelled as the cofactor expansion)' if n == 3 else '(state) (hand-coded in the class)'))
            o.append('noncomputable def detv (s : EOS) (ic : NohIC) (%s : ℝ) : ℝ := %sdet.det (pdet s ic ρ x) %s' % (a, R, a))
            o.append('end %s' % ns)
            o.append('')
    o += ['end EPV.C16', '']
    return '\n'.join(o)


def kfacts(K, m):
    """the documented admissibility facts; the constructor's guards are decided from them semantically
    (`epv_eos_ifs`), whatever form the code gives the comparisons"""
    n = CLASSES[K]['n']
    o = ['  obtain ⟨hu, hr0, hP0, hm⟩ := hic']
    if n == 3 and m > 0:
        o.append('  have hPz : ic.P_0 = 0 := hm (by norm_num)')
    return o


def hyps(K, m):
    n = CLASSES[K]['n']
    h = '(hic : ic.Admissible %d)' % m
    if n == 2:
        h += ' (hP : ic.P_0 = 0)'
    return h


SIMPK = 'k0, k1, k2, k3, if_true, if_false, lt_self_iff_false'
MAT = 'Matrix.of_apply, Matrix.cons_val, Fin.zero_eta, Fin.mk_one, Fin.reduceFinMk, Fin.isValue'


def entry(K, m, i, j, indent='    ', xs=''):
    """proof of one entry: HasDerivAt (fun v => F … i) (J … i j) point"""
    c = CLASSES[K]
    n = c['n']
    ns = '%sS%d' % (K, m)
    R = 'Res%sAbsS%d_res' % (K, m)
    L = 'L%d' % ok_leaf(R)[0]
    var = ['rho', c['x'], 'D'][j]
    pt = unk(n)[j]
    args_r = list(unk(n))
    args_r[j] = 'r'
    ar = ' '.join(args_r)
    a = ' '.join(unk(n))
    eosdep = (i == c['row'] and j < 2)
    o = []
    o.append('have hc : HasDerivAt (fun r => %s.%s.F%d p %s) (%s.%s.F%d_d%s p %s) %s := by' % (R, L, i, ar, R, L, i, var, a, pt))
    o.append('  epv_eos_cert %s.%s.F%d_hasDerivAt_%s p %s' % (R, L, i, var, a))
    if eosdep:
        sargs = ['ρ', 'x']
        sargs[j] = 'r'
        extra = '(s.%s %s - s.%s ρ x) + ' % (c['vfield'], ' '.join(sargs), c['vfield'])
    else:
        extra = ''
    o.append('have hev : (fun r => %s.F s ic %s %d) =ᶠ[nhds %s] fun r => %s%s.%s.F%d p %s := by' % (ns, ar, i, pt, extra, R, L, i, ar))
    if j == 0:
        o.append('  filter_upwards [isOpen_ne.mem_nhds hρ] with r hr')
    elif j == 2:
        o.append('  filter_upwards [isOpen_ne.mem_nhds hD] with r hr')
    else:
        o.append('  filter_upwards with r')
    o.append('  simp only [%s.F, hp] <;> epv_eos_res_eq' % ns)
    if eosdep:
        o.append('refine (((hs.%d.sub_const _).add hc).congr_of_eventuallyEq hev).congr_deriv ?_' % (j + 1))
    else:
        o.append('refine (hc.congr_of_eventuallyEq hev).congr_deriv ?_')
    zs = [z for z in xs.replace(' ', '').split(',') if z]
    sub = (' <;> (try simp only [%s])' % ', '.join(zs)) if zs else ''
    o.append('simp only [%s.J, hp] <;> epv_eos_res_unfold%s <;> epv_eos_field' % (ns, sub))
    return [indent + x for x in o]


def jac_theorem(K, m, skip=(), name=None, doc=None, extra_hyp='', xs=''):
    c = CLASSES[K]
    n = c['n']
    ns = '%sS%d' % (K, m)
    a = ' '.join(unk(n))
    nm = name or '%s_jacobian' % (ns[0].lower() + ns[1:])
    o = []
    o.append('/-- %s -/' % (doc or ('`%s`, symmetry %d: every entry of `F_prime` is the partial derivative of the corresponding '
                                   'component of `F`, for any EOS whose derivative methods are correct at the state' % (c['py'], m))))
    hD = ' (hD : D ≠ 0)' if n == 3 else ''
    if skip:
        concl = ' ∧ '.join('HasDerivAt (fun r => %s.F s ic %s %d) (%s.J s ic %s %d %d) %s' % (
            ns, ' '.join(('r' if k == j else u) for k, u in enumerate(unk(n))), i, ns, a, i, j, unk(n)[j])
            for i in range(n) for j in range(n) if (i, j) not in skip)
        o.append('theorem %s (s : EOS) (ic : NohIC) (%s : ℝ) %s (hρ : ρ ≠ 0)%s%s\n    (hs : s.%s ρ x) :\n    %s := by' % (
            nm, a, hyps(K, m), hD, extra_hyp, c['pred'], concl))
    else:
        o.append('theorem %s (s : EOS) (ic : NohIC) (%s : ℝ) %s (hρ : ρ ≠ 0)%s%s\n    (hs : s.%s ρ x) :\n    IsJacobian%d (%s.F s ic) (%s.J s ic %s) %s := by' % (
            nm, a, hyps(K, m), hD, extra_hyp, c['pred'], n, ns, ns, a, a))
    o += kfacts(K, m)
    o.append('  set p := %s.pres s ic ρ x with hp' % ns)
    if skip:
        ents = [(i, j) for i in range(n) for j in range(n) if (i, j) not in skip]
        o.append('  refine ⟨%s⟩' % ', '.join('?_' for _ in ents))
        for (i, j) in ents:
            e = entry(K, m, i, j, indent='    ', xs=xs)
            e[0] = '  · ' + e[0].lstrip()
            o += e
    else:
        o.append('  intro i')
        o.append('  fin_cases i <;> (try simp only [Fin.zero_eta, Fin.mk_one, Fin.reduceFinMk])')
        for i in range(n):
            o.append('  · refine ⟨%s⟩' % ', '.join('?_' for _ in range(n)))
            for j in range(n):
                e = entry(K, m, i, j, indent='      ', xs=xs)
                e[0] = '    · ' + e[0].lstrip()
                o += e
    o.append('')
    return o


def det_theorems(K, m):
    c = CLASSES[K]
    n = c['n']
    ns = '%sS%d' % (K, m)
    lo = ns[0].lower() + ns[1:]
    a = ' '.join(unk(n))
    hD = ' (hD : D ≠ 0)' if n == 3 else ''
    o = []
    o.append('/-- `determinant` is the determinant of `F_prime` -/')
    o.append('theorem %s_det (s : EOS) (ic : NohIC) (%s : ℝ) %s (hρ : ρ ≠ 0) :\n    %s.detv s ic %s = (%s.J s ic %s).det := by' % (lo, a, hyps(K, m), ns, a, ns, a))
    o += kfacts(K, m)
    o.append('  rw [Matrix.det_fin_%s]' % {2: 'two', 3: 'three'}[n])
    o.append('  simp only [%s.detv, %s.J] <;> epv_eos_res_eq' % (ns, ns))
    o.append('')
    o.append('/-- `F_prime_inv · F_prime = 1` wherever the class does not raise `ZeroDeterminantError` (`determinant ≠ 0`) -/')
    o.append('theorem %s_inverse (s : EOS) (ic : NohIC) (%s : ℝ) %s (hρ : ρ ≠ 0)%s\n    (hdet : %s.detv s ic %s ≠ 0) :\n    %s.Jinv s ic %s * %s.J s ic %s = 1 := by' % (
        lo, a, hyps(K, m), hD, ns, a, ns, a, ns, a))
    o += kfacts(K, m)
    o.append('  have hdet\' := hdet')
    o.append('  simp only [%s.detv, epv_c16, epv_tree] at hdet\'' % ns)
    o.append('  revert hdet\'')
    o.append('  epv_eos_ifs')
    o.append('  intro hdet\'')
    o.append('  simp only [epv_leaf] at hdet\'')
    o.append('  epv_eos_gen_ne hdet\'')
    o.append('  -- the guards of all entries of `F_prime_inv` and `F_prime` are decided once, at matrix level')
    o.append('  simp only [%s.Jinv, %s.J, epv_c16]' % (ns, ns))
    o.append('  simp only [epv_tree]')
    o.append('  epv_eos_ifs')
    o.append('  ext i j')
    o.append('  fin_cases i <;> fin_cases j <;>')
    o.append('    (simp only [Matrix.mul_apply, Fin.sum_univ_%s, Matrix.one_apply, Fin.reduceEq, if_true, if_false, %s]' % ({2: 'two', 3: 'three'}[n], MAT))
    o.append('     simp only [epv_leaf]')
    o.append('     epv_eos_inv_entry)')
    o.append('')
    return o


def jump_theorem(K, m):
    c = CLASSES[K]
    ns = '%sS%d' % (K, m)
    lo = ns[0].lower() + ns[1:]
    if K == 'Energy':
        st = 'StagnationShock ic %d (s.e ic.rho_0 ic.P_0) ρ x (s.e ρ x) D' % m
        what = 'unknowns (ρ, P, D), shocked energy e(ρ, P)'
    else:
        st = 'StagnationShock ic %d (s.e ic.rho_0 ic.P_0) ρ (s.P ρ x) x D' % m
        what = 'unknowns (ρ, e, D), shocked pressure P(ρ, e)'
    o = []
    shock = 'shockedState ρ %s' % ('x (s.e ρ x)' if K == 'Energy' else '(s.P ρ x) x')
    inc = 'incomingState ic %d (s.e ic.rho_0 ic.P_0) D' % m
    o.append('/-- `%s`, symmetry %d: the defects of the three jump conditions (flux behind minus flux ahead of the front)\nare these fixed combinations of the components of `F` — exact identities, any EOS -/' % (c['py'], m))
    o.append('theorem %s_jump_defects (s : EOS) (ic : NohIC) (ρ x D : ℝ) (hic : ic.Admissible %d) (hρ : ρ ≠ 0) (hD : D ≠ 0) :' % (lo, m))
    o.append('    (%s).massFlux D - (%s).massFlux D = -D * C16.%s.F s ic ρ x D 0' % (shock, inc, ns))
    o.append('    ∧ (%s).momFlux D - (%s).momFlux D = C16.%s.F s ic ρ x D 1 - ic.u_0 * D * C16.%s.F s ic ρ x D 0' % (shock, inc, ns, ns))
    o.append('    ∧ (%s).energyFlux D - (%s).energyFlux D = -(ρ * D) * C16.%s.F s ic ρ x D 2' % (shock, inc, ns))
    o.append('        - D * (s.e ic.rho_0 ic.P_0 + ic.u_0 ^ 2 / 2) * C16.%s.F s ic ρ x D 0 := by' % ns)
    o += kfacts(K, m)
    S = 'simp only [C16.%s.F, shockedState, incomingState, State.massFlux, State.momFlux, State.energyFlux]' % ns
    o.append('  refine ⟨?_, ?_, ?_⟩ <;>')
    o.append('    (' + S + '; epv_eos_res_eq)')
    o.append('')
    o.append('/-- `%s`, symmetry %d (%s): the residual vanishes exactly when the shocked state at rest and the\nincoming gas (density ρ₀ (1 - u₀/D)^%d at the front) satisfy the three Rankine–Hugoniot conditions with front speed D -/' % (c['py'], m, what, m))
    o.append('theorem %s_zero_iff_jump (s : EOS) (ic : NohIC) (ρ x D : ℝ) (hic : ic.Admissible %d) (hρ : ρ ≠ 0) (hD : D ≠ 0) :\n    (∀ i, C16.%s.F s ic ρ x D i = 0) ↔ %s := by' % (lo, m, ns, st))
    o.append('  obtain ⟨hM, hMo, hE⟩ := %s_jump_defects s ic ρ x D hic hρ hD' % lo)
    o.append('  set a := %s with ha' % shock)
    o.append('  set b := %s with hb' % inc)
    o.append('  unfold StagnationShock RankineHugoniot')
    o.append('  constructor')
    o.append('  · intro h')
    o.append('    refine ⟨sub_eq_zero.mp ?_, sub_eq_zero.mp ?_, sub_eq_zero.mp ?_⟩')
    o.append('    · rw [hM, h 0]; ring')
    o.append('    · rw [hMo, h 1, h 0]; ring')
    o.append('    · rw [hE, h 2, h 0]; ring')
    o.append('  · rintro ⟨m1, m2, m3⟩')
    o.append('    have f0 : C16.%s.F s ic ρ x D 0 = 0 := by' % ns)
    o.append('      have := sub_eq_zero.mpr m1')
    o.append('      rw [hM] at this')
    o.append('      exact (mul_eq_zero.mp this).resolve_left (neg_ne_zero.mpr hD)')
    o.append('    have f1 : C16.%s.F s ic ρ x D 1 = 0 := by' % ns)
    o.append('      have := sub_eq_zero.mpr m2')
    o.append('      rw [hMo, f0] at this')
    o.append('      linarith')
    o.append('    have f2 : C16.%s.F s ic ρ x D 2 = 0 := by' % ns)
    o.append('      have := sub_eq_zero.mpr m3')
    o.append('      rw [hE, f0] at this')
    o.append('      have h2 : (ρ * D) * C16.%s.F s ic ρ x D 2 = 0 := by linarith' % ns)
    o.append('      exact (mul_eq_zero.mp h2).resolve_left (mul_ne_zero hρ hD)')
    o.append('    intro i')
    o.append('    fin_cases i')
    o.append('    · exact f0')
    o.append('    · exact f1')
    o.append('    · exact f2')
    o.append('')
    return o


def props_file(K):
    c = CLASSES[K]
    o = [HEADER, '/-',
         'C16 — `%s` over an abstract equation of state: every entry of `F_prime` is the partial' % c['py'],
         'derivative of the corresponding component of `F` (given that the EOS derivative methods are correct at the state),',
         '`determinant` is the determinant of `F_prime`, and `F_prime_inv · F_prime = 1` wherever `determinant ≠ 0`.',
         ('One theorem per symmetry m = 0, 1, 2 (planar, cylindrical, spherical).  Hypotheses: what the constructor accepts' if c['n'] == 3 else
          'Planar symmetry and P₀ = 0 only (what the constructor accepts).  Hypotheses: what the constructor accepts'),
         ('(`NohIC.Admissible m`), ρ ≠ 0 (the guard of every method) and D ≠ 0 (the code divides by D).' if c['n'] == 3 else
          '(`NohIC.Admissible 0` and P₀ = 0) and ρ ≠ 0 (the guard of every method).  Inverse and determinant are hand-coded in the class.'),
         '-/', 'import EPV.Lemmas.C16ResDefs', 'import EPV.Lemmas.Bridge.EosTac', '', 'set_option linter.all false', 'set_option maxHeartbeats 1000000', '',
         'open EPV EPV.Gen EPV.Spec', '', 'namespace EPV.C16', '']
    pins = ' ∧ '.join('Res%sAbsS%d_res.okLeaves = %s' % (K, m, ok_leaf('Res%sAbsS%d_res' % (K, m))) for m in syms(K))
    o.append('/-- the traced models have exactly the leaves the proofs below name -/')
    o.append('theorem res%s_leaves : %s := %s' % (K, pins, ('⟨%s⟩' % ', '.join('rfl' for _ in syms(K))) if len(syms(K)) > 1 else 'rfl'))
    o.append('')
    for m in syms(K):
        if K == 'Pressure' and m == 0:
            o += jac_theorem(K, m, skip=[(2, 0)], name='pressureS0_jacobian_partial',
                             doc='`pressure_noh_residual`, planar: every entry of `F_prime` EXCEPT `DF[2,0]` is the partial derivative of the '
                                 'corresponding component of `F` — `_partial`: `DF[2,0]` has the wrong sign when P₀ ≠ 0 (finding `pressure_DF20_finding`)')
            o += jac_theorem(K, m, name='pressureS0_jacobian_P0_zero', extra_hyp=' (hP : ic.P_0 = 0)', xs='hP, ',
                             doc='`pressure_noh_residual`, planar, P₀ = 0: the whole `F_prime` is the Jacobian of `F`')
        else:
            # for m > 0 the constructor forces P_0 = 0, which the (wrong-signed) entry DF[2,0] of the pressure residual needs
            o += jac_theorem(K, m, xs=('hPz, ' if (K == 'Pressure' and m > 0) else ''))
        o += det_theorems(K, m)
    o += ['/-- non-vacuity: the default initial state ρ₀ = 1, u₀ = -1, P₀ = 0 is admissible in every symmetry -/',
          'example : (⟨1, -1, 0⟩ : NohIC).Admissible 0 ∧ (⟨1, -1, 0⟩ : NohIC).Admissible 1 ∧ (⟨1, -1, 0⟩ : NohIC).Admissible 2 := by',
          '  refine ⟨⟨?_, ?_, ?_, ?_⟩, ⟨?_, ?_, ?_, ?_⟩, ⟨?_, ?_, ?_, ?_⟩⟩ <;> norm_num', '']
    o += ['end EPV.C16', '']
    return '\n'.join(o)


def c02_file():
    o = [HEADER, '/-',
         'C02 — black-box Noh: each 3-unknown residual `F` vanishes exactly when the shocked state and the incoming',
         'gas satisfy the three Rankine–Hugoniot conditions (`EPV.Spec.StagnationShock`) — for ANY equation of state object',
         '(abstract `s : EOS`), every symmetry m = 0, 1, 2, every admissible initial state, ρ ≠ 0, D ≠ 0.',
         'The 2-unknown residuals (D eliminated) are in BBNohSimplified.lean.',
         '-/', 'import EPV.Lemmas.C16ResDefs', 'import EPV.Lemmas.Bridge.EosTac', '', 'set_option linter.all false', 'set_option maxHeartbeats 1000000', '',
         'open EPV EPV.Gen EPV.Spec', '', 'namespace EPV.C02', '']
    for K in ('Energy', 'Pressure'):
        for m in syms(K):
            o += jump_theorem(K, m)
    o += ['/-- non-vacuity: the default initial state is admissible in every symmetry, and the hypotheses ρ ≠ 0, D ≠ 0 hold at the',
          'classical Noh state (64, 1/2, 1/3) -/',
          'example : (⟨1, -1, 0⟩ : NohIC).Admissible 0 ∧ (⟨1, -1, 0⟩ : NohIC).Admissible 1 ∧ (⟨1, -1, 0⟩ : NohIC).Admissible 2',
          '    ∧ (64 : ℝ) ≠ 0 ∧ (1 / 3 : ℝ) ≠ 0 := by',
          '  refine ⟨⟨?_, ?_, ?_, ?_⟩, ⟨?_, ?_, ?_, ?_⟩, ⟨?_, ?_, ?_, ?_⟩, ?_, ?_⟩ <;> norm_num', '']
    o += ['end EPV.C02', '']
    return '\n'.join(o)


def write(path, text):
    os.makedirs(os.path.dirname(path), exist_ok=True)
    with open(path, 'w') as f:
        f.write(text)
    print('wrote', path)


if __name__ == '__main__':
    write(os.path.join(EPV, 'Lemmas', 'C16ResDefs.lean'), defs_file())
    write(os.path.join(EPV, 'Props', 'C16', 'ResEnergy.lean'), props_file('Energy'))
    write(os.path.join(EPV, 'Props', 'C16', 'ResPressure.lean'), props_file('Pressure'))
    write(os.path.join(EPV, 'Props', 'C02', 'BBNohResidual.lean'), c02_file())
    write(os.path.join(EPV, 'Props', 'C16', 'ResSEnergy.lean'), props_file('SEnergy'))
