/-
C16 — the EOS objects are MUTABLE: `noble_abel_eos` (set_new_co_volume — every `set_*` method of the class, found by
introspection; `o_c16b.coverage_tie` reports a setter that has no theorem here).  The theorems of NobleAbel.lean are about
FRESH objects.  Here the object is a state machine over its attribute dictionary (`EPV.Setters.Machine`), every piece
traced from the code (t_eos_b.py):

  construct   `EosBNobleAbel_init`          the attribute dictionary `__init__` creates from the constants
  apply       `EosBNobleAbel_<setter>`      the dictionary after the setter, from a dictionary of INDEPENDENT symbols
              `EosBNobleAbel_calls`         the dictionary after calling every public non-setter method once
  methods     `EosBNobleAbel_at_<m>`        the six interface methods read from an arbitrary dictionary

  `nobleAbel_attrs`                 the attribute lists of all these models coincide (a new / cached / lazily created
                                attribute breaks this pin and the structure literals below instead of escaping)
  `nobleAbel_calls_pure`            no method mutates the dictionary (from ANY dictionary)
  `nobleAbel_sound`                 after (set_new_X v) (construct c) = construct (c with X := v) — ALL attributes
  `nobleAbel_reachable_eq_fresh`    by induction over any finite sequence of setter calls and method calls: the object
                                equals the fresh object with the final constants
  `nobleAbelEOSAt_construct`        the interface read from a constructed dictionary is the fresh-object model of t_eos.py
  `nobleAbel_after_setters`         hence after ANY sequence: closures mutually inverse, analytic derivatives = derivatives
                                (every statement of NobleAbel.lean transfers)
-/
import EPV.Lemmas.SetterMachine
import EPV.Props.C16.NobleAbel
import EPV.Gen.EosBNobleAbel_init
import EPV.Gen.EosBNobleAbel_set_new_co_volume
import EPV.Gen.EosBNobleAbel_at_e
import EPV.Gen.EosBNobleAbel_at_de_drho
import EPV.Gen.EosBNobleAbel_at_de_dP
import EPV.Gen.EosBNobleAbel_at_P
import EPV.Gen.EosBNobleAbel_at_dP_drho
import EPV.Gen.EosBNobleAbel_at_dP_de
import EPV.Gen.EosBNobleAbel_calls

set_option linter.all false

open EPV EPV.Gen EPV.Spec EPV.Setters

namespace EPV.C16

noncomputable section

/-- the attribute dictionary of a `noble_abel_eos` object -/
structure NobleAbelAttrs where
  b : ℝ
  gamma : ℝ

/-- the constructor constants `noble_abel_eos(gamma, b)` -/
structure NobleAbelConsts where
  gamma : ℝ
  b : ℝ

/-- the documented operations: every setter, and "call every public method once" -/
inductive NobleAbelOp where
  /-- `set_new_co_volume(v)` -/
  | setCoVolume (v : ℝ)
  /-- any method calls (arguments x0, x1) -/
  | call (x0 x1 : ℝ)

/-- `__init__` as traced -/
def nobleAbelConstruct (c : NobleAbelConsts) : NobleAbelAttrs :=
  { b := EosBNobleAbel_init.b { b := c.b, gamma := c.gamma },
    gamma := EosBNobleAbel_init.gamma { b := c.b, gamma := c.gamma } }

/-- the operations as traced, on an ARBITRARY attribute dictionary -/
def nobleAbelApply : NobleAbelOp → NobleAbelAttrs → NobleAbelAttrs
  | .setCoVolume v, a =>
    { b := EosBNobleAbel_set_new_co_volume.b { a_b := a.b, a_gamma := a.gamma, new := v },
      gamma := EosBNobleAbel_set_new_co_volume.gamma { a_b := a.b, a_gamma := a.gamma, new := v } }
  | .call x0 x1, a =>
    { b := EosBNobleAbel_calls.b { a_b := a.b, a_gamma := a.gamma } x0 x1,
      gamma := EosBNobleAbel_calls.gamma { a_b := a.b, a_gamma := a.gamma } x0 x1 }

/-- what the operations MEAN: the constants of the fresh object that the mutated object must equal -/
def nobleAbelUpdate : NobleAbelOp → NobleAbelConsts → NobleAbelConsts
  | .setCoVolume v, c => { c with b := v }
  | .call _ _, c => c

def nobleAbelMachine : Machine NobleAbelConsts NobleAbelAttrs NobleAbelOp := ⟨nobleAbelConstruct, nobleAbelApply, nobleAbelUpdate⟩

/-- constructor, setters and methods all see exactly the attributes b, gamma -/
theorem nobleAbel_attrs :
    EosBNobleAbel_init.fieldNames = ["b", "gamma"]
    ∧ EosBNobleAbel_set_new_co_volume.fieldNames = ["b", "gamma"]
    ∧ EosBNobleAbel_calls.fieldNames = ["b", "gamma"] :=
  ⟨rfl, rfl, rfl⟩

/-- no public method of `noble_abel_eos` changes (or adds to) the attribute dictionary, whatever the dictionary and the arguments -/
theorem nobleAbel_calls_pure (a : NobleAbelAttrs) (x0 x1 : ℝ) : nobleAbelApply (.call x0 x1) a = a := by
  obtain ⟨b, gamma⟩ := a
  simp only [nobleAbelApply, epv_tree, epv_leaf, ite_self]

/-- **setter = reconstruction**: `after (set_new_X v) (construct c) = construct (c with X := v)`, all attributes -/
theorem nobleAbel_sound : nobleAbelMachine.Sound := by
  intro o c
  cases o <;> simp only [nobleAbelMachine, nobleAbelApply, nobleAbelConstruct, nobleAbelUpdate, epv_tree, epv_leaf, ite_self]

/-- **any reachable `noble_abel_eos` object equals the fresh object with the final constants** (induction over the sequence) -/
theorem nobleAbel_reachable_eq_fresh (ops : List NobleAbelOp) (c : NobleAbelConsts) :
    nobleAbelMachine.run ops (nobleAbelConstruct c) = nobleAbelConstruct (nobleAbelMachine.final ops c) :=
  reachable_eq_fresh nobleAbelMachine nobleAbel_sound ops c

/-- no setter touches γ -/
theorem nobleAbel_final_gamma (ops : List NobleAbelOp) (c : NobleAbelConsts) : (nobleAbelMachine.final ops c).gamma = c.gamma := by
  induction ops generalizing c with
  | nil => rfl
  | cons o os ih =>
    show (nobleAbelMachine.final os (nobleAbelUpdate o c)).gamma = c.gamma
    rw [ih]
    cases o <;> rfl

/-- the EOS interface read from an attribute dictionary (each method traced on a dictionary of independent symbols) -/
def nobleAbelEOSAt (a : NobleAbelAttrs) : EOS where
  e := EosBNobleAbel_at_e.e { a_b := a.b, a_gamma := a.gamma }
  de_drho := EosBNobleAbel_at_de_drho.de_drho { a_b := a.b, a_gamma := a.gamma }
  de_dP := EosBNobleAbel_at_de_dP.de_dP { a_b := a.b, a_gamma := a.gamma }
  P := EosBNobleAbel_at_P.Pfun { a_b := a.b, a_gamma := a.gamma }
  dP_drho := EosBNobleAbel_at_dP_drho.dP_drho { a_b := a.b, a_gamma := a.gamma }
  dP_de := EosBNobleAbel_at_dP_de.dP_de { a_b := a.b, a_gamma := a.gamma }

/-- on a constructed dictionary this is the fresh-object model the theorems of NobleAbel.lean are about -/
theorem nobleAbelEOSAt_construct (c : NobleAbelConsts) : nobleAbelEOSAt (nobleAbelConstruct c) = nobleAbelEOS c.gamma c.b := by
  simp only [nobleAbelEOSAt, nobleAbelConstruct, nobleAbelEOS, epv_tree, epv_leaf]
  congr 1 <;> (funext ρ x; simp only [epv_tree, epv_leaf, epv_cond])

/-- after ANY sequence of setter and method calls the interface is that of the fresh object with the final constants -/
theorem nobleAbel_interface_after_setters (ops : List NobleAbelOp) (c : NobleAbelConsts) :
    nobleAbelEOSAt (nobleAbelMachine.run ops (nobleAbelConstruct c))
      = (fun c => nobleAbelEOS c.gamma c.b) (nobleAbelMachine.final ops c) := by
  rw [nobleAbel_reachable_eq_fresh, nobleAbelEOSAt_construct]

/-- **Noble–Abel gas, mutated**: after any sequence of `set_new_co_volume` and method calls; `b` is the FINAL
co-volume (the last value set), 1 - bρ ≠ 0 the guard of `P` -/
theorem nobleAbel_after_setters (ops : List NobleAbelOp) (c : NobleAbelConsts) (ρ x : ℝ) (hγ : c.gamma ≠ 1) (hρ : ρ ≠ 0)
    (hb : 1 - (nobleAbelMachine.final ops c).b * ρ ≠ 0) :
    (nobleAbelEOSAt (nobleAbelMachine.run ops (nobleAbelConstruct c))).InverseAt ρ
    ∧ (nobleAbelEOSAt (nobleAbelMachine.run ops (nobleAbelConstruct c))).EnergyDerivsAt ρ x
    ∧ (nobleAbelEOSAt (nobleAbelMachine.run ops (nobleAbelConstruct c))).PressureDerivsAt ρ x := by
  rw [nobleAbel_interface_after_setters]
  have hγ' : (nobleAbelMachine.final ops c).gamma ≠ 1 := by rw [nobleAbel_final_gamma]; exact hγ
  exact ⟨nobleAbel_inverse _ _ _ hγ' hρ hb, nobleAbel_energy_derivs _ _ _ _ hγ' hρ, nobleAbel_pressure_derivs _ _ _ _ hb⟩

/-- non-vacuity at the class defaults γ = 5/3, b = 0.01, after one setter call -/
example : (nobleAbelEOSAt (nobleAbelMachine.run [.setCoVolume (1/50)] (nobleAbelConstruct ⟨5/3, 1/100⟩))).InverseAt 1 :=
  (nobleAbel_after_setters _ _ 1 0 (by norm_num) (by norm_num)
    (by show 1 - (1/50 : ℝ) * 1 ≠ 0; norm_num)).1

end

end EPV.C16
