/-
C16 — the EOS objects are MUTABLE: `carnahan_starling_eos` (set_new_co_volume — every `set_*` method of the class, found by
introspection; `o_c16b.coverage_tie` reports a setter that has no theorem here).  The theorems of CarnahanStarling.lean are about
FRESH objects.  Here the object is a state machine over its attribute dictionary (`EPV.Setters.Machine`), every piece
traced from the code (t_eos_b.py):

  construct   `EosBCS_init`          the attribute dictionary `__init__` creates from the constants
  apply       `EosBCS_<setter>`      the dictionary after the setter, from a dictionary of INDEPENDENT symbols
              `EosBCS_calls`         the dictionary after calling every public non-setter method once
  methods     `EosBCS_at_<m>`        the six interface methods read from an arbitrary dictionary

  `cs_attrs`                 the attribute lists of all these models coincide (a new / cached / lazily created
                                attribute breaks this pin and the structure literals below instead of escaping)
  `cs_calls_pure`            no method mutates the dictionary (from ANY dictionary)
  `cs_sound`                 after (set_new_X v) (construct c) = construct (c with X := v) — ALL attributes
  `cs_reachable_eq_fresh`    by induction over any finite sequence of setter calls and method calls: the object
                                equals the fresh object with the final constants
  `csEOSAt_construct`        the interface read from a constructed dictionary is the fresh-object model of t_eos.py
  `cs_after_setters`         hence after ANY sequence: closures mutually inverse, analytic derivatives = derivatives
                                (every statement of CarnahanStarling.lean transfers)
-/
import EPV.Lemmas.SetterMachine
import EPV.Props.C16.CarnahanStarling
import EPV.Gen.EosBCS_init
import EPV.Gen.EosBCS_set_new_co_volume
import EPV.Gen.EosBCS_at_e
import EPV.Gen.EosBCS_at_de_drho
import EPV.Gen.EosBCS_at_de_dP
import EPV.Gen.EosBCS_at_P
import EPV.Gen.EosBCS_at_dP_drho
import EPV.Gen.EosBCS_at_dP_de
import EPV.Gen.EosBCS_calls

set_option linter.all false

open EPV EPV.Gen EPV.Spec EPV.Setters

namespace EPV.C16

noncomputable section

/-- the attribute dictionary of a `carnahan_starling_eos` object -/
structure CSAttrs where
  b : ℝ
  gamma : ℝ

/-- the constructor constants `carnahan_starling_eos(gamma, b)` -/
structure CSConsts where
  gamma : ℝ
  b : ℝ

/-- the documented operations: every setter, and "call every public method once" -/
inductive CSOp where
  /-- `set_new_co_volume(v)` -/
  | setCoVolume (v : ℝ)
  /-- any method calls (arguments x0, x1) -/
  | call (x0 x1 : ℝ)

/-- `__init__` as traced -/
def csConstruct (c : CSConsts) : CSAttrs :=
  { b := EosBCS_init.b { b := c.b, gamma := c.gamma },
    gamma := EosBCS_init.gamma { b := c.b, gamma := c.gamma } }

/-- the operations as traced, on an ARBITRARY attribute dictionary -/
def csApply : CSOp → CSAttrs → CSAttrs
  | .setCoVolume v, a =>
    { b := EosBCS_set_new_co_volume.b { a_b := a.b, a_gamma := a.gamma, new := v },
      gamma := EosBCS_set_new_co_volume.gamma { a_b := a.b, a_gamma := a.gamma, new := v } }
  | .call x0 x1, a =>
    { b := EosBCS_calls.b { a_b := a.b, a_gamma := a.gamma } x0 x1,
      gamma := EosBCS_calls.gamma { a_b := a.b, a_gamma := a.gamma } x0 x1 }

/-- what the operations MEAN: the constants of the fresh object that the mutated object must equal -/
def csUpdate : CSOp → CSConsts → CSConsts
  | .setCoVolume v, c => { c with b := v }
  | .call _ _, c => c

def csMachine : Machine CSConsts CSAttrs CSOp := ⟨csConstruct, csApply, csUpdate⟩

/-- constructor, setters and methods all see exactly the attributes b, gamma -/
theorem cs_attrs :
    EosBCS_init.fieldNames = ["b", "gamma"]
    ∧ EosBCS_set_new_co_volume.fieldNames = ["b", "gamma"]
    ∧ EosBCS_calls.fieldNames = ["b", "gamma"] :=
  ⟨rfl, rfl, rfl⟩

/-- no public method of `carnahan_starling_eos` changes (or adds to) the attribute dictionary, whatever the dictionary and the arguments -/
theorem cs_calls_pure (a : CSAttrs) (x0 x1 : ℝ) : csApply (.call x0 x1) a = a := by
  obtain ⟨b, gamma⟩ := a
  simp only [csApply, epv_tree, epv_leaf, ite_self]

/-- **setter = reconstruction**: `after (set_new_X v) (construct c) = construct (c with X := v)`, all attributes -/
theorem cs_sound : csMachine.Sound := by
  intro o c
  cases o <;> simp only [csMachine, csApply, csConstruct, csUpdate, epv_tree, epv_leaf, ite_self]

/-- **any reachable `carnahan_starling_eos` object equals the fresh object with the final constants** (induction over the sequence) -/
theorem cs_reachable_eq_fresh (ops : List CSOp) (c : CSConsts) :
    csMachine.run ops (csConstruct c) = csConstruct (csMachine.final ops c) :=
  reachable_eq_fresh csMachine cs_sound ops c

/-- no setter touches γ -/
theorem cs_final_gamma (ops : List CSOp) (c : CSConsts) : (csMachine.final ops c).gamma = c.gamma := by
  induction ops generalizing c with
  | nil => rfl
  | cons o os ih =>
    show (csMachine.final os (csUpdate o c)).gamma = c.gamma
    rw [ih]
    cases o <;> rfl

/-- the EOS interface read from an attribute dictionary (each method traced on a dictionary of independent symbols) -/
def csEOSAt (a : CSAttrs) : EOS where
  e := EosBCS_at_e.e { a_b := a.b, a_gamma := a.gamma }
  de_drho := EosBCS_at_de_drho.de_drho { a_b := a.b, a_gamma := a.gamma }
  de_dP := EosBCS_at_de_dP.de_dP { a_b := a.b, a_gamma := a.gamma }
  P := EosBCS_at_P.Pfun { a_b := a.b, a_gamma := a.gamma }
  dP_drho := EosBCS_at_dP_drho.dP_drho { a_b := a.b, a_gamma := a.gamma }
  dP_de := EosBCS_at_dP_de.dP_de { a_b := a.b, a_gamma := a.gamma }

/-- on a constructed dictionary this is the fresh-object model the theorems of CarnahanStarling.lean are about -/
theorem csEOSAt_construct (c : CSConsts) : csEOSAt (csConstruct c) = csEOS c.gamma c.b := by
  simp only [csEOSAt, csConstruct, csEOS, epv_tree, epv_leaf]
  congr 1 <;> (funext ρ x; simp only [epv_tree, epv_leaf, epv_cond])

/-- after ANY sequence of setter and method calls the interface is that of the fresh object with the final constants -/
theorem cs_interface_after_setters (ops : List CSOp) (c : CSConsts) :
    csEOSAt (csMachine.run ops (csConstruct c))
      = (fun c => csEOS c.gamma c.b) (csMachine.final ops c) := by
  rw [cs_reachable_eq_fresh, csEOSAt_construct]

/-- **Carnahan–Starling gas, mutated**: after any sequence of `set_new_co_volume` and method calls, with the FINAL
co-volume b: closures mutually inverse, `de_dP`, `dP_drho`, `dP_de` the derivatives (`de_drho` is wrong on a fresh
object already — FindingCarnahanStarling.lean — and stays exactly as wrong) -/
theorem cs_after_setters (ops : List CSOp) (c : CSConsts) (ρ x : ℝ) (hγ : c.gamma ≠ 1) (hρ : ρ ≠ 0)
    (hη : (csMachine.final ops c).b * ρ ≠ 1) (hZ : csZnum ((csMachine.final ops c).b * ρ) ≠ 0) :
    (csEOSAt (csMachine.run ops (csConstruct c))).InverseAt ρ
    ∧ HasDerivAt (fun q => (csEOSAt (csMachine.run ops (csConstruct c))).e ρ q)
        ((csEOSAt (csMachine.run ops (csConstruct c))).de_dP ρ x) x
    ∧ (csEOSAt (csMachine.run ops (csConstruct c))).PressureDerivsAt ρ x := by
  rw [cs_interface_after_setters]
  have hγ' : (csMachine.final ops c).gamma ≠ 1 := by rw [cs_final_gamma]; exact hγ
  exact ⟨cs_inverse _ _ _ hγ' hρ hη hZ, cs_de_dP _ _ _ _ hρ hη, cs_pressure_derivs _ _ _ _ hρ hη⟩

/-- non-vacuity at the class defaults γ = 5/3, b = 1 (ρ = 1, η = 1/2 after the setter call) -/
example : (csEOSAt (csMachine.run [.setCoVolume (1/2)] (csConstruct ⟨5/3, 1⟩))).InverseAt 1 :=
  (cs_after_setters _ _ 1 0 (by norm_num) (by norm_num) (by show (1/2 : ℝ) * 1 ≠ 1; norm_num)
    (by show csZnum ((1/2 : ℝ) * 1) ≠ 0; unfold csZnum; norm_num)).1

end

end EPV.C16
