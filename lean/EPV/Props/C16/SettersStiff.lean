/-
C16 — the EOS objects are MUTABLE: `stiffened_gas_eos` (set_new_sound_speed, set_new_reference_density — every `set_*` method of the class, found by
introspection; `o_c16b.coverage_tie` reports a setter that has no theorem here).  The theorems of Stiff.lean are about
FRESH objects.  Here the object is a state machine over its attribute dictionary (`EPV.Setters.Machine`), every piece
traced from the code (t_eos_b.py):

  construct   `EosBStiff_init`          the attribute dictionary `__init__` creates from the constants
  apply       `EosBStiff_<setter>`      the dictionary after the setter, from a dictionary of INDEPENDENT symbols
              `EosBStiff_calls`         the dictionary after calling every public non-setter method once
  methods     `EosBStiff_at_<m>`        the six interface methods read from an arbitrary dictionary

  `stiff_attrs`                 the attribute lists of all these models coincide (a new / cached / lazily created
                                attribute breaks this pin and the structure literals below instead of escaping)
  `stiff_calls_pure`            no method mutates the dictionary (from ANY dictionary)
  `stiff_sound`                 after (set_new_X v) (construct c) = construct (c with X := v) — ALL attributes
  `stiff_reachable_eq_fresh`    by induction over any finite sequence of setter calls and method calls: the object
                                equals the fresh object with the final constants
  `stiffEOSAt_construct`        the interface read from a constructed dictionary is the fresh-object model of t_eos.py
  `stiff_after_setters`         hence after ANY sequence: closures mutually inverse, analytic derivatives = derivatives
                                (every statement of Stiff.lean transfers)
-/
import EPV.Lemmas.SetterMachine
import EPV.Props.C16.Stiff
import EPV.Gen.EosBStiff_init
import EPV.Gen.EosBStiff_set_new_reference_density
import EPV.Gen.EosBStiff_set_new_sound_speed
import EPV.Gen.EosBStiff_at_e
import EPV.Gen.EosBStiff_at_de_drho
import EPV.Gen.EosBStiff_at_de_dP
import EPV.Gen.EosBStiff_at_P
import EPV.Gen.EosBStiff_at_dP_drho
import EPV.Gen.EosBStiff_at_dP_de
import EPV.Gen.EosBStiff_calls

set_option linter.all false

open EPV EPV.Gen EPV.Spec EPV.Setters

namespace EPV.C16

noncomputable section

/-- the attribute dictionary of a `stiffened_gas_eos` object -/
structure StiffAttrs where
  c_s : ℝ
  gamma : ℝ
  rho_inf : ℝ

/-- the constructor constants `stiffened_gas_eos(gamma, c_s, rho_inf)` -/
structure StiffConsts where
  gamma : ℝ
  c_s : ℝ
  rho_inf : ℝ

/-- the documented operations: every setter, and "call every public method once" -/
inductive StiffOp where
  /-- `set_new_reference_density(v)` -/
  | setReferenceDensity (v : ℝ)
  /-- `set_new_sound_speed(v)` -/
  | setSoundSpeed (v : ℝ)
  /-- any method calls (arguments x0, x1) -/
  | call (x0 x1 : ℝ)

/-- `__init__` as traced -/
def stiffConstruct (c : StiffConsts) : StiffAttrs :=
  { c_s := EosBStiff_init.c_s { c_s := c.c_s, gamma := c.gamma, rho_inf := c.rho_inf },
    gamma := EosBStiff_init.gamma { c_s := c.c_s, gamma := c.gamma, rho_inf := c.rho_inf },
    rho_inf := EosBStiff_init.rho_inf { c_s := c.c_s, gamma := c.gamma, rho_inf := c.rho_inf } }

/-- the operations as traced, on an ARBITRARY attribute dictionary -/
def stiffApply : StiffOp → StiffAttrs → StiffAttrs
  | .setReferenceDensity v, a =>
    { c_s := EosBStiff_set_new_reference_density.c_s { a_c_s := a.c_s, a_gamma := a.gamma, a_rho_inf := a.rho_inf, new := v },
      gamma := EosBStiff_set_new_reference_density.gamma { a_c_s := a.c_s, a_gamma := a.gamma, a_rho_inf := a.rho_inf, new := v },
      rho_inf := EosBStiff_set_new_reference_density.rho_inf { a_c_s := a.c_s, a_gamma := a.gamma, a_rho_inf := a.rho_inf, new := v } }
  | .setSoundSpeed v, a =>
    { c_s := EosBStiff_set_new_sound_speed.c_s { a_c_s := a.c_s, a_gamma := a.gamma, a_rho_inf := a.rho_inf, new := v },
      gamma := EosBStiff_set_new_sound_speed.gamma { a_c_s := a.c_s, a_gamma := a.gamma, a_rho_inf := a.rho_inf, new := v },
      rho_inf := EosBStiff_set_new_sound_speed.rho_inf { a_c_s := a.c_s, a_gamma := a.gamma, a_rho_inf := a.rho_inf, new := v } }
  | .call x0 x1, a =>
    { c_s := EosBStiff_calls.c_s { a_c_s := a.c_s, a_gamma := a.gamma, a_rho_inf := a.rho_inf } x0 x1,
      gamma := EosBStiff_calls.gamma { a_c_s := a.c_s, a_gamma := a.gamma, a_rho_inf := a.rho_inf } x0 x1,
      rho_inf := EosBStiff_calls.rho_inf { a_c_s := a.c_s, a_gamma := a.gamma, a_rho_inf := a.rho_inf } x0 x1 }

/-- what the operations MEAN: the constants of the fresh object that the mutated object must equal -/
def stiffUpdate : StiffOp → StiffConsts → StiffConsts
  | .setReferenceDensity v, c => { c with rho_inf := v }
  | .setSoundSpeed v, c => { c with c_s := v }
  | .call _ _, c => c

def stiffMachine : Machine StiffConsts StiffAttrs StiffOp := ⟨stiffConstruct, stiffApply, stiffUpdate⟩

/-- constructor, setters and methods all see exactly the attributes c_s, gamma, rho_inf -/
theorem stiff_attrs :
    EosBStiff_init.fieldNames = ["c_s", "gamma", "rho_inf"]
    ∧ EosBStiff_set_new_reference_density.fieldNames = ["c_s", "gamma", "rho_inf"]
    ∧ EosBStiff_set_new_sound_speed.fieldNames = ["c_s", "gamma", "rho_inf"]
    ∧ EosBStiff_calls.fieldNames = ["c_s", "gamma", "rho_inf"] :=
  ⟨rfl, rfl, rfl, rfl⟩

/-- no public method of `stiffened_gas_eos` changes (or adds to) the attribute dictionary, whatever the dictionary and the arguments -/
theorem stiff_calls_pure (a : StiffAttrs) (x0 x1 : ℝ) : stiffApply (.call x0 x1) a = a := by
  obtain ⟨c_s, gamma, rho_inf⟩ := a
  simp only [stiffApply, epv_tree, epv_leaf, ite_self]

/-- **setter = reconstruction**: `after (set_new_X v) (construct c) = construct (c with X := v)`, all attributes -/
theorem stiff_sound : stiffMachine.Sound := by
  intro o c
  cases o <;> simp only [stiffMachine, stiffApply, stiffConstruct, stiffUpdate, epv_tree, epv_leaf, ite_self]

/-- **any reachable `stiffened_gas_eos` object equals the fresh object with the final constants** (induction over the sequence) -/
theorem stiff_reachable_eq_fresh (ops : List StiffOp) (c : StiffConsts) :
    stiffMachine.run ops (stiffConstruct c) = stiffConstruct (stiffMachine.final ops c) :=
  reachable_eq_fresh stiffMachine stiff_sound ops c

/-- no setter touches γ -/
theorem stiff_final_gamma (ops : List StiffOp) (c : StiffConsts) : (stiffMachine.final ops c).gamma = c.gamma := by
  induction ops generalizing c with
  | nil => rfl
  | cons o os ih =>
    show (stiffMachine.final os (stiffUpdate o c)).gamma = c.gamma
    rw [ih]
    cases o <;> rfl

/-- the EOS interface read from an attribute dictionary (each method traced on a dictionary of independent symbols) -/
def stiffEOSAt (a : StiffAttrs) : EOS where
  e := EosBStiff_at_e.e { a_c_s := a.c_s, a_gamma := a.gamma, a_rho_inf := a.rho_inf }
  de_drho := EosBStiff_at_de_drho.de_drho { a_c_s := a.c_s, a_gamma := a.gamma, a_rho_inf := a.rho_inf }
  de_dP := EosBStiff_at_de_dP.de_dP { a_c_s := a.c_s, a_gamma := a.gamma, a_rho_inf := a.rho_inf }
  P := EosBStiff_at_P.Pfun { a_c_s := a.c_s, a_gamma := a.gamma, a_rho_inf := a.rho_inf }
  dP_drho := EosBStiff_at_dP_drho.dP_drho { a_c_s := a.c_s, a_gamma := a.gamma, a_rho_inf := a.rho_inf }
  dP_de := EosBStiff_at_dP_de.dP_de { a_c_s := a.c_s, a_gamma := a.gamma, a_rho_inf := a.rho_inf }

/-- on a constructed dictionary this is the fresh-object model the theorems of Stiff.lean are about -/
theorem stiffEOSAt_construct (c : StiffConsts) : stiffEOSAt (stiffConstruct c) = stiffEOS c.gamma c.c_s c.rho_inf := by
  simp only [stiffEOSAt, stiffConstruct, stiffEOS, epv_tree, epv_leaf]
  congr 1 <;> (funext ρ x; simp only [epv_tree, epv_leaf, epv_cond])

/-- after ANY sequence of setter and method calls the interface is that of the fresh object with the final constants -/
theorem stiff_interface_after_setters (ops : List StiffOp) (c : StiffConsts) :
    stiffEOSAt (stiffMachine.run ops (stiffConstruct c))
      = (fun c => stiffEOS c.gamma c.c_s c.rho_inf) (stiffMachine.final ops c) := by
  rw [stiff_reachable_eq_fresh, stiffEOSAt_construct]

/-- **stiffened gas, mutated**: after any sequence of `set_new_sound_speed`, `set_new_reference_density` and method
calls the closures are mutual inverses and the four analytic partial derivatives are the derivatives of the closures
(γ ≠ 1 is the constructor's γ: no setter changes it; ρ ≠ 0 is what the methods guard) -/
theorem stiff_after_setters (ops : List StiffOp) (c : StiffConsts) (ρ x : ℝ) (hγ : c.gamma ≠ 1) (hρ : ρ ≠ 0) :
    (stiffEOSAt (stiffMachine.run ops (stiffConstruct c))).InverseAt ρ
    ∧ (stiffEOSAt (stiffMachine.run ops (stiffConstruct c))).EnergyDerivsAt ρ x
    ∧ (stiffEOSAt (stiffMachine.run ops (stiffConstruct c))).PressureDerivsAt ρ x := by
  rw [stiff_interface_after_setters]
  have hγ' : (stiffMachine.final ops c).gamma ≠ 1 := by rw [stiff_final_gamma]; exact hγ
  exact ⟨stiff_inverse _ _ _ _ hγ' hρ, stiff_energy_derivs _ _ _ _ _ hγ' hρ, stiff_pressure_derivs _ _ _ _ _⟩

/-- the final constants are what one expects: the last value set wins -/
theorem stiff_final_example (c : StiffConsts) (v w u : ℝ) :
    stiffMachine.final [.setSoundSpeed v, .call 1 2, .setReferenceDensity w, .setSoundSpeed u] c
      = { gamma := c.gamma, c_s := u, rho_inf := w } := rfl

/-- non-vacuity at the class defaults γ = 5/3, c_s² = 5/3, ρ_∞ = 1, after one setter call -/
example : (stiffEOSAt (stiffMachine.run [.setSoundSpeed 2] (stiffConstruct ⟨5/3, Real.sqrt (5/3), 1⟩))).InverseAt 1 :=
  (stiff_after_setters _ _ 1 0 (by norm_num) (by norm_num)).1

end

end EPV.C16
