/-
C16 — Carnahan–Starling gas (`carnahan_starling_eos`): closures mutually inverse; `de_dP`,
`dP_drho`, `dP_de`, `dZ_deta`, `deta_drho` are the derivatives of their closures, for every
co-volume b, every γ ≠ 1, every density ρ ≠ 0 with packing fraction η = bρ ≠ 1 (the guards of
`eta` and `Z`) and compressibility Z(η) ≠ 0 (`e` divides by it).

`de_drho` is NOT the derivative of `e` — see FindingCarnahanStarling.lean; the lemma
`cs_e_hasDerivAt_rho` gives the true derivative (generated certificate), and
`cs_de_drho_swapped_times_P` states exactly what the method computes:
P · de_drho(P, ρ) = ∂e/∂ρ (ρ, P), i.e. arguments swapped and the factor P missing.
-/
import EPV.Gen.EosCS_eD
import EPV.Gen.EosCS_de_drho
import EPV.Gen.EosCS_de_dP
import EPV.Gen.EosCS_PD
import EPV.Gen.EosCS_dP_drho
import EPV.Gen.EosCS_dP_de
import EPV.Gen.EosCS_etaD
import EPV.Gen.EosCS_deta_drho
import EPV.Gen.EosCS_ZD
import EPV.Gen.EosCS_dZ_deta
import EPV.Spec.EOS
import EPV.Tactics
import EPV.Lemmas.Bridge.EosTac

set_option linter.all false

open EPV EPV.Gen EPV.Spec

namespace EPV.C16

/-- `carnahan_starling_eos(gamma, b)`: every method is the traced model of the Python method,
called positionally with the density first, as the residual classes do -/
noncomputable def csEOS (γ b : ℝ) : EOS where
  e := EosCS_e.e { gamma := γ, b := b }
  de_drho := EosCS_de_drho.de_drho { gamma := γ, b := b }
  de_dP := EosCS_de_dP.de_dP { gamma := γ, b := b }
  P := EosCS_P.Pfun { gamma := γ, b := b }
  dP_drho := EosCS_dP_drho.dP_drho { gamma := γ, b := b }
  dP_de := EosCS_dP_de.dP_de { gamma := γ, b := b }

/-- numerator of the compressibility factor Z(η) = (1 + η + η² - η³)/(1 - η)³ -/
def csZnum (η : ℝ) : ℝ := 1 + η + η ^ 2 - η ^ 3

/-- the traced models have exactly the leaves the proofs below name -/
theorem cs_leaves : EosCS_e.okLeaves = [2] ∧ EosCS_P.okLeaves = [2] ∧ EosCS_Z.okLeaves = [1]
    ∧ EosCS_eta.okLeaves = [1] := ⟨rfl, rfl, rfl, rfl⟩

/-- closures are mutual inverses -/
theorem cs_inverse (γ b ρ : ℝ) (hγ : γ ≠ 1) (hρ : ρ ≠ 0) (hη : b * ρ ≠ 1) (hZ : csZnum (b * ρ) ≠ 0) :
    (csEOS γ b).InverseAt ρ := by
  have h1 : γ - 1 ≠ 0 := sub_ne_zero.mpr hγ
  have h2 : 1 - b * ρ ≠ 0 := sub_ne_zero.mpr (Ne.symm hη)
  unfold csZnum at hZ
  constructor
  · intro P
    simp only [csEOS]
    epv_eos_eq
  · intro e
    simp only [csEOS]
    epv_eos_eq

/-- the true ∂e/∂ρ at constant P: the generated derivative of the traced closure -/
theorem cs_e_hasDerivAt_rho (γ b ρ P : ℝ) (hγ : γ ≠ 1) (hρ : ρ ≠ 0) (hη : b * ρ ≠ 1) (hZ : csZnum (b * ρ) ≠ 0) :
    HasDerivAt (fun r => (csEOS γ b).e r P) (EosCS_e.L2.e_drho { gamma := γ, b := b } ρ P) ρ := by
  have h1 : γ - 1 ≠ 0 := sub_ne_zero.mpr hγ
  have h2 : 1 - b * ρ ≠ 0 := sub_ne_zero.mpr (Ne.symm hη)
  unfold csZnum at hZ
  have hev : (fun r => EosCS_e.e { gamma := γ, b := b } r P) =ᶠ[nhds ρ] fun r => EosCS_e.L2.e { gamma := γ, b := b } r P := by
    have hc : ContinuousAt (fun r : ℝ => b * r) ρ := by fun_prop
    filter_upwards [isOpen_ne.mem_nhds hρ, hc.eventually_ne hη] with r hr hr'
    epv_eos_at_leaf
  epv_eos_have_cert hd : EosCS_e.L2.e_hasDerivAt_rho { gamma := γ, b := b } ρ P
  exact hd.congr_of_eventuallyEq hev

/-- `de_dP` is ∂e/∂P at constant ρ -/
theorem cs_de_dP (γ b ρ P : ℝ) (hρ : ρ ≠ 0) (hη : b * ρ ≠ 1) :
    HasDerivAt (fun q => (csEOS γ b).e ρ q) ((csEOS γ b).de_dP ρ P) P := by
  have hev : (fun q => EosCS_e.e { gamma := γ, b := b } ρ q) = fun q => EosCS_e.L2.e { gamma := γ, b := b } ρ q := by
    funext q
    epv_eos_at_leaf
  simp only [csEOS]
  rw [hev]
  epv_eos_have_cert hd : EosCS_e.L2.e_hasDerivAt_pres { gamma := γ, b := b } ρ P
  refine hd.congr_deriv ?_
  epv_eos_eq

/-- `dP_drho`, `dP_de` are the partial derivatives of `P(ρ, e)` -/
theorem cs_pressure_derivs (γ b ρ e : ℝ) (hρ : ρ ≠ 0) (hη : b * ρ ≠ 1) : (csEOS γ b).PressureDerivsAt ρ e := by
  have h2 : 1 - b * ρ ≠ 0 := sub_ne_zero.mpr (Ne.symm hη)
  constructor
  · have hev : (fun r => EosCS_P.Pfun { gamma := γ, b := b } r e) =ᶠ[nhds ρ] fun r => EosCS_P.L2.Pfun { gamma := γ, b := b } r e := by
      have hc : ContinuousAt (fun r : ℝ => b * r) ρ := by fun_prop
      filter_upwards [isOpen_ne.mem_nhds hρ, hc.eventually_ne hη] with r hr hr'
      epv_eos_at_leaf
    epv_eos_have_cert hd : EosCS_P.L2.Pfun_hasDerivAt_rho { gamma := γ, b := b } ρ e
    refine (hd.congr_of_eventuallyEq hev).congr_deriv ?_
    simp only [csEOS]
    epv_eos_eq
  · have hev : (fun q => EosCS_P.Pfun { gamma := γ, b := b } ρ q) = fun q => EosCS_P.L2.Pfun { gamma := γ, b := b } ρ q := by
      funext q
      epv_eos_at_leaf
    simp only [csEOS]
    rw [hev]
    epv_eos_have_cert hd : EosCS_P.L2.Pfun_hasDerivAt_sie { gamma := γ, b := b } ρ e
    refine hd.congr_deriv ?_
    epv_eos_eq

/-- `dZ_deta` is the derivative of the compressibility factor `Z` -/
theorem cs_dZ_deta (η : ℝ) (hη : η ≠ 1) :
    HasDerivAt (fun y => EosCS_Z.Z {} y) (EosCS_dZ_deta.dZ_deta {} η) η := by
  have h2 : 1 - η ≠ 0 := sub_ne_zero.mpr (Ne.symm hη)
  have hev : (fun y => EosCS_Z.Z {} y) =ᶠ[nhds η] fun y => EosCS_Z.L1.Z {} y := by
    filter_upwards [isOpen_ne.mem_nhds hη] with y hy
    epv_eos_at_leaf
  epv_eos_have_cert hd : EosCS_Z.L1.Z_hasDerivAt_eta {} η
  refine (hd.congr_of_eventuallyEq hev).congr_deriv ?_
  epv_eos_eq

/-- `deta_drho` is the derivative of the packing fraction `eta` -/
theorem cs_deta_drho (b ρ : ℝ) (hρ : ρ ≠ 0) :
    HasDerivAt (fun r => EosCS_eta.eta { b := b } r) (EosCS_deta_drho.deta_drho { b := b } ρ) ρ := by
  have hev : (fun r => EosCS_eta.eta { b := b } r) =ᶠ[nhds ρ] fun r => EosCS_eta.L1.eta { b := b } r := by
    filter_upwards [isOpen_ne.mem_nhds hρ] with r hr
    epv_eos_at_leaf
  epv_eos_have_cert hd : EosCS_eta.L1.eta_hasDerivAt_rho { b := b } ρ
  refine (hd.congr_of_eventuallyEq hev).congr_deriv ?_
  epv_eos_eq

/-- what `de_drho` actually computes: called with the arguments swapped, and multiplied by the
missing factor P, it is ∂e/∂ρ at constant P -/
theorem cs_de_drho_swapped_times_P (γ b ρ P : ℝ) (hγ : γ ≠ 1) (hρ : ρ ≠ 0) (hη : b * ρ ≠ 1)
    (hZ : csZnum (b * ρ) ≠ 0) :
    HasDerivAt (fun r => (csEOS γ b).e r P) (P * (csEOS γ b).de_drho P ρ) ρ := by
  have h1 : γ - 1 ≠ 0 := sub_ne_zero.mpr hγ
  have h2 : 1 - b * ρ ≠ 0 := sub_ne_zero.mpr (Ne.symm hη)
  refine (cs_e_hasDerivAt_rho γ b ρ P hγ hρ hη hZ).congr_deriv ?_
  unfold csZnum at hZ
  simp only [csEOS]
  epv_eos_eq

/-- non-vacuity at the class defaults γ = 5/3, b = 1 and a gas at half packing, ρ = 1/2 -/
example : (csEOS (5/3) 1).InverseAt (1/2) ∧ (csEOS (5/3) 1).PressureDerivsAt (1/2) 1 :=
  ⟨cs_inverse _ _ _ (by norm_num) (by norm_num) (by norm_num) (by norm_num [csZnum]),
   cs_pressure_derivs _ _ _ _ (by norm_num) (by norm_num)⟩

end EPV.C16
