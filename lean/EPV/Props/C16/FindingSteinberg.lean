/-
C16 — FINDING: on the compressed branch ρ ≥ ρ₀ the Steinberg derivative methods are wrong.

`steinberg.dPinf_drho` differentiates  P_inf = P₀ + c₀² ρ₀ η / poly(η)  as
c₀² ρ₀ (poly + η poly') / poly² · dη/dρ — the quotient rule needs  poly − η poly'.
`deinf_drho`, `dP_drho` (steinberg) and `de_drho` (generic_mie_gruneisen) use `dPinf_drho`,
so all four differ from the derivative of their closure wherever ρ > ρ₀ and η poly'(η) ≠ 0.

Witness: the shipped `aluminum_eos` at ρ = 3 g/cm³ (ρ₀ = 2.703, η = 0.099):
    d P_inf/dρ = 3.9707e11   dPinf_drho = 2.0373e11
    d e_inf/dρ = 1.2773e10   deinf_drho = 9.2322e9
    ∂P/∂ρ (e = 1e10) = 3.3117e11   dP_drho = 1.5718e11
    ∂e/∂ρ (P = 1e11) = -5.9867e10  de_drho = -2.8046e10
(finite differences on the real code agree with the left column: oracle `o_c16.stein_derivs`).
-/
import EPV.Props.C16.SteinbergCompressed

set_option linter.all false

open EPV EPV.Gen EPV.Spec

namespace EPV.C16

/-- `dPinf_drho` is not the derivative of `P_inf` -/
theorem stein_dPinf_drho_finding :
    ¬ HasDerivAt (fun r => EosStein_P_inf.P_inf aluminium.pPinf r) (EosStein_dPinf_drho.dPinf_drho aluminium.pdPinf 3) 3 := by
  intro h
  obtain ⟨h0, hρ, hΓ, hq⟩ := aluminium_compressed_3
  have hc := (stein_ref_hasDerivAt_compressed aluminium 3 h0 hρ hq).1
  have := h.unique hc
  rw [aluminium_constants] at this
  simp only [epv_c16, epv_tree, epv_cond, epv_deriv, epv_leaf] at this
  norm_num at this

/-- `deinf_drho` is not the derivative of `e_inf` -/
theorem stein_deinf_drho_finding :
    ¬ HasDerivAt (fun r => EosStein_e_inf.e_inf aluminium.peinf r) (EosStein_deinf_drho.deinf_drho aluminium.pdeinf 3) 3 := by
  intro h
  obtain ⟨h0, hρ, hΓ, hq⟩ := aluminium_compressed_3
  have hc := (stein_ref_hasDerivAt_compressed aluminium 3 h0 hρ hq).2
  have := h.unique hc
  rw [aluminium_constants] at this
  simp only [epv_c16, epv_tree, epv_cond, epv_deriv, epv_leaf] at this
  norm_num at this

/-- `dP_drho` is not ∂P/∂ρ: the analytic derivatives of `P(ρ, e)` are wrong at (ρ, e) = (3, 10¹⁰) -/
theorem stein_dP_drho_finding : ¬ aluminium.eos.PressureDerivsAt 3 (10 ^ 10) := by
  rintro ⟨h, _⟩
  have hc := stein_P_hasDerivAt_rho_compressed aluminium 3 (10 ^ 10) aluminium_compressed_3
  have := h.unique hc
  rw [aluminium_constants] at this
  simp only [SteinC.eos, epv_c16, epv_tree, epv_cond, epv_deriv, epv_leaf] at this
  norm_num at this

/-- `de_drho` is not ∂e/∂ρ: the analytic derivatives of `e(ρ, P)` are wrong at (ρ, P) = (3, 10¹¹) -/
theorem stein_de_drho_finding : ¬ aluminium.eos.EnergyDerivsAt 3 (10 ^ 11) := by
  rintro ⟨h, _⟩
  have hc := stein_e_hasDerivAt_rho_compressed aluminium 3 (10 ^ 11) aluminium_compressed_3
  have := h.unique hc
  rw [aluminium_constants] at this
  simp only [SteinC.eos, epv_c16, epv_tree, epv_cond, epv_deriv, epv_leaf] at this
  norm_num at this

end EPV.C16
