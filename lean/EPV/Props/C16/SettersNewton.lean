/-
C16 — the Newton solver OBJECT is re-used (hand model `EPV.Model.NewtonObject`, tied to the real object on
operation sequences by `o_c16b.newton_object_tie`, its constructor, setters and `solve` tied to the traced code below).

Property (as extended): every `solve` from any reachable state returns what `solve` returns from the fresh
state with the same function / guess / tolerance / max_iterations — the convergence state is reset.

History.  On the pinned tree this was FALSE: `solve` never reset `self.residual`, `self.error` (only
`set_new_initial_guess` did), so a second `solve` without a new guess — e.g. after `set_new_initial_conditions` on the
residual — found both below the tolerance, skipped the loop and returned the STARTING GUESS after 0 iterations as a
converged solution.  Repaired in /repo by 53f776b (`solve` resets both at entry).  The theorems are about the repaired
code and are tied to it through the traced `solve`: removing or moving the reset breaks `solve2_traced` /
`solve2_ignores_stored_state`, and `o_c16b.newton_seq` reports the failing history.

The frame (why the state of the machine is function / tolerance / guess / max_iterations and nothing else), on traced code:
  `solve2_ignores_stored_state`   `solve`, traced with the stored `residual` / `error` as free symbols, does not depend on them
  `solve2_used_eq`                nor on x_old / x_new / F_x (same tree on an object that has solved before)
  `solve2_traced`                 what it does depend on: the traced tree IS the hand model's `solveS` with fuel 2
                                  (1-D unknown, uninterpreted F, F_prime_inv)
  `newton_fresh_traced`, `newton_setters_traced`, `newton_setters_traced_used`
                                  constructor and every setter on function / tolerance / guess / max_iterations, on both
                                  SHAPES of a reachable state (fresh: function / guess / x_old … still None; used: they
                                  hold objects — `is None` tests on attributes are not decided by symbolic numbers)
On the machine:
  `solve_leaves_state`, `resolve_repeats`   solve changes nothing that is read: solving again reports the same again
  `resolve_eq_fresh`              from the fresh solver, after ANY operations (earlier solves, failed solves, no new guess …):
                                  `solve` reports what a NEW solver configured through the documented setters with the same
                                  function, tolerance, max_iterations and guess reports
  `solve_converged_exit`          whenever `solve` reports convergence — first solve or tenth — the returned point is a
                                  Newton update whose step and function value are not above the tolerance; at least one
                                  and at most max_iterations updates were made
  `solve_jump_conditions_eq_fresh`  what `NohBlackBoxEos.solve_jump_conditions` does on its solver (call sequence traced:
                                  `solve_jump_conditions_calls`) is a fresh solve
-/
import EPV.Model.NewtonObject
import EPV.Gen.NewtonB_init
import EPV.Gen.NewtonB_set_function
import EPV.Gen.NewtonB_set_new_tolerance
import EPV.Gen.NewtonB_set_new_max_iteration
import EPV.Gen.NewtonB_set_new_initial_guess
import EPV.Gen.NewtonB_set_external_log_function
import EPV.Gen.NewtonB_solve2
import EPV.Gen.NewtonB_set_function_used
import EPV.Gen.NewtonB_set_new_tolerance_used
import EPV.Gen.NewtonB_set_new_max_iteration_used
import EPV.Gen.NewtonB_set_new_initial_guess_used
import EPV.Gen.NewtonB_set_external_log_function_used
import EPV.Gen.NewtonB_solve2_used
import EPV.Gen.BBNohB_solve_twice
import EPV.Tactics
import Mathlib.Tactic
import Mathlib.Algebra.Order.Floor.Semiring

set_option linter.all false

open EPV.Gen EPV.Model.NewtonObject

namespace EPV.C16

open EPV.Model

variable {Fn X α : Type}

/-! ### the state machine -/

/-- `solve` changes nothing that any method reads -/
theorem solve_leaves_state (S : Sem Fn X α) (s : State Fn X α) : (step S s .solve).1 = s := by
  unfold step
  cases s.fn <;> cases s.guess <;> rfl

/-- **solving again reports the same again** — no new guess needed, whatever the first solve reported -/
theorem resolve_repeats (S : Sem Fn X α) (s : State Fn X α) :
    (step S (step S s .solve).1 .solve).2 = (step S s .solve).2 := by
  rw [solve_leaves_state]

theorem run_append (S : Sem Fn X α) (a b : List (Op Fn X α)) (s : State Fn X α) :
    (run S (a ++ b) s).1 = (run S b (run S a s).1).1 := by
  induction a generalizing s with
  | nil => rfl
  | cons o os ih => simp only [List.cons_append, run]; exact ih _

/-- the tolerance of a reachable solver is one `set_new_tolerance` accepts (or the default) -/
def TolOK (S : Sem Fn X α) (s : State Fn X α) : Prop := S.gt s.tol S.tolCap = false

theorem tolOK_step (S : Sem Fn X α) (s : State Fn X α) (o : Op Fn X α) (h : TolOK S s) : TolOK S (step S s o).1 := by
  cases o with
  | setFunction f => exact h
  | setTolerance eps =>
    simp only [step]
    split_ifs with hc
    · exact h
    · simpa [TolOK] using hc
  | setMaxIter n => exact h
  | setGuess x => exact h
  | solve => rw [solve_leaves_state]; exact h

theorem tolOK_run (S : Sem Fn X α) (ops : List (Op Fn X α)) : ∀ s, TolOK S s → TolOK S (run S ops s).1 := by
  induction ops with
  | nil => intro s h; exact h
  | cons o os ih => intro s h; simp only [run]; exact ih _ (tolOK_step S s o h)

/-- a NEW solver, configured through the documented setters -/
def configured (S : Sem Fn X α) (f : Fn) (tol : α) (n : Nat) (x : X) : State Fn X α :=
  (run S [.setFunction f, .setTolerance tol, .setMaxIter n, .setGuess x] (fresh S)).1

theorem configured_eq (S : Sem Fn X α) (f : Fn) (tol : α) (n : Nat) (x : X) (htol : S.gt tol S.tolCap = false) :
    configured S f tol n x = { fn := some f, tol := tol, guess := some x, maxIter := n } := by
  simp [configured, run, step, fresh, htol]

/-- **Re-solve = fresh solve.**  Take a new solver (default tolerance acceptable to its own setter, as in the code:
1e-6 ≤ 1e-2), perform ANY sequence of operations — setters, solves that converged, solves that failed, in any order, no
new guess required — and call `solve`.  If function and guess are set (otherwise both sides raise ValueError), it
reports exactly what a NEW solver reports that is given the same function, tolerance, max_iterations and guess through
the documented setters. -/
theorem resolve_eq_fresh (S : Sem Fn X α) (hdef : S.gt S.tolDefault S.tolCap = false) (ops : List (Op Fn X α)) (f : Fn) (x : X)
    (hf : (run S ops (fresh S)).1.fn = some f) (hg : (run S ops (fresh S)).1.guess = some x) :
    (step S (run S ops (fresh S)).1 .solve).2
      = (step S (configured S f (run S ops (fresh S)).1.tol (run S ops (fresh S)).1.maxIter x) .solve).2 := by
  have htol : TolOK S (run S ops (fresh S)).1 := tolOK_run S ops _ hdef
  rw [configured_eq S f _ _ x htol]
  generalize (run S ops (fresh S)).1 = s at hf hg
  obtain ⟨fn, tol, guess, maxIter⟩ := s
  simp only at hf hg
  subst hf hg
  rfl

/-- the loop returns only through its exit test; what it returns is the point it was entered with or the result of one
more update -/
theorem loopS_converged (S : Sem Fn X α) (f : Fn) (tol : α) :
    ∀ (fuel : Nat) (x : X) (res err : α) (it : Nat) (y : X) (n : Nat) (r e : α),
      loopS S f tol fuel x res err it = .converged y n r e →
      (S.gt r tol || S.gt e tol) = false ∧ it ≤ n ∧ n ≤ it + fuel
        ∧ ((y = x ∧ n = it ∧ r = res ∧ e = err) ∨ ∃ z, S.upd f z = .ok (y, r) ∧ S.err f y = .ok e) := by
  intro fuel
  induction fuel with
  | zero =>
    intro x res err it y n r e h
    unfold loopS at h
    split_ifs at h with hc
    simp only [Out.converged.injEq] at h
    obtain ⟨hx, hn, hr, he⟩ := h
    subst hx hn hr he
    exact ⟨by simpa using hc, le_refl _, le_refl _, Or.inl ⟨rfl, rfl, rfl, rfl⟩⟩
  | succ k ih =>
    intro x res err it y n r e h
    unfold loopS at h
    split_ifs at h with hc
    · cases hu : S.upd f x with
      | error kd => simp [hu] at h
      | ok v =>
        obtain ⟨x', r1⟩ := v
        simp only [hu] at h
        cases he : S.err f x' with
        | error kd => simp [he] at h
        | ok e1 =>
          simp only [he] at h
          obtain ⟨h1, h4, h5, h6⟩ := ih x' r1 e1 (it + 1) y n r e h
          refine ⟨h1, by omega, by omega, Or.inr ?_⟩
          rcases h6 with ⟨hx, _, hr, he'⟩ | hz
          · subst hx hr he'
            exact ⟨x, hu, he⟩
          · exact hz
    · simp only [Out.converged.injEq] at h
      obtain ⟨hx, hn, hr, he⟩ := h
      subst hx hn hr he
      exact ⟨by simpa using hc, le_refl _, by omega, Or.inl ⟨rfl, rfl, rfl, rfl⟩⟩

/-- **whenever `solve` reports convergence — from any state, first solve or re-solve —** the returned point `y` is a
Newton update `upd z = (y, r)` whose step length `r` and function value `e = ‖F y‖` are not above the tolerance (the loop
exit condition), and at least one and at most max_iterations updates were made -/
theorem solve_converged_exit (S : Sem Fn X α) (s : State Fn X α) (y : X) (n : Nat) (r e : α)
    (h : (step S s .solve).2 = .converged y n r e) :
    S.gt r s.tol = false ∧ S.gt e s.tol = false ∧ 1 ≤ n ∧ n ≤ s.maxIter
      ∧ ∃ f z, s.fn = some f ∧ S.upd f z = .ok (y, r) ∧ S.err f y = .ok e := by
  obtain ⟨fn, tol, guess, maxIter⟩ := s
  cases fn with
  | none => simp [step] at h
  | some f =>
    cases guess with
    | none => simp [step] at h
    | some x0 =>
      simp only [step, solveS] at h ⊢
      by_cases hten : S.gt S.ten tol = true
      · simp only [hten, if_true] at h
        obtain ⟨h1, _, h5, h6⟩ := loopS_converged S f tol maxIter x0 S.ten S.ten 0 y n r e h
        have hr : S.gt r tol = false ∧ S.gt e tol = false := by simpa using h1
        have hupd : ∃ z, S.upd f z = .ok (y, r) ∧ S.err f y = .ok e := by
          rcases h6 with ⟨_, _, hr', _⟩ | hz
          · rw [hr', hten] at hr; exact absurd hr.1 (by simp)
          · exact hz
        have hn : 1 ≤ n := by
          by_contra hn0
          have hn0' : n = 0 := by omega
          subst hn0'
          -- zero updates would mean the loop was left at its first test, on residual = 10 > tol
          cases maxIter with
          | zero =>
            unfold loopS at h
            simp [hten] at h
          | succ k =>
            unfold loopS at h
            simp only [hten, Bool.or_self, if_true] at h
            cases hu : S.upd f x0 with
            | error kd => simp [hu] at h
            | ok v =>
              obtain ⟨x', r1⟩ := v
              simp only [hu] at h
              cases he : S.err f x' with
              | error kd => simp [he] at h
              | ok e1 =>
                simp only [he] at h
                have := (loopS_converged S f tol k x' r1 e1 1 y 0 r e h).2.1
                omega
        obtain ⟨z, hz⟩ := hupd
        exact ⟨hr.1, hr.2, hn, by omega, f, z, rfl, hz⟩
      · simp only [hten] at h
        simp at h

/-- what `NohBlackBoxEos.solve_jump_conditions` does on its solver object: `set_function`, `set_new_initial_guess`,
`solve` (traced: `solve_jump_conditions_calls`) -/
def solveJump (S : Sem Fn X α) (s : State Fn X α) (f : Fn) (g : X) : State Fn X α × NewtonObject.Out X α :=
  step S (step S (step S s (.setFunction f)).1 (.setGuess g)).1 .solve

/-- **every `solve_jump_conditions`, from any state of the solver object, is a fresh solve**: it reports what the
hand model's `solve` reports for this function and guess with the object's tolerance / max_iterations — nothing of
the object's history enters -/
theorem solve_jump_conditions_eq_fresh (S : Sem Fn X α) (s : State Fn X α) (f : Fn) (g : X) :
    (solveJump S s f g).2 = solveS S f s.tol s.maxIter g
      ∧ (solveJump S s f g).1 = { fn := some f, tol := s.tol, guess := some g, maxIter := s.maxIter } := ⟨rfl, rfl⟩

/-- hence two consecutive `solve_jump_conditions` with the same function and guess report the same -/
theorem solve_jump_conditions_twice (S : Sem Fn X α) (s : State Fn X α) (f : Fn) (g : X) :
    (solveJump S (solveJump S s f g).1 f g).2 = (solveJump S s f g).2 := rfl

/-! ### the witness history of the defect that was repaired -/

/-- an instance of the machine: unknown and scalars in ℤ, the function `F x = x - 1` (`F_prime_inv = 1`), the
update `x - 1·F x`, squared distances as norms -/
def intSem : Sem Unit ℤ ℤ where
  gt := fun a b => decide (a > b)
  ten := 10
  tolDefault := 0
  tolCap := 1
  upd := fun _ x => .ok (x - 1 * (x - 1), ((x - 1 * (x - 1)) - x) * ((x - 1 * (x - 1)) - x))
  err := fun _ x' => .ok ((x' - 1) * (x' - 1))

/-- `set_function; set_new_initial_guess 0; solve; solve`: the first solve converges to the root 1 in two updates, and
the SECOND solve — same object, no new guess — does exactly the same (before the repair it returned the guess 0 after
0 updates) -/
theorem second_solve_same_as_first :
    (run intSem [.setFunction (), .setGuess 0, .solve, .solve] (fresh intSem)).2
      = [.done, .done, .converged 1 2 0 0, .converged 1 2 0 0] := by
  decide

/-! ### ties to the traced code -/

noncomputable section

open Classical

/-- the constants of newton_solvers.py over ℝ, for an arbitrary meaning of the function objects -/
def realSem (upd : Fn → X → Except String (X × ℝ)) (err : Fn → X → Except String ℝ) : Sem Fn X ℝ where
  gt := fun a b => decide (a > b)
  ten := 10
  tolDefault := NewtonB_init.tolerance {}
  tolCap := 1 / 100
  upd := upd
  err := err

/-- `newton_solver()` as traced: max_iterations = 10000, tolerance = the double 1e-6 — which `set_new_tolerance` itself
would accept (hypothesis `hdef` of `resolve_eq_fresh`) -/
theorem newton_fresh_traced (upd : Fn → X → Except String (X × ℝ)) (err : Fn → X → Except String ℝ) :
    let s := fresh (realSem upd err)
    ((s.maxIter : ℝ) = NewtonB_init.max_iterations {} ∧ s.tol = NewtonB_init.tolerance {}
      ∧ NewtonB_init.fieldNames = ["error", "max_iterations", "residual", "tolerance"]
      ∧ |NewtonB_init.tolerance {} - 1 / 1000000| < 1 / 10 ^ 20)
    ∧ (realSem upd err).gt (realSem upd err).tolDefault (realSem upd err).tolCap = false := by
  refine ⟨⟨?_, rfl, rfl, ?_⟩, ?_⟩
  · simp [fresh, epv_tree, epv_leaf]
  · simp only [epv_tree, epv_leaf]
    rw [abs_lt]
    constructor <;> norm_num
  · simp only [realSem, epv_tree, epv_leaf, decide_eq_false_iff_not, gt_iff_lt, not_lt]
    norm_num

/-- every setter of `newton_solver` as traced on an ARBITRARY attribute dictionary (fresh shape; `re`, `er` = whatever
is stored in `residual`, `error`), against `step`, on the attributes that are read -/
theorem newton_setters_traced (upd : Fn → ℝ × ℝ × ℝ → Except String ((ℝ × ℝ × ℝ) × ℝ)) (err : Fn → ℝ × ℝ × ℝ → Except String ℝ)
    (s : State Fn (ℝ × ℝ × ℝ) ℝ) (f : Fn) (g0 g1 g2 eps re er : ℝ) (n : ℕ) :
    let S := realSem upd err
    let pg : NewtonB_set_new_initial_guess.P :=
      { a_error := er, a_max_iterations := s.maxIter, a_residual := re, a_tolerance := s.tol, g0 := g0, g1 := g1, g2 := g2 }
    let pf : NewtonB_set_function.P :=
      { a_error := er, a_max_iterations := s.maxIter, a_residual := re, a_tolerance := s.tol }
    let pl : NewtonB_set_external_log_function.P :=
      { a_error := er, a_max_iterations := s.maxIter, a_residual := re, a_tolerance := s.tol }
    let pm : NewtonB_set_new_max_iteration.P :=
      { a_error := er, a_max_iterations := s.maxIter, a_residual := re, a_tolerance := s.tol, new := n }
    let pt : NewtonB_set_new_tolerance.P :=
      { a_error := er, a_max_iterations := s.maxIter, a_residual := re, a_tolerance := s.tol, new := eps }
    -- set_new_initial_guess: stores the guess, leaves tolerance and max_iterations
    ((step S s (.setGuess (g0, g1, g2))).1.tol = NewtonB_set_new_initial_guess.tolerance pg
      ∧ ((step S s (.setGuess (g0, g1, g2))).1.maxIter : ℝ) = NewtonB_set_new_initial_guess.max_iterations pg
      ∧ (step S s (.setGuess (g0, g1, g2))).1.guess = some (NewtonB_set_new_initial_guess.initial_guess_0 pg, NewtonB_set_new_initial_guess.initial_guess_1 pg, NewtonB_set_new_initial_guess.initial_guess_2 pg)
      ∧ NewtonB_set_new_initial_guess.outcome pg = EPV.Out.ok)
    -- set_function: leaves tolerance, max_iterations
    ∧ ((step S s (.setFunction f)).1.tol = NewtonB_set_function.tolerance pf
      ∧ ((step S s (.setFunction f)).1.maxIter : ℝ) = NewtonB_set_function.max_iterations pf
      ∧ NewtonB_set_function.outcome pf = EPV.Out.ok)
    -- set_external_log_function: not an operation of the machine, touches nothing the machine has
    ∧ (s.tol = NewtonB_set_external_log_function.tolerance pl ∧ (s.maxIter : ℝ) = NewtonB_set_external_log_function.max_iterations pl)
    -- set_new_max_iteration
    ∧ ((step S s (.setMaxIter n)).1.tol = NewtonB_set_new_max_iteration.tolerance pm
      ∧ ((step S s (.setMaxIter n)).1.maxIter : ℝ) = NewtonB_set_new_max_iteration.max_iterations pm)
    -- set_new_tolerance: rejects eps > 1/100 (ValueError, nothing changed), otherwise only stores it
    ∧ (((step S s (.setTolerance eps)).2 = .done ↔ NewtonB_set_new_tolerance.outcome pt = EPV.Out.ok)
      ∧ ((step S s (.setTolerance eps)).2 = .raised "ValueError" ↔ NewtonB_set_new_tolerance.outcome pt = EPV.Out.raise "ValueError")
      ∧ (NewtonB_set_new_tolerance.outcome pt = EPV.Out.ok →
          (step S s (.setTolerance eps)).1.tol = NewtonB_set_new_tolerance.tolerance pt
          ∧ ((step S s (.setTolerance eps)).1.maxIter : ℝ) = NewtonB_set_new_tolerance.max_iterations pt)
      ∧ (NewtonB_set_new_tolerance.outcome pt ≠ EPV.Out.ok → (step S s (.setTolerance eps)).1 = s)) := by
  intro S pg pf pl pm pt
  refine ⟨⟨?_, ?_, ?_, ?_⟩, ⟨?_, ?_, ?_⟩, ⟨?_, ?_⟩, ⟨?_, ?_⟩, ?_, ?_, ?_, ?_⟩
  all_goals try (simp [step, S, realSem, pg, pf, pl, pm, epv_tree, epv_leaf]; done)
  all_goals
    by_cases hc : (100 : ℝ)⁻¹ < eps
    · simp [step, S, realSem, pt, epv_tree, epv_leaf, epv_cond, hc]
    · simp [step, S, realSem, pt, epv_tree, epv_leaf, epv_cond, hc]

/-- the same on the USED shape (function, guess, x_old, x_new, F_x hold objects: the state after any solve): the setters
do exactly the same, and nothing reads the scratch vectors x_old, x_new, F_x -/
theorem newton_setters_traced_used (upd : Fn → ℝ × ℝ × ℝ → Except String ((ℝ × ℝ × ℝ) × ℝ)) (err : Fn → ℝ × ℝ × ℝ → Except String ℝ)
    (s : State Fn (ℝ × ℝ × ℝ) ℝ) (f : Fn) (a0 a1 a2 g0 g1 g2 eps re er : ℝ) (n : ℕ) (xo xn fx : ℝ × ℝ × ℝ)
    (hs : s.guess = some (a0, a1, a2)) :
    let S := realSem upd err
    let pg : NewtonB_set_new_initial_guess_used.P :=
      { a_error := er, a_max_iterations := s.maxIter, a_residual := re, a_tolerance := s.tol, g0 := g0, g1 := g1, g2 := g2,
        a_g0 := a0, a_g1 := a1, a_g2 := a2, a_x_old_0 := xo.1, a_x_old_1 := xo.2.1, a_x_old_2 := xo.2.2,
        a_x_new_0 := xn.1, a_x_new_1 := xn.2.1, a_x_new_2 := xn.2.2, a_F_x_0 := fx.1, a_F_x_1 := fx.2.1, a_F_x_2 := fx.2.2 }
    let pf : NewtonB_set_function_used.P :=
      { a_error := er, a_max_iterations := s.maxIter, a_residual := re, a_tolerance := s.tol,
        a_g0 := a0, a_g1 := a1, a_g2 := a2, a_x_old_0 := xo.1, a_x_old_1 := xo.2.1, a_x_old_2 := xo.2.2,
        a_x_new_0 := xn.1, a_x_new_1 := xn.2.1, a_x_new_2 := xn.2.2, a_F_x_0 := fx.1, a_F_x_1 := fx.2.1, a_F_x_2 := fx.2.2 }
    let pl : NewtonB_set_external_log_function_used.P :=
      { a_error := er, a_max_iterations := s.maxIter, a_residual := re, a_tolerance := s.tol,
        a_g0 := a0, a_g1 := a1, a_g2 := a2, a_x_old_0 := xo.1, a_x_old_1 := xo.2.1, a_x_old_2 := xo.2.2,
        a_x_new_0 := xn.1, a_x_new_1 := xn.2.1, a_x_new_2 := xn.2.2, a_F_x_0 := fx.1, a_F_x_1 := fx.2.1, a_F_x_2 := fx.2.2 }
    let pm : NewtonB_set_new_max_iteration_used.P :=
      { a_error := er, a_max_iterations := s.maxIter, a_residual := re, a_tolerance := s.tol, new := n,
        a_g0 := a0, a_g1 := a1, a_g2 := a2, a_x_old_0 := xo.1, a_x_old_1 := xo.2.1, a_x_old_2 := xo.2.2,
        a_x_new_0 := xn.1, a_x_new_1 := xn.2.1, a_x_new_2 := xn.2.2, a_F_x_0 := fx.1, a_F_x_1 := fx.2.1, a_F_x_2 := fx.2.2 }
    let pt : NewtonB_set_new_tolerance_used.P :=
      { a_error := er, a_max_iterations := s.maxIter, a_residual := re, a_tolerance := s.tol, new := eps,
        a_g0 := a0, a_g1 := a1, a_g2 := a2, a_x_old_0 := xo.1, a_x_old_1 := xo.2.1, a_x_old_2 := xo.2.2,
        a_x_new_0 := xn.1, a_x_new_1 := xn.2.1, a_x_new_2 := xn.2.2, a_F_x_0 := fx.1, a_F_x_1 := fx.2.1, a_F_x_2 := fx.2.2 }
    -- set_new_initial_guess: stores the guess, leaves tolerance and max_iterations
    ((step S s (.setGuess (g0, g1, g2))).1.tol = NewtonB_set_new_initial_guess_used.tolerance pg
      ∧ ((step S s (.setGuess (g0, g1, g2))).1.maxIter : ℝ) = NewtonB_set_new_initial_guess_used.max_iterations pg
      ∧ (step S s (.setGuess (g0, g1, g2))).1.guess = some (NewtonB_set_new_initial_guess_used.initial_guess_0 pg, NewtonB_set_new_initial_guess_used.initial_guess_1 pg, NewtonB_set_new_initial_guess_used.initial_guess_2 pg)
      ∧ NewtonB_set_new_initial_guess_used.outcome pg = EPV.Out.ok)
    -- set_function: leaves tolerance, max_iterations, guess
    ∧ ((step S s (.setFunction f)).1.tol = NewtonB_set_function_used.tolerance pf
      ∧ ((step S s (.setFunction f)).1.maxIter : ℝ) = NewtonB_set_function_used.max_iterations pf
      ∧ (step S s (.setFunction f)).1.guess = some (NewtonB_set_function_used.initial_guess_0 pf, NewtonB_set_function_used.initial_guess_1 pf, NewtonB_set_function_used.initial_guess_2 pf)
      ∧ NewtonB_set_function_used.outcome pf = EPV.Out.ok)
    -- set_external_log_function: not an operation of the machine, touches nothing the machine has
    ∧ (s.tol = NewtonB_set_external_log_function_used.tolerance pl ∧ (s.maxIter : ℝ) = NewtonB_set_external_log_function_used.max_iterations pl
      ∧ s.guess = some (NewtonB_set_external_log_function_used.initial_guess_0 pl, NewtonB_set_external_log_function_used.initial_guess_1 pl, NewtonB_set_external_log_function_used.initial_guess_2 pl))
    -- set_new_max_iteration
    ∧ ((step S s (.setMaxIter n)).1.tol = NewtonB_set_new_max_iteration_used.tolerance pm
      ∧ ((step S s (.setMaxIter n)).1.maxIter : ℝ) = NewtonB_set_new_max_iteration_used.max_iterations pm
      ∧ (step S s (.setMaxIter n)).1.guess = some (NewtonB_set_new_max_iteration_used.initial_guess_0 pm, NewtonB_set_new_max_iteration_used.initial_guess_1 pm, NewtonB_set_new_max_iteration_used.initial_guess_2 pm))
    -- set_new_tolerance: rejects eps > 1/100 (ValueError, nothing changed), otherwise only stores it
    ∧ (((step S s (.setTolerance eps)).2 = .done ↔ NewtonB_set_new_tolerance_used.outcome pt = EPV.Out.ok)
      ∧ ((step S s (.setTolerance eps)).2 = .raised "ValueError" ↔ NewtonB_set_new_tolerance_used.outcome pt = EPV.Out.raise "ValueError")
      ∧ (NewtonB_set_new_tolerance_used.outcome pt = EPV.Out.ok →
          (step S s (.setTolerance eps)).1.tol = NewtonB_set_new_tolerance_used.tolerance pt
          ∧ ((step S s (.setTolerance eps)).1.maxIter : ℝ) = NewtonB_set_new_tolerance_used.max_iterations pt
          ∧ (step S s (.setTolerance eps)).1.guess = some (NewtonB_set_new_tolerance_used.initial_guess_0 pt, NewtonB_set_new_tolerance_used.initial_guess_1 pt, NewtonB_set_new_tolerance_used.initial_guess_2 pt))
      ∧ (NewtonB_set_new_tolerance_used.outcome pt ≠ EPV.Out.ok → (step S s (.setTolerance eps)).1 = s)) := by
  intro S pg pf pl pm pt
  refine ⟨⟨?_, ?_, ?_, ?_⟩, ⟨?_, ?_, ?_, ?_⟩, ⟨?_, ?_, ?_⟩, ⟨?_, ?_, ?_⟩, ?_, ?_, ?_, ?_⟩
  all_goals try (simp [step, S, realSem, pg, pf, pl, pm, hs, epv_tree, epv_leaf]; done)
  all_goals
    by_cases hc : (100 : ℝ)⁻¹ < eps
    · simp [step, S, realSem, pt, hs, epv_tree, epv_leaf, epv_cond, hc]
    · simp [step, S, realSem, pt, hs, epv_tree, epv_leaf, epv_cond, hc]

/-- the numeric attributes of a `newton_solver` are exactly these (a new attribute breaks this pin instead of escaping) -/
theorem newton_attrs :
    NewtonB_set_new_initial_guess.fieldNames
        = ["error", "initial_guess_0", "initial_guess_1", "initial_guess_2", "max_iterations", "residual", "tolerance"]
    ∧ NewtonB_set_function.fieldNames = ["error", "max_iterations", "residual", "tolerance"]
    ∧ NewtonB_set_new_tolerance.fieldNames = ["error", "max_iterations", "residual", "tolerance"]
    ∧ NewtonB_set_new_max_iteration.fieldNames = ["error", "max_iterations", "residual", "tolerance"]
    ∧ NewtonB_set_external_log_function.fieldNames = ["error", "max_iterations", "residual", "tolerance"]
    ∧ (∀ l ∈ [NewtonB_set_new_initial_guess_used.fieldNames, NewtonB_set_function_used.fieldNames,
              NewtonB_set_new_tolerance_used.fieldNames, NewtonB_set_new_max_iteration_used.fieldNames,
              NewtonB_set_external_log_function_used.fieldNames],
        l = ["error", "initial_guess_0", "initial_guess_1", "initial_guess_2", "max_iterations", "residual", "tolerance"]) := by
  refine ⟨rfl, rfl, rfl, rfl, rfl, ?_⟩
  intro l hl
  simp only [List.mem_cons, List.mem_nil_iff, or_false] at hl
  rcases hl with rfl | rfl | rfl | rfl | rfl <;> rfl

/-- the 1-D machine over uninterpreted `F`, `F_prime_inv : ℝ → ℝ`, with numpy's norm of a 1-vector `sqrt(v·v)` -/
def sem1D (F Finv : ℝ → ℝ) : Sem Unit ℝ ℝ :=
  realSem (fun _ x => .ok (x - Finv x * F x, Real.sqrt (((x - Finv x * F x) - x) * ((x - Finv x * F x) - x))))
    (fun _ x' => .ok (Real.sqrt (F x' * F x')))

/-- first iterate, its step length and function value; second iterate, … -/
def it1 (F Finv : ℝ → ℝ) (g : ℝ) : ℝ := g - Finv g * F g
def res1 (F Finv : ℝ → ℝ) (g : ℝ) : ℝ := Real.sqrt (((g - Finv g * F g) - g) * ((g - Finv g * F g) - g))
def err1 (F Finv : ℝ → ℝ) (g : ℝ) : ℝ := Real.sqrt (F (g - Finv g * F g) * F (g - Finv g * F g))
def it2 (F Finv : ℝ → ℝ) (g : ℝ) : ℝ := (g - Finv g * F g) - Finv (g - Finv g * F g) * F (g - Finv g * F g)
def res2 (F Finv : ℝ → ℝ) (g : ℝ) : ℝ :=
  Real.sqrt ((((g - Finv g * F g) - Finv (g - Finv g * F g) * F (g - Finv g * F g)) - (g - Finv g * F g))
    * (((g - Finv g * F g) - Finv (g - Finv g * F g) * F (g - Finv g * F g)) - (g - Finv g * F g)))
def err2 (F Finv : ℝ → ℝ) (g : ℝ) : ℝ :=
  Real.sqrt (F ((g - Finv g * F g) - Finv (g - Finv g * F g) * F (g - Finv g * F g))
    * F ((g - Finv g * F g) - Finv (g - Finv g * F g) * F (g - Finv g * F g)))

/-- the hand model's `solve` with max_iterations = 2 on the 1-D machine, written out -/
theorem solveS_fuel2 (F Finv : ℝ → ℝ) (tol g : ℝ) :
    solveS (sem1D F Finv) () tol 2 g =
      if tol < 10 then
        if tol < res1 F Finv g ∨ tol < err1 F Finv g then
          if tol < res2 F Finv g ∨ tol < err2 F Finv g then NewtonObject.Out.raised "IterationError"
          else NewtonObject.Out.converged (it2 F Finv g) 2 (res2 F Finv g) (err2 F Finv g)
        else NewtonObject.Out.converged (it1 F Finv g) 1 (res1 F Finv g) (err1 F Finv g)
      else NewtonObject.Out.raised "AttributeError" := by
  by_cases h0 : tol < 10
  · simp only [solveS, loopS, sem1D, realSem, it1, res1, err1, it2, res2, err2, Bool.or_eq_true, decide_eq_true_eq, gt_iff_lt, h0,
      or_self, if_true, zero_add, Nat.reduceAdd]
    -- both sides are the same text; the `Decidable` instances of the `if`s differ (subsingleton)
    congr!
  · simp only [solveS, sem1D, realSem, decide_eq_true_eq, gt_iff_lt, h0, if_false]

/-- **`solve` as traced is `solveS`.**  `newton_solver.solve` was run symbolically with max_iterations = 2 on a solver whose
stored `residual`, `error`, `tolerance` and guess are free symbols.  The resulting decision tree reports exactly what the
hand model's `solve` reports with fuel 2 — a function of F, F_prime_inv, tolerance and guess alone.  (The leaf `¬ tol < 10`
is the AttributeError of `self.residual.copy()` on the int 10; `set_new_tolerance` cannot produce such a tolerance.) -/
theorem solve2_traced (p : NewtonB_solve2.P) :
    (NewtonB_solve2.outcome p = EPV.Out.ok ∧ (⌊NewtonB_solve2.number_of_iterations p⌋₊ : ℝ) = NewtonB_solve2.number_of_iterations p ∧
        solveS (sem1D p.F p.Finv) () p.a_tolerance 2 p.g
          = .converged (NewtonB_solve2.solution p) ⌊NewtonB_solve2.number_of_iterations p⌋₊
               (NewtonB_solve2.residual_achieved p) (NewtonB_solve2.error_achieved p))
    ∨ (NewtonB_solve2.outcome p = EPV.Out.raise "IterationError" ∧
        solveS (sem1D p.F p.Finv) () p.a_tolerance 2 p.g = .raised "IterationError")
    ∨ (NewtonB_solve2.outcome p = EPV.Out.raise "AttributeError" ∧ ¬ p.a_tolerance < 10 ∧
        solveS (sem1D p.F p.Finv) () p.a_tolerance 2 p.g = .raised "AttributeError") := by
  rw [solveS_fuel2]
  by_cases h0 : p.a_tolerance < 10 <;> by_cases h1 : p.a_tolerance < res1 p.F p.Finv p.g <;>
    by_cases h3 : p.a_tolerance < err1 p.F p.Finv p.g <;> by_cases h2 : p.a_tolerance < res2 p.F p.Finv p.g <;>
    by_cases h4 : p.a_tolerance < err2 p.F p.Finv p.g <;>
    (have k1 := h1
     have k2 := h2
     have k3 := h3
     have k4 := h4
     simp only [res1, err1, res2, err2] at k1 k2 k3 k4
     simp only [h0, h1, h2, h3, h4, if_true, if_false, true_or, or_true, or_self]
     simp only [epv_tree, epv_cond, h0, k1, k2, k3, k4, if_true, if_false, not_true_eq_false, not_false_eq_true]
     simp only [epv_leaf, it1, res1, err1, it2, res2, err2, Nat.floor_ofNat, Nat.floor_one, Nat.cast_ofNat, Nat.cast_one,
       true_and, and_self, and_true, reduceCtorEq, false_and, or_false, false_or, true_or, or_true])

/-- **the traced `solve` does not depend on the stored convergence state**: two solvers with the same function, tolerance
and guess but ARBITRARY stored `residual` / `error` return the same.  This is the statement the repair made true (before
it the traced tree had the leaf `residual ≤ tol ∧ error ≤ tol ↦ the guess, 0 iterations`), and what justifies leaving
`residual` / `error` out of the state of the machine. -/
theorem solve2_ignores_stored_state (p q : NewtonB_solve2.P) (hF : p.F = q.F) (hFi : p.Finv = q.Finv)
    (ht : p.a_tolerance = q.a_tolerance) (hg : p.g = q.g) :
    NewtonB_solve2.outcome p = NewtonB_solve2.outcome q ∧ NewtonB_solve2.solution p = NewtonB_solve2.solution q
      ∧ NewtonB_solve2.number_of_iterations p = NewtonB_solve2.number_of_iterations q
      ∧ NewtonB_solve2.residual_achieved p = NewtonB_solve2.residual_achieved q
      ∧ NewtonB_solve2.error_achieved p = NewtonB_solve2.error_achieved q := by
  obtain ⟨F, Finv, ae, ar, tol, g⟩ := p
  obtain ⟨F', Finv', ae', ar', tol', g'⟩ := q
  simp only at hF hFi ht hg
  subst hF hFi ht hg
  exact ⟨rfl, rfl, rfl, rfl, rfl⟩

/-- the traced `solve` on the USED shape (x_old, x_new, F_x hold vectors from an earlier solve) is the same decision
tree with the same values: `solve` does not read them, and it does not look at whether it has run before -/
theorem solve2_used_eq (q : NewtonB_solve2_used.P) :
    let p : NewtonB_solve2.P := { F := q.F, Finv := q.Finv, a_error := q.a_error, a_residual := q.a_residual, a_tolerance := q.a_tolerance, g := q.g }
    NewtonB_solve2_used.outcome q = NewtonB_solve2.outcome p ∧ NewtonB_solve2_used.solution q = NewtonB_solve2.solution p
      ∧ NewtonB_solve2_used.number_of_iterations q = NewtonB_solve2.number_of_iterations p
      ∧ NewtonB_solve2_used.residual_achieved q = NewtonB_solve2.residual_achieved p
      ∧ NewtonB_solve2_used.error_achieved q = NewtonB_solve2.error_achieved p :=
  ⟨rfl, rfl, rfl, rfl, rfl⟩

/-- **what `solve_jump_conditions` calls, traced** (two consecutive calls on one `NohBlackBoxEos` instance, residual
and solver objects replaced by recorders): each call makes exactly four calls, in this order —
residual.set_new_initial_conditions(self.initial_conditions), solver.set_function(residual),
solver.set_new_initial_guess(self.initial_guess), solver.solve() — the second call the same as the first, and the
shocked state stored afterwards is the one the SECOND solve returned. -/
theorem solve_jump_conditions_calls (p : BBNohB_solve_twice.P) :
    BBNohB_solve_twice.outcome p = EPV.Out.ok ∧ BBNohB_solve_twice.calls_first p = 4 ∧ BBNohB_solve_twice.calls_second p = 4
    ∧ [BBNohB_solve_twice.who_0 p, BBNohB_solve_twice.call_0 p, BBNohB_solve_twice.arg_0 p] = [1, 1, 1]
    ∧ [BBNohB_solve_twice.who_1 p, BBNohB_solve_twice.call_1 p, BBNohB_solve_twice.arg_1 p] = [2, 2, 1]
    ∧ [BBNohB_solve_twice.who_2 p, BBNohB_solve_twice.call_2 p, BBNohB_solve_twice.arg_2 p] = [2, 3, 1]
    ∧ [BBNohB_solve_twice.who_3 p, BBNohB_solve_twice.call_3 p, BBNohB_solve_twice.arg_3 p] = [2, 4, 0]
    ∧ [BBNohB_solve_twice.who_4 p, BBNohB_solve_twice.call_4 p, BBNohB_solve_twice.arg_4 p] = [1, 1, 1]
    ∧ [BBNohB_solve_twice.who_5 p, BBNohB_solve_twice.call_5 p, BBNohB_solve_twice.arg_5 p] = [2, 2, 1]
    ∧ [BBNohB_solve_twice.who_6 p, BBNohB_solve_twice.call_6 p, BBNohB_solve_twice.arg_6 p] = [2, 3, 1]
    ∧ [BBNohB_solve_twice.who_7 p, BBNohB_solve_twice.call_7 p, BBNohB_solve_twice.arg_7 p] = [2, 4, 0]
    ∧ BBNohB_solve_twice.shocked_density p = p.x2_0 ∧ BBNohB_solve_twice.shocked_energy p = p.x2_1
    ∧ BBNohB_solve_twice.shock_speed p = p.x2_2 := by
  simp [epv_tree, epv_leaf]

end

/-- non-vacuity of `solve_converged_exit` / `resolve_eq_fresh`: the ℤ instance reports convergence on its second
solve, and its default tolerance is one its setter accepts -/
example : (step intSem (run intSem [.setFunction (), .setGuess 0, .solve] (fresh intSem)).1 .solve).2 = .converged 1 2 0 0
    ∧ intSem.gt intSem.tolDefault intSem.tolCap = false := by
  decide

end EPV.C16
