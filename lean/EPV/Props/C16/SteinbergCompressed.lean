/-
C16 — Steinberg EOS on the COMPRESSED branch ρ > ρ₀ > 0 (Γ(ρ) ≠ 0, 1 - s₁η - s₂η² - s₃η³ ≠ 0):
`de_dP`, `dP_de`, `dgru_drho` are the derivatives of their closures; the generated
certificates give the true ρ-derivatives of `e`, `P`, `P_inf`, `e_inf`, which the methods
`de_drho`, `dP_drho`, `dPinf_drho`, `deinf_drho` do NOT equal (FindingSteinberg.lean).
-/
import EPV.Props.C16.Steinberg
import EPV.Lemmas.Bridge.EosTac

set_option linter.all false

open EPV EPV.Gen EPV.Spec

namespace EPV.C16

/-- compressed branch: `de_dP` is ∂e/∂P at constant ρ — `_partial`: `de_drho` is wrong on this
branch (finding `stein_de_drho_finding`), so `EnergyDerivsAt` does not hold -/
theorem stein_de_dP_compressed_partial (c : SteinC) (ρ P : ℝ) (h : c.Compressed ρ) :
    HasDerivAt (fun q => c.eos.e ρ q) (c.eos.de_dP ρ P) P := by
  obtain ⟨h0, hρ, hΓ, hq⟩ := h
  obtain ⟨a1, a2, a3, a4, a5, a6⟩ := stein_comp_conds h0 hρ
  unfold SteinC.Γc at hΓ
  have hev : (fun q => EosStein_e.e c.pe ρ q) = fun q => EosStein_e.L4.e c.pe ρ q := by
    funext q
    epv_eos_at_leaf
  simp only [SteinC.eos]
  rw [hev]
  epv_eos_have_cert hd : EosStein_e.L4.e_hasDerivAt_pres c.pe ρ P
  refine hd.congr_deriv ?_
  epv_eos_eq

/-- compressed branch: `dP_de` is ∂P/∂e at constant ρ — `_partial`: `dP_drho` is wrong on this
branch (finding `stein_dP_drho_finding`), so `PressureDerivsAt` does not hold -/
theorem stein_dP_de_compressed_partial (c : SteinC) (ρ e : ℝ) (h : c.Compressed ρ) :
    HasDerivAt (fun q => c.eos.P ρ q) (c.eos.dP_de ρ e) e := by
  obtain ⟨h0, hρ, hΓ, hq⟩ := h
  obtain ⟨a1, a2, a3, a4, a5, a6⟩ := stein_comp_conds h0 hρ
  have hev : (fun q => EosStein_P.Pfun c.pP ρ q) = fun q => EosStein_P.L8.Pfun c.pP ρ q := by
    funext q
    epv_eos_at_leaf
  simp only [SteinC.eos]
  rw [hev]
  epv_eos_have_cert hd : EosStein_P.L8.Pfun_hasDerivAt_sie c.pP ρ e
  refine hd.congr_deriv ?_
  epv_eos_eq

/-- compressed branch: `dgru_drho` is the derivative of `gruneisen` -/
theorem stein_dgru_drho_compressed (c : SteinC) (ρ : ℝ) (h0 : 0 < c.ρ₀) (hρ : c.ρ₀ < ρ) :
    HasDerivAt (fun r => EosStein_gruneisen.gruneisen c.pgru r) (EosStein_dgru_drho.dgru_drho c.pdgru ρ) ρ := by
  obtain ⟨a1, a2, a3, a4, a5, a6⟩ := stein_comp_conds h0 hρ
  have hev : (fun r => EosStein_gruneisen.gruneisen c.pgru r) =ᶠ[nhds ρ] fun r => EosStein_gruneisen.L2.gruneisen c.pgru r := by
    filter_upwards [Ioi_mem_nhds hρ] with r hr
    obtain ⟨r1, r2, r3, r4, r5, r6⟩ := stein_comp_conds h0 hr
    have r7 : c.ρ₀ < r := hr
    epv_eos_at_leaf
  epv_eos_have_cert hd : EosStein_gruneisen.L2.gruneisen_hasDerivAt_rho c.pgru ρ
  refine (hd.congr_of_eventuallyEq hev).congr_deriv ?_
  epv_eos_eq

/-- compressed branch: the true ∂e/∂ρ at constant P (generated derivative of the traced closure) -/
theorem stein_e_hasDerivAt_rho_compressed (c : SteinC) (ρ P : ℝ) (h : c.Compressed ρ) :
    HasDerivAt (fun r => c.eos.e r P) (EosStein_e.L4.e_drho c.pe ρ P) ρ := by
  obtain ⟨h0, hρ, hΓ, hq⟩ := h
  obtain ⟨a1, a2, a3, a4, a5, a6⟩ := stein_comp_conds h0 hρ
  unfold SteinC.Γc at hΓ
  unfold SteinC.q at hq
  have hev : (fun r => EosStein_e.e c.pe r P) =ᶠ[nhds ρ] fun r => EosStein_e.L4.e c.pe r P := by
    filter_upwards [Ioi_mem_nhds hρ] with r hr
    obtain ⟨r1, r2, r3, r4, r5, r6⟩ := stein_comp_conds h0 hr
    have r7 : c.ρ₀ < r := hr
    epv_eos_at_leaf
  epv_eos_have_cert hd : EosStein_e.L4.e_hasDerivAt_rho c.pe ρ P
  exact hd.congr_of_eventuallyEq hev

/-- compressed branch: the true ∂P/∂ρ at constant e -/
theorem stein_P_hasDerivAt_rho_compressed (c : SteinC) (ρ e : ℝ) (h : c.Compressed ρ) :
    HasDerivAt (fun r => c.eos.P r e) (EosStein_P.L8.Pfun_drho c.pP ρ e) ρ := by
  obtain ⟨h0, hρ, hΓ, hq⟩ := h
  obtain ⟨a1, a2, a3, a4, a5, a6⟩ := stein_comp_conds h0 hρ
  unfold SteinC.q at hq
  have hev : (fun r => EosStein_P.Pfun c.pP r e) =ᶠ[nhds ρ] fun r => EosStein_P.L8.Pfun c.pP r e := by
    filter_upwards [Ioi_mem_nhds hρ] with r hr
    obtain ⟨r1, r2, r3, r4, r5, r6⟩ := stein_comp_conds h0 hr
    have r7 : c.ρ₀ < r := hr
    epv_eos_at_leaf
  epv_eos_have_cert hd : EosStein_P.L8.Pfun_hasDerivAt_rho c.pP ρ e
  exact hd.congr_of_eventuallyEq hev

/-- compressed branch: the true derivatives of the reference curves `P_inf`, `e_inf` -/
theorem stein_ref_hasDerivAt_compressed (c : SteinC) (ρ : ℝ) (h0 : 0 < c.ρ₀) (hρ : c.ρ₀ < ρ) (hq : c.q ρ ≠ 0) :
    HasDerivAt (fun r => EosStein_P_inf.P_inf c.pPinf r) (EosStein_P_inf.L3.P_inf_drho c.pPinf ρ) ρ
    ∧ HasDerivAt (fun r => EosStein_e_inf.e_inf c.peinf r) (EosStein_e_inf.L3.e_inf_drho c.peinf ρ) ρ := by
  obtain ⟨a1, a2, a3, a4, a5, a6⟩ := stein_comp_conds h0 hρ
  unfold SteinC.q at hq
  constructor
  · have hev : (fun r => EosStein_P_inf.P_inf c.pPinf r) =ᶠ[nhds ρ] fun r => EosStein_P_inf.L3.P_inf c.pPinf r := by
      filter_upwards [Ioi_mem_nhds hρ] with r hr
      obtain ⟨r1, r2, r3, r4, r5, r6⟩ := stein_comp_conds h0 hr
      have r7 : c.ρ₀ < r := hr
      epv_eos_at_leaf
    epv_eos_have_cert hd : EosStein_P_inf.L3.P_inf_hasDerivAt_rho c.pPinf ρ
    exact hd.congr_of_eventuallyEq hev
  · have hev : (fun r => EosStein_e_inf.e_inf c.peinf r) =ᶠ[nhds ρ] fun r => EosStein_e_inf.L3.e_inf c.peinf r := by
      filter_upwards [Ioi_mem_nhds hρ] with r hr
      obtain ⟨r1, r2, r3, r4, r5, r6⟩ := stein_comp_conds h0 hr
      have r7 : c.ρ₀ < r := hr
      epv_eos_at_leaf
    epv_eos_have_cert hd : EosStein_e_inf.L3.e_inf_hasDerivAt_rho c.peinf ρ
    exact hd.congr_of_eventuallyEq hev

/-- aluminium at ρ = 3 > ρ₀ = 2.703 is on the compressed branch (η = 0.099) -/
theorem aluminium_compressed_3 : aluminium.Compressed 3 := by
  rw [aluminium_constants]
  refine ⟨by norm_num, by norm_num, ?_, ?_⟩
  · norm_num [SteinC.Γc]
  · norm_num [SteinC.q]

/-- every density ρ₀ = 2.703 < ρ < 9 g/cm³ is on aluminium's compressed branch (the denominator 1 - 1.4 η of the
Hugoniot vanishes only at ρ = ρ₀/(1 - 1/1.4) ≈ 9.46) -/
theorem aluminium_compressed (ρ : ℝ) (h1 : 2703 / 1000 < ρ) (h2 : ρ < 9) : aluminium.Compressed ρ := by
  rw [aluminium_constants]
  have hρ : (0 : ℝ) < ρ := by linarith
  have hy1 : (2703 : ℝ) / 1000 / ρ < 1 := by rw [div_lt_one hρ]; exact h1
  have hy2 : (3 : ℝ) / 10 < 2703 / 1000 / ρ := by rw [lt_div_iff₀ hρ]; linarith
  refine ⟨by norm_num, h1, ?_, ?_⟩
  · simp only [SteinC.Γc]
    nlinarith
  · simp only [SteinC.q]
    nlinarith

/-- non-vacuity -/
example : HasDerivAt (fun q => aluminium.eos.e 3 q) (aluminium.eos.de_dP 3 0) 0 :=
  stein_de_dP_compressed_partial _ _ _ aluminium_compressed_3

end EPV.C16
