/-
C16 — Steinberg Mie–Grüneisen EOS (`steinberg`, base `generic_mie_gruneisen`; instance
`aluminum_eos`): constants, domain, closure-inverse law on both density branches, and all
derivative methods on the EXPANDED branch 0 < ρ < ρ₀ (where they are all correct).
The COMPRESSED branch ρ > ρ₀ is in SteinbergCompressed.lean / FindingSteinberg.lean.

Domain of validity ("should only be used for solid materials; the reference density should
not be zero"): ρ₀ > 0, ρ > 0; the closures divide by ρ Γ(ρ) (Γ = Γ₀ for ρ ≤ ρ₀, else
Γ₀ (1 - η) + b η with η = 1 - ρ₀/ρ) and, for ρ ≥ ρ₀, by (1 - s₁ η - s₂ η² - s₃ η³)² and 2 ρ₀.
-/
import EPV.Gen.EosStein_eD
import EPV.Gen.EosStein_de_drho
import EPV.Gen.EosStein_de_dP
import EPV.Gen.EosStein_PD
import EPV.Gen.EosStein_dP_drho
import EPV.Gen.EosStein_dP_de
import EPV.Gen.EosStein_etaD
import EPV.Gen.EosStein_deta_drho
import EPV.Gen.EosStein_gruneisenD
import EPV.Gen.EosStein_dgru_drho
import EPV.Gen.EosStein_P_infD
import EPV.Gen.EosStein_dPinf_drho
import EPV.Gen.EosStein_e_infD
import EPV.Gen.EosStein_deinf_drho
import EPV.Gen.EosStein_polyD
import EPV.Gen.EosStein_dpoly_deta
import EPV.Gen.EosAluminium
import EPV.Lemmas.C16Attr
import EPV.Spec.EOS
import EPV.Tactics
import EPV.Lemmas.Bridge.EosTac

set_option linter.all false

open EPV EPV.Gen EPV.Spec

namespace EPV.C16

/-- the constants of `steinberg.__init__`, in the order of its signature -/
structure SteinC where
  /-- `reference_density` -/
  ρ₀ : ℝ
  /-- `reference_pressure` -/
  P₀ : ℝ
  /-- `reference_gruneisen` -/
  Γ₀ : ℝ
  b : ℝ
  /-- `c_0` -/
  c₀ : ℝ
  /-- `s_1` -/
  s₁ : ℝ
  /-- `s_2` -/
  s₂ : ℝ
  /-- `s_3` -/
  s₃ : ℝ

namespace SteinC
variable (c : SteinC)

@[epv_c16] def pe : EosStein_e.P := { b := c.b, c_0 := c.c₀, reference_density := c.ρ₀, reference_gruneisen := c.Γ₀, reference_pressure := c.P₀, s_1 := c.s₁, s_2 := c.s₂, s_3 := c.s₃ }
@[epv_c16] def pde_drho : EosStein_de_drho.P := { b := c.b, c_0 := c.c₀, reference_density := c.ρ₀, reference_gruneisen := c.Γ₀, reference_pressure := c.P₀, s_1 := c.s₁, s_2 := c.s₂, s_3 := c.s₃ }
@[epv_c16] def pde_dP : EosStein_de_dP.P := { b := c.b, reference_density := c.ρ₀, reference_gruneisen := c.Γ₀ }
@[epv_c16] def pP : EosStein_P.P := { b := c.b, c_0 := c.c₀, reference_density := c.ρ₀, reference_gruneisen := c.Γ₀, reference_pressure := c.P₀, s_1 := c.s₁, s_2 := c.s₂, s_3 := c.s₃ }
@[epv_c16] def pdP_drho : EosStein_dP_drho.P := { b := c.b, c_0 := c.c₀, reference_density := c.ρ₀, reference_gruneisen := c.Γ₀, reference_pressure := c.P₀, s_1 := c.s₁, s_2 := c.s₂, s_3 := c.s₃ }
@[epv_c16] def pdP_de : EosStein_dP_de.P := { b := c.b, reference_density := c.ρ₀, reference_gruneisen := c.Γ₀ }
@[epv_c16] def peta : EosStein_eta.P := { reference_density := c.ρ₀ }
@[epv_c16] def pdeta : EosStein_deta_drho.P := { reference_density := c.ρ₀ }
@[epv_c16] def pgru : EosStein_gruneisen.P := { b := c.b, reference_density := c.ρ₀, reference_gruneisen := c.Γ₀ }
@[epv_c16] def pdgru : EosStein_dgru_drho.P := { b := c.b, reference_density := c.ρ₀, reference_gruneisen := c.Γ₀ }
@[epv_c16] def pPinf : EosStein_P_inf.P := { c_0 := c.c₀, reference_density := c.ρ₀, reference_pressure := c.P₀, s_1 := c.s₁, s_2 := c.s₂, s_3 := c.s₃ }
@[epv_c16] def pdPinf : EosStein_dPinf_drho.P := { c_0 := c.c₀, reference_density := c.ρ₀, s_1 := c.s₁, s_2 := c.s₂, s_3 := c.s₃ }
@[epv_c16] def peinf : EosStein_e_inf.P := { c_0 := c.c₀, reference_density := c.ρ₀, reference_pressure := c.P₀, s_1 := c.s₁, s_2 := c.s₂, s_3 := c.s₃ }
@[epv_c16] def pdeinf : EosStein_deinf_drho.P := { c_0 := c.c₀, reference_density := c.ρ₀, reference_pressure := c.P₀, s_1 := c.s₁, s_2 := c.s₂, s_3 := c.s₃ }
@[epv_c16] def ppoly : EosStein_poly.P := { s_1 := c.s₁, s_2 := c.s₂, s_3 := c.s₃ }
@[epv_c16] def pdpoly : EosStein_dpoly_deta.P := { s_1 := c.s₁, s_2 := c.s₂, s_3 := c.s₃ }

/-- compression η = 1 - ρ₀/ρ -/
noncomputable def η (ρ : ℝ) : ℝ := 1 - c.ρ₀ / ρ
/-- the polynomial 1 - s₁η - s₂η² - s₃η³ whose square divides the Hugoniot pressure -/
noncomputable def q (ρ : ℝ) : ℝ := 1 - c.s₁ * (1 - c.ρ₀ / ρ) - c.s₂ * (1 - c.ρ₀ / ρ) ^ 2 - c.s₃ * (1 - c.ρ₀ / ρ) ^ 3
/-- Grüneisen parameter on the compressed branch, Γ₀ (1 - η) + b η -/
noncomputable def Γc (ρ : ℝ) : ℝ := c.Γ₀ * (1 - (1 - c.ρ₀ / ρ)) + c.b * (1 - c.ρ₀ / ρ)

/-- the EOS object: every method is the traced model of the Python method -/
noncomputable def eos : EOS where
  e := EosStein_e.e c.pe
  de_drho := EosStein_de_drho.de_drho c.pde_drho
  de_dP := EosStein_de_dP.de_dP c.pde_dP
  P := EosStein_P.Pfun c.pP
  dP_drho := EosStein_dP_drho.dP_drho c.pdP_drho
  dP_de := EosStein_dP_de.dP_de c.pdP_de

/-- expanded branch: 0 < ρ < ρ₀ and Γ₀ ≠ 0 -/
def Expanded (ρ : ℝ) : Prop := 0 < ρ ∧ ρ < c.ρ₀ ∧ c.Γ₀ ≠ 0
/-- compressed branch: 0 < ρ₀ < ρ, and the two denominators Γ(ρ), 1 - s₁η - s₂η² - s₃η³ do not vanish -/
def Compressed (ρ : ℝ) : Prop := 0 < c.ρ₀ ∧ c.ρ₀ < ρ ∧ c.Γc ρ ≠ 0 ∧ c.q ρ ≠ 0

end SteinC

/-- the traced models have exactly the leaves the proofs name
(e: 7 expanded, 4 compressed, 3 ρ = ρ₀; P: 11 expanded, 8 compressed, 7 ρ = ρ₀) -/
theorem stein_leaves : EosStein_e.okLeaves = [3, 4, 7, 8] ∧ EosStein_P.okLeaves = [7, 8, 11, 12]
    ∧ EosStein_gruneisen.okLeaves = [1, 2] ∧ EosStein_P_inf.okLeaves = [2, 3, 4]
    ∧ EosStein_e_inf.okLeaves = [0, 2, 3] ∧ EosStein_eta.okLeaves = [1] := ⟨rfl, rfl, rfl, rfl, rfl, rfl⟩

/-- which way the traced branch conditions go on the expanded branch -/
theorem stein_exp_conds {ρ₀ r : ℝ} (hr0 : 0 < r) (hr : r < ρ₀) :
    r ≠ 0 ∧ ¬ (ρ₀ ≤ r) ∧ (1 - ρ₀ / r ≤ 0) := by
  refine ⟨ne_of_gt hr0, not_le.mpr hr, ?_⟩
  have : 1 ≤ ρ₀ / r := by rw [le_div_iff₀ hr0]; linarith
  linarith

/-- which way the traced branch conditions go on the compressed branch -/
theorem stein_comp_conds {ρ₀ r : ℝ} (h0 : 0 < ρ₀) (hr : ρ₀ < r) :
    r ≠ 0 ∧ ¬ (r < ρ₀) ∧ ρ₀ ≤ r ∧ ¬ (1 - ρ₀ / r ≤ 0) ∧ 0 < 1 - ρ₀ / r ∧ 1 - ρ₀ / r < 1 := by
  have hr0 : 0 < r := lt_trans h0 hr
  have h1 : ρ₀ / r < 1 := by rw [div_lt_one hr0]; exact hr
  have h2 : 0 < ρ₀ / r := div_pos h0 hr0
  exact ⟨ne_of_gt hr0, not_lt.mpr hr.le, hr.le, by linarith, by linarith, by linarith⟩

/-- expanded branch: closures are mutual inverses -/
theorem stein_inverse_expanded (c : SteinC) (ρ : ℝ) (h : c.Expanded ρ) : c.eos.InverseAt ρ := by
  obtain ⟨hρ0, hρ, hΓ⟩ := h
  obtain ⟨a1, a2, a3⟩ := stein_exp_conds hρ0 hρ
  constructor
  · intro P
    simp only [SteinC.eos]
    epv_eos_eq
  · intro e
    simp only [SteinC.eos]
    epv_eos_eq

/-- compressed branch: closures are mutual inverses -/
theorem stein_inverse_compressed (c : SteinC) (ρ : ℝ) (h : c.Compressed ρ) : c.eos.InverseAt ρ := by
  obtain ⟨h0, hρ, hΓ, hq⟩ := h
  obtain ⟨a1, a2, a3, a4, a5, a6⟩ := stein_comp_conds h0 hρ
  unfold SteinC.Γc at hΓ
  unfold SteinC.q at hq
  have h20 : (2 : ℝ) * c.ρ₀ ≠ 0 := by positivity
  constructor
  · intro P
    simp only [SteinC.eos]
    epv_eos_at_leaf
    simp only [epv_leaf]
    try generalize (1 - c.ρ₀ / ρ) = η at *
    epv_eos_gen_dens
    epv_eos_field
  · intro e
    simp only [SteinC.eos]
    epv_eos_at_leaf
    simp only [epv_leaf]
    try generalize (1 - c.ρ₀ / ρ) = η at *
    epv_eos_gen_dens
    epv_eos_field

/-- at the reference density itself (η = 0, where the two branches meet): closures are mutual inverses -/
theorem stein_inverse_at_reference (c : SteinC) (h0 : 0 < c.ρ₀) (hΓ : c.Γ₀ ≠ 0) : c.eos.InverseAt c.ρ₀ := by
  have a1 : c.ρ₀ ≠ 0 := ne_of_gt h0
  have a2 : ¬ (c.ρ₀ < c.ρ₀) := lt_irrefl _
  have a3 : c.ρ₀ ≤ c.ρ₀ := le_refl _
  have a0 : c.ρ₀ / c.ρ₀ = 1 := div_self a1
  have a4 : 1 - c.ρ₀ / c.ρ₀ ≤ 0 := by rw [a0]; norm_num
  have h20 : (2 : ℝ) * c.ρ₀ ≠ 0 := by positivity
  constructor
  · intro P
    simp only [SteinC.eos]
    epv_eos_at_leaf
    simp only [epv_leaf]
    try rw [a0]
    epv_eos_field
  · intro e
    simp only [SteinC.eos]
    epv_eos_at_leaf
    simp only [epv_leaf]
    try rw [a0]
    epv_eos_field

/-! ### Expanded branch 0 < ρ < ρ₀: every derivative method is correct -/

/-- expanded branch: `de_drho`, `de_dP` are the partial derivatives of `e(ρ, P)` -/
theorem stein_energy_derivs_expanded (c : SteinC) (ρ P : ℝ) (h : c.Expanded ρ) : c.eos.EnergyDerivsAt ρ P := by
  obtain ⟨hρ0, hρ, hΓ⟩ := h
  obtain ⟨b1, b2, b3⟩ := stein_exp_conds hρ0 hρ
  constructor
  · have hev : (fun r => EosStein_e.e c.pe r P) =ᶠ[nhds ρ] fun r => EosStein_e.L7.e c.pe r P := by
      filter_upwards [Ioo_mem_nhds hρ0 hρ] with r hr
      obtain ⟨a1, a2, a3⟩ := stein_exp_conds hr.1 hr.2
      have a4 := hr.1
      have a5 := hr.2
      epv_eos_at_leaf
    epv_eos_have_cert hd : EosStein_e.L7.e_hasDerivAt_rho c.pe ρ P
    refine (hd.congr_of_eventuallyEq hev).congr_deriv ?_
    simp only [SteinC.eos]
    epv_eos_eq
  · have hev : (fun q => EosStein_e.e c.pe ρ q) = fun q => EosStein_e.L7.e c.pe ρ q := by
      funext q
      epv_eos_at_leaf
    simp only [SteinC.eos]
    rw [hev]
    epv_eos_have_cert hd : EosStein_e.L7.e_hasDerivAt_pres c.pe ρ P
    refine hd.congr_deriv ?_
    epv_eos_eq

/-- expanded branch: `dP_drho`, `dP_de` are the partial derivatives of `P(ρ, e)` -/
theorem stein_pressure_derivs_expanded (c : SteinC) (ρ e : ℝ) (h : c.Expanded ρ) : c.eos.PressureDerivsAt ρ e := by
  obtain ⟨hρ0, hρ, hΓ⟩ := h
  obtain ⟨b1, b2, b3⟩ := stein_exp_conds hρ0 hρ
  constructor
  · have hev : (fun r => EosStein_P.Pfun c.pP r e) =ᶠ[nhds ρ] fun r => EosStein_P.L11.Pfun c.pP r e := by
      filter_upwards [Ioo_mem_nhds hρ0 hρ] with r hr
      obtain ⟨a1, a2, a3⟩ := stein_exp_conds hr.1 hr.2
      have a4 := hr.1
      have a5 := hr.2
      epv_eos_at_leaf
    epv_eos_have_cert hd : EosStein_P.L11.Pfun_hasDerivAt_rho c.pP ρ e
    refine (hd.congr_of_eventuallyEq hev).congr_deriv ?_
    simp only [SteinC.eos]
    epv_eos_eq
  · have hev : (fun q => EosStein_P.Pfun c.pP ρ q) = fun q => EosStein_P.L11.Pfun c.pP ρ q := by
      funext q
      epv_eos_at_leaf
    simp only [SteinC.eos]
    rw [hev]
    epv_eos_have_cert hd : EosStein_P.L11.Pfun_hasDerivAt_sie c.pP ρ e
    refine hd.congr_deriv ?_
    epv_eos_eq

/-- `deta_drho` is the derivative of `eta` (every ρ ≠ 0, both branches) -/
theorem stein_deta_drho (c : SteinC) (ρ : ℝ) (hρ : ρ ≠ 0) :
    HasDerivAt (fun r => EosStein_eta.eta c.peta r) (EosStein_deta_drho.deta_drho c.pdeta ρ) ρ := by
  have hev : (fun r => EosStein_eta.eta c.peta r) =ᶠ[nhds ρ] fun r => EosStein_eta.L1.eta c.peta r := by
    filter_upwards [isOpen_ne.mem_nhds hρ] with r hr
    epv_eos_at_leaf
  epv_eos_have_cert hd : EosStein_eta.L1.eta_hasDerivAt_rho c.peta ρ
  refine (hd.congr_of_eventuallyEq hev).congr_deriv ?_
  epv_eos_eq

/-- `dpoly_deta` is the derivative of `poly` (every η) -/
theorem stein_dpoly_deta (c : SteinC) (η : ℝ) :
    HasDerivAt (fun y => EosStein_poly.poly c.ppoly y) (EosStein_dpoly_deta.dpoly_deta c.pdpoly η) η := by
  have hev : EosStein_poly.poly c.ppoly = EosStein_poly.L0.poly c.ppoly := by
    funext y
    epv_eos_at_leaf
  rw [hev]
  epv_eos_have_cert hd : EosStein_poly.L0.poly_hasDerivAt_eta c.ppoly η
  refine hd.congr_deriv ?_
  epv_eos_eq

/-- expanded branch: `dgru_drho`, `dPinf_drho`, `deinf_drho` are the derivatives of `gruneisen`, `P_inf`, `e_inf` -/
theorem stein_helper_derivs_expanded (c : SteinC) (ρ : ℝ) (hρ0 : 0 < ρ) (hρ : ρ < c.ρ₀) :
    HasDerivAt (fun r => EosStein_gruneisen.gruneisen c.pgru r) (EosStein_dgru_drho.dgru_drho c.pdgru ρ) ρ
    ∧ HasDerivAt (fun r => EosStein_P_inf.P_inf c.pPinf r) (EosStein_dPinf_drho.dPinf_drho c.pdPinf ρ) ρ
    ∧ HasDerivAt (fun r => EosStein_e_inf.e_inf c.peinf r) (EosStein_deinf_drho.deinf_drho c.pdeinf ρ) ρ := by
  obtain ⟨b1, b2, b3⟩ := stein_exp_conds hρ0 hρ
  refine ⟨?_, ?_, ?_⟩
  · have hev : (fun r => EosStein_gruneisen.gruneisen c.pgru r) =ᶠ[nhds ρ] fun r => EosStein_gruneisen.L1.gruneisen c.pgru r := by
      filter_upwards [Ioo_mem_nhds hρ0 hρ] with r hr
      obtain ⟨a1, a2, a3⟩ := stein_exp_conds hr.1 hr.2
      have a4 := hr.1
      have a5 := hr.2
      epv_eos_at_leaf
    epv_eos_have_cert hd : EosStein_gruneisen.L1.gruneisen_hasDerivAt_rho c.pgru ρ
    refine (hd.congr_of_eventuallyEq hev).congr_deriv ?_
    epv_eos_eq
  · have hev : (fun r => EosStein_P_inf.P_inf c.pPinf r) =ᶠ[nhds ρ] fun r => EosStein_P_inf.L4.P_inf c.pPinf r := by
      filter_upwards [Ioo_mem_nhds hρ0 hρ] with r hr
      obtain ⟨a1, a2, a3⟩ := stein_exp_conds hr.1 hr.2
      have a4 := hr.1
      have a5 := hr.2
      epv_eos_at_leaf
    epv_eos_have_cert hd : EosStein_P_inf.L4.P_inf_hasDerivAt_rho c.pPinf ρ
    refine (hd.congr_of_eventuallyEq hev).congr_deriv ?_
    epv_eos_eq
  · have hev : (fun r => EosStein_e_inf.e_inf c.peinf r) =ᶠ[nhds ρ] fun r => EosStein_e_inf.L0.e_inf c.peinf r := by
      filter_upwards [Ioo_mem_nhds hρ0 hρ] with r hr
      have a4 := hr.1
      have a5 := hr.2
      epv_eos_at_leaf
    epv_eos_have_cert hd : EosStein_e_inf.L0.e_inf_hasDerivAt_rho c.peinf ρ
    refine (hd.congr_of_eventuallyEq hev).congr_deriv ?_
    epv_eos_eq

/-! ### The shipped instance `aluminum_eos` -/

/-- the constants `aluminum_eos.__init__` passes to the Steinberg constructor (traced) -/
noncomputable def aluminium : SteinC where
  ρ₀ := EosAluminium.reference_density {}
  P₀ := EosAluminium.reference_pressure {}
  Γ₀ := EosAluminium.reference_gruneisen {}
  b := EosAluminium.b {}
  c₀ := EosAluminium.c_0 {}
  s₁ := EosAluminium.s_1 {}
  s₂ := EosAluminium.s_2 {}
  s₃ := EosAluminium.s_3 {}

/-- aluminium: ρ₀ = 2.703, P₀ = 0, Γ₀ = 1.97, b = 0.48, c₀ = 5.24·10⁵, s₁ = 1.4, s₂ = s₃ = 0 -/
theorem aluminium_constants : aluminium = ⟨2703 / 1000, 0, 197 / 100, 48 / 100, 524000, 14 / 10, 0, 0⟩ := by
  simp only [aluminium, epv_tree, epv_leaf]
  norm_num

/-- every density 0 < ρ < ρ₀ = 2.703 is on aluminium's expanded branch -/
theorem aluminium_expanded (ρ : ℝ) (h0 : 0 < ρ) (h : ρ < 2703 / 1000) : aluminium.Expanded ρ := by
  rw [aluminium_constants]
  exact ⟨h0, h, by norm_num⟩

/-- non-vacuity: aluminium at ρ = 2 < ρ₀ -/
example : aluminium.eos.InverseAt 2 ∧ aluminium.eos.EnergyDerivsAt 2 0 ∧ aluminium.eos.PressureDerivsAt 2 0 :=
  have h := aluminium_expanded 2 (by norm_num) (by norm_num)
  ⟨stein_inverse_expanded _ _ h, stein_energy_derivs_expanded _ _ _ h, stein_pressure_derivs_expanded _ _ _ h⟩

end EPV.C16
