/-
C16 — Newton iteration (`newton_solver.solve`, hand model `EPV.Model.Newton`): if `solve` RETURNS (reports
convergence) then the returned point `y` was produced by a Newton update `y = z - F'(z)⁻¹ F(z)` whose length
‖y - z‖ ("residual") and whose function value ‖F y‖ ("error") are both ≤ tolerance — the loop exit condition.
Nothing more follows from the code: in particular NOT that the shock speed component of `y` is positive
(see FindingSpuriousRoot.lean).

Proved for the generic loop (any state type, any scalar type, any comparison), then read over ℝ.
Over IEEE doubles the exit test `not (residual > tol or error > tol)` is also passed by NaN; over ℝ it is `≤`.
-/
import EPV.Model.Newton
import Mathlib.Data.Real.Basic
import Mathlib.Tactic

set_option linter.all false

open EPV.Model.Newton

namespace EPV.C16

/-- the loop returns only through its exit test, and what it returns is either the point it was entered
with or the result of one more update `step z` -/
theorem loop_converged {X α : Type} (gt : α → α → Bool) (step : X → Except String (X × α × α)) (tol : α) :
    ∀ (fuel : Nat) (x : X) (res err : α) (it : Nat) (y : X) (n : Nat) (r e : α),
      loop gt step tol fuel x res err it = .converged y n r e →
      (gt r tol || gt e tol) = false ∧ ((y = x ∧ n = it ∧ r = res ∧ e = err) ∨ ∃ z, step z = .ok (y, r, e)) := by
  intro fuel
  induction fuel with
  | zero =>
    intro x res err it y n r e h
    unfold loop at h
    split_ifs at h with hc
    cases h
    exact ⟨by simpa using hc, Or.inl ⟨rfl, rfl, rfl, rfl⟩⟩
  | succ k ih =>
    intro x res err it y n r e h
    unfold loop at h
    split_ifs at h with hc
    · cases hs : step x with
      | error kd => rw [hs] at h; cases h
      | ok v =>
        obtain ⟨x', r', e'⟩ := v
        rw [hs] at h
        obtain ⟨h1, h2⟩ := ih x' r' e' (it + 1) y n r e h
        refine ⟨h1, Or.inr ?_⟩
        rcases h2 with ⟨rfl, _, rfl, rfl⟩ | hz
        · exact ⟨x, hs⟩
        · exact hz
    · cases h
      exact ⟨by simpa using hc, Or.inl ⟨rfl, rfl, rfl, rfl⟩⟩

/-- the number of updates never exceeds `max_iterations` -/
theorem loop_iterations {X α : Type} (gt : α → α → Bool) (step : X → Except String (X × α × α)) (tol : α) :
    ∀ (fuel : Nat) (x : X) (res err : α) (it : Nat) (y : X) (n : Nat) (r e : α),
      loop gt step tol fuel x res err it = .converged y n r e → it ≤ n ∧ n ≤ it + fuel := by
  intro fuel
  induction fuel with
  | zero =>
    intro x res err it y n r e h
    unfold loop at h
    split_ifs at h
    cases h
    exact ⟨le_refl _, le_refl _⟩
  | succ k ih =>
    intro x res err it y n r e h
    unfold loop at h
    split_ifs at h
    · cases hs : step x with
      | error kd => rw [hs] at h; cases h
      | ok v =>
        obtain ⟨x', r', e'⟩ := v
        rw [hs] at h
        have := ih x' r' e' (it + 1) y n r e h
        omega
    · cases h
      exact ⟨le_refl _, by omega⟩

/-- comparison of the real-number reading of the solver: `a > b` -/
noncomputable def gtReal (a b : ℝ) : Bool := decide (a > b)

/-- **Newton, over ℝ.**  If `solve` (tolerance < 10, the value `residual`/`error` are reset to) returns `y`
with `residual = r`, `error = e`, then at least one update was made, `y = upd z (F'⁻¹ z) (F z)` for the
previous iterate `z`, `r = ‖y - z‖ ≤ tol` and `e = ‖F y‖ ≤ tol`, and at most `max_iterations` updates were made. -/
theorem newton_converged {X M V : Type} (Finv : X → Except String M) (F : X → Except String V)
    (upd : X → M → V → X) (dist : X → X → ℝ) (norm : V → ℝ) (tol : ℝ) (htol : tol < 10)
    (maxIter : Nat) (x0 y : X) (n : Nat) (r e : ℝ)
    (h : solve gtReal (newtonStep Finv F upd dist norm) tol 10 maxIter x0 = .converged y n r e) :
    ∃ z Ji Fz Fy, Finv z = .ok Ji ∧ F z = .ok Fz ∧ y = upd z Ji Fz ∧ F y = .ok Fy
      ∧ r = dist y z ∧ e = norm Fy ∧ r ≤ tol ∧ e ≤ tol ∧ 1 ≤ n ∧ n ≤ maxIter := by
  unfold solve at h
  obtain ⟨hexit, hlast⟩ := loop_converged _ _ _ _ _ _ _ _ _ _ _ _ h
  obtain ⟨hn1, hn2⟩ := loop_iterations _ _ _ _ _ _ _ _ _ _ _ _ h
  have hr : r ≤ tol ∧ e ≤ tol := by
    simp only [gtReal, Bool.or_eq_false_iff, decide_eq_false_iff_not, not_lt, gt_iff_lt] at hexit
    exact hexit
  rcases hlast with ⟨_, rfl, rfl, _⟩ | ⟨z, hz⟩
  · exact absurd hr.1 (not_le.mpr htol)
  · unfold newtonStep at hz
    cases h1 : Finv z with
    | error k => rw [h1] at hz; cases hz
    | ok Ji =>
      rw [h1] at hz
      cases h2 : F z with
      | error k => rw [h2] at hz; cases hz
      | ok Fz =>
        rw [h2] at hz
        simp only at hz
        cases h3 : F (upd z Ji Fz) with
        | error k => rw [h3] at hz; cases hz
        | ok Fy =>
          rw [h3] at hz
          simp only [Except.ok.injEq, Prod.mk.injEq] at hz
          obtain ⟨rfl, rfl, rfl⟩ := hz
          refine ⟨z, Ji, Fz, Fy, h1, h2, rfl, h3, rfl, rfl, hr.1, hr.2, ?_, by omega⟩
          -- at least one update: the loop was entered with residual = 10 > tol
          by_contra hn
          have hn0 : n = 0 := by omega
          subst hn0
          cases maxIter with
          | zero =>
            unfold loop at h
            split_ifs at h with hc
            simp only [gtReal, Bool.or_self, decide_eq_true_eq, gt_iff_lt, not_lt] at hc
            linarith
          | succ k =>
            unfold loop at h
            split_ifs at h with hc
            · cases hs : newtonStep Finv F upd dist norm x0 with
              | error kd => rw [hs] at h; cases h
              | ok v =>
                obtain ⟨x', r', e'⟩ := v
                rw [hs] at h
                have := (loop_iterations _ _ _ _ _ _ _ _ _ _ _ _ h).1
                omega
            · simp only [gtReal, Bool.or_self, decide_eq_true_eq, gt_iff_lt, not_lt] at hc
              linarith

/-- non-vacuity: the solver's default tolerance 1e-6 (and the cap 1e-2 of `set_new_tolerance`) is below 10 -/
example : (1e-6 : ℝ) < 10 ∧ (1e-2 : ℝ) < 10 := by norm_num

end EPV.C16
