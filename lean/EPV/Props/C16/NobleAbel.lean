/-
C16 — Noble–Abel gas (`noble_abel_eos`): closures mutually inverse, the four analytic
partial derivatives are the derivatives of the closures, for every co-volume b, every
γ ≠ 1 (the closures divide by γ - 1), every density ρ ≠ 0 (guard of `e`) with 1 - bρ ≠ 0
(guard of `P`).
-/
import EPV.Gen.EosNobleAbel_eD
import EPV.Gen.EosNobleAbel_de_drho
import EPV.Gen.EosNobleAbel_de_dP
import EPV.Gen.EosNobleAbel_PD
import EPV.Gen.EosNobleAbel_dP_drho
import EPV.Gen.EosNobleAbel_dP_de
import EPV.Spec.EOS
import EPV.Tactics
import EPV.Lemmas.Bridge.EosTac

set_option linter.all false

open EPV EPV.Gen EPV.Spec

namespace EPV.C16

/-- `noble_abel_eos(gamma, b)`: every method is the traced model of the Python method -/
noncomputable def nobleAbelEOS (γ b : ℝ) : EOS where
  e := EosNobleAbel_e.e { gamma := γ, b := b }
  de_drho := EosNobleAbel_de_drho.de_drho { gamma := γ }
  de_dP := EosNobleAbel_de_dP.de_dP { gamma := γ, b := b }
  P := EosNobleAbel_P.Pfun { gamma := γ, b := b }
  dP_drho := EosNobleAbel_dP_drho.dP_drho { gamma := γ, b := b }
  dP_de := EosNobleAbel_dP_de.dP_de { gamma := γ, b := b }

/-- the traced models have exactly the leaves the proofs below name -/
theorem nobleAbel_leaves : EosNobleAbel_e.okLeaves = [1] ∧ EosNobleAbel_P.okLeaves = [1] := ⟨rfl, rfl⟩

/-- closures are mutual inverses -/
theorem nobleAbel_inverse (γ b ρ : ℝ) (hγ : γ ≠ 1) (hρ : ρ ≠ 0) (hb : 1 - b * ρ ≠ 0) :
    (nobleAbelEOS γ b).InverseAt ρ := by
  have h1 : γ - 1 ≠ 0 := sub_ne_zero.mpr hγ
  constructor
  · intro P
    simp only [nobleAbelEOS]
    epv_eos_eq
  · intro e
    simp only [nobleAbelEOS]
    epv_eos_eq

/-- `de_drho`, `de_dP` are the partial derivatives of `e(ρ, P)` -/
theorem nobleAbel_energy_derivs (γ b ρ P : ℝ) (hγ : γ ≠ 1) (hρ : ρ ≠ 0) : (nobleAbelEOS γ b).EnergyDerivsAt ρ P := by
  have h1 : γ - 1 ≠ 0 := sub_ne_zero.mpr hγ
  constructor
  · have hev : (fun r => EosNobleAbel_e.e { gamma := γ, b := b } r P) =ᶠ[nhds ρ] fun r => EosNobleAbel_e.L1.e { gamma := γ, b := b } r P := by
      filter_upwards [isOpen_ne.mem_nhds hρ] with r hr
      epv_eos_at_leaf
    epv_eos_have_cert hd : EosNobleAbel_e.L1.e_hasDerivAt_rho { gamma := γ, b := b } ρ P
    refine (hd.congr_of_eventuallyEq hev).congr_deriv ?_
    simp only [nobleAbelEOS]
    epv_eos_eq
  · have hev : (fun q => EosNobleAbel_e.e { gamma := γ, b := b } ρ q) = fun q => EosNobleAbel_e.L1.e { gamma := γ, b := b } ρ q := by
      funext q
      epv_eos_at_leaf
    simp only [nobleAbelEOS]
    rw [hev]
    epv_eos_have_cert hd : EosNobleAbel_e.L1.e_hasDerivAt_pres { gamma := γ, b := b } ρ P
    refine hd.congr_deriv ?_
    epv_eos_eq

/-- `dP_drho`, `dP_de` are the partial derivatives of `P(ρ, e)` -/
theorem nobleAbel_pressure_derivs (γ b ρ e : ℝ) (hb : 1 - b * ρ ≠ 0) : (nobleAbelEOS γ b).PressureDerivsAt ρ e := by
  constructor
  · have hev : (fun r => EosNobleAbel_P.Pfun { gamma := γ, b := b } r e) =ᶠ[nhds ρ] fun r => EosNobleAbel_P.L1.Pfun { gamma := γ, b := b } r e := by
      have hc : ContinuousAt (fun r : ℝ => 1 - b * r) ρ := by fun_prop
      filter_upwards [hc.eventually_ne hb] with r hr
      epv_eos_at_leaf
    epv_eos_have_cert hd : EosNobleAbel_P.L1.Pfun_hasDerivAt_rho { gamma := γ, b := b } ρ e
    refine (hd.congr_of_eventuallyEq hev).congr_deriv ?_
    simp only [nobleAbelEOS]
    epv_eos_eq
  · have hev : (fun q => EosNobleAbel_P.Pfun { gamma := γ, b := b } ρ q) = fun q => EosNobleAbel_P.L1.Pfun { gamma := γ, b := b } ρ q := by
      funext q
      epv_eos_at_leaf
    simp only [nobleAbelEOS]
    rw [hev]
    epv_eos_have_cert hd : EosNobleAbel_P.L1.Pfun_hasDerivAt_sie { gamma := γ, b := b } ρ e
    refine hd.congr_deriv ?_
    epv_eos_eq

/-- non-vacuity at the class defaults γ = 5/3, b = 0.01 and ρ = 1 -/
example : (nobleAbelEOS (5/3) (1/100)).InverseAt 1 ∧ (nobleAbelEOS (5/3) (1/100)).EnergyDerivsAt 1 0
    ∧ (nobleAbelEOS (5/3) (1/100)).PressureDerivsAt 1 0 :=
  ⟨nobleAbel_inverse _ _ _ (by norm_num) (by norm_num) (by norm_num),
   nobleAbel_energy_derivs _ _ _ _ (by norm_num) (by norm_num), nobleAbel_pressure_derivs _ _ _ _ (by norm_num)⟩

end EPV.C16
