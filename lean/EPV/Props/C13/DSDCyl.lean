/-
C13 — DSD cylindrical expansion (two concentric explosives, D_n = D_CJ - α κ, κ = 1/r).

The traced burn time (`CylindricalExpansion.__init__` + `_run`) depends on the point only
through r = ‖q‖ and is the documented solution `EPV.Spec.Burn.dsd` (`EPV.Burn.dsdcyl_eq_spec`).  On the
documented admissible domain  r₂ > r₁ > α₁/D_CJ₁,  r₂ > α₂/D_CJ₂,  D_CJ_i > 0,  α_i ≥ 0
(`DSDCyl.Adm`; the constructor does NOT enforce the two curvature conditions — see
`EPV/Props/C20/FindingBurn.lean`):

* radial derivative  dt/dr = 1/(D_CJ - α/r)  of the local material, along every ray
                                               (`dsdcyl_radial_deriv_inner/_outer`), and from the
  generated partial-derivative certificates (through the logarithm) the gradient has that
  magnitude                                    (`dsdcyl_gradient_inner/_outer`)
* continuity everywhere: at the detonator circle r₁, across the interface r₂ (`dsdcyl_continuous`,
  `dsdcyl_interface`)
* t = t_d on and inside the detonator circle, t ≥ t_d everywhere (`dsdcyl_at_detonator`, `dsdcyl_ge`)
* strictly increasing in r from r₁ outwards    (`dsdcyl_strictMono`)
* two points of one explosive at radii ≥ ρ differ by at most dist/(D_CJ - α/ρ)  (`dsdcyl_lipschitz_inner/_outer`).
-/
import EPV.Gen.DSDCylD
import EPV.Spec.Burn
import EPV.Lemmas.BurnDSD
import EPV.Tactics

import EPV.Lemmas.Bridge.BurnAtoms

set_option linter.all false

open EPV EPV.Gen EPV.Spec.Burn EPV.Burn

namespace EPV.C13

/-- never earlier than the detonation time -/
theorem dsdcyl_ge (p : DSDCyl.P) (h : DSDCyl.Adm p) (x y : ℝ) : p.t_d ≤ DSDCyl.burntime p x y := by
  rw [dsdcyl_eq_spec p x y (dsdcyl_accepts p h x y)]; exact dsd_ge h _

/-- on (and inside) the detonator circle the burn time is the detonation time -/
theorem dsdcyl_at_detonator (p : DSDCyl.P) (h : DSDCyl.Adm p) (q : E2) (hq : ‖q‖ ≤ p.r_1) :
    DSDCyl.burntime p (q 0) (q 1) = p.t_d := by
  rw [dsdcyl_eq_spec_norm p h]
  rcases lt_or_eq_of_le hq with h1 | h1
  · exact dsd_inside h1
  · unfold DSDCyl.spec; rw [h1]; exact dsd_at_detonator h.hr

theorem dsdcyl_continuous (p : DSDCyl.P) (h : DSDCyl.Adm p) :
    Continuous fun q : E2 => DSDCyl.burntime p (q 0) (q 1) := by
  simp only [dsdcyl_eq_spec_norm p h]
  exact (dsd_continuous h).comp continuous_norm

/-- the two traced leaves agree on the interface r = r₂ -/
theorem dsdcyl_interface (p : DSDCyl.P) (x y : ℝ) (hr : Real.sqrt (x * x + y * y) = p.r_2) :
    DSDCyl.L8.burntime p x y = DSDCyl.L9.burntime p x y := by
  -- `log (a / a) = 0` for every `a` (also `a = 0`), whatever the curvature shift in `a` looks like
  have key : ∀ a : ℝ, Real.log (a / a) = 0 := by
    intro a; by_cases h : a = 0
    · simp [h]
    · simp [div_self h]
  have hr2 : x * x + y * y = p.r_2 ^ 2 := by
    rw [← hr]; exact (Real.sq_sqrt (add_nonneg (mul_self_nonneg _) (mul_self_nonneg _))).symm
  have hr0 : 0 ≤ p.r_2 := by rw [← hr]; exact Real.sqrt_nonneg _
  simp only [epv_leaf]
  -- the radius, however the code writes x² + y²
  repeat epv_deton_sqrt_rw_by p.r_2 (rw [← hr2]; try ring1)
  simp only [key, sub_self, mul_zero, zero_mul, add_zero, zero_add, zero_div]
  epv_deton_nf_eq

/-- strictly later at strictly larger radius, from the detonator circle outwards -/
theorem dsdcyl_strictMono (p : DSDCyl.P) (h : DSDCyl.Adm p) (q q' : E2) (hq : p.r_1 ≤ ‖q‖) (hqq : ‖q‖ < ‖q'‖) :
    DSDCyl.burntime p (q 0) (q 1) < DSDCyl.burntime p (q' 0) (q' 1) := by
  rw [dsdcyl_eq_spec_norm p h, dsdcyl_eq_spec_norm p h]
  exact dsd_strictMonoOn h hq (hq.trans hqq.le) hqq

/-- along the ray in the unit direction `u`, `dt/dr = 1/(D_CJ₁ - α₁/r)` in the inner explosive -/
theorem dsdcyl_radial_deriv_inner (p : DSDCyl.P) (h : DSDCyl.Adm p) (u : E2) (hu : ‖u‖ = 1) (r : ℝ)
    (h1 : p.r_1 < r) (h2 : r < p.r_2) :
    HasDerivAt (fun s : ℝ => DSDCyl.burntime p ((s • u) 0) ((s • u) 1)) (1 / (p.D_CJ_1 - p.alpha_1 / r)) r := by
  have hr0 : 0 < r := lt_trans (lt_of_le_of_lt (div_nonneg h.hα1 h.hD1.le) h.h1) h1
  refine (dsd_hasDerivAt_inner (td := p.t_d) h h1 h2).congr_of_eventuallyEq ?_
  filter_upwards [Ioi_mem_nhds hr0] with s hs
  rw [dsdcyl_eq_spec_norm p h, norm_smul, hu, mul_one, Real.norm_eq_abs, abs_of_pos hs]
  rfl

/-- along the ray in the unit direction `u`, `dt/dr = 1/(D_CJ₂ - α₂/r)` in the outer explosive -/
theorem dsdcyl_radial_deriv_outer (p : DSDCyl.P) (h : DSDCyl.Adm p) (u : E2) (hu : ‖u‖ = 1) (r : ℝ)
    (h2 : p.r_2 < r) :
    HasDerivAt (fun s : ℝ => DSDCyl.burntime p ((s • u) 0) ((s • u) 1)) (1 / (p.D_CJ_2 - p.alpha_2 / r)) r := by
  have hr0 : 0 < r := lt_trans (lt_of_le_of_lt (div_nonneg h.hα2 h.hD2.le) h.h2) h2
  refine (dsd_hasDerivAt_outer (td := p.t_d) h h2).congr_of_eventuallyEq ?_
  filter_upwards [Ioi_mem_nhds hr0] with s hs
  rw [dsdcyl_eq_spec_norm p h, norm_smul, hu, mul_one, Real.norm_eq_abs, abs_of_pos hs]
  rfl

/-! #### gradient from the generated certificates -/

private theorem cont_radius_x (x y : ℝ) : ContinuousAt (fun x' : ℝ => Real.sqrt (x' * x' + y * y)) x :=
  (Real.continuous_sqrt.comp ((continuous_id.mul continuous_id).add continuous_const)).continuousAt

private theorem cont_radius_y (x y : ℝ) : ContinuousAt (fun y' : ℝ => Real.sqrt (x * x + y' * y')) y :=
  (Real.continuous_sqrt.comp (continuous_const.add (continuous_id.mul continuous_id))).continuousAt

/-- algebra shared by both materials: the certificate expressions have the eikonal magnitude -/
private theorem grad_sq {x y D α r0 : ℝ} (hD : 0 < D) (hα : 0 ≤ α) (h0 : α / D < r0)
    (hr : α / D < Real.sqrt (x * x + y * y)) :
    ((((1 : ℝ) * x + x * 1) / (2 * Real.sqrt (x * x + y * y)) + α / D *
        ((((1 : ℝ) * x + x * 1) / (2 * Real.sqrt (x * x + y * y))) / (r0 - α / D) /
          ((Real.sqrt (x * x + y * y) - α / D) / (r0 - α / D)))) / D) ^ 2
      + ((((1 : ℝ) * y + y * 1) / (2 * Real.sqrt (x * x + y * y)) + α / D *
        ((((1 : ℝ) * y + y * 1) / (2 * Real.sqrt (x * x + y * y))) / (r0 - α / D) /
          ((Real.sqrt (x * x + y * y) - α / D) / (r0 - α / D)))) / D) ^ 2
      = (1 / (D - α / Real.sqrt (x * x + y * y))) ^ 2 := by
  obtain ⟨v, rfl⟩ : ∃ v, α = v * D := ⟨α / D, by field_simp⟩
  have hvD : v * D / D = v := mul_div_cancel_right₀ v hD.ne'
  rw [hvD] at h0 hr
  simp only [hvD]
  have hv : 0 ≤ v := by
    by_contra hneg
    have := mul_neg_of_neg_of_pos (not_le.mp hneg) hD
    linarith
  set s := Real.sqrt (x * x + y * y) with hs
  have hs0 : 0 < s := lt_of_le_of_lt hv hr
  have hss : s * s = x * x + y * y := Real.mul_self_sqrt (by nlinarith [mul_self_nonneg x, mul_self_nonneg y])
  have h1 : s - v ≠ 0 := (sub_pos.mpr hr).ne'
  have h2 : r0 - v ≠ 0 := (sub_pos.mpr h0).ne'
  have e2 : D - v * D / s = D * (s - v) / s := by field_simp
  rw [e2]
  field_simp
  nlinarith [hss]

/-- in the inner explosive the gradient exists and has magnitude `1/(D_CJ₁ - α₁/r)` -/
theorem dsdcyl_gradient_inner (p : DSDCyl.P) (h : DSDCyl.Adm p) (x y : ℝ)
    (h1 : p.r_1 < Real.sqrt (x * x + y * y)) (h2 : Real.sqrt (x * x + y * y) < p.r_2) :
    ∃ gx gy : ℝ, HasDerivAt (fun x' => DSDCyl.burntime p x' y) gx x ∧
      HasDerivAt (fun y' => DSDCyl.burntime p x y') gy y ∧
      gx ^ 2 + gy ^ 2 = (1 / (p.D_CJ_1 - p.alpha_1 / Real.sqrt (x * x + y * y))) ^ 2 := by
  have hv : p.alpha_1 / p.D_CJ_1 < Real.sqrt (x * x + y * y) := h.h1.trans h1
  have hs1 : x * x + y * y ≠ 0 := by
    intro h0; rw [h0, Real.sqrt_zero] at hv
    have := div_nonneg h.hα1 h.hD1.le; linarith
  have hs2 : (Real.sqrt (x * x + y * y) - p.alpha_1 / p.D_CJ_1) / (p.r_1 - p.alpha_1 / p.D_CJ_1) ≠ 0 :=
    div_ne_zero (sub_pos.mpr hv).ne' (sub_pos.mpr h.h1).ne'
  refine ⟨DSDCyl.L8.burntime_dx p x y, DSDCyl.L8.burntime_dy p x y, ?_, ?_, ?_⟩
  · refine (DSDCyl.L8.burntime_hasDerivAt_x p x y hs1 hs2).congr_of_eventuallyEq ?_
    filter_upwards [(cont_radius_x x y).eventually (Ioo_mem_nhds h1 h2)] with x' hx'
    exact dsdcyl_eq_L8 p h x' y hx'.1.le hx'.2
  · refine (DSDCyl.L8.burntime_hasDerivAt_y p x y hs1 hs2).congr_of_eventuallyEq ?_
    filter_upwards [(cont_radius_y x y).eventually (Ioo_mem_nhds h1 h2)] with y' hy'
    exact dsdcyl_eq_L8 p h x y' hy'.1.le hy'.2
  · simp only [epv_deriv]
    first
      | exact grad_sq h.hD1 h.hα1 h.h1 hv
      | (have := grad_sq (x := x) (y := y) h.hD1 h.hα1 h.h1 hv; linear_combination this)

/-- in the outer explosive the gradient exists and has magnitude `1/(D_CJ₂ - α₂/r)` -/
theorem dsdcyl_gradient_outer (p : DSDCyl.P) (h : DSDCyl.Adm p) (x y : ℝ)
    (h2 : p.r_2 < Real.sqrt (x * x + y * y)) :
    ∃ gx gy : ℝ, HasDerivAt (fun x' => DSDCyl.burntime p x' y) gx x ∧
      HasDerivAt (fun y' => DSDCyl.burntime p x y') gy y ∧
      gx ^ 2 + gy ^ 2 = (1 / (p.D_CJ_2 - p.alpha_2 / Real.sqrt (x * x + y * y))) ^ 2 := by
  have hv : p.alpha_2 / p.D_CJ_2 < Real.sqrt (x * x + y * y) := h.h2.trans h2
  have hs1 : x * x + y * y ≠ 0 := by
    intro h0; rw [h0, Real.sqrt_zero] at hv
    have := div_nonneg h.hα2 h.hD2.le; linarith
  have hs2 : (Real.sqrt (x * x + y * y) - p.alpha_2 / p.D_CJ_2) / (p.r_2 - p.alpha_2 / p.D_CJ_2) ≠ 0 :=
    div_ne_zero (sub_pos.mpr hv).ne' (sub_pos.mpr h.h2).ne'
  refine ⟨DSDCyl.L9.burntime_dx p x y, DSDCyl.L9.burntime_dy p x y, ?_, ?_, ?_⟩
  · refine (DSDCyl.L9.burntime_hasDerivAt_x p x y hs1 hs2).congr_of_eventuallyEq ?_
    filter_upwards [(cont_radius_x x y).eventually (Ioi_mem_nhds h2)] with x' hx'
    exact dsdcyl_eq_L9 p h x' y (le_of_lt hx')
  · refine (DSDCyl.L9.burntime_hasDerivAt_y p x y hs1 hs2).congr_of_eventuallyEq ?_
    filter_upwards [(cont_radius_y x y).eventually (Ioi_mem_nhds h2)] with y' hy'
    exact dsdcyl_eq_L9 p h x y' (le_of_lt hy')
  · simp only [epv_deriv]
    first
      | exact grad_sq h.hD2 h.hα2 h.h2 hv
      | (have := grad_sq (x := x) (y := y) h.hD2 h.hα2 h.h2 hv; linear_combination this)

/-! #### the property's consequence for a curvature-dependent speed

"two points joined by a straight path inside one explosive differ in burn time by at most their
distance divided by that explosive's speed": here the normal speed `D_CJ - α/r` grows with r, so
the bound is stated with the speed at the smallest radius ρ of the region considered. -/

private theorem speed_pos {D α ρ : ℝ} (hD : 0 < D) (hv : α / D < ρ) (hρ0 : 0 < ρ) : 0 < D - α / ρ := by
  have : α / ρ < D := by
    rw [div_lt_iff₀ hρ0]; have := (div_lt_iff₀ hD).mp hv; linarith
  linarith

theorem dsdcyl_lipschitz_inner (p : DSDCyl.P) (h : DSDCyl.Adm p) (q q' : E2) (ρ : ℝ) (hρ : p.r_1 ≤ ρ)
    (hq : ρ ≤ ‖q‖) (hq' : ρ ≤ ‖q'‖) (hq2 : ‖q‖ ≤ p.r_2) (hq2' : ‖q'‖ ≤ p.r_2) :
    |DSDCyl.burntime p (q 0) (q 1) - DSDCyl.burntime p (q' 0) (q' 1)| ≤ dist q q' / (p.D_CJ_1 - p.alpha_1 / ρ) := by
  rw [dsdcyl_eq_spec_norm p h, dsdcyl_eq_spec_norm p h]
  have hvρ : p.alpha_1 / p.D_CJ_1 < ρ := h.h1.trans_le hρ
  have hρ0 : 0 < ρ := lt_of_le_of_lt (div_nonneg h.hα1 h.hD1.le) hvρ
  refine (dsd_lipschitz_inner (td := p.t_d) h hρ hq hq' hq2 hq2').trans ?_
  exact div_le_div_of_nonneg_right (by rw [dist_eq_norm]; exact abs_norm_sub_norm_le q q')
    (speed_pos h.hD1 hvρ hρ0).le

theorem dsdcyl_lipschitz_outer (p : DSDCyl.P) (h : DSDCyl.Adm p) (q q' : E2) (ρ : ℝ) (hρ : p.r_2 ≤ ρ)
    (hq : ρ ≤ ‖q‖) (hq' : ρ ≤ ‖q'‖) :
    |DSDCyl.burntime p (q 0) (q 1) - DSDCyl.burntime p (q' 0) (q' 1)| ≤ dist q q' / (p.D_CJ_2 - p.alpha_2 / ρ) := by
  rw [dsdcyl_eq_spec_norm p h, dsdcyl_eq_spec_norm p h]
  have hvρ : p.alpha_2 / p.D_CJ_2 < ρ := h.h2.trans_le hρ
  have hρ0 : 0 < ρ := lt_of_le_of_lt (div_nonneg h.hα2 h.hD2.le) hvρ
  refine (dsd_lipschitz_outer (td := p.t_d) h hρ hq hq').trans ?_
  exact div_le_div_of_nonneg_right (by rw [dist_eq_norm]; exact abs_norm_sub_norm_le q q')
    (speed_pos h.hD2 hvρ hρ0).le

/-- non-vacuity: the solver's defaults r₁ = 1, r₂ = 2, D_CJ = 0.5, 1, α = 0.1, 0.1 are admissible -/
example : DSDCyl.Adm ⟨1/2, 1, 1/10, 1/10, 1, 2, 0⟩ := by
  refine ⟨?_, ?_, ?_, ?_, ?_, ?_, ?_⟩ <;> norm_num

end EPV.C13
