/-
C13 — Kenamond 1 (one detonator, one explosive, unobstructed), 2-D and 3-D.

The traced burn time of `Kenamond1` (constructor + `_run`, one symbolic point) is the
documented first-arrival-time field  t(q) = t_d + ‖q - x_d‖ / D  of
`EPV.Spec.Burn.cone` on `EuclideanSpace ℝ (Fin n)`, n = 2, 3.  Consequently

* t(x_d) = t_d and t ≥ t_d everywhere                      (`k1dN_at_detonator`, `k1dN_ge`),
* |t q - t q'| ≤ dist q q' / D for ALL pairs of points      (`k1dN_lipschitz`; the explosive is
  the whole space, so every straight path is inside it),     hence continuity (`k1dN_continuous`),
* along every ray from the detonator t grows exactly at the rate 1/D  (`k1dN_eikonal_rays`),
* the partial derivatives exist away from the detonator (generated certificates) and the
  gradient has magnitude 1/D                                 (`k1dN_gradient`).

Admissibility is what the constructor documents and enforces: D > 0 (`EPV.Burn.k1dN_outcome`); the
bridge to the documented formula is `EPV.Burn.k1dN_eq_cone` (EPV/Lemmas/BurnK1.lean).
-/
import EPV.Gen.K1d2D
import EPV.Gen.K1d3D
import EPV.Spec.Burn
import EPV.Lemmas.BurnK1
import EPV.Tactics
import EPV.Lemmas.Bridge.DetonTactics

set_option linter.all false

open EPV EPV.Gen EPV.Spec.Burn EPV.Burn

namespace EPV.C13

/-! #### 2-D -/

theorem k1d2_at_detonator (p : K1d2.P) (hD : 0 < p.D) : K1d2.burntime p p.xd0 p.xd1 = p.t_d := by
  have := k1d2_eq_cone p hD (K1d2.det p)
  simpa [K1d2.det, cone_self] using this

theorem k1d2_ge (p : K1d2.P) (hD : 0 < p.D) (q : E2) : p.t_d ≤ K1d2.burntime p (q 0) (q 1) := by
  rw [k1d2_eq_cone p hD]; exact cone_ge _ hD _ _

theorem k1d2_lipschitz (p : K1d2.P) (hD : 0 < p.D) (q q' : E2) :
    |K1d2.burntime p (q 0) (q 1) - K1d2.burntime p (q' 0) (q' 1)| ≤ dist q q' / p.D := by
  rw [k1d2_eq_cone p hD, k1d2_eq_cone p hD]; exact cone_lipschitz _ hD _ _ _

theorem k1d2_continuous (p : K1d2.P) (hD : 0 < p.D) : Continuous fun q : E2 => K1d2.burntime p (q 0) (q 1) := by
  simp only [k1d2_eq_cone p hD, cone]
  exact continuous_const.add ((continuous_id.dist continuous_const).div_const _)

theorem k1d2_eikonal_rays (p : K1d2.P) (hD : 0 < p.D) :
    EikonalOnRays (fun q : E2 => K1d2.burntime p (q 0) (q 1)) p.D (K1d2.det p) := by
  simp only [k1d2_eq_cone p hD]; exact cone_eikonal _ _ _

/-- the gradient exists away from the detonator and has magnitude 1/D -/
theorem k1d2_gradient (p : K1d2.P) (hD : 0 < p.D) (x y : ℝ) (h : ¬(x = p.xd0 ∧ y = p.xd1)) :
    ∃ gx gy : ℝ, HasDerivAt (fun x' => K1d2.burntime p x' y) gx x ∧
      HasDerivAt (fun y' => K1d2.burntime p x y') gy y ∧ gx ^ 2 + gy ^ 2 = (1 / p.D) ^ 2 := by
  have hne : (x - p.xd0) * (x - p.xd0) + (y - p.xd1) * (y - p.xd1) ≠ 0 := by
    intro h0
    apply h
    constructor <;> nlinarith [mul_self_nonneg (x - p.xd0), mul_self_nonneg (y - p.xd1)]
  have hpos : 0 < (x - p.xd0) * (x - p.xd0) + (y - p.xd1) * (y - p.xd1) :=
    lt_of_le_of_ne (by nlinarith [mul_self_nonneg (x - p.xd0), mul_self_nonneg (y - p.xd1)]) (Ne.symm hne)
  have e : K1d2.burntime p = K1d2.L1.burntime p := by
    funext a b; exact k1d2_eq_leaf p hD a b
  refine ⟨K1d2.L1.burntime_dx p x y, K1d2.L1.burntime_dy p x y, ?_, ?_, ?_⟩
  · rw [e]; exact K1d2.L1.burntime_hasDerivAt_x p x y (by epv_deton_side)
  · rw [e]; exact K1d2.L1.burntime_hasDerivAt_y p x y (by epv_deton_side)
  · simp only [epv_deriv]
    epv_deton_sqrt_gen s hs0 hs2
    have hs0' : 0 < s := by
      rcases hs0.lt_or_eq with h' | h'
      · exact h'
      · exfalso; rw [← h'] at hs2; nlinarith
    field_simp
    nlinarith

/-- first arrival is unique: the burn time equals the detonation time ONLY at the detonator -/
theorem k1d2_eq_td_iff (p : K1d2.P) (hD : 0 < p.D) (q : E2) :
    K1d2.burntime p (q 0) (q 1) = p.t_d ↔ q = K1d2.det p := by
  rw [k1d2_eq_cone p hD]; unfold cone
  constructor
  · intro h
    have h0 : dist q (K1d2.det p) / p.D = 0 := by linarith
    rcases div_eq_zero_iff.mp h0 with h1 | h1
    · exact dist_eq_zero.mp h1
    · exact absurd h1 hD.ne'
  · rintro rfl; simp

/-- … and everywhere else the front arrives strictly later -/
theorem k1d2_gt (p : K1d2.P) (hD : 0 < p.D) (q : E2) (hq : q ≠ K1d2.det p) :
    p.t_d < K1d2.burntime p (q 0) (q 1) :=
  lt_of_le_of_ne (k1d2_ge p hD q) (fun h => hq ((k1d2_eq_td_iff p hD q).mp h.symm))

/-- causality (one-sided form of the Lipschitz bound): a point cannot burn later than a neighbour
plus the travel time between them at speed D -/
theorem k1d2_causal (p : K1d2.P) (hD : 0 < p.D) (q q' : E2) :
    K1d2.burntime p (q 0) (q 1) ≤ K1d2.burntime p (q' 0) (q' 1) + dist q q' / p.D := by
  have := (abs_le.mp (k1d2_lipschitz p hD q q')).2; linarith

/-! #### 3-D -/

theorem k1d3_at_detonator (p : K1d3.P) (hD : 0 < p.D) : K1d3.burntime p p.xd0 p.xd1 p.xd2 = p.t_d := by
  have := k1d3_eq_cone p hD (K1d3.det p)
  simpa [K1d3.det, cone_self] using this

theorem k1d3_ge (p : K1d3.P) (hD : 0 < p.D) (q : E3) : p.t_d ≤ K1d3.burntime p (q 0) (q 1) (q 2) := by
  rw [k1d3_eq_cone p hD]; exact cone_ge _ hD _ _

theorem k1d3_lipschitz (p : K1d3.P) (hD : 0 < p.D) (q q' : E3) :
    |K1d3.burntime p (q 0) (q 1) (q 2) - K1d3.burntime p (q' 0) (q' 1) (q' 2)| ≤ dist q q' / p.D := by
  rw [k1d3_eq_cone p hD, k1d3_eq_cone p hD]; exact cone_lipschitz _ hD _ _ _

theorem k1d3_continuous (p : K1d3.P) (hD : 0 < p.D) :
    Continuous fun q : E3 => K1d3.burntime p (q 0) (q 1) (q 2) := by
  simp only [k1d3_eq_cone p hD, cone]
  exact continuous_const.add ((continuous_id.dist continuous_const).div_const _)

theorem k1d3_eikonal_rays (p : K1d3.P) (hD : 0 < p.D) :
    EikonalOnRays (fun q : E3 => K1d3.burntime p (q 0) (q 1) (q 2)) p.D (K1d3.det p) := by
  simp only [k1d3_eq_cone p hD]; exact cone_eikonal _ _ _

theorem k1d3_gradient (p : K1d3.P) (hD : 0 < p.D) (x y z : ℝ) (h : ¬(x = p.xd0 ∧ y = p.xd1 ∧ z = p.xd2)) :
    ∃ gx gy gz : ℝ, HasDerivAt (fun x' => K1d3.burntime p x' y z) gx x ∧
      HasDerivAt (fun y' => K1d3.burntime p x y' z) gy y ∧ HasDerivAt (fun z' => K1d3.burntime p x y z') gz z ∧
      gx ^ 2 + gy ^ 2 + gz ^ 2 = (1 / p.D) ^ 2 := by
  have hne : (x - p.xd0) * (x - p.xd0) + (y - p.xd1) * (y - p.xd1) + (z - p.xd2) * (z - p.xd2) ≠ 0 := by
    intro h0
    apply h
    refine ⟨?_, ?_, ?_⟩ <;>
      nlinarith [mul_self_nonneg (x - p.xd0), mul_self_nonneg (y - p.xd1), mul_self_nonneg (z - p.xd2)]
  have hpos : 0 < (x - p.xd0) * (x - p.xd0) + (y - p.xd1) * (y - p.xd1) + (z - p.xd2) * (z - p.xd2) :=
    lt_of_le_of_ne (by
      nlinarith [mul_self_nonneg (x - p.xd0), mul_self_nonneg (y - p.xd1), mul_self_nonneg (z - p.xd2)])
      (Ne.symm hne)
  have e : K1d3.burntime p = K1d3.L1.burntime p := by
    funext a b c; exact k1d3_eq_leaf p hD a b c
  refine ⟨K1d3.L1.burntime_dx p x y z, K1d3.L1.burntime_dy p x y z, K1d3.L1.burntime_dz p x y z, ?_, ?_, ?_, ?_⟩
  · rw [e]; exact K1d3.L1.burntime_hasDerivAt_x p x y z (by epv_deton_side)
  · rw [e]; exact K1d3.L1.burntime_hasDerivAt_y p x y z (by epv_deton_side)
  · rw [e]; exact K1d3.L1.burntime_hasDerivAt_z p x y z (by epv_deton_side)
  · simp only [epv_deriv]
    epv_deton_sqrt_gen s hs0 hs2
    have hs0' : 0 < s := by
      rcases hs0.lt_or_eq with h' | h'
      · exact h'
      · exfalso; rw [← h'] at hs2; nlinarith
    field_simp
    nlinarith

/-- first arrival is unique: the burn time equals the detonation time ONLY at the detonator -/
theorem k1d3_eq_td_iff (p : K1d3.P) (hD : 0 < p.D) (q : E3) :
    K1d3.burntime p (q 0) (q 1) (q 2) = p.t_d ↔ q = K1d3.det p := by
  rw [k1d3_eq_cone p hD]; unfold cone
  constructor
  · intro h
    have h0 : dist q (K1d3.det p) / p.D = 0 := by linarith
    rcases div_eq_zero_iff.mp h0 with h1 | h1
    · exact dist_eq_zero.mp h1
    · exact absurd h1 hD.ne'
  · rintro rfl; simp

/-- … and everywhere else the front arrives strictly later -/
theorem k1d3_gt (p : K1d3.P) (hD : 0 < p.D) (q : E3) (hq : q ≠ K1d3.det p) :
    p.t_d < K1d3.burntime p (q 0) (q 1) (q 2) :=
  lt_of_le_of_ne (k1d3_ge p hD q) (fun h => hq ((k1d3_eq_td_iff p hD q).mp h.symm))

/-- causality (one-sided form of the Lipschitz bound): a point cannot burn later than a neighbour
plus the travel time between them at speed D -/
theorem k1d3_causal (p : K1d3.P) (hD : 0 < p.D) (q q' : E3) :
    K1d3.burntime p (q 0) (q 1) (q 2) ≤ K1d3.burntime p (q' 0) (q' 1) (q' 2) + dist q q' / p.D := by
  have := (abs_le.mp (k1d3_lipschitz p hD q q')).2; linarith

/-- non-vacuity: the hypotheses hold at the solver's defaults (D = 1, x_d = 0, t_d = 0) -/
example : ∃ p : K1d2.P, 0 < p.D ∧ ¬((1 : ℝ) = p.xd0 ∧ (2 : ℝ) = p.xd1) := ⟨⟨1, 0, 0, 0⟩, by norm_num, by norm_num⟩
example : ∃ p : K1d3.P, 0 < p.D ∧ ¬((1 : ℝ) = p.xd0 ∧ (2 : ℝ) = p.xd1 ∧ (3 : ℝ) = p.xd2) :=
  ⟨⟨1, 0, 0, 0, 0⟩, by norm_num, by norm_num⟩

end EPV.C13
