/-
C13 — Kenamond 2 (five detonators on the axis, fast sphere of radius R inside a slower
explosive), 2-D (axis = y) and 3-D (axis = z).

The traced burn time (`Kenamond2.__init__` + `_run`; the code's `max`/`min` are kept as
`max`/`min`) is the documented  t = min(t₁, t₂, max(t₃, t₄), t₅, t₆)  of `EPV.Spec.Burn.k2`
on `EuclideanSpace ℝ (Fin n)` whenever the constructor accepts (`EPV.Burn.k2dN_eq_spec`), and the
constructor's checks are exactly `K2Adm` (`EPV.Burn.k2dN_outcome`; both in EPV/Lemmas/BurnK2.lean).  Consequently, under those checks,

* t ≥ min_i t_{d_i}                                               (`k2dN_ge_min`)
* t(x_{d_i}) ≤ t_{d_i} for i = 1, 2, 4, 5 and t(x_{d_3}) = t_{d_3}   (`k2dN_at_detK_le`, `k2dN_at_det3`)
* |t q - t q'| ≤ dist q q' / D₂ for all q, q'                      (`k2dN_lipschitz`) — D₂ is the slower
  explosive, so this is the bound of the property for every straight path, whichever material it
  crosses; inside the sphere it improves to 1/D₁               (`k2dN_lipschitz_inside`)
* ‖q‖ ≤ R → t q = t_{d_3} + ‖q‖/D₁   (the content of the constructor's timing checks, `k2dN_inside`)
* continuity everywhere, in particular across the sphere        (`k2dN_continuous`; on the sphere the
  two expressions of the central wave agree: `EPV.Burn.k2_t3_eq_t4`).

(P) The pointwise gradient of Kenamond 2 (a minimum of five cones) is not stated; the
derivative-free Lipschitz bounds above are the consequence the property names.
-/
import EPV.Gen.K2d2
import EPV.Gen.K2d3
import EPV.Spec.Burn
import EPV.Lemmas.BurnK2
import EPV.Tactics

set_option linter.all false

open EPV EPV.Gen EPV.Spec.Burn EPV.Burn

namespace EPV.C13


/-! #### 2-D -/

theorem k2d2_ge_min (p : K2d2.P) (h : K2d2.Adm p) (q : E2) :
    min (min (min (min p.td3 p.td1) p.td2) p.td4) p.td5 ≤ K2d2.burntime p (q 0) (q 1) := by
  rw [k2d2_eq_spec' p h]
  exact k2_ge_min (h.hD2.trans_le h.hD) h.hD2 q

theorem k2d2_at_det1_le (p : K2d2.P) (h : K2d2.Adm p) : K2d2.burntime p 0 p.a1 ≤ p.td1 := by
  have := k2d2_eq_spec' p h (axis2 p.a1)
  simp only [axis2_0, axis2_1] at this
  rw [this]; exact k2_at_det1_le

theorem k2d2_at_det2_le (p : K2d2.P) (h : K2d2.Adm p) : K2d2.burntime p 0 p.a2 ≤ p.td2 := by
  have := k2d2_eq_spec' p h (axis2 p.a2)
  simp only [axis2_0, axis2_1] at this
  rw [this]; exact k2_at_det2_le

theorem k2d2_at_det4_le (p : K2d2.P) (h : K2d2.Adm p) : K2d2.burntime p 0 p.a4 ≤ p.td4 := by
  have := k2d2_eq_spec' p h (axis2 p.a4)
  simp only [axis2_0, axis2_1] at this
  rw [this]; exact k2_at_det4_le

theorem k2d2_at_det5_le (p : K2d2.P) (h : K2d2.Adm p) : K2d2.burntime p 0 p.a5 ≤ p.td5 := by
  have := k2d2_eq_spec' p h (axis2 p.a5)
  simp only [axis2_0, axis2_1] at this
  rw [this]; exact k2_at_det5_le

/-- at detonator 3 (the origin) the burn time is its detonation time -/
theorem k2d2_at_det3 (p : K2d2.P) (h : K2d2.Adm p) : K2d2.burntime p 0 0 = p.td3 := by
  have := k2d2_eq_spec' p h (0 : E2)
  simp only [PiLp.zero_apply] at this
  rw [this]; exact k2_at_origin h

/-- global `1/D₂` bound: two points differ in burn time by at most their distance over the
speed of the slower explosive -/
theorem k2d2_lipschitz (p : K2d2.P) (h : K2d2.Adm p) (q q' : E2) :
    |K2d2.burntime p (q 0) (q 1) - K2d2.burntime p (q' 0) (q' 1)| ≤ dist q q' / p.D2 := by
  rw [k2d2_eq_spec' p h, k2d2_eq_spec' p h]
  exact k2_lipschitz h.hD2 h.hD q q'

/-- the content of the constructor's timing checks: inside the sphere only detonator 3 matters -/
theorem k2d2_inside (p : K2d2.P) (h : K2d2.Adm p) (q : E2) (hq : ‖q‖ ≤ p.R) :
    K2d2.burntime p (q 0) (q 1) = p.td3 + ‖q‖ / p.D1 := by
  rw [k2d2_eq_spec' p h]; exact k2_inside h hq

/-- two points of the inner explosive differ by at most their distance over `D₁` -/
theorem k2d2_lipschitz_inside (p : K2d2.P) (h : K2d2.Adm p) (q q' : E2) (hq : ‖q‖ ≤ p.R) (hq' : ‖q'‖ ≤ p.R) :
    |K2d2.burntime p (q 0) (q 1) - K2d2.burntime p (q' 0) (q' 1)| ≤ dist q q' / p.D1 := by
  rw [k2d2_eq_spec' p h, k2d2_eq_spec' p h]
  exact k2_lipschitz_inside h hq hq'

/-- outside the sphere the central wave is the refracted one; with `k2d2_inside` and
`EPV.Burn.k2_t3_eq_t4` this is the continuity across the interface in closed form -/
theorem k2d2_outside (p : K2d2.P) (h : K2d2.Adm p) (q : E2) (hq : p.R ≤ ‖q‖) :
    K2d2.burntime p (q 0) (q 1) =
      min (min (min (min (p.td3 + ‖q‖ / p.D2 + p.R * (1 / p.D1 - 1 / p.D2)) (cone p.td1 p.D2 (axis2 p.a1) q))
        (cone p.td2 p.D2 (axis2 p.a2) q)) (cone p.td4 p.D2 (axis2 p.a4) q)) (cone p.td5 p.D2 (axis2 p.a5) q) := by
  rw [k2d2_eq_spec' p h]; exact k2_outside h.hD2 h.hD hq

/-- continuity everywhere (in particular across the sphere) -/
theorem k2d2_continuous (p : K2d2.P) (h : K2d2.Adm p) :
    Continuous fun q : E2 => K2d2.burntime p (q 0) (q 1) := by
  have e : (fun q : E2 => K2d2.burntime p (q 0) (q 1)) = K2d2.spec p := funext fun q => k2d2_eq_spec' p h q
  rw [e]
  refine continuous_iff_continuousAt.mpr fun q => ?_
  rw [Metric.continuousAt_iff]
  intro ε hε
  refine ⟨ε * p.D2, mul_pos hε h.hD2, fun q' hq' => ?_⟩
  rw [Real.dist_eq]
  refine lt_of_le_of_lt (k2_lipschitz h.hD2 h.hD q' q) ?_
  rw [div_lt_iff₀ h.hD2]; exact hq'

/-! #### 3-D -/

theorem k2d3_ge_min (p : K2d3.P) (h : K2d3.Adm p) (q : E3) :
    min (min (min (min p.td3 p.td1) p.td2) p.td4) p.td5 ≤ K2d3.burntime p (q 0) (q 1) (q 2) := by
  rw [k2d3_eq_spec' p h]
  exact k2_ge_min (h.hD2.trans_le h.hD) h.hD2 q

theorem k2d3_at_det1_le (p : K2d3.P) (h : K2d3.Adm p) : K2d3.burntime p 0 0 p.a1 ≤ p.td1 := by
  have := k2d3_eq_spec' p h (axis3 p.a1)
  simp only [axis3_0, axis3_1, axis3_2] at this
  rw [this]; exact k2_at_det1_le

theorem k2d3_at_det2_le (p : K2d3.P) (h : K2d3.Adm p) : K2d3.burntime p 0 0 p.a2 ≤ p.td2 := by
  have := k2d3_eq_spec' p h (axis3 p.a2)
  simp only [axis3_0, axis3_1, axis3_2] at this
  rw [this]; exact k2_at_det2_le

theorem k2d3_at_det4_le (p : K2d3.P) (h : K2d3.Adm p) : K2d3.burntime p 0 0 p.a4 ≤ p.td4 := by
  have := k2d3_eq_spec' p h (axis3 p.a4)
  simp only [axis3_0, axis3_1, axis3_2] at this
  rw [this]; exact k2_at_det4_le

theorem k2d3_at_det5_le (p : K2d3.P) (h : K2d3.Adm p) : K2d3.burntime p 0 0 p.a5 ≤ p.td5 := by
  have := k2d3_eq_spec' p h (axis3 p.a5)
  simp only [axis3_0, axis3_1, axis3_2] at this
  rw [this]; exact k2_at_det5_le

/-- at detonator 3 (the origin) the burn time is its detonation time -/
theorem k2d3_at_det3 (p : K2d3.P) (h : K2d3.Adm p) : K2d3.burntime p 0 0 0 = p.td3 := by
  have := k2d3_eq_spec' p h (0 : E3)
  simp only [PiLp.zero_apply] at this
  rw [this]; exact k2_at_origin h

/-- global `1/D₂` bound: two points differ in burn time by at most their distance over the
speed of the slower explosive -/
theorem k2d3_lipschitz (p : K2d3.P) (h : K2d3.Adm p) (q q' : E3) :
    |K2d3.burntime p (q 0) (q 1) (q 2) - K2d3.burntime p (q' 0) (q' 1) (q' 2)| ≤ dist q q' / p.D2 := by
  rw [k2d3_eq_spec' p h, k2d3_eq_spec' p h]
  exact k2_lipschitz h.hD2 h.hD q q'

/-- the content of the constructor's timing checks: inside the sphere only detonator 3 matters -/
theorem k2d3_inside (p : K2d3.P) (h : K2d3.Adm p) (q : E3) (hq : ‖q‖ ≤ p.R) :
    K2d3.burntime p (q 0) (q 1) (q 2) = p.td3 + ‖q‖ / p.D1 := by
  rw [k2d3_eq_spec' p h]; exact k2_inside h hq

/-- two points of the inner explosive differ by at most their distance over `D₁` -/
theorem k2d3_lipschitz_inside (p : K2d3.P) (h : K2d3.Adm p) (q q' : E3) (hq : ‖q‖ ≤ p.R) (hq' : ‖q'‖ ≤ p.R) :
    |K2d3.burntime p (q 0) (q 1) (q 2) - K2d3.burntime p (q' 0) (q' 1) (q' 2)| ≤ dist q q' / p.D1 := by
  rw [k2d3_eq_spec' p h, k2d3_eq_spec' p h]
  exact k2_lipschitz_inside h hq hq'

/-- outside the sphere the central wave is the refracted one; with `k2d3_inside` and
`EPV.Burn.k2_t3_eq_t4` this is the continuity across the interface in closed form -/
theorem k2d3_outside (p : K2d3.P) (h : K2d3.Adm p) (q : E3) (hq : p.R ≤ ‖q‖) :
    K2d3.burntime p (q 0) (q 1) (q 2) =
      min (min (min (min (p.td3 + ‖q‖ / p.D2 + p.R * (1 / p.D1 - 1 / p.D2)) (cone p.td1 p.D2 (axis3 p.a1) q))
        (cone p.td2 p.D2 (axis3 p.a2) q)) (cone p.td4 p.D2 (axis3 p.a4) q)) (cone p.td5 p.D2 (axis3 p.a5) q) := by
  rw [k2d3_eq_spec' p h]; exact k2_outside h.hD2 h.hD hq

/-- continuity everywhere (in particular across the sphere) -/
theorem k2d3_continuous (p : K2d3.P) (h : K2d3.Adm p) :
    Continuous fun q : E3 => K2d3.burntime p (q 0) (q 1) (q 2) := by
  have e : (fun q : E3 => K2d3.burntime p (q 0) (q 1) (q 2)) = K2d3.spec p := funext fun q => k2d3_eq_spec' p h q
  rw [e]
  refine continuous_iff_continuousAt.mpr fun q => ?_
  rw [Metric.continuousAt_iff]
  intro ε hε
  refine ⟨ε * p.D2, mul_pos hε h.hD2, fun q' hq' => ?_⟩
  rw [Real.dist_eq]
  refine lt_of_le_of_lt (k2_lipschitz h.hD2 h.hD q' q) ?_
  rw [div_lt_iff₀ h.hD2]; exact hq'

/-- non-vacuity: the solver's defaults (R = 3, D₁ = 2, D₂ = 1, dets = ±10, ±5, times 2, 1, 0, 1, 2)
satisfy the constructor's conditions -/
example : K2d2.Adm ⟨2, 1, 3, 10, 5, -5, -10, 2, 1, 0, 1, 2⟩ := by
  refine ⟨by norm_num, by norm_num, by norm_num, ?_, ?_, ?_, ?_, ?_, ?_, ?_, ?_⟩ <;>
    simp only [norm_axis2] <;> norm_num [abs_of_pos, abs_of_neg]
example : K2d3.Adm ⟨2, 1, 3, 10, 5, -5, -10, 2, 1, 0, 1, 2⟩ := by
  refine ⟨by norm_num, by norm_num, by norm_num, ?_, ?_, ?_, ?_, ?_, ?_, ?_, ?_⟩ <;>
    simp only [norm_axis3] <;> norm_num [abs_of_pos, abs_of_neg]

end EPV.C13
