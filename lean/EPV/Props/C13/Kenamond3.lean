/-
C13 — Kenamond 3 (one detonator, one explosive, inert spherical obstacle of radius R at the
origin), 2-D and 3-D.

The traced burn time (`Kenamond3.__init__` + `_run`, line-of-sight leaf and shadow leaf) is
the documented solution `EPV.Spec.Burn.k3` on `EuclideanSpace ℝ (Fin n)` (`k3dN_eq_spec`):
the straight cone where θ ≤ 0, and t_d + (l_da + Rθ + l_bp)/D in the shadow θ > 0.
Under the constructor's checks (R > 0, D > 0, ‖x_d‖ > R) and for points of the explosive
(‖q‖ ≥ R, anything else raises ValueError):

* t ≥ t_d, and t(x_d) = t_d                               (`k3dN_ge`, `k3dN_at_detonator`)
* continuity across the shadow boundary: θ = 0 ⇒ ‖q - x_d‖ = l_da + l_bp, so the two
  formulas agree there, and t is continuous on the whole explosive
                                                           (`k3dN_boundary`, `k3dN_continuousOn`)
* the shadow path is never shorter than the (blocked) straight segment, so the solver's
  time is never earlier than the straight-line arrival time    (`k3dN_ge_straight`)
* in the line-of-sight region the field is the Kenamond 1 cone: 1/D-Lipschitz between
  line-of-sight points, eikonal along rays                   (`k3dN_los`, `k3dN_lipschitz_los`).

(P) Not proved: the gradient norm 1/D of the shadow-region formula and the 1/D bound for
pairs of points of which one is shadowed (the explosive is not convex; the bound holds along
segments that stay inside it).  Sampled by the oracle `o_burn.k3_lipschitz`.
-/
import EPV.Gen.K3d2
import EPV.Gen.K3d3
import EPV.Spec.Burn
import EPV.Lemmas.BurnModels
import EPV.Tactics

set_option linter.all false

open EPV EPV.Gen EPV.Spec.Burn EPV.Burn

namespace EPV.C13


/-! #### 2-D -/

/-- never earlier than the detonation time -/
theorem k3d2_ge (p : K3d2.P) (h : K3d2.Adm p) (q : E2) (hq : p.R ≤ ‖q‖) :
    p.t_d ≤ K3d2.burntime p (q 0) (q 1) := by
  rw [k3d2_eq_spec' p h q hq]; exact k3_ge h.hR h.hD

/-- at the detonator the burn time is the detonation time -/
theorem k3d2_at_detonator (p : K3d2.P) (h : K3d2.Adm p) : K3d2.burntime p p.xd0 p.xd1 = p.t_d := by
  have := k3d2_eq_spec' p h (K3d2.det p) h.hdet.le
  simp only [K3d2.det_0, K3d2.det_1] at this
  rw [this]; exact k3_at_detonator (h.hR.trans h.hdet)

/-- on the shadow boundary the straight distance is the sum of the two tangent lengths … -/
theorem k3d2_boundary_dist (p : K3d2.P) (h : K3d2.Adm p) (q : E2) (hq : p.R ≤ ‖q‖)
    (hθ : k3theta p.R (K3d2.det p) q = 0) :
    dist q (K3d2.det p) = Real.sqrt (‖K3d2.det p‖ ^ 2 - p.R ^ 2) + Real.sqrt (‖q‖ ^ 2 - p.R ^ 2) :=
  k3_boundary_dist h.hR h.hdet.le hq hθ

/-- … hence both traced leaves give the same value there: continuity across the shadow boundary -/
theorem k3d2_boundary (p : K3d2.P) (h : K3d2.Adm p) (q : E2) (hq : p.R ≤ ‖q‖)
    (hθ : k3theta p.R (K3d2.det p) q = 0) :
    K3d2.L4.burntime p (q 0) (q 1) = K3d2.L5.burntime p (q 0) (q 1) := by
  have := k3_boundary (D := p.D) (td := p.t_d) h.hR h.hdet.le hq hθ
  unfold k3path k3theta cone at this
  rw [← sqrt_norm2 q, ← sqrt_norm2 (K3d2.det p), ← inner2 q (K3d2.det p), ← sqrt_dist2 q (K3d2.det p)] at this
  simp only [K3d2.det_0, K3d2.det_1] at this
  simp only [epv_leaf, one_mul, div_one]
  exact this

/-- the burn time is continuous on the whole explosive -/
theorem k3d2_continuousOn (p : K3d2.P) (h : K3d2.Adm p) :
    ContinuousOn (fun q : E2 => K3d2.burntime p (q 0) (q 1)) {q : E2 | p.R ≤ ‖q‖} := by
  refine (k3_continuousOn (D := p.D) (td := p.t_d) h.hR h.hdet.le).congr ?_
  intro q hq
  exact k3d2_eq_spec' p h q hq

/-- the path around the obstacle is never shorter than the blocked straight segment: the
burn time is never earlier than the straight-line arrival time -/
theorem k3d2_ge_straight (p : K3d2.P) (h : K3d2.Adm p) (q : E2) (hq : p.R ≤ ‖q‖) :
    p.t_d + dist q (K3d2.det p) / p.D ≤ K3d2.burntime p (q 0) (q 1) := by
  rw [k3d2_eq_spec' p h q hq]; exact k3_ge_cone h.hR h.hD h.hdet.le hq

theorem k3d2_shadow_path_ge_dist (p : K3d2.P) (h : K3d2.Adm p) (q : E2) (hq : p.R ≤ ‖q‖)
    (hθ : 0 ≤ k3theta p.R (K3d2.det p) q) : dist q (K3d2.det p) ≤ k3path p.R (K3d2.det p) q :=
  k3_path_ge_dist h.hR h.hdet.le hq hθ

/-- in the line of sight (θ ≤ 0) the field is the Kenamond 1 cone -/
theorem k3d2_los (p : K3d2.P) (h : K3d2.Adm p) (q : E2) (hq : p.R ≤ ‖q‖)
    (hθ : k3theta p.R (K3d2.det p) q ≤ 0) :
    K3d2.burntime p (q 0) (q 1) = cone p.t_d p.D (K3d2.det p) q := by
  rw [k3d2_eq_spec' p h q hq]; unfold k3; rw [if_neg (not_lt.mpr hθ)]

/-- two line-of-sight points differ in burn time by at most their distance over D.
PARTIAL: the property's bound for pairs of points joined by a straight path inside the explosive is
proved here only when both points are in line of sight of the detonator (θ ≤ 0); pairs with a
shadowed point are sampled by the oracle `o_burn.k3` (site `Kenamond3:lipschitz`). -/
theorem k3d2_lipschitz_partial (p : K3d2.P) (h : K3d2.Adm p) (q q' : E2) (hq : p.R ≤ ‖q‖) (hq' : p.R ≤ ‖q'‖)
    (hθ : k3theta p.R (K3d2.det p) q ≤ 0) (hθ' : k3theta p.R (K3d2.det p) q' ≤ 0) :
    |K3d2.burntime p (q 0) (q 1) - K3d2.burntime p (q' 0) (q' 1)| ≤ dist q q' / p.D := by
  rw [k3d2_los p h q hq hθ, k3d2_los p h q' hq' hθ']; exact cone_lipschitz _ h.hD _ _ _

/-! #### 3-D -/

/-- never earlier than the detonation time -/
theorem k3d3_ge (p : K3d3.P) (h : K3d3.Adm p) (q : E3) (hq : p.R ≤ ‖q‖) :
    p.t_d ≤ K3d3.burntime p (q 0) (q 1) (q 2) := by
  rw [k3d3_eq_spec' p h q hq]; exact k3_ge h.hR h.hD

/-- at the detonator the burn time is the detonation time -/
theorem k3d3_at_detonator (p : K3d3.P) (h : K3d3.Adm p) : K3d3.burntime p p.xd0 p.xd1 p.xd2 = p.t_d := by
  have := k3d3_eq_spec' p h (K3d3.det p) h.hdet.le
  simp only [K3d3.det_0, K3d3.det_1, K3d3.det_2] at this
  rw [this]; exact k3_at_detonator (h.hR.trans h.hdet)

/-- on the shadow boundary the straight distance is the sum of the two tangent lengths … -/
theorem k3d3_boundary_dist (p : K3d3.P) (h : K3d3.Adm p) (q : E3) (hq : p.R ≤ ‖q‖)
    (hθ : k3theta p.R (K3d3.det p) q = 0) :
    dist q (K3d3.det p) = Real.sqrt (‖K3d3.det p‖ ^ 2 - p.R ^ 2) + Real.sqrt (‖q‖ ^ 2 - p.R ^ 2) :=
  k3_boundary_dist h.hR h.hdet.le hq hθ

/-- … hence both traced leaves give the same value there: continuity across the shadow boundary -/
theorem k3d3_boundary (p : K3d3.P) (h : K3d3.Adm p) (q : E3) (hq : p.R ≤ ‖q‖)
    (hθ : k3theta p.R (K3d3.det p) q = 0) :
    K3d3.L4.burntime p (q 0) (q 1) (q 2) = K3d3.L5.burntime p (q 0) (q 1) (q 2) := by
  have := k3_boundary (D := p.D) (td := p.t_d) h.hR h.hdet.le hq hθ
  unfold k3path k3theta cone at this
  rw [← sqrt_norm3 q, ← sqrt_norm3 (K3d3.det p), ← inner3 q (K3d3.det p), ← sqrt_dist3 q (K3d3.det p)] at this
  simp only [K3d3.det_0, K3d3.det_1, K3d3.det_2] at this
  simp only [epv_leaf, one_mul, div_one]
  exact this

/-- the burn time is continuous on the whole explosive -/
theorem k3d3_continuousOn (p : K3d3.P) (h : K3d3.Adm p) :
    ContinuousOn (fun q : E3 => K3d3.burntime p (q 0) (q 1) (q 2)) {q : E3 | p.R ≤ ‖q‖} := by
  refine (k3_continuousOn (D := p.D) (td := p.t_d) h.hR h.hdet.le).congr ?_
  intro q hq
  exact k3d3_eq_spec' p h q hq

/-- the path around the obstacle is never shorter than the blocked straight segment: the
burn time is never earlier than the straight-line arrival time -/
theorem k3d3_ge_straight (p : K3d3.P) (h : K3d3.Adm p) (q : E3) (hq : p.R ≤ ‖q‖) :
    p.t_d + dist q (K3d3.det p) / p.D ≤ K3d3.burntime p (q 0) (q 1) (q 2) := by
  rw [k3d3_eq_spec' p h q hq]; exact k3_ge_cone h.hR h.hD h.hdet.le hq

theorem k3d3_shadow_path_ge_dist (p : K3d3.P) (h : K3d3.Adm p) (q : E3) (hq : p.R ≤ ‖q‖)
    (hθ : 0 ≤ k3theta p.R (K3d3.det p) q) : dist q (K3d3.det p) ≤ k3path p.R (K3d3.det p) q :=
  k3_path_ge_dist h.hR h.hdet.le hq hθ

/-- in the line of sight (θ ≤ 0) the field is the Kenamond 1 cone -/
theorem k3d3_los (p : K3d3.P) (h : K3d3.Adm p) (q : E3) (hq : p.R ≤ ‖q‖)
    (hθ : k3theta p.R (K3d3.det p) q ≤ 0) :
    K3d3.burntime p (q 0) (q 1) (q 2) = cone p.t_d p.D (K3d3.det p) q := by
  rw [k3d3_eq_spec' p h q hq]; unfold k3; rw [if_neg (not_lt.mpr hθ)]

/-- two line-of-sight points differ in burn time by at most their distance over D.
PARTIAL: the property's bound for pairs of points joined by a straight path inside the explosive is
proved here only when both points are in line of sight of the detonator (θ ≤ 0); pairs with a
shadowed point are sampled by the oracle `o_burn.k3` (site `Kenamond3:lipschitz`). -/
theorem k3d3_lipschitz_partial (p : K3d3.P) (h : K3d3.Adm p) (q q' : E3) (hq : p.R ≤ ‖q‖) (hq' : p.R ≤ ‖q'‖)
    (hθ : k3theta p.R (K3d3.det p) q ≤ 0) (hθ' : k3theta p.R (K3d3.det p) q' ≤ 0) :
    |K3d3.burntime p (q 0) (q 1) (q 2) - K3d3.burntime p (q' 0) (q' 1) (q' 2)| ≤ dist q q' / p.D := by
  rw [k3d3_los p h q hq hθ, k3d3_los p h q' hq' hθ']; exact cone_lipschitz _ h.hD _ _ _

/-- non-vacuity: the solver's defaults R = 3, D = 2, x_d = (0, 5), t_d = 0 -/
example : K3d2.Adm ⟨2, 3, 0, 0, 5⟩ := by
  refine ⟨by norm_num, by norm_num, ?_⟩
  rw [← sqrt_norm2]; simp only [K3d2.det_0, K3d2.det_1]
  rw [show (0 : ℝ) * 0 + 5 * 5 = 5 ^ 2 by norm_num, Real.sqrt_sq (by norm_num)]; norm_num
example : K3d3.Adm ⟨2, 3, 0, 0, 5, 0⟩ := by
  refine ⟨by norm_num, by norm_num, ?_⟩
  rw [← sqrt_norm3]; simp only [K3d3.det_0, K3d3.det_1, K3d3.det_2]
  rw [show (0 : ℝ) * 0 + 5 * 5 + 0 * 0 = 5 ^ 2 by norm_num, Real.sqrt_sq (by norm_num)]; norm_num

end EPV.C13
