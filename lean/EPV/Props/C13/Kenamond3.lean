/-
C13 — Kenamond 3 (one detonator, one explosive, inert spherical obstacle of radius R at the
origin), 2-D and 3-D.

The traced burn time (`Kenamond3.__init__` + `_run`, line-of-sight leaf and shadow leaf) is
the documented solution `EPV.Spec.Burn.k3` on `EuclideanSpace ℝ (Fin n)` (`EPV.Burn.k3dN_eq_spec`,
`EPV.Burn.k3dN_outcome` in EPV/Lemmas/BurnK3.lean):
the straight cone where θ ≤ 0, and t_d + (l_da + Rθ + l_bp)/D in the shadow θ > 0.
Under the constructor's checks (R > 0, D > 0, ‖x_d‖ > R) and for points of the explosive
(‖q‖ ≥ R, anything else raises ValueError):

* t ≥ t_d, and t(x_d) = t_d                               (`k3dN_ge`, `k3dN_at_detonator`)
* continuity across the shadow boundary: θ = 0 ⇒ ‖q - x_d‖ = l_da + l_bp, so the two
  formulas agree there, and t is continuous on the whole explosive
                                                           (`k3dN_boundary`, `k3dN_continuousOn`)
* the shadow path is never shorter than the (blocked) straight segment, so the solver's
  time is never earlier than the straight-line arrival time    (`k3dN_ge_straight`)
* in the line-of-sight region the field is the Kenamond 1 cone: 1/D-Lipschitz between
  line-of-sight points, eikonal along rays                   (`k3dN_los`, `k3dN_lipschitz_los`).

* strictly inside the line-of-sight region the gradient exists and has magnitude 1/D
                                                           (`k3dN_gradient_los`).

* strictly inside the shadow region, off the ray directly behind the obstacle (where the waves
  passing on both sides meet and the field has a kink), the gradient exists and has magnitude 1/D
  — from the generated certificates through arccos and sqrt       (`k3dN_gradient_shadow`).

(P) Not proved: the 1/D bound for pairs of points of which one is shadowed (the explosive is
not convex; the bound holds along segments that stay inside it — it would follow from the two
gradient theorems by a mean-value argument along the segment, which is not carried out).
Sampled by the oracle `o_burn.k3` (site `Kenamond3:lipschitz`).
-/
import EPV.Gen.K3d2D
import EPV.Gen.K3d3D
import EPV.Spec.Burn
import EPV.Lemmas.BurnK3
import EPV.Tactics

import EPV.Lemmas.Bridge.DetonTactics
import EPV.Lemmas.Bridge.BurnAtoms

set_option linter.all false

open EPV EPV.Gen EPV.Spec.Burn EPV.Burn

namespace EPV.C13


/-! #### 2-D -/

/-- never earlier than the detonation time -/
theorem k3d2_ge (p : K3d2.P) (h : K3d2.Adm p) (q : E2) (hq : p.R ≤ ‖q‖) :
    p.t_d ≤ K3d2.burntime p (q 0) (q 1) := by
  rw [k3d2_eq_spec' p h q hq]; exact k3_ge h.hR h.hD

/-- at the detonator the burn time is the detonation time -/
theorem k3d2_at_detonator (p : K3d2.P) (h : K3d2.Adm p) : K3d2.burntime p p.xd0 p.xd1 = p.t_d := by
  have := k3d2_eq_spec' p h (K3d2.det p) h.hdet.le
  simp only [K3d2.det_0, K3d2.det_1] at this
  rw [this]; exact k3_at_detonator (h.hR.trans h.hdet)

/-- on the shadow boundary the straight distance is the sum of the two tangent lengths … -/
theorem k3d2_boundary_dist (p : K3d2.P) (h : K3d2.Adm p) (q : E2) (hq : p.R ≤ ‖q‖)
    (hθ : k3theta p.R (K3d2.det p) q = 0) :
    dist q (K3d2.det p) = Real.sqrt (‖K3d2.det p‖ ^ 2 - p.R ^ 2) + Real.sqrt (‖q‖ ^ 2 - p.R ^ 2) :=
  k3_boundary_dist h.hR h.hdet.le hq hθ

/-- … hence both traced leaves give the same value there: continuity across the shadow boundary -/
theorem k3d2_boundary (p : K3d2.P) (h : K3d2.Adm p) (q : E2) (hq : p.R ≤ ‖q‖)
    (hθ : k3theta p.R (K3d2.det p) q = 0) :
    K3d2.L4.burntime p (q 0) (q 1) = K3d2.L5.burntime p (q 0) (q 1) := by
  have := k3_boundary (D := p.D) (td := p.t_d) h.hR h.hdet.le hq hθ
  unfold k3path k3theta cone at this
  rw [← sqrt_norm2 q, ← sqrt_norm2 (K3d2.det p), ← inner2 q (K3d2.det p), ← sqrt_dist2 q (K3d2.det p)] at this
  simp only [K3d2.det_0, K3d2.det_1] at this
  simp only [epv_leaf]
  -- both sides agree with the documented ones up to ring normalisation inside and outside √ / arccos
  refine Eq.trans ?_ (this.trans ?_) <;> epv_deton_nf_eq

/-- the burn time is continuous on the whole explosive -/
theorem k3d2_continuousOn (p : K3d2.P) (h : K3d2.Adm p) :
    ContinuousOn (fun q : E2 => K3d2.burntime p (q 0) (q 1)) {q : E2 | p.R ≤ ‖q‖} := by
  refine (k3_continuousOn (D := p.D) (td := p.t_d) h.hR h.hdet.le).congr ?_
  intro q hq
  exact k3d2_eq_spec' p h q hq

/-- the path around the obstacle is never shorter than the blocked straight segment: the
burn time is never earlier than the straight-line arrival time -/
theorem k3d2_ge_straight (p : K3d2.P) (h : K3d2.Adm p) (q : E2) (hq : p.R ≤ ‖q‖) :
    p.t_d + dist q (K3d2.det p) / p.D ≤ K3d2.burntime p (q 0) (q 1) := by
  rw [k3d2_eq_spec' p h q hq]; exact k3_ge_cone h.hR h.hD h.hdet.le hq

theorem k3d2_shadow_path_ge_dist (p : K3d2.P) (h : K3d2.Adm p) (q : E2) (hq : p.R ≤ ‖q‖)
    (hθ : 0 ≤ k3theta p.R (K3d2.det p) q) : dist q (K3d2.det p) ≤ k3path p.R (K3d2.det p) q :=
  k3_path_ge_dist h.hR h.hdet.le hq hθ

/-- in the line of sight (θ ≤ 0) the field is the Kenamond 1 cone -/
theorem k3d2_los (p : K3d2.P) (h : K3d2.Adm p) (q : E2) (hq : p.R ≤ ‖q‖)
    (hθ : k3theta p.R (K3d2.det p) q ≤ 0) :
    K3d2.burntime p (q 0) (q 1) = cone p.t_d p.D (K3d2.det p) q := by
  rw [k3d2_eq_spec' p h q hq]; unfold k3; rw [if_neg (not_lt.mpr hθ)]

/-- two line-of-sight points differ in burn time by at most their distance over D.
PARTIAL: the property's bound for pairs of points joined by a straight path inside the explosive is
proved here only when both points are in line of sight of the detonator (θ ≤ 0); pairs with a
shadowed point are sampled by the oracle `o_burn.k3` (site `Kenamond3:lipschitz`). -/
theorem k3d2_lipschitz_partial (p : K3d2.P) (h : K3d2.Adm p) (q q' : E2) (hq : p.R ≤ ‖q‖) (hq' : p.R ≤ ‖q'‖)
    (hθ : k3theta p.R (K3d2.det p) q ≤ 0) (hθ' : k3theta p.R (K3d2.det p) q' ≤ 0) :
    |K3d2.burntime p (q 0) (q 1) - K3d2.burntime p (q' 0) (q' 1)| ≤ dist q q' / p.D := by
  rw [k3d2_los p h q hq hθ, k3d2_los p h q' hq' hθ']; exact cone_lipschitz _ h.hD _ _ _

/-! #### 3-D -/

/-- never earlier than the detonation time -/
theorem k3d3_ge (p : K3d3.P) (h : K3d3.Adm p) (q : E3) (hq : p.R ≤ ‖q‖) :
    p.t_d ≤ K3d3.burntime p (q 0) (q 1) (q 2) := by
  rw [k3d3_eq_spec' p h q hq]; exact k3_ge h.hR h.hD

/-- at the detonator the burn time is the detonation time -/
theorem k3d3_at_detonator (p : K3d3.P) (h : K3d3.Adm p) : K3d3.burntime p p.xd0 p.xd1 p.xd2 = p.t_d := by
  have := k3d3_eq_spec' p h (K3d3.det p) h.hdet.le
  simp only [K3d3.det_0, K3d3.det_1, K3d3.det_2] at this
  rw [this]; exact k3_at_detonator (h.hR.trans h.hdet)

/-- on the shadow boundary the straight distance is the sum of the two tangent lengths … -/
theorem k3d3_boundary_dist (p : K3d3.P) (h : K3d3.Adm p) (q : E3) (hq : p.R ≤ ‖q‖)
    (hθ : k3theta p.R (K3d3.det p) q = 0) :
    dist q (K3d3.det p) = Real.sqrt (‖K3d3.det p‖ ^ 2 - p.R ^ 2) + Real.sqrt (‖q‖ ^ 2 - p.R ^ 2) :=
  k3_boundary_dist h.hR h.hdet.le hq hθ

/-- … hence both traced leaves give the same value there: continuity across the shadow boundary -/
theorem k3d3_boundary (p : K3d3.P) (h : K3d3.Adm p) (q : E3) (hq : p.R ≤ ‖q‖)
    (hθ : k3theta p.R (K3d3.det p) q = 0) :
    K3d3.L4.burntime p (q 0) (q 1) (q 2) = K3d3.L5.burntime p (q 0) (q 1) (q 2) := by
  have := k3_boundary (D := p.D) (td := p.t_d) h.hR h.hdet.le hq hθ
  unfold k3path k3theta cone at this
  rw [← sqrt_norm3 q, ← sqrt_norm3 (K3d3.det p), ← inner3 q (K3d3.det p), ← sqrt_dist3 q (K3d3.det p)] at this
  simp only [K3d3.det_0, K3d3.det_1, K3d3.det_2] at this
  simp only [epv_leaf]
  refine Eq.trans ?_ (this.trans ?_) <;> epv_deton_nf_eq

/-- the burn time is continuous on the whole explosive -/
theorem k3d3_continuousOn (p : K3d3.P) (h : K3d3.Adm p) :
    ContinuousOn (fun q : E3 => K3d3.burntime p (q 0) (q 1) (q 2)) {q : E3 | p.R ≤ ‖q‖} := by
  refine (k3_continuousOn (D := p.D) (td := p.t_d) h.hR h.hdet.le).congr ?_
  intro q hq
  exact k3d3_eq_spec' p h q hq

/-- the path around the obstacle is never shorter than the blocked straight segment: the
burn time is never earlier than the straight-line arrival time -/
theorem k3d3_ge_straight (p : K3d3.P) (h : K3d3.Adm p) (q : E3) (hq : p.R ≤ ‖q‖) :
    p.t_d + dist q (K3d3.det p) / p.D ≤ K3d3.burntime p (q 0) (q 1) (q 2) := by
  rw [k3d3_eq_spec' p h q hq]; exact k3_ge_cone h.hR h.hD h.hdet.le hq

theorem k3d3_shadow_path_ge_dist (p : K3d3.P) (h : K3d3.Adm p) (q : E3) (hq : p.R ≤ ‖q‖)
    (hθ : 0 ≤ k3theta p.R (K3d3.det p) q) : dist q (K3d3.det p) ≤ k3path p.R (K3d3.det p) q :=
  k3_path_ge_dist h.hR h.hdet.le hq hθ

/-- in the line of sight (θ ≤ 0) the field is the Kenamond 1 cone -/
theorem k3d3_los (p : K3d3.P) (h : K3d3.Adm p) (q : E3) (hq : p.R ≤ ‖q‖)
    (hθ : k3theta p.R (K3d3.det p) q ≤ 0) :
    K3d3.burntime p (q 0) (q 1) (q 2) = cone p.t_d p.D (K3d3.det p) q := by
  rw [k3d3_eq_spec' p h q hq]; unfold k3; rw [if_neg (not_lt.mpr hθ)]

/-- two line-of-sight points differ in burn time by at most their distance over D.
PARTIAL: the property's bound for pairs of points joined by a straight path inside the explosive is
proved here only when both points are in line of sight of the detonator (θ ≤ 0); pairs with a
shadowed point are sampled by the oracle `o_burn.k3` (site `Kenamond3:lipschitz`). -/
theorem k3d3_lipschitz_partial (p : K3d3.P) (h : K3d3.Adm p) (q q' : E3) (hq : p.R ≤ ‖q‖) (hq' : p.R ≤ ‖q'‖)
    (hθ : k3theta p.R (K3d3.det p) q ≤ 0) (hθ' : k3theta p.R (K3d3.det p) q' ≤ 0) :
    |K3d3.burntime p (q 0) (q 1) (q 2) - K3d3.burntime p (q' 0) (q' 1) (q' 2)| ≤ dist q q' / p.D := by
  rw [k3d3_los p h q hq hθ, k3d3_los p h q' hq' hθ']; exact cone_lipschitz _ h.hD _ _ _

/-! #### gradient in the line-of-sight region (generated certificates) -/

/-- Kenamond 3, 2-D: strictly inside the line-of-sight region and off the obstacle, the gradient
exists and has magnitude 1/D (the field is the Kenamond 1 cone there) -/
theorem k3d2_gradient_los (p : K3d2.P) (h : K3d2.Adm p) (x y : ℝ) (hq : p.R < ‖(!₂[x, y] : E2)‖)
    (hθ : k3theta p.R (K3d2.det p) !₂[x, y] < 0) (hne : ¬(x = p.xd0 ∧ y = p.xd1)) :
    ∃ gx gy : ℝ, HasDerivAt (fun x' => K3d2.burntime p x' y) gx x ∧
      HasDerivAt (fun y' => K3d2.burntime p x y') gy y ∧ gx ^ 2 + gy ^ 2 = (1 / p.D) ^ 2 := by
  have hxd0 : ‖K3d2.det p‖ ≠ 0 := (h.hR.trans h.hdet).ne'
  have hq0 : ‖(!₂[x, y] : E2)‖ ≠ 0 := (h.hR.trans hq).ne'
  -- near (x, y) the request is served from the line-of-sight leaf
  have near : ∀ᶠ q' in nhds (!₂[x, y] : E2), K3d2.burntime p (q' 0) (q' 1) = K3d2.L5.burntime p (q' 0) (q' 1) := by
    have h1 : ∀ᶠ q' in nhds (!₂[x, y] : E2), k3theta p.R (K3d2.det p) q' < 0 :=
      (k3theta_continuousAt hxd0 hq0).eventually (gt_mem_nhds hθ)
    have h2 : ∀ᶠ q' in nhds (!₂[x, y] : E2), p.R < ‖q'‖ :=
      continuous_norm.continuousAt.eventually (lt_mem_nhds hq)
    filter_upwards [h1, h2] with q' hθ' hq'
    have hok := (k3d2_outcome p q').mpr ⟨h, hq'.le⟩
    simp only [epv_tree, ite_raise_eq_ok, ite_self] at hok
    obtain ⟨c0, c1, c2, c3, -⟩ := hok
    have c4 : ¬ K3d2.c4 p (q' 0) (q' 1) := fun hc => not_lt.mpr hθ'.le ((k3d2_shadow_iff p q').mp hc)
    simp only [epv_tree, if_neg c0, if_neg c1, if_neg c2, if_neg c3, if_neg c4]
  have hs : (x - p.xd0) * (x - p.xd0) + (y - p.xd1) * (y - p.xd1) ≠ 0 := by
    intro h0
    apply hne
    constructor <;> nlinarith [mul_self_nonneg (x - p.xd0), mul_self_nonneg (y - p.xd1)]
  have hpos : 0 < (x - p.xd0) * (x - p.xd0) + (y - p.xd1) * (y - p.xd1) :=
    lt_of_le_of_ne (by nlinarith [mul_self_nonneg (x - p.xd0), mul_self_nonneg (y - p.xd1)]) (Ne.symm hs)
  have cx : ContinuousAt (fun x' : ℝ => (!₂[x', y] : E2)) x := by
    refine Continuous.continuousAt ?_
    exact (PiLp.continuous_toLp 2 _).comp (continuous_pi fun i => by fin_cases i <;> simp <;> fun_prop)
  have cy : ContinuousAt (fun y' : ℝ => (!₂[x, y'] : E2)) y := by
    refine Continuous.continuousAt ?_
    exact (PiLp.continuous_toLp 2 _).comp (continuous_pi fun i => by fin_cases i <;> simp <;> fun_prop)
  refine ⟨K3d2.L5.burntime_dx p x y, K3d2.L5.burntime_dy p x y, ?_, ?_, ?_⟩
  · refine (K3d2.L5.burntime_hasDerivAt_x p x y hs).congr_of_eventuallyEq ?_
    have := cx.eventually near
    filter_upwards [this] with x' hx'
    simpa using hx'
  · refine (K3d2.L5.burntime_hasDerivAt_y p x y hs).congr_of_eventuallyEq ?_
    have := cy.eventually near
    filter_upwards [this] with y' hy'
    simpa using hy'
  · simp only [epv_deriv]
    set s := Real.sqrt ((x - p.xd0) * (x - p.xd0) + (y - p.xd1) * (y - p.xd1)) with hs'
    have hs0 : 0 < s := Real.sqrt_pos.mpr hpos
    have hs2 : s * s = (x - p.xd0) * (x - p.xd0) + (y - p.xd1) * (y - p.xd1) := Real.mul_self_sqrt hpos.le
    have := h.hD.ne'
    field_simp
    nlinarith

/-- Kenamond 3, 3-D: strictly inside the line-of-sight region and off the obstacle, the gradient
exists and has magnitude 1/D (the field is the Kenamond 1 cone there) -/
theorem k3d3_gradient_los (p : K3d3.P) (h : K3d3.Adm p) (x y z : ℝ) (hq : p.R < ‖(!₂[x, y, z] : E3)‖)
    (hθ : k3theta p.R (K3d3.det p) !₂[x, y, z] < 0) (hne : ¬(x = p.xd0 ∧ y = p.xd1 ∧ z = p.xd2)) :
    ∃ gx gy gz : ℝ, HasDerivAt (fun x' => K3d3.burntime p x' y z) gx x ∧
      HasDerivAt (fun y' => K3d3.burntime p x y' z) gy y ∧ HasDerivAt (fun z' => K3d3.burntime p x y z') gz z ∧
      gx ^ 2 + gy ^ 2 + gz ^ 2 = (1 / p.D) ^ 2 := by
  have hxd0 : ‖K3d3.det p‖ ≠ 0 := (h.hR.trans h.hdet).ne'
  have hq0 : ‖(!₂[x, y, z] : E3)‖ ≠ 0 := (h.hR.trans hq).ne'
  -- near (x, y) the request is served from the line-of-sight leaf
  have near : ∀ᶠ q' in nhds (!₂[x, y, z] : E3), K3d3.burntime p (q' 0) (q' 1) (q' 2) = K3d3.L5.burntime p (q' 0) (q' 1) (q' 2) := by
    have h1 : ∀ᶠ q' in nhds (!₂[x, y, z] : E3), k3theta p.R (K3d3.det p) q' < 0 :=
      (k3theta_continuousAt hxd0 hq0).eventually (gt_mem_nhds hθ)
    have h2 : ∀ᶠ q' in nhds (!₂[x, y, z] : E3), p.R < ‖q'‖ :=
      continuous_norm.continuousAt.eventually (lt_mem_nhds hq)
    filter_upwards [h1, h2] with q' hθ' hq'
    have hok := (k3d3_outcome p q').mpr ⟨h, hq'.le⟩
    simp only [epv_tree, ite_raise_eq_ok, ite_self] at hok
    obtain ⟨c0, c1, c2, c3, -⟩ := hok
    have c4 : ¬ K3d3.c4 p (q' 0) (q' 1) (q' 2) := fun hc => not_lt.mpr hθ'.le ((k3d3_shadow_iff p q').mp hc)
    simp only [epv_tree, if_neg c0, if_neg c1, if_neg c2, if_neg c3, if_neg c4]
  have hs : (x - p.xd0) * (x - p.xd0) + (y - p.xd1) * (y - p.xd1) + (z - p.xd2) * (z - p.xd2) ≠ 0 := by
    intro h0
    apply hne
    refine ⟨?_, ?_, ?_⟩ <;> nlinarith [mul_self_nonneg (x - p.xd0), mul_self_nonneg (y - p.xd1), mul_self_nonneg (z - p.xd2)]
  have hpos : 0 < (x - p.xd0) * (x - p.xd0) + (y - p.xd1) * (y - p.xd1) + (z - p.xd2) * (z - p.xd2) :=
    lt_of_le_of_ne (by nlinarith [mul_self_nonneg (x - p.xd0), mul_self_nonneg (y - p.xd1), mul_self_nonneg (z - p.xd2)]) (Ne.symm hs)
  have cx : ContinuousAt (fun x' : ℝ => (!₂[x', y, z] : E3)) x := by
    refine Continuous.continuousAt ?_
    exact (PiLp.continuous_toLp 2 _).comp (continuous_pi fun i => by fin_cases i <;> simp <;> fun_prop)
  have cy : ContinuousAt (fun y' : ℝ => (!₂[x, y', z] : E3)) y := by
    refine Continuous.continuousAt ?_
    exact (PiLp.continuous_toLp 2 _).comp (continuous_pi fun i => by fin_cases i <;> simp <;> fun_prop)
  have cz : ContinuousAt (fun z' : ℝ => (!₂[x, y, z'] : E3)) z := by
    refine Continuous.continuousAt ?_
    exact (PiLp.continuous_toLp 2 _).comp (continuous_pi fun i => by fin_cases i <;> simp <;> fun_prop)
  refine ⟨K3d3.L5.burntime_dx p x y z, K3d3.L5.burntime_dy p x y z, K3d3.L5.burntime_dz p x y z, ?_, ?_, ?_, ?_⟩
  · refine (K3d3.L5.burntime_hasDerivAt_x p x y z hs).congr_of_eventuallyEq ?_
    have := cx.eventually near
    filter_upwards [this] with x' hx'
    simpa using hx'
  · refine (K3d3.L5.burntime_hasDerivAt_y p x y z hs).congr_of_eventuallyEq ?_
    have := cy.eventually near
    filter_upwards [this] with y' hy'
    simpa using hy'
  · refine (K3d3.L5.burntime_hasDerivAt_z p x y z hs).congr_of_eventuallyEq ?_
    have := cz.eventually near
    filter_upwards [this] with z' hz'
    simpa using hz'
  · simp only [epv_deriv]
    set s := Real.sqrt ((x - p.xd0) * (x - p.xd0) + (y - p.xd1) * (y - p.xd1) + (z - p.xd2) * (z - p.xd2)) with hs'
    have hs0 : 0 < s := Real.sqrt_pos.mpr hpos
    have hs2 : s * s = (x - p.xd0) * (x - p.xd0) + (y - p.xd1) * (y - p.xd1) + (z - p.xd2) * (z - p.xd2) := Real.mul_self_sqrt hpos.le
    have := h.hD.ne'
    field_simp
    nlinarith


/-! #### gradient in the shadow region (generated certificates through arccos and sqrt) -/

/-- closed form of the x-derivative of the shadow leaf -/
theorem k3d2_L4_dx (p : K3d2.P) (x y lod lop lbp w : ℝ)
    (hlod : Real.sqrt (p.xd0 * p.xd0 + p.xd1 * p.xd1) = lod) (hlop : Real.sqrt (x * x + y * y) = lop)
    (hlop2 : lop ^ 2 = x * x + y * y) (hlop0 : 0 < lop) (hlod0 : 0 < lod) (hR : 0 < p.R) (hD : 0 < p.D)
    (hlbp : Real.sqrt (lop ^ 2 - p.R ^ 2) = lbp) (hlbp2 : lbp ^ 2 = lop ^ 2 - p.R ^ 2) (hlbp0 : 0 < lbp)
    (hw : Real.sqrt (1 - (-(x * p.xd0 + y * p.xd1) / (lod * lop)) ^ 2) = w) (hw0 : 0 < w) :
    K3d2.L4.burntime_dx p x y
      = (p.R * ((-p.xd0 * lop ^ 2 + (x * p.xd0 + y * p.xd1) * x) / (w * lod * lop ^ 3)) + x * lbp / lop ^ 2) / p.D := by
  -- squares of the documented lengths
  have hlod2 : lod ^ 2 = p.xd0 * p.xd0 + p.xd1 * p.xd1 := by
    rw [← hlod]; exact Real.sq_sqrt (add_nonneg (mul_self_nonneg _) (mul_self_nonneg _))
  have hwarg : 0 < 1 - (-(x * p.xd0 + y * p.xd1) / (lod * lop)) ^ 2 := Real.sqrt_pos.mp (hw ▸ hw0)
  have hw2 : w ^ 2 = 1 - (-(x * p.xd0 + y * p.xd1) / (lod * lop)) ^ 2 := by rw [← hw]; exact Real.sq_sqrt hwarg.le
  have hq0 : 0 ≤ lbp / lop := by positivity
  have hq2 : (lbp / lop) ^ 2 = (lop ^ 2 - p.R ^ 2) / lop ^ 2 := by rw [div_pow, hlbp2]
  simp only [epv_deriv]
  -- identify every square root of the generated derivative with a documented length BY VALUE, whatever its
  -- argument looks like (EPV/Lemmas/Bridge/BurnAtoms.lean)
  repeat (first
    | epv_deton_sqrt_rw_by lod (rw [hlod2]; try ring1)
    | epv_deton_sqrt_rw_by lop (rw [hlop2]; try ring1)
    | epv_deton_sqrt_rw_by lbp (rw [hlbp2]; try ring1)
    | epv_deton_sqrt_rw_by w (rw [hw2]; try ring1)
    | epv_deton_sqrt_rw_by (lbp / lop) (rw [hq2]; epv_deton_feqd))
  -- R, l_bp, l_op form a right triangle: parametrise it rationally, then the identity is a rational one
  obtain ⟨m, hRm, hbm⟩ := EPV.Bridge.Deton.pythagoras_param hlbp2 (by positivity)
  clear hlbp hlbp2 hw hw2 hwarg hq0 hq2 hlod hlop hlod2
  generalize p.R = R at *
  subst hRm
  subst hbm
  have hm : 0 < 1 + m ^ 2 := by positivity
  have hm0 : m ≠ 0 := by intro h0; rw [h0] at hlbp0; simp at hlbp0
  epv_deton_fs
  ring

theorem k3d2_L4_dy (p : K3d2.P) (x y lod lop lbp w : ℝ)
    (hlod : Real.sqrt (p.xd0 * p.xd0 + p.xd1 * p.xd1) = lod) (hlop : Real.sqrt (x * x + y * y) = lop)
    (hlop2 : lop ^ 2 = x * x + y * y) (hlop0 : 0 < lop) (hlod0 : 0 < lod) (hR : 0 < p.R) (hD : 0 < p.D)
    (hlbp : Real.sqrt (lop ^ 2 - p.R ^ 2) = lbp) (hlbp2 : lbp ^ 2 = lop ^ 2 - p.R ^ 2) (hlbp0 : 0 < lbp)
    (hw : Real.sqrt (1 - (-(x * p.xd0 + y * p.xd1) / (lod * lop)) ^ 2) = w) (hw0 : 0 < w) :
    K3d2.L4.burntime_dy p x y
      = (p.R * ((-p.xd1 * lop ^ 2 + (x * p.xd0 + y * p.xd1) * y) / (w * lod * lop ^ 3)) + y * lbp / lop ^ 2) / p.D := by
  -- squares of the documented lengths
  have hlod2 : lod ^ 2 = p.xd0 * p.xd0 + p.xd1 * p.xd1 := by
    rw [← hlod]; exact Real.sq_sqrt (add_nonneg (mul_self_nonneg _) (mul_self_nonneg _))
  have hwarg : 0 < 1 - (-(x * p.xd0 + y * p.xd1) / (lod * lop)) ^ 2 := Real.sqrt_pos.mp (hw ▸ hw0)
  have hw2 : w ^ 2 = 1 - (-(x * p.xd0 + y * p.xd1) / (lod * lop)) ^ 2 := by rw [← hw]; exact Real.sq_sqrt hwarg.le
  have hq0 : 0 ≤ lbp / lop := by positivity
  have hq2 : (lbp / lop) ^ 2 = (lop ^ 2 - p.R ^ 2) / lop ^ 2 := by rw [div_pow, hlbp2]
  simp only [epv_deriv]
  -- identify every square root of the generated derivative with a documented length BY VALUE, whatever its
  -- argument looks like (EPV/Lemmas/Bridge/BurnAtoms.lean)
  repeat (first
    | epv_deton_sqrt_rw_by lod (rw [hlod2]; try ring1)
    | epv_deton_sqrt_rw_by lop (rw [hlop2]; try ring1)
    | epv_deton_sqrt_rw_by lbp (rw [hlbp2]; try ring1)
    | epv_deton_sqrt_rw_by w (rw [hw2]; try ring1)
    | epv_deton_sqrt_rw_by (lbp / lop) (rw [hq2]; epv_deton_feqd))
  -- R, l_bp, l_op form a right triangle: parametrise it rationally, then the identity is a rational one
  obtain ⟨m, hRm, hbm⟩ := EPV.Bridge.Deton.pythagoras_param hlbp2 (by positivity)
  clear hlbp hlbp2 hw hw2 hwarg hq0 hq2 hlod hlop hlod2
  generalize p.R = R at *
  subst hRm
  subst hbm
  have hm : 0 < 1 + m ^ 2 := by positivity
  have hm0 : m ≠ 0 := by intro h0; rw [h0] at hlbp0; simp at hlbp0
  epv_deton_fs
  ring

/-- the algebra of the eikonal equation around the obstacle (any dimension: `N` is the list of
numerators `-a_i ‖q‖² + ⟨q, x_d⟩ x_i`) -/
theorem k3_shadow_grad_sq {R D lod lop lbp w S sN sxN sx : ℝ}
    (hD : 0 < D) (hlop0 : 0 < lop) (hlod0 : 0 < lod) (hw0 : 0 < w)
    (hlbp2 : lbp ^ 2 = lop ^ 2 - R ^ 2) (hw2 : w ^ 2 * (lod ^ 2 * lop ^ 2) = lod ^ 2 * lop ^ 2 - S ^ 2)
    (hsN : sN = lop ^ 2 * (lod ^ 2 * lop ^ 2 - S ^ 2)) (hsxN : sxN = 0) (hsx : sx = lop ^ 2) :
    (R ^ 2 * sN / (w * lod * lop ^ 3) ^ 2 + 2 * R * lbp * sxN / ((w * lod * lop ^ 3) * lop ^ 2)
      + lbp ^ 2 * sx / lop ^ 4) / D ^ 2 = (1 / D) ^ 2 := by
  rw [hsN, hsxN, hsx, ← hw2]
  field_simp
  linear_combination (lop ^ 3 * w * lod) * hlbp2

/-- Kenamond 3, 2-D: strictly inside the shadow region, off the obstacle and off the ray directly
behind it (where the waves passing the obstacle on both sides meet and the field has a kink), the
gradient exists and has magnitude 1/D -/
theorem k3d2_gradient_shadow (p : K3d2.P) (h : K3d2.Adm p) (x y : ℝ) (hq : p.R < ‖(!₂[x, y] : E2)‖)
    (hθ : 0 < k3theta p.R (K3d2.det p) !₂[x, y]) (hcol : x * p.xd1 - y * p.xd0 ≠ 0) :
    ∃ gx gy : ℝ, HasDerivAt (fun x' => K3d2.burntime p x' y) gx x ∧
      HasDerivAt (fun y' => K3d2.burntime p x y') gy y ∧ gx ^ 2 + gy ^ 2 = (1 / p.D) ^ 2 := by
  have hxd0 : ‖K3d2.det p‖ ≠ 0 := (h.hR.trans h.hdet).ne'
  have hq0 : ‖(!₂[x, y] : E2)‖ ≠ 0 := (h.hR.trans hq).ne'
  have near : ∀ᶠ q' in nhds (!₂[x, y] : E2), K3d2.burntime p (q' 0) (q' 1) = K3d2.L4.burntime p (q' 0) (q' 1) := by
    have h1 : ∀ᶠ q' in nhds (!₂[x, y] : E2), 0 < k3theta p.R (K3d2.det p) q' :=
      (k3theta_continuousAt hxd0 hq0).eventually (lt_mem_nhds hθ)
    have h2 : ∀ᶠ q' in nhds (!₂[x, y] : E2), p.R < ‖q'‖ :=
      continuous_norm.continuousAt.eventually (lt_mem_nhds hq)
    filter_upwards [h1, h2] with q' hθ' hq'
    have hok := (k3d2_outcome p q').mpr ⟨h, hq'.le⟩
    simp only [epv_tree, ite_raise_eq_ok, ite_self] at hok
    obtain ⟨c0, c1, c2, c3, -⟩ := hok
    have c4 : K3d2.c4 p (q' 0) (q' 1) := (k3d2_shadow_iff p q').mpr hθ'
    simp only [epv_tree, if_neg c0, if_neg c1, if_neg c2, if_neg c3, if_pos c4]
  -- the lengths
  have elod := sqrt_norm2 (K3d2.det p)
  simp only [K3d2.det_0, K3d2.det_1] at elod
  have elop : Real.sqrt (x * x + y * y) = ‖(!₂[x, y] : E2)‖ := by simpa using sqrt_norm2 (!₂[x, y] : E2)
  set lod := ‖K3d2.det p‖ with hlod_def
  set lop := ‖(!₂[x, y] : E2)‖ with hlop_def
  have hlod0 : 0 < lod := h.hR.trans h.hdet
  have hlop0 : 0 < lop := h.hR.trans hq
  have hlop2 : lop ^ 2 = x * x + y * y := by
    rw [← elop, Real.sq_sqrt (add_nonneg (mul_self_nonneg _) (mul_self_nonneg _))]
  have hlod2 : lod ^ 2 = p.xd0 * p.xd0 + p.xd1 * p.xd1 := by
    rw [← elod, Real.sq_sqrt (add_nonneg (mul_self_nonneg _) (mul_self_nonneg _))]
  have hbp_pos : 0 < lop ^ 2 - p.R ^ 2 := by nlinarith [h.hR]
  set lbp := Real.sqrt (lop ^ 2 - p.R ^ 2) with hlbp_def
  have hlbp0 : 0 < lbp := Real.sqrt_pos.mpr hbp_pos
  have hlbp2 : lbp ^ 2 = lop ^ 2 - p.R ^ 2 := Real.sq_sqrt hbp_pos.le
  -- the cosine of the first angle stays away from ±1 off the line through the centre and the detonator
  set S := x * p.xd0 + y * p.xd1 with hS
  have hlag : lod ^ 2 * lop ^ 2 - S ^ 2 = (x * p.xd1 - y * p.xd0) ^ 2 := by rw [hlod2, hlop2, hS]; ring
  have hK2 : 0 < lod ^ 2 * lop ^ 2 - S ^ 2 := by rw [hlag]; positivity
  have hc2 : (-S / (lod * lop)) ^ 2 < 1 := by
    rw [div_pow, div_lt_one (by positivity)]; nlinarith
  have hc_ne1 : -S / (lod * lop) ≠ 1 := fun e => by rw [e] at hc2; norm_num at hc2
  have hc_ne2 : -S / (lod * lop) ≠ -1 := fun e => by rw [e] at hc2; norm_num at hc2
  set w := Real.sqrt (1 - (-S / (lod * lop)) ^ 2) with hw_def
  have hw0 : 0 < w := Real.sqrt_pos.mpr (by linarith)
  have hw2 : w ^ 2 * (lod ^ 2 * lop ^ 2) = lod ^ 2 * lop ^ 2 - S ^ 2 := by
    rw [hw_def, Real.sq_sqrt (by linarith)]; field_simp
  -- side conditions of the generated certificates
  have s1 : x * x + y * y ≠ 0 := by rw [← hlop2]; positivity
  have s2 : Real.sqrt (p.xd0 * p.xd0 + p.xd1 * p.xd1) * Real.sqrt (x * x + y * y) ≠ 0 := by
    rw [elod, elop]; positivity
  have s3 : -(x * p.xd0 + y * p.xd1) / (Real.sqrt (p.xd0 * p.xd0 + p.xd1 * p.xd1) * Real.sqrt (x * x + y * y)) ≠ -1 := by
    rw [elod, elop]; exact hc_ne2
  have s4 : -(x * p.xd0 + y * p.xd1) / (Real.sqrt (p.xd0 * p.xd0 + p.xd1 * p.xd1) * Real.sqrt (x * x + y * y)) ≠ 1 := by
    rw [elod, elop]; exact hc_ne1
  have s5 : Real.sqrt (x * x + y * y) ≠ 0 := by rw [elop]; exact hlop0.ne'
  have s6 : p.R / Real.sqrt (x * x + y * y) ≠ -1 := by
    rw [elop]; have := div_pos h.hR hlop0; linarith
  have s7 : p.R / Real.sqrt (x * x + y * y) ≠ 1 := by
    rw [elop]; exact fun e => by rw [div_eq_one_iff_eq hlop0.ne'] at e; linarith
  have s8 : Real.sqrt (x * x + y * y) ^ 2 - p.R ^ 2 ≠ 0 := by rw [elop]; exact hbp_pos.ne'
  have cx : ContinuousAt (fun x' : ℝ => (!₂[x', y] : E2)) x := by
    refine Continuous.continuousAt ?_
    exact (PiLp.continuous_toLp 2 _).comp (continuous_pi fun i => by fin_cases i <;> simp <;> fun_prop)
  have cy : ContinuousAt (fun y' : ℝ => (!₂[x, y'] : E2)) y := by
    refine Continuous.continuousAt ?_
    exact (PiLp.continuous_toLp 2 _).comp (continuous_pi fun i => by fin_cases i <;> simp <;> fun_prop)
  refine ⟨K3d2.L4.burntime_dx p x y, K3d2.L4.burntime_dy p x y, ?_, ?_, ?_⟩
  · have hd : HasDerivAt (fun x' => K3d2.L4.burntime p x' y) (K3d2.L4.burntime_dx p x y) x := by
      -- the side conditions of the certificate, in whatever number, order and writing: each is one of s1 … s8 up to
      -- ring normalisation
      apply K3d2.L4.burntime_hasDerivAt_x <;> first | assumption | (ring_nf at *; assumption)
    refine hd.congr_of_eventuallyEq ?_
    have := cx.eventually near
    filter_upwards [this] with x' hx'
    simpa using hx'
  · have hd : HasDerivAt (fun y' => K3d2.L4.burntime p x y') (K3d2.L4.burntime_dy p x y) y := by
      -- the side conditions of the certificate, in whatever number, order and writing: each is one of s1 … s8 up to
      -- ring normalisation
      apply K3d2.L4.burntime_hasDerivAt_y <;> first | assumption | (ring_nf at *; assumption)
    refine hd.congr_of_eventuallyEq ?_
    have := cy.eventually near
    filter_upwards [this] with y' hy'
    simpa using hy'
  · rw [k3d2_L4_dx p x y lod lop lbp w elod elop hlop2 hlop0 hlod0 h.hR h.hD rfl hlbp2 hlbp0 rfl hw0,
      k3d2_L4_dy p x y lod lop lbp w elod elop hlop2 hlop0 hlod0 h.hR h.hD rfl hlbp2 hlbp0 rfl hw0]
    have expand : ((p.R * ((-p.xd0 * lop ^ 2 + S * x) / (w * lod * lop ^ 3)) + x * lbp / lop ^ 2) / p.D) ^ 2
        + ((p.R * ((-p.xd1 * lop ^ 2 + S * y) / (w * lod * lop ^ 3)) + y * lbp / lop ^ 2) / p.D) ^ 2
        = (p.R ^ 2 * ((-p.xd0 * lop ^ 2 + S * x) ^ 2 + (-p.xd1 * lop ^ 2 + S * y) ^ 2) / (w * lod * lop ^ 3) ^ 2
          + 2 * p.R * lbp * (x * (-p.xd0 * lop ^ 2 + S * x) + y * (-p.xd1 * lop ^ 2 + S * y))
              / ((w * lod * lop ^ 3) * lop ^ 2)
          + lbp ^ 2 * (x * x + y * y) / lop ^ 4) / p.D ^ 2 := by ring
    rw [expand]
    refine k3_shadow_grad_sq (S := S) h.hD hlop0 hlod0 hw0 hlbp2 hw2 ?_ ?_ hlop2.symm
    · rw [hS]; linear_combination (-(lop ^ 2) ^ 2) * hlod2 + (-(x * p.xd0 + y * p.xd1) ^ 2) * hlop2
    · rw [hS]; linear_combination (-(x * p.xd0 + y * p.xd1)) * hlop2

/-- closed form of the x-derivative of the shadow leaf -/
theorem k3d3_L4_dx (p : K3d3.P) (x y z lod lop lbp w : ℝ)
    (hlod : Real.sqrt (p.xd0 * p.xd0 + p.xd1 * p.xd1 + p.xd2 * p.xd2) = lod) (hlop : Real.sqrt (x * x + y * y + z * z) = lop)
    (hlop2 : lop ^ 2 = x * x + y * y + z * z) (hlop0 : 0 < lop) (hlod0 : 0 < lod) (hR : 0 < p.R) (hD : 0 < p.D)
    (hlbp : Real.sqrt (lop ^ 2 - p.R ^ 2) = lbp) (hlbp2 : lbp ^ 2 = lop ^ 2 - p.R ^ 2) (hlbp0 : 0 < lbp)
    (hw : Real.sqrt (1 - (-(x * p.xd0 + y * p.xd1 + z * p.xd2) / (lod * lop)) ^ 2) = w) (hw0 : 0 < w) :
    K3d3.L4.burntime_dx p x y z
      = (p.R * ((-p.xd0 * lop ^ 2 + (x * p.xd0 + y * p.xd1 + z * p.xd2) * x) / (w * lod * lop ^ 3)) + x * lbp / lop ^ 2) / p.D := by
  -- squares of the documented lengths
  have hlod2 : lod ^ 2 = p.xd0 * p.xd0 + p.xd1 * p.xd1 + p.xd2 * p.xd2 := by
    rw [← hlod]; exact Real.sq_sqrt (add_nonneg (add_nonneg (mul_self_nonneg _) (mul_self_nonneg _)) (mul_self_nonneg _))
  have hwarg : 0 < 1 - (-(x * p.xd0 + y * p.xd1 + z * p.xd2) / (lod * lop)) ^ 2 := Real.sqrt_pos.mp (hw ▸ hw0)
  have hw2 : w ^ 2 = 1 - (-(x * p.xd0 + y * p.xd1 + z * p.xd2) / (lod * lop)) ^ 2 := by rw [← hw]; exact Real.sq_sqrt hwarg.le
  have hq0 : 0 ≤ lbp / lop := by positivity
  have hq2 : (lbp / lop) ^ 2 = (lop ^ 2 - p.R ^ 2) / lop ^ 2 := by rw [div_pow, hlbp2]
  simp only [epv_deriv]
  -- identify every square root of the generated derivative with a documented length BY VALUE, whatever its
  -- argument looks like (EPV/Lemmas/Bridge/BurnAtoms.lean)
  repeat (first
    | epv_deton_sqrt_rw_by lod (rw [hlod2]; try ring1)
    | epv_deton_sqrt_rw_by lop (rw [hlop2]; try ring1)
    | epv_deton_sqrt_rw_by lbp (rw [hlbp2]; try ring1)
    | epv_deton_sqrt_rw_by w (rw [hw2]; try ring1)
    | epv_deton_sqrt_rw_by (lbp / lop) (rw [hq2]; epv_deton_feqd))
  -- R, l_bp, l_op form a right triangle: parametrise it rationally, then the identity is a rational one
  obtain ⟨m, hRm, hbm⟩ := EPV.Bridge.Deton.pythagoras_param hlbp2 (by positivity)
  clear hlbp hlbp2 hw hw2 hwarg hq0 hq2 hlod hlop hlod2
  generalize p.R = R at *
  subst hRm
  subst hbm
  have hm : 0 < 1 + m ^ 2 := by positivity
  have hm0 : m ≠ 0 := by intro h0; rw [h0] at hlbp0; simp at hlbp0
  epv_deton_fs
  ring

theorem k3d3_L4_dy (p : K3d3.P) (x y z lod lop lbp w : ℝ)
    (hlod : Real.sqrt (p.xd0 * p.xd0 + p.xd1 * p.xd1 + p.xd2 * p.xd2) = lod) (hlop : Real.sqrt (x * x + y * y + z * z) = lop)
    (hlop2 : lop ^ 2 = x * x + y * y + z * z) (hlop0 : 0 < lop) (hlod0 : 0 < lod) (hR : 0 < p.R) (hD : 0 < p.D)
    (hlbp : Real.sqrt (lop ^ 2 - p.R ^ 2) = lbp) (hlbp2 : lbp ^ 2 = lop ^ 2 - p.R ^ 2) (hlbp0 : 0 < lbp)
    (hw : Real.sqrt (1 - (-(x * p.xd0 + y * p.xd1 + z * p.xd2) / (lod * lop)) ^ 2) = w) (hw0 : 0 < w) :
    K3d3.L4.burntime_dy p x y z
      = (p.R * ((-p.xd1 * lop ^ 2 + (x * p.xd0 + y * p.xd1 + z * p.xd2) * y) / (w * lod * lop ^ 3)) + y * lbp / lop ^ 2) / p.D := by
  -- squares of the documented lengths
  have hlod2 : lod ^ 2 = p.xd0 * p.xd0 + p.xd1 * p.xd1 + p.xd2 * p.xd2 := by
    rw [← hlod]; exact Real.sq_sqrt (add_nonneg (add_nonneg (mul_self_nonneg _) (mul_self_nonneg _)) (mul_self_nonneg _))
  have hwarg : 0 < 1 - (-(x * p.xd0 + y * p.xd1 + z * p.xd2) / (lod * lop)) ^ 2 := Real.sqrt_pos.mp (hw ▸ hw0)
  have hw2 : w ^ 2 = 1 - (-(x * p.xd0 + y * p.xd1 + z * p.xd2) / (lod * lop)) ^ 2 := by rw [← hw]; exact Real.sq_sqrt hwarg.le
  have hq0 : 0 ≤ lbp / lop := by positivity
  have hq2 : (lbp / lop) ^ 2 = (lop ^ 2 - p.R ^ 2) / lop ^ 2 := by rw [div_pow, hlbp2]
  simp only [epv_deriv]
  -- identify every square root of the generated derivative with a documented length BY VALUE, whatever its
  -- argument looks like (EPV/Lemmas/Bridge/BurnAtoms.lean)
  repeat (first
    | epv_deton_sqrt_rw_by lod (rw [hlod2]; try ring1)
    | epv_deton_sqrt_rw_by lop (rw [hlop2]; try ring1)
    | epv_deton_sqrt_rw_by lbp (rw [hlbp2]; try ring1)
    | epv_deton_sqrt_rw_by w (rw [hw2]; try ring1)
    | epv_deton_sqrt_rw_by (lbp / lop) (rw [hq2]; epv_deton_feqd))
  -- R, l_bp, l_op form a right triangle: parametrise it rationally, then the identity is a rational one
  obtain ⟨m, hRm, hbm⟩ := EPV.Bridge.Deton.pythagoras_param hlbp2 (by positivity)
  clear hlbp hlbp2 hw hw2 hwarg hq0 hq2 hlod hlop hlod2
  generalize p.R = R at *
  subst hRm
  subst hbm
  have hm : 0 < 1 + m ^ 2 := by positivity
  have hm0 : m ≠ 0 := by intro h0; rw [h0] at hlbp0; simp at hlbp0
  epv_deton_fs
  ring

theorem k3d3_L4_dz (p : K3d3.P) (x y z lod lop lbp w : ℝ)
    (hlod : Real.sqrt (p.xd0 * p.xd0 + p.xd1 * p.xd1 + p.xd2 * p.xd2) = lod) (hlop : Real.sqrt (x * x + y * y + z * z) = lop)
    (hlop2 : lop ^ 2 = x * x + y * y + z * z) (hlop0 : 0 < lop) (hlod0 : 0 < lod) (hR : 0 < p.R) (hD : 0 < p.D)
    (hlbp : Real.sqrt (lop ^ 2 - p.R ^ 2) = lbp) (hlbp2 : lbp ^ 2 = lop ^ 2 - p.R ^ 2) (hlbp0 : 0 < lbp)
    (hw : Real.sqrt (1 - (-(x * p.xd0 + y * p.xd1 + z * p.xd2) / (lod * lop)) ^ 2) = w) (hw0 : 0 < w) :
    K3d3.L4.burntime_dz p x y z
      = (p.R * ((-p.xd2 * lop ^ 2 + (x * p.xd0 + y * p.xd1 + z * p.xd2) * z) / (w * lod * lop ^ 3)) + z * lbp / lop ^ 2) / p.D := by
  -- squares of the documented lengths
  have hlod2 : lod ^ 2 = p.xd0 * p.xd0 + p.xd1 * p.xd1 + p.xd2 * p.xd2 := by
    rw [← hlod]; exact Real.sq_sqrt (add_nonneg (add_nonneg (mul_self_nonneg _) (mul_self_nonneg _)) (mul_self_nonneg _))
  have hwarg : 0 < 1 - (-(x * p.xd0 + y * p.xd1 + z * p.xd2) / (lod * lop)) ^ 2 := Real.sqrt_pos.mp (hw ▸ hw0)
  have hw2 : w ^ 2 = 1 - (-(x * p.xd0 + y * p.xd1 + z * p.xd2) / (lod * lop)) ^ 2 := by rw [← hw]; exact Real.sq_sqrt hwarg.le
  have hq0 : 0 ≤ lbp / lop := by positivity
  have hq2 : (lbp / lop) ^ 2 = (lop ^ 2 - p.R ^ 2) / lop ^ 2 := by rw [div_pow, hlbp2]
  simp only [epv_deriv]
  -- identify every square root of the generated derivative with a documented length BY VALUE, whatever its
  -- argument looks like (EPV/Lemmas/Bridge/BurnAtoms.lean)
  repeat (first
    | epv_deton_sqrt_rw_by lod (rw [hlod2]; try ring1)
    | epv_deton_sqrt_rw_by lop (rw [hlop2]; try ring1)
    | epv_deton_sqrt_rw_by lbp (rw [hlbp2]; try ring1)
    | epv_deton_sqrt_rw_by w (rw [hw2]; try ring1)
    | epv_deton_sqrt_rw_by (lbp / lop) (rw [hq2]; epv_deton_feqd))
  -- R, l_bp, l_op form a right triangle: parametrise it rationally, then the identity is a rational one
  obtain ⟨m, hRm, hbm⟩ := EPV.Bridge.Deton.pythagoras_param hlbp2 (by positivity)
  clear hlbp hlbp2 hw hw2 hwarg hq0 hq2 hlod hlop hlod2
  generalize p.R = R at *
  subst hRm
  subst hbm
  have hm : 0 < 1 + m ^ 2 := by positivity
  have hm0 : m ≠ 0 := by intro h0; rw [h0] at hlbp0; simp at hlbp0
  epv_deton_fs
  ring


/-- Kenamond 3, 3-D: strictly inside the shadow region, off the obstacle and off the ray directly
behind it (x_d, the centre and the point not collinear: strict Cauchy–Schwarz), the gradient exists
and has magnitude 1/D -/
theorem k3d3_gradient_shadow (p : K3d3.P) (h : K3d3.Adm p) (x y z : ℝ) (hq : p.R < ‖(!₂[x, y, z] : E3)‖)
    (hθ : 0 < k3theta p.R (K3d3.det p) !₂[x, y, z])
    (hcol : (x * p.xd0 + y * p.xd1 + z * p.xd2) ^ 2
      ≠ (x * x + y * y + z * z) * (p.xd0 * p.xd0 + p.xd1 * p.xd1 + p.xd2 * p.xd2)) :
    ∃ gx gy gz : ℝ, HasDerivAt (fun x' => K3d3.burntime p x' y z) gx x ∧
      HasDerivAt (fun y' => K3d3.burntime p x y' z) gy y ∧ HasDerivAt (fun z' => K3d3.burntime p x y z') gz z ∧
      gx ^ 2 + gy ^ 2 + gz ^ 2 = (1 / p.D) ^ 2 := by
  have hxd0 : ‖K3d3.det p‖ ≠ 0 := (h.hR.trans h.hdet).ne'
  have hq0 : ‖(!₂[x, y, z] : E3)‖ ≠ 0 := (h.hR.trans hq).ne'
  have near : ∀ᶠ q' in nhds (!₂[x, y, z] : E3),
      K3d3.burntime p (q' 0) (q' 1) (q' 2) = K3d3.L4.burntime p (q' 0) (q' 1) (q' 2) := by
    have h1 : ∀ᶠ q' in nhds (!₂[x, y, z] : E3), 0 < k3theta p.R (K3d3.det p) q' :=
      (k3theta_continuousAt hxd0 hq0).eventually (lt_mem_nhds hθ)
    have h2 : ∀ᶠ q' in nhds (!₂[x, y, z] : E3), p.R < ‖q'‖ :=
      continuous_norm.continuousAt.eventually (lt_mem_nhds hq)
    filter_upwards [h1, h2] with q' hθ' hq'
    have hok := (k3d3_outcome p q').mpr ⟨h, hq'.le⟩
    simp only [epv_tree, ite_raise_eq_ok, ite_self] at hok
    obtain ⟨c0, c1, c2, c3, -⟩ := hok
    have c4 : K3d3.c4 p (q' 0) (q' 1) (q' 2) := (k3d3_shadow_iff p q').mpr hθ'
    simp only [epv_tree, if_neg c0, if_neg c1, if_neg c2, if_neg c3, if_pos c4]
  have elod := sqrt_norm3 (K3d3.det p)
  simp only [K3d3.det_0, K3d3.det_1, K3d3.det_2] at elod
  have elop : Real.sqrt (x * x + y * y + z * z) = ‖(!₂[x, y, z] : E3)‖ := by
    simpa using sqrt_norm3 (!₂[x, y, z] : E3)
  set lod := ‖K3d3.det p‖ with hlod_def
  set lop := ‖(!₂[x, y, z] : E3)‖ with hlop_def
  have hlod0 : 0 < lod := h.hR.trans h.hdet
  have hlop0 : 0 < lop := h.hR.trans hq
  have hlop2 : lop ^ 2 = x * x + y * y + z * z := by
    rw [← elop, Real.sq_sqrt (add_nonneg (add_nonneg (mul_self_nonneg _) (mul_self_nonneg _)) (mul_self_nonneg _))]
  have hlod2 : lod ^ 2 = p.xd0 * p.xd0 + p.xd1 * p.xd1 + p.xd2 * p.xd2 := by
    rw [← elod, Real.sq_sqrt (add_nonneg (add_nonneg (mul_self_nonneg _) (mul_self_nonneg _)) (mul_self_nonneg _))]
  have hbp_pos : 0 < lop ^ 2 - p.R ^ 2 := by nlinarith [h.hR]
  set lbp := Real.sqrt (lop ^ 2 - p.R ^ 2) with hlbp_def
  have hlbp0 : 0 < lbp := Real.sqrt_pos.mpr hbp_pos
  have hlbp2 : lbp ^ 2 = lop ^ 2 - p.R ^ 2 := Real.sq_sqrt hbp_pos.le
  set S := x * p.xd0 + y * p.xd1 + z * p.xd2 with hS
  -- Lagrange's identity: strict Cauchy–Schwarz off the line through the centre and the detonator
  have hlag : lod ^ 2 * lop ^ 2 - S ^ 2
      = (x * p.xd1 - y * p.xd0) ^ 2 + (x * p.xd2 - z * p.xd0) ^ 2 + (y * p.xd2 - z * p.xd1) ^ 2 := by
    rw [hlod2, hlop2, hS]; ring
  have hK2 : 0 < lod ^ 2 * lop ^ 2 - S ^ 2 := by
    have h0 : 0 ≤ lod ^ 2 * lop ^ 2 - S ^ 2 := by rw [hlag]; positivity
    refine lt_of_le_of_ne h0 (fun e => hcol ?_)
    rw [← hlop2, ← hlod2]; linarith
  have hc2 : (-S / (lod * lop)) ^ 2 < 1 := by
    rw [div_pow, div_lt_one (by positivity)]; nlinarith
  have hc_ne1 : -S / (lod * lop) ≠ 1 := fun e => by rw [e] at hc2; norm_num at hc2
  have hc_ne2 : -S / (lod * lop) ≠ -1 := fun e => by rw [e] at hc2; norm_num at hc2
  set w := Real.sqrt (1 - (-S / (lod * lop)) ^ 2) with hw_def
  have hw0 : 0 < w := Real.sqrt_pos.mpr (by linarith)
  have hw2 : w ^ 2 * (lod ^ 2 * lop ^ 2) = lod ^ 2 * lop ^ 2 - S ^ 2 := by
    rw [hw_def, Real.sq_sqrt (by linarith)]; field_simp
  have s1 : x * x + y * y + z * z ≠ 0 := by rw [← hlop2]; positivity
  have s2 : Real.sqrt (p.xd0 * p.xd0 + p.xd1 * p.xd1 + p.xd2 * p.xd2) * Real.sqrt (x * x + y * y + z * z) ≠ 0 := by
    rw [elod, elop]; positivity
  have s3 : -(x * p.xd0 + y * p.xd1 + z * p.xd2)
      / (Real.sqrt (p.xd0 * p.xd0 + p.xd1 * p.xd1 + p.xd2 * p.xd2) * Real.sqrt (x * x + y * y + z * z)) ≠ -1 := by
    rw [elod, elop]; exact hc_ne2
  have s4 : -(x * p.xd0 + y * p.xd1 + z * p.xd2)
      / (Real.sqrt (p.xd0 * p.xd0 + p.xd1 * p.xd1 + p.xd2 * p.xd2) * Real.sqrt (x * x + y * y + z * z)) ≠ 1 := by
    rw [elod, elop]; exact hc_ne1
  have s5 : Real.sqrt (x * x + y * y + z * z) ≠ 0 := by rw [elop]; exact hlop0.ne'
  have s6 : p.R / Real.sqrt (x * x + y * y + z * z) ≠ -1 := by
    rw [elop]; have := div_pos h.hR hlop0; linarith
  have s7 : p.R / Real.sqrt (x * x + y * y + z * z) ≠ 1 := by
    rw [elop]; exact fun e => by rw [div_eq_one_iff_eq hlop0.ne'] at e; linarith
  have s8 : Real.sqrt (x * x + y * y + z * z) ^ 2 - p.R ^ 2 ≠ 0 := by rw [elop]; exact hbp_pos.ne'
  have cx : ContinuousAt (fun x' : ℝ => (!₂[x', y, z] : E3)) x := by
    refine Continuous.continuousAt ?_
    exact (PiLp.continuous_toLp 2 _).comp (continuous_pi fun i => by fin_cases i <;> simp <;> fun_prop)
  have cy : ContinuousAt (fun y' : ℝ => (!₂[x, y', z] : E3)) y := by
    refine Continuous.continuousAt ?_
    exact (PiLp.continuous_toLp 2 _).comp (continuous_pi fun i => by fin_cases i <;> simp <;> fun_prop)
  have cz : ContinuousAt (fun z' : ℝ => (!₂[x, y, z'] : E3)) z := by
    refine Continuous.continuousAt ?_
    exact (PiLp.continuous_toLp 2 _).comp (continuous_pi fun i => by fin_cases i <;> simp <;> fun_prop)
  refine ⟨K3d3.L4.burntime_dx p x y z, K3d3.L4.burntime_dy p x y z, K3d3.L4.burntime_dz p x y z, ?_, ?_, ?_, ?_⟩
  · have hd : HasDerivAt (fun x' => K3d3.L4.burntime p x' y z) (K3d3.L4.burntime_dx p x y z) x := by
      -- the side conditions of the certificate, in whatever number, order and writing: each is one of s1 … s8 up to
      -- ring normalisation
      apply K3d3.L4.burntime_hasDerivAt_x <;> first | assumption | (ring_nf at *; assumption)
    refine hd.congr_of_eventuallyEq ?_
    have := cx.eventually near
    filter_upwards [this] with x' hx'
    simpa using hx'
  · have hd : HasDerivAt (fun y' => K3d3.L4.burntime p x y' z) (K3d3.L4.burntime_dy p x y z) y := by
      -- the side conditions of the certificate, in whatever number, order and writing: each is one of s1 … s8 up to
      -- ring normalisation
      apply K3d3.L4.burntime_hasDerivAt_y <;> first | assumption | (ring_nf at *; assumption)
    refine hd.congr_of_eventuallyEq ?_
    have := cy.eventually near
    filter_upwards [this] with y' hy'
    simpa using hy'
  · have hd : HasDerivAt (fun z' => K3d3.L4.burntime p x y z') (K3d3.L4.burntime_dz p x y z) z := by
      -- the side conditions of the certificate, in whatever number, order and writing: each is one of s1 … s8 up to
      -- ring normalisation
      apply K3d3.L4.burntime_hasDerivAt_z <;> first | assumption | (ring_nf at *; assumption)
    refine hd.congr_of_eventuallyEq ?_
    have := cz.eventually near
    filter_upwards [this] with z' hz'
    simpa using hz'
  · rw [k3d3_L4_dx p x y z lod lop lbp w elod elop hlop2 hlop0 hlod0 h.hR h.hD rfl hlbp2 hlbp0 rfl hw0,
      k3d3_L4_dy p x y z lod lop lbp w elod elop hlop2 hlop0 hlod0 h.hR h.hD rfl hlbp2 hlbp0 rfl hw0,
      k3d3_L4_dz p x y z lod lop lbp w elod elop hlop2 hlop0 hlod0 h.hR h.hD rfl hlbp2 hlbp0 rfl hw0]
    have expand : ((p.R * ((-p.xd0 * lop ^ 2 + S * x) / (w * lod * lop ^ 3)) + x * lbp / lop ^ 2) / p.D) ^ 2
        + ((p.R * ((-p.xd1 * lop ^ 2 + S * y) / (w * lod * lop ^ 3)) + y * lbp / lop ^ 2) / p.D) ^ 2
        + ((p.R * ((-p.xd2 * lop ^ 2 + S * z) / (w * lod * lop ^ 3)) + z * lbp / lop ^ 2) / p.D) ^ 2
        = (p.R ^ 2 * ((-p.xd0 * lop ^ 2 + S * x) ^ 2 + (-p.xd1 * lop ^ 2 + S * y) ^ 2
              + (-p.xd2 * lop ^ 2 + S * z) ^ 2) / (w * lod * lop ^ 3) ^ 2
          + 2 * p.R * lbp * (x * (-p.xd0 * lop ^ 2 + S * x) + y * (-p.xd1 * lop ^ 2 + S * y)
              + z * (-p.xd2 * lop ^ 2 + S * z)) / ((w * lod * lop ^ 3) * lop ^ 2)
          + lbp ^ 2 * (x * x + y * y + z * z) / lop ^ 4) / p.D ^ 2 := by ring
    rw [expand]
    refine k3_shadow_grad_sq (S := S) h.hD hlop0 hlod0 hw0 hlbp2 hw2 ?_ ?_ hlop2.symm
    · rw [hS]
      linear_combination (-(lop ^ 2) ^ 2) * hlod2 + (-(x * p.xd0 + y * p.xd1 + z * p.xd2) ^ 2) * hlop2
    · rw [hS]; linear_combination (-(x * p.xd0 + y * p.xd1 + z * p.xd2)) * hlop2


/-- first arrival is unique also behind the obstacle: anywhere in the explosive other than the
detonator the front arrives strictly later than t_d -/
theorem k3d2_gt (p : K3d2.P) (h : K3d2.Adm p) (q : E2) (hq : p.R ≤ ‖q‖) (hne : q ≠ K3d2.det p) :
    p.t_d < K3d2.burntime p (q 0) (q 1) := by
  have h1 := k3d2_ge_straight p h q hq
  have h2 : 0 < dist q (K3d2.det p) / p.D := div_pos (dist_pos.mpr hne) h.hD
  linarith

theorem k3d2_eq_td_iff (p : K3d2.P) (h : K3d2.Adm p) (q : E2) (hq : p.R ≤ ‖q‖) :
    K3d2.burntime p (q 0) (q 1) = p.t_d ↔ q = K3d2.det p := by
  constructor
  · intro e
    by_contra hne
    exact absurd e (k3d2_gt p h q hq hne).ne'
  · rintro rfl
    simpa only [K3d2.det_0, K3d2.det_1] using k3d2_at_detonator p h

/-- first arrival is unique also behind the obstacle: anywhere in the explosive other than the
detonator the front arrives strictly later than t_d -/
theorem k3d3_gt (p : K3d3.P) (h : K3d3.Adm p) (q : E3) (hq : p.R ≤ ‖q‖) (hne : q ≠ K3d3.det p) :
    p.t_d < K3d3.burntime p (q 0) (q 1) (q 2) := by
  have h1 := k3d3_ge_straight p h q hq
  have h2 : 0 < dist q (K3d3.det p) / p.D := div_pos (dist_pos.mpr hne) h.hD
  linarith

theorem k3d3_eq_td_iff (p : K3d3.P) (h : K3d3.Adm p) (q : E3) (hq : p.R ≤ ‖q‖) :
    K3d3.burntime p (q 0) (q 1) (q 2) = p.t_d ↔ q = K3d3.det p := by
  constructor
  · intro e
    by_contra hne
    exact absurd e (k3d3_gt p h q hq hne).ne'
  · rintro rfl
    simpa only [K3d3.det_0, K3d3.det_1, K3d3.det_2] using k3d3_at_detonator p h


/-- non-vacuity: the solver's defaults R = 3, D = 2, x_d = (0, 5), t_d = 0 -/
example : K3d2.Adm ⟨2, 3, 0, 0, 5⟩ := by
  refine ⟨by norm_num, by norm_num, ?_⟩
  rw [← sqrt_norm2]; simp only [K3d2.det_0, K3d2.det_1]
  rw [show (0 : ℝ) * 0 + 5 * 5 = 5 ^ 2 by norm_num, Real.sqrt_sq (by norm_num)]; norm_num
example : K3d3.Adm ⟨2, 3, 0, 0, 5, 0⟩ := by
  refine ⟨by norm_num, by norm_num, ?_⟩
  rw [← sqrt_norm3]; simp only [K3d3.det_0, K3d3.det_1, K3d3.det_2]
  rw [show (0 : ℝ) * 0 + 5 * 5 + 0 * 0 = 5 ^ 2 by norm_num, Real.sqrt_sq (by norm_num)]; norm_num

end EPV.C13
