/-
C17 (Sedov share) — admissibility of the shock state and of the returned fields.

Generated model SedovShock, documented domain (`EPV.Sedov.Admissible`: geometry 1/2/3, γ > 1,
ρ₀ > 0, E > 0, 0 ≤ ω < geometry, α > 0), t > 0:
  * r2 > 0, us > 0, ρ₁ > 0, ρ₂ > 0, u₂ > 0, p₂ > 0;
  * the shock is compressive: ρ₂ > ρ₁ with ρ₂/ρ₁ = (γ+1)/(γ-1) > 1, p₂ > p₁ = 0, and the gas
    behind the shock follows it more slowly than the shock moves: 0 < u₂ < us;
  * the returned fields inherit the sign of the similarity functions: g ≥ 0 ⇒ ρ ≥ 0, etc.
The signs of f, g, h themselves (root finding + `sedov_funcs_standard`) are checked by the oracle
`o_sedov.admissible`.
-/
import EPV.Lemmas.SedovFields

set_option linter.all false

open EPV EPV.Gen EPV.Sedov

namespace EPV.C17

noncomputable section

theorem sedov_shock_positive (p : SedovShock.P) (k : ℕ) (A : Admissible p k) {t : ℝ} (ht : 0 < t) :
    0 < SedovShock.r2 p t ∧ 0 < SedovShock.us p t ∧ 0 < SedovShock.rho1 p t ∧ 0 < SedovShock.rho2 p t
      ∧ 0 < SedovShock.u2 p t ∧ 0 < SedovShock.p2 p t := by
  have hR := r2_pos A ht
  have hx := A.xg2_pos
  have hγ := A.gamma
  have hus : 0 < SedovShock.us p t := by rw [us_eq p ht]; positivity
  have hr1 : 0 < SedovShock.rho1 p t := by
    rw [rho1_eq p ht]; exact mul_pos A.rho0 (Real.rpow_pos_of_pos hR _)
  have hg1 : 0 < p.gamma - 1 := by linarith
  have hg2 : 0 < p.gamma + 1 := by linarith
  refine ⟨hR, hus, hr1, ?_, ?_, ?_⟩
  · rw [rho2_eq p ht]; positivity
  · rw [u2_eq p ht]; positivity
  · rw [p2_eq p ht]; positivity

/-- compressive shock -/
theorem sedov_shock_compressive (p : SedovShock.P) (k : ℕ) (A : Admissible p k) {t : ℝ} (ht : 0 < t) :
    SedovShock.rho1 p t < SedovShock.rho2 p t
      ∧ SedovShock.rho2 p t / SedovShock.rho1 p t = (p.gamma + 1) / (p.gamma - 1)
      ∧ SedovShock.p1 p t < SedovShock.p2 p t
      ∧ SedovShock.u1 p t < SedovShock.u2 p t ∧ SedovShock.u2 p t < SedovShock.us p t := by
  obtain ⟨hR, hus, hr1, hr2, hu2, hp2⟩ := sedov_shock_positive p k A ht
  have hγ := A.gamma
  have hg1 : 0 < p.gamma - 1 := by linarith
  have hg2 : 0 < p.gamma + 1 := by linarith
  have hratio : 1 < (p.gamma + 1) / (p.gamma - 1) := by rw [one_lt_div hg1]; linarith
  refine ⟨?_, ?_, ?_, ?_, ?_⟩
  · rw [rho2_eq p ht]; nlinarith
  · rw [rho2_eq p ht]; field_simp
  · rw [p1_eq p ht]; exact hp2
  · rw [u1_eq p ht]; exact hu2
  · rw [u2_eq p ht, div_lt_iff₀ hg2]; nlinarith

/-- signs of the returned fields behind the shock follow the signs of the similarity functions -/
theorem sedov_fields_nonneg (p : SedovShock.P) (k : ℕ) (A : Admissible p k) (f g h : ℝ → ℝ)
    (hf : ∀ x, 0 ≤ f x) (hg : ∀ x, 0 ≤ g x) (hh : ∀ x, 0 ≤ h x) {t : ℝ} (ht : 0 < t) (r : ℝ) :
    0 ≤ density p g t r ∧ 0 ≤ velocity p f t r ∧ 0 ≤ pressure p h t r := by
  obtain ⟨hR, hus, hr1, hr2, hu2, hp2⟩ := sedov_shock_positive p k A ht
  unfold density velocity pressure
  exact ⟨mul_nonneg hr2.le (hg _), mul_nonneg hu2.le (hf _), mul_nonneg hp2.le (hh _)⟩

/-- non-vacuity -/
example : ∃ (p : SedovShock.P) (k : ℕ), Admissible p k :=
  ⟨⟨851072/1000000, 851072/1000000, 7/5, 3, 0, 1⟩, 3,
    ⟨Or.inr (Or.inr rfl), by norm_num, by norm_num, by norm_num, by norm_num, by norm_num, by norm_num, by norm_num⟩⟩

end

end EPV.C17
