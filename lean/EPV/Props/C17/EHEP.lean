/-
C17 — escape of HE products: admissibility.

"Densities are positive (or exactly zero in a documented vacuum), pressures and internal
energies non-negative, sound speeds real."  All thermodynamic fields of EHEP are functions of the
sound speed (`p_rho`: ρ = 16 ρ₀ c / (9 D), p = 16 ρ₀ D² (c/D)³ / 27, e = p / ρ / (γ-1)), so:

* `ehep_admissible_of_cs` (tree level, every region): if the returned sound speed is ≥ 0 then
  ρ ≥ 0, p ≥ 0, e ≥ 0 (γ > 1), and ρ = 0 ⇔ c = 0 for the fluid regions (vacuum exactly where c = 0);
* the sound speed is ≥ 0:
  - region II: *unconditionally*, because of the clamp `max(…, 0)` (`ehep_cs_II`) — without it the
    formula is negative right of the escape front x = x̃ + (x/t)(t - t̃)… (`ehep_II_unclamped_negative`
    shows the unclamped formula does go negative, so the clamp is what makes the property hold);
  - region III: unconditionally (`ehep_cs_III`, c = u_p + D/2 > 0);
  - region I: on t > 0, x ≥ 0 (`ehep_cs_I`; region I lies between the curves C and A);
  - region V: on t > t̃ (`ehep_cs_V`; region V lies above the corner t = 3 x̃ / (2 u_p + D) > t̃);
  - region IV: on D t > x̃, x ≤ (2 u_p + D/2) t (right of nothing but curve C) **and u_p ≤ D/4**
    (`ehep_cs_IV`) — the constructor guarantees u_p < D/(γ+1), which is D/4 only for the documented
    γ = 3 (see the C20 finding: γ ≠ 3 is accepted);
  - '00', '0V', '0H', outside: c = 0.
The half-plane hypotheses are those of the hand model EPV/Model/EHEP.lean (tied to the polygon test).
-/
import EPV.Lemmas.EHEP
import EPV.Lemmas.Bridge.DetonTactics

set_option linter.all false

open EPV EPV.Gen EPV.EHEPL

namespace EPV.C17

/-- all fields non-negative as soon as the sound speed is (every region, every branch) -/
theorem ehep_admissible_of_cs (p : EHEP.P) (x t : ℝ) (ha : Accepted p) (hγ : 1 < p.gamma)
    (hcs : 0 ≤ EHEP.sound_speed p x t) :
    0 ≤ EHEP.density p x t ∧ 0 ≤ EHEP.pressure p x t ∧ 0 ≤ EHEP.specific_internal_energy p x t := by
  have hD : 0 < p.D := ha.1
  have hρ : 0 < p.rho_0 := ha.2.1
  have hg : 0 < p.gamma - 1 := by linarith
  have hD' : p.D ≠ 0 := hD.ne'
  -- the fluid regions share one argument: ρ = k c, p = k' c³, e = p/ρ/(γ-1)
  have fluid : ∀ c ρ pr e : ℝ, 0 ≤ c → ρ = 16 / 9 * p.rho_0 * c / p.D →
      pr = 16 / 27 * p.rho_0 * p.D ^ 2 * (c / p.D) ^ 3 → e = pr / ρ / (p.gamma - 1) → 0 ≤ ρ ∧ 0 ≤ pr ∧ 0 ≤ e := by
    intro c ρ pr e hc h1 h2 h3
    have a : 0 ≤ ρ := by rw [h1]; positivity
    have b : 0 ≤ pr := by rw [h2]; positivity
    exact ⟨a, b, by rw [h3]; positivity⟩
  by_cases h1 : p.region = 1
  · obtain ⟨a1, a2, a3, a4, a5⟩ := region_I p x t ha h1
    rw [a4] at hcs; rw [a1, a2, a3]
    exact fluid _ _ _ _ hcs (by simp only [epv_leaf]; epv_deton_feq) (by simp only [epv_leaf]; epv_deton_feq) (by simp only [epv_leaf]; epv_deton_feq)
  by_cases h2 : p.region = 2
  · by_cases hc : EHEP.c10 p x t
    · obtain ⟨a1, a2, a3, a4, a5⟩ := region_II p x t ha h2 hc
      rw [a4] at hcs; rw [a1, a2, a3]
      exact fluid _ _ _ _ hcs (by simp only [epv_leaf]; epv_deton_feq) (by simp only [epv_leaf]; epv_deton_feq) (by simp only [epv_leaf]; epv_deton_feq)
    · obtain ⟨a1, a2, a3, a4, a5⟩ := region_II_clamped p x t ha h2 hc
      rw [a1, a2, a3]; exact ⟨le_rfl, le_rfl, le_rfl⟩
  by_cases h3 : p.region = 3
  · obtain ⟨a1, a2, a3, a4, a5⟩ := region_III p x t ha h3
    rw [a4] at hcs; rw [a1, a2, a3]
    exact fluid _ _ _ _ hcs (by simp only [epv_leaf]; epv_deton_feq) (by simp only [epv_leaf]; epv_deton_feq) (by simp only [epv_leaf]; epv_deton_feq)
  by_cases h4 : p.region = 4
  · obtain ⟨a1, a2, a3, a4, a5⟩ := region_IV p x t ha h4
    rw [a4] at hcs; rw [a1, a2, a3]
    exact fluid _ _ _ _ hcs (by simp only [epv_leaf]; epv_deton_feq) (by simp only [epv_leaf]; epv_deton_feq) (by simp only [epv_leaf]; epv_deton_feq)
  by_cases h5 : p.region = 5
  · obtain ⟨a1, a2, a3, a4, a5⟩ := region_V p x t ha h5
    rw [a4] at hcs; rw [a1, a2, a3]
    exact fluid _ _ _ _ hcs (by simp only [epv_leaf]; epv_deton_feq) (by simp only [epv_leaf]; epv_deton_feq) (by simp only [epv_leaf]; epv_deton_feq)
  by_cases h6 : p.region = 6
  · obtain ⟨a1, a2, a3, a4, a5⟩ := region_00 p x t ha h6
    rw [a1, a2, a3]; exact ⟨le_rfl, le_rfl, le_rfl⟩
  by_cases h7 : p.region = 7
  · obtain ⟨a1, a2, a3, a4, a5⟩ := region_0V p x t ha h7
    rw [a1, a2, a3]; exact ⟨le_rfl, le_rfl, le_rfl⟩
  by_cases h8 : p.region = 8
  · obtain ⟨a1, a2, a3, a4, a5⟩ := region_0H p x t ha h8
    rw [a1, a2, a3]; exact ⟨hρ.le, le_rfl, le_rfl⟩
  · obtain ⟨a1, a2, a3, a4, a5⟩ := region_none p x t ha ⟨h1, h2, h3, h4, h5, h6, h7, h8⟩
    rw [a1, a2, a3]; exact ⟨le_rfl, le_rfl, le_rfl⟩

/-- region II: the clamp makes the sound speed non-negative at every (x, t) whatsoever -/
theorem ehep_cs_II (p : EHEP.P) (x t : ℝ) (ha : Accepted p) (hr : p.region = 2) :
    0 ≤ EHEP.sound_speed p x t := by
  by_cases hc : EHEP.c10 p x t
  · rw [(region_II p x t ha hr hc).2.2.2.1]
    simp only [epv_cond] at hc
    simp only [epv_leaf]; exact hc
  · rw [(region_II_clamped p x t ha hr hc).2.2.2.1]

/-- … and the clamp is needed: the unclamped formula is negative beyond the escape front
(default parameters, x = 3, t = 2: 0.5 (x/t - (x - x̃)/(t - t̃)) = -0.464…) -/
theorem ehep_II_unclamped_negative :
    EHEP.L22.sound_speed ⟨17/20, 3, 2, 8/5, 10, 1/20, 10, 1⟩ 3 2 < 0 := by
  simp only [epv_leaf]; norm_num

theorem ehep_cs_III (p : EHEP.P) (x t : ℝ) (ha : Accepted p) (hr : p.region = 3) :
    0 < EHEP.sound_speed p x t := by
  rw [(region_III p x t ha hr).2.2.2.1]
  obtain ⟨h0, _, h2, _⟩ := ha
  simp only [epv_leaf]; positivity

theorem ehep_cs_I (p : EHEP.P) (x t : ℝ) (ha : Accepted p) (hr : p.region = 1) (ht : 0 < t) (hx : 0 ≤ x) :
    0 < EHEP.sound_speed p x t := by
  rw [(region_I p x t ha hr).2.2.2.1]
  obtain ⟨h0, _⟩ := ha
  simp only [epv_leaf]; positivity

theorem ehep_cs_V (p : EHEP.P) (x t : ℝ) (ha : Accepted p) (hγ : 1 < p.gamma) (hr : p.region = 5)
    (ht : p.xtilde / p.D < t) :
    0 < EHEP.sound_speed p x t := by
  rw [(region_V p x t ha hr).2.2.2.1]
  obtain ⟨h0, _, h2, h3, h4, _⟩ := ha
  simp only [epv_leaf]
  have e1 : 0 < t - p.xtilde / p.D := by linarith
  have e2 : 0 < p.D - p.up := by
    have : p.D / (p.gamma + 1) ≤ p.D := div_le_self h0.le (by linarith)
    linarith
  positivity

/-- region IV: right of nothing but curve C (x ≤ (2 u_p + D/2) t), after the front has reached the
surface (D t > x̃), piston slower than the CJ particle speed of a γ = 3 gas (u_p ≤ D/4) -/
theorem ehep_cs_IV (p : EHEP.P) (x t : ℝ) (ha : Accepted p) (hr : p.region = 4)
    (hup : p.up ≤ p.D / 4) (ht : p.xtilde < p.D * t) (hx : x ≤ (2 * p.up + p.D / 2) * t) :
    0 ≤ EHEP.sound_speed p x t := by
  rw [(region_IV p x t ha hr).2.2.2.1]
  obtain ⟨h0, _, h2, h3, h4, _⟩ := ha
  simp only [epv_leaf]
  have e1 : 0 < p.D * t - p.xtilde := by linarith
  have key : (x - p.xtilde) / (p.D * t - p.xtilde) ≤ 1 / 2 + 2 * p.up / p.D := by
    rw [div_le_iff₀ e1]
    have : (1 / 2 + 2 * p.up / p.D) * (p.D * t - p.xtilde)
        = (2 * p.up + p.D / 2) * t - p.xtilde / 2 - 2 * p.up * p.xtilde / p.D := by
      field_simp; ring
    rw [this]
    have : 2 * p.up * p.xtilde / p.D ≤ p.xtilde / 2 := by
      rw [div_le_iff₀ h0]; nlinarith
    linarith
  have : 1 / 2 * p.D * (1 / 2 - (x - p.xtilde) / (p.D * t - p.xtilde)) ≥ 1 / 2 * p.D * (-(2 * p.up / p.D)) := by
    apply mul_le_mul_of_nonneg_left _ (by positivity)
    linarith
  have e3 : 1 / 2 * p.D * (-(2 * p.up / p.D)) = -p.up := by field_simp
  linarith

/-- non-vacuity: defaults (γ = 3, u_p = 0.05 ≤ D/4), a point of region IV -/
example : ∃ (p : EHEP.P) (x t : ℝ), Accepted p ∧ 1 < p.gamma ∧ p.region = 4 ∧ p.up ≤ p.D / 4 ∧ p.xtilde < p.D * t ∧
    x ≤ (2 * p.up + p.D / 2) * t := by
  refine ⟨⟨17/20, 3, 4, 8/5, 10, 1/20, 10, 1⟩, 3/2, 3, ?_, by norm_num, rfl, by norm_num, by norm_num, by norm_num⟩
  unfold Accepted; norm_num

end EPV.C17
