/-
C17 — FINDING: Mader's transition cell (the cell that straddles the tail of the Taylor wave)
leaves the range of the two states it lies between.

Property: "values reported for a cell or point between two constant states lie between those
states".  The transition cell lies between the plateau (u = u_piston) and the Chapman–Jouguet
state at the head of the fan (u = u_cj = D/(γ+1)), and every fan value lies between those two.
`rare` evaluates the fan part of the cell on the interval `[x1, x1 + dxp]` instead of
`[xp, x1 + dx]` (so mostly *behind* the tail, where the fan formulas extrapolate below the
plateau), uses the fan's u for the plateau values `pr`, `cr`, and has `rho = rho + (rho - rhor)…`
instead of `rhor + (rho - rhor)…`.

Witness (default parameters p_cj = 3·10¹¹, d_cj = 8·10⁵, γ = 3, u_piston = 0; 11 cells on [0, 5]:
dx = 5/11; the cell centred at xlab = 5/2 at the documented final time t = 6.25·10⁻⁶ = 1/160000):
the generated model takes the transition leaf and returns u = -50000/11 ≈ -4545.45 < 0 = u_piston,
c = 4300000/11 ≈ 390909 < 400000 = plateau sound speed.  Reproduced on the real code by the
oracle `o_detonation.mader_between` (site `Mader:transition-cell`).
-/
import EPV.Lemmas.Mader

set_option linter.all false

open EPV EPV.Gen EPV.MaderL

namespace EPV.C17

/-- the witness: default parameters, dx = 5/11 -/
noncomputable def maderW : MaderRare.P := ⟨800000, 5 / 11, 3, 300000000000, 0⟩

theorem maderW_leaf : MaderRare.leaf maderW (5 / 2) (1 / 160000) = 1 := by
  have h0 : ¬ MaderRare.c0 maderW (5 / 2) (1 / 160000) := by
    rw [c0_eq]; simp only [xdet, xp, ee, ucj, ccj, maderW]; norm_num
  have h2 : MaderRare.c2 maderW (5 / 2) (1 / 160000) := by
    rw [c2_eq]; simp only [xdet, xp, ee, ucj, ccj, maderW]; norm_num
  simp only [MaderRare.leaf, if_neg h0, if_pos h2]

theorem maderW_velocity : MaderRare.velocity maderW (5 / 2) (1 / 160000) = -50000 / 11 := by
  have h0 : ¬ MaderRare.c0 maderW (5 / 2) (1 / 160000) := by
    rw [c0_eq]; simp only [xdet, xp, ee, ucj, ccj, maderW]; norm_num
  have h2 : MaderRare.c2 maderW (5 / 2) (1 / 160000) := by
    rw [c2_eq]; simp only [xdet, xp, ee, ucj, ccj, maderW]; norm_num
  simp only [MaderRare.velocity, if_neg h0, if_pos h2]
  rw [trans_velocity_eq]
  simp only [hh, x1, xdet, xp, dd, ee, ucj, ccj, maderW]
  norm_num

theorem maderW_sound_speed : MaderRare.sound_speed maderW (5 / 2) (1 / 160000) = 4300000 / 11 := by
  have h0 : ¬ MaderRare.c0 maderW (5 / 2) (1 / 160000) := by
    rw [c0_eq]; simp only [xdet, xp, ee, ucj, ccj, maderW]; norm_num
  have h2 : MaderRare.c2 maderW (5 / 2) (1 / 160000) := by
    rw [c2_eq]; simp only [xdet, xp, ee, ucj, ccj, maderW]; norm_num
  simp only [MaderRare.sound_speed, if_neg h0, if_pos h2]
  rw [trans_sound_speed_eq]
  simp only [hh, x1, xdet, xp, dd, ee, ucj, ccj, Y, aa, bb, maderW]
  norm_num

/-- **Finding.**  The value returned for the transition cell is *not* between the plateau state
and the Chapman–Jouguet state: velocity below both, sound speed below both. -/
theorem mader_transition_cell_not_between :
    ¬ (min maderW.u_piston (ucj maderW) ≤ MaderRare.velocity maderW (5 / 2) (1 / 160000) ∧
       MaderRare.velocity maderW (5 / 2) (1 / 160000) ≤ max maderW.u_piston (ucj maderW)) ∧
    ¬ (min (ccj maderW * Z maderW) (ccj maderW) ≤ MaderRare.sound_speed maderW (5 / 2) (1 / 160000) ∧
       MaderRare.sound_speed maderW (5 / 2) (1 / 160000) ≤ max (ccj maderW * Z maderW) (ccj maderW)) := by
  rw [maderW_velocity, maderW_sound_speed]
  simp only [Z, ucj, ccj, maderW]
  norm_num

end EPV.C17
