/-
C17 — Cog21: for t > 0 (the only times the solver accepts) its shock is an EXPANSION shock (finding).
-/
import EPV.Gen.Cog21
import EPV.Lemmas.HydroTactics
import EPV.Lemmas.Bridge.Cog21

set_option linter.all false

open EPV EPV.Gen

namespace EPV.C17

/-- the shock position `2 / (Gamma * temp0 * t^2)` of `Cog21._run` -/
noncomputable def cog21Shock (p : Cog21.P) (t : ℝ) : ℝ := 2 / (p.Gamma * p.temp0 * t ^ 2)

theorem cog21_shock_speed (p : Cog21.P) (t : ℝ) (hΓT : p.Gamma * p.temp0 ≠ 0) (ht : t ≠ 0) :
    HasDerivAt (cog21Shock p) (-4 / (p.Gamma * p.temp0 * t ^ 3)) t := by
  have h1 : HasDerivAt (fun s : ℝ => p.Gamma * p.temp0 * s ^ 2) (p.Gamma * p.temp0 * (2 * t)) t := by
    have := ((hasDerivAt_pow 2 t).const_mul (p.Gamma * p.temp0))
    simpa using this
  have hne : p.Gamma * p.temp0 * t ^ 2 ≠ 0 := mul_ne_zero hΓT (pow_ne_zero 2 ht)
  have h2 := (hasDerivAt_const t (2 : ℝ)).div h1 hne
  have e : cog21Shock p = fun s => 2 / (p.Gamma * p.temp0 * s ^ 2) := rfl
  rw [e]
  refine h2.congr_deriv ?_
  field_simp
  ring

/-- **Finding** (C17 is false for Cog21 as coded): for t > 0 — the only times `Cog21._run` accepts — the
shock at R = 2/(Γ T₀ t²) moves INWARD (D < 0) while the gas on both sides moves outward relative to it
(u - D > 0 inside, where u = 0, and outside, where u = r/t).  The material therefore crosses the shock from the
inside, where ρ = (3/2) ρ₀ r⁻³ and p > 0, to the outside, where ρ = ρ₀ r⁻³ and p = 0: density and pressure
DROP in the direction the material crosses — an expansion shock.  (For t < 0 the same formulas describe a
compressive shock, but the solver returns NaN there.) -/
theorem finding_cog21_expansion_shock (p : Cog21.P) (r t : ℝ) (hρ : 0 < p.rho0) (hT : 0 < p.temp0)
    (hΓ : 0 < p.Gamma) (ht : 0 < t) (hr0 : 0 < r) (hr : r < cog21Shock p t) :
    -- relative to the shock the gas moves outward on both sides: it leaves the inner region
    0 < Cog21.velocity p r t - (-4 / (p.Gamma * p.temp0 * t ^ 3)) ∧
    0 < Cog21.velocity p (cog21Shock p t) t - (-4 / (p.Gamma * p.temp0 * t ^ 3)) ∧
    -- and loses density and pressure on the way out
    Cog21.density p (cog21Shock p t) t < (3 / 2) * Cog21.density p (cog21Shock p t) t ∧
    (cog21Shock p t) ^ 3 * Cog21.density p (cog21Shock p t) t = p.rho0 ∧
    r ^ 3 * Cog21.density p r t = (3 / 2) * p.rho0 ∧
    Cog21.pressure p (cog21Shock p t) t = 0 ∧ 0 < Cog21.pressure p r t := by
  have hs : 0 < cog21Shock p t := by unfold cog21Shock; positivity
  have hD : 0 < 4 / (p.Gamma * p.temp0 * t ^ 3) := by positivity
  have hns : cog21Shock p t = 2 / (p.Gamma * p.temp0 * t ^ 2) := rfl
  -- branch selection with the documented conditions, leaf values through their documented closed forms
  -- (Lemmas/Bridge/Cog21.lean): the proof does not depend on how cog21.py writes the formulas
  have hn : ∀ x, ¬ Cog21.c0 p x t := fun x => by rw [EPV.Bridge.cog21_c0_iff]; linarith
  have hc_in : Cog21.c1 p r t := (EPV.Bridge.cog21_c1_iff p r t).2 (by rw [hns] at hr; exact hr)
  have hc_out : ¬ Cog21.c1 p (cog21Shock p t) t := by
    rw [EPV.Bridge.cog21_c1_iff, ← hns]; exact lt_irrefl _
  have hnr := hn r
  have hnS := hn (cog21Shock p t)
  refine ⟨?_, ?_, ?_, ?_, ?_, ?_, ?_⟩
  · simp only [epv_tree, if_neg hnr, if_pos hc_in, EPV.Bridge.cog21_post_velocity]
    rw [neg_div, sub_neg_eq_add, zero_add]; exact hD
  · simp only [epv_tree, if_neg hnS, if_neg hc_out, EPV.Bridge.cog21_pre_velocity]
    rw [neg_div, sub_neg_eq_add]; positivity
  · have : 0 < Cog21.density p (cog21Shock p t) t := by
      simp only [epv_tree, if_neg hnS, if_neg hc_out, EPV.Bridge.cog21_pre_density]; positivity
    linarith
  · simp only [epv_tree, if_neg hnS, if_neg hc_out, EPV.Bridge.cog21_pre_density]
    field_simp
  · simp only [epv_tree, if_neg hnr, if_pos hc_in, EPV.Bridge.cog21_post_density]
    field_simp
  · simp only [epv_tree, if_neg hnS, if_neg hc_out, EPV.Bridge.cog21_pre_pressure]
  · simp only [epv_tree, if_neg hnr, if_pos hc_in, EPV.Bridge.cog21_post_pressure]; positivity

/-- non-vacuity at the solver's defaults (ρ₀ = 1.8, T₀ = 2.9, Γ = 400) -/
example : ∃ (p : Cog21.P) (r t : ℝ), 0 < p.rho0 ∧ 0 < p.temp0 ∧ 0 < p.Gamma ∧ 0 < t ∧ 0 < r ∧ r < cog21Shock p t :=
  ⟨⟨400, 0, 0, 0, 0, 0, 9 / 5, 29 / 10⟩, 1 / 1000, 1, by norm_num, by norm_num, by norm_num, by norm_num,
    by norm_num, by norm_num [cog21Shock]⟩

end EPV.C17
