/-
C17 — Guderley: admissibility, as far as it follows from the coded formulas (the interiors of
the integrations are atoms — oracle only).

* `guderley_density_pos`, `guderley_pressure_nonneg`, `guderley_sie_nonneg`,
  `guderley_sound_speed_sq` : for ρ₀ > 0, γ > 1 and a positive similarity density R(x), the
  returned density is positive, pressure and specific internal energy are non-negative, and the
  returned sound speed is a real number whose square is γ p / ρ ≥ 0 — on every branch.
* `guderley_sound_speed_nonneg` : the returned sound speed itself is ≥ 0 provided the atom C(x)
  has the sign opposite to x (Lazarus' convention: C > 0 before the focus, C < 0 after it) and
  λ > 0, r > 0.
* `converging_shock_compressive` : the start values `state` hands to the integrator at the
  converging shock have density ratio (γ+1)/(γ-1) > 1 (strong shock) and positive pressure behind.
* `reflected_shock_compressive` : the coded reflected-shock jump (Lazarus Eq. 2.6) raises density
  and pressure whenever the flow ahead of it is supersonic relative to the shock
  ((1+V)² > C², 1+V > 0) — and only then is it a shock the material crosses in that direction.
-/
import EPV.Spec.Guderley

set_option linter.all false

open EPV EPV.Gen EPV.Spec.Guderley

namespace EPV.C17

/-- density > 0 on every branch (ahead of the converging shock no hypothesis on R is needed) -/
theorem guderley_density_pos (i : Inp) (a : Atoms) (r t : ℝ) (hρ : 0 < i.rho0)
    (hR : -1 ≤ xi i a r t → 0 < a.R (xi i a r t)) : 0 < density i a r t := by
  by_cases hx : xi i a r t < -1
  · rw [(ahead_form i a r t hx).1]; exact hρ
  · rw [(power_law_form i a r t (not_lt.mp hx)).1]; exact mul_pos (hR (not_lt.mp hx)) hρ

/-- pressure ≥ 0 on every branch -/
theorem guderley_pressure_nonneg (i : Inp) (a : Atoms) (r t : ℝ) (hρ : 0 < i.rho0) (hγ : 1 < i.gamma)
    (hR : -1 ≤ xi i a r t → 0 < a.R (xi i a r t)) : 0 ≤ pressure i a r t := by
  by_cases hx : xi i a r t < -1
  · rw [(ahead_form i a r t hx).2.2.2.1]
  · rw [(power_law_form i a r t (not_lt.mp hx)).2.2.2.1]
    have := hR (not_lt.mp hx)
    have hg : 0 < i.gamma := by linarith
    positivity

/-- specific internal energy ≥ 0 on every branch -/
theorem guderley_sie_nonneg (i : Inp) (a : Atoms) (r t : ℝ) (hρ : 0 < i.rho0) (hγ : 1 < i.gamma)
    (hR : -1 ≤ xi i a r t → 0 < a.R (xi i a r t)) : 0 ≤ sie i a r t := by
  by_cases hx : xi i a r t < -1
  · rw [(ahead_form i a r t hx).2.2.2.2]
  · rw [(power_law_form i a r t (not_lt.mp hx)).2.2.2.2]
    have := hR (not_lt.mp hx)
    have hg : 0 < i.gamma := by linarith
    have hg1 : 0 < i.gamma - 1 := by linarith
    positivity

/-- the sound speed is real and its square is γ p / ρ ≥ 0 -/
theorem guderley_sound_speed_sq (i : Inp) (a : Atoms) (r t : ℝ) (hρ : 0 < i.rho0) (hγ : 1 < i.gamma)
    (hR : -1 ≤ xi i a r t → 0 < a.R (xi i a r t)) :
    sound_speed i a r t ^ 2 = i.gamma * pressure i a r t / density i a r t
    ∧ 0 ≤ i.gamma * pressure i a r t / density i a r t := by
  have hg : 0 < i.gamma := by linarith
  have hd := guderley_density_pos i a r t hρ hR
  have hp := guderley_pressure_nonneg i a r t hρ hγ hR
  refine ⟨?_, by positivity⟩
  by_cases hx : xi i a r t < -1
  · obtain ⟨h1, h2, h3, h4, h5⟩ := ahead_form i a r t hx
    rw [h3, h4]; simp
  · obtain ⟨h1, h2, h3, h4, h5⟩ := power_law_form i a r t (not_lt.mp hx)
    have := hR (not_lt.mp hx)
    rw [h1, h3, h4, pressure_energy_form]
    field_simp

/-- sound speed ≥ 0 when C(x) has the sign opposite to x -/
theorem guderley_sound_speed_nonneg (i : Inp) (a : Atoms) (r t : ℝ) (hr : 0 < r) (hl : 0 < a.lam)
    (hC : -1 ≤ xi i a r t → a.C (xi i a r t) * xi i a r t ≤ 0) : 0 ≤ sound_speed i a r t := by
  by_cases hx : xi i a r t < -1
  · rw [(ahead_form i a r t hx).2.2.1]
  · rw [(power_law_form i a r t (not_lt.mp hx)).2.2.1]
    have h := hC (not_lt.mp hx)
    have hq : 0 < r ^ (1 - a.lam) := Real.rpow_pos_of_pos hr _
    generalize xi i a r t = x at *
    generalize a.C x = c at *
    rcases eq_or_ne x 0 with rfl | hx0
    · simp
    · rw [div_nonneg_iff]
      rcases lt_or_gt_of_ne hx0 with hneg | hpos
      · left
        have hc : 0 ≤ c := by
          by_contra hc
          have : 0 < c * x := mul_pos_of_neg_of_neg (not_le.mp hc) hneg
          linarith
        exact ⟨by positivity, by nlinarith [mul_pos (neg_pos.mpr hneg) hl]⟩
      · right
        have hc : c ≤ 0 := by
          by_contra hc
          have : 0 < c * x := mul_pos (not_le.mp hc) hpos
          linarith
        exact ⟨mul_nonpos_of_nonpos_of_nonneg hc hq.le, by nlinarith [mul_pos hpos hl]⟩

/-- the converging shock as coded: density ratio (γ+1)/(γ-1) > 1, C² > 0 behind, for γ > 1 -/
theorem converging_shock_compressive (p : GudJump.P) (hγ : 1 < p.gamma_d) :
    1 < GudJump.Rs p ∧ 0 < GudJump.Cs p := by
  have h1 : 0 < p.gamma_d - 1 := by linarith
  have h2 : 0 < p.gamma_d + 1 := by linarith
  constructor
  · have : GudJump.Rs p = (p.gamma_d + 1) / (p.gamma_d - 1) := (start_form p).2.2
    rw [this, lt_div_iff₀ h1]; linarith
  · have : GudJump.Cs p = Real.sqrt (2 * p.gamma_d * (p.gamma_d - 1)) / (p.gamma_d + 1) := (start_form p).2.1
    rw [this]
    have : 0 < 2 * p.gamma_d * (p.gamma_d - 1) := by nlinarith
    have := Real.sqrt_pos.mpr this
    positivity

/-- **the reflected shock is compressive**: density and pressure (∝ R C²) rise across the coded
jump when the upstream flow is supersonic relative to the shock -/
theorem reflected_shock_compressive (p : GudJump.P) (hγ : 1 < p.gamma_d) (hV : 0 < 1 + p.Vb)
    (hM : p.Cb ^ 2 < (1 + p.Vb) ^ 2) (hC : p.Cb ≠ 0) (hR : 0 < p.Rb) :
    0 < 1 + GudJump.V1 p ∧ 1 + GudJump.V1 p < 1 + p.Vb ∧ p.Rb < GudJump.R1 p
    ∧ p.Rb * p.Cb ^ 2 < GudJump.R1 p * GudJump.C1 p ^ 2 := by
  obtain ⟨hV1, hR1, hC1⟩ := jump_form p hC
  have h1 : 0 < p.gamma_d - 1 := by linarith
  have h2 : 0 < p.gamma_d + 1 := by linarith
  have hC2 : 0 < p.Cb ^ 2 := by positivity
  have e : 1 + GudJump.V1 p = ((p.gamma_d - 1) * (1 + p.Vb) ^ 2 + 2 * p.Cb ^ 2) / ((p.gamma_d + 1) * (1 + p.Vb)) := by
    rw [hV1]; field_simp; ring
  have hpos : 0 < 1 + GudJump.V1 p := by
    rw [e]; positivity
  have hlt : 1 + GudJump.V1 p < 1 + p.Vb := by
    rw [e, div_lt_iff₀ (by positivity)]
    nlinarith
  have hRlt : p.Rb < GudJump.R1 p := by
    rw [hR1, lt_div_iff₀ hpos]
    nlinarith
  refine ⟨hpos, hlt, hRlt, ?_⟩
  have harg : p.Cb ^ 2 < p.Cb ^ 2 + 1 / 2 * (p.gamma_d - 1) * ((1 + p.Vb) ^ 2 - (1 + GudJump.V1 p) ^ 2) := by
    have : 0 < (1 + p.Vb) ^ 2 - (1 + GudJump.V1 p) ^ 2 := by nlinarith
    nlinarith [mul_pos h1 this]
  rw [hC1, Real.sq_sqrt (by linarith)]
  have hR1pos : 0 < GudJump.R1 p := by linarith
  nlinarith [mul_pos (sub_pos.mpr hRlt) hC2, mul_pos hR1pos (sub_pos.mpr harg)]

/-- non-vacuity: γ = 7/5 and an upstream state with relative Mach number 2 -/
example : ∃ p : GudJump.P, 1 < p.gamma_d ∧ 0 < 1 + p.Vb ∧ p.Cb ^ 2 < (1 + p.Vb) ^ 2 ∧ p.Cb ≠ 0 ∧ 0 < p.Rb :=
  ⟨⟨-1 / 2, 20, 0, 7 / 5, 7 / 5, 3⟩, by norm_num, by norm_num, by norm_num, by norm_num, by norm_num⟩

end EPV.C17
