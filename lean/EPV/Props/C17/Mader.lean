/-
C17 — Mader: admissibility of the rarefaction fan and of the constant state.

For γ > 1, D > 0, p_cj > 0, time > 0, cell width dx > 0 and a cell on which the fan variable
y = c / c_cj is positive at its lower end (`0 < Y (x1)`; y is increasing in xdet):

* `mader_fan_mean_value`: the returned fan pressure and density are values of the point profile at
  interior points of the cell (mean value theorem on the coded antiderivatives), hence
* `mader_fan_between`: they lie strictly between the profile's values at the two cell edges,
  `P(x1) < pressure < P(x1 + dx)`, same for density — so averages over successive (non-overlapping)
  cells are monotone, and nothing over- or undershoots inside the fan;
* `mader_fan_positive`: pressure, density, sound speed are positive;
* `mader_profile_strictMono`: along the fan the point profiles of p, ρ, c and u increase strictly
  with xdet (i.e. decrease monotonically from the front towards the piston);
* `mader_plateau_positive`: the constant state has p, ρ, c > 0 when 0 < Z (piston slower than
  u_cj + 2 c_cj/(γ-1)).
The cell straddling the tail of the fan violates the property: see FindingMader.lean.
-/
import EPV.Lemmas.MaderProfile

set_option linter.all false

open EPV EPV.Gen EPV.MaderL

namespace EPV.C17

theorem mader_fan_mean_value (p : MaderRare.P) (xlab time : ℝ) (hγ : 1 < p.gam) (hD : 0 < p.d_cj)
    (ht : 0 < time) (hdx : 0 < p.dx) (hy : 0 < Y p time (x1 p xlab time)) :
    (∃ ξ ∈ Set.Ioo (x1 p xlab time) (x1 p xlab time + p.dx), MaderRare.L0.pressure p xlab time = maderP p time ξ) ∧
    (∃ ξ ∈ Set.Ioo (x1 p xlab time) (x1 p xlab time + p.dx), MaderRare.L0.density p xlab time = maderR p time ξ) := by
  constructor
  · obtain ⟨ξ, hξ, h⟩ := cell_mean p time p.p_cj (bexp p) (x1 p xlab time) p.dx hγ hD ht (bexp_pos p hγ) hdx hy
    exact ⟨ξ, hξ, by rw [fan_pressure_eq, h]; rfl⟩
  · obtain ⟨ξ, hξ, h⟩ := cell_mean p time (rhocj p) (dexp p) (x1 p xlab time) p.dx hγ hD ht (dexp_pos p hγ) hdx hy
    exact ⟨ξ, hξ, by rw [fan_density_eq, h]; rfl⟩

/-- strict monotonicity of the point profiles along the fan -/
theorem mader_profile_strictMono (p : MaderRare.P) (time : ℝ) (hγ : 1 < p.gam) (hD : 0 < p.d_cj)
    (ht : 0 < time) (hp : 0 < p.p_cj) {X X' : ℝ} (h : X < X') (hy : 0 < Y p time X) :
    maderP p time X < maderP p time X' ∧ maderR p time X < maderR p time X' ∧
    maderC p time X < maderC p time X' ∧ maderU p time X < maderU p time X' := by
  have ha := aa_pos p time hγ hD ht
  have hY : Y p time X < Y p time X' := by simp only [Y]; nlinarith
  have hρ : 0 < rhocj p := by simp only [rhocj, rho0]; positivity
  have hc : 0 < ccj p := by simp only [ccj]; positivity
  have hdd : 0 < dd p time := by simp only [dd]; positivity
  refine ⟨?_, ?_, ?_, ?_⟩
  · exact mul_lt_mul_of_pos_left (Real.rpow_lt_rpow hy.le hY (bexp_pos p hγ)) hp
  · exact mul_lt_mul_of_pos_left (Real.rpow_lt_rpow hy.le hY (dexp_pos p hγ)) hρ
  · exact mul_lt_mul_of_pos_left hY hc
  · simp only [maderU]; nlinarith

theorem mader_fan_between (p : MaderRare.P) (xlab time : ℝ) (hγ : 1 < p.gam) (hD : 0 < p.d_cj)
    (ht : 0 < time) (hp : 0 < p.p_cj) (hdx : 0 < p.dx) (hy : 0 < Y p time (x1 p xlab time)) :
    maderP p time (x1 p xlab time) < MaderRare.L0.pressure p xlab time ∧
    MaderRare.L0.pressure p xlab time < maderP p time (x1 p xlab time + p.dx) ∧
    maderR p time (x1 p xlab time) < MaderRare.L0.density p xlab time ∧
    MaderRare.L0.density p xlab time < maderR p time (x1 p xlab time + p.dx) := by
  obtain ⟨⟨ξ, hξ, h1⟩, ⟨ζ, hζ, h2⟩⟩ := mader_fan_mean_value p xlab time hγ hD ht hdx hy
  rw [h1, h2]
  have yξ := Y_pos_of_le p time hγ hD ht hξ.1.le hy
  have yζ := Y_pos_of_le p time hγ hD ht hζ.1.le hy
  exact ⟨(mader_profile_strictMono p time hγ hD ht hp hξ.1 hy).1,
    (mader_profile_strictMono p time hγ hD ht hp hξ.2 yξ).1,
    (mader_profile_strictMono p time hγ hD ht hp hζ.1 hy).2.1,
    (mader_profile_strictMono p time hγ hD ht hp hζ.2 yζ).2.1⟩

theorem mader_fan_positive (p : MaderRare.P) (xlab time : ℝ) (hγ : 1 < p.gam) (hD : 0 < p.d_cj)
    (ht : 0 < time) (hp : 0 < p.p_cj) (hdx : 0 < p.dx) (hy : 0 < Y p time (x1 p xlab time)) :
    0 < MaderRare.L0.pressure p xlab time ∧ 0 < MaderRare.L0.density p xlab time ∧
    0 < MaderRare.L0.sound_speed p xlab time := by
  obtain ⟨h1, _, h3, _⟩ := mader_fan_between p xlab time hγ hD ht hp hdx hy
  have hρ : 0 < rhocj p := by simp only [rhocj, rho0]; positivity
  have hc : 0 < ccj p := by simp only [ccj]; positivity
  refine ⟨lt_trans ?_ h1, lt_trans ?_ h3, ?_⟩
  · exact mul_pos hp (Real.rpow_pos_of_pos hy _)
  · exact mul_pos hρ (Real.rpow_pos_of_pos hy _)
  · rw [fan_sound_speed_eq]
    exact mul_pos hc (Y_pos_of_le p time hγ hD ht (by linarith) hy)

theorem mader_plateau_positive (p : MaderRare.P) (xlab time : ℝ) (hγ : 1 < p.gam) (hD : 0 < p.d_cj)
    (hp : 0 < p.p_cj) (hz : 0 < Z p) :
    0 < MaderRare.L4.pressure p xlab time ∧ 0 < MaderRare.L4.density p xlab time ∧
    0 < MaderRare.L4.sound_speed p xlab time := by
  have hρ : 0 < rhocj p := by simp only [rhocj, rho0]; positivity
  have hc : 0 < ccj p := by simp only [ccj]; positivity
  rw [plateau_pressure_eq, plateau_density_eq, plateau_sound_speed_eq]
  have hq : 0 < p.p_cj * Z p ^ bexp p := mul_pos hp (Real.rpow_pos_of_pos hz _)
  exact ⟨hq, mul_pos hρ (Real.rpow_pos_of_pos (div_pos hq hp) _), mul_pos hc hz⟩

/-- non-vacuity: defaults, 11 cells, the cell centred at xlab = 1 at t = 6.25 μs (inside the fan) -/
example : ∃ (p : MaderRare.P) (xlab time : ℝ), 1 < p.gam ∧ 0 < p.d_cj ∧ 0 < time ∧ 0 < p.p_cj ∧ 0 < p.dx ∧
    0 < Y p time (x1 p xlab time) ∧ 0 < Z p := by
  refine ⟨⟨800000, 5 / 11, 3, 300000000000, 0⟩, 1, 1 / 160000, by norm_num, by norm_num, by norm_num,
    by norm_num, by norm_num, ?_, ?_⟩ <;>
    (simp only [Y, aa, bb, x1, xdet, Z, ucj, ccj]; norm_num)

end EPV.C17
