/-
C17 — steady detonation reaction zone: admissibility.

For every D > 0, ρ₀ > 0 (constructor) and γ > 1:
* density, pressure and velocity are positive and the sound speed is real
  (`sdrz_positive`, `sdrz_tail_positive`);
* the fields are monotone in the reaction progress: from the von Neumann spike (λ = 0) to the
  Chapman–Jouguet state (λ = 1) pressure, density and velocity strictly decrease
  (`sdrz_monotone`; λ = t (2 - t) is strictly increasing in the particle age on [0, 1],
  `sdrz_lambda_strictMono`, so "monotone in t" and "monotone in λ" are the same statement);
* the state behind the zone is the end state of the zone (`sdrz_tail_is_cj`): nothing
  overshoots between the spike and the CJ state.
-/
import EPV.Lemmas.SDRZ

set_option linter.all false

open EPV EPV.Gen

namespace EPV.C17

theorem sdrz_positive (p : SDRZProfile.P) (t : ℝ) (h : SDRZProfile.outcome p t = .ok)
    (hγ : 1 < p.gamma) (h0 : 0 ≤ t) (h1 : t ≤ 1) :
    0 < SDRZProfile.density p t ∧ 0 < SDRZProfile.pressure p t ∧ 0 < SDRZProfile.velocity p t ∧
    0 ≤ p.gamma * SDRZProfile.pressure p t / SDRZProfile.density p t ∧
    0 ≤ SDRZProfile.reaction_progress p t ∧ SDRZProfile.reaction_progress p t ≤ 1 := by
  obtain ⟨hp, hr, hu, hc, hl, hD, hρ⟩ := SDRZ.closed_form p t h hγ h0 h1
  have a1 : 0 < p.gamma + t - 1 := by linarith
  have a2 : 0 < 2 - t := by linarith
  rw [hp, hr, hu, hl]
  refine ⟨by positivity, by positivity, by positivity, by positivity, by nlinarith, by nlinarith⟩

theorem sdrz_tail_positive (p : SDRZTail.P) (t : ℝ) (h : SDRZTail.outcome p t = .ok)
    (hγ : 1 < p.gamma) (h1 : 1 ≤ t) :
    0 < SDRZTail.density p t ∧ 0 < SDRZTail.pressure p t ∧ 0 < SDRZTail.velocity p t ∧
    0 ≤ p.gamma * SDRZTail.pressure p t / SDRZTail.density p t := by
  obtain ⟨hp, hr, hu, hc, hl, hD, hρ⟩ := SDRZ.tail_closed_form p t h hγ h1
  have a1 : 0 < p.gamma := by linarith
  rw [hp, hr, hu]
  refine ⟨by positivity, by positivity, by positivity, by positivity⟩

/-- λ(t) = t (2 - t) is strictly increasing on [0, 1] -/
theorem sdrz_lambda_strictMono (s t : ℝ) (hs : 0 ≤ s) (hst : s < t) (ht : t ≤ 1) :
    s * (2 - s) < t * (2 - t) := by nlinarith

/-- pressure, density and velocity strictly decrease with the reaction progress (s < t ⇒ λ(s) < λ(t)) -/
theorem sdrz_monotone (p : SDRZProfile.P) (s t : ℝ) (hs : SDRZProfile.outcome p s = .ok)
    (ht : SDRZProfile.outcome p t = .ok) (hγ : 1 < p.gamma) (h0 : 0 ≤ s) (hst : s < t) (h1 : t ≤ 1) :
    SDRZProfile.reaction_progress p s < SDRZProfile.reaction_progress p t ∧
    SDRZProfile.pressure p t < SDRZProfile.pressure p s ∧
    SDRZProfile.density p t < SDRZProfile.density p s ∧
    SDRZProfile.velocity p t < SDRZProfile.velocity p s := by
  obtain ⟨hp, hr, hu, _, hl, hD, hρ⟩ := SDRZ.closed_form p s hs hγ h0 (by linarith)
  obtain ⟨hp', hr', hu', _, hl', _, _⟩ := SDRZ.closed_form p t ht hγ (by linarith) h1
  rw [hp, hr, hu, hl, hp', hr', hu', hl']
  have a1 : 0 < p.gamma + s - 1 := by linarith
  have a2 : 0 < p.gamma + t - 1 := by linarith
  have a3 : 0 < p.gamma + 1 := by linarith
  have k : 0 < p.rho_0 * p.D ^ 2 / (p.gamma + 1) := by positivity
  refine ⟨by nlinarith, by nlinarith, ?_, ?_⟩
  · rw [div_lt_div_iff₀ a2 a1]
    have : 0 < p.rho_0 * (p.gamma + 1) := by positivity
    nlinarith
  · rw [div_lt_div_iff_of_pos_right a3]
    nlinarith

/-- the state behind the reaction zone is the state at its end (t = 1): the CJ state -/
theorem sdrz_tail_is_cj (D gamma rho_0 t : ℝ) (hD : 0 < D) (hρ : 0 < rho_0) (hγ : 1 < gamma) (h1 : 1 ≤ t)
    (h : SDRZTail.outcome ⟨D, gamma, rho_0⟩ t = .ok) (h' : SDRZProfile.outcome ⟨D, gamma, rho_0⟩ 1 = .ok) :
    SDRZTail.pressure ⟨D, gamma, rho_0⟩ t = SDRZProfile.pressure ⟨D, gamma, rho_0⟩ 1 ∧
    SDRZTail.density ⟨D, gamma, rho_0⟩ t = SDRZProfile.density ⟨D, gamma, rho_0⟩ 1 ∧
    SDRZTail.velocity ⟨D, gamma, rho_0⟩ t = SDRZProfile.velocity ⟨D, gamma, rho_0⟩ 1 := by
  obtain ⟨hp, hr, hu, _, _, _, _⟩ := SDRZ.tail_closed_form ⟨D, gamma, rho_0⟩ t h hγ h1
  obtain ⟨hp', hr', hu', _, _, _, _⟩ := SDRZ.closed_form ⟨D, gamma, rho_0⟩ 1 h' hγ (by norm_num) le_rfl
  rw [hp, hr, hu, hp', hr', hu']
  refine ⟨by ring, by ring_nf, by ring⟩

example : ∃ (p : SDRZProfile.P) (s t : ℝ), SDRZProfile.outcome p s = .ok ∧ SDRZProfile.outcome p t = .ok ∧
    1 < p.gamma ∧ 0 ≤ s ∧ s < t ∧ t ≤ 1 := by
  refine ⟨⟨17/20, 3, 8/5⟩, 1/4, 1/2, ?_, ?_, by norm_num, by norm_num, by norm_num, by norm_num⟩ <;>
    (simp only [epv_tree, epv_cond]; norm_num)

end EPV.C17
