/-
C17 — elastic–plastic piston: every wave is compressive, ρ₂ > ρ_y > ρ₀.

* elastic precursor, `ρ_y > ρ₀`, per elasticity model:
  - hypo       `ρ_y = ρ₀ exp(Y / 2G)`             — for all G, Y, ρ₀ > 0 (`hypo_yield_compressive`);
  - hyperIfin  `ρ_y = ρ₀ / (1 - Y / 2G)`           — for Y < 2G (`ifin_yield_compressive`); the constructor
    does not check Y < 2G: for Y ≥ 2G the coded ρ_y is negative or infinite (see C20);
  - hyperFin   `ρ_y = ρ₀ / F`, F the fsolve root of `finite_yield` — for every positive root
    (`fin_yield_compressive`: `finite_yield(F) = 0 ∧ F > 0 ⇒ F < 1`, because
    F^(7/3) - F^(-5/3) + F^(-1) - F has the sign of F - 1);
* plastic wave, `ρ₂ > ρ_y` when `vel_y < up < wv_pl` (`*_plastic_compressive`): the piston is faster
  than the material behind the precursor and slower than the plastic wave.  The constructor does
  not check `up > vel_y`; for a weaker piston there is no plastic wave and the returned state is
  not a solution (reported under C20).
-/
import EPV.Lemmas.EPPiston
import EPV.Lemmas.EPPistonModels
import EPV.Lemmas.EPPistonExists
import EPV.Tactics
import EPV.Lemmas.Bridge.EPPiston

set_option linter.all false

open EPV EPV.Gen EPV.EPP

namespace EPV.C17

theorem hypo_yield_compressive (p : EPPistonHypo.P) (h : EPPistonHypo.outcome p = .ok) (hc : hypoConsistent p) :
    p.rho0 < p.rho_y := by
  obtain ⟨d, hry⟩ := EPP.hypo_doc p h hc
  have hG := d.G_pos
  have hY := d.Y_pos
  have hρ := d.rho0_pos
  rw [hry]
  have : 1 < Real.exp (p.Y / (2 * p.G)) := Real.one_lt_exp_iff.mpr (by positivity)
  nlinarith

theorem ifin_yield_compressive (p : EPPistonIfin.P) (h : EPPistonIfin.outcome p = .ok) (hc : ifinConsistent p)
    (hY : p.Y < 2 * p.G) : p.rho0 < p.rho_y := by
  obtain ⟨d, hry⟩ := EPP.ifin_doc p h hc
  have hG := d.G_pos
  have hY' := d.Y_pos
  have hρ := d.rho0_pos
  rw [hry]
  have h1 : 0 < 1 - p.Y / (2 * p.G) := by
    have : p.Y / (2 * p.G) < 1 := by rw [div_lt_one (by positivity)]; exact hY
    linarith
  have h2 : 1 - p.Y / (2 * p.G) < 1 := by
    have : 0 < p.Y / (2 * p.G) := by positivity
    linarith
  have : 1 < (1 - p.Y / (2 * p.G))⁻¹ := (one_lt_inv₀ h1).mpr h2
  nlinarith

/-- the residual of `finite_yield` is positive for every stretch F ≥ 1: its positive roots are < 1 -/
theorem epp_finite_yield_pos (G Y F : ℝ) (hG : 0 < G) (hY : 0 < Y) (hF : 1 ≤ F) :
    0 < 2 / 3 * Y + 2 / 3 * G * (F ^ ((7 : ℝ) / 3) - F ^ (-((5 : ℝ) / 3)) + F ^ (-1 : ℝ) - F) := by
  have h0 : 0 < F := by linarith
  have a : F ≤ F ^ ((7 : ℝ) / 3) := by
    calc F = F ^ (1 : ℝ) := (Real.rpow_one F).symm
      _ ≤ F ^ ((7 : ℝ) / 3) := Real.rpow_le_rpow_of_exponent_le hF (by norm_num)
  have b : F ^ (-((5 : ℝ) / 3)) ≤ F ^ (-1 : ℝ) := Real.rpow_le_rpow_of_exponent_le hF (by norm_num)
  have : 0 ≤ F ^ ((7 : ℝ) / 3) - F ^ (-((5 : ℝ) / 3)) + F ^ (-1 : ℝ) - F := by linarith
  have : 0 ≤ 2 / 3 * G * (F ^ ((7 : ℝ) / 3) - F ^ (-((5 : ℝ) / 3)) + F ^ (-1 : ℝ) - F) := by positivity
  linarith

theorem fin_yield_compressive (p : EPPistonFin.P) (h : EPPistonFin.outcome p = .ok) (hc : finConsistent p)
    (hres : EPPistonFin.yield_residual p = 0) (hF : 0 < p.F_y) : p.rho0 < p.rho_y := by
  obtain ⟨d, hry⟩ := EPP.fin_doc p h hc
  have hρ := d.rho0_pos
  rw [EPP.fin_yield_residual p h] at hres
  have hlt : p.F_y < 1 := by
    by_contra hge
    have := epp_finite_yield_pos p.G p.Y p.F_y d.G_pos d.Y_pos (not_lt.mp hge)
    linarith
  rw [hry, lt_div_iff₀ hF]
  nlinarith

theorem hypo_plastic_compressive (p : EPPistonHypo.P) (h : EPPistonHypo.outcome p = .ok) (hc : hypoConsistent p)
    (hρ : 0 < p.rho_y) (h1 : p.up < p.wv_pl) (h2 : p.vel_y < p.up) : p.rho_y < p.rho2 :=
  plastic_compressive hρ h1 h2 (EPP.hypo_doc p h hc).1.rho2_eq

theorem ifin_plastic_compressive (p : EPPistonIfin.P) (h : EPPistonIfin.outcome p = .ok) (hc : ifinConsistent p)
    (hρ : 0 < p.rho_y) (h1 : p.up < p.wv_pl) (h2 : p.vel_y < p.up) : p.rho_y < p.rho2 :=
  plastic_compressive hρ h1 h2 (EPP.ifin_doc p h hc).1.rho2_eq

theorem fin_plastic_compressive (p : EPPistonFin.P) (h : EPPistonFin.outcome p = .ok) (hc : finConsistent p)
    (hρ : 0 < p.rho_y) (h1 : p.up < p.wv_pl) (h2 : p.vel_y < p.up) : p.rho_y < p.rho2 :=
  plastic_compressive hρ h1 h2 (EPP.fin_doc p h hc).1.rho2_eq

/-- non-vacuity (default problem, model = 'hyperIfin') -/
example : ∃ p : EPPistonIfin.P, EPPistonIfin.outcome p = .ok ∧ ifinConsistent p ∧ p.Y < 2 * p.G ∧ 0 < p.rho_y ∧
    p.up < p.wv_pl ∧ p.vel_y < p.up :=
  ⟨ifinDefault, ifinDefault_ok.1, ifinDefault_ok.2, ifinDefault_hyps.2.2.2.2.2.2.1, ifinDefault_hyps.2.2.2.2.2.2.2.1,
    ifinDefault_hyps.2.2.2.2.2.2.2.2.1, ifinDefault_hyps.2.2.2.2.2.2.2.2.2⟩

end EPV.C17
