/-
C17 — admissibility of the 1-D ideal-gas Riemann solution.

* Each star-state residual is strictly monotone in p on (0, ∞): `SCS_call`, `RCS_call`
  increasing, `SCR_call`, `RCR_call` decreasing (derivative sign from the documented closed forms
  of `shock` and `rarefaction`); so the star pressure is unique.
* Each classification condition of the driver is the sign of a residual at `pl` or `pr`
  (`Riem.SCS_at_pr` …); hence, in the pattern the driver selects, the root `px` (atom:
  `X_call px = 0`) satisfies px ≥ p₀ behind every shock and px < p₀ behind every fan
  (`pattern_pressure_range`).
* Every shock is compressive: pressure and density rise in the direction the material crosses
  it (`shock_compressive`, `scs_compressive`, `scr_compressive`, `rcs_compressive`).
* Inside a rarefaction fan density, pressure and velocity are strictly monotone in x
  (`fan_monotone`, tree level, from the documented profiles; `fan_deriv_L*`: generated certificates of
  `rho_p_u_rarefaction`, their values pinned by uniqueness of the derivative), in the
  whole fan as the driver delimits it by `Vregs` (`left_fan_monotone_inside`,
  `right_fan_monotone_inside`: the similarity variable stays ≥ (px/p)^κ > 0 up to the tail).
-/
import EPV.Lemmas.RiemannMono
import EPV.Lemmas.RiemannOrder
import EPV.Gen.RiemFanD
import EPV.Lemmas.Bridge.RiemannTac

set_option linter.all false

open EPV EPV.Gen EPV.Model EPV.Spec.Riemann EPV.Riem

namespace EPV.C17.Riemann

/-- sign of the generated x-derivative of a fan profile `c · y^e`: opposite to the sign σ of the fan -/
theorem fan_dsign (σ : ℝ) (hσ : σ = 1 ∨ σ = -1) {c gm a gp t e Y Ye : ℝ} (hc : 0 < c) (hgm : 0 < gm) (ha : 0 < a)
    (hgp : 0 < gp) (ht : 0 < t) (he : 0 < e) (hY : 0 < Y) (hYe : 0 < Ye) :
    c * (σ * gm / a / gp * -(1 / t) * e * (Ye / Y)) * σ < 0 := by
  have pos : 0 < c * (gm / a / gp * (1 / t) * e * (Ye / Y)) := by positivity
  rcases hσ with rfl | rfl
  · have : c * (1 * gm / a / gp * -(1 / t) * e * (Ye / Y)) * 1 = -(c * (gm / a / gp * (1 / t) * e * (Ye / Y))) := by ring
    rw [this]; linarith
  · have : c * (-1 * gm / a / gp * -(1 / t) * e * (Ye / Y)) * -1 = -(c * (gm / a / gp * (1 / t) * e * (Ye / Y))) := by ring
    rw [this]; linarith

/-- the traced model has exactly the leaves covered below -/
theorem fan_leaves : RiemFan.okLeaves = [0, 1, 2, 3] := rfl

/-! ### the fan profiles in documented form, and their x-derivatives

Everything below is shape-independent (GUIDE §8): the derivatives are computed once for the *documented*
profiles `ρ y^{2/(γ-1)}`, `p y^{2γ/(γ-1)}`, `v` of `rho_p_u_rarefaction` (with the combinators `EPV.D.*` the
generated certificates are built from); the leaf theorems `fan_deriv_L*` take the HasDerivAt statement from
the GENERATED certificate (side conditions discharged up to `riem_deep`) and pin the *value* of the
regenerated derivative expression by uniqueness of the derivative — no algebra on its shape;
`fan_monotone` goes through the tree-level closed forms `fanRho_eq`, `fanP_eq`, `fanU_eq`. -/

/-- the similarity variable `y` of `rho_p_u_rarefaction` for the sign σ of the side detection -/
noncomputable def docY (σ p ρ u γ xd0 t x : ℝ) : ℝ :=
  2 / (γ + 1) + σ * (γ - 1) / Real.sqrt (γ * p / ρ) / (γ + 1) * (u - (x - xd0) / t)

theorem fan_doc_deriv (σ : ℝ) (hσ : σ = 1 ∨ σ = -1) {p ρ u γ xd0 x t : ℝ} (hp : 0 < p) (hρ : 0 < ρ) (hγ : 1 < γ)
    (ht : 0 < t) (hy : 0 < docY σ p ρ u γ xd0 t x) :
    (∃ d, HasDerivAt (fun x' => ρ * docY σ p ρ u γ xd0 t x' ^ (2 / (γ - 1))) d x ∧ d * σ < 0) ∧
    (∃ d, HasDerivAt (fun x' => p * docY σ p ρ u γ xd0 t x' ^ (2 * γ / (γ - 1))) d x ∧ d * σ < 0) ∧
    (∃ d, HasDerivAt (fun x' => 2 * (σ * Real.sqrt (γ * p / ρ) + (γ - 1) * u / 2 + (x' - xd0) / t) / (γ + 1)) d x
      ∧ 0 < d) := by
  have hgm : 0 < γ - 1 := by linarith
  have hgp : 0 < γ + 1 := by linarith
  have hg0 : 0 < γ := by linarith
  have ha : 0 < Real.sqrt (γ * p / ρ) := Real.sqrt_pos.mpr (by positivity)
  have hY : HasDerivAt (fun x' => docY σ p ρ u γ xd0 t x')
      (σ * (γ - 1) / Real.sqrt (γ * p / ρ) / (γ + 1) * -(1 / t)) x := by
    unfold docY
    exact EPV.D.const_add _ (EPV.D.const_mul _ (EPV.D.const_sub u
      (EPV.D.div_const (EPV.D.sub_const (hasDerivAt_id' x) xd0) t)))
  refine ⟨⟨_, EPV.D.const_mul ρ (EPV.D.rpow_const hY (2 / (γ - 1)) hy), ?_⟩,
    ⟨_, EPV.D.const_mul p (EPV.D.rpow_const hY (2 * γ / (γ - 1)) hy), ?_⟩,
    ⟨_, EPV.D.div_const (EPV.D.const_mul (2 : ℝ) (EPV.D.const_add (σ * Real.sqrt (γ * p / ρ) + (γ - 1) * u / 2)
      (EPV.D.div_const (EPV.D.sub_const (hasDerivAt_id' x) xd0) t))) (γ + 1), ?_⟩⟩
  · exact fan_dsign σ hσ hρ hgm ha hgp ht (by positivity) hy (Real.rpow_pos_of_pos hy _)
  · exact fan_dsign σ hσ hp hgm ha hgp ht (by positivity) hy (Real.rpow_pos_of_pos hy _)
  · positivity

/-- any three functions that equal the documented profiles, with ANY derivative values at x: the
values carry the documented signs (uniqueness of the derivative) -/
theorem fan_leaf_sign (σ : ℝ) (hσ : σ = 1 ∨ σ = -1) {p ρ u γ xd0 x t : ℝ} (hp : 0 < p) (hρ : 0 < ρ) (hγ : 1 < γ)
    (ht : 0 < t) (hy : 0 < docY σ p ρ u γ xd0 t x) {fρ fp fu : ℝ → ℝ} {dρ dp du : ℝ}
    (eρ : ∀ x', fρ x' = ρ * docY σ p ρ u γ xd0 t x' ^ (2 / (γ - 1)))
    (ep : ∀ x', fp x' = p * docY σ p ρ u γ xd0 t x' ^ (2 * γ / (γ - 1)))
    (eu : ∀ x', fu x' = 2 * (σ * Real.sqrt (γ * p / ρ) + (γ - 1) * u / 2 + (x' - xd0) / t) / (γ + 1))
    (cρ : HasDerivAt fρ dρ x) (cp : HasDerivAt fp dp x) (cu : HasDerivAt fu du x) :
    dρ * σ < 0 ∧ dp * σ < 0 ∧ 0 < du := by
  obtain ⟨⟨d1, h1, s1⟩, ⟨d2, h2, s2⟩, ⟨d3, h3, s3⟩⟩ := fan_doc_deriv σ hσ hp hρ hγ ht hy
  rw [show fρ = _ from funext eρ] at cρ
  rw [show fp = _ from funext ep] at cp
  rw [show fu = _ from funext eu] at cu
  rw [cρ.unique h1, cp.unique h2, cu.unique h3]
  exact ⟨s1, s2, s3⟩

/-- side conditions of a generated fan certificate: the positivity of the traced similarity variable is the
hypothesis `hy` up to `riem_deep`; anything else (a denominator) is positive -/
local macro "riem_fan_side" hy:term : tactic =>
  `(tactic| first
    | exact $hy
    | (refine lt_of_lt_of_eq $hy ?_; (try simp only [docY]) <;> riem_deep)
    | positivity
    | (apply ne_of_gt; positivity))

theorem fan_deriv_L0 (P : RiemFan.P) (x t : ℝ) (hp : 0 < P.pk) (hρ : 0 < P.rk) (hγ : 1 < P.gk) (ht : 0 < t)
    (hy : 0 < 2 / (P.gk + 1) + 1 * (P.gk - 1) / Real.sqrt (P.gk * P.pk / P.rk) / (P.gk + 1) * (P.uk - (x - P.xd0) / t)) :
    (HasDerivAt (fun x' => RiemFan.L0.density P x' t) (RiemFan.L0.density_dx P x t) x ∧
      RiemFan.L0.density_dx P x t * 1 < 0) ∧
    (HasDerivAt (fun x' => RiemFan.L0.pressure P x' t) (RiemFan.L0.pressure_dx P x t) x ∧
      RiemFan.L0.pressure_dx P x t * 1 < 0) ∧
    (HasDerivAt (fun x' => RiemFan.L0.velocity P x' t) (RiemFan.L0.velocity_dx P x t) x ∧
      0 < RiemFan.L0.velocity_dx P x t) := by
  have hgm : 0 < P.gk - 1 := by linarith
  have hgp : 0 < P.gk + 1 := by linarith
  have hg0 : 0 < P.gk := by linarith
  have ha : 0 < Real.sqrt (P.gk * P.pk / P.rk) := Real.sqrt_pos.mpr (by positivity)
  have cρ : HasDerivAt (fun x' => RiemFan.L0.density P x' t) (RiemFan.L0.density_dx P x t) x := by
    apply RiemFan.L0.density_hasDerivAt_x <;> riem_fan_side hy
  have cp : HasDerivAt (fun x' => RiemFan.L0.pressure P x' t) (RiemFan.L0.pressure_dx P x t) x := by
    apply RiemFan.L0.pressure_hasDerivAt_x <;> riem_fan_side hy
  have cu : HasDerivAt (fun x' => RiemFan.L0.velocity P x' t) (RiemFan.L0.velocity_dx P x t) x := by
    apply RiemFan.L0.velocity_hasDerivAt_x <;> riem_fan_side hy
  obtain ⟨s1, s2, s3⟩ := fan_leaf_sign (1) (Or.inl rfl) hp hρ hγ ht hy
    (fun x' => by simp only [docY, epv_leaf] <;> riem_deep) (fun x' => by simp only [docY, epv_leaf] <;> riem_deep)
    (fun x' => by simp only [epv_leaf] <;> riem_deep) cρ cp cu
  exact ⟨⟨cρ, s1⟩, ⟨cp, s2⟩, ⟨cu, s3⟩⟩

theorem fan_deriv_L1 (P : RiemFan.P) (x t : ℝ) (hp : 0 < P.pk) (hρ : 0 < P.rk) (hγ : 1 < P.gk) (ht : 0 < t)
    (hy : 0 < 2 / (P.gk + 1) + -1 * (P.gk - 1) / Real.sqrt (P.gk * P.pk / P.rk) / (P.gk + 1) * (P.uk - (x - P.xd0) / t)) :
    (HasDerivAt (fun x' => RiemFan.L1.density P x' t) (RiemFan.L1.density_dx P x t) x ∧
      RiemFan.L1.density_dx P x t * -1 < 0) ∧
    (HasDerivAt (fun x' => RiemFan.L1.pressure P x' t) (RiemFan.L1.pressure_dx P x t) x ∧
      RiemFan.L1.pressure_dx P x t * -1 < 0) ∧
    (HasDerivAt (fun x' => RiemFan.L1.velocity P x' t) (RiemFan.L1.velocity_dx P x t) x ∧
      0 < RiemFan.L1.velocity_dx P x t) := by
  have hgm : 0 < P.gk - 1 := by linarith
  have hgp : 0 < P.gk + 1 := by linarith
  have hg0 : 0 < P.gk := by linarith
  have ha : 0 < Real.sqrt (P.gk * P.pk / P.rk) := Real.sqrt_pos.mpr (by positivity)
  have cρ : HasDerivAt (fun x' => RiemFan.L1.density P x' t) (RiemFan.L1.density_dx P x t) x := by
    apply RiemFan.L1.density_hasDerivAt_x <;> riem_fan_side hy
  have cp : HasDerivAt (fun x' => RiemFan.L1.pressure P x' t) (RiemFan.L1.pressure_dx P x t) x := by
    apply RiemFan.L1.pressure_hasDerivAt_x <;> riem_fan_side hy
  have cu : HasDerivAt (fun x' => RiemFan.L1.velocity P x' t) (RiemFan.L1.velocity_dx P x t) x := by
    apply RiemFan.L1.velocity_hasDerivAt_x <;> riem_fan_side hy
  obtain ⟨s1, s2, s3⟩ := fan_leaf_sign (-1) (Or.inr rfl) hp hρ hγ ht hy
    (fun x' => by simp only [docY, epv_leaf] <;> riem_deep) (fun x' => by simp only [docY, epv_leaf] <;> riem_deep)
    (fun x' => by simp only [epv_leaf] <;> riem_deep) cρ cp cu
  exact ⟨⟨cρ, s1⟩, ⟨cp, s2⟩, ⟨cu, s3⟩⟩

theorem fan_deriv_L2 (P : RiemFan.P) (x t : ℝ) (hp : 0 < P.pk) (hρ : 0 < P.rk) (hγ : 1 < P.gk) (ht : 0 < t)
    (hy : 0 < 2 / (P.gk + 1) + -1 * (P.gk - 1) / Real.sqrt (P.gk * P.pk / P.rk) / (P.gk + 1) * (P.uk - (x - P.xd0) / t)) :
    (HasDerivAt (fun x' => RiemFan.L2.density P x' t) (RiemFan.L2.density_dx P x t) x ∧
      RiemFan.L2.density_dx P x t * -1 < 0) ∧
    (HasDerivAt (fun x' => RiemFan.L2.pressure P x' t) (RiemFan.L2.pressure_dx P x t) x ∧
      RiemFan.L2.pressure_dx P x t * -1 < 0) ∧
    (HasDerivAt (fun x' => RiemFan.L2.velocity P x' t) (RiemFan.L2.velocity_dx P x t) x ∧
      0 < RiemFan.L2.velocity_dx P x t) := by
  have hgm : 0 < P.gk - 1 := by linarith
  have hgp : 0 < P.gk + 1 := by linarith
  have hg0 : 0 < P.gk := by linarith
  have ha : 0 < Real.sqrt (P.gk * P.pk / P.rk) := Real.sqrt_pos.mpr (by positivity)
  have cρ : HasDerivAt (fun x' => RiemFan.L2.density P x' t) (RiemFan.L2.density_dx P x t) x := by
    apply RiemFan.L2.density_hasDerivAt_x <;> riem_fan_side hy
  have cp : HasDerivAt (fun x' => RiemFan.L2.pressure P x' t) (RiemFan.L2.pressure_dx P x t) x := by
    apply RiemFan.L2.pressure_hasDerivAt_x <;> riem_fan_side hy
  have cu : HasDerivAt (fun x' => RiemFan.L2.velocity P x' t) (RiemFan.L2.velocity_dx P x t) x := by
    apply RiemFan.L2.velocity_hasDerivAt_x <;> riem_fan_side hy
  obtain ⟨s1, s2, s3⟩ := fan_leaf_sign (-1) (Or.inr rfl) hp hρ hγ ht hy
    (fun x' => by simp only [docY, epv_leaf] <;> riem_deep) (fun x' => by simp only [docY, epv_leaf] <;> riem_deep)
    (fun x' => by simp only [epv_leaf] <;> riem_deep) cρ cp cu
  exact ⟨⟨cρ, s1⟩, ⟨cp, s2⟩, ⟨cu, s3⟩⟩

theorem fan_deriv_L3 (P : RiemFan.P) (x t : ℝ) (hp : 0 < P.pk) (hρ : 0 < P.rk) (hγ : 1 < P.gk) (ht : 0 < t)
    (hy : 0 < 2 / (P.gk + 1) + -1 * (P.gk - 1) / Real.sqrt (P.gk * P.pk / P.rk) / (P.gk + 1) * (P.uk - (x - P.xd0) / t)) :
    (HasDerivAt (fun x' => RiemFan.L3.density P x' t) (RiemFan.L3.density_dx P x t) x ∧
      RiemFan.L3.density_dx P x t * -1 < 0) ∧
    (HasDerivAt (fun x' => RiemFan.L3.pressure P x' t) (RiemFan.L3.pressure_dx P x t) x ∧
      RiemFan.L3.pressure_dx P x t * -1 < 0) ∧
    (HasDerivAt (fun x' => RiemFan.L3.velocity P x' t) (RiemFan.L3.velocity_dx P x t) x ∧
      0 < RiemFan.L3.velocity_dx P x t) := by
  have hgm : 0 < P.gk - 1 := by linarith
  have hgp : 0 < P.gk + 1 := by linarith
  have hg0 : 0 < P.gk := by linarith
  have ha : 0 < Real.sqrt (P.gk * P.pk / P.rk) := Real.sqrt_pos.mpr (by positivity)
  have cρ : HasDerivAt (fun x' => RiemFan.L3.density P x' t) (RiemFan.L3.density_dx P x t) x := by
    apply RiemFan.L3.density_hasDerivAt_x <;> riem_fan_side hy
  have cp : HasDerivAt (fun x' => RiemFan.L3.pressure P x' t) (RiemFan.L3.pressure_dx P x t) x := by
    apply RiemFan.L3.pressure_hasDerivAt_x <;> riem_fan_side hy
  have cu : HasDerivAt (fun x' => RiemFan.L3.velocity P x' t) (RiemFan.L3.velocity_dx P x t) x := by
    apply RiemFan.L3.velocity_hasDerivAt_x <;> riem_fan_side hy
  obtain ⟨s1, s2, s3⟩ := fan_leaf_sign (-1) (Or.inr rfl) hp hρ hγ ht hy
    (fun x' => by simp only [docY, epv_leaf] <;> riem_deep) (fun x' => by simp only [docY, epv_leaf] <;> riem_deep)
    (fun x' => by simp only [epv_leaf] <;> riem_deep) cρ cp cu
  exact ⟨⟨cρ, s1⟩, ⟨cp, s2⟩, ⟨cu, s3⟩⟩

/-- C17, fans: inside a rarefaction fan (where the similarity variable `y` is positive) density and
pressure are strictly monotone in x — decreasing in a left fan (sign +1), increasing in a right
fan (sign -1) — and the velocity is strictly increasing; derivatives from the generated
certificates of `rho_p_u_rarefaction` -/
theorem fan_monotone (q : Prob) {p ρ u γ xd0 x t : ℝ} (hp : 0 < p) (hρ : 0 < ρ) (hγ : 1 < γ) (ht : 0 < t)
    (hy : 0 < fanY q p ρ u γ xd0 x t) :
    ∃ dρ dp du, HasDerivAt (fun x' => fanRho q p ρ u γ xd0 x' t) dρ x ∧ dρ * fanSgn q p ρ u < 0 ∧
      HasDerivAt (fun x' => fanP q p ρ u γ xd0 x' t) dp x ∧ dp * fanSgn q p ρ u < 0 ∧
      HasDerivAt (fun x' => fanU q p ρ u γ xd0 x' t) du x ∧ 0 < du := by
  -- tree level: the closed forms `fanRho_eq`, `fanP_eq`, `fanU_eq` hold on every leaf of the side detection
  have hy' : 0 < docY (fanSgn q p ρ u) p ρ u γ xd0 t x := hy
  obtain ⟨⟨d1, h1, s1⟩, ⟨d2, h2, s2⟩, ⟨d3, h3, s3⟩⟩ := fan_doc_deriv _ (fanSgn_sq q p ρ u) hp hρ hγ ht hy'
  have e1 : (fun x' => fanRho q p ρ u γ xd0 x' t)
      = fun x' => ρ * docY (fanSgn q p ρ u) p ρ u γ xd0 t x' ^ (2 / (γ - 1)) := by
    funext x'; rw [fanRho_eq]; rfl
  have e2 : (fun x' => fanP q p ρ u γ xd0 x' t)
      = fun x' => p * docY (fanSgn q p ρ u) p ρ u γ xd0 t x' ^ (2 * γ / (γ - 1)) := by
    funext x'; rw [fanP_eq]; rfl
  have e3 : (fun x' => fanU q p ρ u γ xd0 x' t)
      = fun x' => 2 * (fanSgn q p ρ u * Real.sqrt (γ * p / ρ) + (γ - 1) * u / 2 + (x' - xd0) / t) / (γ + 1) := by
    funext x'; rw [fanU_eq]
  rw [e1, e2, e3]
  exact ⟨d1, d2, d3, h1, s1, h2, s2, h3, s3⟩

/-! ### the residuals are strictly monotone -/

/-- derivative of each residual (certificates): positive for SCS, RCS; negative for SCR, RCR -/
theorem xcall_deriv_sign (q : Prob) (hq : q.Admissible) {px : ℝ} (hpx : 0 < px) :
    (∃ d, HasDerivAt (fun x => SCS q x) d px ∧ 0 < d) ∧ (∃ d, HasDerivAt (fun x => RCS q x) d px ∧ 0 < d) ∧
    (∃ d, HasDerivAt (fun x => SCR q x) d px ∧ d < 0) ∧ (∃ d, HasDerivAt (fun x => RCR q x) d px ∧ d < 0) :=
  ⟨SCS_hasDerivAt q hq hpx, RCS_hasDerivAt q hq hpx, SCR_hasDerivAt q hq hpx, RCR_hasDerivAt q hq hpx⟩

theorem xcall_strict_monotone (q : Prob) (hq : q.Admissible) :
    StrictMonoOn (fun x => SCS q x) (Set.Ioi 0) ∧ StrictMonoOn (fun x => RCS q x) (Set.Ioi 0) ∧
    StrictAntiOn (fun x => SCR q x) (Set.Ioi 0) ∧ StrictAntiOn (fun x => RCR q x) (Set.Ioi 0) :=
  ⟨SCS_strictMono q hq, RCS_strictMono q hq, SCR_strictAnti q hq, RCR_strictAnti q hq⟩

/-- the star pressure is unique: two positive roots of the same residual coincide -/
theorem root_unique (q : Prob) (hq : q.Admissible) {a b : ℝ} (ha : 0 < a) (hb : 0 < b) :
    (SCS q a = 0 → SCS q b = 0 → a = b) ∧ (RCS q a = 0 → RCS q b = 0 → a = b) ∧
    (SCR q a = 0 → SCR q b = 0 → a = b) ∧ (RCR q a = 0 → RCR q b = 0 → a = b) := by
  obtain ⟨m1, m2, m3, m4⟩ := xcall_strict_monotone q hq
  refine ⟨fun h1 h2 => ?_, fun h1 h2 => ?_, fun h1 h2 => ?_, fun h1 h2 => ?_⟩
  · exact m1.injOn ha hb (by show SCS q a = SCS q b; rw [h1, h2])
  · exact m2.injOn ha hb (by show RCS q a = RCS q b; rw [h1, h2])
  · exact m3.injOn ha hb (by show SCR q a = SCR q b; rw [h1, h2])
  · exact m4.injOn ha hb (by show RCR q a = RCR q b; rw [h1, h2])

/-! ### pressure range of the root in the pattern the driver selects -/

/-- in the pattern chosen by the driver's classification, the root of that pattern's residual lies
above the initial pressure on every side that carries a shock and below it on every side that
carries a fan -/
theorem pattern_pressure_range (q : Prob) (hq : q.Admissible) {px : ℝ} (hpx : 0 < px) :
    (RiemannIG.classify (toData q) = .SCS → SCS q px = 0 → q.pl ≤ px ∧ q.pr ≤ px) ∧
    (RiemannIG.classify (toData q) = .SCR → SCR q px = 0 → q.pl ≤ px ∧ px < q.pr) ∧
    (RiemannIG.classify (toData q) = .RCS → RCS q px = 0 → px < q.pl ∧ q.pr ≤ px) ∧
    (RiemannIG.classify (toData q) = .RCR → RCR q px = 0 → px < q.pl ∧ px < q.pr) := by
  rw [classify_eq]
  refine ⟨fun hc h0 => ?_, fun hc h0 => ?_, fun hc h0 => ?_, fun hc h0 => ?_⟩
  · exact scs_range q hq hpx h0 (chain_SCS hc)
  · exact scr_range q hq hpx h0 (chain_SCR hc)
  · exact (rcs_range q hq hpx h0 (chain_RCS hc)).symm
  · exact rcr_range q hq hpx h0 (chain_RCR hc)

/-! ### compressive shocks -/

/-- a shock to a higher pressure raises the density (γ > 1) -/
theorem shock_compressive {px p ρ γ : ℝ} (hp : 0 < p) (hρ : 0 < ρ) (hγ : 1 < γ) (hpx : 0 < px) :
    (p < px → ρ < rhoShock px p ρ γ) ∧ (p ≤ px → ρ ≤ rhoShock px p ρ γ) := by
  have hD : 0 < px * (γ - 1) + p * (γ + 1) := by nlinarith
  rw [rhoShock_eq]
  constructor
  · intro h; rw [lt_div_iff₀ hD]; nlinarith
  · intro h; rw [le_div_iff₀ hD]; nlinarith

/-- the gas ahead of each shock moves INTO it: Vsl < ul on the left, ur < Vsr on the right -/
theorem shock_direction (q : Prob) (hq : q.Admissible) (hd : q.Distinct) {px : ℝ} (hpx : 0 < px) :
    shockVel q px q.pl q.rl q.ul q.gl < q.ul ∧ q.ur < shockVel q px q.pr q.rr q.ur q.gr := by
  obtain ⟨hpl, hrl, hgl, hpr, hrr, hgr⟩ := id hq
  rw [shockVel_left_mflux q hq hpx.le, shockVel_right_mflux q hq hd hpx.le]
  have m1 := mflux_pos hrl (NN_pos hpl hgl hpx.le)
  have m2 := mflux_pos hrr (NN_pos hpr hgr hpx.le)
  have : 0 < mflux px q.pl q.rl q.gl / q.rl := by positivity
  have : 0 < mflux px q.pr q.rr q.gr / q.rr := by positivity
  constructor <;> linarith

/-- SCS: both shocks are compressive — the material crossing the left shock (from the left) and
the right shock (from the right) ends at the higher pressure px and at a higher density -/
theorem scs_compressive (q : Prob) (hq : q.Admissible) {px : ℝ} (hpx : 0 < px)
    (hc : RiemannIG.classify (toData q) = .SCS) (h0 : SCS q px = 0) :
    (q.pl ≤ px ∧ q.rl ≤ rhoShock px q.pl q.rl q.gl) ∧ (q.pr ≤ px ∧ q.rr ≤ rhoShock px q.pr q.rr q.gr) := by
  obtain ⟨hpl, hrl, hgl, hpr, hrr, hgr⟩ := id hq
  obtain ⟨h1, h2⟩ := (pattern_pressure_range q hq hpx).1 hc h0
  exact ⟨⟨h1, (shock_compressive hpl hrl hgl hpx).2 h1⟩, ⟨h2, (shock_compressive hpr hrr hgr hpx).2 h2⟩⟩

/-- SCR: the left shock is compressive, the right wave is an expansion -/
theorem scr_compressive (q : Prob) (hq : q.Admissible) {px : ℝ} (hpx : 0 < px)
    (hc : RiemannIG.classify (toData q) = .SCR) (h0 : SCR q px = 0) :
    (q.pl ≤ px ∧ q.rl ≤ rhoShock px q.pl q.rl q.gl) ∧ px < q.pr := by
  obtain ⟨hpl, hrl, hgl, hpr, hrr, hgr⟩ := id hq
  obtain ⟨h1, h2⟩ := (pattern_pressure_range q hq hpx).2.1 hc h0
  exact ⟨⟨h1, (shock_compressive hpl hrl hgl hpx).2 h1⟩, h2⟩

/-- RCS: the right shock is compressive, the left wave is an expansion -/
theorem rcs_compressive (q : Prob) (hq : q.Admissible) {px : ℝ} (hpx : 0 < px)
    (hc : RiemannIG.classify (toData q) = .RCS) (h0 : RCS q px = 0) :
    px < q.pl ∧ (q.pr ≤ px ∧ q.rr ≤ rhoShock px q.pr q.rr q.gr) := by
  obtain ⟨hpl, hrl, hgl, hpr, hrr, hgr⟩ := id hq
  obtain ⟨h1, h2⟩ := (pattern_pressure_range q hq hpx).2.2.1 hc h0
  exact ⟨h1, ⟨h2, (shock_compressive hpr hrr hgr hpx).2 h2⟩⟩

/-- a fan to a lower pressure lowers the density -/
theorem fan_expansive {px p ρ γ : ℝ} (hp : 0 < p) (hρ : 0 < ρ) (hγ : 1 < γ) (hpx : 0 < px) (h : px < p) :
    rhoRare px p ρ γ < ρ := by
  rw [rhoRare_eq]
  have hz : px / p < 1 := (div_lt_one hp).mpr h
  have : (px / p) ^ (1 / γ) < 1 := Real.rpow_lt_one (by positivity) hz (by positivity)
  nlinarith

/-! ### the whole interior of a fan -/

/-- between its head and its tail (speed u ∓ (rarefaction(px,…) - c*), the `Vregs` entry of the
driver) the similarity variable of a fan stays at or above (px/p)^((γ-1)/(2γ)) > 0: the fan formulas
are evaluated on their domain and `fan_monotone` applies in the whole fan -/
theorem fanY_inside (q : Prob) {p ρ u γ px xd0 x t : ℝ} (hp : 0 < p) (hρ : 0 < ρ) (hγ : 1 < γ) (hpx : 0 < px)
    (h : fanSgn q p ρ u * ((x - xd0) / t)
          ≤ fanSgn q p ρ u * u + rare px p ρ 0 γ - sound px (rhoRare px p ρ γ) γ) :
    (px / p) ^ ((γ - 1) / 2 / γ) ≤ fanY q p ρ u γ xd0 x t ∧ 0 < (px / p) ^ ((γ - 1) / 2 / γ) := by
  have hA : 0 < (px / p) ^ ((γ - 1) / 2 / γ) := Real.rpow_pos_of_pos (by positivity) _
  refine ⟨?_, hA⟩
  have ha := sound_pos hp hρ (by linarith : 0 < γ)
  rw [sound_on_isentrope hp hρ hγ hpx, rare_eq, ← sound_eq] at h
  unfold fanY; rw [← sound_eq]
  generalize (px / p) ^ ((γ - 1) / 2 / γ) = A at *
  generalize sound p ρ γ = a at *
  generalize (x - xd0) / t = ξ at *
  have hg1 : 0 < γ - 1 := by linarith
  have hg2 : 0 < γ + 1 := by linarith
  have key : ∀ σ : ℝ, (σ = 1 ∨ σ = -1) → σ * ξ ≤ σ * u + (2 * a / (γ - 1) * (1 - A) + 0) - a * A →
      A ≤ 2 / (γ + 1) + σ * (γ - 1) / a / (γ + 1) * (u - ξ) := by
    intro σ hσ h
    have e : 2 / (γ + 1) + σ * (γ - 1) / a / (γ + 1) * (u - ξ)
        = A + (γ - 1) / (a * (γ + 1)) * ((σ * u + (2 * a / (γ - 1) * (1 - A) + 0) - a * A) - σ * ξ) := by
      field_simp; ring
    rw [e]
    have : 0 ≤ (γ - 1) / (a * (γ + 1)) * ((σ * u + (2 * a / (γ - 1) * (1 - A) + 0) - a * A) - σ * ξ) := by
      apply mul_nonneg (by positivity); linarith
    linarith
  exact key _ (fanSgn_sq q p ρ u) h

/-- what `fan_monotone` gives for one fan -/
def FanMonotoneAt (q : Prob) (p ρ u γ xd0 x t : ℝ) : Prop :=
  ∃ dρ dp du, HasDerivAt (fun x' => fanRho q p ρ u γ xd0 x' t) dρ x ∧ dρ * fanSgn q p ρ u < 0 ∧
    HasDerivAt (fun x' => fanP q p ρ u γ xd0 x' t) dp x ∧ dp * fanSgn q p ρ u < 0 ∧
    HasDerivAt (fun x' => fanU q p ρ u γ xd0 x' t) du x ∧ 0 < du

/-- C17: inside the LEFT fan of the patterns RCS and RCR — from anywhere left of its tail
`Xregs[1] = xd0 + t (ux - ax1)` — density and pressure strictly decrease and the velocity strictly
increases with x -/
theorem left_fan_monotone_inside (q : Prob) (hq : q.Admissible) {px xd0 x t : ℝ} (hpx : 0 < px) (ht : 0 < t)
    (hx : x ≤ xd0 + t * (uxF q px - sound px (rhoRare px q.pl q.rl q.gl) q.gl)) :
    fanSgn q q.pl q.rl q.ul = 1 ∧ FanMonotoneAt q q.pl q.rl q.ul q.gl xd0 x t := by
  obtain ⟨hpl, hrl, hgl, -, -, -⟩ := id hq
  refine ⟨fanSgn_left q, ?_⟩
  have h : fanSgn q q.pl q.rl q.ul * ((x - xd0) / t)
      ≤ fanSgn q q.pl q.rl q.ul * q.ul + rare px q.pl q.rl 0 q.gl - sound px (rhoRare px q.pl q.rl q.gl) q.gl := by
    rw [fanSgn_left, one_mul, one_mul, div_le_iff₀ ht]
    unfold uxF at hx; linarith
  obtain ⟨h1, h2⟩ := fanY_inside q hpl hrl hgl hpx h
  exact fan_monotone q hpl hrl hgl ht (lt_of_lt_of_le h2 h1)

/-- C17: inside the RIGHT fan of the patterns SCR and RCR — from its tail `xd0 + t (ux + ax2)` on —
density, pressure and velocity strictly increase with x; `ux` is the star velocity the driver
computes from the left wave, equal to ur - rarefaction(px, pr, …) by the atom hypothesis -/
theorem right_fan_monotone_inside (q : Prob) (hq : q.Admissible) (hd : q.Distinct) {px xd0 x t ux : ℝ}
    (hpx : 0 < px) (ht : 0 < t) (hux : ux = q.ur + -1 * rare px q.pr q.rr 0 q.gr)
    (hx : xd0 + t * (ux + sound px (rhoRare px q.pr q.rr q.gr) q.gr) ≤ x) :
    fanSgn q q.pr q.rr q.ur = -1 ∧ FanMonotoneAt q q.pr q.rr q.ur q.gr xd0 x t := by
  obtain ⟨-, -, -, hpr, hrr, hgr⟩ := id hq
  refine ⟨fanSgn_right q hd, ?_⟩
  have h : fanSgn q q.pr q.rr q.ur * ((x - xd0) / t)
      ≤ fanSgn q q.pr q.rr q.ur * q.ur + rare px q.pr q.rr 0 q.gr - sound px (rhoRare px q.pr q.rr q.gr) q.gr := by
    rw [fanSgn_right q hd]
    have : ux + sound px (rhoRare px q.pr q.rr q.gr) q.gr ≤ (x - xd0) / t := by
      rw [le_div_iff₀ ht]; linarith
    rw [hux] at this; linarith
  obtain ⟨h1, h2⟩ := fanY_inside q hpr hrr hgr hpx h
  exact fan_monotone q hpr hrr hgr ht (lt_of_lt_of_le h2 h1)

/-- the star velocity of the patterns with a right fan satisfies the hypothesis `hux` above -/
theorem right_fan_ux (q : Prob) (px : ℝ) :
    (SCR q px = 0 → uxS q px = q.ur + -1 * rare px q.pr q.rr 0 q.gr) ∧
    (RCR q px = 0 → uxF q px = q.ur + -1 * rare px q.pr q.rr 0 q.gr) :=
  ⟨fun h => Riem.scr_ux q px h, fun h => Riem.rcr_ux q px h⟩

/-- non-vacuity: Sod data, a positive pressure -/
example : sod.Admissible ∧ sod.Distinct ∧ (0 : ℝ) < 3 / 10 := ⟨sod_admissible.1, sod_admissible.2, by norm_num⟩

end EPV.C17.Riemann
