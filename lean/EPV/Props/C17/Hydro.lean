/-
C17 — admissibility of the closed-form hydro solvers.

"Returned densities are positive (or exactly zero in a documented vacuum), pressures,
internal energies and temperatures are non-negative and sound speeds real; every shock is
compressive (pressure and density rise in the direction the material crosses it)."

Stated on the tree-level generated definitions (every leaf of the traced decision tree), under
explicit admissibility hypotheses.  The ExactPack documentation only names the coefficients
("density coefficient", "temperature coefficient", "Grüneisen gas parameter", "specific heat
ratio"); the hypotheses below are the physical reading of these names — ρ₀ > 0, T₀ ≥ 0, Γ > 0,
γ > 1 where γ is a free parameter, r > 0 — plus, where the sign of the coded temperature amplitude
depends on further parameters, exactly the sign condition needed (b + 2 > 0, α < 0 …), spelled out
in each statement.  The time domain (t > 0 for the similarity solutions, t < 1 for Noh2) is taken
from `outcome = ok`, i.e. from the code's own domain test.

Shocks: for Noh and Cog19 the material enters the shock from outside (u - D < 0) and density and
pressure are larger behind it: compressive.

FALSE on the current code (`finding_…`, in the modules FindingCog21 / FindingCog17 / FindingGammaBelowOne,
so that a repair of one defect breaks only its own module):
  * Cog21  — for t > 0 (the only times the solver accepts) the material crosses the shock from
             the dense hot side to the cold side: an expansion shock.
  * Cog17  — the temperature is ≤ 0 on the whole range α ∈ [-2,-1], β ∈ [1,3] its own warnings
             call valid.
  * Cog3, Cog4, Cog5, Cog12 — their γ is < 1 (prescribed, or required for T > 0 as the docstrings say),
             so the returned specific internal energy e = Γ T/(γ-1) is negative whenever T > 0.
-/
import EPV.Gen.Noh
import EPV.Lemmas.Bridge.Noh
import EPV.Gen.Noh2
import EPV.Gen.Noh2Cog
import EPV.Gen.Cog1
import EPV.Gen.Cog2
import EPV.Gen.Cog6
import EPV.Gen.Cog8
import EPV.Gen.Cog9
import EPV.Gen.Cog10
import EPV.Gen.Cog11
import EPV.Gen.Cog18
import EPV.Gen.Cog19
import EPV.Gen.Cog21
import EPV.Lemmas.HydroTactics
import EPV.Lemmas.Bridge.Cog19
import EPV.Lemmas.Bridge.Cog9
import EPV.Lemmas.Bridge.Cog18

set_option linter.all false

open EPV EPV.Gen

namespace EPV.C17

/-! ### Noh -/

/-- Noh on its admissible domain (γ > 1, ρ₀ > 0, u₀ < 0, r > 0, t ≥ 0): ρ > 0, p ≥ 0, e ≥ 0 -/
theorem noh_admissible (p : Noh.P) (r t : ℝ) (hγ : 1 < p.gamma) (hρ : 0 < p.rho0) (hu : p.u0 < 0)
    (hr : 0 < r) (ht : 0 ≤ t) :
    0 < Noh.density p r t ∧ 0 ≤ Noh.pressure p r t ∧ 0 ≤ Noh.specific_internal_energy p r t := by
  have hg : 0 < p.gamma - 1 := by linarith
  refine ⟨?_, ?_, ?_⟩ <;> epv_positivity

/-- the sound speed is real: c² = γ p / ρ ≥ 0 -/
theorem noh_sound_speed_real (p : Noh.P) (r t : ℝ) (hγ : 1 < p.gamma) (hρ : 0 < p.rho0) (hu : p.u0 < 0)
    (hr : 0 < r) (ht : 0 ≤ t) : 0 ≤ p.gamma * Noh.pressure p r t / Noh.density p r t := by
  obtain ⟨h1, h2, _⟩ := noh_admissible p r t hγ hρ hu hr ht
  have : 0 < p.gamma := by linarith
  positivity

example : ∃ (p : Noh.P) (r t : ℝ), 1 < p.gamma ∧ 0 < p.rho0 ∧ p.u0 < 0 ∧ 0 < r ∧ 0 ≤ t :=
  ⟨⟨5 / 3, 3, 1, -1⟩, 1, 1, by norm_num, by norm_num, by norm_num, by norm_num, by norm_num⟩

/-- the shock position `abs(u0) * t * (gamma - 1) / 2` of `Noh._run` -/
noncomputable def nohShock (p : Noh.P) (t : ℝ) : ℝ := |p.u0| * t * (p.gamma - 1) / 2

/-- `nohShock` is the position the traced tree branches on -/
theorem noh_shock_is_coded (p : Noh.P) (r t : ℝ) : Noh.leaf p r t = 0 ↔ r < nohShock p t := by
  rw [EPV.Bridge.noh_leaf_zero_iff, EPV.Bridge.noh_c0_iff, nohShock]

/-- the shock moves outward with speed D = |u₀| (γ-1)/2 -/
theorem noh_shock_speed (p : Noh.P) (t : ℝ) :
    HasDerivAt (nohShock p) (|p.u0| * (p.gamma - 1) / 2) t := by
  have h := ((hasDerivAt_id t).const_mul |p.u0|).mul_const ((p.gamma - 1) / 2)
  have e : nohShock p = fun y => |p.u0| * id y * ((p.gamma - 1) / 2) := by
    funext y; simp only [nohShock, id]; ring
  rw [e]
  exact h.congr_deriv (by ring)

/-- **Noh's shock is compressive**: the gas ahead of the shock (r ≥ R) moves inward through it
(u - D < 0), and at every point r behind it density and pressure exceed their values just ahead of
the shock; the density ratio is ((γ+1)/(γ-1))^1 > 1. -/
theorem noh_shock_compressive (p : Noh.P) (r t : ℝ) (hγ : 1 < p.gamma) (hρ : 0 < p.rho0) (hu : p.u0 < 0)
    (ht : 0 < t) (hr : r < nohShock p t) :
    Noh.velocity p (nohShock p t) t - |p.u0| * (p.gamma - 1) / 2 < 0 ∧
    Noh.density p r t = (p.gamma + 1) / (p.gamma - 1) * Noh.density p (nohShock p t) t ∧
    Noh.density p (nohShock p t) t < Noh.density p r t ∧
    Noh.pressure p (nohShock p t) t < Noh.pressure p r t := by
  have hg : 0 < p.gamma - 1 := by linarith
  have hau : 0 < |p.u0| := abs_pos.mpr hu.ne
  have hs : 0 < nohShock p t := by unfold nohShock; positivity
  have hB : 1 < (p.gamma + 1) / (p.gamma - 1) := by rw [lt_div_iff₀ hg]; linarith
  have hB0 : 0 < (p.gamma + 1) / (p.gamma - 1) := by linarith
  have hbase : 1 + |p.u0| * t / nohShock p t = (p.gamma + 1) / (p.gamma - 1) := by
    unfold nohShock; field_simp; ring
  have hns : nohShock p t = |p.u0| * t * (p.gamma - 1) / 2 := rfl
  -- the branch is selected with the documented condition, the leaves enter through their documented closed forms
  have hc_in : Noh.c0 p r t := (EPV.Bridge.noh_c0_iff p r t).2 (by rw [hns] at hr; exact hr)
  have hc_out : ¬ Noh.c0 p (nohShock p t) t := (EPV.Bridge.noh_not_c0_iff p (nohShock p t) t).2 (by rw [hns])
  have hin : Noh.density p r t = p.rho0 * ((p.gamma + 1) / (p.gamma - 1)) ^ p.geometry := by
    simp only [epv_tree, if_pos hc_in, EPV.Bridge.noh_L0_density]
  have hout : Noh.density p (nohShock p t) t = p.rho0 * ((p.gamma + 1) / (p.gamma - 1)) ^ (p.geometry - 1) := by
    simp only [epv_tree, if_neg hc_out, EPV.Bridge.noh_L1_density p _ t hs.ne']; rw [hbase]
  have hpin : Noh.pressure p r t
      = (p.gamma - 1) * p.rho0 * ((p.gamma + 1) / (p.gamma - 1)) ^ p.geometry * p.u0 ^ 2 / 2 := by
    simp only [epv_tree, if_pos hc_in, EPV.Bridge.noh_L0_pressure]
  have hpout : Noh.pressure p (nohShock p t) t = 0 := by
    simp only [epv_tree, if_neg hc_out, EPV.Bridge.noh_L1_pressure]
  have hvout : Noh.velocity p (nohShock p t) t = p.u0 := by
    simp only [epv_tree, if_neg hc_out, EPV.Bridge.noh_L1_velocity]
  have hpow : ((p.gamma + 1) / (p.gamma - 1)) ^ p.geometry
      = (p.gamma + 1) / (p.gamma - 1) * ((p.gamma + 1) / (p.gamma - 1)) ^ (p.geometry - 1) := by
    rw [Real.rpow_sub_one hB0.ne']; field_simp
  have hP := Real.rpow_pos_of_pos hB0 (p.geometry - 1)
  refine ⟨?_, ?_, ?_, ?_⟩
  · rw [hvout]; have : 0 < |p.u0| * (p.gamma - 1) / 2 := by positivity
    linarith
  · rw [hin, hout, hpow]; ring
  · rw [hin, hout, hpow]
    have : 0 < p.rho0 * ((p.gamma + 1) / (p.gamma - 1)) ^ (p.geometry - 1) := by positivity
    nlinarith
  · rw [hpin, hpout]
    have := Real.rpow_pos_of_pos hB0 p.geometry
    have : 0 < p.u0 ^ 2 := by have := hu.ne; positivity
    positivity

example : ∃ (p : Noh.P) (r t : ℝ), 1 < p.gamma ∧ 0 < p.rho0 ∧ p.u0 < 0 ∧ 0 < t ∧ r < nohShock p t :=
  ⟨⟨5 / 3, 3, 1, -1⟩, 0, 1, by norm_num, by norm_num, by norm_num, by norm_num, by norm_num [nohShock]⟩

/-! ### Noh2, Noh2Cog (uniform collapse, 0 ≤ t < 1) -/

theorem noh2_admissible (p : Noh2.P) (r t : ℝ) (hγ : 1 ≤ p.gamma) (hρ : 0 < p.rho0) (he : 0 ≤ p.e0)
    (hok : Noh2.outcome p r t = .ok) :
    0 < Noh2.density p r t ∧ 0 ≤ Noh2.pressure p r t ∧ 0 ≤ Noh2.specific_internal_energy p r t := by
  have hg : 0 ≤ p.gamma - 1 := by linarith
  have ht : 0 < 1 - t := by epv_domain hok
  refine ⟨?_, ?_, ?_⟩ <;> epv_positivity

theorem noh2cog_admissible (p : Noh2Cog.P) (r t : ℝ) (hγ : 1 < p.gamma) (hρ : 0 < p.rho0) (he : 0 ≤ p.e0)
    (hok : Noh2Cog.outcome p r t = .ok) :
    0 < Noh2Cog.density p r t ∧ 0 ≤ Noh2Cog.temperature p r t ∧ 0 ≤ Noh2Cog.pressure p r t
      ∧ 0 ≤ Noh2Cog.specific_internal_energy p r t := by
  have hg : 0 < p.gamma - 1 := by linarith
  refine ⟨?_, ?_, ?_, ?_⟩ <;> epv_positivity

example : ∃ (p : Noh2.P) (r t : ℝ), 1 ≤ p.gamma ∧ 0 < p.rho0 ∧ 0 ≤ p.e0 ∧ Noh2.outcome p r t = .ok :=
  ⟨⟨1, 5 / 3, 3, 1⟩, 1, 1 / 2, by norm_num, by norm_num, by norm_num, by
    simp only [epv_tree]; split_ifs with h <;> first | rfl | (simp only [epv_cond] at h; norm_num at h)⟩

/-! ### Coggeshall solutions with free γ > 1 and free amplitudes -/

theorem cog1_admissible (p : Cog1.P) (r t : ℝ) (hγ : 1 < p.gamma) (hρ : 0 < p.rho0) (hT : 0 ≤ p.temp0)
    (hΓ : 0 ≤ p.Gamma) (hr : 0 < r) (hok : Cog1.outcome p r t = .ok) :
    0 < Cog1.density p r t ∧ 0 ≤ Cog1.temperature p r t ∧ 0 ≤ Cog1.pressure p r t
      ∧ 0 ≤ Cog1.specific_internal_energy p r t := by
  have hg : 0 < p.gamma - 1 := by linarith
  refine ⟨?_, ?_, ?_, ?_⟩ <;> epv_positivity

/-- Cog2: the temperature amplitude 2(γ-1)(k+1)/(Γ(b+2)c₁²) is ≥ 0 for b + 2 > 0 -/
theorem cog2_admissible (p : Cog2.P) (r t : ℝ) (hγ : 1 < p.gamma) (hρ : 0 < p.rho0) (hΓ : 0 < p.Gamma)
    (hb : 0 < p.b + 2) (hgeo : 0 < p.geometry) (hr : 0 < r) (hok : Cog2.outcome p r t = .ok) :
    0 < Cog2.density p r t ∧ 0 ≤ Cog2.temperature p r t ∧ 0 ≤ Cog2.pressure p r t
      ∧ 0 ≤ Cog2.specific_internal_energy p r t := by
  have hg : 0 < p.gamma - 1 := by linarith
  have hk : 0 < (p.geometry - 1) + 1 := by linarith
  refine ⟨?_, ?_, ?_, ?_⟩ <;> epv_positivity

/-- Cog6 (|t| < τ): γ = (k+3)/(k+1) > 1 -/
theorem cog6_admissible (p : Cog6.P) (r t : ℝ) (hρ : 0 < p.rho0) (hΓ : 0 < p.Gamma) (hb : 0 < p.b + 2)
    (hgeo : 0 < p.geometry) (hr : 0 < r) (hτ : t ^ 2 < p.tau ^ 2) :
    0 < Cog6.density p r t ∧ 0 ≤ Cog6.temperature p r t ∧ 0 ≤ Cog6.pressure p r t
      ∧ 0 ≤ Cog6.specific_internal_energy p r t := by
  have hx : 0 < p.tau ^ 2 - t ^ 2 := by linarith
  have hk : 0 < (p.geometry - 1) + 1 := by linarith
  have hg : 0 < ((p.geometry - 1) + 3) / ((p.geometry - 1) + 1) - 1 := by
    rw [sub_pos, lt_div_iff₀ hk]; linarith
  refine ⟨?_, ?_, ?_, ?_⟩ <;> epv_positivity

theorem cog8_admissible (p : Cog8.P) (r t : ℝ) (hγ : 1 < p.gamma) (hρ : 0 < p.rho0) (hT : 0 ≤ p.temp0)
    (hΓ : 0 ≤ p.Gamma) (hr : 0 < r) (hok : Cog8.outcome p r t = .ok) :
    0 < Cog8.density p r t ∧ 0 ≤ Cog8.temperature p r t ∧ 0 ≤ Cog8.pressure p r t
      ∧ 0 ≤ Cog8.specific_internal_energy p r t := by
  have hg : 0 < p.gamma - 1 := by linarith
  refine ⟨?_, ?_, ?_, ?_⟩ <;> epv_positivity

/-- Cog10 (returned thermodynamic fields; its velocity is a constant built from the radiation constants) -/
theorem cog10_admissible (p : Cog10.P) (r t : ℝ) (hγ : 1 < p.gamma) (hρ : 0 < p.rho0) (hT : 0 ≤ p.temp0)
    (hΓ : 0 ≤ p.Gamma) (hr : 0 < r) :
    0 < Cog10.density p r t ∧ 0 ≤ Cog10.temperature p r t ∧ 0 ≤ Cog10.pressure p r t
      ∧ 0 ≤ Cog10.specific_internal_energy p r t := by
  have hg : 0 < p.gamma - 1 := by linarith
  refine ⟨?_, ?_, ?_, ?_⟩ <;> epv_positivity

theorem cog11_admissible (p : Cog11.P) (r t : ℝ) (hγ : 1 < p.gamma) (hρ : 0 < p.rho0) (hT : 0 ≤ p.temp0)
    (hΓ : 0 ≤ p.Gamma) (hr : 0 < r) (hok : Cog11.outcome p r t = .ok) :
    0 < Cog11.density p r t ∧ 0 ≤ Cog11.temperature p r t ∧ 0 ≤ Cog11.pressure p r t
      ∧ 0 ≤ Cog11.specific_internal_energy p r t := by
  have hg : 0 < p.gamma - 1 := by linarith
  refine ⟨?_, ?_, ?_, ?_⟩ <;> epv_positivity

example : ∃ (p : Cog1.P) (r t : ℝ), 1 < p.gamma ∧ 0 < p.rho0 ∧ 0 ≤ p.temp0 ∧ 0 ≤ p.Gamma ∧ 0 < r ∧
    Cog1.outcome p r t = .ok :=
  ⟨⟨40, 0, 0, 6 / 5, 0, 0, 7 / 5, 3, 0, 9 / 5, 7 / 5⟩, 1, 1, by norm_num, by norm_num, by norm_num, by norm_num,
    by norm_num, by simp only [epv_tree]; split_ifs with h <;> first | rfl | (simp only [epv_cond] at h; norm_num at h)⟩

/-! ### Cog19 (stagnation shock, the Coggeshall form of Noh) and Cog21 -/

theorem cog19_admissible (p : Cog19.P) (r t : ℝ) (hγ : 1 < p.gamma) (hρ : 0 < p.rho0) (hu : p.u0 < 0)
    (hΓ : 0 < p.Gamma) (hr : 0 < r) (ht : 0 ≤ t) :
    0 < Cog19.density p r t ∧ 0 ≤ Cog19.temperature p r t ∧ 0 ≤ Cog19.pressure p r t
      ∧ 0 ≤ Cog19.specific_internal_energy p r t := by
  have hg : 0 < p.gamma - 1 := by linarith
  have hx : 0 < r - p.u0 * t := by nlinarith
  refine ⟨?_, ?_, ?_, ?_⟩ <;> epv_positivity

/-- the shock position `-(gamma - 1) * u0 * t / 2` of `Cog19._run` -/
noncomputable def cog19Shock (p : Cog19.P) (t : ℝ) : ℝ := -(p.gamma - 1) * p.u0 * t / 2

theorem cog19_shock_is_coded (p : Cog19.P) (r t : ℝ) : Cog19.leaf p r t = 0 ↔ r < cog19Shock p t := by
  rw [EPV.Bridge.cog19_leaf_zero_iff, EPV.Bridge.cog19_c0_iff, cog19Shock]

theorem cog19_shock_speed (p : Cog19.P) (t : ℝ) :
    HasDerivAt (cog19Shock p) (-(p.gamma - 1) * p.u0 / 2) t := by
  unfold cog19Shock
  have := ((hasDerivAt_id t).const_mul (-(p.gamma - 1) * p.u0)).div_const 2
  simp only [id, mul_one] at this
  exact this

/-- **Cog19's shock is compressive**: inflow through the shock (u - D < 0), density ratio
(γ+1)/(γ-1) > 1, pressure rises from 0 -/
theorem cog19_shock_compressive (p : Cog19.P) (r t : ℝ) (hγ : 1 < p.gamma) (hρ : 0 < p.rho0) (hu : p.u0 < 0)
    (hΓ : 0 < p.Gamma) (ht : 0 < t) (hr : r < cog19Shock p t) :
    Cog19.velocity p (cog19Shock p t) t - (-(p.gamma - 1) * p.u0 / 2) < 0 ∧
    Cog19.density p r t = (p.gamma + 1) / (p.gamma - 1) * Cog19.density p (cog19Shock p t) t ∧
    Cog19.density p (cog19Shock p t) t < Cog19.density p r t ∧
    Cog19.pressure p (cog19Shock p t) t < Cog19.pressure p r t := by
  have hg : 0 < p.gamma - 1 := by linarith
  have hs : 0 < cog19Shock p t := by unfold cog19Shock; nlinarith [mul_pos hg (mul_pos (neg_pos.mpr hu) ht)]
  have hB : 1 < (p.gamma + 1) / (p.gamma - 1) := by rw [lt_div_iff₀ hg]; linarith
  have hB0 : 0 < (p.gamma + 1) / (p.gamma - 1) := by linarith
  have hbase : (cog19Shock p t - p.u0 * t) / cog19Shock p t = (p.gamma + 1) / (p.gamma - 1) := by
    have : cog19Shock p t ≠ 0 := hs.ne'
    rw [div_eq_div_iff this hg.ne']
    unfold cog19Shock; ring
  have hns : cog19Shock p t = -(p.gamma - 1) * p.u0 * t / 2 := rfl
  -- the branch is selected with the documented condition, the leaves enter through their documented closed forms
  have hc_in : Cog19.c0 p r t := (EPV.Bridge.cog19_c0_iff p r t).2 (by rw [hns] at hr; linarith)
  have hc_out : ¬ Cog19.c0 p (cog19Shock p t) t :=
    (EPV.Bridge.cog19_not_c0_iff p (cog19Shock p t) t).2 (by rw [hns])
  have hin : Cog19.density p r t = p.rho0 * ((p.gamma + 1) / (p.gamma - 1)) ^ ((p.geometry - 1) + 1) := by
    simp only [epv_tree, if_pos hc_in, EPV.Bridge.cog19_L0_density]
  have hout : Cog19.density p (cog19Shock p t) t
      = p.rho0 * ((p.gamma + 1) / (p.gamma - 1)) ^ (p.geometry - 1) := by
    simp only [epv_tree, if_neg hc_out, EPV.Bridge.cog19_L1_density p _ t hs.ne']; rw [hbase]
  have hpin : Cog19.pressure p r t = p.Gamma * (p.rho0 * ((p.gamma + 1) / (p.gamma - 1)) ^ ((p.geometry - 1) + 1))
      * (p.u0 ^ 2 * (p.gamma - 1) / (2 * p.Gamma)) := by
    simp only [epv_tree, if_pos hc_in, EPV.Bridge.cog19_L0_pressure]
  have hpout : Cog19.pressure p (cog19Shock p t) t = 0 := by
    simp only [epv_tree, if_neg hc_out, EPV.Bridge.cog19_L1_pressure]
  have hvout : Cog19.velocity p (cog19Shock p t) t = p.u0 := by
    simp only [epv_tree, if_neg hc_out, EPV.Bridge.cog19_L1_velocity]
  have hpow : ((p.gamma + 1) / (p.gamma - 1)) ^ ((p.geometry - 1) + 1)
      = (p.gamma + 1) / (p.gamma - 1) * ((p.gamma + 1) / (p.gamma - 1)) ^ (p.geometry - 1) := by
    rw [Real.rpow_add_one hB0.ne']; ring
  have hP := Real.rpow_pos_of_pos hB0 (p.geometry - 1)
  refine ⟨?_, ?_, ?_, ?_⟩
  · rw [hvout]; nlinarith [mul_pos hg (neg_pos.mpr hu)]
  · rw [hin, hout, hpow]; ring
  · rw [hin, hout, hpow]
    have : 0 < p.rho0 * ((p.gamma + 1) / (p.gamma - 1)) ^ (p.geometry - 1) := by positivity
    nlinarith
  · rw [hpin, hpout]
    have := Real.rpow_pos_of_pos hB0 ((p.geometry - 1) + 1)
    have : 0 < p.u0 ^ 2 := by have := hu.ne; positivity
    positivity

example : ∃ (p : Cog19.P) (r t : ℝ), 1 < p.gamma ∧ 0 < p.rho0 ∧ p.u0 < 0 ∧ 0 < p.Gamma ∧ 0 < t ∧
    r < cog19Shock p t :=
  ⟨⟨40, 0, 0, 0, 0, 7 / 5, 3, 0, 9 / 5, -23 / 10⟩, 0, 1, by norm_num, by norm_num, by norm_num, by norm_num,
    by norm_num, by norm_num [cog19Shock]⟩

theorem cog21_admissible (p : Cog21.P) (r t : ℝ) (hρ : 0 < p.rho0) (hT : 0 ≤ p.temp0) (hΓ : 0 ≤ p.Gamma)
    (hr : 0 < r) (hok : Cog21.outcome p r t = .ok) :
    0 < Cog21.density p r t ∧ 0 ≤ Cog21.temperature p r t ∧ 0 ≤ Cog21.pressure p r t
      ∧ 0 ≤ Cog21.specific_internal_energy p r t := by
  refine ⟨?_, ?_, ?_, ?_⟩ <;> epv_positivity
/-! ### Solutions whose temperature amplitude needs α < 0 -/

/-- Cog9: T = 2α(γ-1)(k+1)/(Γ c₃² (2α-2β-k-7)) (r/t)² ≥ 0 for α ≤ 0, β ≥ 0 (the documented ranges are
α ∈ [-2,-1], β ∈ [1,3]) -/
theorem cog9_admissible (p : Cog9.P) (r t : ℝ) (hγ : 1 < p.gamma) (hρ : 0 < p.rho0) (hΓ : 0 < p.Gamma)
    (hα : p.alpha ≤ 0) (hβ : 0 ≤ p.beta) (hgeo : 1 ≤ p.geometry) (hr : 0 < r)
    (hok : Cog9.outcome p r t = .ok) :
    0 < Cog9.density p r t ∧ 0 ≤ Cog9.temperature p r t ∧ 0 ≤ Cog9.pressure p r t
      ∧ 0 ≤ Cog9.specific_internal_energy p r t := by
  have hg : 0 < p.gamma - 1 := by linarith
  have hk : 0 < (p.geometry - 1) + 1 := by linarith
  have ht : 0 < t := by epv_domain hok
  have hd : 0 < Cog9.density p r t := by epv_positivity
  have hT : 0 ≤ Cog9.temperature p r t := by
    have hden : 2 * p.alpha - 2 * p.beta - (p.geometry - 1) - 7 < 0 := by linarith
    have hc3 : 0 < 2 + (p.gamma - 1) * ((p.geometry - 1) + 1) := by positivity
    have hnan : ¬ Cog9.c0 p r t := by rw [EPV.Bridge.cog9_c0_iff]; linarith
    simp only [epv_tree, if_neg hnan]
    rw [EPV.Bridge.cog9_L1_temperature p r t hΓ.ne' hc3.ne' hden.ne ht.ne']
    have hnum : 2 * p.alpha * (p.gamma - 1) * ((p.geometry - 1) + 1) / p.Gamma
        / (2 + (p.gamma - 1) * ((p.geometry - 1) + 1)) ^ 2 ≤ 0 := by
      apply div_nonpos_of_nonpos_of_nonneg _ (by positivity)
      apply div_nonpos_of_nonpos_of_nonneg _ hΓ.le
      have := mul_pos hg hk
      nlinarith
    have := div_nonneg_of_nonpos hnum hden.le
    positivity
  have hp : Cog9.pressure p r t = p.Gamma * Cog9.density p r t * Cog9.temperature p r t := by
    simp only [epv_tree]; split_ifs <;> (try simp only [epv_leaf]) <;> ring
  have he : Cog9.specific_internal_energy p r t = Cog9.pressure p r t / Cog9.density p r t / (p.gamma - 1) := by
    clear hp hT
    epv_hydro_via_atoms (Cog9.pressure p r t) (Cog9.density p r t)
  have hp0 : 0 ≤ Cog9.pressure p r t := by rw [hp]; positivity
  exact ⟨hd, hT, hp0, by rw [he]; positivity⟩

/-- Cog18 (|t| < τ): T = α τ²/(Γ (2α-2β-k-7)) r²/(τ²-t²)² ≥ 0 for α ≤ 0, β ≥ 0 -/
theorem cog18_admissible (p : Cog18.P) (r t : ℝ) (hρ : 0 < p.rho0) (hΓ : 0 < p.Gamma)
    (hα : p.alpha ≤ 0) (hβ : 0 ≤ p.beta) (hgeo : 1 ≤ p.geometry) (hr : 0 < r) (hτ : t ^ 2 < p.tau ^ 2) :
    0 < Cog18.density p r t ∧ 0 ≤ Cog18.temperature p r t ∧ 0 ≤ Cog18.pressure p r t
      ∧ 0 ≤ Cog18.specific_internal_energy p r t := by
  have hx : 0 < p.tau ^ 2 - t ^ 2 := by linarith
  have hk : 0 < (p.geometry - 1) + 1 := by linarith
  have hg : 0 < ((p.geometry - 1) + 3) / ((p.geometry - 1) + 1) - 1 := by
    rw [sub_pos, lt_div_iff₀ hk]; linarith
  have hd : 0 < Cog18.density p r t := by epv_positivity
  have hT : 0 ≤ Cog18.temperature p r t := by
    have hden : 2 * p.alpha - 2 * p.beta - (p.geometry - 1) - 7 < 0 := by linarith
    simp only [epv_tree]
    rw [EPV.Bridge.cog18_L0_temperature p r t hΓ.ne' hden.ne hx.ne']
    have hnum : p.alpha * p.tau ^ 2 / p.Gamma ≤ 0 := by
      apply div_nonpos_of_nonpos_of_nonneg _ hΓ.le
      nlinarith [sq_nonneg p.tau]
    have := div_nonneg_of_nonpos hnum hden.le
    positivity
  have hp : Cog18.pressure p r t = p.Gamma * Cog18.density p r t * Cog18.temperature p r t := by
    simp only [epv_tree, epv_leaf] <;> ring
  have he : Cog18.specific_internal_energy p r t
      = Cog18.pressure p r t / Cog18.density p r t / (((p.geometry - 1) + 3) / ((p.geometry - 1) + 1) - 1) := by
    clear hp hT
    epv_hydro_via_atoms (Cog18.pressure p r t) (Cog18.density p r t)
  have hp0 : 0 ≤ Cog18.pressure p r t := by rw [hp]; positivity
  exact ⟨hd, hT, hp0, by rw [he]; positivity⟩

/-! ### non-vacuity of the remaining hypothesis sets (class defaults; α = -3/2 inside the advised range) -/

example : ∃ (p : Cog2.P) (r : ℝ), 1 < p.gamma ∧ 0 < p.rho0 ∧ 0 < p.Gamma ∧ 0 < p.b + 2 ∧ 0 < p.geometry ∧ 0 < r :=
  ⟨⟨40, 0, 0, 6 / 5, 0, 0, 7 / 5, 3, 0, 9 / 5⟩, 1, by norm_num, by norm_num, by norm_num, by norm_num, by norm_num,
    by norm_num⟩

example : ∃ (p : Cog6.P) (r t : ℝ), 0 < p.rho0 ∧ 0 < p.Gamma ∧ 0 < p.b + 2 ∧ 0 < p.geometry ∧ 0 < r ∧
    t ^ 2 < p.tau ^ 2 :=
  ⟨⟨40, 0, 0, 6 / 5, 0, 0, 3, 0, 9 / 5, 5 / 4⟩, 1, 1, by norm_num, by norm_num, by norm_num, by norm_num, by norm_num,
    by norm_num⟩

example : ∃ (p : Cog9.P) (r : ℝ), 1 < p.gamma ∧ 0 < p.rho0 ∧ 0 < p.Gamma ∧ p.alpha ≤ 0 ∧ 0 ≤ p.beta ∧
    1 ≤ p.geometry ∧ 0 < r :=
  ⟨⟨40, 0, -3 / 2, 0, 1, 0, 0, 7 / 5, 3, 0, 9 / 5⟩, 1, by norm_num, by norm_num, by norm_num, by norm_num, by norm_num,
    by norm_num, by norm_num⟩

example : ∃ (p : Cog18.P) (r t : ℝ), 0 < p.rho0 ∧ 0 < p.Gamma ∧ p.alpha ≤ 0 ∧ 0 ≤ p.beta ∧ 1 ≤ p.geometry ∧ 0 < r ∧
    t ^ 2 < p.tau ^ 2 :=
  ⟨⟨40, 0, -3 / 2, 0, 1, 0, 0, 3, 0, 9 / 5, 5 / 4⟩, 1, 1, by norm_num, by norm_num, by norm_num, by norm_num,
    by norm_num, by norm_num, by norm_num⟩

end EPV.C17
