/-
C17 — admissibility of the closed-form hydro solvers.

"Returned densities are positive (or exactly zero in a documented vacuum), pressures,
internal energies and temperatures are non-negative and sound speeds real; every shock is
compressive (pressure and density rise in the direction the material crosses it)."

Stated on the tree-level generated definitions (every leaf of the traced decision tree), under
explicit admissibility hypotheses.  The ExactPack documentation only names the coefficients
("density coefficient", "temperature coefficient", "Grüneisen gas parameter", "specific heat
ratio"); the hypotheses below are the physical reading of these names — ρ₀ > 0, T₀ ≥ 0, Γ > 0,
γ > 1 where γ is a free parameter, r > 0 — plus, where the sign of the coded temperature amplitude
depends on further parameters, exactly the sign condition needed (b + 2 > 0, α < 0 …), spelled out
in each statement.  The time domain (t > 0 for the similarity solutions, t < 1 for Noh2) is taken
from `outcome = ok`, i.e. from the code's own domain test.

Shocks: for Noh and Cog19 the material enters the shock from outside (u - D < 0) and density and
pressure are larger behind it: compressive.

FALSE on the current code (`finding_…`):
  * Cog21  — for t > 0 (the only times the solver accepts) the material crosses the shock from
             the dense hot side to the cold side: an expansion shock.
  * Cog17  — the temperature is ≤ 0 on the whole range α ∈ [-2,-1], β ∈ [1,3] its own warnings
             call valid.
  * Cog3, Cog4, Cog5, Cog12 — their γ is < 1 (prescribed, or required for T > 0 as the docstrings say),
             so the returned specific internal energy e = Γ T/(γ-1) is negative whenever T > 0.
-/
import EPV.Gen.Noh
import EPV.Gen.Noh2
import EPV.Gen.Noh2Cog
import EPV.Gen.Cog1
import EPV.Gen.Cog2
import EPV.Gen.Cog3
import EPV.Gen.Cog4
import EPV.Gen.Cog5
import EPV.Gen.Cog6
import EPV.Gen.Cog8
import EPV.Gen.Cog9
import EPV.Gen.Cog10
import EPV.Gen.Cog11
import EPV.Gen.Cog12
import EPV.Gen.Cog17
import EPV.Gen.Cog18
import EPV.Gen.Cog19
import EPV.Gen.Cog21
import EPV.Tactics

set_option linter.all false

open EPV EPV.Gen

namespace EPV.C17

/-- on every `ok` leaf: unfold, then `positivity` (sign facts come from the hypotheses in context) -/
macro "epv_positivity" : tactic =>
  `(tactic| (simp only [epv_tree] at *
             (try split_ifs at *) <;> first
               | epv_absurd
               | (simp only [epv_leaf, epv_cond, not_le, not_lt] at *; positivity)))

/-- go to the leaf the hypotheses select: split the tree, refute the other paths by linear arithmetic,
leave the leaf-level goal(s) -/
macro "epv_select" : tactic =>
  `(tactic| (simp only [epv_tree]
             (try split_ifs) <;> (try simp only [epv_cond, not_lt, not_le] at *) <;>
             first | (exfalso; linarith) | skip))

/-- the time domain read off `outcome = ok` -/
macro "epv_domain " h:ident : tactic =>
  `(tactic| (simp only [epv_tree] at $h:ident
             split_ifs at $h:ident <;> (try simp only [epv_cond, not_lt, not_le] at *) <;>
             first | (exact absurd $h (by decide)) | linarith))

/-! ### Noh -/

/-- Noh on its admissible domain (γ > 1, ρ₀ > 0, u₀ < 0, r > 0, t ≥ 0): ρ > 0, p ≥ 0, e ≥ 0 -/
theorem noh_admissible (p : Noh.P) (r t : ℝ) (hγ : 1 < p.gamma) (hρ : 0 < p.rho0) (hu : p.u0 < 0)
    (hr : 0 < r) (ht : 0 ≤ t) :
    0 < Noh.density p r t ∧ 0 ≤ Noh.pressure p r t ∧ 0 ≤ Noh.specific_internal_energy p r t := by
  have hg : 0 < p.gamma - 1 := by linarith
  refine ⟨?_, ?_, ?_⟩ <;> epv_positivity

/-- the sound speed is real: c² = γ p / ρ ≥ 0 -/
theorem noh_sound_speed_real (p : Noh.P) (r t : ℝ) (hγ : 1 < p.gamma) (hρ : 0 < p.rho0) (hu : p.u0 < 0)
    (hr : 0 < r) (ht : 0 ≤ t) : 0 ≤ p.gamma * Noh.pressure p r t / Noh.density p r t := by
  obtain ⟨h1, h2, _⟩ := noh_admissible p r t hγ hρ hu hr ht
  have : 0 < p.gamma := by linarith
  positivity

example : ∃ (p : Noh.P) (r t : ℝ), 1 < p.gamma ∧ 0 < p.rho0 ∧ p.u0 < 0 ∧ 0 < r ∧ 0 ≤ t :=
  ⟨⟨5 / 3, 3, 1, -1⟩, 1, 1, by norm_num, by norm_num, by norm_num, by norm_num, by norm_num⟩

/-- the shock position `abs(u0) * t * (gamma - 1) / 2` of `Noh._run` -/
noncomputable def nohShock (p : Noh.P) (t : ℝ) : ℝ := |p.u0| * t * (p.gamma - 1) / 2

/-- `nohShock` is the position the traced tree branches on -/
theorem noh_shock_is_coded (p : Noh.P) (r t : ℝ) : Noh.leaf p r t = 0 ↔ r < nohShock p t := by
  simp only [epv_tree]
  split_ifs with h <;> simp only [epv_cond] at h <;> simp [nohShock, h]

/-- the shock moves outward with speed D = |u₀| (γ-1)/2 -/
theorem noh_shock_speed (p : Noh.P) (t : ℝ) :
    HasDerivAt (nohShock p) (|p.u0| * (p.gamma - 1) / 2) t := by
  have h := ((hasDerivAt_id t).const_mul |p.u0|).mul_const ((p.gamma - 1) / 2)
  have e : nohShock p = fun y => |p.u0| * id y * ((p.gamma - 1) / 2) := by
    funext y; simp only [nohShock, id]; ring
  rw [e]
  exact h.congr_deriv (by ring)

/-- **Noh's shock is compressive**: the gas ahead of the shock (r ≥ R) moves inward through it
(u - D < 0), and at every point r behind it density and pressure exceed their values just ahead of
the shock; the density ratio is ((γ+1)/(γ-1))^1 > 1. -/
theorem noh_shock_compressive (p : Noh.P) (r t : ℝ) (hγ : 1 < p.gamma) (hρ : 0 < p.rho0) (hu : p.u0 < 0)
    (ht : 0 < t) (hr : r < nohShock p t) :
    Noh.velocity p (nohShock p t) t - |p.u0| * (p.gamma - 1) / 2 < 0 ∧
    Noh.density p r t = (p.gamma + 1) / (p.gamma - 1) * Noh.density p (nohShock p t) t ∧
    Noh.density p (nohShock p t) t < Noh.density p r t ∧
    Noh.pressure p (nohShock p t) t < Noh.pressure p r t := by
  have hg : 0 < p.gamma - 1 := by linarith
  have hau : 0 < |p.u0| := abs_pos.mpr hu.ne
  have hs : 0 < nohShock p t := by unfold nohShock; positivity
  have hB : 1 < (p.gamma + 1) / (p.gamma - 1) := by rw [lt_div_iff₀ hg]; linarith
  have hB0 : 0 < (p.gamma + 1) / (p.gamma - 1) := by linarith
  have hbase : 1 + |p.u0| * t / nohShock p t = (p.gamma + 1) / (p.gamma - 1) := by
    unfold nohShock; field_simp; ring
  have hns : nohShock p t = |p.u0| * t * (p.gamma - 1) / 2 := rfl
  have hin : Noh.density p r t = p.rho0 * ((p.gamma + 1) / (p.gamma - 1)) ^ p.geometry := by
    epv_select; simp only [epv_leaf]; ring
  have hout : Noh.density p (nohShock p t) t = p.rho0 * ((p.gamma + 1) / (p.gamma - 1)) ^ (p.geometry - 1) := by
    epv_select; simp only [epv_leaf]; rw [hbase]
  have hpin : Noh.pressure p r t
      = (p.gamma - 1) * p.rho0 * ((p.gamma + 1) / (p.gamma - 1)) ^ p.geometry * p.u0 ^ 2 / 2 := by
    epv_select; simp only [epv_leaf]; ring
  have hpout : Noh.pressure p (nohShock p t) t = 0 := by
    epv_select; simp only [epv_leaf]
  have hvout : Noh.velocity p (nohShock p t) t = p.u0 := by
    epv_select; simp only [epv_leaf]; ring
  have hpow : ((p.gamma + 1) / (p.gamma - 1)) ^ p.geometry
      = (p.gamma + 1) / (p.gamma - 1) * ((p.gamma + 1) / (p.gamma - 1)) ^ (p.geometry - 1) := by
    rw [Real.rpow_sub_one hB0.ne']; field_simp
  have hP := Real.rpow_pos_of_pos hB0 (p.geometry - 1)
  refine ⟨?_, ?_, ?_, ?_⟩
  · rw [hvout]; have : 0 < |p.u0| * (p.gamma - 1) / 2 := by positivity
    linarith
  · rw [hin, hout, hpow]; ring
  · rw [hin, hout, hpow]
    have : 0 < p.rho0 * ((p.gamma + 1) / (p.gamma - 1)) ^ (p.geometry - 1) := by positivity
    nlinarith
  · rw [hpin, hpout]
    have := Real.rpow_pos_of_pos hB0 p.geometry
    have : 0 < p.u0 ^ 2 := by have := hu.ne; positivity
    positivity

example : ∃ (p : Noh.P) (r t : ℝ), 1 < p.gamma ∧ 0 < p.rho0 ∧ p.u0 < 0 ∧ 0 < t ∧ r < nohShock p t :=
  ⟨⟨5 / 3, 3, 1, -1⟩, 0, 1, by norm_num, by norm_num, by norm_num, by norm_num, by norm_num [nohShock]⟩

/-! ### Noh2, Noh2Cog (uniform collapse, 0 ≤ t < 1) -/

theorem noh2_admissible (p : Noh2.P) (r t : ℝ) (hγ : 1 ≤ p.gamma) (hρ : 0 < p.rho0) (he : 0 ≤ p.e0)
    (hok : Noh2.outcome p r t = .ok) :
    0 < Noh2.density p r t ∧ 0 ≤ Noh2.pressure p r t ∧ 0 ≤ Noh2.specific_internal_energy p r t := by
  have hg : 0 ≤ p.gamma - 1 := by linarith
  have ht : 0 < 1 - t := by epv_domain hok
  refine ⟨?_, ?_, ?_⟩ <;> epv_positivity

theorem noh2cog_admissible (p : Noh2Cog.P) (r t : ℝ) (hγ : 1 < p.gamma) (hρ : 0 < p.rho0) (he : 0 ≤ p.e0)
    (hok : Noh2Cog.outcome p r t = .ok) :
    0 < Noh2Cog.density p r t ∧ 0 ≤ Noh2Cog.temperature p r t ∧ 0 ≤ Noh2Cog.pressure p r t
      ∧ 0 ≤ Noh2Cog.specific_internal_energy p r t := by
  have hg : 0 < p.gamma - 1 := by linarith
  refine ⟨?_, ?_, ?_, ?_⟩ <;> epv_positivity

example : ∃ (p : Noh2.P) (r t : ℝ), 1 ≤ p.gamma ∧ 0 < p.rho0 ∧ 0 ≤ p.e0 ∧ Noh2.outcome p r t = .ok :=
  ⟨⟨1, 5 / 3, 3, 1⟩, 1, 1 / 2, by norm_num, by norm_num, by norm_num, by
    simp only [epv_tree]; split_ifs with h <;> first | rfl | (simp only [epv_cond] at h; norm_num at h)⟩

/-! ### Coggeshall solutions with free γ > 1 and free amplitudes -/

theorem cog1_admissible (p : Cog1.P) (r t : ℝ) (hγ : 1 < p.gamma) (hρ : 0 < p.rho0) (hT : 0 ≤ p.temp0)
    (hΓ : 0 ≤ p.Gamma) (hr : 0 < r) (hok : Cog1.outcome p r t = .ok) :
    0 < Cog1.density p r t ∧ 0 ≤ Cog1.temperature p r t ∧ 0 ≤ Cog1.pressure p r t
      ∧ 0 ≤ Cog1.specific_internal_energy p r t := by
  have hg : 0 < p.gamma - 1 := by linarith
  refine ⟨?_, ?_, ?_, ?_⟩ <;> epv_positivity

/-- Cog2: the temperature amplitude 2(γ-1)(k+1)/(Γ(b+2)c₁²) is ≥ 0 for b + 2 > 0 -/
theorem cog2_admissible (p : Cog2.P) (r t : ℝ) (hγ : 1 < p.gamma) (hρ : 0 < p.rho0) (hΓ : 0 < p.Gamma)
    (hb : 0 < p.b + 2) (hgeo : 0 < p.geometry) (hr : 0 < r) (hok : Cog2.outcome p r t = .ok) :
    0 < Cog2.density p r t ∧ 0 ≤ Cog2.temperature p r t ∧ 0 ≤ Cog2.pressure p r t
      ∧ 0 ≤ Cog2.specific_internal_energy p r t := by
  have hg : 0 < p.gamma - 1 := by linarith
  have hk : 0 < (p.geometry - 1) + 1 := by linarith
  refine ⟨?_, ?_, ?_, ?_⟩ <;> epv_positivity

/-- Cog6 (|t| < τ): γ = (k+3)/(k+1) > 1 -/
theorem cog6_admissible (p : Cog6.P) (r t : ℝ) (hρ : 0 < p.rho0) (hΓ : 0 < p.Gamma) (hb : 0 < p.b + 2)
    (hgeo : 0 < p.geometry) (hr : 0 < r) (hτ : t ^ 2 < p.tau ^ 2) :
    0 < Cog6.density p r t ∧ 0 ≤ Cog6.temperature p r t ∧ 0 ≤ Cog6.pressure p r t
      ∧ 0 ≤ Cog6.specific_internal_energy p r t := by
  have hx : 0 < p.tau ^ 2 - t ^ 2 := by linarith
  have hk : 0 < (p.geometry - 1) + 1 := by linarith
  have hg : 0 < ((p.geometry - 1) + 3) / ((p.geometry - 1) + 1) - 1 := by
    rw [sub_pos, lt_div_iff₀ hk]; linarith
  refine ⟨?_, ?_, ?_, ?_⟩ <;> epv_positivity

theorem cog8_admissible (p : Cog8.P) (r t : ℝ) (hγ : 1 < p.gamma) (hρ : 0 < p.rho0) (hT : 0 ≤ p.temp0)
    (hΓ : 0 ≤ p.Gamma) (hr : 0 < r) (hok : Cog8.outcome p r t = .ok) :
    0 < Cog8.density p r t ∧ 0 ≤ Cog8.temperature p r t ∧ 0 ≤ Cog8.pressure p r t
      ∧ 0 ≤ Cog8.specific_internal_energy p r t := by
  have hg : 0 < p.gamma - 1 := by linarith
  refine ⟨?_, ?_, ?_, ?_⟩ <;> epv_positivity

/-- Cog10 (returned thermodynamic fields; its velocity is a constant built from the radiation constants) -/
theorem cog10_admissible (p : Cog10.P) (r t : ℝ) (hγ : 1 < p.gamma) (hρ : 0 < p.rho0) (hT : 0 ≤ p.temp0)
    (hΓ : 0 ≤ p.Gamma) (hr : 0 < r) :
    0 < Cog10.density p r t ∧ 0 ≤ Cog10.temperature p r t ∧ 0 ≤ Cog10.pressure p r t
      ∧ 0 ≤ Cog10.specific_internal_energy p r t := by
  have hg : 0 < p.gamma - 1 := by linarith
  refine ⟨?_, ?_, ?_, ?_⟩ <;> epv_positivity

theorem cog11_admissible (p : Cog11.P) (r t : ℝ) (hγ : 1 < p.gamma) (hρ : 0 < p.rho0) (hT : 0 ≤ p.temp0)
    (hΓ : 0 ≤ p.Gamma) (hr : 0 < r) (hok : Cog11.outcome p r t = .ok) :
    0 < Cog11.density p r t ∧ 0 ≤ Cog11.temperature p r t ∧ 0 ≤ Cog11.pressure p r t
      ∧ 0 ≤ Cog11.specific_internal_energy p r t := by
  have hg : 0 < p.gamma - 1 := by linarith
  refine ⟨?_, ?_, ?_, ?_⟩ <;> epv_positivity

example : ∃ (p : Cog1.P) (r t : ℝ), 1 < p.gamma ∧ 0 < p.rho0 ∧ 0 ≤ p.temp0 ∧ 0 ≤ p.Gamma ∧ 0 < r ∧
    Cog1.outcome p r t = .ok :=
  ⟨⟨40, 0, 0, 6 / 5, 0, 0, 7 / 5, 3, 0, 9 / 5, 7 / 5⟩, 1, 1, by norm_num, by norm_num, by norm_num, by norm_num,
    by norm_num, by simp only [epv_tree]; split_ifs with h <;> first | rfl | (simp only [epv_cond] at h; norm_num at h)⟩

/-! ### Cog19 (stagnation shock, the Coggeshall form of Noh) and Cog21 -/

theorem cog19_admissible (p : Cog19.P) (r t : ℝ) (hγ : 1 < p.gamma) (hρ : 0 < p.rho0) (hu : p.u0 < 0)
    (hΓ : 0 < p.Gamma) (hr : 0 < r) (ht : 0 ≤ t) :
    0 < Cog19.density p r t ∧ 0 ≤ Cog19.temperature p r t ∧ 0 ≤ Cog19.pressure p r t
      ∧ 0 ≤ Cog19.specific_internal_energy p r t := by
  have hg : 0 < p.gamma - 1 := by linarith
  have hx : 0 < r - p.u0 * t := by nlinarith
  refine ⟨?_, ?_, ?_, ?_⟩ <;> epv_positivity

/-- the shock position `-(gamma - 1) * u0 * t / 2` of `Cog19._run` -/
noncomputable def cog19Shock (p : Cog19.P) (t : ℝ) : ℝ := -(p.gamma - 1) * p.u0 * t / 2

theorem cog19_shock_is_coded (p : Cog19.P) (r t : ℝ) : Cog19.leaf p r t = 0 ↔ r < cog19Shock p t := by
  simp only [epv_tree]
  split_ifs with h <;> simp only [epv_cond] at h <;> simpa [cog19Shock] using h

theorem cog19_shock_speed (p : Cog19.P) (t : ℝ) :
    HasDerivAt (cog19Shock p) (-(p.gamma - 1) * p.u0 / 2) t := by
  unfold cog19Shock
  have := ((hasDerivAt_id t).const_mul (-(p.gamma - 1) * p.u0)).div_const 2
  simp only [id, mul_one] at this
  exact this

/-- **Cog19's shock is compressive**: inflow through the shock (u - D < 0), density ratio
(γ+1)/(γ-1) > 1, pressure rises from 0 -/
theorem cog19_shock_compressive (p : Cog19.P) (r t : ℝ) (hγ : 1 < p.gamma) (hρ : 0 < p.rho0) (hu : p.u0 < 0)
    (hΓ : 0 < p.Gamma) (ht : 0 < t) (hr : r < cog19Shock p t) :
    Cog19.velocity p (cog19Shock p t) t - (-(p.gamma - 1) * p.u0 / 2) < 0 ∧
    Cog19.density p r t = (p.gamma + 1) / (p.gamma - 1) * Cog19.density p (cog19Shock p t) t ∧
    Cog19.density p (cog19Shock p t) t < Cog19.density p r t ∧
    Cog19.pressure p (cog19Shock p t) t < Cog19.pressure p r t := by
  have hg : 0 < p.gamma - 1 := by linarith
  have hs : 0 < cog19Shock p t := by unfold cog19Shock; nlinarith [mul_pos hg (mul_pos (neg_pos.mpr hu) ht)]
  have hB : 1 < (p.gamma + 1) / (p.gamma - 1) := by rw [lt_div_iff₀ hg]; linarith
  have hB0 : 0 < (p.gamma + 1) / (p.gamma - 1) := by linarith
  have hbase : (cog19Shock p t - p.u0 * t) / cog19Shock p t = (p.gamma + 1) / (p.gamma - 1) := by
    have : cog19Shock p t ≠ 0 := hs.ne'
    rw [div_eq_div_iff this hg.ne']
    unfold cog19Shock; ring
  have hns : cog19Shock p t = -(p.gamma - 1) * p.u0 * t / 2 := rfl
  have hin : Cog19.density p r t = p.rho0 * ((p.gamma + 1) / (p.gamma - 1)) ^ ((p.geometry - 1) + 1) := by
    epv_select; simp only [epv_leaf]; ring
  have hout : Cog19.density p (cog19Shock p t) t
      = p.rho0 * ((p.gamma + 1) / (p.gamma - 1)) ^ (p.geometry - 1) := by
    epv_select; simp only [epv_leaf]; rw [hbase]; ring
  have hpin : Cog19.pressure p r t = p.Gamma * (p.rho0 * ((p.gamma + 1) / (p.gamma - 1)) ^ ((p.geometry - 1) + 1))
      * (p.u0 ^ 2 * (p.gamma - 1) / (2 * p.Gamma)) := by
    epv_select; simp only [epv_leaf]; ring
  have hpout : Cog19.pressure p (cog19Shock p t) t = 0 := by
    epv_select; simp only [epv_leaf]; ring
  have hvout : Cog19.velocity p (cog19Shock p t) t = p.u0 := by
    epv_select; simp only [epv_leaf]; ring
  have hpow : ((p.gamma + 1) / (p.gamma - 1)) ^ ((p.geometry - 1) + 1)
      = (p.gamma + 1) / (p.gamma - 1) * ((p.gamma + 1) / (p.gamma - 1)) ^ (p.geometry - 1) := by
    rw [Real.rpow_add_one hB0.ne']; ring
  have hP := Real.rpow_pos_of_pos hB0 (p.geometry - 1)
  refine ⟨?_, ?_, ?_, ?_⟩
  · rw [hvout]; nlinarith [mul_pos hg (neg_pos.mpr hu)]
  · rw [hin, hout, hpow]; ring
  · rw [hin, hout, hpow]
    have : 0 < p.rho0 * ((p.gamma + 1) / (p.gamma - 1)) ^ (p.geometry - 1) := by positivity
    nlinarith
  · rw [hpin, hpout]
    have := Real.rpow_pos_of_pos hB0 ((p.geometry - 1) + 1)
    have : 0 < p.u0 ^ 2 := by have := hu.ne; positivity
    positivity

example : ∃ (p : Cog19.P) (r t : ℝ), 1 < p.gamma ∧ 0 < p.rho0 ∧ p.u0 < 0 ∧ 0 < p.Gamma ∧ 0 < t ∧
    r < cog19Shock p t :=
  ⟨⟨40, 0, 0, 0, 0, 7 / 5, 3, 0, 9 / 5, -23 / 10⟩, 0, 1, by norm_num, by norm_num, by norm_num, by norm_num,
    by norm_num, by norm_num [cog19Shock]⟩

theorem cog21_admissible (p : Cog21.P) (r t : ℝ) (hρ : 0 < p.rho0) (hT : 0 ≤ p.temp0) (hΓ : 0 ≤ p.Gamma)
    (hr : 0 < r) (hok : Cog21.outcome p r t = .ok) :
    0 < Cog21.density p r t ∧ 0 ≤ Cog21.temperature p r t ∧ 0 ≤ Cog21.pressure p r t
      ∧ 0 ≤ Cog21.specific_internal_energy p r t := by
  refine ⟨?_, ?_, ?_, ?_⟩ <;> epv_positivity

/-- the shock position `2 / (Gamma * temp0 * t^2)` of `Cog21._run` -/
noncomputable def cog21Shock (p : Cog21.P) (t : ℝ) : ℝ := 2 / (p.Gamma * p.temp0 * t ^ 2)

theorem cog21_shock_speed (p : Cog21.P) (t : ℝ) (hΓT : p.Gamma * p.temp0 ≠ 0) (ht : t ≠ 0) :
    HasDerivAt (cog21Shock p) (-4 / (p.Gamma * p.temp0 * t ^ 3)) t := by
  have h1 : HasDerivAt (fun s : ℝ => p.Gamma * p.temp0 * s ^ 2) (p.Gamma * p.temp0 * (2 * t)) t := by
    have := ((hasDerivAt_pow 2 t).const_mul (p.Gamma * p.temp0))
    simpa using this
  have hne : p.Gamma * p.temp0 * t ^ 2 ≠ 0 := mul_ne_zero hΓT (pow_ne_zero 2 ht)
  have h2 := (hasDerivAt_const t (2 : ℝ)).div h1 hne
  have e : cog21Shock p = fun s => 2 / (p.Gamma * p.temp0 * s ^ 2) := rfl
  rw [e]
  refine h2.congr_deriv ?_
  field_simp
  ring

/-- **Finding** (C17 is false for Cog21 as coded): for t > 0 — the only times `Cog21._run` accepts — the
shock at R = 2/(Γ T₀ t²) moves INWARD (D < 0) while the gas on both sides moves outward relative to it
(u - D > 0 inside, where u = 0, and outside, where u = r/t).  The material therefore crosses the shock from the
inside, where ρ = (3/2) ρ₀ r⁻³ and p > 0, to the outside, where ρ = ρ₀ r⁻³ and p = 0: density and pressure
DROP in the direction the material crosses — an expansion shock.  (For t < 0 the same formulas describe a
compressive shock, but the solver returns NaN there.) -/
theorem finding_cog21_expansion_shock (p : Cog21.P) (r t : ℝ) (hρ : 0 < p.rho0) (hT : 0 < p.temp0)
    (hΓ : 0 < p.Gamma) (ht : 0 < t) (hr0 : 0 < r) (hr : r < cog21Shock p t) :
    -- relative to the shock the gas moves outward on both sides: it leaves the inner region
    0 < Cog21.velocity p r t - (-4 / (p.Gamma * p.temp0 * t ^ 3)) ∧
    0 < Cog21.velocity p (cog21Shock p t) t - (-4 / (p.Gamma * p.temp0 * t ^ 3)) ∧
    -- and loses density and pressure on the way out
    Cog21.density p (cog21Shock p t) t < (3 / 2) * Cog21.density p (cog21Shock p t) t ∧
    (cog21Shock p t) ^ 3 * Cog21.density p (cog21Shock p t) t = p.rho0 ∧
    r ^ 3 * Cog21.density p r t = (3 / 2) * p.rho0 ∧
    Cog21.pressure p (cog21Shock p t) t = 0 ∧ 0 < Cog21.pressure p r t := by
  have hs : 0 < cog21Shock p t := by unfold cog21Shock; positivity
  have hD : 0 < 4 / (p.Gamma * p.temp0 * t ^ 3) := by positivity
  have hns : cog21Shock p t = 2 / (p.Gamma * p.temp0 * t ^ 2) := rfl
  refine ⟨?_, ?_, ?_, ?_, ?_, ?_, ?_⟩
  · epv_select; simp only [epv_leaf]
    rw [neg_div, sub_neg_eq_add, zero_add]; exact hD
  · epv_select; simp only [epv_leaf]
    rw [neg_div, sub_neg_eq_add]; positivity
  · have : 0 < Cog21.density p (cog21Shock p t) t := by
      epv_select; simp only [epv_leaf]; positivity
    linarith
  · epv_select; simp only [epv_leaf]
    field_simp
  · epv_select; simp only [epv_leaf]
    field_simp
  · epv_select; simp only [epv_leaf]; ring
  · epv_select; simp only [epv_leaf]; positivity

/-- non-vacuity at the solver's defaults (ρ₀ = 1.8, T₀ = 2.9, Γ = 400) -/
example : ∃ (p : Cog21.P) (r t : ℝ), 0 < p.rho0 ∧ 0 < p.temp0 ∧ 0 < p.Gamma ∧ 0 < t ∧ 0 < r ∧ r < cog21Shock p t :=
  ⟨⟨400, 0, 0, 0, 0, 0, 9 / 5, 29 / 10⟩, 1 / 1000, 1, by norm_num, by norm_num, by norm_num, by norm_num,
    by norm_num, by norm_num [cog21Shock]⟩

/-! ### Solutions with γ < 1: positive temperature means negative internal energy -/

/-- Cog4 in the regime its documentation calls physical ("The only physical solutions for which T > 0 are
for γ < 1"): ρ > 0, T > 0, p > 0 -/
theorem cog4_admissible_partial (p : Cog4.P) (r t : ℝ) (hγ0 : 0 < p.gamma) (hγ : p.gamma < 1) (hρ : 0 < p.rho0)
    (hu : p.u0 ≠ 0) (hΓ : 0 < p.Gamma) (hr : 0 < r) :
    0 < Cog4.density p r t ∧ 0 < Cog4.temperature p r t ∧ 0 < Cog4.pressure p r t := by
  have hg : 0 < 1 - p.gamma := by linarith
  have hu2 : 0 < p.u0 ^ 2 := by positivity
  refine ⟨?_, ?_, ?_⟩ <;> epv_positivity

/-- **Finding**: in that same regime the returned specific internal energy is negative (e = Γ T/(γ-1));
for γ > 1 instead the temperature is negative.  No γ makes Cog4 admissible. -/
theorem finding_cog4_energy_negative (p : Cog4.P) (r t : ℝ) (hγ0 : 0 < p.gamma) (hγ : p.gamma < 1)
    (hρ : 0 < p.rho0) (hu : p.u0 ≠ 0) (hΓ : 0 < p.Gamma) (hr : 0 < r) :
    Cog4.specific_internal_energy p r t < 0 := by
  obtain ⟨h1, h2, h3⟩ := cog4_admissible_partial p r t hγ0 hγ hρ hu hΓ hr
  have he : Cog4.specific_internal_energy p r t = Cog4.pressure p r t / Cog4.density p r t / (p.gamma - 1) := by
    simp only [epv_tree, epv_leaf]
  rw [he]
  exact div_neg_of_pos_of_neg (div_pos h3 h1) (by linarith)

theorem finding_cog4_temperature_negative (p : Cog4.P) (r t : ℝ) (hγ : 1 < p.gamma)
    (hu : p.u0 ≠ 0) (hΓ : 0 < p.Gamma) (hr : 0 < r) : Cog4.temperature p r t < 0 := by
  have hg : 0 < p.gamma - 1 := by linarith
  have hu2 : 0 < p.u0 ^ 2 := by positivity
  have h0 : 0 < p.gamma := by linarith
  have hP := Real.rpow_pos_of_pos hr (2 * (-(p.geometry - 1) * (p.gamma - 1) / (p.gamma + 1)))
  simp only [epv_tree, epv_leaf]
  have : p.u0 ^ 2 * (1 - p.gamma) / (2 * p.gamma * p.Gamma) < 0 := by
    apply div_neg_of_neg_of_pos _ (by positivity)
    nlinarith
  nlinarith

/-- the defaults of Cog4 (γ = 1.4) are in the second case -/
example : ∃ (p : Cog4.P) (r : ℝ), 1 < p.gamma ∧ p.u0 ≠ 0 ∧ 0 < p.Gamma ∧ 0 < r :=
  ⟨⟨40, 0, 0, 0, 0, 7 / 5, 3, 0, 7 / 5, 23 / 10⟩, 1, by norm_num, by norm_num, by norm_num, by norm_num⟩

/-- Cog12 ("Note that T > 0 only when γ < 1"): same amplitudes as Cog4 -/
theorem cog12_admissible_partial (p : Cog12.P) (r t : ℝ) (hγ0 : 0 < p.gamma) (hγ : p.gamma < 1) (hρ : 0 < p.rho0)
    (hu : p.u0 ≠ 0) (hΓ : 0 < p.Gamma) (hr : 0 < r) :
    0 < Cog12.density p r t ∧ 0 < Cog12.temperature p r t ∧ 0 < Cog12.pressure p r t := by
  have hg : 0 < 1 - p.gamma := by linarith
  have hu2 : 0 < p.u0 ^ 2 := by positivity
  refine ⟨?_, ?_, ?_⟩ <;> epv_positivity

theorem finding_cog12_energy_negative (p : Cog12.P) (r t : ℝ) (hγ0 : 0 < p.gamma) (hγ : p.gamma < 1)
    (hρ : 0 < p.rho0) (hu : p.u0 ≠ 0) (hΓ : 0 < p.Gamma) (hr : 0 < r) :
    Cog12.specific_internal_energy p r t < 0 := by
  obtain ⟨h1, h2, h3⟩ := cog12_admissible_partial p r t hγ0 hγ hρ hu hΓ hr
  have he : Cog12.specific_internal_energy p r t = Cog12.pressure p r t / Cog12.density p r t / (p.gamma - 1) := by
    simp only [epv_tree]; split_ifs <;> simp only [epv_leaf]
  rw [he]
  exact div_neg_of_pos_of_neg (div_pos h3 h1) (by linarith)

/-- Cog5 (γ = 1/2 prescribed): ρ > 0, T ≥ 0, p ≥ 0 for u₀ ≥ 0 -/
theorem cog5_admissible_partial (p : Cog5.P) (r t : ℝ) (hρ : 0 < p.rho0) (hu : 0 ≤ p.u0) (hΓ : 0 < p.Gamma)
    (hr : 0 < r) : 0 < Cog5.density p r t ∧ 0 ≤ Cog5.temperature p r t ∧ 0 ≤ Cog5.pressure p r t := by
  refine ⟨?_, ?_, ?_⟩ <;> epv_positivity

/-- **Finding**: at its default parameters (u₀ = 2.3 > 0) Cog5 returns a negative specific internal energy,
e = -2 u₀ r -/
theorem finding_cog5_energy_negative (p : Cog5.P) (r t : ℝ) (hρ : 0 < p.rho0) (hu : 0 < p.u0) (hΓ : 0 < p.Gamma)
    (hr : 0 < r) : Cog5.specific_internal_energy p r t < 0 := by
  simp only [epv_tree, epv_leaf]
  have : p.Gamma * (p.rho0 * (r ^ 2)⁻¹ * 1) * (p.u0 * r / p.Gamma * 1) / (p.rho0 * (r ^ 2)⁻¹ * 1) / (-(1 / 2))
      = -2 * (p.u0 * r) := by
    field_simp
  rw [this]
  nlinarith [mul_pos hu hr]

/-- Cog3 (γ = (k-1)/(k+1) < 1 prescribed): ρ > 0 -/
theorem cog3_density_pos (p : Cog3.P) (r t : ℝ) (hρ : 0 < p.rho0) (hr : 0 < r) : 0 < Cog3.density p r t := by
  epv_positivity

/-- **Finding**: wherever Cog3's temperature is positive its specific internal energy is negative -/
theorem finding_cog3_energy_negative (p : Cog3.P) (r t : ℝ) (hρ : 0 < p.rho0) (hΓ : 0 < p.Gamma) (hr : 0 < r)
    (hgeo : 0 < p.geometry) (hT : 0 < Cog3.temperature p r t) : Cog3.specific_internal_energy p r t < 0 := by
  have hd := cog3_density_pos p r t hρ hr
  have hk : 0 < (p.geometry - 1) + 1 := by linarith
  have he : Cog3.specific_internal_energy p r t
      = p.Gamma * Cog3.density p r t * Cog3.temperature p r t / Cog3.density p r t
        / (((p.geometry - 1) - 1) / ((p.geometry - 1) + 1) - 1) := by
    simp only [epv_tree, epv_leaf]
  rw [he]
  apply div_neg_of_pos_of_neg (by positivity)
  rw [sub_neg, div_lt_one hk]; linarith

/-! ### Solutions whose temperature amplitude needs α < 0 -/

/-- Cog9: T = 2α(γ-1)(k+1)/(Γ c₃² (2α-2β-k-7)) (r/t)² ≥ 0 for α ≤ 0, β ≥ 0 (the documented ranges are
α ∈ [-2,-1], β ∈ [1,3]) -/
theorem cog9_admissible (p : Cog9.P) (r t : ℝ) (hγ : 1 < p.gamma) (hρ : 0 < p.rho0) (hΓ : 0 < p.Gamma)
    (hα : p.alpha ≤ 0) (hβ : 0 ≤ p.beta) (hgeo : 1 ≤ p.geometry) (hr : 0 < r)
    (hok : Cog9.outcome p r t = .ok) :
    0 < Cog9.density p r t ∧ 0 ≤ Cog9.temperature p r t ∧ 0 ≤ Cog9.pressure p r t
      ∧ 0 ≤ Cog9.specific_internal_energy p r t := by
  have hg : 0 < p.gamma - 1 := by linarith
  have hk : 0 < (p.geometry - 1) + 1 := by linarith
  have ht : 0 < t := by epv_domain hok
  have hd : 0 < Cog9.density p r t := by epv_positivity
  have hT : 0 ≤ Cog9.temperature p r t := by
    epv_select; simp only [epv_leaf]
    have hden : 2 * p.alpha - 2 * p.beta - (p.geometry - 1) - 7 < 0 := by linarith
    have hnum : 2 * p.alpha * (p.gamma - 1) * ((p.geometry - 1) + 1) / p.Gamma
        / (2 + (p.gamma - 1) * ((p.geometry - 1) + 1)) ^ 2 ≤ 0 := by
      apply div_nonpos_of_nonpos_of_nonneg _ (by positivity)
      apply div_nonpos_of_nonpos_of_nonneg _ hΓ.le
      have := mul_pos hg hk
      nlinarith
    have := div_nonneg_of_nonpos hnum hden.le
    positivity
  have hp : Cog9.pressure p r t = p.Gamma * Cog9.density p r t * Cog9.temperature p r t := by
    simp only [epv_tree]; split_ifs <;> (try simp only [epv_leaf]) <;> ring
  have he : Cog9.specific_internal_energy p r t = Cog9.pressure p r t / Cog9.density p r t / (p.gamma - 1) := by
    simp only [epv_tree]; split_ifs <;> (try simp only [epv_leaf]) <;> ring
  have hp0 : 0 ≤ Cog9.pressure p r t := by rw [hp]; positivity
  exact ⟨hd, hT, hp0, by rw [he]; positivity⟩

/-- Cog18 (|t| < τ): T = α τ²/(Γ (2α-2β-k-7)) r²/(τ²-t²)² ≥ 0 for α ≤ 0, β ≥ 0 -/
theorem cog18_admissible (p : Cog18.P) (r t : ℝ) (hρ : 0 < p.rho0) (hΓ : 0 < p.Gamma)
    (hα : p.alpha ≤ 0) (hβ : 0 ≤ p.beta) (hgeo : 1 ≤ p.geometry) (hr : 0 < r) (hτ : t ^ 2 < p.tau ^ 2) :
    0 < Cog18.density p r t ∧ 0 ≤ Cog18.temperature p r t ∧ 0 ≤ Cog18.pressure p r t
      ∧ 0 ≤ Cog18.specific_internal_energy p r t := by
  have hx : 0 < p.tau ^ 2 - t ^ 2 := by linarith
  have hk : 0 < (p.geometry - 1) + 1 := by linarith
  have hg : 0 < ((p.geometry - 1) + 3) / ((p.geometry - 1) + 1) - 1 := by
    rw [sub_pos, lt_div_iff₀ hk]; linarith
  have hd : 0 < Cog18.density p r t := by epv_positivity
  have hT : 0 ≤ Cog18.temperature p r t := by
    simp only [epv_tree, epv_leaf]
    have hden : 2 * p.alpha - 2 * p.beta - (p.geometry - 1) - 7 < 0 := by linarith
    have hnum : p.alpha * p.tau ^ 2 / p.Gamma ≤ 0 := by
      apply div_nonpos_of_nonpos_of_nonneg _ hΓ.le
      nlinarith [sq_nonneg p.tau]
    have := div_nonneg_of_nonpos hnum hden.le
    positivity
  have hp : Cog18.pressure p r t = p.Gamma * Cog18.density p r t * Cog18.temperature p r t := by
    simp only [epv_tree, epv_leaf]
  have he : Cog18.specific_internal_energy p r t
      = Cog18.pressure p r t / Cog18.density p r t / (((p.geometry - 1) + 3) / ((p.geometry - 1) + 1) - 1) := by
    simp only [epv_tree, epv_leaf]
  have hp0 : 0 ≤ Cog18.pressure p r t := by rw [hp]; positivity
  exact ⟨hd, hT, hp0, by rw [he]; positivity⟩

/-- **Finding** (C17 is false for Cog17): on the WHOLE parameter range the solver's own warnings call valid —
α ∈ [-2,-1], β ∈ [1,3], geometry ∈ {1,2,3} — and every Γ > 0, the returned temperature is ≤ 0
(the amplitude T₀ = (α-1)(2β+5)/(Γ x₃²) · (9-(1-α)(k+1))/(2β-4+2(1-α)) has the sign of α - 1). -/
theorem finding_cog17_temperature_nonpositive (p : Cog17.P) (r t : ℝ) (hΓ : 0 < p.Gamma)
    (hα1 : -2 ≤ p.alpha) (hα2 : p.alpha ≤ -1) (hβ1 : 1 ≤ p.beta) (hβ2 : p.beta ≤ 3)
    (hgeo : p.geometry = 1 ∨ p.geometry = 2 ∨ p.geometry = 3) :
    Cog17.temperature p r t ≤ 0 := by
  simp only [epv_tree]
  split_ifs
  · exact le_refl _
  simp only [epv_leaf]
  have ha : 0 ≤ 1 - p.alpha := by linarith
  have hx4 : 0 ≤ 9 - (1 - p.alpha) * ((p.geometry - 1) + 1) := by
    rcases hgeo with h | h | h <;> rw [h] <;> nlinarith
  have hx5 : 0 < 2 * p.beta - 4 + 2 * (1 - p.alpha) := by linarith
  have hx2 : 0 < 2 * p.beta + 5 := by linarith
  have key : (2 * p.beta + 5) * (p.alpha - 1) / p.Gamma
      / (2 * p.beta - 4 + (1 - p.alpha) * ((p.geometry - 1) + 1)) ^ 2 ≤ 0 := by
    apply div_nonpos_of_nonpos_of_nonneg _ (by positivity)
    apply div_nonpos_of_nonpos_of_nonneg _ hΓ.le
    nlinarith
  have h2 : (2 * p.beta + 5) * (p.alpha - 1) / p.Gamma
      / (2 * p.beta - 4 + (1 - p.alpha) * ((p.geometry - 1) + 1)) ^ 2
      * (9 - (1 - p.alpha) * ((p.geometry - 1) + 1)) / (2 * p.beta - 4 + 2 * (1 - p.alpha)) ≤ 0 :=
    div_nonpos_of_nonpos_of_nonneg (mul_nonpos_of_nonpos_of_nonneg key hx4) hx5.le
  have h3 : 0 ≤ (r / t) ^ 2 := by positivity
  nlinarith

/-- … and strictly negative at a concrete point of that range (α = -3/2, β = 1, spherical, Γ = 40, r = t = 1):
T = -35/1210 -/
theorem finding_cog17_temperature_negative :
    Cog17.temperature ⟨40, 0, -3 / 2, 0, 1, 0, 0, 7 / 5, 3, 0, 1 / 10⟩ 1 1 < 0 := by
  simp only [epv_tree, epv_cond, epv_leaf]
  norm_num

end EPV.C17
