/-
C17 — Cog17: the temperature is ≤ 0 on the whole parameter range its own warnings call valid (finding).
-/
import EPV.Gen.Cog17
import EPV.Lemmas.HydroTactics

set_option linter.all false

open EPV EPV.Gen

namespace EPV.C17

/-- **Finding** (C17 is false for Cog17): on the WHOLE parameter range the solver's own warnings call valid —
α ∈ [-2,-1], β ∈ [1,3], geometry ∈ {1,2,3} — and every Γ > 0, the returned temperature is ≤ 0
(the amplitude T₀ = (α-1)(2β+5)/(Γ x₃²) · (9-(1-α)(k+1))/(2β-4+2(1-α)) has the sign of α - 1). -/
theorem finding_cog17_temperature_nonpositive (p : Cog17.P) (r t : ℝ) (hΓ : 0 < p.Gamma)
    (hα1 : -2 ≤ p.alpha) (hα2 : p.alpha ≤ -1) (hβ1 : 1 ≤ p.beta) (hβ2 : p.beta ≤ 3)
    (hgeo : p.geometry = 1 ∨ p.geometry = 2 ∨ p.geometry = 3) :
    Cog17.temperature p r t ≤ 0 := by
  simp only [epv_tree]
  split_ifs
  · exact le_refl _
  simp only [epv_leaf]
  have ha : 0 ≤ 1 - p.alpha := by linarith
  have hx4 : 0 ≤ 9 - (1 - p.alpha) * ((p.geometry - 1) + 1) := by
    rcases hgeo with h | h | h <;> rw [h] <;> nlinarith
  have hx5 : 0 < 2 * p.beta - 4 + 2 * (1 - p.alpha) := by linarith
  have hx2 : 0 < 2 * p.beta + 5 := by linarith
  have key : (2 * p.beta + 5) * (p.alpha - 1) / p.Gamma
      / (2 * p.beta - 4 + (1 - p.alpha) * ((p.geometry - 1) + 1)) ^ 2 ≤ 0 := by
    apply div_nonpos_of_nonpos_of_nonneg _ (by positivity)
    apply div_nonpos_of_nonpos_of_nonneg _ hΓ.le
    nlinarith
  have h2 : (2 * p.beta + 5) * (p.alpha - 1) / p.Gamma
      / (2 * p.beta - 4 + (1 - p.alpha) * ((p.geometry - 1) + 1)) ^ 2
      * (9 - (1 - p.alpha) * ((p.geometry - 1) + 1)) / (2 * p.beta - 4 + 2 * (1 - p.alpha)) ≤ 0 :=
    div_nonpos_of_nonpos_of_nonneg (mul_nonpos_of_nonpos_of_nonneg key hx4) hx5.le
  have h3 : 0 ≤ (r / t) ^ 2 := by positivity
  nlinarith

/-- … and strictly negative at a concrete point of that range (α = -3/2, β = 1, spherical, Γ = 40, r = t = 1):
T = -35/1210 -/
theorem finding_cog17_temperature_negative :
    Cog17.temperature ⟨40, 0, -3 / 2, 0, 1, 0, 0, 7 / 5, 3, 0, 1 / 10⟩ 1 1 < 0 := by
  simp only [epv_tree, epv_cond, epv_leaf]
  norm_num

/-- non-vacuity of the universal statement: the witness above lies in the range -/
example : (0 : ℝ) < 40 ∧ (-2 : ℝ) ≤ -3 / 2 ∧ (-3 / 2 : ℝ) ≤ -1 ∧ (1 : ℝ) ≤ 1 ∧ (1 : ℝ) ≤ 3 := by norm_num

end EPV.C17
