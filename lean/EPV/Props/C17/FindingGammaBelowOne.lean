/-
C17 — Cog3, Cog4, Cog5, Cog12: their γ is < 1 (prescribed, or required for T > 0 as the docstrings say).  ρ, T, p
have the right signs there (partial), the returned specific internal energy e = Γ T/(γ-1) is negative (findings).
-/
import EPV.Gen.Cog3
import EPV.Gen.Cog4
import EPV.Gen.Cog5
import EPV.Gen.Cog12
import EPV.Lemmas.HydroTactics

set_option linter.all false

open EPV EPV.Gen

namespace EPV.C17

/-- Cog4 in the regime its documentation calls physical ("The only physical solutions for which T > 0 are
for γ < 1"): ρ > 0, T > 0, p > 0 -/
theorem cog4_admissible_partial (p : Cog4.P) (r t : ℝ) (hγ0 : 0 < p.gamma) (hγ : p.gamma < 1) (hρ : 0 < p.rho0)
    (hu : p.u0 ≠ 0) (hΓ : 0 < p.Gamma) (hr : 0 < r) :
    0 < Cog4.density p r t ∧ 0 < Cog4.temperature p r t ∧ 0 < Cog4.pressure p r t := by
  have hg : 0 < 1 - p.gamma := by linarith
  have hu2 : 0 < p.u0 ^ 2 := by positivity
  refine ⟨?_, ?_, ?_⟩ <;> epv_positivity

/-- **Finding**: in that same regime the returned specific internal energy is negative (e = Γ T/(γ-1));
for γ > 1 instead the temperature is negative.  No γ makes Cog4 admissible. -/
theorem finding_cog4_energy_negative (p : Cog4.P) (r t : ℝ) (hγ0 : 0 < p.gamma) (hγ : p.gamma < 1)
    (hρ : 0 < p.rho0) (hu : p.u0 ≠ 0) (hΓ : 0 < p.Gamma) (hr : 0 < r) :
    Cog4.specific_internal_energy p r t < 0 := by
  obtain ⟨h1, h2, h3⟩ := cog4_admissible_partial p r t hγ0 hγ hρ hu hΓ hr
  have hg1 : p.gamma - 1 < 0 := by linarith
  have he : Cog4.specific_internal_energy p r t = Cog4.pressure p r t / Cog4.density p r t / (p.gamma - 1) := by
    clear h2 h3
    epv_hydro_via_atoms (Cog4.pressure p r t) (Cog4.density p r t)
  rw [he]
  exact div_neg_of_pos_of_neg (div_pos h3 h1) (by linarith)

theorem finding_cog4_temperature_negative (p : Cog4.P) (r t : ℝ) (hγ : 1 < p.gamma)
    (hu : p.u0 ≠ 0) (hΓ : 0 < p.Gamma) (hr : 0 < r) : Cog4.temperature p r t < 0 := by
  have hg : 0 < p.gamma - 1 := by linarith
  have hu2 : 0 < p.u0 ^ 2 := by positivity
  have h0 : 0 < p.gamma := by linarith
  have hP := Real.rpow_pos_of_pos hr (2 * (-(p.geometry - 1) * (p.gamma - 1) / (p.gamma + 1)))
  -- the generated leaf enters only through its documented closed form T = u₀²(1-γ)/(2γΓ) r^(2x₂)
  have hT : Cog4.temperature p r t = p.u0 ^ 2 * (1 - p.gamma) / (2 * p.gamma * p.Gamma)
      * r ^ (2 * (-(p.geometry - 1) * (p.gamma - 1) / (p.gamma + 1))) := by
    simp only [epv_tree, epv_leaf] <;> epv_hydro_closed
  have : p.u0 ^ 2 * (1 - p.gamma) / (2 * p.gamma * p.Gamma) < 0 := by
    apply div_neg_of_neg_of_pos _ (by positivity)
    nlinarith
  rw [hT]
  exact mul_neg_of_neg_of_pos this hP

/-- the defaults of Cog4 (γ = 1.4) are in the second case -/
example : ∃ (p : Cog4.P) (r : ℝ), 1 < p.gamma ∧ p.u0 ≠ 0 ∧ 0 < p.Gamma ∧ 0 < r :=
  ⟨⟨40, 0, 0, 0, 0, 7 / 5, 3, 0, 7 / 5, 23 / 10⟩, 1, by norm_num, by norm_num, by norm_num, by norm_num⟩

/-- Cog12 ("Note that T > 0 only when γ < 1"): same amplitudes as Cog4 -/
theorem cog12_admissible_partial (p : Cog12.P) (r t : ℝ) (hγ0 : 0 < p.gamma) (hγ : p.gamma < 1) (hρ : 0 < p.rho0)
    (hu : p.u0 ≠ 0) (hΓ : 0 < p.Gamma) (hr : 0 < r) :
    0 < Cog12.density p r t ∧ 0 < Cog12.temperature p r t ∧ 0 < Cog12.pressure p r t := by
  have hg : 0 < 1 - p.gamma := by linarith
  have hu2 : 0 < p.u0 ^ 2 := by positivity
  refine ⟨?_, ?_, ?_⟩ <;> epv_positivity

theorem finding_cog12_energy_negative (p : Cog12.P) (r t : ℝ) (hγ0 : 0 < p.gamma) (hγ : p.gamma < 1)
    (hρ : 0 < p.rho0) (hu : p.u0 ≠ 0) (hΓ : 0 < p.Gamma) (hr : 0 < r) :
    Cog12.specific_internal_energy p r t < 0 := by
  obtain ⟨h1, h2, h3⟩ := cog12_admissible_partial p r t hγ0 hγ hρ hu hΓ hr
  have hg1 : p.gamma - 1 < 0 := by linarith
  have he : Cog12.specific_internal_energy p r t = Cog12.pressure p r t / Cog12.density p r t / (p.gamma - 1) := by
    clear h2 h3
    epv_hydro_via_atoms (Cog12.pressure p r t) (Cog12.density p r t)
  rw [he]
  exact div_neg_of_pos_of_neg (div_pos h3 h1) (by linarith)

/-- Cog5 (γ = 1/2 prescribed): ρ > 0, T ≥ 0, p ≥ 0 for u₀ ≥ 0 -/
theorem cog5_admissible_partial (p : Cog5.P) (r t : ℝ) (hρ : 0 < p.rho0) (hu : 0 ≤ p.u0) (hΓ : 0 < p.Gamma)
    (hr : 0 < r) : 0 < Cog5.density p r t ∧ 0 ≤ Cog5.temperature p r t ∧ 0 ≤ Cog5.pressure p r t := by
  refine ⟨?_, ?_, ?_⟩ <;> epv_positivity

/-- **Finding**: at its default parameters (u₀ = 2.3 > 0) Cog5 returns a negative specific internal energy,
e = -2 u₀ r -/
theorem finding_cog5_energy_negative (p : Cog5.P) (r t : ℝ) (hρ : 0 < p.rho0) (hu : 0 < p.u0) (hΓ : 0 < p.Gamma)
    (hr : 0 < r) : Cog5.specific_internal_energy p r t < 0 := by
  -- e = p / ρ / (γ - 1) with γ = 1/2, p = Γ ρ T, T = u₀ r / Γ: the generated leaves enter only through these relations
  have hd : 0 < Cog5.density p r t := (cog5_admissible_partial p r t hρ hu.le hΓ hr).1
  have hT : Cog5.temperature p r t = p.u0 * r / p.Gamma := by
    simp only [epv_tree, epv_leaf] <;> epv_hydro_closed
  have hp : Cog5.pressure p r t = p.Gamma * Cog5.density p r t * Cog5.temperature p r t := by
    simp only [epv_tree, epv_leaf] <;> ring
  have he : Cog5.specific_internal_energy p r t = Cog5.pressure p r t / Cog5.density p r t / (-(1 / 2)) := by
    clear hp hT
    epv_hydro_via_atoms (Cog5.pressure p r t) (Cog5.density p r t)
  have : Cog5.specific_internal_energy p r t = -2 * (p.u0 * r) := by
    rw [he, hp, hT]
    have hd' := hd.ne'
    have hΓ' := hΓ.ne'
    field_simp
  rw [this]
  nlinarith [mul_pos hu hr]

/-- Cog3 (γ = (k-1)/(k+1) < 1 prescribed): ρ > 0 -/
theorem cog3_density_pos (p : Cog3.P) (r t : ℝ) (hρ : 0 < p.rho0) (hr : 0 < r) : 0 < Cog3.density p r t := by
  epv_positivity

/-- **Finding**: wherever Cog3's temperature is positive its specific internal energy is negative -/
theorem finding_cog3_energy_negative (p : Cog3.P) (r t : ℝ) (hρ : 0 < p.rho0) (hΓ : 0 < p.Gamma) (hr : 0 < r)
    (hgeo : 0 < p.geometry) (hT : 0 < Cog3.temperature p r t) : Cog3.specific_internal_energy p r t < 0 := by
  have hd := cog3_density_pos p r t hρ hr
  have hk : 0 < (p.geometry - 1) + 1 := by linarith
  have hX : ((p.geometry - 1) - 1) / ((p.geometry - 1) + 1) - 1 < 0 := by
    rw [sub_neg, div_lt_one hk]; linarith
  have hp : Cog3.pressure p r t = p.Gamma * Cog3.density p r t * Cog3.temperature p r t := by
    simp only [epv_tree, epv_leaf] <;> ring
  have he : Cog3.specific_internal_energy p r t
      = Cog3.pressure p r t / Cog3.density p r t / (((p.geometry - 1) - 1) / ((p.geometry - 1) + 1) - 1) := by
    clear hp hT
    epv_hydro_via_atoms (Cog3.pressure p r t) (Cog3.density p r t)
  rw [he, hp]
  exact div_neg_of_pos_of_neg (by positivity) hX

/-! ### non-vacuity -/

/-- Cog4 / Cog12 with γ = 1/2 -/
example : ∃ (p : Cog4.P) (r : ℝ), 0 < p.gamma ∧ p.gamma < 1 ∧ 0 < p.rho0 ∧ p.u0 ≠ 0 ∧ 0 < p.Gamma ∧ 0 < r :=
  ⟨⟨40, 0, 0, 0, 0, 1 / 2, 3, 0, 7 / 5, 23 / 10⟩, 1, by norm_num, by norm_num, by norm_num, by norm_num, by norm_num,
    by norm_num⟩

example : ∃ (p : Cog12.P) (r : ℝ), 0 < p.gamma ∧ p.gamma < 1 ∧ 0 < p.rho0 ∧ p.u0 ≠ 0 ∧ 0 < p.Gamma ∧ 0 < r :=
  ⟨⟨40, 0, 0, 1, 0, 0, 1 / 2, 3, 0, 9 / 5, 23 / 10⟩, 1, by norm_num, by norm_num, by norm_num, by norm_num,
    by norm_num, by norm_num⟩

/-- the class defaults of Cog5 -/
example : ∃ (p : Cog5.P) (r : ℝ), 0 < p.rho0 ∧ 0 < p.u0 ∧ 0 < p.Gamma ∧ 0 < r :=
  ⟨⟨40, 0, 0, 0, 0, 0, 9 / 5, 23 / 10⟩, 1, by norm_num, by norm_num, by norm_num, by norm_num⟩

/-- the class defaults of Cog3 (spherical, v = 1/2, b = 6/5): T = (b r/v)²/(Γ (k-v-1)) > 0 at r = 1 -/
example : ∃ (p : Cog3.P) (r t : ℝ), 0 < p.rho0 ∧ 0 < p.Gamma ∧ 0 < r ∧ 0 < p.geometry ∧ 0 < Cog3.temperature p r t :=
  ⟨⟨40, 0, 0, 6 / 5, 0, 0, 3, 0, 9 / 5, 1 / 2⟩, 1, 0, by norm_num, by norm_num, by norm_num, by norm_num, by
    simp only [epv_tree, epv_leaf]; norm_num⟩

end EPV.C17
