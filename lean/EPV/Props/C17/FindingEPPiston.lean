/-
C17 — FINDING: the elastic–plastic piston returns an *expansion* "plastic wave" for a weak piston.

The documentation and the constructor allow every piston velocity `up ≥ 0`.  The material yields only
if the piston is faster than the particle velocity behind the elastic precursor, `up > vel_y`
(= 0.00296 cm/μs for the default aluminium).  For `0 ≤ up < vel_y` there is no plastic wave, but the
constructor solves the plastic jump conditions anyway and `_run` returns, behind x = wv_pl · t, a
state with ρ2 < ρ_y and p2 < p_y (for up = 0: p2 = -0.00078 Mbar): density and stress *drop* in
the direction the material crosses the wave — not admissible.

* `weak_piston_expansive` : for every consistent constructor result with 0 < ρ_y and
  up < vel_y < wv_pl the returned ρ2 is *smaller* than ρ_y (the negation of "compressive");
* `weak_piston_witness`   : such parameter sets are admissible: default problem with up = 0.001
  (G, Y, rho0 > 0, up ≥ 0 — accepted), where vel_y > 0.002 > up.
Reproduced on the real code by `o_detonation.epp_weak_piston` (site `EPpiston:weak-piston`).
-/
import EPV.Lemmas.EPPistonExists
import EPV.Tactics
import EPV.Lemmas.Bridge.EPPiston

set_option linter.all false

open EPV EPV.Gen EPV.EPP

namespace EPV.C17

theorem weak_piston_expansive (p : EPPistonIfin.P) (h : EPPistonIfin.outcome p = .ok) (hc : ifinConsistent p)
    (hρ : 0 < p.rho_y) (h1 : p.up < p.vel_y) (h2 : p.vel_y < p.wv_pl) : p.rho2 < p.rho_y := by
  rw [(EPP.ifin_doc p h hc).1.rho2_eq]
  have a : 0 < p.wv_pl - p.up := by linarith
  have b : (p.wv_pl - p.vel_y) / (p.wv_pl - p.up) < 1 := by rw [div_lt_one a]; linarith
  nlinarith

/-- the default problem with the admissible piston velocity up = 0.001 (wv_pl free) -/
noncomputable def weakPiston (wv_pl : ℝ) : EPPistonIfin.P :=
  ifinSolve (143/500) (13/5000) (533/1000) 2 (279/100) (67/50) (1/1000) wv_pl

theorem weak_piston_witness (wv_pl : ℝ) :
    EPPistonIfin.outcome (weakPiston wv_pl) = .ok ∧ ifinConsistent (weakPiston wv_pl) ∧
    0 < (weakPiston wv_pl).rho_y ∧ 0 ≤ (weakPiston wv_pl).up ∧ (weakPiston wv_pl).up < (weakPiston wv_pl).vel_y := by
  have hok := ifinSolve_consistent (143/500) (13/5000) (533/1000) 2 (279/100) (67/50) (1/1000) wv_pl
    (by norm_num) (by norm_num) (by norm_num) (by norm_num)
  -- the documented formulas of the constructor (bridge), not the shape of the generated definitions
  have hρy : (weakPiston wv_pl).rho_y ≠ 0 := by
    simp only [weakPiston, ifinSolve, epv_leaf, Real.rpow_neg_one, Real.rpow_two]; norm_num
  have hdoc := (EPP.ifin_doc (weakPiston wv_pl) hok.1 hok.2).1
  have h2 : (weakPiston wv_pl).vel_y = (weakPiston wv_pl).wv_el * ((weakPiston wv_pl).rho_y - (weakPiston wv_pl).rho0)
      / (weakPiston wv_pl).rho_y := hdoc.vel_y_eq hρy
  have h3 : (weakPiston wv_pl).wv_el = Real.sqrt ((weakPiston wv_pl).rho_y * ((weakPiston wv_pl).sdev_y - (weakPiston wv_pl).p_y)
      / ((weakPiston wv_pl).rho0 * ((weakPiston wv_pl).rho0 - (weakPiston wv_pl).rho_y))) := hdoc.wv_el_eq
  have h4 : (6 : ℝ) / 10 ≤ (weakPiston wv_pl).wv_el := by
    rw [h3]; apply Real.le_sqrt_of_sq_le
    simp only [weakPiston, ifinSolve, epv_leaf, Real.rpow_neg_one, Real.rpow_two]; norm_num
  have h6 : ((weakPiston wv_pl).rho_y - (weakPiston wv_pl).rho0) / (weakPiston wv_pl).rho_y = 13 / 2860 := by
    simp only [weakPiston, ifinSolve, epv_leaf, Real.rpow_neg_one, Real.rpow_two]; norm_num
  have h7 : (weakPiston wv_pl).up = 1 / 1000 := rfl
  refine ⟨hok.1, hok.2, ?_, by rw [h7]; norm_num, ?_⟩
  · simp only [weakPiston, ifinSolve, epv_leaf, Real.rpow_neg_one, Real.rpow_two]; norm_num
  · rw [h2, mul_div_assoc, h6, h7]; nlinarith

/-- **Finding.**  An admissible piston velocity for which every plastic wave the constructor can come up
with (any wv_pl faster than the material ahead of it) is an expansion wave. -/
theorem weak_piston_not_compressive (wv_pl : ℝ) (hw : (weakPiston wv_pl).vel_y < wv_pl) :
    ¬ (weakPiston wv_pl).rho_y < (weakPiston wv_pl).rho2 := by
  obtain ⟨h, hc, hρ, _, h1⟩ := weak_piston_witness wv_pl
  have := weak_piston_expansive (weakPiston wv_pl) h hc hρ h1 hw
  linarith

end EPV.C17
