/-
C06 — soundness of the definite-assignment analysis (re-exported under the property
namespace so that the check audits its axioms; the proofs live next to the model in
`EPV/Model/Effects.lean`, core Lean only).
-/
import EPV.Model.Effects

open EPV.Model.Effects

namespace EPV.C06

/-- if `da` accepts `s` from a state whose constants are true of the initial store, every execution
is clean, everything claimed written is written, and the final constants are true -/
theorem da_sound {s : Stmt} {σ σ' : Store} {tr : List Ev} (h : Exec s σ tr σ')
    {A A' : AState} (hd : da s A = some A') (hk : KnSound A.kn σ) :
    cleanFrom tr A.wr = true ∧ (∀ x, x ∈ A'.wr → x ∈ after tr A.wr) ∧ KnSound A'.kn σ' :=
  EPV.Model.Effects.da_sound h hd hk

/-- an accepted entry point, from any store, reads only what it has itself written -/
theorem accepted_clean {s : Stmt} (hacc : (da s A0).isSome = true) {σ σ' : Store} {tr : List Ev}
    (h : Exec s σ tr σ') : cleanFrom tr [] = true :=
  EPV.Model.Effects.accepted_clean hacc h

/-- non-vacuity: a program that is rejected (reads before writing) and one that is accepted -/
example : (da (.seq (.r 0) (.w 0)) A0).isSome = false := by decide
example : (da (.seq (.wc 1 2) (.seq (.w 0) (.iteEq 1 2 (.r 0) (.r 5)))) A0).isSome = true := by decide

end EPV.C06
