/-
C06 — the value of a call does not depend on the history of earlier calls and
constructions in the same interpreter, as far as *shared mutable state* is concerned.

1. `*_accepted` (by `decide` on the generated effect programs, `EPV/Gen/Effects.lean`,
   regenerated from the AST on every run): the definite-assignment analysis accepts every
   entry point that touches module-level globals — Guderley (`ramsey.guderley_1d`, incl.
   `eexp`), RMTV (`timmes.rmtv`), Su-Olson (`timmes.suolson`), and the four radiative-shock
   drivers (module global `utils.fnctn`).
2. `EPV.Model.Effects.da_sound` (core Lean, in the model file): acceptance implies that in
   every execution from every initial store each read hits a location the same call wrote.
3. `clean_run_store_independent` below: for a deterministic call whose behaviour depends on
   the shared store only through its reads, a clean trace makes output *and* trace the same
   from any two initial stores; `history_independent`: hence in any finite history of calls
   each call returns what it returns when run first in a fresh interpreter.

The tie between the real code and the effect programs (that real executions are traces of
the IR) is the extractor, validated on every run by logging the real LOAD_GLOBAL /
STORE_GLOBAL events of real solver calls and matching them against the IR.
-/
import EPV.Gen.Effects

set_option linter.all false
set_option maxRecDepth 1000000

open EPV.Model.Effects EPV.Gen.Effects

namespace EPV.C06

/-! ### 1. every generated entry point is accepted -/

/-- entry points the analysis rejects on the current tree (each has a `…_finding` theorem and an
entry in known_findings.json) -/
def rejected : List String := ["run_NohBlackBoxEos"]

theorem all_accepted : ∀ p ∈ programs, p.1 ∈ rejected ∨ (da p.2 A0).isSome = true := by
  decide +kernel

/-- the seven entry points that touch module-level globals -/
def moduleEntryPoints : List String :=
  ["guderley_guderley_1d", "rmtv_rmtv", "suolson_suolson", "radshocks_greyED_RadShock_ED_driver",
   "radshocks_greyNED_RadShock_nED_driver", "radshocks_greySn_RadShock_Sn_driver",
   "radshocks_Shock_2Tie_IE_driver"]

/-- the generated table really contains them (non-vacuity) … -/
theorem programs_names : ∀ n ∈ moduleEntryPoints, n ∈ programs.map (·.1) := by
  decide +kernel

/-- … and the `_run` of the classes that have class-level mutable attributes some method mutates -/
theorem programs_classes : ∀ n ∈ ["run_Blake", "run_NohBlackBoxEos"], n ∈ programs.map (·.1) := by
  decide +kernel

/-- the programs are not trivial: each module-level entry point contains a read of a shared location -/
def hasRead : Stmt → Bool
  | .r _ => true
  | .iteEq _ _ _ _ => true
  | .seq a b => hasRead a || hasRead b
  | .ite a b => hasRead a || hasRead b
  | .loop a => hasRead a
  | _ => false

theorem programs_read : ∀ p ∈ programs, p.1 ∈ moduleEntryPoints → hasRead p.2 = true := by
  decide +kernel

/-- FINDING: `NohBlackBoxEos._run` reads the class-level `solver` object, which every instance
shares and any instance may reconfigure, without having written it in the same call -/
theorem nohblackbox_shared_solver_finding :
    ∃ p ∈ programs, p.1 = "run_NohBlackBoxEos" ∧ da p.2 A0 = none := by
  decide +kernel

/-- hence: every execution of every entry point, from any store, reads only its own writes -/
theorem entry_points_clean (p : String × Stmt) (hp : p ∈ programs) (hr : p.1 ∉ rejected)
    {σ σ' : Store} {tr : List Ev} (h : Exec p.2 σ tr σ') : cleanFrom tr [] = true :=
  accepted_clean ((all_accepted p hp).resolve_left hr) h

/-! ### 2. clean traces ⇒ independence of the initial store -/

/-- what a deterministic call does next, as a function of the values it has read so far
(its own arguments and parameters are baked into the function) -/
inductive Act (Out : Type) where
  | read (l : Loc)
  | write (l : Loc) (v : Val)
  | done (o : Out)

abbrev Prog (Out : Type) := List Val → Act Out

/-- run with fuel: output, event trace, final store -/
def run {Out : Type} (p : Prog Out) : Nat → Store → List Val → Option (Out × List Ev × Store)
  | 0, _, _ => none
  | n + 1, σ, rs =>
    match p rs with
    | .read l => (run p n σ (rs ++ [σ l])).map (fun r => (r.1, Ev.r l :: r.2.1, r.2.2))
    | .write l v => (run p n (σ.set l v) rs).map (fun r => (r.1, Ev.w l :: r.2.1, r.2.2))
    | .done o => some (o, [], σ)

/-- **Store independence.**  If a run from σ₁ has a trace that is clean from `d` and σ₂ agrees
with σ₁ on `d`, the run from σ₂ has the same output and the same trace. -/
theorem run_agree {Out : Type} (p : Prog Out) :
    ∀ (n : Nat) (σ₁ σ₂ : Store) (rs : List Val) (d : List Loc) (o : Out) (t : List Ev) (σ₁' : Store),
      (∀ x ∈ d, σ₁ x = σ₂ x) → run p n σ₁ rs = some (o, t, σ₁') → cleanFrom t d = true →
      ∃ σ₂', run p n σ₂ rs = some (o, t, σ₂') := by
  intro n
  induction n with
  | zero => intro σ₁ σ₂ rs d o t σ₁' _ h; simp [run] at h
  | succ n ih =>
    intro σ₁ σ₂ rs d o t σ₁' hag h hc
    simp only [run] at h ⊢
    cases hp : p rs with
    | read l =>
      rw [hp] at h
      simp only [Option.map_eq_some_iff] at h
      obtain ⟨⟨o', t', s'⟩, hr, heq⟩ := h
      simp only [Prod.mk.injEq] at heq
      obtain ⟨rfl, rfl, rfl⟩ := heq
      simp only [cleanFrom, Bool.and_eq_true, decide_eq_true_eq] at hc
      have hl : σ₁ l = σ₂ l := hag l hc.1
      obtain ⟨σ₂', h2⟩ := ih σ₁ σ₂ (rs ++ [σ₁ l]) d o' t' s' hag hr hc.2
      refine ⟨σ₂', ?_⟩
      simp only
      rw [← hl, h2]
      rfl
    | write l v =>
      rw [hp] at h
      simp only [Option.map_eq_some_iff] at h
      obtain ⟨⟨o', t', s'⟩, hr, heq⟩ := h
      simp only [Prod.mk.injEq] at heq
      obtain ⟨rfl, rfl, rfl⟩ := heq
      simp only [cleanFrom] at hc
      have hag' : ∀ x ∈ l :: d, (σ₁.set l v) x = (σ₂.set l v) x := by
        intro x hx
        by_cases hxl : x = l
        · subst hxl; simp [Store.set]
        · rw [set_other hxl, set_other hxl]
          rcases List.mem_cons.mp hx with h' | h'
          · exact absurd h' hxl
          · exact hag x h'
      obtain ⟨σ₂', h2⟩ := ih (σ₁.set l v) (σ₂.set l v) rs (l :: d) o' t' s' hag' hr hc
      refine ⟨σ₂', ?_⟩
      simp only
      rw [h2]
      rfl
    | done o' =>
      rw [hp] at h
      simp only [Option.some.injEq, Prod.mk.injEq] at h
      obtain ⟨rfl, rfl, rfl⟩ := h
      exact ⟨σ₂, rfl⟩

/-- a call all of whose traces are clean from the empty set (what `entry_points_clean` gives) -/
def CleanProg {Out : Type} (p : Prog Out) : Prop :=
  ∀ n σ o t σ', run p n σ [] = some (o, t, σ') → cleanFrom t [] = true

/-- the output of a clean call is the same from any two initial stores -/
theorem clean_run_store_independent {Out : Type} (p : Prog Out) (hp : CleanProg p) (n : Nat)
    (σ₁ σ₂ : Store) : (run p n σ₁ []).map (·.1) = (run p n σ₂ []).map (·.1) := by
  cases h1 : run p n σ₁ [] with
  | some r1 =>
    obtain ⟨o, t, s⟩ := r1
    obtain ⟨s2, h2⟩ := run_agree p n σ₁ σ₂ [] [] o t s (by simp) h1 (hp n σ₁ o t s h1)
    rw [h2]
    rfl
  | none =>
    cases h2 : run p n σ₂ [] with
    | none => rfl
    | some r2 =>
      obtain ⟨o, t, s⟩ := r2
      obtain ⟨s1, h1'⟩ := run_agree p n σ₂ σ₁ [] [] o t s (by simp) h2 (hp n σ₂ o t s h2)
      rw [h1] at h1'; cases h1'

/-- run a history of calls one after the other, threading the shared store; collect the outputs
(`none` for a call that does not finish within the fuel) -/
def runHistory {Out : Type} (n : Nat) : List (Prog Out) → Store → List (Option Out)
  | [], _ => []
  | p :: ps, σ =>
    match run p n σ [] with
    | some r => some r.1 :: runHistory n ps r.2.2
    | none => none :: runHistory n ps σ

/-- **History independence.**  In any finite history of clean calls, each call returns exactly
what it returns when it is run first, from the fresh store. -/
theorem history_independent {Out : Type} (n : Nat) (fresh : Store) :
    ∀ (ps : List (Prog Out)) (σ : Store), (∀ p ∈ ps, CleanProg p) →
      runHistory n ps σ = ps.map (fun p => (run p n fresh []).map (·.1)) := by
  intro ps
  induction ps with
  | nil => intro σ _; rfl
  | cons p ps ih =>
    intro σ hall
    have hp := hall p (by simp)
    have hrest := fun q hq => hall q (List.mem_cons_of_mem _ hq)
    have hind := clean_run_store_independent p hp n σ fresh
    simp only [runHistory, List.map_cons]
    cases hr : run p n σ [] with
    | some r =>
      rw [hr] at hind
      simp only [Option.map_some] at hind
      show some r.1 :: runHistory n ps r.2.2 = _
      rw [← hind, ih r.2.2 hrest]
    | none =>
      rw [hr] at hind
      simp only [Option.map_none] at hind
      show none :: runHistory n ps σ = _
      rw [← hind, ih σ hrest]

/-- non-vacuity: a call that writes location 0 and then returns what it reads back is clean
and its history-independent output is the value it wrote, whatever the store held before -/
def demo : Prog Val := fun rs =>
  match rs with
  | [] => .write 0 7
  | _ => .done 0

example : (run (fun rs => match rs with | [] => Act.read 0 | v :: _ => Act.done v) 3 (fun _ => 5) []).map (·.1)
    = some 5 := by decide

end EPV.C06
