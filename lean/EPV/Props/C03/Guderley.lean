/-
C03 — Guderley: the thermodynamic fields returned together satisfy the declared gamma-law
equation of state  p = (γ-1) ρ e  and  c² = γ p / ρ, on every branch of the traced `state`
(ahead of the converging shock, behind it, before and after the reflected shock), for arbitrary
values of the numerical atoms (V, C, R) — i.e. whatever the integrator returned.

Stated twice: on the generated model of `ramsey.state` (GudState) and on the fields of the public
call assembled through the traced `_run → guderley_1d → state` chain (Spec/Guderley.lean), so the
name → array association of `ExactSolution([...], names=[...])` and of the intermediate tuples is
part of the statement.

The code divides by (γ-1) ρ₀ R and by γ (1/ρ₀)(1/R): γ ∉ {0, 1} and ρ ≠ 0 are hypotheses.
-/
import EPV.Spec.Guderley

set_option linter.all false

open EPV EPV.Gen EPV.Spec.Guderley

namespace EPV.C03

/-- `state`: p = (γ-1) ρ e -/
theorem gudstate_eos (p : GudState.P) (h : GudState.outcome p = .ok) (hγ : p.gamma_d - 1 ≠ 0)
    (hρ : GudState.density p ≠ 0) :
    GudState.pressure p = (p.gamma_d - 1) * GudState.density p * GudState.specific_internal_energy p := by
  by_cases hx : p.targetx < -1
  · obtain ⟨h1, h2, h3, h4, h5⟩ := state_ahead p hx
    rw [h4, h5]; ring
  · obtain ⟨h1, h2, h3, h4, h5⟩ := state_behind p hx
    rw [h1] at hρ
    have hR : p.R ≠ 0 := left_ne_zero_of_mul hρ
    have h0 : p.rho0 ≠ 0 := right_ne_zero_of_mul hρ
    rw [h4, h5, h1]
    field_simp

/-- `state`: c² = γ p / ρ -/
theorem gudstate_sound_speed (p : GudState.P) (h : GudState.outcome p = .ok) (hγ : p.gamma_d ≠ 0)
    (hρ : GudState.density p ≠ 0) :
    GudState.sound_speed p ^ 2 = p.gamma_d * GudState.pressure p / GudState.density p := by
  by_cases hx : p.targetx < -1
  · obtain ⟨h1, h2, h3, h4, h5⟩ := state_ahead p hx
    rw [h3, h4]; simp
  · obtain ⟨h1, h2, h3, h4, h5⟩ := state_behind p hx
    rw [h1] at hρ
    have hR : p.R ≠ 0 := left_ne_zero_of_mul hρ
    have h0 : p.rho0 ≠ 0 := right_ne_zero_of_mul hρ
    rw [h3, h4, h1]
    field_simp

/-- the public call: p = (γ-1) ρ e for the arrays returned under the names
`pressure`, `density`, `specific_internal_energy` -/
theorem guderley_eos (i : Inp) (a : Atoms) (r t : ℝ) (hγ : i.gamma - 1 ≠ 0) (hρ : density i a r t ≠ 0) :
    pressure i a r t = (i.gamma - 1) * density i a r t * sie i a r t := by
  rw [density_eq] at hρ
  rw [pressure_eq, density_eq, sie_eq]
  have := gudstate_eos (stP i a r t) (state_total _) (by rw [stP_eq]; exact hγ) hρ
  rw [this, stP_eq]

/-- the public call: c² = γ p / ρ for the arrays returned under the names
`sound_speed`, `pressure`, `density` -/
theorem guderley_sound_speed (i : Inp) (a : Atoms) (r t : ℝ) (hγ : i.gamma ≠ 0) (hρ : density i a r t ≠ 0) :
    sound_speed i a r t ^ 2 = i.gamma * pressure i a r t / density i a r t := by
  rw [density_eq] at hρ
  rw [pressure_eq, density_eq, sound_speed_eq]
  have := gudstate_sound_speed (stP i a r t) (state_total _) (by rw [stP_eq]; exact hγ) hρ
  rw [this, stP_eq]

/-- non-vacuity: the default parameters γ = 1.4, ρ₀ = 1 with the post-shock density ratio R = 6 -/
example : ∃ p : GudState.P, GudState.outcome p = .ok ∧ p.gamma_d - 1 ≠ 0 ∧ p.gamma_d ≠ 0 ∧ GudState.density p ≠ 0 := by
  refine ⟨⟨2, 1 / 2, 1, 6, -5 / 6, 7 / 5, 7 / 5, 1, 1, -1 / 2⟩, state_total _, by norm_num, by norm_num, ?_⟩
  rw [(state_behind _ (by norm_num)).1]
  norm_num

end EPV.C03
