/-
C03 (P) — the thermodynamic fields of the solution the GENERAL-EOS Riemann driver assembles obey the declared
equation of state (hand model `EPV.Model.RiemannGen` over ℝ, tied to `RiemannGenEOS.driver` / `GenEOS_Solver`
by `harness/o_geneos.py:tie_geneos`): ideal gas and JWL, each side of the contact its own γ.

* `gen_states_eos` — the four constant states (left, right, both star states) and every row of both fan tables
  store `e = sie(p, ρ, γ_side)` with the TRACED `sie` (`EPV.Lemmas.RiemannGenModel.sie_ig/sie_jwl`);
* `gen_*_eos_partial` (four patterns) — at EVERY grid node that does not lie strictly inside one of the cells
  over which the driver smears a discontinuity, the assembled state satisfies the closure of its side of the
  contact; inside a fan it does so at the rows of the fan table, and between two rows p, ρ, u, e are ONE
  linear interpolation of the two neighbouring rows (`EosOrFan`);
* `eos_ig_pressure`, `eos_jwl_pressure` — the closure in the form the property states it:
  `p = (γ - 1) ρ e`, resp. the JWL pressure form of `EPV.Spec.Riemann.jwlPressure`.

PARTIAL: between two rows of a fan table (and between two grid nodes: the public wrapper interpolates from the
grid to the user's points) each field is interpolated separately, so the closure holds there only to the
resolution of the table, O(Δξ²) — tested by the oracle `o_geneos.eos` with a tolerance from the table size;
the cells over which a discontinuity is smeared are outside the statement (they mix two states).
No hypothesis on the numerical atoms is needed: the energies are computed from (p, ρ) by `sie`, whatever the
tables contain.
-/
import EPV.Lemmas.RiemannGenModel
import EPV.Props.C03.Riemann

set_option linter.all false

open EPV EPV.Gen EPV.Model EPV.Riem EPV.RiemGen EPV.Spec.Riemann

namespace EPV.C03.RiemannGen

open RiemannGen (Eos Jwl Atoms P3)

/-- the stored energy is the closure's `sie` of the stored pressure and density -/
def EosAt (e : Eos ℝ) (g : ℝ) (s : RiemGen.St) : Prop := s.e = RiemannGen.sie e s.p s.r g

/-- … or the state is ONE linear interpolation of two states that satisfy it, at abscissae that strictly
bracket the node (fan interior between two rows of the table) -/
def EosOrFan (e : Eos ℝ) (g x : ℝ) (s : RiemGen.St) : Prop :=
  EosAt e g s ∨ ∃ s0 s1 ξ0 ξ1, EosAt e g s0 ∧ EosAt e g s1 ∧ ξ0 < x ∧ x < ξ1 ∧ s = RiemannGen.lerpS x ξ0 ξ1 s0 s1

theorem st_eos (e : Eos ℝ) (g p r u : ℝ) : EosAt e g (RiemannGen.st e g p r u) := rfl

/-- the constant states and all fan rows -/
theorem gen_states_eos (e : Eos ℝ) (d : RiemannIG.Data ℝ) (a : Atoms ℝ) (sgn xd0 t : ℝ) :
    EosAt e d.gl (RiemannGen.leftState e d) ∧ EosAt e d.gl (RiemannGen.starL e d a) ∧
    EosAt e d.gr (RiemannGen.starR e d a) ∧ EosAt e d.gr (RiemannGen.rightState e d) ∧
    (∀ r ∈ RiemannGen.fanTab e d.gl sgn xd0 t a.tabL, EosAt e d.gl r.2) ∧
    (∀ r ∈ RiemannGen.fanTab e d.gr sgn xd0 t a.tabR, EosAt e d.gr r.2) := by
  refine ⟨rfl, rfl, rfl, rfl, ?_, ?_⟩ <;>
  · intro r hr
    simp only [RiemannGen.fanTab, List.mem_map] at hr
    obtain ⟨q, -, rfl⟩ := hr
    rfl

/-- `np.interp` in a fan table: a row, or the interpolation of two consecutive rows -/
theorem fan_interp_eos (e : Eos ℝ) (g sgn xd0 t x : ℝ) (tab : List (P3 ℝ)) (hne : tab ≠ []) (dflt : RiemGen.St) :
    EosOrFan e g x (RiemannGen.interpS x (RiemannGen.fanTab e g sgn xd0 t tab) dflt) := by
  have hrow : ∀ r ∈ RiemannGen.fanTab e g sgn xd0 t tab, EosAt e g r.2 := by
    intro r hr
    simp only [RiemannGen.fanTab, List.mem_map] at hr
    obtain ⟨q, -, rfl⟩ := hr
    rfl
  have hne' : RiemannGen.fanTab e g sgn xd0 t tab ≠ [] := by
    simpa [RiemannGen.fanTab] using hne
  rcases interpG_form RiemannGen.lerpS x _ dflt hne' with ⟨r, hr, hv⟩ | ⟨r0, r1, hi, h0, h1, hv⟩
  · left
    unfold RiemannGen.interpS
    rw [hv]
    exact hrow r hr
  · right
    have m0 : r0 ∈ RiemannGen.fanTab e g sgn xd0 t tab := hi.subset (by simp)
    have m1 : r1 ∈ RiemannGen.fanTab e g sgn xd0 t tab := hi.subset (by simp)
    exact ⟨r0.2, r1.2, r0.1, r1.1, hrow r0 m0, hrow r1 m1, h0, h1, hv⟩

section patterns
variable (e : Eos ℝ) (d : RiemannIG.Data ℝ) (a : Atoms ℝ) (prev next : ℝ → ℝ) (xd0 t xmaxW : ℝ)

local notation "node" => RiemannGen.solveAtNode e d a prev next xd0 t xmaxW
local notation "X" => RiemannGen.xpos xd0 t

/-- **RCS.**  Left of the contact the left gas (undisturbed, fan, star), from the contact on the right gas. -/
theorem gen_rcs_eos_partial (hL : a.px < d.pl) (hR : d.pr < a.px) (g : GridRCS e d a prev xd0 t) (hne : a.tabL ≠ [])
    (x : ℝ) (hc : x ≤ prev (X a.ux1) ∨ X a.ux1 ≤ x)
    (hs : x ≤ prev (X (RiemannGen.vShockR d a)) ∨ X (RiemannGen.vShockR d a) ≤ x) :
    (x < X a.ux1 → EosOrFan e d.gl x (node x).2) ∧ (X a.ux1 ≤ x → EosAt e d.gr (node x).2) := by
  constructor
  · intro hx
    have hx' : x ≤ prev (X a.ux1) := hc.resolve_right (not_le.mpr hx)
    by_cases h0 : x ≤ X (RiemannGen.vHeadL e d)
    · rw [rcs_zone_left e d a prev next xd0 t xmaxW hL hR g h0]; exact Or.inl rfl
    push Not at h0
    by_cases h1 : x ≤ X (RiemannGen.vTailL e d a)
    · rw [rcs_zone_fan e d a prev next xd0 t xmaxW hL hR g h0 h1]
      exact fan_interp_eos e d.gl _ xd0 t x a.tabL hne _
    push Not at h1
    rw [rcs_zone_starL e d a prev next xd0 t xmaxW hL hR g h1 hx']; exact Or.inl rfl
  · intro hx
    rcases hx.lt_or_eq with h | h
    · rcases hs with h2 | h2
      · rw [rcs_zone_starR e d a prev next xd0 t xmaxW hL hR g h h2]; rfl
      · rw [rcs_zone_right e d a prev next xd0 t xmaxW hL hR g h2]; rfl
    · rw [← h, rcs_node_contact e d a prev next xd0 t xmaxW hL hR g]; rfl

/-- **SCR.**  Up to the contact the left gas, right of it the right gas (star, fan, undisturbed). -/
theorem gen_scr_eos_partial (hL : d.pl < a.px) (hR : a.px < d.pr) (g : GridSCR e d a prev next xd0 t) (hne : a.tabR ≠ [])
    (x : ℝ) (hs : x ≤ X (RiemannGen.vShockL d a) ∨ next (X (RiemannGen.vShockL d a)) ≤ x)
    (hh : x ≤ prev (X (RiemannGen.vHeadR e d)) ∨ X (RiemannGen.vHeadR e d) ≤ x) :
    (x ≤ X a.ux1 → EosAt e d.gl (node x).2) ∧ (X a.ux1 < x → EosOrFan e d.gr x (node x).2) := by
  constructor
  · intro hx
    rcases hs with h | h
    · rw [scr_zone_left e d a prev next xd0 t xmaxW hL hR g h]; rfl
    · rw [scr_zone_starL e d a prev next xd0 t xmaxW hL hR g h hx]; rfl
  · intro hx
    by_cases h1 : x ≤ X (RiemannGen.vTailR e d a)
    · rw [scr_zone_starR e d a prev next xd0 t xmaxW hL hR g hx h1]; exact Or.inl rfl
    push Not at h1
    rcases hh with h2 | h2
    · rw [scr_zone_fan e d a prev next xd0 t xmaxW hL hR g h1 h2]
      exact fan_interp_eos e d.gr _ xd0 t x a.tabR hne _
    · rw [scr_zone_right e d a prev next xd0 t xmaxW hL hR g h2]; exact Or.inl rfl

/-- **RCR.** -/
theorem gen_rcr_eos_partial (hL : a.px < d.pl) (hR : a.px < d.pr) (g : GridRCR e d a prev xd0 t)
    (hneL : a.tabL ≠ []) (hneR : a.tabR ≠ [])
    (x : ℝ) (hh : x ≤ prev (X (RiemannGen.vHeadR e d)) ∨ X (RiemannGen.vHeadR e d) ≤ x) :
    (x ≤ X a.ux1 → EosOrFan e d.gl x (node x).2) ∧ (X a.ux1 < x → EosOrFan e d.gr x (node x).2) := by
  constructor
  · intro hx
    by_cases h0 : x ≤ X (RiemannGen.vHeadL e d)
    · rw [rcr_zone_left e d a prev next xd0 t xmaxW hL hR g h0]; exact Or.inl rfl
    push Not at h0
    by_cases h1 : x ≤ X (RiemannGen.vTailL e d a)
    · rw [rcr_zone_fanL e d a prev next xd0 t xmaxW hL hR g h0 h1]
      exact fan_interp_eos e d.gl _ xd0 t x a.tabL hneL _
    push Not at h1
    rw [rcr_zone_starL e d a prev next xd0 t xmaxW hL hR g h1 hx]; exact Or.inl rfl
  · intro hx
    by_cases h1 : x ≤ X (RiemannGen.vTailR e d a)
    · rw [rcr_zone_starR e d a prev next xd0 t xmaxW hL hR g hx h1]; exact Or.inl rfl
    push Not at h1
    rcases hh with h2 | h2
    · rw [rcr_zone_fanR e d a prev next xd0 t xmaxW hL hR g h1 h2]
      exact fan_interp_eos e d.gr _ xd0 t x a.tabR hneR _
    · rw [rcr_zone_right e d a prev next xd0 t xmaxW hL hR g h2]; exact Or.inl rfl

/-- **SCS.**  No fan: the closure holds exactly at every admissible node. -/
theorem gen_scs_eos_partial (hL : d.pl < a.px) (hR : d.pr < a.px) (g : GridSCS d a prev next xd0 t)
    (x : ℝ) (hs : x ≤ X (RiemannGen.vShockL d a) ∨ next (X (RiemannGen.vShockL d a)) ≤ x)
    (hs' : x ≤ prev (X (RiemannGen.vShockR d a)) ∨ X (RiemannGen.vShockR d a) ≤ x) :
    (x ≤ X a.ux1 → EosAt e d.gl (node x).2) ∧ (X a.ux1 < x → EosAt e d.gr (node x).2) := by
  constructor
  · intro hx
    rcases hs with h | h
    · rw [scs_zone_left e d a prev next xd0 t xmaxW hL hR g h]; rfl
    · rw [scs_zone_starL e d a prev next xd0 t xmaxW hL hR g h hx]; rfl
  · intro hx
    rcases hs' with h | h
    · rw [scs_zone_starR e d a prev next xd0 t xmaxW hL hR g hx h]; rfl
    · rw [scs_zone_right e d a prev next xd0 t xmaxW hL hR g h]; rfl

end patterns

/-! ### the closure in the form of the property -/

/-- ideal gas (`problem = 'igeos'`): p = (γ - 1) ρ e -/
theorem eos_ig_pressure (c : Jwl ℝ) (g : ℝ) (s : RiemGen.St) (h : EosAt ⟨false, c⟩ g s) (hρ : s.r ≠ 0) (hg : g - 1 ≠ 0) :
    s.p = (g - 1) * s.r * s.e := by
  rw [h, sie_ig]
  exact EPV.C03.Riemann.riemann_sie_eos _ _ _ hρ hg

/-- JWL (`problem = 'JWL'`): the JWL pressure form at the stored (ρ, e) gives the stored pressure -/
theorem eos_jwl_pressure (c : Jwl ℝ) (g : ℝ) (s : RiemGen.St) (h : EosAt ⟨true, c⟩ g s)
    (hc : (⟨c.A, c.B, c.R1, c.R2, c.r0, g⟩ : EPV.C03.Riemann.Jwl).Regular) (hρ : s.r ≠ 0) :
    jwlPressure c.A c.B c.R1 c.R2 c.r0 (g - 1) s.r s.e = s.p := by
  rw [h, sie_jwl]
  exact EPV.C03.Riemann.jwl_sie_inverts ⟨c.A, c.B, c.R1, c.R2, c.r0, g⟩ hc s.p s.r hρ

/-- non-vacuity: the JWL constants of the Shyue problem of the test-suite are regular; Sod's γ -/
example : (⟨8.545, 0.205, 4.6, 1.35, 1.84, 1.25⟩ : EPV.C03.Riemann.Jwl).Regular ∧ ((7 : ℝ) / 5 - 1 ≠ 0) := by
  constructor
  · unfold EPV.C03.Riemann.Jwl.Regular; norm_num
  · norm_num

end EPV.C03.RiemannGen
