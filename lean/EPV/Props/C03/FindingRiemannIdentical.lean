/-
C03 — FINDING: identical (p, ρ, u) on the two sides with unequal γ.

For pl = pr, ρl = ρr, ul = ur and γ_L ≠ γ_R the ideal-gas driver returns, between xd0 + t (ur - ar)
and the material interface xd0 + t·ux, the specific internal energy of the RIGHT gas although that
region holds the LEFT gas: there p ≠ (γ_L - 1) ρ e.  (Cause: the `==`-based side detection of
`shock_velocity`, see `EPV.Lemmas.RiemannIdentical`.)

Witness (exact, hand model over ℝ = tied to the code by `o_riemann.tie_assembly`, which covers this
boundary case): pl = pr = 1, ρl = ρr = 1, ul = ur = 0, γ_L = 25/16, γ_R = 9/4, px = 1 (the root of
`SCS_call`; the driver's own classification selects SCS), xd0 = 1/2, t = 1/5, x = 3/8 < 1/2:
p = 1, ρ = 1, e = 4/5, (γ_L - 1) ρ e = 9/20.
On the real code: oracle `o_riemann.identical_eos`, site 'IGEOS:identical-states:p=(gamma-1)*rho*e'
(γ = 1.4 | 1.6, t = 0.25: e = 1.667 instead of 2.5 for 0.204 < x < 0.5).
This is the case excluded by `q.Distinct` elsewhere; `solve_eos` (region-indexed) still holds.
-/
import EPV.Lemmas.RiemannIdentical

set_option linter.all false

open EPV EPV.Gen EPV.Model EPV.Spec.Riemann EPV.Riem

namespace EPV.C03.Riemann

/-- **Finding.**  Admissible data, the driver's own pattern, the exact root, a point strictly left of
the contact (left gas, γ = γ_L) — and the returned p, ρ, e violate p = (γ_L - 1) ρ e. -/
theorem finding_identical_states_eos :
    qId.Admissible ∧ RiemannIG.classify (toData qId) = .SCS ∧ SCS qId 1 = 0 ∧
    (3 / 8 : ℝ) < 1 / 2 + 1 / 5 * RiemannIG.ux (toData qId) .SCS 1 ∧
    (Riem.solve qId 1 (1 / 2) (3 / 8) (1 / 5)).2.2.p
      ≠ (qId.gl - 1) * (Riem.solve qId 1 (1 / 2) (3 / 8) (1 / 5)).2.2.r
          * (Riem.solve qId 1 (1 / 2) (3 / 8) (1 / 5)).2.2.e := by
  refine ⟨qId_admissible.1, qId_classify, qId_root, ?_, ?_⟩
  · rw [ux_shock qId 1 _ (Or.inl rfl), qId_ux]; norm_num
  · rw [qId_solve]
    have h : (1 / 5 : ℝ) ≤ 3 / 8 := by norm_num
    simp only [h, if_true, rightState_eq, sie_eq]
    simp only [qId]; norm_num

end EPV.C03.Riemann
