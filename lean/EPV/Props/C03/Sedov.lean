/-
C03 (Sedov share) — the returned thermodynamic fields obey the γ-law EOS:
p = (γ-1) ρ e and c² = γ p/ρ.

Proved at tree level on the generated models of the whole `_run` (SedovRunSing / SedovRunStd /
SedovRunVac: every solution type, both sides of the shock, every path of the traced decision
tree), for all real parameters and whatever the numerical atoms (root, similarity-function
values, α) are: `specific_internal_energy` and `sound_speed` are computed by `_run` from the
returned pressure and density (sedov.py:369-370), so the identities hold wherever the code's own
divisions are by non-zero numbers.  The same for the per-node helper `physical` (SedovPhysical).
On the public 3001-node grid the two fields are computed AFTER the interpolation, from the
interpolated p and ρ (hand model EPV.Model.Sedov.assemble), so the EOS holds exactly at every
returned point; the oracle `o_sedov.eos` checks that.  In the vacuum hole ρ = p = 0 and the code
returns NaN for e and c (0/0): the hypotheses exclude it.
-/
import EPV.Gen.SedovRunSing
import EPV.Gen.SedovRunStd
import EPV.Gen.SedovRunVac
import EPV.Gen.SedovPhysical
import EPV.Tactics
import EPV.Lemmas.Bridge.SemiTac

set_option linter.all false
set_option maxRecDepth 100000

open EPV EPV.Gen

namespace EPV.C03

/-- SedovRunSing: e = p/(γ-1)/ρ on every path of the traced `_run` (all real parameters and atoms) -/
theorem sedov_sing_sie_def (p : SedovRunSing.P) (r t : ℝ) :
    SedovRunSing.specific_internal_energy p r t
      = SedovRunSing.pressure p r t / (p.gamma - 1) / SedovRunSing.density p r t := by
  simp only [epv_tree]
  split_ifs <;> first | (simp only [epv_leaf]; done) | (simp only [epv_leaf, div_div] <;> first | done | (congr 1; ring1) | ring1) | (simp only [epv_leaf] <;> epv_semi_eq) | simp

/-- SedovRunSing: c = (γ p/ρ)^(1/2) on every path -/
theorem sedov_sing_sound_def (p : SedovRunSing.P) (r t : ℝ) :
    SedovRunSing.sound_speed p r t = (p.gamma * SedovRunSing.pressure p r t / SedovRunSing.density p r t) ^ ((1 : ℝ) / 2) := by
  simp only [epv_tree]
  split_ifs <;> first | (simp only [epv_leaf]; done) | (simp only [epv_leaf, div_div] <;> first | done | (congr 1; ring1) | ring1) | (simp only [epv_leaf] <;> epv_semi_eq) | (simp; done) | (norm_num; done)

/-- SedovRunSing: **p = (γ-1) ρ e** wherever the returned density does not vanish (the code divides by ρ
and by γ-1) -/
theorem sedov_sing_eos (p : SedovRunSing.P) (r t : ℝ) (hρ : SedovRunSing.density p r t ≠ 0) (hγ : p.gamma - 1 ≠ 0) :
    SedovRunSing.pressure p r t
      = (p.gamma - 1) * SedovRunSing.density p r t * SedovRunSing.specific_internal_energy p r t := by
  rw [sedov_sing_sie_def]; field_simp

/-- SedovRunSing: **c² = γ p/ρ** wherever γ p/ρ ≥ 0 -/
theorem sedov_sing_sound (p : SedovRunSing.P) (r t : ℝ)
    (h0 : 0 ≤ p.gamma * SedovRunSing.pressure p r t / SedovRunSing.density p r t) :
    SedovRunSing.sound_speed p r t ^ 2 = p.gamma * SedovRunSing.pressure p r t / SedovRunSing.density p r t := by
  rw [sedov_sing_sound_def, ← Real.sqrt_eq_rpow, Real.sq_sqrt h0]

/-- SedovRunStd: e = p/(γ-1)/ρ on every path of the traced `_run` (all real parameters and atoms) -/
theorem sedov_std_sie_def (p : SedovRunStd.P) (r t : ℝ) :
    SedovRunStd.specific_internal_energy p r t
      = SedovRunStd.pressure p r t / (p.gamma - 1) / SedovRunStd.density p r t := by
  simp only [epv_tree]
  split_ifs <;> first | (simp only [epv_leaf]; done) | (simp only [epv_leaf, div_div] <;> first | done | (congr 1; ring1) | ring1) | (simp only [epv_leaf] <;> epv_semi_eq) | simp

/-- SedovRunStd: c = (γ p/ρ)^(1/2) on every path -/
theorem sedov_std_sound_def (p : SedovRunStd.P) (r t : ℝ) :
    SedovRunStd.sound_speed p r t = (p.gamma * SedovRunStd.pressure p r t / SedovRunStd.density p r t) ^ ((1 : ℝ) / 2) := by
  simp only [epv_tree]
  split_ifs <;> first | (simp only [epv_leaf]; done) | (simp only [epv_leaf, div_div] <;> first | done | (congr 1; ring1) | ring1) | (simp only [epv_leaf] <;> epv_semi_eq) | (simp; done) | (norm_num; done)

/-- SedovRunStd: **p = (γ-1) ρ e** wherever the returned density does not vanish (the code divides by ρ
and by γ-1) -/
theorem sedov_std_eos (p : SedovRunStd.P) (r t : ℝ) (hρ : SedovRunStd.density p r t ≠ 0) (hγ : p.gamma - 1 ≠ 0) :
    SedovRunStd.pressure p r t
      = (p.gamma - 1) * SedovRunStd.density p r t * SedovRunStd.specific_internal_energy p r t := by
  rw [sedov_std_sie_def]; field_simp

/-- SedovRunStd: **c² = γ p/ρ** wherever γ p/ρ ≥ 0 -/
theorem sedov_std_sound (p : SedovRunStd.P) (r t : ℝ)
    (h0 : 0 ≤ p.gamma * SedovRunStd.pressure p r t / SedovRunStd.density p r t) :
    SedovRunStd.sound_speed p r t ^ 2 = p.gamma * SedovRunStd.pressure p r t / SedovRunStd.density p r t := by
  rw [sedov_std_sound_def, ← Real.sqrt_eq_rpow, Real.sq_sqrt h0]

/-- SedovRunVac: e = p/(γ-1)/ρ on every path of the traced `_run` (all real parameters and atoms) -/
theorem sedov_vac_sie_def (p : SedovRunVac.P) (r t : ℝ) :
    SedovRunVac.specific_internal_energy p r t
      = SedovRunVac.pressure p r t / (p.gamma - 1) / SedovRunVac.density p r t := by
  -- 49 leaves: prune by the first three decisions, then split the sub-trees
  by_cases h0 : SedovRunVac.c0 p r t <;> by_cases h1 : SedovRunVac.c1 p r t <;>
    by_cases h2 : SedovRunVac.c2 p r t <;>
    simp only [SedovRunVac.specific_internal_energy, SedovRunVac.pressure, SedovRunVac.density,
      h0, h1, h2, if_true, if_false] <;>
    first | (simp; done) | (split_ifs <;> first | (simp only [epv_leaf]; done) | (simp only [epv_leaf, div_div] <;> first | done | (congr 1; ring1) | ring1) | (simp only [epv_leaf] <;> epv_semi_eq) | simp)

/-- SedovRunVac: c = (γ p/ρ)^(1/2) on every path -/
theorem sedov_vac_sound_def (p : SedovRunVac.P) (r t : ℝ) :
    SedovRunVac.sound_speed p r t = (p.gamma * SedovRunVac.pressure p r t / SedovRunVac.density p r t) ^ ((1 : ℝ) / 2) := by
  by_cases h0 : SedovRunVac.c0 p r t
  · simp only [SedovRunVac.sound_speed, SedovRunVac.pressure, SedovRunVac.density, h0, if_true]
    norm_num
  · by_cases h1 : SedovRunVac.c1 p r t <;> by_cases h2 : SedovRunVac.c2 p r t <;>
      (simp only [SedovRunVac.sound_speed, SedovRunVac.pressure, SedovRunVac.density,
        h0, h1, h2, if_true, if_false]
       split_ifs <;> simp only [epv_leaf] <;> first | done | (congr 1; ring1) | epv_semi_eq)

/-- SedovRunVac: **p = (γ-1) ρ e** wherever the returned density does not vanish (the code divides by ρ
and by γ-1) -/
theorem sedov_vac_eos (p : SedovRunVac.P) (r t : ℝ) (hρ : SedovRunVac.density p r t ≠ 0) (hγ : p.gamma - 1 ≠ 0) :
    SedovRunVac.pressure p r t
      = (p.gamma - 1) * SedovRunVac.density p r t * SedovRunVac.specific_internal_energy p r t := by
  rw [sedov_vac_sie_def]; field_simp

/-- SedovRunVac: **c² = γ p/ρ** wherever γ p/ρ ≥ 0 -/
theorem sedov_vac_sound (p : SedovRunVac.P) (r t : ℝ)
    (h0 : 0 ≤ p.gamma * SedovRunVac.pressure p r t / SedovRunVac.density p r t) :
    SedovRunVac.sound_speed p r t ^ 2 = p.gamma * SedovRunVac.pressure p r t / SedovRunVac.density p r t := by
  rw [sedov_vac_sound_def, ← Real.sqrt_eq_rpow, Real.sq_sqrt h0]

/-- `physical` (per grid node): p = (γ-1) ρ e with the code's own `gamm1`, when ρ > 0; and the
guard returns e = 0, c = 0 when ρ ≤ 0 -/
theorem sedov_physical_eos (p : SedovPhysical.P) (hγ : p.gamm1 ≠ 0) (hρ : 0 < SedovPhysical.density p) :
    SedovPhysical.pressure p = p.gamm1 * SedovPhysical.density p * SedovPhysical.specific_internal_energy p
    ∧ (0 ≤ p.gamma * SedovPhysical.pressure p / SedovPhysical.density p →
        SedovPhysical.sound_speed p ^ 2 = p.gamma * SedovPhysical.pressure p / SedovPhysical.density p) := by
  simp only [epv_tree] at *
  split_ifs at * with hc
  · simp only [epv_leaf] at *
    have hne := hρ.ne'
    -- ρ = ρ₂ g ≠ 0, however the product is written
    have h1 : p.rho2 ≠ 0 := fun h => hne (by simp only [h, mul_zero, zero_mul])
    have h2 : p.g ≠ 0 := fun h => hne (by simp only [h, mul_zero, zero_mul])
    refine ⟨by field_simp, fun h0 => ?_⟩
    first
    | exact Real.sq_sqrt h0
    | (rw [← Real.sq_sqrt h0]; congr 2; epv_semi_eq)
  · simp only [epv_leaf, epv_cond] at *
    exact absurd hρ hc

theorem sedov_physical_guard (p : SedovPhysical.P) (hρ : ¬ 0 < SedovPhysical.density p) :
    SedovPhysical.specific_internal_energy p = 0 ∧ SedovPhysical.sound_speed p = 0 := by
  simp only [epv_tree] at *
  split_ifs at * with hc
  · simp only [epv_leaf, epv_cond] at *
    exact absurd hc hρ
  · simp only [epv_leaf]; exact ⟨trivial, trivial⟩

/-- non-vacuity: post-shock node of the default problem (ρ₂ = 6, p₂ = 2/15, g = h = 1) -/
example : ∃ p : SedovPhysical.P, p.gamm1 ≠ 0 ∧ 0 < SedovPhysical.density p := by
  refine ⟨⟨1, 1, 2/5, 7/5, 1, 2/15, 6, 1/3⟩, by norm_num, ?_⟩
  simp only [epv_tree, epv_leaf, epv_cond]; norm_num
/-- non-vacuity for the run models: the default problem behind the shock (r = 1/2, t = 1, α = E) -/
example : ∃ (p : SedovRunSing.P) (r t : ℝ), SedovRunSing.outcome p r t = .ok ∧ p.gamma - 1 ≠ 0 := by
  refine ⟨⟨851072/1000000, 851072/1000000, 7/5, 3, 0, 1⟩, 1/2, 1, ?_, by norm_num⟩
  simp only [epv_tree]; split_ifs <;> first | rfl | (rename_i h; simp only [epv_cond] at h; norm_num at h)

end EPV.C03
