/-
C03 — escape of HE products: the returned sound speed, pressure, density and specific internal
energy satisfy the declared equation of state at every point of every region (every leaf of the
traced decision tree of `__init__` + `_run`; the polygon test is the atom `region`):

* `ehep_sound_speed` : `c² ρ = 3 p`  (γ = 3 isentrope `p_rho`: `c² = 3 p / ρ` wherever ρ ≠ 0; in
  the vacuum regions and ahead of the front c = p = 0);
* `ehep_eos`         : `p = (γ - 1) ρ e` with the solver's parameter `gamma` (γ ≠ 1).

Every accepted parameter set (`outcome = ok` ⇔ the constructor's checks pass), every real (x, t),
every value of the region atom.
-/
import EPV.Lemmas.EHEP

set_option linter.all false

open EPV EPV.Gen

namespace EPV.C03

theorem ehep_sound_speed (p : EHEP.P) (x t : ℝ) (h : EHEP.outcome p x t = .ok) :
    EHEP.sound_speed p x t ^ 2 * EHEP.density p x t = 3 * EHEP.pressure p x t := by
  obtain ⟨hD, hρ, -⟩ := (EHEPL.outcome_ok_iff p x t).mp h
  have hD' : p.D ≠ 0 := hD.ne'
  unfold EHEP.sound_speed EHEP.density EHEP.pressure
  epv_split
  all_goals (try simp only [epv_leaf]); first | (field_simp; done) | (field_simp; ring1) | ring1

theorem ehep_eos (p : EHEP.P) (x t : ℝ) (h : EHEP.outcome p x t = .ok) (hγ : p.gamma - 1 ≠ 0) :
    EHEP.pressure p x t = (p.gamma - 1) * EHEP.density p x t * EHEP.specific_internal_energy p x t := by
  obtain ⟨hD, hρ, -⟩ := (EHEPL.outcome_ok_iff p x t).mp h
  have hD' : p.D ≠ 0 := hD.ne'
  have hρ' : p.rho_0 ≠ 0 := hρ.ne'
  unfold EHEP.pressure EHEP.density EHEP.specific_internal_energy
  epv_split
  all_goals
    (simp only [epv_cond] at *
     try simp only [epv_leaf]
     first
       | (field_simp; done)
       | (field_simp; ring1)
       | ring1
       | (-- density = 0 leaves: the sound speed vanishes, hence the pressure
          -- (p and ρ satisfy 256 ρ₀² p = 27 D² ρ³ identically, however the sound speed is written)
          rename_i hz
          have key : ∀ P R E : ℝ, P * (256 * p.rho_0 ^ 2) = 27 * p.D ^ 2 * R ^ 3 → R = 0 → E = 0 →
              P = (p.gamma - 1) * R * E := by
            intro P R E h1 h2 h3
            rw [h2] at h1 ⊢; rw [h3]
            have h0 : P * (256 * p.rho_0 ^ 2) = 0 := by rw [h1]; ring
            rcases mul_eq_zero.mp h0 with h | h
            · rw [h]; ring
            · exfalso
              have h4 : p.rho_0 ^ 2 ≠ 0 := pow_ne_zero _ hρ'
              apply h4; linarith
          refine key _ _ _ ?_ hz rfl
          first | (field_simp; done) | (field_simp; ring1) | ring1))

/-- non-vacuity: default parameters, a point of region I -/
example : ∃ (p : EHEP.P) (x t : ℝ), EHEP.outcome p x t = .ok ∧ p.gamma - 1 ≠ 0 := by
  refine ⟨⟨17/20, 3, 1, 8/5, 10, 1/20, 10, 1⟩, 7/10, 1, ?_, by norm_num⟩
  rw [EHEPL.outcome_ok_iff]
  unfold EHEPL.Accepted
  norm_num

end EPV.C03
