/-
C03 — steady detonation reaction zone: the returned sound speed, pressure and density
satisfy `cs² = γ p / ρ` (gamma-law gas) at every particle age, for every γ > 1.
SDRZ returns no internal energy, so this is the only EOS relation among its fields.

`SDRZProfile` covers 0 ≤ t ≤ 1 (reaction in progress), `SDRZTail` t ≥ 1 (see C02/SDRZ.lean).
-/
import EPV.Lemmas.SDRZ

set_option linter.all false

open EPV EPV.Gen

namespace EPV.C03

theorem sdrz_sound_speed (p : SDRZProfile.P) (t : ℝ) (h : SDRZProfile.outcome p t = .ok)
    (hγ : 1 < p.gamma) (h0 : 0 ≤ t) (h1 : t ≤ 1) :
    SDRZProfile.sound_speed p t ^ 2 = p.gamma * SDRZProfile.pressure p t / SDRZProfile.density p t := by
  obtain ⟨hp, hr, _, hc, _, hD, hρ⟩ := SDRZ.closed_form p t h hγ h0 h1
  rw [hc, Real.sq_sqrt]
  rw [hp, hr]
  have : 0 < p.gamma + t - 1 := by linarith
  have : 0 < 2 - t := by linarith
  positivity

theorem sdrz_tail_sound_speed (p : SDRZTail.P) (t : ℝ) (h : SDRZTail.outcome p t = .ok)
    (hγ : 1 < p.gamma) (h1 : 1 ≤ t) :
    SDRZTail.sound_speed p t ^ 2 = p.gamma * SDRZTail.pressure p t / SDRZTail.density p t := by
  obtain ⟨hp, hr, _, hc, _, hD, hρ⟩ := SDRZ.tail_closed_form p t h hγ h1
  rw [hc, Real.sq_sqrt]
  rw [hp, hr]
  have : 0 < p.gamma := by linarith
  positivity

/-- non-vacuity at the defaults (D = 0.85, ρ₀ = 1.6, γ = 3) -/
example : ∃ (p : SDRZProfile.P) (t : ℝ), SDRZProfile.outcome p t = .ok ∧ 1 < p.gamma ∧ 0 ≤ t ∧ t ≤ 1 := by
  refine ⟨⟨17/20, 3, 8/5⟩, 1/2, ?_, by norm_num, by norm_num, by norm_num⟩
  simp only [epv_tree, epv_cond]
  norm_num

example : ∃ (p : SDRZTail.P) (t : ℝ), SDRZTail.outcome p t = .ok ∧ 1 < p.gamma ∧ 1 ≤ t := by
  refine ⟨⟨17/20, 3, 8/5⟩, 6/5, ?_, by norm_num, by norm_num⟩
  simp only [epv_tree, epv_cond]
  norm_num

end EPV.C03
