/-
C02 / C03 — elastic–plastic piston (`exactpack/solvers/ep_piston/ep_piston.py`), the three
elasticity models `hypo`, `hyperIfin`, `hyperFin`.

The generated models `EPPiston{Hypo,Ifin,Fin}` are the constructor in let-normal form: every
attribute the constructor assigns (`sdev_y, rho_y, e_y, p_y, wv_el, vel_y, wv_pl, p2, rho2, e2`)
is a field of the parameter structure *and* has a generated definition in terms of the
parameters and the earlier attributes.  `<M>Consistent p` says that every attribute equals its
definition — true of the real constructor's results by construction (and checked on every run
by the tie `harness/o_detonation.py:tie_eppiston`).  `scipy.optimize.fsolve` is an atom: `wv_pl`
(and `F_y` for hyperFin) are free, and the residual the code hands to fsolve is the generated
field `plastic_residual` (`yield_residual`).

C02: the elastic precursor (speed `wv_el`) and the plastic wave (speed `wv_pl`) conserve mass,
momentum with the total stress `p - s_dev`, and total energy (`Spec.RankineHugoniotEP`); the
coded `e_y` is the unique solution of energy jump + Mie–Grüneisen.
C03: `p_y` and `p2` equal the Mie–Grüneisen pressure at the returned `(ρ, e)` — for `p2` this is
exactly the statement `Plastic_Residual(wv_pl) = 0` (the fsolve atom).

The side conditions (`ρ_y ≠ 0`, `ρ_y ≠ ρ₀`, non-zero denominators, non-negative radicand,
`wv_pl ≠ up`, `wv_pl ≠ vel_y`) are exactly the conditions under which the coded expressions are
defined in exact arithmetic; the documentation states no parameter ranges from which they
could be derived.
-/
import EPV.Gen.EPPistonHypo
import EPV.Gen.EPPistonIfin
import EPV.Gen.EPPistonFin
import EPV.Gen.EPPistonRun
import EPV.Lemmas.EPPiston
import EPV.Lemmas.EPPistonModels
import EPV.Lemmas.EPPistonExists
import EPV.Lemmas.Bridge.EPPiston
import EPV.Tactics

set_option linter.all false

open EPV EPV.Gen EPV.Spec EPV.EPP

namespace EPV.C03

noncomputable section

/-! ### model = 'hypo' -/

/-- `p_y = Gruneisen(ρ_y, e_y)` at the returned state behind the elastic precursor -/
theorem hypo_eos_yield (p : EPPistonHypo.P) (h : EPPistonHypo.outcome p = .ok) (hc : hypoConsistent p) :
    p.p_y = mieGruneisen p.rho0 p.gamma p.c0 p.s0 p.rho_y p.e_y := by
  obtain ⟨d, -⟩ := EPP.hypo_doc p h hc
  rw [EPP.mieGruneisen_eq]
  exact d.p_y_eq

/-- `p2 = Gruneisen(ρ2, e2)` at the returned state behind the plastic wave, given the fsolve
atom `Plastic_Residual(wv_pl) = 0` -/
theorem hypo_eos_plastic (p : EPPistonHypo.P) (h : EPPistonHypo.outcome p = .ok) (hc : hypoConsistent p)
    (hres : EPPistonHypo.plastic_residual p = 0) :
    p.p2 = mieGruneisen p.rho0 p.gamma p.c0 p.s0 p.rho2 (EPPistonHypo.e2 p) := by
  obtain ⟨d, -⟩ := EPP.hypo_doc p h hc
  linarith [d.residual_eq]

/-- conversely, the residual handed to fsolve vanishes exactly when `(ρ2, e2, p2)` is on the EOS -/
theorem hypo_residual_iff (p : EPPistonHypo.P) (h : EPPistonHypo.outcome p = .ok) (hc : hypoConsistent p) :
    EPPistonHypo.plastic_residual p = 0 ↔ p.p2 = mieGruneisen p.rho0 p.gamma p.c0 p.s0 p.rho2 (EPPistonHypo.e2 p) := by
  obtain ⟨d, -⟩ := EPP.hypo_doc p h hc
  constructor <;> intro h' <;> linarith [d.residual_eq]

/-! ### model = 'hyperIfin' -/

/-- `p_y = Gruneisen(ρ_y, e_y)` at the returned state behind the elastic precursor -/
theorem ifin_eos_yield (p : EPPistonIfin.P) (h : EPPistonIfin.outcome p = .ok) (hc : ifinConsistent p) :
    p.p_y = mieGruneisen p.rho0 p.gamma p.c0 p.s0 p.rho_y p.e_y := by
  obtain ⟨d, -⟩ := EPP.ifin_doc p h hc
  rw [EPP.mieGruneisen_eq]
  exact d.p_y_eq

/-- `p2 = Gruneisen(ρ2, e2)` at the returned state behind the plastic wave, given the fsolve
atom `Plastic_Residual(wv_pl) = 0` -/
theorem ifin_eos_plastic (p : EPPistonIfin.P) (h : EPPistonIfin.outcome p = .ok) (hc : ifinConsistent p)
    (hres : EPPistonIfin.plastic_residual p = 0) :
    p.p2 = mieGruneisen p.rho0 p.gamma p.c0 p.s0 p.rho2 (EPPistonIfin.e2 p) := by
  obtain ⟨d, -⟩ := EPP.ifin_doc p h hc
  linarith [d.residual_eq]

/-- conversely, the residual handed to fsolve vanishes exactly when `(ρ2, e2, p2)` is on the EOS -/
theorem ifin_residual_iff (p : EPPistonIfin.P) (h : EPPistonIfin.outcome p = .ok) (hc : ifinConsistent p) :
    EPPistonIfin.plastic_residual p = 0 ↔ p.p2 = mieGruneisen p.rho0 p.gamma p.c0 p.s0 p.rho2 (EPPistonIfin.e2 p) := by
  obtain ⟨d, -⟩ := EPP.ifin_doc p h hc
  constructor <;> intro h' <;> linarith [d.residual_eq]

/-! ### model = 'hyperFin' -/

/-- `p_y = Gruneisen(ρ_y, e_y)` at the returned state behind the elastic precursor -/
theorem fin_eos_yield (p : EPPistonFin.P) (h : EPPistonFin.outcome p = .ok) (hc : finConsistent p) :
    p.p_y = mieGruneisen p.rho0 p.gamma p.c0 p.s0 p.rho_y p.e_y := by
  obtain ⟨d, -⟩ := EPP.fin_doc p h hc
  rw [EPP.mieGruneisen_eq]
  exact d.p_y_eq

/-- `p2 = Gruneisen(ρ2, e2)` at the returned state behind the plastic wave, given the fsolve
atom `Plastic_Residual(wv_pl) = 0` -/
theorem fin_eos_plastic (p : EPPistonFin.P) (h : EPPistonFin.outcome p = .ok) (hc : finConsistent p)
    (hres : EPPistonFin.plastic_residual p = 0) :
    p.p2 = mieGruneisen p.rho0 p.gamma p.c0 p.s0 p.rho2 (EPPistonFin.e2 p) := by
  obtain ⟨d, -⟩ := EPP.fin_doc p h hc
  linarith [d.residual_eq]

/-- conversely, the residual handed to fsolve vanishes exactly when `(ρ2, e2, p2)` is on the EOS -/
theorem fin_residual_iff (p : EPPistonFin.P) (h : EPPistonFin.outcome p = .ok) (hc : finConsistent p) :
    EPPistonFin.plastic_residual p = 0 ↔ p.p2 = mieGruneisen p.rho0 p.gamma p.c0 p.s0 p.rho2 (EPPistonFin.e2 p) := by
  obtain ⟨d, -⟩ := EPP.fin_doc p h hc
  constructor <;> intro h' <;> linarith [d.residual_eq]

/-- non-vacuity of `outcome = ok ∧ Consistent` (default problem); `plastic_residual = 0` is the fsolve
atom: the tie checks on every run that the real constructor's `wv_pl` makes it vanish -/
example : ∃ p : EPPistonIfin.P, EPPistonIfin.outcome p = .ok ∧ ifinConsistent p :=
  ⟨ifinDefault, ifinDefault_ok.1, ifinDefault_ok.2⟩

end

end EPV.C03
