/-
C03 — Noh, Noh2 and Noh2 in Coggeshall form: the returned pressure, density and
specific internal energy satisfy the gamma-law equation of state
p = (γ - 1) ρ e at every point of every leaf of the traced decision tree, for
all real γ, ρ₀, u₀, e₀ and every (real) geometry exponent.
-/
import EPV.Gen.Noh
import EPV.Gen.Noh2
import EPV.Gen.Noh2Cog
import EPV.Lemmas.HydroRobust
import EPV.Tactics

set_option linter.all false

open EPV EPV.Gen

namespace EPV.C03

/-- Noh: p = (γ-1) ρ e on both sides of the shock -/
theorem noh_eos (p : Noh.P) (r t : ℝ) (h : Noh.outcome p r t = .ok) :
    Noh.pressure p r t = (p.gamma - 1) * Noh.density p r t * Noh.specific_internal_energy p r t := by
  epv_on_leaves epv_leaf_ring

/-- Noh2 (uniform collapse): p = (γ-1) ρ e -/
theorem noh2_eos (p : Noh2.P) (r t : ℝ) (h : Noh2.outcome p r t = .ok) :
    Noh2.pressure p r t = (p.gamma - 1) * Noh2.density p r t * Noh2.specific_internal_energy p r t := by
  epv_on_leaves epv_leaf_ring

/-- Noh2 through Cog1: p = Γ ρ T with the class constant Γ = 1 -/
theorem noh2cog_pressure (p : Noh2Cog.P) (r t : ℝ) (h : Noh2Cog.outcome p r t = .ok) :
    Noh2Cog.pressure p r t = Noh2Cog.density p r t * Noh2Cog.temperature p r t := by
  epv_on_leaves epv_leaf_ring

/-- Noh2 through Cog1: e (γ-1) ρ = p, i.e. the same gamma-law gas -/
theorem noh2cog_eos (p : Noh2Cog.P) (r t : ℝ) (h : Noh2Cog.outcome p r t = .ok)
    (hρ : Noh2Cog.density p r t ≠ 0) (hγ : p.gamma - 1 ≠ 0) :
    Noh2Cog.pressure p r t
      = (p.gamma - 1) * Noh2Cog.density p r t * Noh2Cog.specific_internal_energy p r t := by
  have he : Noh2Cog.specific_internal_energy p r t
      = Noh2Cog.pressure p r t / Noh2Cog.density p r t / (p.gamma - 1) := by
    epv_hydro_via_atoms (Noh2Cog.pressure p r t) (Noh2Cog.density p r t)
  rw [he]
  field_simp

end EPV.C03
