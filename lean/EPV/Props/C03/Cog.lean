/-
C03 — Coggeshall solutions: the returned thermodynamic fields obey the declared
equation of state  p = Γ ρ T  and  e = Γ T / (γ - 1)  (γ the solver's own adiabatic
index: a parameter, or the value its documentation derives from the geometry).

Stated on the tree-level generated definitions, so every leaf of the traced
decision tree is covered; on NaN leaves the hypothesis `outcome = ok` is false.
-/
import EPV.Gen.Cog1
import EPV.Gen.Cog2
import EPV.Gen.Cog3
import EPV.Gen.Cog4
import EPV.Gen.Cog5
import EPV.Gen.Cog6
import EPV.Gen.Cog7
import EPV.Gen.Cog8
import EPV.Gen.Cog9
import EPV.Gen.Cog10
import EPV.Gen.Cog11
import EPV.Gen.Cog12
import EPV.Gen.Cog13
import EPV.Gen.Cog14
import EPV.Gen.Cog16
import EPV.Gen.Cog17
import EPV.Gen.Cog18
import EPV.Gen.Cog19
import EPV.Gen.Cog20
import EPV.Gen.Cog21
import EPV.Lemmas.HydroRobust
import EPV.Tactics

set_option linter.all false

open EPV EPV.Gen

namespace EPV.C03

/-- Cog1: p = Γ ρ T at every point the solver returns numbers -/
theorem cog1_pressure (p : Cog1.P) (r t : ℝ) (h : Cog1.outcome p r t = .ok) :
    Cog1.pressure p r t = p.Gamma * Cog1.density p r t * Cog1.temperature p r t := by
  epv_on_leaves epv_leaf_ring

/-- Cog1: e = Γ T / (γ - 1) wherever the density does not vanish (γ ≠ 1) -/
theorem cog1_energy (p : Cog1.P) (r t : ℝ) (h : Cog1.outcome p r t = .ok)
    (hρ : Cog1.density p r t ≠ 0) (hγ : p.gamma - 1 ≠ 0) :
    Cog1.specific_internal_energy p r t = p.Gamma * Cog1.temperature p r t / (p.gamma - 1) := by
  have hp := cog1_pressure p r t h
  have he : Cog1.specific_internal_energy p r t
      = Cog1.pressure p r t / Cog1.density p r t / (p.gamma - 1) := by
    clear hp
    epv_hydro_via_atoms (Cog1.pressure p r t) (Cog1.density p r t)
  rw [he, hp]
  field_simp

/-- Cog2: p = Γ ρ T at every point the solver returns numbers -/
theorem cog2_pressure (p : Cog2.P) (r t : ℝ) (h : Cog2.outcome p r t = .ok) :
    Cog2.pressure p r t = p.Gamma * Cog2.density p r t * Cog2.temperature p r t := by
  epv_on_leaves epv_leaf_ring

/-- Cog2: e = Γ T / (γ - 1) wherever the density does not vanish (γ ≠ 1) -/
theorem cog2_energy (p : Cog2.P) (r t : ℝ) (h : Cog2.outcome p r t = .ok)
    (hρ : Cog2.density p r t ≠ 0) (hγ : p.gamma - 1 ≠ 0) :
    Cog2.specific_internal_energy p r t = p.Gamma * Cog2.temperature p r t / (p.gamma - 1) := by
  have hp := cog2_pressure p r t h
  have he : Cog2.specific_internal_energy p r t
      = Cog2.pressure p r t / Cog2.density p r t / (p.gamma - 1) := by
    clear hp
    epv_hydro_via_atoms (Cog2.pressure p r t) (Cog2.density p r t)
  rw [he, hp]
  field_simp

/-- Cog3: p = Γ ρ T at every point the solver returns numbers -/
theorem cog3_pressure (p : Cog3.P) (r t : ℝ) (h : Cog3.outcome p r t = .ok) :
    Cog3.pressure p r t = p.Gamma * Cog3.density p r t * Cog3.temperature p r t := by
  epv_on_leaves epv_leaf_ring

/-- Cog3: e = Γ T / (γ - 1) wherever the density does not vanish (γ ≠ 1) -/
theorem cog3_energy (p : Cog3.P) (r t : ℝ) (h : Cog3.outcome p r t = .ok)
    (hρ : Cog3.density p r t ≠ 0) (hγ : (((p.geometry - 1) - 1) / ((p.geometry - 1) + 1)) - 1 ≠ 0) :
    Cog3.specific_internal_energy p r t = p.Gamma * Cog3.temperature p r t / ((((p.geometry - 1) - 1) / ((p.geometry - 1) + 1)) - 1) := by
  have hp := cog3_pressure p r t h
  have he : Cog3.specific_internal_energy p r t
      = Cog3.pressure p r t / Cog3.density p r t / ((((p.geometry - 1) - 1) / ((p.geometry - 1) + 1)) - 1) := by
    clear hp
    epv_hydro_via_atoms (Cog3.pressure p r t) (Cog3.density p r t)
  rw [he, hp]
  field_simp

/-- Cog4: p = Γ ρ T at every point the solver returns numbers -/
theorem cog4_pressure (p : Cog4.P) (r t : ℝ) (h : Cog4.outcome p r t = .ok) :
    Cog4.pressure p r t = p.Gamma * Cog4.density p r t * Cog4.temperature p r t := by
  epv_on_leaves epv_leaf_ring

/-- Cog4: e = Γ T / (γ - 1) wherever the density does not vanish (γ ≠ 1) -/
theorem cog4_energy (p : Cog4.P) (r t : ℝ) (h : Cog4.outcome p r t = .ok)
    (hρ : Cog4.density p r t ≠ 0) (hγ : p.gamma - 1 ≠ 0) :
    Cog4.specific_internal_energy p r t = p.Gamma * Cog4.temperature p r t / (p.gamma - 1) := by
  have hp := cog4_pressure p r t h
  have he : Cog4.specific_internal_energy p r t
      = Cog4.pressure p r t / Cog4.density p r t / (p.gamma - 1) := by
    clear hp
    epv_hydro_via_atoms (Cog4.pressure p r t) (Cog4.density p r t)
  rw [he, hp]
  field_simp

/-- Cog5: p = Γ ρ T at every point the solver returns numbers -/
theorem cog5_pressure (p : Cog5.P) (r t : ℝ) (h : Cog5.outcome p r t = .ok) :
    Cog5.pressure p r t = p.Gamma * Cog5.density p r t * Cog5.temperature p r t := by
  epv_on_leaves epv_leaf_ring

/-- Cog5: e = Γ T / (γ - 1) wherever the density does not vanish (γ ≠ 1) -/
theorem cog5_energy (p : Cog5.P) (r t : ℝ) (h : Cog5.outcome p r t = .ok)
    (hρ : Cog5.density p r t ≠ 0) (hγ : ((1:ℝ) / 2) - 1 ≠ 0) :
    Cog5.specific_internal_energy p r t = p.Gamma * Cog5.temperature p r t / (((1:ℝ) / 2) - 1) := by
  have hp := cog5_pressure p r t h
  have he : Cog5.specific_internal_energy p r t
      = Cog5.pressure p r t / Cog5.density p r t / (((1:ℝ) / 2) - 1) := by
    clear hp
    epv_hydro_via_atoms (Cog5.pressure p r t) (Cog5.density p r t)
  rw [he, hp]
  field_simp

/-- Cog6: p = Γ ρ T at every point the solver returns numbers -/
theorem cog6_pressure (p : Cog6.P) (r t : ℝ) (h : Cog6.outcome p r t = .ok) :
    Cog6.pressure p r t = p.Gamma * Cog6.density p r t * Cog6.temperature p r t := by
  epv_on_leaves epv_leaf_ring

/-- Cog6: e = Γ T / (γ - 1) wherever the density does not vanish (γ ≠ 1) -/
theorem cog6_energy (p : Cog6.P) (r t : ℝ) (h : Cog6.outcome p r t = .ok)
    (hρ : Cog6.density p r t ≠ 0) (hγ : (((p.geometry - 1) + 3) / ((p.geometry - 1) + 1)) - 1 ≠ 0) :
    Cog6.specific_internal_energy p r t = p.Gamma * Cog6.temperature p r t / ((((p.geometry - 1) + 3) / ((p.geometry - 1) + 1)) - 1) := by
  have hp := cog6_pressure p r t h
  have he : Cog6.specific_internal_energy p r t
      = Cog6.pressure p r t / Cog6.density p r t / ((((p.geometry - 1) + 3) / ((p.geometry - 1) + 1)) - 1) := by
    clear hp
    epv_hydro_via_atoms (Cog6.pressure p r t) (Cog6.density p r t)
  rw [he, hp]
  field_simp

/-- Cog7: p = Γ ρ T at every point the solver returns numbers -/
theorem cog7_pressure (p : Cog7.P) (r t : ℝ) (h : Cog7.outcome p r t = .ok) :
    Cog7.pressure p r t = p.Gamma * Cog7.density p r t * Cog7.temperature p r t := by
  epv_on_leaves epv_leaf_ring

/-- Cog7: e = Γ T / (γ - 1) wherever the density does not vanish (γ ≠ 1) -/
theorem cog7_energy (p : Cog7.P) (r t : ℝ) (h : Cog7.outcome p r t = .ok)
    (hρ : Cog7.density p r t ≠ 0) (hγ : (((p.geometry - 1) + 3) / ((p.geometry - 1) + 1)) - 1 ≠ 0) :
    Cog7.specific_internal_energy p r t = p.Gamma * Cog7.temperature p r t / ((((p.geometry - 1) + 3) / ((p.geometry - 1) + 1)) - 1) := by
  have hp := cog7_pressure p r t h
  have he : Cog7.specific_internal_energy p r t
      = Cog7.pressure p r t / Cog7.density p r t / ((((p.geometry - 1) + 3) / ((p.geometry - 1) + 1)) - 1) := by
    clear hp
    epv_hydro_via_atoms (Cog7.pressure p r t) (Cog7.density p r t)
  rw [he, hp]
  field_simp

/-- Cog8: p = Γ ρ T at every point the solver returns numbers -/
theorem cog8_pressure (p : Cog8.P) (r t : ℝ) (h : Cog8.outcome p r t = .ok) :
    Cog8.pressure p r t = p.Gamma * Cog8.density p r t * Cog8.temperature p r t := by
  epv_on_leaves epv_leaf_ring

/-- Cog8: e = Γ T / (γ - 1) wherever the density does not vanish (γ ≠ 1) -/
theorem cog8_energy (p : Cog8.P) (r t : ℝ) (h : Cog8.outcome p r t = .ok)
    (hρ : Cog8.density p r t ≠ 0) (hγ : p.gamma - 1 ≠ 0) :
    Cog8.specific_internal_energy p r t = p.Gamma * Cog8.temperature p r t / (p.gamma - 1) := by
  have hp := cog8_pressure p r t h
  have he : Cog8.specific_internal_energy p r t
      = Cog8.pressure p r t / Cog8.density p r t / (p.gamma - 1) := by
    clear hp
    epv_hydro_via_atoms (Cog8.pressure p r t) (Cog8.density p r t)
  rw [he, hp]
  field_simp

/-- Cog9: p = Γ ρ T at every point the solver returns numbers -/
theorem cog9_pressure (p : Cog9.P) (r t : ℝ) (h : Cog9.outcome p r t = .ok) :
    Cog9.pressure p r t = p.Gamma * Cog9.density p r t * Cog9.temperature p r t := by
  epv_on_leaves epv_leaf_ring

/-- Cog9: e = Γ T / (γ - 1) wherever the density does not vanish (γ ≠ 1) -/
theorem cog9_energy (p : Cog9.P) (r t : ℝ) (h : Cog9.outcome p r t = .ok)
    (hρ : Cog9.density p r t ≠ 0) (hγ : p.gamma - 1 ≠ 0) :
    Cog9.specific_internal_energy p r t = p.Gamma * Cog9.temperature p r t / (p.gamma - 1) := by
  have hp := cog9_pressure p r t h
  have he : Cog9.specific_internal_energy p r t
      = Cog9.pressure p r t / Cog9.density p r t / (p.gamma - 1) := by
    clear hp
    epv_hydro_via_atoms (Cog9.pressure p r t) (Cog9.density p r t)
  rw [he, hp]
  field_simp

/-- Cog10: p = Γ ρ T at every point the solver returns numbers -/
theorem cog10_pressure (p : Cog10.P) (r t : ℝ) (h : Cog10.outcome p r t = .ok) :
    Cog10.pressure p r t = p.Gamma * Cog10.density p r t * Cog10.temperature p r t := by
  epv_on_leaves epv_leaf_ring

/-- Cog10: e = Γ T / (γ - 1) wherever the density does not vanish (γ ≠ 1) -/
theorem cog10_energy (p : Cog10.P) (r t : ℝ) (h : Cog10.outcome p r t = .ok)
    (hρ : Cog10.density p r t ≠ 0) (hγ : p.gamma - 1 ≠ 0) :
    Cog10.specific_internal_energy p r t = p.Gamma * Cog10.temperature p r t / (p.gamma - 1) := by
  have hp := cog10_pressure p r t h
  have he : Cog10.specific_internal_energy p r t
      = Cog10.pressure p r t / Cog10.density p r t / (p.gamma - 1) := by
    clear hp
    epv_hydro_via_atoms (Cog10.pressure p r t) (Cog10.density p r t)
  rw [he, hp]
  field_simp

/-- Cog11: p = Γ ρ T at every point the solver returns numbers -/
theorem cog11_pressure (p : Cog11.P) (r t : ℝ) (h : Cog11.outcome p r t = .ok) :
    Cog11.pressure p r t = p.Gamma * Cog11.density p r t * Cog11.temperature p r t := by
  epv_on_leaves epv_leaf_ring

/-- Cog11: e = Γ T / (γ - 1) wherever the density does not vanish (γ ≠ 1) -/
theorem cog11_energy (p : Cog11.P) (r t : ℝ) (h : Cog11.outcome p r t = .ok)
    (hρ : Cog11.density p r t ≠ 0) (hγ : p.gamma - 1 ≠ 0) :
    Cog11.specific_internal_energy p r t = p.Gamma * Cog11.temperature p r t / (p.gamma - 1) := by
  have hp := cog11_pressure p r t h
  have he : Cog11.specific_internal_energy p r t
      = Cog11.pressure p r t / Cog11.density p r t / (p.gamma - 1) := by
    clear hp
    epv_hydro_via_atoms (Cog11.pressure p r t) (Cog11.density p r t)
  rw [he, hp]
  field_simp

/-- Cog12: p = Γ ρ T at every point the solver returns numbers -/
theorem cog12_pressure (p : Cog12.P) (r t : ℝ) (h : Cog12.outcome p r t = .ok) :
    Cog12.pressure p r t = p.Gamma * Cog12.density p r t * Cog12.temperature p r t := by
  epv_on_leaves epv_leaf_ring

/-- Cog12: e = Γ T / (γ - 1) wherever the density does not vanish (γ ≠ 1) -/
theorem cog12_energy (p : Cog12.P) (r t : ℝ) (h : Cog12.outcome p r t = .ok)
    (hρ : Cog12.density p r t ≠ 0) (hγ : p.gamma - 1 ≠ 0) :
    Cog12.specific_internal_energy p r t = p.Gamma * Cog12.temperature p r t / (p.gamma - 1) := by
  have hp := cog12_pressure p r t h
  have he : Cog12.specific_internal_energy p r t
      = Cog12.pressure p r t / Cog12.density p r t / (p.gamma - 1) := by
    clear hp
    epv_hydro_via_atoms (Cog12.pressure p r t) (Cog12.density p r t)
  rw [he, hp]
  field_simp

/-- Cog13: p = Γ ρ T at every point the solver returns numbers -/
theorem cog13_pressure (p : Cog13.P) (r t : ℝ) (h : Cog13.outcome p r t = .ok) :
    Cog13.pressure p r t = p.Gamma * Cog13.density p r t * Cog13.temperature p r t := by
  epv_on_leaves epv_leaf_ring

/-- Cog13: e = Γ T / (γ - 1) wherever the density does not vanish (γ ≠ 1) -/
theorem cog13_energy (p : Cog13.P) (r t : ℝ) (h : Cog13.outcome p r t = .ok)
    (hρ : Cog13.density p r t ≠ 0) (hγ : p.gamma - 1 ≠ 0) :
    Cog13.specific_internal_energy p r t = p.Gamma * Cog13.temperature p r t / (p.gamma - 1) := by
  have hp := cog13_pressure p r t h
  have he : Cog13.specific_internal_energy p r t
      = Cog13.pressure p r t / Cog13.density p r t / (p.gamma - 1) := by
    clear hp
    epv_hydro_via_atoms (Cog13.pressure p r t) (Cog13.density p r t)
  rw [he, hp]
  field_simp

/-- Cog14: p = Γ ρ T at every point the solver returns numbers -/
theorem cog14_pressure (p : Cog14.P) (r t : ℝ) (h : Cog14.outcome p r t = .ok) :
    Cog14.pressure p r t = p.Gamma * Cog14.density p r t * Cog14.temperature p r t := by
  epv_on_leaves epv_leaf_ring

/-- Cog14: e = Γ T / (γ - 1) wherever the density does not vanish (γ ≠ 1) -/
theorem cog14_energy (p : Cog14.P) (r t : ℝ) (h : Cog14.outcome p r t = .ok)
    (hρ : Cog14.density p r t ≠ 0) (hγ : p.gamma - 1 ≠ 0) :
    Cog14.specific_internal_energy p r t = p.Gamma * Cog14.temperature p r t / (p.gamma - 1) := by
  have hp := cog14_pressure p r t h
  have he : Cog14.specific_internal_energy p r t
      = Cog14.pressure p r t / Cog14.density p r t / (p.gamma - 1) := by
    clear hp
    epv_hydro_via_atoms (Cog14.pressure p r t) (Cog14.density p r t)
  rw [he, hp]
  field_simp

/-- Cog16: p = Γ ρ T at every point the solver returns numbers -/
theorem cog16_pressure (p : Cog16.P) (r t : ℝ) (h : Cog16.outcome p r t = .ok) :
    Cog16.pressure p r t = p.Gamma * Cog16.density p r t * Cog16.temperature p r t := by
  epv_on_leaves epv_leaf_ring

/-- Cog16: e = Γ T / (γ - 1) wherever the density does not vanish (γ ≠ 1) -/
theorem cog16_energy (p : Cog16.P) (r t : ℝ) (h : Cog16.outcome p r t = .ok)
    (hρ : Cog16.density p r t ≠ 0) (hγ : p.gamma - 1 ≠ 0) :
    Cog16.specific_internal_energy p r t = p.Gamma * Cog16.temperature p r t / (p.gamma - 1) := by
  have hp := cog16_pressure p r t h
  have he : Cog16.specific_internal_energy p r t
      = Cog16.pressure p r t / Cog16.density p r t / (p.gamma - 1) := by
    clear hp
    epv_hydro_via_atoms (Cog16.pressure p r t) (Cog16.density p r t)
  rw [he, hp]
  field_simp

/-- Cog17: p = Γ ρ T at every point the solver returns numbers -/
theorem cog17_pressure (p : Cog17.P) (r t : ℝ) (h : Cog17.outcome p r t = .ok) :
    Cog17.pressure p r t = p.Gamma * Cog17.density p r t * Cog17.temperature p r t := by
  epv_on_leaves epv_leaf_ring

/-- Cog17: e = Γ T / (γ - 1) wherever the density does not vanish (γ ≠ 1) -/
theorem cog17_energy (p : Cog17.P) (r t : ℝ) (h : Cog17.outcome p r t = .ok)
    (hρ : Cog17.density p r t ≠ 0) (hγ : p.gamma - 1 ≠ 0) :
    Cog17.specific_internal_energy p r t = p.Gamma * Cog17.temperature p r t / (p.gamma - 1) := by
  have hp := cog17_pressure p r t h
  have he : Cog17.specific_internal_energy p r t
      = Cog17.pressure p r t / Cog17.density p r t / (p.gamma - 1) := by
    clear hp
    epv_hydro_via_atoms (Cog17.pressure p r t) (Cog17.density p r t)
  rw [he, hp]
  field_simp

/-- Cog18: p = Γ ρ T at every point the solver returns numbers -/
theorem cog18_pressure (p : Cog18.P) (r t : ℝ) (h : Cog18.outcome p r t = .ok) :
    Cog18.pressure p r t = p.Gamma * Cog18.density p r t * Cog18.temperature p r t := by
  epv_on_leaves epv_leaf_ring

/-- Cog18: e = Γ T / (γ - 1) wherever the density does not vanish (γ ≠ 1) -/
theorem cog18_energy (p : Cog18.P) (r t : ℝ) (h : Cog18.outcome p r t = .ok)
    (hρ : Cog18.density p r t ≠ 0) (hγ : (((p.geometry - 1) + 3) / ((p.geometry - 1) + 1)) - 1 ≠ 0) :
    Cog18.specific_internal_energy p r t = p.Gamma * Cog18.temperature p r t / ((((p.geometry - 1) + 3) / ((p.geometry - 1) + 1)) - 1) := by
  have hp := cog18_pressure p r t h
  have he : Cog18.specific_internal_energy p r t
      = Cog18.pressure p r t / Cog18.density p r t / ((((p.geometry - 1) + 3) / ((p.geometry - 1) + 1)) - 1) := by
    clear hp
    epv_hydro_via_atoms (Cog18.pressure p r t) (Cog18.density p r t)
  rw [he, hp]
  field_simp

/-- Cog19: p = Γ ρ T at every point the solver returns numbers -/
theorem cog19_pressure (p : Cog19.P) (r t : ℝ) (h : Cog19.outcome p r t = .ok) :
    Cog19.pressure p r t = p.Gamma * Cog19.density p r t * Cog19.temperature p r t := by
  epv_on_leaves epv_leaf_ring

/-- Cog19: e = Γ T / (γ - 1) wherever the density does not vanish (γ ≠ 1) -/
theorem cog19_energy (p : Cog19.P) (r t : ℝ) (h : Cog19.outcome p r t = .ok)
    (hρ : Cog19.density p r t ≠ 0) (hγ : p.gamma - 1 ≠ 0) :
    Cog19.specific_internal_energy p r t = p.Gamma * Cog19.temperature p r t / (p.gamma - 1) := by
  have hp := cog19_pressure p r t h
  have he : Cog19.specific_internal_energy p r t
      = Cog19.pressure p r t / Cog19.density p r t / (p.gamma - 1) := by
    clear hp
    epv_hydro_via_atoms (Cog19.pressure p r t) (Cog19.density p r t)
  rw [he, hp]
  field_simp

/-- Cog20: p = Γ ρ T at every point the solver returns numbers -/
theorem cog20_pressure (p : Cog20.P) (r t : ℝ) (h : Cog20.outcome p r t = .ok) :
    Cog20.pressure p r t = p.Gamma * Cog20.density p r t * Cog20.temperature p r t := by
  epv_on_leaves epv_leaf_ring

/-- Cog20: e = Γ T / (γ - 1) wherever the density does not vanish (γ ≠ 1) -/
theorem cog20_energy (p : Cog20.P) (r t : ℝ) (h : Cog20.outcome p r t = .ok)
    (hρ : Cog20.density p r t ≠ 0) (hγ : p.gamma - 1 ≠ 0) :
    Cog20.specific_internal_energy p r t = p.Gamma * Cog20.temperature p r t / (p.gamma - 1) := by
  have hp := cog20_pressure p r t h
  have he : Cog20.specific_internal_energy p r t
      = Cog20.pressure p r t / Cog20.density p r t / (p.gamma - 1) := by
    clear hp
    epv_hydro_via_atoms (Cog20.pressure p r t) (Cog20.density p r t)
  rw [he, hp]
  field_simp

/-- Cog21: p = Γ ρ T at every point the solver returns numbers -/
theorem cog21_pressure (p : Cog21.P) (r t : ℝ) (h : Cog21.outcome p r t = .ok) :
    Cog21.pressure p r t = p.Gamma * Cog21.density p r t * Cog21.temperature p r t := by
  epv_on_leaves epv_leaf_ring

/-- Cog21: e = Γ T / (γ - 1) wherever the density does not vanish (γ ≠ 1) -/
theorem cog21_energy (p : Cog21.P) (r t : ℝ) (h : Cog21.outcome p r t = .ok)
    (hρ : Cog21.density p r t ≠ 0) (hγ : (5:ℝ) - 1 ≠ 0) :
    Cog21.specific_internal_energy p r t = p.Gamma * Cog21.temperature p r t / ((5:ℝ) - 1) := by
  have hp := cog21_pressure p r t h
  have he : Cog21.specific_internal_energy p r t
      = Cog21.pressure p r t / Cog21.density p r t / ((5:ℝ) - 1) := by
    clear hp
    epv_hydro_via_atoms (Cog21.pressure p r t) (Cog21.density p r t)
  rw [he, hp]
  field_simp

end EPV.C03
