/-
C03 — RMTV: the returned pressure, density, specific internal energy (field name `energy`) and
temperature satisfy the declared equation of state (rmtv/__init__.py, Eq. BigGamma)

    P = Γ ρ T ,      e = Γ T / (γ - 1)

* in the solver's internal units (jerk, keV, sh): `rmtv_eos_internal_units` — the returned
  numbers are T_int·10³, e_int·10¹⁶, P_int·10¹⁶ (the documented conversion keV → eV,
  jerk → erg) with  P_int = Γ ρ T_int  and  e_int = Γ T_int / (γ-1);
* after conversion, with the documented unit factors: `rmtv_pressure_temperature`
  (P = Γ ρ T · 10¹³), `rmtv_energy_temperature` (e = Γ T / (γ-1) · 10¹³), and
  `rmtv_pressure_energy` (P = (γ-1) ρ e, unit-free);

on every branch of the traced `rmtv_1d` (ahead of the heat front, heated, shocked), for arbitrary
values of the numerical atoms, and for the arrays returned under the public names `pressure`,
`density`, `energy`, `temperature` (traced wiring `Rmtv._run → rmtv → rmtv_1d`).
The code divides by Γ and by γ - 1: both ≠ 0 are hypotheses where they matter.
(That the field is called `energy`, not `specific_internal_energy`, is a C05 finding.)
-/
import EPV.Spec.RMTV

set_option linter.all false

open EPV EPV.Gen EPV.Spec.RMTV

namespace EPV.C03

/-- P = (γ-1) ρ e for the returned arrays, no hypothesis -/
theorem rmtv_pressure_energy (i : Inp) (a : Atoms) (r t : ℝ) :
    pressure i a r t = (i.gamma - 1) * density i a r t * energy i a r t := by
  rw [pressure_eq, density_eq, energy_eq, run_pres, runP_eq]

/-- P = Γ ρ T with the unit factor 10¹⁶ / 10³ -/
theorem rmtv_pressure_temperature (i : Inp) (a : Atoms) (r t : ℝ) (hG : i.bigamma ≠ 0) (hg : i.gamma - 1 ≠ 0) :
    pressure i a r t = i.bigamma * density i a r t * temperature i a r t * 10000000000000 := by
  rw [pressure_eq, density_eq, temperature_eq, run_pres]
  obtain ⟨Q, hT, hE⟩ := run_Q (runP i a r t)
  rw [hT, hE, runP_eq]
  field_simp
  ring

/-- e = Γ T / (γ - 1) with the unit factor 10¹⁶ / 10³ -/
theorem rmtv_energy_temperature (i : Inp) (a : Atoms) (r t : ℝ) (hG : i.bigamma ≠ 0) (hg : i.gamma - 1 ≠ 0) :
    energy i a r t = i.bigamma * temperature i a r t / (i.gamma - 1) * 10000000000000 := by
  rw [energy_eq, temperature_eq]
  obtain ⟨Q, hT, hE⟩ := run_Q (runP i a r t)
  rw [hT, hE, runP_eq]
  field_simp
  ring

/-- the same in the solver's internal units -/
theorem rmtv_eos_internal_units (i : Inp) (a : Atoms) (r t : ℝ) (hG : i.bigamma ≠ 0) (hg : i.gamma - 1 ≠ 0) :
    ∃ T_int e_int P_int : ℝ,
      temperature i a r t = T_int * 1000 ∧ energy i a r t = e_int * 10000000000000000
      ∧ pressure i a r t = P_int * 10000000000000000
      ∧ P_int = i.bigamma * density i a r t * T_int ∧ e_int = i.bigamma * T_int / (i.gamma - 1) := by
  obtain ⟨Q, hT, hE⟩ := run_Q (runP i a r t)
  rw [runP_eq] at hT hE
  refine ⟨Q / i.bigamma, Q / (i.gamma - 1), (i.gamma - 1) * density i a r t * (Q / (i.gamma - 1)), ?_, ?_, ?_, ?_, ?_⟩
  · rw [temperature_eq, runP_eq]; exact hT
  · rw [energy_eq, runP_eq]; exact hE
  · rw [rmtv_pressure_energy, energy_eq, runP_eq, hE]; ring
  · field_simp
  · field_simp

/-- non-vacuity: the default parameters Γ = 1, γ = 5/4 -/
example : ∃ i : Inp, i.bigamma ≠ 0 ∧ i.gamma - 1 ≠ 0 :=
  ⟨⟨-2, 13 / 2, 1, 5 / 4, 1, 9 / 10, 2, 1, 71975340, 1⟩, by norm_num, by norm_num⟩

end EPV.C03
