/-
C03 — Mader: `c² = γ p / ρ` and the isentrope through the CJ state.

Mader's values are *cell averages* (C06/C10 say so): in the fan `rare` returns the exact average
of p and of ρ over the cell and the point values of u and c at the cell centre.  An average of p
and an average of ρ do not satisfy a pointwise EOS with the mid-point c; the property is therefore
stated for what the code averages:

* `mader_profile_eos`, `mader_profile_isentrope`: the point profile of the fan,
  `P(X) = p_cj y(X)^(2γ/(γ-1))`, `R(X) = ρ_cj y(X)^(2/(γ-1))`, `C(X) = c_cj y(X)`, `y = aa X + bb` (the
  locals of `rare`), satisfies `C² R = γ P` and `P / p_cj = (R / ρ_cj)^γ` wherever y > 0;
* `mader_fan_is_average`: the returned fan pressure and density are exactly the cell averages of
  that profile, `∫_{x1}^{x1+dx} P = dx · pressure`, `∫ R = dx · density` (fundamental theorem of
  calculus on the coded antiderivatives), and the returned sound speed is `C` at the cell centre;
* `mader_plateau_eos`, `mader_plateau_isentrope`: the constant state satisfies both relations
  exactly (point values).

Every γ > 1, D ≠ 0, p_cj > 0.  The oracle checks `c² = γ p / ρ` on the real code to O(dx²).
-/
import EPV.Lemmas.MaderProfile
import Mathlib.MeasureTheory.Integral.IntervalIntegral.FundThmCalculus

set_option linter.all false

open EPV EPV.Gen EPV.MaderL

namespace EPV.C03

noncomputable section

/-- `c_cj² ρ_cj = γ p_cj` -/
theorem mader_cj_eos (p : MaderRare.P) (hγ : 1 < p.gam) (hD : p.d_cj ≠ 0) :
    ccj p ^ 2 * rhocj p = p.gam * p.p_cj := by
  have h2 : p.gam + 1 ≠ 0 := by linarith
  have h3 : p.gam ≠ 0 := by linarith
  simp only [ccj, rhocj, rho0]
  field_simp

theorem mader_bexp_sub_dexp (p : MaderRare.P) (hγ : 1 < p.gam) : dexp p + 2 = bexp p := by
  have h1 : p.gam - 1 ≠ 0 := by linarith
  simp only [bexp, dexp]; field_simp; ring

theorem mader_dexp_mul_gam (p : MaderRare.P) (hγ : 1 < p.gam) : dexp p * p.gam = bexp p := by
  have h1 : p.gam - 1 ≠ 0 := by linarith
  simp only [bexp, dexp]; field_simp

/-- pointwise EOS along the fan profile: `C² R = γ P` -/
theorem mader_profile_eos (p : MaderRare.P) (time X : ℝ) (hγ : 1 < p.gam) (hD : p.d_cj ≠ 0)
    (hy : 0 < Y p time X) :
    maderC p time X ^ 2 * maderR p time X = p.gam * maderP p time X := by
  unfold maderC maderR maderP
  have e : Y p time X ^ 2 * Y p time X ^ dexp p = Y p time X ^ bexp p := by
    rw [← Real.rpow_two, ← Real.rpow_add hy, add_comm, mader_bexp_sub_dexp p hγ]
  have := mader_cj_eos p hγ hD
  calc (ccj p * Y p time X) ^ 2 * (rhocj p * Y p time X ^ dexp p)
      = (ccj p ^ 2 * rhocj p) * (Y p time X ^ 2 * Y p time X ^ dexp p) := by ring
    _ = p.gam * (p.p_cj * Y p time X ^ bexp p) := by rw [e, this]; ring

/-- the fan profile lies on the isentrope through the CJ state: `P / p_cj = (R / ρ_cj)^γ` -/
theorem mader_profile_isentrope (p : MaderRare.P) (time X : ℝ) (hγ : 1 < p.gam) (hp : p.p_cj ≠ 0)
    (hρ : rhocj p ≠ 0) (hy : 0 < Y p time X) :
    maderP p time X / p.p_cj = (maderR p time X / rhocj p) ^ p.gam := by
  unfold maderP maderR
  rw [mul_div_cancel_left₀ _ hp, mul_div_cancel_left₀ _ hρ, ← Real.rpow_mul hy.le, mader_dexp_mul_gam p hγ]

/-- the returned fan pressure and density are the exact cell averages of the profile, and the
returned sound speed is the profile at the cell centre -/
theorem mader_fan_is_average (p : MaderRare.P) (xlab time : ℝ) (hγ : 1 < p.gam) (hD : p.d_cj ≠ 0)
    (ht : time ≠ 0) (hdx : p.dx ≠ 0)
    (hy : ∀ X ∈ Set.uIcc (x1 p xlab time) (x1 p xlab time + p.dx), 0 < Y p time X) :
    (∫ X in (x1 p xlab time)..(x1 p xlab time + p.dx), maderP p time X) = p.dx * MaderRare.L0.pressure p xlab time ∧
    (∫ X in (x1 p xlab time)..(x1 p xlab time + p.dx), maderR p time X) = p.dx * MaderRare.L0.density p xlab time ∧
    MaderRare.L0.sound_speed p xlab time = maderC p time (x1 p xlab time + (1 / 2) * p.dx) := by
  have h1 : p.gam - 1 ≠ 0 := by linarith
  have h2 : p.gam + 1 ≠ 0 := by linarith
  have h3 : p.gam ≠ 0 := by linarith
  have ha : aa p time ≠ 0 := by
    simp only [aa, ccj]; positivity
  have hb : bexp p + 1 ≠ 0 := by
    have : 0 < bexp p := by simp only [bexp]; apply div_pos <;> linarith
    linarith
  have hd : dexp p + 1 ≠ 0 := by
    have : 0 < dexp p := by simp only [dexp]; apply div_pos <;> linarith
    linarith
  have hY : ∀ X, HasDerivAt (fun X => Y p time X) (aa p time) X := by
    intro X
    have := ((hasDerivAt_id' X).const_mul (aa p time)).add_const (bb p)
    simpa [Y] using this
  -- antiderivatives as coded
  have key : ∀ (k e : ℝ), e + 1 ≠ 0 → ∀ X ∈ Set.uIcc (x1 p xlab time) (x1 p xlab time + p.dx),
      HasDerivAt (fun X => k * Y p time X ^ (e + 1) / (aa p time * (e + 1))) (k * Y p time X ^ e) X := by
    intro k e he X hX
    have h := ((hY X).rpow_const (p := e + 1) (Or.inl (hy X hX).ne')).const_mul k |>.div_const (aa p time * (e + 1))
    refine h.congr_deriv ?_
    rw [add_sub_cancel_right]
    field_simp
  have cont : ∀ (k e : ℝ), ContinuousOn (fun X => k * Y p time X ^ e)
      (Set.uIcc (x1 p xlab time) (x1 p xlab time + p.dx)) := by
    intro k e
    refine continuousOn_const.mul (ContinuousOn.rpow_const ?_ fun X hX => Or.inl (hy X hX).ne')
    exact (continuous_const.mul continuous_id |>.add continuous_const).continuousOn
  refine ⟨?_, ?_, ?_⟩
  · unfold maderP
    rw [intervalIntegral.integral_eq_sub_of_hasDerivAt (key p.p_cj (bexp p) hb)
      ((cont p.p_cj (bexp p)).intervalIntegrable), fan_pressure_eq]
    field_simp
  · unfold maderR
    rw [intervalIntegral.integral_eq_sub_of_hasDerivAt (key (rhocj p) (dexp p) hd)
      ((cont (rhocj p) (dexp p)).intervalIntegrable), fan_density_eq]
    field_simp
  · rw [fan_sound_speed_eq]; rfl

/-- the constant state: `c² ρ = γ p` -/
theorem mader_plateau_eos (p : MaderRare.P) (xlab time : ℝ) (hγ : 1 < p.gam) (hD : p.d_cj ≠ 0)
    (hp : p.p_cj ≠ 0) (hz : 0 < Z p) :
    MaderRare.L4.sound_speed p xlab time ^ 2 * MaderRare.L4.density p xlab time
      = p.gam * MaderRare.L4.pressure p xlab time := by
  rw [plateau_sound_speed_eq, plateau_pressure_eq, plateau_density_eq, mul_div_cancel_left₀ _ hp,
    ← Real.rpow_mul hz.le]
  have hg : p.gam ≠ 0 := by linarith
  have e1 : bexp p * (1 / p.gam) = dexp p := by
    rw [← mader_dexp_mul_gam p hγ]; field_simp
  have e : Z p ^ 2 * Z p ^ dexp p = Z p ^ bexp p := by
    rw [← Real.rpow_two, ← Real.rpow_add hz, add_comm, mader_bexp_sub_dexp p hγ]
  have := mader_cj_eos p hγ hD
  rw [e1]
  calc (ccj p * Z p) ^ 2 * (rhocj p * Z p ^ dexp p)
      = (ccj p ^ 2 * rhocj p) * (Z p ^ 2 * Z p ^ dexp p) := by ring
    _ = p.gam * (p.p_cj * Z p ^ bexp p) := by rw [e, this]; ring

/-- the constant state lies on the isentrope through the CJ state -/
theorem mader_plateau_isentrope (p : MaderRare.P) (xlab time : ℝ) (hγ : 1 < p.gam) (hp : p.p_cj ≠ 0)
    (hρ : rhocj p ≠ 0) (hz : 0 < Z p) :
    MaderRare.L4.pressure p xlab time / p.p_cj = (MaderRare.L4.density p xlab time / rhocj p) ^ p.gam := by
  rw [plateau_pressure_eq, plateau_density_eq, mul_div_cancel_left₀ _ hp, mul_div_cancel_left₀ _ hρ,
    ← Real.rpow_mul (Real.rpow_nonneg hz.le _)]
  have hg : p.gam ≠ 0 := by linarith
  rw [one_div, inv_mul_cancel₀ hg, Real.rpow_one]

/-- non-vacuity at the defaults: γ = 3, Z = 1/2 > 0 -/
example : ∃ p : MaderRare.P, 1 < p.gam ∧ p.d_cj ≠ 0 ∧ p.p_cj ≠ 0 ∧ rhocj p ≠ 0 ∧ 0 < Z p := by
  refine ⟨⟨800000, 1 / 100, 3, 300000000000, 0⟩, by norm_num, by norm_num, by norm_num, ?_, ?_⟩ <;>
    (simp only [rhocj, rho0, Z, ucj, ccj]; norm_num)

end

end EPV.C03
