/-
C03 — black-box Noh (`NohBlackBoxEos._run`, traced with the Newton result (x0, x1, x2) = (shocked density,
shocked energy, shock speed) as free symbols): the returned pressure is `eos.P(returned density, returned
specific internal energy)` on BOTH sides of the shock, for the EOS object the solver was given.

  * shocked side: by construction (`shocked_pressure = eos.P(x0, x1)`) — every EOS, no hypothesis;
  * unshocked side: the code returns (ρ₀ (1 - u₀ t/r)^m, p0, eos.e(ρ₀, p0)).  The residual classes only accept
    p0 = 0 or m = 0; then the identity holds for the ideal, Noble–Abel and Carnahan–Starling gases.
    For the stiffened gas it holds only for m = 0 (`_partial`) — see FindingBBNohStiff.lean.

The EOS function on the right-hand side is the traced model of the same Python method (`EosX_P.Pfun`), and the
hypothesis `EosX_P.outcome … = ok` says that `eos.P` accepts the returned state (no guard raised).
-/
import EPV.Gen.BBNohIdeal
import EPV.Gen.BBNohStiff
import EPV.Gen.BBNohNobleAbel
import EPV.Gen.BBNohCS
import EPV.Gen.EosIdeal_P
import EPV.Gen.EosStiff_P
import EPV.Gen.EosNobleAbel_P
import EPV.Gen.EosCS_P
import EPV.Tactics
import EPV.Lemmas.Bridge.EosTac

set_option linter.all false

open EPV EPV.Gen

namespace EPV.C03

/-- what the residual classes accept: pressure in the incoming gas only in planar symmetry -/
def PressureFreeOrPlanar (p0 symmetry : ℝ) : Prop := p0 = 0 ∨ symmetry = 0

/-- ideal gas: returned pressure = P(returned density, returned sie), both sides of the shock -/
theorem bbnoh_ideal_eos (p : BBNohIdeal.P) (r t : ℝ) (h : BBNohIdeal.outcome p r t = .ok)
    (hadm : PressureFreeOrPlanar p.p0 p.symmetry) :
    BBNohIdeal.pressure p r t
      = EosIdeal_P.Pfun { gamma := p.gamma } (BBNohIdeal.density p r t) (BBNohIdeal.specific_internal_energy p r t) := by
  simp only [BBNohIdeal.pressure, BBNohIdeal.density, BBNohIdeal.specific_internal_energy, BBNohIdeal.outcome] at h ⊢
  split_ifs at h ⊢ <;> first
    | epv_absurd
    | (simp only [EosIdeal_P.Pfun]
       split_ifs <;> first
         | epv_absurd
         | (simp only [epv_cond] at *
            first
              | contradiction
              | (have hγ : p.gamma - 1 ≠ 0 := sub_ne_zero.mpr ‹_›
                 rcases hadm with ha | ha <;>
                   simp only [epv_leaf, ha, Real.rpow_zero, mul_one, one_mul, zero_div, mul_zero, zero_mul] at * <;>
                   epv_eos_field)))

/-- Noble–Abel gas -/
theorem bbnoh_nobleAbel_eos (p : BBNohNobleAbel.P) (r t : ℝ) (h : BBNohNobleAbel.outcome p r t = .ok)
    (hadm : PressureFreeOrPlanar p.p0 p.symmetry) (hγ : p.gamma ≠ 1)
    (hP : EosNobleAbel_P.outcome { gamma := p.gamma, b := p.b } (BBNohNobleAbel.density p r t)
      (BBNohNobleAbel.specific_internal_energy p r t) = .ok) :
    BBNohNobleAbel.pressure p r t
      = EosNobleAbel_P.Pfun { gamma := p.gamma, b := p.b } (BBNohNobleAbel.density p r t)
          (BBNohNobleAbel.specific_internal_energy p r t) := by
  have hγ' : p.gamma - 1 ≠ 0 := sub_ne_zero.mpr hγ
  simp only [BBNohNobleAbel.pressure, BBNohNobleAbel.density, BBNohNobleAbel.specific_internal_energy,
    BBNohNobleAbel.outcome] at h hP ⊢
  split_ifs at h hP ⊢ <;> first
    | epv_absurd
    | (simp only [EosNobleAbel_P.Pfun, EosNobleAbel_P.outcome] at hP ⊢
       split_ifs at hP ⊢ <;> first
         | epv_absurd
         | (simp only [epv_cond] at *
            rcases hadm with ha | ha <;>
              simp only [epv_leaf, ha, Real.rpow_zero, mul_one, one_mul, zero_div, mul_zero, zero_mul] at * <;>
              epv_eos_field))

/-- Carnahan–Starling gas -/
theorem bbnoh_cs_eos (p : BBNohCS.P) (r t : ℝ) (h : BBNohCS.outcome p r t = .ok)
    (hadm : PressureFreeOrPlanar p.p0 p.symmetry) (hγ : p.gamma ≠ 1)
    (hZ : 1 + p.b * p.rho0 + (p.b * p.rho0) ^ 2 - (p.b * p.rho0) ^ 3 ≠ 0)
    (hP : EosCS_P.outcome { gamma := p.gamma, b := p.b } (BBNohCS.density p r t)
      (BBNohCS.specific_internal_energy p r t) = .ok) :
    BBNohCS.pressure p r t
      = EosCS_P.Pfun { gamma := p.gamma, b := p.b } (BBNohCS.density p r t) (BBNohCS.specific_internal_energy p r t) := by
  have hγ' : p.gamma - 1 ≠ 0 := sub_ne_zero.mpr hγ
  simp only [BBNohCS.pressure, BBNohCS.density, BBNohCS.specific_internal_energy, BBNohCS.outcome] at h hP ⊢
  split_ifs at h hP ⊢ <;> first
    | epv_absurd
    | (simp only [EosCS_P.Pfun, EosCS_P.outcome] at hP ⊢
       split_ifs at hP ⊢ <;> first
         | epv_absurd
         | (simp only [epv_cond] at *
            rcases hadm with ha | ha <;>
              simp only [epv_leaf, ha, Real.rpow_zero, mul_one, one_mul, zero_div, mul_zero, zero_mul] at * <;>
              epv_eos_field))

/-- stiffened gas, shocked side (every symmetry) and unshocked side in PLANAR symmetry — `_partial`:
for m ≠ 0 the unshocked state returned by the solver does not satisfy the stiffened-gas EOS
(finding `bbnoh_stiff_unshocked_finding`) -/
theorem bbnoh_stiff_eos_partial (p : BBNohStiff.P) (r t : ℝ) (h : BBNohStiff.outcome p r t = .ok) (hγ : p.gamma ≠ 1)
    (hside : r < p.x2 * t ∨ p.symmetry = 0) :
    BBNohStiff.pressure p r t
      = EosStiff_P.Pfun { gamma := p.gamma, c_s := p.c_s, rho_inf := p.rho_inf } (BBNohStiff.density p r t)
          (BBNohStiff.specific_internal_energy p r t) := by
  have hγ' : p.gamma - 1 ≠ 0 := sub_ne_zero.mpr hγ
  simp only [BBNohStiff.pressure, BBNohStiff.density, BBNohStiff.specific_internal_energy, BBNohStiff.outcome] at h ⊢
  split_ifs at h ⊢ <;> first
    | epv_absurd
    | (simp only [epv_cond] at * <;> simp only [EosStiff_P.Pfun, epv_leaf] <;>
       rcases hside with ha | ha <;> first
         | (exact absurd ha ‹_›)
         | (exact absurd (by linarith) ‹¬ _›)
         | (simp only [ha, Real.rpow_zero, mul_one, one_mul] at * <;> epv_eos_field)
         | epv_eos_field)

/-- non-vacuity: the default problem (ρ₀ = 1, u₀ = -1, p0 = 0, spherical) with the ideal-gas Noh state
(ρ, e, D) = (64, 1/2, 1/3) returns numbers at r = 1/10, t = 1 (shocked) and r = 1, t = 1 (unshocked) -/
example : BBNohIdeal.outcome ⟨5 / 3, 0, 1, 2, -1, 64, 1 / 2, 1 / 3⟩ (1 / 10) 1 = .ok
    ∧ BBNohIdeal.outcome ⟨5 / 3, 0, 1, 2, -1, 64, 1 / 2, 1 / 3⟩ 1 1 = .ok
    ∧ PressureFreeOrPlanar (0 : ℝ) 2 := by
  refine ⟨?_, ?_, Or.inl rfl⟩ <;> simp only [epv_tree, epv_cond] <;> norm_num

end EPV.C03
