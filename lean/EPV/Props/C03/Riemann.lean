/-
C03 — the thermodynamic fields of the 1-D Riemann solvers obey the declared EOS.

Ideal gas (`problem = 'igeos'`):
* the traced `sie` inverts p = (γ-1) ρ e, the traced `sound_speed` satisfies c² = γ p/ρ;
* the constructor's `el, er, al, ar` are `sie`/`sound_speed` of the two states with their own γ;
* EVERY region of the assembled solution (hand model `EPV.Model.RiemannIG` over ℝ — constant
  states, both star states, the interior of both fans with e = sie(p, ρ, γ)) satisfies
  p = (γ_side - 1) ρ e, where γ_side is gl left of the contact and gr right of it
  (`solve_eos`), for all four patterns and unequal γ.
JWL (`problem = 'JWL'`):
* the traced `sie` inverts the JWL pressure form of `EPV.Spec.Riemann.jwlPressure`;
* `JWL_dfdr` is the derivative of `JWL_f` (both bridged to the documented formulas, `EPV.Lemmas.Bridge.RiemannGen`);
* `dsdr_cP`, `dsdp_cR` are the partial derivatives of the traced `sie`, and
  `sound_speed² = (p/ρ² - ∂e/∂ρ|ₚ)/(∂e/∂p|ᵨ)` ([Kamm2015] eqs. 5, 6).
-/
import EPV.Lemmas.Riemann
import EPV.Lemmas.Bridge.RiemannGen
import EPV.Gen.RiemJwlFunD
import EPV.Gen.RiemJwlDfun
import EPV.Gen.RiemSieJWLD
import EPV.Gen.RiemSoundJWL
import EPV.Gen.RiemDsdrJWL
import EPV.Gen.RiemDsdpJWL
import EPV.Gen.RiemDsdrIG
import EPV.Gen.RiemDsdpIG

set_option linter.all false

open EPV EPV.Gen EPV.Model EPV.Spec.Riemann EPV.Riem

namespace EPV.C03.Riemann

/-! ### ideal gas: the closure functions -/

/-- `sie` inverts the γ-law: p = (γ-1) ρ e -/
theorem riemann_sie_eos (p ρ γ : ℝ) (hρ : ρ ≠ 0) (hγ : γ - 1 ≠ 0) : p = (γ - 1) * ρ * sie p ρ γ := by
  rw [sie_eq]; field_simp; ring

/-- `sound_speed² = γ p / ρ` -/
theorem riemann_sound_sq (p ρ γ : ℝ) (h : 0 ≤ γ * p / ρ) : sound p ρ γ ^ 2 = γ * p / ρ := by
  rw [sound_eq, Real.sq_sqrt h]

/-- the ideal-gas `dsdr_cP`, `dsdp_cR` are the partial derivatives of `sie`, so that the general
sound-speed formula reduces to γ p/ρ -/
theorem riemann_ig_general_sound (p ρ γ : ℝ) (hρ : ρ ≠ 0) (hγ : γ - 1 ≠ 0) :
    cSqGeneral p ρ (RiemDsdrIG.d { pk := p, rho := ρ, gk := γ }) (RiemDsdpIG.d { rho := ρ, gk := γ })
      = γ * p / ρ := by
  rw [Bridge.Riem.dsdrIG_eq, Bridge.Riem.dsdpIG_eq]
  simp only [cSqGeneral]; field_simp; ring

/-- the constructor (`SetupRiemannProblem.__init__`) stores the sound speeds and energies of the two
states, each with its own γ -/
theorem riemann_setup (q : Prob) :
    RiemSetup.al (toSetup q) = sound q.pl q.rl q.gl ∧ RiemSetup.ar (toSetup q) = sound q.pr q.rr q.gr ∧
    RiemSetup.el (toSetup q) = sie q.pl q.rl q.gl ∧ RiemSetup.er (toSetup q) = sie q.pr q.rr q.gr := by
  refine ⟨?_, ?_, ?_, ?_⟩ <;> simp only [epv_tree] <;> split_ifs <;>
    simp only [sound_eq, sie_eq, toSetup, epv_leaf] <;> riem_deep

/-! ### every region of the assembled solution -/

/-- the adiabatic index that belongs to region `i` of pattern `pat` (left of the contact: gl) -/
noncomputable def regGamma (q : Prob) : RiemannIG.Pattern → ℕ → ℝ
  | .SCS, i => if i ≤ 1 then q.gl else q.gr
  | .SCR, i => if i ≤ 1 then q.gl else q.gr
  | .RCS, i => if i ≤ 2 then q.gl else q.gr
  | .RCR, i => if i ≤ 2 then q.gl else q.gr
  | _, _ => q.gl

/-- in every region the stored energy is `sie` of the stored pressure and density with the γ of
that side -/
theorem solve_sie (q : Prob) (pat : RiemannIG.Pattern) (px xd0 x t : ℝ) :
    let r := RiemannIG.solveWith (toData q) pat px xd0 x t
    r.2.e = sie r.2.p r.2.r (regGamma q pat r.1) := by
  have hL : (RiemannIG.leftState (toData q)).e
      = sie (RiemannIG.leftState (toData q)).p (RiemannIG.leftState (toData q)).r q.gl := by
    rw [leftState_eq]
  have hR : (RiemannIG.rightState (toData q)).e
      = sie (RiemannIG.rightState (toData q)).p (RiemannIG.rightState (toData q)).r q.gr := by
    rw [rightState_eq]
  have hsL : (RiemannIG.starL (toData q) pat px).e
      = sie (RiemannIG.starL (toData q) pat px).p (RiemannIG.starL (toData q) pat px).r q.gl := by
    simp only [RiemannIG.starL, m_sie, toData]
  have hsR : (RiemannIG.starR (toData q) pat px).e
      = sie (RiemannIG.starR (toData q) pat px).p (RiemannIG.starR (toData q) pat px).r q.gr := by
    simp only [RiemannIG.starR, m_sie, toData]
  have hfL := m_fanE q q.pl q.rl q.ul q.gl x xd0 t
  rw [← m_fanP, ← m_fanRho] at hfL
  have hfR := m_fanE q q.pr q.rr q.ur q.gr x xd0 t
  rw [← m_fanP, ← m_fanRho] at hfR
  have dl : (toData q).pl = q.pl ∧ (toData q).rl = q.rl ∧ (toData q).ul = q.ul ∧ (toData q).gl = q.gl ∧
      (toData q).pr = q.pr ∧ (toData q).rr = q.rr ∧ (toData q).ur = q.ur ∧ (toData q).gr = q.gr :=
    ⟨rfl, rfl, rfl, rfl, rfl, rfl, rfl, rfl⟩
  obtain ⟨d1, d2, d3, d4, d5, d6, d7, d8⟩ := dl
  intro r
  cases pat <;>
    simp only [r, RiemannIG.solveWith, RiemannIG.vregs, RiemannIG.regStates, RiemannIG.xregs, RiemannIG.assemble,
      List.map, regGamma, d1, d2, d3, d4, d5, d6, d7, d8] <;>
    (try split_ifs) <;> simp_all

/-- C03 for the ideal-gas Riemann solution: at every point, in every region of every pattern,
p = (γ_side - 1) ρ e  (the code divides by ρ and γ-1, so these must not vanish) -/
theorem solve_eos (q : Prob) (pat : RiemannIG.Pattern) (px xd0 x t : ℝ) (hgl : q.gl - 1 ≠ 0) (hgr : q.gr - 1 ≠ 0)
    (hρ : (RiemannIG.solveWith (toData q) pat px xd0 x t).2.r ≠ 0) :
    let r := RiemannIG.solveWith (toData q) pat px xd0 x t
    r.2.p = (regGamma q pat r.1 - 1) * r.2.r * r.2.e := by
  intro r
  have h := solve_sie q pat px xd0 x t
  have hg : regGamma q pat r.1 - 1 ≠ 0 := by
    cases pat <;> simp only [regGamma] <;> (try split_ifs) <;> assumption
  rw [show r.2.e = _ from h]
  exact riemann_sie_eos _ _ _ hρ hg

/-- non-vacuity at the solver defaults -/
example : sod.gl - 1 ≠ 0 ∧ sod.gr - 1 ≠ 0 := by unfold sod; norm_num

/-! ### JWL closure functions -/

/-- the constants of a JWL problem with the material γ -/
structure Jwl where
  A : ℝ
  B : ℝ
  R1 : ℝ
  R2 : ℝ
  r0 : ℝ
  g : ℝ

/-- the constants for which the code's divisions are defined -/
def Jwl.Regular (c : Jwl) : Prop := c.R1 * c.r0 ≠ 0 ∧ c.R2 * c.r0 ≠ 0 ∧ c.g - 1 ≠ 0

noncomputable def jwlF (c : Jwl) (ρ : ℝ) : ℝ :=
  RiemJwlFun.f { A := c.A, B := c.B, R1 := c.R1, R2 := c.R2, r0 := c.r0, gk := c.g } ρ
noncomputable def jwlDf (c : Jwl) (ρ : ℝ) : ℝ :=
  RiemJwlDfun.df { A := c.A, B := c.B, R1 := c.R1, R2 := c.R2, r0 := c.r0, gk := c.g } ρ
noncomputable def jwlSie (c : Jwl) (p ρ : ℝ) : ℝ :=
  RiemSieJWL.e { A := c.A, B := c.B, R1 := c.R1, R2 := c.R2, r0 := c.r0, gk := c.g } p ρ

/-- JWL: the traced `sie(p, ρ, γ)` inverts the JWL pressure form -/
theorem jwl_sie_inverts (c : Jwl) (hc : c.Regular) (p ρ : ℝ) (hρ : ρ ≠ 0) :
    jwlPressure c.A c.B c.R1 c.R2 c.r0 (c.g - 1) ρ (jwlSie c p ρ) = p := by
  obtain ⟨h1, h2, h3⟩ := hc
  have hR1 : c.R1 ≠ 0 := left_ne_zero_of_mul h1
  have hR2 : c.R2 ≠ 0 := left_ne_zero_of_mul h2
  have hr0 : c.r0 ≠ 0 := right_ne_zero_of_mul h1
  simp only [jwlPressure, jwlSie, Bridge.Riem.sieJWL_eq, Bridge.Riem.jwlF]
  field_simp
  ring

/-- JWL: `JWL_dfdr` is the derivative of `JWL_f` with respect to the density (derivative of the documented
formula `Bridge.Riem.jwlF`, to which the traced `JWL_f` is bridged; likewise `JWL_dfdr`) -/
theorem jwl_dfdr (c : Jwl) (hc : c.Regular) (ρ : ℝ) (hρ : ρ ≠ 0) :
    HasDerivAt (fun r => jwlF c r) (jwlDf c ρ) ρ := by
  obtain ⟨h1, h2, h3⟩ := hc
  have k1 : c.R1 * c.r0 / ρ ≠ 0 := div_ne_zero h1 hρ
  have k2 : c.R2 * c.r0 / ρ ≠ 0 := div_ne_zero h2 hρ
  have hR1 : c.R1 ≠ 0 := left_ne_zero_of_mul h1
  have hR2 : c.R2 ≠ 0 := left_ne_zero_of_mul h2
  have hr0 : c.r0 ≠ 0 := right_ne_zero_of_mul h1
  -- shape-independent: both traced functions are bridged to the documented formulas, whose derivative is
  -- proved once in `EPV.Lemmas.Bridge.RiemannGen`
  have e : (fun r => jwlF c r) = fun r => Bridge.Riem.jwlF c.A c.B c.R1 c.R2 c.r0 c.g r := by
    funext r; simp only [jwlF, Bridge.Riem.jwlFun_eq]
  rw [e, jwlDf, Bridge.Riem.jwlDfun_eq]
  exact Bridge.Riem.jwlF_hasDerivAt c.A c.B c.R1 c.R2 c.r0 c.g ρ hρ h1 h2

theorem jwlF_leaves : RiemJwlFun.okLeaves = [0] ∧ RiemSieJWL.okLeaves = [0] := ⟨rfl, rfl⟩

/-- JWL: `dsdr_cP` is ∂e/∂ρ at constant p of the traced `sie` -/
theorem jwl_dsdr (c : Jwl) (hc : c.Regular) (p ρ : ℝ) (hρ : ρ ≠ 0) :
    HasDerivAt (fun r => jwlSie c p r)
      (RiemDsdrJWL.d { A := c.A, B := c.B, R1 := c.R1, R2 := c.R2, r0 := c.r0, gk := c.g, pk := p, rho := ρ }) ρ := by
  obtain ⟨h1, h2, h3⟩ := hc
  have k1 : c.R1 * c.r0 / ρ ≠ 0 := div_ne_zero h1 hρ
  have k2 : c.R2 * c.r0 / ρ ≠ 0 := div_ne_zero h2 hρ
  have hR1 : c.R1 ≠ 0 := left_ne_zero_of_mul h1
  have hR2 : c.R2 ≠ 0 := left_ne_zero_of_mul h2
  have hr0 : c.r0 ≠ 0 := right_ne_zero_of_mul h1
  have e : (fun r => jwlSie c p r)
      = fun r => (p - Bridge.Riem.jwlF c.A c.B c.R1 c.R2 c.r0 c.g r) / (c.g - 1) / r := by
    funext r; simp only [jwlSie, Bridge.Riem.sieJWL_eq]
  rw [e, Bridge.Riem.dsdrJWL_eq]
  exact Bridge.Riem.sieJWL_hasDerivAt_rho c.A c.B c.R1 c.R2 c.r0 c.g p ρ hρ h1 h2

/-- JWL: `dsdp_cR` is ∂e/∂p at constant ρ of the traced `sie` -/
theorem jwl_dsdp (c : Jwl) (p ρ : ℝ) :
    HasDerivAt (fun x => jwlSie c x ρ) (RiemDsdpJWL.d { gk := c.g, rho := ρ }) p := by
  have e : (fun x => jwlSie c x ρ)
      = fun x => (x - Bridge.Riem.jwlF c.A c.B c.R1 c.R2 c.r0 c.g ρ) / (c.g - 1) / ρ := by
    funext r; simp only [jwlSie, Bridge.Riem.sieJWL_eq]
  rw [e, Bridge.Riem.dsdpJWL_eq]
  exact Bridge.Riem.sieJWL_hasDerivAt_p _ c.g p ρ

/-- JWL: `sound_speed² = (p/ρ² - ∂e/∂ρ|ₚ) / ∂e/∂p|ᵨ` with the derivatives of the traced `sie`
(wherever the radicand is non-negative, i.e. the sound speed is real) -/
theorem jwl_sound_sq (c : Jwl) (hc : c.Regular) (p ρ : ℝ) (hρ : ρ ≠ 0)
    (hrad : 0 ≤ cSqGeneral p ρ (deriv (fun r => jwlSie c p r) ρ) (deriv (fun x => jwlSie c x ρ) p)) :
    RiemSoundJWL.a { A := c.A, B := c.B, R1 := c.R1, R2 := c.R2, r0 := c.r0, gk := c.g, pk := p, rho := ρ } ^ 2
      = cSqGeneral p ρ (deriv (fun r => jwlSie c p r) ρ) (deriv (fun x => jwlSie c x ρ) p) := by
  rw [(jwl_dsdr c hc p ρ hρ).deriv, (jwl_dsdp c p ρ).deriv] at hrad ⊢
  have e : RiemSoundJWL.a { A := c.A, B := c.B, R1 := c.R1, R2 := c.R2, r0 := c.r0, gk := c.g, pk := p, rho := ρ }
      = Real.sqrt (cSqGeneral p ρ
          (RiemDsdrJWL.d { A := c.A, B := c.B, R1 := c.R1, R2 := c.R2, r0 := c.r0, gk := c.g, pk := p, rho := ρ })
          (RiemDsdpJWL.d { gk := c.g, rho := ρ })) := by
    rw [Bridge.Riem.soundJWL_eq, Bridge.Riem.dsdrJWL_eq, Bridge.Riem.dsdpJWL_eq]
    simp only [cSqGeneral, Bridge.Riem.cSqJWL]
  rw [e, Real.sq_sqrt hrad]

/-- non-vacuity: the constants of the Lee JWL shock tube (`examples/riemann.py`) are regular -/
example : (⟨632.1, -0.04472, 11.3, 1.13, 1.905, 1.8938⟩ : Jwl).Regular := by
  unfold Jwl.Regular; norm_num

end EPV.C03.Riemann
