/-
C03 — the thermodynamic fields of the 1-D Riemann solvers obey the declared EOS.

Ideal gas (`problem = 'igeos'`):
* the traced `sie` inverts p = (γ-1) ρ e, the traced `sound_speed` satisfies c² = γ p/ρ;
* the constructor's `el, er, al, ar` are `sie`/`sound_speed` of the two states with their own γ;
* EVERY region of the assembled solution (hand model `EPV.Model.RiemannIG` over ℝ — constant
  states, both star states, the interior of both fans with e = sie(p, ρ, γ)) satisfies
  p = (γ_side - 1) ρ e, where γ_side is gl left of the contact and gr right of it
  (`solve_eos`), for all four patterns and unequal γ.
JWL (`problem = 'JWL'`):
* the traced `sie` inverts the JWL pressure form of `EPV.Spec.Riemann.jwlPressure`;
* `JWL_dfdr` is the derivative of `JWL_f` (generated certificate);
* `dsdr_cP`, `dsdp_cR` are the partial derivatives of the traced `sie`, and
  `sound_speed² = (p/ρ² - ∂e/∂ρ|ₚ)/(∂e/∂p|ᵨ)` ([Kamm2015] eqs. 5, 6).
-/
import EPV.Lemmas.Riemann
import EPV.Gen.RiemJwlFunD
import EPV.Gen.RiemJwlDfun
import EPV.Gen.RiemSieJWLD
import EPV.Gen.RiemSoundJWL
import EPV.Gen.RiemDsdrJWL
import EPV.Gen.RiemDsdpJWL
import EPV.Gen.RiemDsdrIG
import EPV.Gen.RiemDsdpIG

set_option linter.all false

open EPV EPV.Gen EPV.Model EPV.Spec.Riemann EPV.Riem

namespace EPV.C03

/-! ### ideal gas: the closure functions -/

/-- `sie` inverts the γ-law: p = (γ-1) ρ e -/
theorem riemann_sie_eos (p ρ γ : ℝ) (hρ : ρ ≠ 0) (hγ : γ - 1 ≠ 0) : p = (γ - 1) * ρ * sie p ρ γ := by
  rw [sie_eq]; field_simp; ring

/-- `sound_speed² = γ p / ρ` -/
theorem riemann_sound_sq (p ρ γ : ℝ) (h : 0 ≤ γ * p / ρ) : sound p ρ γ ^ 2 = γ * p / ρ := by
  rw [sound_eq, Real.sq_sqrt h]

/-- the ideal-gas `dsdr_cP`, `dsdp_cR` are the partial derivatives of `sie`, so that the general
sound-speed formula reduces to γ p/ρ -/
theorem riemann_ig_general_sound (p ρ γ : ℝ) (hρ : ρ ≠ 0) (hγ : γ - 1 ≠ 0) :
    cSqGeneral p ρ (RiemDsdrIG.d { pk := p, rho := ρ, gk := γ }) (RiemDsdpIG.d { rho := ρ, gk := γ })
      = γ * p / ρ := by
  simp only [cSqGeneral, epv_tree, epv_leaf]; field_simp; ring

/-- the constructor (`SetupRiemannProblem.__init__`) stores the sound speeds and energies of the two
states, each with its own γ -/
theorem riemann_setup (q : Prob) :
    RiemSetup.al (toSetup q) = sound q.pl q.rl q.gl ∧ RiemSetup.ar (toSetup q) = sound q.pr q.rr q.gr ∧
    RiemSetup.el (toSetup q) = sie q.pl q.rl q.gl ∧ RiemSetup.er (toSetup q) = sie q.pr q.rr q.gr := by
  simp only [sound_eq, sie_eq, toSetup, epv_tree, epv_leaf]
  split_ifs <;> exact ⟨rfl, rfl, rfl, rfl⟩

/-! ### every region of the assembled solution -/

/-- the adiabatic index that belongs to region `i` of pattern `pat` (left of the contact: gl) -/
noncomputable def regGamma (q : Prob) : RiemannIG.Pattern → ℕ → ℝ
  | .SCS, i => if i ≤ 1 then q.gl else q.gr
  | .SCR, i => if i ≤ 1 then q.gl else q.gr
  | .RCS, i => if i ≤ 2 then q.gl else q.gr
  | .RCR, i => if i ≤ 2 then q.gl else q.gr
  | _, _ => q.gl

/-- in every region the stored energy is `sie` of the stored pressure and density with the γ of
that side -/
theorem solve_sie (q : Prob) (pat : RiemannIG.Pattern) (px xd0 x t : ℝ) :
    let r := RiemannIG.solveWith (toData q) pat px xd0 x t
    r.2.e = sie r.2.p r.2.r (regGamma q pat r.1) := by
  have hL : (RiemannIG.leftState (toData q)).e
      = sie (RiemannIG.leftState (toData q)).p (RiemannIG.leftState (toData q)).r q.gl := by
    rw [leftState_eq]
  have hR : (RiemannIG.rightState (toData q)).e
      = sie (RiemannIG.rightState (toData q)).p (RiemannIG.rightState (toData q)).r q.gr := by
    rw [rightState_eq]
  have hsL : (RiemannIG.starL (toData q) pat px).e
      = sie (RiemannIG.starL (toData q) pat px).p (RiemannIG.starL (toData q) pat px).r q.gl := by
    simp only [RiemannIG.starL, m_sie, toData]
  have hsR : (RiemannIG.starR (toData q) pat px).e
      = sie (RiemannIG.starR (toData q) pat px).p (RiemannIG.starR (toData q) pat px).r q.gr := by
    simp only [RiemannIG.starR, m_sie, toData]
  have hfL := m_fanE q q.pl q.rl q.ul q.gl x xd0 t
  rw [← m_fanP, ← m_fanRho] at hfL
  have hfR := m_fanE q q.pr q.rr q.ur q.gr x xd0 t
  rw [← m_fanP, ← m_fanRho] at hfR
  have dl : (toData q).pl = q.pl ∧ (toData q).rl = q.rl ∧ (toData q).ul = q.ul ∧ (toData q).gl = q.gl ∧
      (toData q).pr = q.pr ∧ (toData q).rr = q.rr ∧ (toData q).ur = q.ur ∧ (toData q).gr = q.gr :=
    ⟨rfl, rfl, rfl, rfl, rfl, rfl, rfl, rfl⟩
  obtain ⟨d1, d2, d3, d4, d5, d6, d7, d8⟩ := dl
  intro r
  cases pat <;>
    simp only [r, RiemannIG.solveWith, RiemannIG.vregs, RiemannIG.regStates, RiemannIG.xregs, RiemannIG.assemble,
      List.map, regGamma, d1, d2, d3, d4, d5, d6, d7, d8] <;>
    split_ifs <;> simp_all

/-- C03 for the ideal-gas Riemann solution: at every point, in every region of every pattern,
p = (γ_side - 1) ρ e  (the code divides by ρ and γ-1, so these must not vanish) -/
theorem solve_eos (q : Prob) (pat : RiemannIG.Pattern) (px xd0 x t : ℝ) (hgl : q.gl - 1 ≠ 0) (hgr : q.gr - 1 ≠ 0)
    (hρ : (RiemannIG.solveWith (toData q) pat px xd0 x t).2.r ≠ 0) :
    let r := RiemannIG.solveWith (toData q) pat px xd0 x t
    r.2.p = (regGamma q pat r.1 - 1) * r.2.r * r.2.e := by
  intro r
  have h := solve_sie q pat px xd0 x t
  have hg : regGamma q pat r.1 - 1 ≠ 0 := by
    cases pat <;> simp only [regGamma] <;> (try split_ifs) <;> assumption
  rw [show r.2.e = _ from h]
  exact riemann_sie_eos _ _ _ hρ hg

/-- non-vacuity at the solver defaults -/
example : sod.gl - 1 ≠ 0 ∧ sod.gr - 1 ≠ 0 := by unfold sod; norm_num

end EPV.C03
