/-
C03 — FINDING: black-box Noh with the shipped `stiffened_gas_eos` in cylindrical / spherical symmetry returns an
unshocked state that does not satisfy the EOS it was given.

`_run` returns, ahead of the shock, density ρ₀ (1 - u₀ t/r)^m, pressure p0 = 0 and sie = eos.e(ρ₀, p0); that is
EOS-consistent only if P(ρ, e(ρ₀, 0)) = 0 for every ρ (a pressure-free gas stays pressure-free under geometric
compression) — true for the ideal, Noble–Abel and Carnahan–Starling gases, false for the stiffened gas:
P(ρ, e(ρ₀, 0)) = c_s² ρ_∞ (ρ/ρ₀ - 1).

Witness: class defaults γ = 5/3, c_s = √(5/3), ρ_∞ = 1; ρ₀ = 1, u₀ = -1, p0 = 0, spherical; r = 6/5, t = 3/5
(ahead of the shock, which the real solver places at r ≈ 0.965): returned density 9/4, sie 0, pressure 0, whereas
eos.P(9/4, 0) = 25/12 ≈ 2.083 (reproduced on the real code by oracle `o_c16.bb_eos_stiff_curvilinear`).
-/
import EPV.Gen.BBNohStiff
import EPV.Gen.EosStiff_P
import EPV.Tactics

set_option linter.all false

open EPV EPV.Gen

namespace EPV.C03

/-- the solver returns numbers at the witness, and the returned pressure is NOT eos.P(density, sie) -/
theorem bbnoh_stiff_unshocked_finding :
    let p : BBNohStiff.P := { c_s := Real.sqrt (5 / 3), gamma := 5 / 3, p0 := 0, rho0 := 1, rho_inf := 1, symmetry := 2,
                              u0 := -1, x0 := 4, x1 := 1 / 2, x2 := 3 / 2 }
    BBNohStiff.outcome p (6 / 5) (3 / 5) = .ok ∧
    BBNohStiff.pressure p (6 / 5) (3 / 5)
      ≠ EosStiff_P.Pfun { gamma := p.gamma, c_s := p.c_s, rho_inf := p.rho_inf } (BBNohStiff.density p (6 / 5) (3 / 5))
          (BBNohStiff.specific_internal_energy p (6 / 5) (3 / 5)) := by
  intro p
  have hc : Real.sqrt (5 / 3) ^ 2 = 5 / 3 := Real.sq_sqrt (by norm_num)
  have h2 : ((1 : ℝ) - -1 * (3 / 5 / (6 / 5))) ^ (2 : ℝ) = 9 / 4 := by
    rw [show (2 : ℝ) = ((2 : ℕ) : ℝ) by norm_num, Real.rpow_natCast]
    norm_num
  constructor
  · simp only [p, epv_tree, epv_cond]
    norm_num
  · simp only [p, epv_tree, epv_cond, epv_leaf]
    norm_num [hc, h2]

end EPV.C03
