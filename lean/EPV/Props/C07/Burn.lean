/-
C07 (burn-time share) — "2D and 3D burn-time solvers on a common plane" agree.

The 2-D and the 3-D traces of each Kenamond solver are different runs of the same Python
(`geometry = 2` / `3`); the theorems compare the two generated models:

* Kenamond 1 and 3: detonator in the plane z = 0 (third coordinate 0); the 3-D model
  restricted to z = 0 is the 2-D model — burn time, returned positions and outcome
  (`k1_plane`, `k3_plane`, `…_outcome`).
* Kenamond 2: the detonators are on the y axis in 2-D and on the z axis in 3-D, so the
  common planes are the planes through the symmetry axis: the 3-D model on the plane
  y = 0, read in the coordinates (x, z), is the 2-D model; more generally the 3-D burn time
  at (x, y, z) is the 2-D burn time at (√(x²+y²), z)                    (`k2_plane`, `k2_meridian`).
* The DSD cylinder has a 2-D implementation only (geometry = 2 is the one accepted value).

Same parameters on both sides, all real values: where the constructor rejects, both models
reject (`…_outcome`), and the burn-time equations hold as equalities of the tree-level
definitions (the rejected leaves carry the same placeholder).
-/
import EPV.Gen.K1d2
import EPV.Gen.K1d3
import EPV.Gen.K2d2
import EPV.Gen.K2d3
import EPV.Gen.K3d2
import EPV.Gen.K3d3
import EPV.Tactics

set_option linter.all false

open EPV EPV.Gen

namespace EPV.C07

/-! ### Kenamond 1 -/

theorem k1_plane (D td a b x y : ℝ) :
    K1d3.burntime ⟨D, td, a, b, 0⟩ x y 0 = K1d2.burntime ⟨D, td, a, b⟩ x y := by
  simp only [epv_tree, epv_cond, epv_leaf, sub_self, mul_zero, add_zero]
  first | done | congr

theorem k1_plane_positions (D td a b x y : ℝ) :
    K1d3.position_x ⟨D, td, a, b, 0⟩ x y 0 = K1d2.position_x ⟨D, td, a, b⟩ x y ∧
    K1d3.position_y ⟨D, td, a, b, 0⟩ x y 0 = K1d2.position_y ⟨D, td, a, b⟩ x y ∧
    (K1d3.outcome ⟨D, td, a, b, 0⟩ x y 0 = .ok → K1d3.position_z ⟨D, td, a, b, 0⟩ x y 0 = 0) := by
  refine ⟨?_, ?_, ?_⟩
  · simp only [epv_tree, epv_cond, epv_leaf]
    first | done | congr
  · simp only [epv_tree, epv_cond, epv_leaf]
    first | done | congr
  · intro h; epv_on_leaves (simp only [epv_leaf])

theorem k1_plane_outcome (D td a b x y : ℝ) :
    K1d3.outcome ⟨D, td, a, b, 0⟩ x y 0 = K1d2.outcome ⟨D, td, a, b⟩ x y := by
  simp only [epv_tree, epv_cond]
  first | done | congr

/-! ### Kenamond 2 -/

/-- the 2-D problem with the same radii, speeds, axial positions and times -/
def K2.to2d (p : K2d3.P) : K2d2.P := ⟨p.D1, p.D2, p.R, p.a1, p.a2, p.a4, p.a5, p.td1, p.td2, p.td3, p.td4, p.td5⟩

/-- on the plane y = 0 through the symmetry axis, in the coordinates (x, z) -/
theorem k2_plane (p : K2d3.P) (x z : ℝ) : K2d3.burntime p x 0 z = K2d2.burntime (K2.to2d p) x z := by
  simp only [epv_tree, epv_cond, epv_leaf, K2.to2d, sub_self, mul_zero, add_zero]
  first | done | congr

theorem k2_plane_outcome (p : K2d3.P) (x z : ℝ) : K2d3.outcome p x 0 z = K2d2.outcome (K2.to2d p) x z := by
  simp only [epv_tree, epv_cond, K2.to2d]
  first | done | congr

/-- axial symmetry: the 3-D burn time at (x, y, z) is the 2-D burn time at (√(x²+y²), z) -/
theorem k2_meridian (p : K2d3.P) (x y z : ℝ) :
    K2d3.burntime p x y z = K2d2.burntime (K2.to2d p) (Real.sqrt (x * x + y * y)) z := by
  have h : Real.sqrt (x * x + y * y) * Real.sqrt (x * x + y * y) = x * x + y * y :=
    Real.mul_self_sqrt (by nlinarith [mul_self_nonneg x, mul_self_nonneg y])
  simp only [epv_tree, epv_cond, epv_leaf, K2.to2d, sub_zero, h]
  first | done | congr

/-! ### Kenamond 3 -/

theorem k3_plane (D R td a b x y : ℝ) :
    K3d3.burntime ⟨D, R, td, a, b, 0⟩ x y 0 = K3d2.burntime ⟨D, R, td, a, b⟩ x y := by
  simp only [epv_tree, epv_cond, epv_leaf, sub_self, mul_zero, add_zero, neg_zero]
  first | done | congr

theorem k3_plane_outcome (D R td a b x y : ℝ) :
    K3d3.outcome ⟨D, R, td, a, b, 0⟩ x y 0 = K3d2.outcome ⟨D, R, td, a, b⟩ x y := by
  simp only [epv_tree, epv_cond, mul_zero, add_zero, neg_zero]
  first | done | congr

end EPV.C07
