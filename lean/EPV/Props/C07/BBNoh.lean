/-
C07 — black-box Noh with an ideal gas = Noh (= Coggeshall 19).

`NohBlackBoxEos` finds the post-shock state (ρ_s, e_s, D) as a Newton root of `pressure_noh_residual.F`
and assembles the fields from it.  The Newton loop is not modelled: its result is the atoms (x0, x1, x2);
that it is a root of the residual is the hypothesis (exactly the hypothesis named in DESIGN §4 C07).

Layer 1 (symbolic initial state; generated models `ResPressureIdeal_res`, `BBNohIdeal` of wp c16)
  * `res_ok_iff`            the acceptance tree of the residual (constructor + F) = the documented admissibility;
  * `bbnoh_root_unique`     for P₀ = 0 the ONLY root of the traced residual on its accepted domain is Noh's state
                            e = u₀²/2, D = (γ-1)|u₀|/2, ρ = ρ₀((γ+1)/(γ-1))^(m+1)   (no sign hypothesis on D is needed:
                            the spurious Newton limit ρ → 0, D → u₀ of finding C16.newton.positive_speed is not a root,
                            ρ = 0 is rejected by the residual; D > 0 is a *conclusion* for γ > 1);
  * `bbnoh_noh_state_is_root`  conversely Noh's state is a root (γ > 1): existence, non-vacuity;
  * `bbnoh_eq_noh`          every field of `BBNohIdeal` = the field of `Noh` with geometry = symmetry + 1 at every (r, t),
                            same branch, both outcomes ok;
  * `bbnoh_eq_cog19`        … = Coggeshall 19, T = (γ-1) e / Γ;
  * `bbnoh_approx_root_partial`  what an approximate root (|F_i| ≤ ε, as the Newton exit test delivers) still gives.
  Hypothesis NOT enforced by the code (known finding C02.bbnoh.initial_state): the unshocked state is assembled from
  the attributes rho0/u0/p0, the jump conditions are solved for `initial_conditions`; `BBConsistent` says they are the
  same numbers.  At the DEFAULT initial conditions (ρ₀ = 1, u₀ = -1, P₀ = 0, rho0 = 1, u0 = -1, p0 = 0) they are:

Layer 2 (default initial conditions, nothing assumed about consistency; generated models `BBRun*` of this package:
  the real constructor, then `_run` through the real `solve_jump_conditions`, the residual outputs `resF*` being those
  of the very residual object handed to the solver):
  * `bbrun<Planar|Cylindrical|Spherical|Base>_eq_noh`   root ⇒ every returned field = Noh(γ, k, ρ₀ = 1, u₀ = -1), every (r, t).
  * `bbrunIC<1|2|3>_eq_noh`   the same with SYMBOLIC (ρ₀, u₀) given consistently to the general class
    (`initial_conditions` and the parameters rho0, u0): = Noh(γ, k, ρ₀, u₀) — the whole parameter set common to both routes.
-/
import EPV.Gen.BBNohIdeal
import EPV.Gen.ResPressureIdeal_res
import EPV.Gen.BBRunBase
import EPV.Gen.BBRunPlanar
import EPV.Gen.BBRunCylindrical
import EPV.Gen.BBRunSpherical
import EPV.Gen.BBRunIC1
import EPV.Gen.BBRunIC2
import EPV.Gen.BBRunIC3
import EPV.Gen.Noh
import EPV.Gen.Cog19
import EPV.Props.C07.Hydro
import EPV.Tactics
import EPV.Lemmas.Bridge.Noh
import EPV.Lemmas.Bridge.EosTac

set_option linter.all false

open EPV EPV.Gen
open Classical

namespace EPV.C07



/-! ### the residual: acceptance and value -/

/-- the documented admissible domain of `pressure_noh_residual` with the ideal gas: γ ≠ 1, u₀ < 0, ρ₀ > 0, P₀ ≥ 0,
symmetry ∈ {0, 1, 2}, P₀ = 0 unless planar, and a non-zero density argument -/
structure ResAdmissible (q : ResPressureIdeal_res.P) (ρ : ℝ) : Prop where
  gamma : q.gamma ≠ 1
  u0 : q.u_0 < 0
  rho0 : 0 < q.rho_0
  p0 : 0 ≤ q.P_0
  sym : q.symmetry = 0 ∨ (q.symmetry = 1 ∧ q.P_0 = 0) ∨ (q.symmetry = 2 ∧ q.P_0 = 0)
  rho : ρ ≠ 0

/-- the traced constructor + `F` accept exactly the admissible requests -/
theorem res_ok_iff (q : ResPressureIdeal_res.P) (ρ e D : ℝ) : ResPressureIdeal_res.outcome q ρ e D = .ok ↔ ResAdmissible q ρ := by
  constructor
  · intro h
    simp only [epv_tree] at h
    split_ifs at h <;> first
      | epv_absurd
      | (simp only [epv_cond] at *
         exact ⟨by epv_eos_fact, by epv_eos_fact, by epv_eos_fact, by epv_eos_fact, by tauto, by epv_eos_fact⟩)
  · rintro ⟨hγ, hu, hρ0, hp, hs, hρ⟩
    rcases hs with h | ⟨h, h'⟩ | ⟨h, h'⟩ <;> (simp only [epv_tree]; epv_eos_ifs)

/-- on every accepted request the three components are the documented jump-condition residuals -/
theorem res_value (q : ResPressureIdeal_res.P) (ρ e D : ℝ) (h : ResPressureIdeal_res.outcome q ρ e D = .ok) :
    ResPressureIdeal_res.F0 q ρ e D = ρ - q.rho_0 * (1 - q.u_0 / D) ^ (q.symmetry + 1) ∧
    ResPressureIdeal_res.F1 q ρ e D = ρ * e * (q.gamma - 1) - q.P_0 + ρ * q.u_0 * D ∧
    ResPressureIdeal_res.F2 q ρ e D = e - q.P_0 / (q.rho_0 * (q.gamma - 1)) - 1 / 2 * q.u_0 ^ 2 + q.u_0 / ρ * (q.P_0 / D) := by
  obtain ⟨hγ, hu, hρ0, hp, hs, hρ⟩ := (res_ok_iff q ρ e D).mp h
  have hg1 : q.gamma - 1 ≠ 0 := sub_ne_zero.mpr hγ
  have hρ0' : q.rho_0 ≠ 0 := hρ0.ne'
  rcases hs with h | ⟨h, h'⟩ | ⟨h, h'⟩ <;>
    (refine ⟨?_, ?_, ?_⟩ <;> (simp only [epv_tree]; epv_eos_ifs; simp only [epv_leaf]) <;>
      first | rfl | ring1 | (by_cases hD : D = 0 <;> [(subst hD; simp only [div_zero, mul_zero, add_zero]; epv_eos_field); epv_eos_field]) | ring_nf)

/-! ### uniqueness of the root -/

/-- Noh's post-shock state for the initial state of `q` -/
noncomputable def nohEnergy (q : ResPressureIdeal_res.P) : ℝ := q.u_0 ^ 2 / 2
noncomputable def nohSpeed (q : ResPressureIdeal_res.P) : ℝ := (q.gamma - 1) * |q.u_0| / 2
noncomputable def nohDensity (q : ResPressureIdeal_res.P) : ℝ := q.rho_0 * ((q.gamma + 1) / (q.gamma - 1)) ^ (q.symmetry + 1)

/-- **Uniqueness.**  With zero initial pressure the traced residual has at most one root on its accepted domain, and
it is Noh's closed form.  In particular the shock speed of ANY root is positive when γ > 1. -/
theorem bbnoh_root_unique (q : ResPressureIdeal_res.P) (ρ e D : ℝ) (hok : ResPressureIdeal_res.outcome q ρ e D = .ok) (hP : q.P_0 = 0)
    (h0 : ResPressureIdeal_res.F0 q ρ e D = 0) (h1 : ResPressureIdeal_res.F1 q ρ e D = 0) (h2 : ResPressureIdeal_res.F2 q ρ e D = 0) :
    ρ = nohDensity q ∧ e = nohEnergy q ∧ D = nohSpeed q := by
  obtain ⟨e0, e1, e2⟩ := res_value q ρ e D hok
  obtain ⟨hγ, hu, hρ0, -, -, hρ⟩ := (res_ok_iff q ρ e D).mp hok
  rw [e0] at h0; rw [e1] at h1; rw [e2] at h2
  simp only [hP, zero_div, mul_zero, sub_zero, add_zero] at h1 h2
  have hg1 : q.gamma - 1 ≠ 0 := sub_ne_zero.mpr hγ
  have he : e = q.u_0 ^ 2 / 2 := by linarith
  have hD : D = -(q.gamma - 1) * q.u_0 / 2 := by
    have h3 : ρ * (e * (q.gamma - 1) + q.u_0 * D) = 0 := by linarith
    have h4 : e * (q.gamma - 1) + q.u_0 * D = 0 := (mul_eq_zero.mp h3).resolve_left hρ
    rw [he] at h4
    have h5 : q.u_0 * (q.u_0 * (q.gamma - 1) / 2 + D) = 0 := by linarith
    have h6 := (mul_eq_zero.mp h5).resolve_left hu.ne
    linarith
  have hD0 : D ≠ 0 := by
    rw [hD]; exact div_ne_zero (mul_ne_zero (neg_ne_zero.mpr hg1) hu.ne) two_ne_zero
  have hu0 : q.u_0 ≠ 0 := hu.ne
  have hq : 1 - q.u_0 / D = (q.gamma + 1) / (q.gamma - 1) := by
    rw [hD]; field_simp; ring
  refine ⟨?_, he, ?_⟩
  · rw [hq] at h0; unfold nohDensity; linarith
  · unfold nohSpeed; rw [hD, abs_of_neg hu]; ring

/-- the shock speed of a root is positive for γ > 1 (a conclusion, not a hypothesis) -/
theorem bbnoh_root_speed_pos (q : ResPressureIdeal_res.P) (ρ e D : ℝ) (hok : ResPressureIdeal_res.outcome q ρ e D = .ok) (hP : q.P_0 = 0) (hγ : 1 < q.gamma)
    (h0 : ResPressureIdeal_res.F0 q ρ e D = 0) (h1 : ResPressureIdeal_res.F1 q ρ e D = 0) (h2 : ResPressureIdeal_res.F2 q ρ e D = 0) : 0 < D := by
  obtain ⟨-, -, hD⟩ := bbnoh_root_unique q ρ e D hok hP h0 h1 h2
  have hu := ((res_ok_iff q ρ e D).mp hok).u0
  rw [hD]; unfold nohSpeed
  have : 0 < |q.u_0| := abs_pos.mpr hu.ne
  have : 0 < q.gamma - 1 := by linarith
  positivity

/-- **Existence.**  For γ > 1 and an admissible initial state with P₀ = 0, Noh's state is accepted and is a root. -/
theorem bbnoh_noh_state_is_root (q : ResPressureIdeal_res.P) (hγ : 1 < q.gamma) (hu : q.u_0 < 0) (hρ0 : 0 < q.rho_0) (hP : q.P_0 = 0)
    (hs : q.symmetry = 0 ∨ q.symmetry = 1 ∨ q.symmetry = 2) :
    ResPressureIdeal_res.outcome q (nohDensity q) (nohEnergy q) (nohSpeed q) = .ok ∧
    ResPressureIdeal_res.F0 q (nohDensity q) (nohEnergy q) (nohSpeed q) = 0 ∧
    ResPressureIdeal_res.F1 q (nohDensity q) (nohEnergy q) (nohSpeed q) = 0 ∧
    ResPressureIdeal_res.F2 q (nohDensity q) (nohEnergy q) (nohSpeed q) = 0 := by
  have hg1 : 0 < q.gamma - 1 := by linarith
  have hB : 0 < (q.gamma + 1) / (q.gamma - 1) := div_pos (by linarith) hg1
  have hρ : nohDensity q ≠ 0 := by
    unfold nohDensity; exact (mul_pos hρ0 (Real.rpow_pos_of_pos hB _)).ne'
  have hok : ResPressureIdeal_res.outcome q (nohDensity q) (nohEnergy q) (nohSpeed q) = .ok :=
    (res_ok_iff _ _ _ _).mpr ⟨by linarith, hu, hρ0, by linarith, by rcases hs with h | h | h <;> simp [h, hP], hρ⟩
  obtain ⟨e0, e1, e2⟩ := res_value q _ _ _ hok
  have hD : nohSpeed q = -(q.gamma - 1) * q.u_0 / 2 := by unfold nohSpeed; rw [abs_of_neg hu]; ring
  have hu0 : q.u_0 ≠ 0 := hu.ne
  have hg1' : q.gamma - 1 ≠ 0 := hg1.ne'
  have hq : 1 - q.u_0 / nohSpeed q = (q.gamma + 1) / (q.gamma - 1) := by
    rw [hD]; field_simp; ring
  refine ⟨hok, ?_, ?_, ?_⟩
  · rw [e0, hq]; unfold nohDensity; ring
  · rw [e1, hP, hD]; unfold nohEnergy; ring
  · rw [e2, hP]; unfold nohEnergy; ring

/-! ### the assembled fields -/

/-- the attributes `_run` assembles the unshocked state from are the initial conditions the residual was built for
(true at the defaults; NOT enforced by the code: known finding C02.bbnoh.initial_state) and the EOS is the same -/
structure BBConsistent (p : BBNohIdeal.P) (q : ResPressureIdeal_res.P) : Prop where
  gamma : p.gamma = q.gamma
  symmetry : p.symmetry = q.symmetry
  rho0 : p.rho0 = q.rho_0
  u0 : p.u0 = q.u_0
  p0 : p.p0 = q.P_0

/-- the Noh problem with the same data: geometry = symmetry + 1 -/
def nohOfBB (p : BBNohIdeal.P) : Noh.P := ⟨p.gamma, p.symmetry + 1, p.rho0, p.u0⟩

/-- **Black-box Noh (ideal gas) = Noh.**  If the Newton result (x0, x1, x2) is a root of the traced residual for the
initial state the object was built with (P₀ = 0), then at every point and time both classes return numbers, take the
same branch, and every field agrees. -/
theorem bbnoh_eq_noh (p : BBNohIdeal.P) (q : ResPressureIdeal_res.P) (r t : ℝ) (hc : BBConsistent p q)
    (hok : ResPressureIdeal_res.outcome q p.x0 p.x1 p.x2 = .ok) (hP : q.P_0 = 0)
    (h0 : ResPressureIdeal_res.F0 q p.x0 p.x1 p.x2 = 0) (h1 : ResPressureIdeal_res.F1 q p.x0 p.x1 p.x2 = 0) (h2 : ResPressureIdeal_res.F2 q p.x0 p.x1 p.x2 = 0) :
    BBNohIdeal.outcome p r t = .ok ∧ Noh.outcome (nohOfBB p) r t = .ok ∧
    (BBNohIdeal.c1 p r t ↔ Noh.c0 (nohOfBB p) r t) ∧
    BBNohIdeal.position p r t = Noh.position (nohOfBB p) r t ∧
    BBNohIdeal.density p r t = Noh.density (nohOfBB p) r t ∧
    BBNohIdeal.pressure p r t = Noh.pressure (nohOfBB p) r t ∧
    BBNohIdeal.specific_internal_energy p r t = Noh.specific_internal_energy (nohOfBB p) r t ∧
    BBNohIdeal.velocity p r t = Noh.velocity (nohOfBB p) r t := by
  obtain ⟨hx0, hx1, hx2⟩ := bbnoh_root_unique q _ _ _ hok hP h0 h1 h2
  obtain ⟨hγ, hu, hρ0, -, -, hρ⟩ := (res_ok_iff q _ _ _).mp hok
  obtain ⟨cγ, cs, cρ, cu, cp⟩ := hc
  have hu' : p.u0 < 0 := cu ▸ hu
  have hγ' : p.gamma ≠ 1 := cγ ▸ hγ
  have hρ0' : p.rho0 ≠ 0 := by rw [cρ]; exact hρ0.ne'
  have hb : BBNohIdeal.c1 p r t ↔ Noh.c0 (nohOfBB p) r t := by
    simp only [epv_cond, nohOfBB, hx2, nohSpeed, ← cγ, ← cu, abs_of_neg hu']
    constructor <;> intro h <;> linarith
  have e0 : p.x0 = p.rho0 * ((p.gamma + 1) / (p.gamma - 1)) ^ (p.symmetry + 1) := by
    rw [hx0, nohDensity, cγ, cs, cρ]
  have e1 : p.x1 = p.u0 ^ 2 / 2 := by rw [hx1, nohEnergy, cu]
  have ep : p.p0 = 0 := by rw [cp, hP]
  have hab : |p.u0| = -p.u0 := abs_of_neg hu'
  have hbase : 1 - p.u0 * (t / r) = 1 + -p.u0 * t / r := by ring
  refine ⟨?_, ?_, hb, ?_, ?_, ?_, ?_, ?_⟩
  · -- accepted on both sides of the shock test (which the context does not decide)
    simp only [epv_tree] <;> epv_eos_ifs
  · simp only [epv_tree, ite_self]
  all_goals
    by_cases hN : Noh.c0 (nohOfBB p) r t
    · have hB := hb.mpr hN
      simp only [epv_cond] at hB
      simp only [epv_tree, if_pos hN] <;> epv_eos_ifs <;>
      (simp only [epv_leaf, nohOfBB, e0, e1, ep, hab, hbase, add_sub_cancel_right, zero_div]
       try (first | ring1 | ring_nf))
    · have hB := fun h => hN (hb.mp h)
      simp only [epv_cond] at hB
      simp only [epv_tree, if_neg hN] <;> epv_eos_ifs <;>
      (simp only [epv_leaf, nohOfBB, e0, e1, ep, hab, hbase, add_sub_cancel_right, zero_div]
       try (first | ring1 | ring_nf))

/-- … and therefore = Coggeshall 19 with the same (γ, k = symmetry + 1, ρ₀, u₀) and any Γ ≠ 0: density, velocity,
pressure, specific internal energy, and T = (γ-1) e / Γ   (r ≠ 0, γ > 1 as `noh_eq_cog19` needs) -/
theorem bbnoh_eq_cog19 (p : BBNohIdeal.P) (q : ResPressureIdeal_res.P) (c : Cog19.P) (r t : ℝ) (hc : BBConsistent p q)
    (hq : nohOfCog19 c = nohOfBB p) (hγ : 1 < p.gamma) (hΓ : c.Gamma ≠ 0) (hr : r ≠ 0)
    (hok : ResPressureIdeal_res.outcome q p.x0 p.x1 p.x2 = .ok) (hP : q.P_0 = 0)
    (h0 : ResPressureIdeal_res.F0 q p.x0 p.x1 p.x2 = 0) (h1 : ResPressureIdeal_res.F1 q p.x0 p.x1 p.x2 = 0) (h2 : ResPressureIdeal_res.F2 q p.x0 p.x1 p.x2 = 0) :
    BBNohIdeal.density p r t = Cog19.density c r t ∧
    BBNohIdeal.velocity p r t = Cog19.velocity c r t ∧
    BBNohIdeal.pressure p r t = Cog19.pressure c r t ∧
    BBNohIdeal.specific_internal_energy p r t = Cog19.specific_internal_energy c r t ∧
    Cog19.temperature c r t = (c.gamma - 1) * BBNohIdeal.specific_internal_energy p r t / c.Gamma ∧
    BBNohIdeal.position p r t = Cog19.position c r t := by
  obtain ⟨-, -, -, b1, b2, b3, b4, b5⟩ := bbnoh_eq_noh p q r t hc hok hP h0 h1 h2
  obtain ⟨-, hu, hρ0, -, -, -⟩ := (res_ok_iff q _ _ _).mp hok
  have hcγ : c.gamma = p.gamma := congrArg Noh.P.gamma hq
  have hcρ : c.rho0 = p.rho0 := congrArg Noh.P.rho0 hq
  have hcu : c.u0 = p.u0 := congrArg Noh.P.u0 hq
  obtain ⟨a1, a2, a3, a4, a5, a6⟩ := noh_eq_cog19 c r t (by rw [hcu, hc.u0]; exact hu.le) (by rw [hcγ]; exact hγ)
    (by rw [hcρ, hc.rho0]; exact hρ0.ne') hΓ hr
  rw [hq] at a1 a2 a3 a4 a5 a6
  exact ⟨b2.trans a1, b5.trans a2, b3.trans a3, b4.trans a4, by rw [a5, b4], b1.trans a6⟩

/-- the default initial conditions of every black-box Noh constructor, where attributes and initial conditions
coincide: ρ₀ = rho0 = 1, u₀ = u0 = -1, P₀ = p0 = 0 -/
theorem bbnoh_default_eq_noh (p : BBNohIdeal.P) (r t : ℝ) (hρ : p.rho0 = 1) (hu : p.u0 = -1) (hp : p.p0 = 0)
    (hok : ResPressureIdeal_res.outcome ⟨0, p.gamma, 1, p.symmetry, -1⟩ p.x0 p.x1 p.x2 = .ok)
    (h0 : ResPressureIdeal_res.F0 ⟨0, p.gamma, 1, p.symmetry, -1⟩ p.x0 p.x1 p.x2 = 0)
    (h1 : ResPressureIdeal_res.F1 ⟨0, p.gamma, 1, p.symmetry, -1⟩ p.x0 p.x1 p.x2 = 0)
    (h2 : ResPressureIdeal_res.F2 ⟨0, p.gamma, 1, p.symmetry, -1⟩ p.x0 p.x1 p.x2 = 0) :
    BBNohIdeal.density p r t = Noh.density ⟨p.gamma, p.symmetry + 1, 1, -1⟩ r t ∧
    BBNohIdeal.pressure p r t = Noh.pressure ⟨p.gamma, p.symmetry + 1, 1, -1⟩ r t ∧
    BBNohIdeal.specific_internal_energy p r t = Noh.specific_internal_energy ⟨p.gamma, p.symmetry + 1, 1, -1⟩ r t ∧
    BBNohIdeal.velocity p r t = Noh.velocity ⟨p.gamma, p.symmetry + 1, 1, -1⟩ r t := by
  obtain ⟨-, -, -, -, b2, b3, b4, b5⟩ :=
    bbnoh_eq_noh p ⟨0, p.gamma, 1, p.symmetry, -1⟩ r t ⟨rfl, rfl, hρ, hu, hp⟩ hok rfl h0 h1 h2
  simp only [nohOfBB, hρ, hu] at b2 b3 b4 b5
  exact ⟨b2, b3, b4, b5⟩

/-- non-vacuity: γ = 5/3, spherical, default initial state — the classical (64, 1/2, 1/3) is accepted and is a root,
and `BBConsistent` holds for the attributes the class body sets -/
example : ∃ (p : BBNohIdeal.P) (q : ResPressureIdeal_res.P), BBConsistent p q ∧ ResPressureIdeal_res.outcome q p.x0 p.x1 p.x2 = .ok ∧ q.P_0 = 0 ∧
    ResPressureIdeal_res.F0 q p.x0 p.x1 p.x2 = 0 ∧ ResPressureIdeal_res.F1 q p.x0 p.x1 p.x2 = 0 ∧ ResPressureIdeal_res.F2 q p.x0 p.x1 p.x2 = 0 := by
  let q : ResPressureIdeal_res.P := ⟨0, 5 / 3, 1, 2, -1⟩
  obtain ⟨a, b, c, d⟩ := bbnoh_noh_state_is_root q (by norm_num) (by norm_num) (by norm_num) rfl (Or.inr (Or.inr rfl))
  exact ⟨⟨5 / 3, 0, 1, 2, -1, nohDensity q, nohEnergy q, nohSpeed q⟩, q, ⟨rfl, rfl, rfl, rfl, rfl⟩, a, rfl, b, c, d⟩

/-- at γ = 5/3 the three roots are the textbook values 4, 16, 64 with e = 1/2 and D = 1/3 -/
example : nohDensity ⟨0, 5 / 3, 1, 2, -1⟩ = 64 ∧ nohDensity ⟨0, 5 / 3, 1, 1, -1⟩ = 16 ∧ nohDensity ⟨0, 5 / 3, 1, 0, -1⟩ = 4 ∧
    nohEnergy ⟨0, 5 / 3, 1, 2, -1⟩ = 1 / 2 ∧ nohSpeed ⟨0, 5 / 3, 1, 2, -1⟩ = 1 / 3 := by
  refine ⟨?_, ?_, ?_, ?_, ?_⟩
  · show (1 : ℝ) * ((5 / 3 + 1) / (5 / 3 - 1)) ^ ((2 : ℝ) + 1) = 64
    rw [show ((2 : ℝ) + 1) = ((3 : ℕ) : ℝ) by norm_num, Real.rpow_natCast]; norm_num
  · show (1 : ℝ) * ((5 / 3 + 1) / (5 / 3 - 1)) ^ ((1 : ℝ) + 1) = 16
    rw [show ((1 : ℝ) + 1) = ((2 : ℕ) : ℝ) by norm_num, Real.rpow_natCast]; norm_num
  · show (1 : ℝ) * ((5 / 3 + 1) / (5 / 3 - 1)) ^ ((0 : ℝ) + 1) = 4
    rw [show ((0 : ℝ) + 1) = ((1 : ℕ) : ℝ) by norm_num, Real.rpow_natCast]; norm_num
  · show ((-1 : ℝ)) ^ 2 / 2 = 1 / 2
    norm_num
  · show ((5 / 3 : ℝ) - 1) * |(-1 : ℝ)| / 2 = 1 / 3
    rw [abs_neg, abs_one]; norm_num

/-! ### approximate roots (what the Newton exit test delivers) -/

/-- **(P)** The Newton loop stops when ‖F(x)‖ ≤ tol, so the real (x0, x1, x2) is only an approximate root.  Partial:
this gives the energy and the shock speed to first order in ε and the density relative to Noh's formula *at the
returned speed*; the Lipschitz step ρ₀(1-u₀/D)^(m+1) ↦ ρ₀((γ+1)/(γ-1))^(m+1) and the exclusion of the spurious
approximate root (ρ ≈ 0, D ≈ u₀ < 0: finding C16.newton.positive_speed) are not mechanised — the latter needs
ρ bounded away from 0 (hypothesis `hρ`), which the code does not check. -/
theorem bbnoh_approx_root_partial (q : ResPressureIdeal_res.P) (ρ e D ε ρmin : ℝ) (hok : ResPressureIdeal_res.outcome q ρ e D = .ok) (hP : q.P_0 = 0)
    (hρ : ρmin ≤ ρ) (hρmin : 0 < ρmin)
    (h0 : |ResPressureIdeal_res.F0 q ρ e D| ≤ ε) (h1 : |ResPressureIdeal_res.F1 q ρ e D| ≤ ε) (h2 : |ResPressureIdeal_res.F2 q ρ e D| ≤ ε) :
    |e - nohEnergy q| ≤ ε ∧
    |D - nohSpeed q| ≤ (ε / ρmin + |q.gamma - 1| * ε) / |q.u_0| ∧
    |ρ - q.rho_0 * (1 - q.u_0 / D) ^ (q.symmetry + 1)| ≤ ε := by
  obtain ⟨e0, e1, e2⟩ := res_value q ρ e D hok
  obtain ⟨hγ, hu, hρ0, -, -, hρne⟩ := (res_ok_iff q ρ e D).mp hok
  rw [e0] at h0; rw [e1] at h1; rw [e2] at h2
  simp only [hP, zero_div, mul_zero, sub_zero, add_zero] at h1 h2
  have hρpos : 0 < ρ := lt_of_lt_of_le hρmin hρ
  have hε : 0 ≤ ε := le_trans (abs_nonneg _) h0
  have he : |e - nohEnergy q| ≤ ε := by
    unfold nohEnergy
    have : e - q.u_0 ^ 2 / 2 = e - 1 / 2 * q.u_0 ^ 2 := by ring
    rw [this]; exact h2
  refine ⟨he, ?_, h0⟩
  -- F1 = ρ (e (γ-1) + u₀ D);  D - D* = (F1/ρ - (γ-1)(e - e*)) / u₀
  have hu' : |q.u_0| = -q.u_0 := abs_of_neg hu
  have hupos : 0 < |q.u_0| := abs_pos.mpr hu.ne
  have key : (D - nohSpeed q) * q.u_0 = (ρ * e * (q.gamma - 1) + ρ * q.u_0 * D) / ρ - (q.gamma - 1) * (e - nohEnergy q) := by
    unfold nohSpeed nohEnergy; rw [hu']; field_simp; ring
  have hb1 : |(ρ * e * (q.gamma - 1) + ρ * q.u_0 * D) / ρ| ≤ ε / ρmin := by
    rw [abs_div, abs_of_pos hρpos]
    calc |ρ * e * (q.gamma - 1) + ρ * q.u_0 * D| / ρ ≤ ε / ρ := by gcongr
      _ ≤ ε / ρmin := by gcongr
  have hb2 : |(q.gamma - 1) * (e - nohEnergy q)| ≤ |q.gamma - 1| * ε := by
    rw [abs_mul]; gcongr
  have hb : |(D - nohSpeed q) * q.u_0| ≤ ε / ρmin + |q.gamma - 1| * ε := by
    rw [key]; exact (abs_sub _ _).trans (add_le_add hb1 hb2)
  rw [abs_mul] at hb
  rw [le_div_iff₀ hupos]; exact hb

/-- non-vacuity: an exact root satisfies the hypotheses with ε = 0 and ρmin = ρ -/
example : ∃ (q : ResPressureIdeal_res.P) (ρ e D ε ρmin : ℝ), ResPressureIdeal_res.outcome q ρ e D = .ok ∧ q.P_0 = 0 ∧ ρmin ≤ ρ ∧
    0 < ρmin ∧ |ResPressureIdeal_res.F0 q ρ e D| ≤ ε ∧ |ResPressureIdeal_res.F1 q ρ e D| ≤ ε ∧
    |ResPressureIdeal_res.F2 q ρ e D| ≤ ε := by
  let q : ResPressureIdeal_res.P := ⟨0, 5 / 3, 1, 2, -1⟩
  obtain ⟨a, b, c, d⟩ := bbnoh_noh_state_is_root q (by norm_num) (by norm_num) (by norm_num) rfl (Or.inr (Or.inr rfl))
  have hpos : 0 < nohDensity q := by
    unfold nohDensity
    exact mul_pos (by norm_num) (Real.rpow_pos_of_pos (by norm_num) _)
  exact ⟨q, nohDensity q, nohEnergy q, nohSpeed q, 0, nohDensity q, a, rfl, le_rfl, hpos, by rw [b, abs_zero],
    by rw [c, abs_zero], by rw [d, abs_zero]⟩

/-- non-vacuity for the Coggeshall form: the Cog19 problem with the same data exists (Γ = 40, the class default) -/
example (p : BBNohIdeal.P) : ∃ c : Cog19.P, nohOfCog19 c = nohOfBB p ∧ c.Gamma ≠ 0 :=
  ⟨{ Gamma := 40, a_rad := 0, alpha_ := 0, beta_ := 0, c_light := 0, gamma := p.gamma, geometry := p.symmetry + 1, lam0_ := 0,
     rho0 := p.rho0, u0 := p.u0 }, rfl, by norm_num⟩

/-! ### Layer 2: the public route at the default initial conditions (constructor, solve_jump_conditions, _run) -/

/-- the algebra shared by the four classes: with ρ₀ = 1, u₀ = -1, P₀ = 0 the three residual equations force Noh's state
(k = symmetry + 1 a literal natural number in these traces) -/
theorem default_root_algebra (γ x0 x1 x2 : ℝ) (k : ℕ) (hγ : γ ≠ 1) (hx0 : x0 ≠ 0)
    (h0 : x0 = (1 + 1 / x2) ^ k) (h1 : x0 * (x1 * (γ - 1) - x2) = 0) (h2 : x1 = 1 / 2) :
    x1 = 1 / 2 ∧ x2 = (γ - 1) / 2 ∧ x0 = ((γ + 1) / (γ - 1)) ^ k := by
  have hg : γ - 1 ≠ 0 := sub_ne_zero.mpr hγ
  have hx2 : x2 = (γ - 1) / 2 := by
    have := (mul_eq_zero.mp h1).resolve_left hx0
    rw [h2] at this; linarith
  refine ⟨h2, hx2, ?_⟩
  rw [h0, hx2]; congr 1; field_simp; ring

/-- `PlanarNohBlackBox(ideal_gas_eos(γ))` = `Noh(γ, geometry = 1)` -/
theorem bbrunPlanar_eq_noh (p : BBRunPlanar.P) (r t : ℝ) (hok : BBRunPlanar.outcome p r t = .ok)
    (h0 : BBRunPlanar.resF0 p r t = 0) (h1 : BBRunPlanar.resF1 p r t = 0) (h2 : BBRunPlanar.resF2 p r t = 0) :
    p.x0 = ((p.gamma + 1) / (p.gamma - 1)) ^ (1 : ℕ) ∧ p.x1 = 1 / 2 ∧ p.x2 = (p.gamma - 1) / 2 ∧
    Noh.outcome ⟨p.gamma, 1, 1, -1⟩ r t = .ok ∧
    BBRunPlanar.position p r t = Noh.position ⟨p.gamma, 1, 1, -1⟩ r t ∧
    BBRunPlanar.density p r t = Noh.density ⟨p.gamma, 1, 1, -1⟩ r t ∧
    BBRunPlanar.pressure p r t = Noh.pressure ⟨p.gamma, 1, 1, -1⟩ r t ∧
    BBRunPlanar.specific_internal_energy p r t = Noh.specific_internal_energy ⟨p.gamma, 1, 1, -1⟩ r t ∧
    BBRunPlanar.velocity p r t = Noh.velocity ⟨p.gamma, 1, 1, -1⟩ r t := by
  -- the documented facts behind acceptance, whatever the order and form of the traced guards
  have hf : p.gamma ≠ 1 ∧ p.x0 ≠ 0 := by
    simp only [epv_tree] at hok
    split_ifs at hok <;> first
      | epv_absurd
      | (simp only [epv_cond] at *
         exact ⟨by epv_eos_fact, by epv_eos_fact⟩)
  obtain ⟨hγ, hx0⟩ := hf
  have hg1 : p.gamma - 1 ≠ 0 := sub_ne_zero.mpr hγ
  -- the residual handed to the solver (the shock test is not decided by the context: both sides return the same residual)
  have v0 : BBRunPlanar.resF0 p r t = p.x0 - (1 + 1 / p.x2) ^ (1 : ℕ) := by
    simp only [epv_tree] <;> epv_eos_ifs <;> simp only [epv_leaf] <;> epv_eos_field
  have v1 : BBRunPlanar.resF1 p r t = p.x0 * (p.x1 * (p.gamma - 1) - p.x2) := by
    simp only [epv_tree] <;> epv_eos_ifs <;> simp only [epv_leaf] <;> epv_eos_field
  have v2 : BBRunPlanar.resF2 p r t = p.x1 - 1 / 2 := by
    simp only [epv_tree] <;> epv_eos_ifs <;> simp only [epv_leaf] <;> epv_eos_field
  rw [v0] at h0; rw [v1] at h1; rw [v2] at h2
  obtain ⟨e1, e2, e0⟩ := default_root_algebra p.gamma p.x0 p.x1 p.x2 1 hγ hx0 (by linear_combination h0) h1 (by linarith)
  have hx2t : p.x2 * t = (p.gamma - 1) / 2 * t := by rw [e2]
  have hb : r < p.x2 * t ↔ Noh.c0 ⟨p.gamma, 1, 1, -1⟩ r t := by
    rw [Bridge.noh_c0_iff]
    simp only [abs_neg, abs_one, hx2t]
    constructor <;> intro h <;> linarith
  refine ⟨e0, e1, e2, by simp only [epv_tree, ite_self], ?_, ?_, ?_, ?_, ?_⟩
  all_goals
    by_cases hN : Noh.c0 ⟨p.gamma, 1, 1, -1⟩ r t
    · have hB := hb.mpr hN
      simp only [epv_cond] at hN
      simp only [epv_tree] <;> epv_eos_ifs <;>
      (simp only [epv_leaf, e0, e1, abs_neg, abs_one]
       try (norm_num <;> first | ring1 | ring_nf))
    · have hB : ¬ r < p.x2 * t := fun h => hN (hb.mp h)
      simp only [epv_cond] at hN
      simp only [epv_tree] <;> epv_eos_ifs <;>
      (simp only [epv_leaf, e0, e1, abs_neg, abs_one]
       try (norm_num <;> first | ring1 | ring_nf))

/-- `CylindricalNohBlackBox(ideal_gas_eos(γ))` = `Noh(γ, geometry = 2)` -/
theorem bbrunCylindrical_eq_noh (p : BBRunCylindrical.P) (r t : ℝ) (hok : BBRunCylindrical.outcome p r t = .ok)
    (h0 : BBRunCylindrical.resF0 p r t = 0) (h1 : BBRunCylindrical.resF1 p r t = 0) (h2 : BBRunCylindrical.resF2 p r t = 0) :
    p.x0 = ((p.gamma + 1) / (p.gamma - 1)) ^ (2 : ℕ) ∧ p.x1 = 1 / 2 ∧ p.x2 = (p.gamma - 1) / 2 ∧
    Noh.outcome ⟨p.gamma, 2, 1, -1⟩ r t = .ok ∧
    BBRunCylindrical.position p r t = Noh.position ⟨p.gamma, 2, 1, -1⟩ r t ∧
    BBRunCylindrical.density p r t = Noh.density ⟨p.gamma, 2, 1, -1⟩ r t ∧
    BBRunCylindrical.pressure p r t = Noh.pressure ⟨p.gamma, 2, 1, -1⟩ r t ∧
    BBRunCylindrical.specific_internal_energy p r t = Noh.specific_internal_energy ⟨p.gamma, 2, 1, -1⟩ r t ∧
    BBRunCylindrical.velocity p r t = Noh.velocity ⟨p.gamma, 2, 1, -1⟩ r t := by
  -- the documented facts behind acceptance, whatever the order and form of the traced guards
  have hf : p.gamma ≠ 1 ∧ p.x0 ≠ 0 := by
    simp only [epv_tree] at hok
    split_ifs at hok <;> first
      | epv_absurd
      | (simp only [epv_cond] at *
         exact ⟨by epv_eos_fact, by epv_eos_fact⟩)
  obtain ⟨hγ, hx0⟩ := hf
  have hg1 : p.gamma - 1 ≠ 0 := sub_ne_zero.mpr hγ
  -- the residual handed to the solver (the shock test is not decided by the context: both sides return the same residual)
  have v0 : BBRunCylindrical.resF0 p r t = p.x0 - (1 + 1 / p.x2) ^ (2 : ℕ) := by
    simp only [epv_tree] <;> epv_eos_ifs <;> simp only [epv_leaf] <;> epv_eos_field
  have v1 : BBRunCylindrical.resF1 p r t = p.x0 * (p.x1 * (p.gamma - 1) - p.x2) := by
    simp only [epv_tree] <;> epv_eos_ifs <;> simp only [epv_leaf] <;> epv_eos_field
  have v2 : BBRunCylindrical.resF2 p r t = p.x1 - 1 / 2 := by
    simp only [epv_tree] <;> epv_eos_ifs <;> simp only [epv_leaf] <;> epv_eos_field
  rw [v0] at h0; rw [v1] at h1; rw [v2] at h2
  obtain ⟨e1, e2, e0⟩ := default_root_algebra p.gamma p.x0 p.x1 p.x2 2 hγ hx0 (by linear_combination h0) h1 (by linarith)
  have hx2t : p.x2 * t = (p.gamma - 1) / 2 * t := by rw [e2]
  have hb : r < p.x2 * t ↔ Noh.c0 ⟨p.gamma, 2, 1, -1⟩ r t := by
    rw [Bridge.noh_c0_iff]
    simp only [abs_neg, abs_one, hx2t]
    constructor <;> intro h <;> linarith
  refine ⟨e0, e1, e2, by simp only [epv_tree, ite_self], ?_, ?_, ?_, ?_, ?_⟩
  all_goals
    by_cases hN : Noh.c0 ⟨p.gamma, 2, 1, -1⟩ r t
    · have hB := hb.mpr hN
      simp only [epv_cond] at hN
      simp only [epv_tree] <;> epv_eos_ifs <;>
      (simp only [epv_leaf, e0, e1, abs_neg, abs_one]
       try (norm_num <;> first | ring1 | ring_nf))
    · have hB : ¬ r < p.x2 * t := fun h => hN (hb.mp h)
      simp only [epv_cond] at hN
      simp only [epv_tree] <;> epv_eos_ifs <;>
      (simp only [epv_leaf, e0, e1, abs_neg, abs_one]
       try (norm_num <;> first | ring1 | ring_nf))

/-- `SphericalNohBlackBox(ideal_gas_eos(γ))` = `Noh(γ, geometry = 3)` -/
theorem bbrunSpherical_eq_noh (p : BBRunSpherical.P) (r t : ℝ) (hok : BBRunSpherical.outcome p r t = .ok)
    (h0 : BBRunSpherical.resF0 p r t = 0) (h1 : BBRunSpherical.resF1 p r t = 0) (h2 : BBRunSpherical.resF2 p r t = 0) :
    p.x0 = ((p.gamma + 1) / (p.gamma - 1)) ^ (3 : ℕ) ∧ p.x1 = 1 / 2 ∧ p.x2 = (p.gamma - 1) / 2 ∧
    Noh.outcome ⟨p.gamma, 3, 1, -1⟩ r t = .ok ∧
    BBRunSpherical.position p r t = Noh.position ⟨p.gamma, 3, 1, -1⟩ r t ∧
    BBRunSpherical.density p r t = Noh.density ⟨p.gamma, 3, 1, -1⟩ r t ∧
    BBRunSpherical.pressure p r t = Noh.pressure ⟨p.gamma, 3, 1, -1⟩ r t ∧
    BBRunSpherical.specific_internal_energy p r t = Noh.specific_internal_energy ⟨p.gamma, 3, 1, -1⟩ r t ∧
    BBRunSpherical.velocity p r t = Noh.velocity ⟨p.gamma, 3, 1, -1⟩ r t := by
  -- the documented facts behind acceptance, whatever the order and form of the traced guards
  have hf : p.gamma ≠ 1 ∧ p.x0 ≠ 0 := by
    simp only [epv_tree] at hok
    split_ifs at hok <;> first
      | epv_absurd
      | (simp only [epv_cond] at *
         exact ⟨by epv_eos_fact, by epv_eos_fact⟩)
  obtain ⟨hγ, hx0⟩ := hf
  have hg1 : p.gamma - 1 ≠ 0 := sub_ne_zero.mpr hγ
  -- the residual handed to the solver (the shock test is not decided by the context: both sides return the same residual)
  have v0 : BBRunSpherical.resF0 p r t = p.x0 - (1 + 1 / p.x2) ^ (3 : ℕ) := by
    simp only [epv_tree] <;> epv_eos_ifs <;> simp only [epv_leaf] <;> epv_eos_field
  have v1 : BBRunSpherical.resF1 p r t = p.x0 * (p.x1 * (p.gamma - 1) - p.x2) := by
    simp only [epv_tree] <;> epv_eos_ifs <;> simp only [epv_leaf] <;> epv_eos_field
  have v2 : BBRunSpherical.resF2 p r t = p.x1 - 1 / 2 := by
    simp only [epv_tree] <;> epv_eos_ifs <;> simp only [epv_leaf] <;> epv_eos_field
  rw [v0] at h0; rw [v1] at h1; rw [v2] at h2
  obtain ⟨e1, e2, e0⟩ := default_root_algebra p.gamma p.x0 p.x1 p.x2 3 hγ hx0 (by linear_combination h0) h1 (by linarith)
  have hx2t : p.x2 * t = (p.gamma - 1) / 2 * t := by rw [e2]
  have hb : r < p.x2 * t ↔ Noh.c0 ⟨p.gamma, 3, 1, -1⟩ r t := by
    rw [Bridge.noh_c0_iff]
    simp only [abs_neg, abs_one, hx2t]
    constructor <;> intro h <;> linarith
  refine ⟨e0, e1, e2, by simp only [epv_tree, ite_self], ?_, ?_, ?_, ?_, ?_⟩
  all_goals
    by_cases hN : Noh.c0 ⟨p.gamma, 3, 1, -1⟩ r t
    · have hB := hb.mpr hN
      simp only [epv_cond] at hN
      simp only [epv_tree] <;> epv_eos_ifs <;>
      (simp only [epv_leaf, e0, e1, abs_neg, abs_one]
       try (norm_num <;> first | ring1 | ring_nf))
    · have hB : ¬ r < p.x2 * t := fun h => hN (hb.mp h)
      simp only [epv_cond] at hN
      simp only [epv_tree] <;> epv_eos_ifs <;>
      (simp only [epv_leaf, e0, e1, abs_neg, abs_one]
       try (norm_num <;> first | ring1 | ring_nf))

/-- `NohBlackBoxEos(ideal_gas_eos(γ))` (default geometry 3, default symmetry 2) = `Noh(γ, geometry = 3)` -/
theorem bbrunBase_eq_noh (p : BBRunBase.P) (r t : ℝ) (hok : BBRunBase.outcome p r t = .ok)
    (h0 : BBRunBase.resF0 p r t = 0) (h1 : BBRunBase.resF1 p r t = 0) (h2 : BBRunBase.resF2 p r t = 0) :
    p.x0 = ((p.gamma + 1) / (p.gamma - 1)) ^ (3 : ℕ) ∧ p.x1 = 1 / 2 ∧ p.x2 = (p.gamma - 1) / 2 ∧
    Noh.outcome ⟨p.gamma, 3, 1, -1⟩ r t = .ok ∧
    BBRunBase.position p r t = Noh.position ⟨p.gamma, 3, 1, -1⟩ r t ∧
    BBRunBase.density p r t = Noh.density ⟨p.gamma, 3, 1, -1⟩ r t ∧
    BBRunBase.pressure p r t = Noh.pressure ⟨p.gamma, 3, 1, -1⟩ r t ∧
    BBRunBase.specific_internal_energy p r t = Noh.specific_internal_energy ⟨p.gamma, 3, 1, -1⟩ r t ∧
    BBRunBase.velocity p r t = Noh.velocity ⟨p.gamma, 3, 1, -1⟩ r t := by
  -- the documented facts behind acceptance, whatever the order and form of the traced guards
  have hf : p.gamma ≠ 1 ∧ p.x0 ≠ 0 := by
    simp only [epv_tree] at hok
    split_ifs at hok <;> first
      | epv_absurd
      | (simp only [epv_cond] at *
         exact ⟨by epv_eos_fact, by epv_eos_fact⟩)
  obtain ⟨hγ, hx0⟩ := hf
  have hg1 : p.gamma - 1 ≠ 0 := sub_ne_zero.mpr hγ
  -- the residual handed to the solver (the shock test is not decided by the context: both sides return the same residual)
  have v0 : BBRunBase.resF0 p r t = p.x0 - (1 + 1 / p.x2) ^ (3 : ℕ) := by
    simp only [epv_tree] <;> epv_eos_ifs <;> simp only [epv_leaf] <;> epv_eos_field
  have v1 : BBRunBase.resF1 p r t = p.x0 * (p.x1 * (p.gamma - 1) - p.x2) := by
    simp only [epv_tree] <;> epv_eos_ifs <;> simp only [epv_leaf] <;> epv_eos_field
  have v2 : BBRunBase.resF2 p r t = p.x1 - 1 / 2 := by
    simp only [epv_tree] <;> epv_eos_ifs <;> simp only [epv_leaf] <;> epv_eos_field
  rw [v0] at h0; rw [v1] at h1; rw [v2] at h2
  obtain ⟨e1, e2, e0⟩ := default_root_algebra p.gamma p.x0 p.x1 p.x2 3 hγ hx0 (by linear_combination h0) h1 (by linarith)
  have hx2t : p.x2 * t = (p.gamma - 1) / 2 * t := by rw [e2]
  have hb : r < p.x2 * t ↔ Noh.c0 ⟨p.gamma, 3, 1, -1⟩ r t := by
    rw [Bridge.noh_c0_iff]
    simp only [abs_neg, abs_one, hx2t]
    constructor <;> intro h <;> linarith
  refine ⟨e0, e1, e2, by simp only [epv_tree, ite_self], ?_, ?_, ?_, ?_, ?_⟩
  all_goals
    by_cases hN : Noh.c0 ⟨p.gamma, 3, 1, -1⟩ r t
    · have hB := hb.mpr hN
      simp only [epv_cond] at hN
      simp only [epv_tree] <;> epv_eos_ifs <;>
      (simp only [epv_leaf, e0, e1, abs_neg, abs_one]
       try (norm_num <;> first | ring1 | ring_nf))
    · have hB : ¬ r < p.x2 * t := fun h => hN (hb.mp h)
      simp only [epv_cond] at hN
      simp only [epv_tree] <;> epv_eos_ifs <;>
      (simp only [epv_leaf, e0, e1, abs_neg, abs_one]
       try (norm_num <;> first | ring1 | ring_nf))

/-- non-vacuity of the four statements: γ = 5/3, the textbook states (4, 16, 64; e = 1/2; D = 1/3) are accepted and are roots
of the residual each route hands to its solver -/
example :
    (BBRunPlanar.outcome ⟨5 / 3, 4, 1 / 2, 1 / 3⟩ 1 1 = .ok ∧ BBRunPlanar.resF0 ⟨5 / 3, 4, 1 / 2, 1 / 3⟩ 1 1 = 0 ∧
      BBRunPlanar.resF1 ⟨5 / 3, 4, 1 / 2, 1 / 3⟩ 1 1 = 0 ∧ BBRunPlanar.resF2 ⟨5 / 3, 4, 1 / 2, 1 / 3⟩ 1 1 = 0) ∧
    (BBRunCylindrical.outcome ⟨5 / 3, 16, 1 / 2, 1 / 3⟩ 1 1 = .ok ∧ BBRunCylindrical.resF0 ⟨5 / 3, 16, 1 / 2, 1 / 3⟩ 1 1 = 0 ∧
      BBRunCylindrical.resF1 ⟨5 / 3, 16, 1 / 2, 1 / 3⟩ 1 1 = 0 ∧ BBRunCylindrical.resF2 ⟨5 / 3, 16, 1 / 2, 1 / 3⟩ 1 1 = 0) ∧
    (BBRunSpherical.outcome ⟨5 / 3, 64, 1 / 2, 1 / 3⟩ 1 1 = .ok ∧ BBRunSpherical.resF0 ⟨5 / 3, 64, 1 / 2, 1 / 3⟩ 1 1 = 0 ∧
      BBRunSpherical.resF1 ⟨5 / 3, 64, 1 / 2, 1 / 3⟩ 1 1 = 0 ∧ BBRunSpherical.resF2 ⟨5 / 3, 64, 1 / 2, 1 / 3⟩ 1 1 = 0) ∧
    (BBRunBase.outcome ⟨5 / 3, 64, 1 / 2, 1 / 3⟩ 1 1 = .ok ∧ BBRunBase.resF0 ⟨5 / 3, 64, 1 / 2, 1 / 3⟩ 1 1 = 0 ∧
      BBRunBase.resF1 ⟨5 / 3, 64, 1 / 2, 1 / 3⟩ 1 1 = 0 ∧ BBRunBase.resF2 ⟨5 / 3, 64, 1 / 2, 1 / 3⟩ 1 1 = 0) := by
  refine ⟨⟨?_, ?_, ?_, ?_⟩, ⟨?_, ?_, ?_, ?_⟩, ⟨?_, ?_, ?_, ?_⟩, ⟨?_, ?_, ?_, ?_⟩⟩ <;>
    simp only [epv_tree, epv_cond, epv_leaf] <;> norm_num

/-! ### Layer 2, symbolic incoming state: the parameter set common to Noh and the black-box class -/

/-- the algebra for a symbolic incoming state (ρ₀, u₀ < 0, P₀ = 0) -/
theorem ic_root_algebra (γ ρ0 u0 x0 x1 x2 : ℝ) (k : ℕ) (hγ : γ ≠ 1) (hu : u0 < 0) (hx0 : x0 ≠ 0)
    (h0 : x0 = ρ0 * (1 - u0 / x2) ^ k) (h1 : x0 * (x1 * (γ - 1) + u0 * x2) = 0) (h2 : x1 = u0 ^ 2 / 2) :
    x1 = u0 ^ 2 / 2 ∧ x2 = -(γ - 1) * u0 / 2 ∧ x0 = ρ0 * ((γ + 1) / (γ - 1)) ^ k := by
  have hg : γ - 1 ≠ 0 := sub_ne_zero.mpr hγ
  have hu0 : u0 ≠ 0 := hu.ne
  have hx2 : x2 = -(γ - 1) * u0 / 2 := by
    have h3 := (mul_eq_zero.mp h1).resolve_left hx0
    rw [h2] at h3
    have h4 : u0 * (u0 * (γ - 1) / 2 + x2) = 0 := by linarith
    have h5 := (mul_eq_zero.mp h4).resolve_left hu0
    linarith
  refine ⟨h2, hx2, ?_⟩
  rw [h0, hx2]; congr 2; field_simp; ring

/-- `NohBlackBoxEos(ideal_gas_eos(γ), {ρ₀, u₀, 0, symmetry 0}, geometry=1, rho0=ρ₀, u0=u₀)` = `Noh(γ, 1, ρ₀, u₀)`: accepted (so γ ≠ 1,
u₀ < 0, ρ₀ > 0) and the Newton result a root of the residual handed to the solver ⇒ all five fields agree everywhere -/
theorem bbrunIC1_eq_noh (p : BBRunIC1.P) (r t : ℝ) (hok : BBRunIC1.outcome p r t = .ok)
    (h0 : BBRunIC1.resF0 p r t = 0) (h1 : BBRunIC1.resF1 p r t = 0) (h2 : BBRunIC1.resF2 p r t = 0) :
    p.x0 = p.rho_0 * ((p.gamma + 1) / (p.gamma - 1)) ^ (1 : ℕ) ∧ p.x1 = p.u_0 ^ 2 / 2 ∧ p.x2 = -(p.gamma - 1) * p.u_0 / 2 ∧
    Noh.outcome ⟨p.gamma, 1, p.rho_0, p.u_0⟩ r t = .ok ∧
    BBRunIC1.position p r t = Noh.position ⟨p.gamma, 1, p.rho_0, p.u_0⟩ r t ∧
    BBRunIC1.density p r t = Noh.density ⟨p.gamma, 1, p.rho_0, p.u_0⟩ r t ∧
    BBRunIC1.pressure p r t = Noh.pressure ⟨p.gamma, 1, p.rho_0, p.u_0⟩ r t ∧
    BBRunIC1.specific_internal_energy p r t = Noh.specific_internal_energy ⟨p.gamma, 1, p.rho_0, p.u_0⟩ r t ∧
    BBRunIC1.velocity p r t = Noh.velocity ⟨p.gamma, 1, p.rho_0, p.u_0⟩ r t := by
  -- the documented facts behind acceptance, whatever the order and form of the traced guards
  have hf : p.gamma ≠ 1 ∧ p.u_0 < 0 ∧ 0 < p.rho_0 ∧ p.x0 ≠ 0 := by
    simp only [epv_tree] at hok
    split_ifs at hok <;> first
      | epv_absurd
      | (simp only [epv_cond] at *
         exact ⟨by epv_eos_fact, by epv_eos_fact, by epv_eos_fact, by epv_eos_fact⟩)
  obtain ⟨hγ, hu, hρ0, hx0⟩ := hf
  have hg1 : p.gamma - 1 ≠ 0 := sub_ne_zero.mpr hγ
  have hρ0' : p.rho_0 ≠ 0 := hρ0.ne'
  -- the residual handed to the solver (the shock test is not decided by the context: both sides return the same residual)
  have v0 : BBRunIC1.resF0 p r t = p.x0 - p.rho_0 * (1 - p.u_0 / p.x2) ^ (1 : ℕ) := by
    simp only [epv_tree] <;> epv_eos_ifs <;> simp only [epv_leaf] <;> epv_eos_field
  have v1 : BBRunIC1.resF1 p r t = p.x0 * (p.x1 * (p.gamma - 1) + p.u_0 * p.x2) := by
    simp only [epv_tree] <;> epv_eos_ifs <;> simp only [epv_leaf] <;> epv_eos_field
  have v2 : BBRunIC1.resF2 p r t = p.x1 - p.u_0 ^ 2 / 2 := by
    simp only [epv_tree] <;> epv_eos_ifs <;> simp only [epv_leaf] <;> epv_eos_field
  rw [v0] at h0; rw [v1] at h1; rw [v2] at h2
  obtain ⟨e1, e2, e0⟩ := ic_root_algebra p.gamma p.rho_0 p.u_0 p.x0 p.x1 p.x2 1 hγ hu hx0 (by linear_combination h0)
      h1 (by linarith)
  have hab : |p.u_0| = -p.u_0 := abs_of_neg hu
  have hx2t : p.x2 * t = -(p.gamma - 1) * p.u_0 / 2 * t := by rw [e2]
  have hb : r < p.x2 * t ↔ Noh.c0 ⟨p.gamma, 1, p.rho_0, p.u_0⟩ r t := by
    rw [Bridge.noh_c0_iff]
    simp only [hab, hx2t]
    constructor <;> intro h <;> linarith
  have hbase : 1 - p.u_0 * (t / r) = 1 + -p.u_0 * t / r := by ring
  refine ⟨e0, e1, e2, by simp only [epv_tree, ite_self], ?_, ?_, ?_, ?_, ?_⟩
  all_goals
    by_cases hN : Noh.c0 ⟨p.gamma, 1, p.rho_0, p.u_0⟩ r t
    · have hB := hb.mpr hN
      simp only [epv_cond] at hN
      simp only [epv_tree] <;> epv_eos_ifs <;>
      (simp only [epv_leaf, e0, e1, hab, hbase]
       try (norm_num <;> first | ring1 | ring_nf))
    · have hB : ¬ r < p.x2 * t := fun h => hN (hb.mp h)
      simp only [epv_cond] at hN
      simp only [epv_tree] <;> epv_eos_ifs <;>
      (simp only [epv_leaf, e0, e1, hab, hbase]
       try (norm_num <;> first | ring1 | ring_nf))

/-- `NohBlackBoxEos(ideal_gas_eos(γ), {ρ₀, u₀, 0, symmetry 1}, geometry=2, rho0=ρ₀, u0=u₀)` = `Noh(γ, 2, ρ₀, u₀)`: accepted (so γ ≠ 1,
u₀ < 0, ρ₀ > 0) and the Newton result a root of the residual handed to the solver ⇒ all five fields agree everywhere -/
theorem bbrunIC2_eq_noh (p : BBRunIC2.P) (r t : ℝ) (hok : BBRunIC2.outcome p r t = .ok)
    (h0 : BBRunIC2.resF0 p r t = 0) (h1 : BBRunIC2.resF1 p r t = 0) (h2 : BBRunIC2.resF2 p r t = 0) :
    p.x0 = p.rho_0 * ((p.gamma + 1) / (p.gamma - 1)) ^ (2 : ℕ) ∧ p.x1 = p.u_0 ^ 2 / 2 ∧ p.x2 = -(p.gamma - 1) * p.u_0 / 2 ∧
    Noh.outcome ⟨p.gamma, 2, p.rho_0, p.u_0⟩ r t = .ok ∧
    BBRunIC2.position p r t = Noh.position ⟨p.gamma, 2, p.rho_0, p.u_0⟩ r t ∧
    BBRunIC2.density p r t = Noh.density ⟨p.gamma, 2, p.rho_0, p.u_0⟩ r t ∧
    BBRunIC2.pressure p r t = Noh.pressure ⟨p.gamma, 2, p.rho_0, p.u_0⟩ r t ∧
    BBRunIC2.specific_internal_energy p r t = Noh.specific_internal_energy ⟨p.gamma, 2, p.rho_0, p.u_0⟩ r t ∧
    BBRunIC2.velocity p r t = Noh.velocity ⟨p.gamma, 2, p.rho_0, p.u_0⟩ r t := by
  -- the documented facts behind acceptance, whatever the order and form of the traced guards
  have hf : p.gamma ≠ 1 ∧ p.u_0 < 0 ∧ 0 < p.rho_0 ∧ p.x0 ≠ 0 := by
    simp only [epv_tree] at hok
    split_ifs at hok <;> first
      | epv_absurd
      | (simp only [epv_cond] at *
         exact ⟨by epv_eos_fact, by epv_eos_fact, by epv_eos_fact, by epv_eos_fact⟩)
  obtain ⟨hγ, hu, hρ0, hx0⟩ := hf
  have hg1 : p.gamma - 1 ≠ 0 := sub_ne_zero.mpr hγ
  have hρ0' : p.rho_0 ≠ 0 := hρ0.ne'
  -- the residual handed to the solver (the shock test is not decided by the context: both sides return the same residual)
  have v0 : BBRunIC2.resF0 p r t = p.x0 - p.rho_0 * (1 - p.u_0 / p.x2) ^ (2 : ℕ) := by
    simp only [epv_tree] <;> epv_eos_ifs <;> simp only [epv_leaf] <;> epv_eos_field
  have v1 : BBRunIC2.resF1 p r t = p.x0 * (p.x1 * (p.gamma - 1) + p.u_0 * p.x2) := by
    simp only [epv_tree] <;> epv_eos_ifs <;> simp only [epv_leaf] <;> epv_eos_field
  have v2 : BBRunIC2.resF2 p r t = p.x1 - p.u_0 ^ 2 / 2 := by
    simp only [epv_tree] <;> epv_eos_ifs <;> simp only [epv_leaf] <;> epv_eos_field
  rw [v0] at h0; rw [v1] at h1; rw [v2] at h2
  obtain ⟨e1, e2, e0⟩ := ic_root_algebra p.gamma p.rho_0 p.u_0 p.x0 p.x1 p.x2 2 hγ hu hx0 (by linear_combination h0)
      h1 (by linarith)
  have hab : |p.u_0| = -p.u_0 := abs_of_neg hu
  have hx2t : p.x2 * t = -(p.gamma - 1) * p.u_0 / 2 * t := by rw [e2]
  have hb : r < p.x2 * t ↔ Noh.c0 ⟨p.gamma, 2, p.rho_0, p.u_0⟩ r t := by
    rw [Bridge.noh_c0_iff]
    simp only [hab, hx2t]
    constructor <;> intro h <;> linarith
  have hbase : 1 - p.u_0 * (t / r) = 1 + -p.u_0 * t / r := by ring
  refine ⟨e0, e1, e2, by simp only [epv_tree, ite_self], ?_, ?_, ?_, ?_, ?_⟩
  all_goals
    by_cases hN : Noh.c0 ⟨p.gamma, 2, p.rho_0, p.u_0⟩ r t
    · have hB := hb.mpr hN
      simp only [epv_cond] at hN
      simp only [epv_tree] <;> epv_eos_ifs <;>
      (simp only [epv_leaf, e0, e1, hab, hbase]
       try (norm_num <;> first | ring1 | ring_nf))
    · have hB : ¬ r < p.x2 * t := fun h => hN (hb.mp h)
      simp only [epv_cond] at hN
      simp only [epv_tree] <;> epv_eos_ifs <;>
      (simp only [epv_leaf, e0, e1, hab, hbase]
       try (norm_num <;> first | ring1 | ring_nf))

/-- `NohBlackBoxEos(ideal_gas_eos(γ), {ρ₀, u₀, 0, symmetry 2}, geometry=3, rho0=ρ₀, u0=u₀)` = `Noh(γ, 3, ρ₀, u₀)`: accepted (so γ ≠ 1,
u₀ < 0, ρ₀ > 0) and the Newton result a root of the residual handed to the solver ⇒ all five fields agree everywhere -/
theorem bbrunIC3_eq_noh (p : BBRunIC3.P) (r t : ℝ) (hok : BBRunIC3.outcome p r t = .ok)
    (h0 : BBRunIC3.resF0 p r t = 0) (h1 : BBRunIC3.resF1 p r t = 0) (h2 : BBRunIC3.resF2 p r t = 0) :
    p.x0 = p.rho_0 * ((p.gamma + 1) / (p.gamma - 1)) ^ (3 : ℕ) ∧ p.x1 = p.u_0 ^ 2 / 2 ∧ p.x2 = -(p.gamma - 1) * p.u_0 / 2 ∧
    Noh.outcome ⟨p.gamma, 3, p.rho_0, p.u_0⟩ r t = .ok ∧
    BBRunIC3.position p r t = Noh.position ⟨p.gamma, 3, p.rho_0, p.u_0⟩ r t ∧
    BBRunIC3.density p r t = Noh.density ⟨p.gamma, 3, p.rho_0, p.u_0⟩ r t ∧
    BBRunIC3.pressure p r t = Noh.pressure ⟨p.gamma, 3, p.rho_0, p.u_0⟩ r t ∧
    BBRunIC3.specific_internal_energy p r t = Noh.specific_internal_energy ⟨p.gamma, 3, p.rho_0, p.u_0⟩ r t ∧
    BBRunIC3.velocity p r t = Noh.velocity ⟨p.gamma, 3, p.rho_0, p.u_0⟩ r t := by
  -- the documented facts behind acceptance, whatever the order and form of the traced guards
  have hf : p.gamma ≠ 1 ∧ p.u_0 < 0 ∧ 0 < p.rho_0 ∧ p.x0 ≠ 0 := by
    simp only [epv_tree] at hok
    split_ifs at hok <;> first
      | epv_absurd
      | (simp only [epv_cond] at *
         exact ⟨by epv_eos_fact, by epv_eos_fact, by epv_eos_fact, by epv_eos_fact⟩)
  obtain ⟨hγ, hu, hρ0, hx0⟩ := hf
  have hg1 : p.gamma - 1 ≠ 0 := sub_ne_zero.mpr hγ
  have hρ0' : p.rho_0 ≠ 0 := hρ0.ne'
  -- the residual handed to the solver (the shock test is not decided by the context: both sides return the same residual)
  have v0 : BBRunIC3.resF0 p r t = p.x0 - p.rho_0 * (1 - p.u_0 / p.x2) ^ (3 : ℕ) := by
    simp only [epv_tree] <;> epv_eos_ifs <;> simp only [epv_leaf] <;> epv_eos_field
  have v1 : BBRunIC3.resF1 p r t = p.x0 * (p.x1 * (p.gamma - 1) + p.u_0 * p.x2) := by
    simp only [epv_tree] <;> epv_eos_ifs <;> simp only [epv_leaf] <;> epv_eos_field
  have v2 : BBRunIC3.resF2 p r t = p.x1 - p.u_0 ^ 2 / 2 := by
    simp only [epv_tree] <;> epv_eos_ifs <;> simp only [epv_leaf] <;> epv_eos_field
  rw [v0] at h0; rw [v1] at h1; rw [v2] at h2
  obtain ⟨e1, e2, e0⟩ := ic_root_algebra p.gamma p.rho_0 p.u_0 p.x0 p.x1 p.x2 3 hγ hu hx0 (by linear_combination h0)
      h1 (by linarith)
  have hab : |p.u_0| = -p.u_0 := abs_of_neg hu
  have hx2t : p.x2 * t = -(p.gamma - 1) * p.u_0 / 2 * t := by rw [e2]
  have hb : r < p.x2 * t ↔ Noh.c0 ⟨p.gamma, 3, p.rho_0, p.u_0⟩ r t := by
    rw [Bridge.noh_c0_iff]
    simp only [hab, hx2t]
    constructor <;> intro h <;> linarith
  have hbase : 1 - p.u_0 * (t / r) = 1 + -p.u_0 * t / r := by ring
  refine ⟨e0, e1, e2, by simp only [epv_tree, ite_self], ?_, ?_, ?_, ?_, ?_⟩
  all_goals
    by_cases hN : Noh.c0 ⟨p.gamma, 3, p.rho_0, p.u_0⟩ r t
    · have hB := hb.mpr hN
      simp only [epv_cond] at hN
      simp only [epv_tree] <;> epv_eos_ifs <;>
      (simp only [epv_leaf, e0, e1, hab, hbase]
       try (norm_num <;> first | ring1 | ring_nf))
    · have hB : ¬ r < p.x2 * t := fun h => hN (hb.mp h)
      simp only [epv_cond] at hN
      simp only [epv_tree] <;> epv_eos_ifs <;>
      (simp only [epv_leaf, e0, e1, hab, hbase]
       try (norm_num <;> first | ring1 | ring_nf))

/-- non-vacuity: ρ₀ = 2, u₀ = -3, γ = 7/5, spherical: accepted, and Noh's state (2·6³, 9/2, 3/5) is a root -/
example : BBRunIC3.outcome ⟨7 / 5, 2, -3, 432, 9 / 2, 3 / 5⟩ 1 1 = .ok ∧ BBRunIC3.resF0 ⟨7 / 5, 2, -3, 432, 9 / 2, 3 / 5⟩ 1 1 = 0 ∧
    BBRunIC3.resF1 ⟨7 / 5, 2, -3, 432, 9 / 2, 3 / 5⟩ 1 1 = 0 ∧ BBRunIC3.resF2 ⟨7 / 5, 2, -3, 432, 9 / 2, 3 / 5⟩ 1 1 = 0 := by
  refine ⟨?_, ?_, ?_, ?_⟩ <;> simp only [epv_tree, epv_cond, epv_leaf] <;> norm_num

end EPV.C07
