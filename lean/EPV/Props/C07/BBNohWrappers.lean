/-
C07 — PlanarNohBlackBox / CylindricalNohBlackBox / SphericalNohBlackBox = NohBlackBoxEos with that symmetry and geometry.

A black-box wrapper overrides `__init__` (writes `initial_conditions['symmetry'] = k-1`, then calls the parent
constructor) and sets the class attribute `geometry = k`; `_run`, `solve_jump_conditions` and every other method are
inherited.

1. **Same code** (`bbnoh_wrappers_inherit`, `bbnoh_wrapper_bodies`): `_run` of each wrapper is `NohBlackBoxEos._run`; the
   class body defines exactly `__init__`, `geometry`, `parameters`; `parameters` IS the parent's dictionary.
   (The wrappers' `__init__` takes no keyword arguments: known finding C05 `<W>:unknown-keyword`; so rho0, u0 stay at
   the class defaults 1, -1.)
2. **Same attributes** (`bbinit<W>_eq_general`, BBNohWrappersGen.lean): for symbolic initial conditions (ρ₀, u₀, P₀) and a
   symbolic ideal gas the real constructors `W(eos, {density, velocity, pressure})` and
   `NohBlackBoxEos(eos, {density, velocity, pressure, symmetry: k-1}, geometry=k)` take the same decisions (the residual's
   validation tree) and leave the same value in every attribute that `_run` / `solve_jump_conditions` read: symmetry,
   geometry, rho0, u0, p0, the four entries of `initial_conditions`, the residual object's u_0, rho_0, P_0, symmetry,
   e_0, its class, that it holds the same EOS object, the Newton guess / tolerance / iteration limit, and that nothing
   is solved yet.
3. **Same public route** (`bbrun<W>_eq_general`): constructor + `_run` through the real `solve_jump_conditions` at the
   default initial conditions: the five returned fields, the residual handed to the solver evaluated at the returned
   solution, the symmetry that residual solves for, the exponent `_run` uses, the starting guess — all equal.
   `bbrun_symmetry_consistent`: on these routes the residual is solved for the symmetry `_run` assembles with.

**Findings** (false on the current code; negations proved at a witness in FindingBBNohWrappers.lean, reproduced by the
oracle on the real code):

* `bbnoh_geometry_keyword_finding` — "the general class with that geometry" read as `NohBlackBoxEos(eos, geometry=k)`:
  the documented parameter `geometry` ("1=planar, 2=cylindrical, 3=spherical") is only range-checked; the geometry
  actually used is `initial_conditions['symmetry']`, default 2.  `NohBlackBoxEos(eos, geometry=1)` is the SPHERICAL
  solution: γ = 5/3, density behind the shock 64, `PlanarNohBlackBox(eos)` gives 4.
* `bbnoh_shared_ic_finding` — the wrappers write into the caller's dictionary and keep a reference to it, and
  `solve_jump_conditions` re-reads it at the first call: `d = {…}; a = PlanarNohBlackBox(eos, d); SphericalNohBlackBox(eos, d)`
  makes `a` solve the SPHERICAL jump conditions (density 64 behind the shock) while assembling the unshocked state
  with its own planar exponent — a state that is neither solution (also a C06 matter: the value of `a(r, t)` depends on
  whether another object was constructed in between).
  The mutable DEFAULT dictionaries themselves do not leak (`bbnoh_default_dicts_isolated`, facts read from the source
  and the live classes on every run): the four `__init__` have four distinct default objects; the only stores into a
  dictionary in blackboxnoh.py are the three `initial_conditions['symmetry'] = k-1`, each the wrapper's own constant
  into the dictionary it was given (its own default when called without one); no dict-mutating method is called in
  blackboxnoh.py or residual_functions.py, and the residual classes write through a subscript only into their own
  result arrays; `NohBlackBoxEos`'s default still reads symmetry = 2 after everything the generator constructed.  So
  constructing base class and wrappers in any order leaves every default-constructed object with the symmetry of its
  own class (oracle `default_dicts_do_not_leak`: random orders).  What remains shared is deliberate user action on
  `obj.initial_conditions` (all default-constructed instances of one class alias one dictionary).
-/
import EPV.Gen.Tables
import EPV.Gen.C7Table
import EPV.Gen.BBInitPlanar
import EPV.Gen.BBInitCylindrical
import EPV.Gen.BBInitSpherical
import EPV.Gen.BBRunPlanar
import EPV.Gen.BBRunCylindrical
import EPV.Gen.BBRunSpherical
import EPV.Gen.BBRunBase
import EPV.Tactics

set_option linter.all false
set_option maxRecDepth 100000

open EPV EPV.Gen
open Classical

namespace EPV.C07

def bbWrapperNames : List String := ["PlanarNohBlackBox", "CylindricalNohBlackBox", "SphericalNohBlackBox"]

/-! ### same code -/

/-- (table of all public solver classes) no wrapper has its own `_run`; each has its own `__init__`; the only solver
ancestor is `NohBlackBoxEos`; declared parameters and returned fields are the parent's -/
theorem bbnoh_wrappers_inherit :
    ∀ c ∈ Tables.classes, c.name ∈ bbWrapperNames →
      c.ownRun = false ∧ c.ownInit = true ∧ c.parents = ["NohBlackBoxEos"] ∧ c.declared = ["geometry", "u0", "rho0"] ∧
      c.fields = ["position", "density", "pressure", "specific_internal_energy", "velocity"] := by
  decide +kernel

theorem bbnoh_wrappers_present :
    (Tables.classes.filter (fun c => c.name ∈ bbWrapperNames)).map (·.name) =
      ["CylindricalNohBlackBox", "PlanarNohBlackBox", "SphericalNohBlackBox"] ∧
    (Tables.classes.filter (fun c => c.name = "NohBlackBoxEos")).map (fun c => (c.ownRun, c.ownInit, c.fields, c.declared)) =
      [(true, true, ["position", "density", "pressure", "specific_internal_energy", "velocity"], ["geometry", "u0", "rho0"])] := by
  decide +kernel

/-- (table of this package) the class body of a wrapper defines `__init__`, `geometry`, `parameters` and nothing else;
`_run` is the parent's function; `parameters` is the parent's dictionary object -/
theorem bbnoh_wrapper_bodies :
    ∀ c ∈ C7Table.classes, c.name ∈ bbWrapperNames →
      c.body = ["__init__", "geometry", "parameters"] ∧ c.parents = ["NohBlackBoxEos"] ∧ c.runOwner = "NohBlackBoxEos" ∧
      c.initOwner = c.name ∧ c.callOwner = "ExactSolver" ∧ c.sameParametersObject = true := by
  decide +kernel

theorem bbnoh_wrapper_bodies_present :
    (C7Table.classes.filter (fun c => c.name ∈ bbWrapperNames)).map (·.name) =
      ["PlanarNohBlackBox", "CylindricalNohBlackBox", "SphericalNohBlackBox"] := by
  decide +kernel

/-- the mutable default arguments cannot carry a symmetry from one class into another: distinct default objects, the
only dictionary stores are each wrapper's own constant, nothing else mutates a dictionary, the base default is intact -/
theorem bbnoh_default_dicts_isolated :
    C7Table.distinctDefaultDicts = true ∧
    C7Table.bbSubscriptStores =
      [("PlanarNohBlackBox.__init__", "initial_conditions['symmetry']", "0"),
       ("CylindricalNohBlackBox.__init__", "initial_conditions['symmetry']", "1"),
       ("SphericalNohBlackBox.__init__", "initial_conditions['symmetry']", "2")] ∧
    C7Table.bbDictMutatingCalls = [] ∧
    C7Table.resSubscriptStoreBases = ["self.DF", "self.DF_inv", "self.result"] ∧
    C7Table.baseDefaultDict = ["density=1", "pressure=0", "symmetry=2", "velocity=-1"] := by
  decide +kernel

/-! ### what the wrappers fix -/

/-- the constructor of each wrapper, for ANY accepted initial conditions: symmetry = k-1 in all three places (attribute,
dictionary, residual object), geometry = k, the residual is `pressure_noh_residual` (code 3) built for the given
(ρ₀, u₀, P₀) with the given EOS object; the unshocked-state attributes stay at the class defaults (1, -1, 0) whatever the
initial conditions say (that is finding C02.bbnoh.initial_state) -/
theorem bbinit_wrappers_fix (P0 γ ρ0 u0 : ℝ) :
    (BBInitPlanar.outcome ⟨P0, γ, ρ0, u0⟩ = .ok →
      BBInitPlanar.symmetry ⟨P0, γ, ρ0, u0⟩ = 0 ∧ BBInitPlanar.ic_symmetry ⟨P0, γ, ρ0, u0⟩ = 0 ∧
      BBInitPlanar.res_symmetry ⟨P0, γ, ρ0, u0⟩ = 0 ∧ BBInitPlanar.geometry ⟨P0, γ, ρ0, u0⟩ = 1 ∧
      BBInitPlanar.res_class ⟨P0, γ, ρ0, u0⟩ = 3 ∧ BBInitPlanar.res_rho_0 ⟨P0, γ, ρ0, u0⟩ = ρ0 ∧
      BBInitPlanar.res_u_0 ⟨P0, γ, ρ0, u0⟩ = u0 ∧ BBInitPlanar.res_P_0 ⟨P0, γ, ρ0, u0⟩ = P0 ∧
      BBInitPlanar.rho0 ⟨P0, γ, ρ0, u0⟩ = 1 ∧ BBInitPlanar.u0 ⟨P0, γ, ρ0, u0⟩ = -1 ∧ BBInitPlanar.p0 ⟨P0, γ, ρ0, u0⟩ = 0) ∧
    (BBInitCylindrical.outcome ⟨P0, γ, ρ0, u0⟩ = .ok →
      BBInitCylindrical.symmetry ⟨P0, γ, ρ0, u0⟩ = 1 ∧ BBInitCylindrical.ic_symmetry ⟨P0, γ, ρ0, u0⟩ = 1 ∧
      BBInitCylindrical.res_symmetry ⟨P0, γ, ρ0, u0⟩ = 1 ∧ BBInitCylindrical.geometry ⟨P0, γ, ρ0, u0⟩ = 2 ∧
      BBInitCylindrical.res_class ⟨P0, γ, ρ0, u0⟩ = 3 ∧ BBInitCylindrical.res_rho_0 ⟨P0, γ, ρ0, u0⟩ = ρ0 ∧
      BBInitCylindrical.res_u_0 ⟨P0, γ, ρ0, u0⟩ = u0 ∧ BBInitCylindrical.res_P_0 ⟨P0, γ, ρ0, u0⟩ = P0 ∧
      BBInitCylindrical.rho0 ⟨P0, γ, ρ0, u0⟩ = 1 ∧ BBInitCylindrical.u0 ⟨P0, γ, ρ0, u0⟩ = -1 ∧
      BBInitCylindrical.p0 ⟨P0, γ, ρ0, u0⟩ = 0) ∧
    (BBInitSpherical.outcome ⟨P0, γ, ρ0, u0⟩ = .ok →
      BBInitSpherical.symmetry ⟨P0, γ, ρ0, u0⟩ = 2 ∧ BBInitSpherical.ic_symmetry ⟨P0, γ, ρ0, u0⟩ = 2 ∧
      BBInitSpherical.res_symmetry ⟨P0, γ, ρ0, u0⟩ = 2 ∧ BBInitSpherical.geometry ⟨P0, γ, ρ0, u0⟩ = 3 ∧
      BBInitSpherical.res_class ⟨P0, γ, ρ0, u0⟩ = 3 ∧ BBInitSpherical.res_rho_0 ⟨P0, γ, ρ0, u0⟩ = ρ0 ∧
      BBInitSpherical.res_u_0 ⟨P0, γ, ρ0, u0⟩ = u0 ∧ BBInitSpherical.res_P_0 ⟨P0, γ, ρ0, u0⟩ = P0 ∧
      BBInitSpherical.rho0 ⟨P0, γ, ρ0, u0⟩ = 1 ∧ BBInitSpherical.u0 ⟨P0, γ, ρ0, u0⟩ = -1 ∧
      BBInitSpherical.p0 ⟨P0, γ, ρ0, u0⟩ = 0) := by
  refine ⟨?_, ?_, ?_⟩ <;> intro h <;> refine ⟨?_, ?_, ?_, ?_, ?_, ?_, ?_, ?_, ?_, ?_, ?_⟩ <;>
    epv_on_leaves (simp only [epv_leaf])

/-- non-vacuity: the default initial conditions with γ = 5/3 are accepted by all three constructors -/
example : BBInitPlanar.outcome ⟨0, 5 / 3, 1, -1⟩ = .ok ∧ BBInitCylindrical.outcome ⟨0, 5 / 3, 1, -1⟩ = .ok ∧
    BBInitSpherical.outcome ⟨0, 5 / 3, 1, -1⟩ = .ok := by
  refine ⟨?_, ?_, ?_⟩ <;> simp only [epv_tree, epv_cond] <;> norm_num

/-- on the public routes at the default initial conditions the residual handed to the solver is for the symmetry that
`_run` assembles the unshocked state with, namely k-1 (2 for the general class at its defaults) -/
theorem bbrun_symmetry_consistent (γ x0 x1 x2 r t : ℝ) :
    (BBRunPlanar.outcome ⟨γ, x0, x1, x2⟩ r t = .ok →
      BBRunPlanar.res_symmetry ⟨γ, x0, x1, x2⟩ r t = 0 ∧ BBRunPlanar.run_symmetry ⟨γ, x0, x1, x2⟩ r t = 0) ∧
    (BBRunCylindrical.outcome ⟨γ, x0, x1, x2⟩ r t = .ok →
      BBRunCylindrical.res_symmetry ⟨γ, x0, x1, x2⟩ r t = 1 ∧ BBRunCylindrical.run_symmetry ⟨γ, x0, x1, x2⟩ r t = 1) ∧
    (BBRunSpherical.outcome ⟨γ, x0, x1, x2⟩ r t = .ok →
      BBRunSpherical.res_symmetry ⟨γ, x0, x1, x2⟩ r t = 2 ∧ BBRunSpherical.run_symmetry ⟨γ, x0, x1, x2⟩ r t = 2) ∧
    (BBRunBase.outcome ⟨γ, x0, x1, x2⟩ r t = .ok →
      BBRunBase.res_symmetry ⟨γ, x0, x1, x2⟩ r t = 2 ∧ BBRunBase.run_symmetry ⟨γ, x0, x1, x2⟩ r t = 2) := by
  refine ⟨?_, ?_, ?_, ?_⟩ <;> intro h <;> refine ⟨?_, ?_⟩ <;> epv_on_leaves (simp only [epv_leaf])

end EPV.C07
