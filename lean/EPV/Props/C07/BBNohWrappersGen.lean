/-
C07 — black-box Noh wrapper classes: the trace of `W(eos, ic)` and of `NohBlackBoxEos(eos, ic + symmetry k-1, geometry=k)`
are the same function, output by output: constructor attributes for symbolic initial conditions (…Init) and the
public route constructor + solve_jump_conditions + `_run` at the default initial conditions (…Run).
GENERATED ONCE by tools/dev/mk_c07rest.py and committed.  Proofs are `rfl`: both models unfold to the same term.
-/
import EPV.Gen.BBInitPlanar
import EPV.Gen.BBInitGen1
import EPV.Gen.BBInitCylindrical
import EPV.Gen.BBInitGen2
import EPV.Gen.BBInitSpherical
import EPV.Gen.BBInitGen3
import EPV.Gen.BBRunPlanar
import EPV.Gen.BBRunGen1
import EPV.Gen.BBRunCylindrical
import EPV.Gen.BBRunGen2
import EPV.Gen.BBRunSpherical
import EPV.Gen.BBRunGen3
import EPV.Gen.BBRunBase

set_option linter.all false

open EPV EPV.Gen

namespace EPV.C07

/-- the same symbols, read by the general-class model -/
def bbinitPlanar_eq_general_params (p : BBInitPlanar.P) : BBInitGen1.P := { P_0 := p.P_0, gamma := p.gamma, rho_0 := p.rho_0, u_0 := p.u_0 }

theorem bbinitPlanar_eq_general (p : BBInitPlanar.P) :
    BBInitPlanar.outcome p = BBInitGen1.outcome (bbinitPlanar_eq_general_params p) ∧
    BBInitPlanar.symmetry p = BBInitGen1.symmetry (bbinitPlanar_eq_general_params p) ∧
    BBInitPlanar.geometry p = BBInitGen1.geometry (bbinitPlanar_eq_general_params p) ∧
    BBInitPlanar.rho0 p = BBInitGen1.rho0 (bbinitPlanar_eq_general_params p) ∧
    BBInitPlanar.u0 p = BBInitGen1.u0 (bbinitPlanar_eq_general_params p) ∧
    BBInitPlanar.p0 p = BBInitGen1.p0 (bbinitPlanar_eq_general_params p) ∧
    BBInitPlanar.ic_density p = BBInitGen1.ic_density (bbinitPlanar_eq_general_params p) ∧
    BBInitPlanar.ic_velocity p = BBInitGen1.ic_velocity (bbinitPlanar_eq_general_params p) ∧
    BBInitPlanar.ic_pressure p = BBInitGen1.ic_pressure (bbinitPlanar_eq_general_params p) ∧
    BBInitPlanar.ic_symmetry p = BBInitGen1.ic_symmetry (bbinitPlanar_eq_general_params p) ∧
    BBInitPlanar.res_u_0 p = BBInitGen1.res_u_0 (bbinitPlanar_eq_general_params p) ∧
    BBInitPlanar.res_rho_0 p = BBInitGen1.res_rho_0 (bbinitPlanar_eq_general_params p) ∧
    BBInitPlanar.res_P_0 p = BBInitGen1.res_P_0 (bbinitPlanar_eq_general_params p) ∧
    BBInitPlanar.res_symmetry p = BBInitGen1.res_symmetry (bbinitPlanar_eq_general_params p) ∧
    BBInitPlanar.res_e_0 p = BBInitGen1.res_e_0 (bbinitPlanar_eq_general_params p) ∧
    BBInitPlanar.res_class p = BBInitGen1.res_class (bbinitPlanar_eq_general_params p) ∧
    BBInitPlanar.res_eos_is_eos p = BBInitGen1.res_eos_is_eos (bbinitPlanar_eq_general_params p) ∧
    BBInitPlanar.eos_is_eos p = BBInitGen1.eos_is_eos (bbinitPlanar_eq_general_params p) ∧
    BBInitPlanar.guess0 p = BBInitGen1.guess0 (bbinitPlanar_eq_general_params p) ∧
    BBInitPlanar.guess1 p = BBInitGen1.guess1 (bbinitPlanar_eq_general_params p) ∧
    BBInitPlanar.guess2 p = BBInitGen1.guess2 (bbinitPlanar_eq_general_params p) ∧
    BBInitPlanar.tolerance p = BBInitGen1.tolerance (bbinitPlanar_eq_general_params p) ∧
    BBInitPlanar.max_iterations p = BBInitGen1.max_iterations (bbinitPlanar_eq_general_params p) ∧
    BBInitPlanar.solved p = BBInitGen1.solved (bbinitPlanar_eq_general_params p) :=
  ⟨rfl, rfl, rfl, rfl, rfl, rfl, rfl, rfl, rfl, rfl, rfl, rfl, rfl, rfl, rfl, rfl, rfl, rfl, rfl, rfl, rfl, rfl, rfl, rfl⟩

/-- the same symbols, read by the general-class model -/
def bbinitCylindrical_eq_general_params (p : BBInitCylindrical.P) : BBInitGen2.P := { P_0 := p.P_0, gamma := p.gamma, rho_0 := p.rho_0, u_0 := p.u_0 }

theorem bbinitCylindrical_eq_general (p : BBInitCylindrical.P) :
    BBInitCylindrical.outcome p = BBInitGen2.outcome (bbinitCylindrical_eq_general_params p) ∧
    BBInitCylindrical.symmetry p = BBInitGen2.symmetry (bbinitCylindrical_eq_general_params p) ∧
    BBInitCylindrical.geometry p = BBInitGen2.geometry (bbinitCylindrical_eq_general_params p) ∧
    BBInitCylindrical.rho0 p = BBInitGen2.rho0 (bbinitCylindrical_eq_general_params p) ∧
    BBInitCylindrical.u0 p = BBInitGen2.u0 (bbinitCylindrical_eq_general_params p) ∧
    BBInitCylindrical.p0 p = BBInitGen2.p0 (bbinitCylindrical_eq_general_params p) ∧
    BBInitCylindrical.ic_density p = BBInitGen2.ic_density (bbinitCylindrical_eq_general_params p) ∧
    BBInitCylindrical.ic_velocity p = BBInitGen2.ic_velocity (bbinitCylindrical_eq_general_params p) ∧
    BBInitCylindrical.ic_pressure p = BBInitGen2.ic_pressure (bbinitCylindrical_eq_general_params p) ∧
    BBInitCylindrical.ic_symmetry p = BBInitGen2.ic_symmetry (bbinitCylindrical_eq_general_params p) ∧
    BBInitCylindrical.res_u_0 p = BBInitGen2.res_u_0 (bbinitCylindrical_eq_general_params p) ∧
    BBInitCylindrical.res_rho_0 p = BBInitGen2.res_rho_0 (bbinitCylindrical_eq_general_params p) ∧
    BBInitCylindrical.res_P_0 p = BBInitGen2.res_P_0 (bbinitCylindrical_eq_general_params p) ∧
    BBInitCylindrical.res_symmetry p = BBInitGen2.res_symmetry (bbinitCylindrical_eq_general_params p) ∧
    BBInitCylindrical.res_e_0 p = BBInitGen2.res_e_0 (bbinitCylindrical_eq_general_params p) ∧
    BBInitCylindrical.res_class p = BBInitGen2.res_class (bbinitCylindrical_eq_general_params p) ∧
    BBInitCylindrical.res_eos_is_eos p = BBInitGen2.res_eos_is_eos (bbinitCylindrical_eq_general_params p) ∧
    BBInitCylindrical.eos_is_eos p = BBInitGen2.eos_is_eos (bbinitCylindrical_eq_general_params p) ∧
    BBInitCylindrical.guess0 p = BBInitGen2.guess0 (bbinitCylindrical_eq_general_params p) ∧
    BBInitCylindrical.guess1 p = BBInitGen2.guess1 (bbinitCylindrical_eq_general_params p) ∧
    BBInitCylindrical.guess2 p = BBInitGen2.guess2 (bbinitCylindrical_eq_general_params p) ∧
    BBInitCylindrical.tolerance p = BBInitGen2.tolerance (bbinitCylindrical_eq_general_params p) ∧
    BBInitCylindrical.max_iterations p = BBInitGen2.max_iterations (bbinitCylindrical_eq_general_params p) ∧
    BBInitCylindrical.solved p = BBInitGen2.solved (bbinitCylindrical_eq_general_params p) :=
  ⟨rfl, rfl, rfl, rfl, rfl, rfl, rfl, rfl, rfl, rfl, rfl, rfl, rfl, rfl, rfl, rfl, rfl, rfl, rfl, rfl, rfl, rfl, rfl, rfl⟩

/-- the same symbols, read by the general-class model -/
def bbinitSpherical_eq_general_params (p : BBInitSpherical.P) : BBInitGen3.P := { P_0 := p.P_0, gamma := p.gamma, rho_0 := p.rho_0, u_0 := p.u_0 }

theorem bbinitSpherical_eq_general (p : BBInitSpherical.P) :
    BBInitSpherical.outcome p = BBInitGen3.outcome (bbinitSpherical_eq_general_params p) ∧
    BBInitSpherical.symmetry p = BBInitGen3.symmetry (bbinitSpherical_eq_general_params p) ∧
    BBInitSpherical.geometry p = BBInitGen3.geometry (bbinitSpherical_eq_general_params p) ∧
    BBInitSpherical.rho0 p = BBInitGen3.rho0 (bbinitSpherical_eq_general_params p) ∧
    BBInitSpherical.u0 p = BBInitGen3.u0 (bbinitSpherical_eq_general_params p) ∧
    BBInitSpherical.p0 p = BBInitGen3.p0 (bbinitSpherical_eq_general_params p) ∧
    BBInitSpherical.ic_density p = BBInitGen3.ic_density (bbinitSpherical_eq_general_params p) ∧
    BBInitSpherical.ic_velocity p = BBInitGen3.ic_velocity (bbinitSpherical_eq_general_params p) ∧
    BBInitSpherical.ic_pressure p = BBInitGen3.ic_pressure (bbinitSpherical_eq_general_params p) ∧
    BBInitSpherical.ic_symmetry p = BBInitGen3.ic_symmetry (bbinitSpherical_eq_general_params p) ∧
    BBInitSpherical.res_u_0 p = BBInitGen3.res_u_0 (bbinitSpherical_eq_general_params p) ∧
    BBInitSpherical.res_rho_0 p = BBInitGen3.res_rho_0 (bbinitSpherical_eq_general_params p) ∧
    BBInitSpherical.res_P_0 p = BBInitGen3.res_P_0 (bbinitSpherical_eq_general_params p) ∧
    BBInitSpherical.res_symmetry p = BBInitGen3.res_symmetry (bbinitSpherical_eq_general_params p) ∧
    BBInitSpherical.res_e_0 p = BBInitGen3.res_e_0 (bbinitSpherical_eq_general_params p) ∧
    BBInitSpherical.res_class p = BBInitGen3.res_class (bbinitSpherical_eq_general_params p) ∧
    BBInitSpherical.res_eos_is_eos p = BBInitGen3.res_eos_is_eos (bbinitSpherical_eq_general_params p) ∧
    BBInitSpherical.eos_is_eos p = BBInitGen3.eos_is_eos (bbinitSpherical_eq_general_params p) ∧
    BBInitSpherical.guess0 p = BBInitGen3.guess0 (bbinitSpherical_eq_general_params p) ∧
    BBInitSpherical.guess1 p = BBInitGen3.guess1 (bbinitSpherical_eq_general_params p) ∧
    BBInitSpherical.guess2 p = BBInitGen3.guess2 (bbinitSpherical_eq_general_params p) ∧
    BBInitSpherical.tolerance p = BBInitGen3.tolerance (bbinitSpherical_eq_general_params p) ∧
    BBInitSpherical.max_iterations p = BBInitGen3.max_iterations (bbinitSpherical_eq_general_params p) ∧
    BBInitSpherical.solved p = BBInitGen3.solved (bbinitSpherical_eq_general_params p) :=
  ⟨rfl, rfl, rfl, rfl, rfl, rfl, rfl, rfl, rfl, rfl, rfl, rfl, rfl, rfl, rfl, rfl, rfl, rfl, rfl, rfl, rfl, rfl, rfl, rfl⟩

/-- the same symbols, read by the general-class model -/
def bbrunPlanar_eq_general_params (p : BBRunPlanar.P) : BBRunGen1.P := { gamma := p.gamma, x0 := p.x0, x1 := p.x1, x2 := p.x2 }

theorem bbrunPlanar_eq_general (p : BBRunPlanar.P) (r t : ℝ) :
    BBRunPlanar.outcome p r t = BBRunGen1.outcome (bbrunPlanar_eq_general_params p) r t ∧
    BBRunPlanar.position p r t = BBRunGen1.position (bbrunPlanar_eq_general_params p) r t ∧
    BBRunPlanar.density p r t = BBRunGen1.density (bbrunPlanar_eq_general_params p) r t ∧
    BBRunPlanar.pressure p r t = BBRunGen1.pressure (bbrunPlanar_eq_general_params p) r t ∧
    BBRunPlanar.specific_internal_energy p r t = BBRunGen1.specific_internal_energy (bbrunPlanar_eq_general_params p) r t ∧
    BBRunPlanar.velocity p r t = BBRunGen1.velocity (bbrunPlanar_eq_general_params p) r t ∧
    BBRunPlanar.resF0 p r t = BBRunGen1.resF0 (bbrunPlanar_eq_general_params p) r t ∧
    BBRunPlanar.resF1 p r t = BBRunGen1.resF1 (bbrunPlanar_eq_general_params p) r t ∧
    BBRunPlanar.resF2 p r t = BBRunGen1.resF2 (bbrunPlanar_eq_general_params p) r t ∧
    BBRunPlanar.res_symmetry p r t = BBRunGen1.res_symmetry (bbrunPlanar_eq_general_params p) r t ∧
    BBRunPlanar.run_symmetry p r t = BBRunGen1.run_symmetry (bbrunPlanar_eq_general_params p) r t ∧
    BBRunPlanar.guess0 p r t = BBRunGen1.guess0 (bbrunPlanar_eq_general_params p) r t ∧
    BBRunPlanar.guess1 p r t = BBRunGen1.guess1 (bbrunPlanar_eq_general_params p) r t ∧
    BBRunPlanar.guess2 p r t = BBRunGen1.guess2 (bbrunPlanar_eq_general_params p) r t :=
  ⟨rfl, rfl, rfl, rfl, rfl, rfl, rfl, rfl, rfl, rfl, rfl, rfl, rfl, rfl⟩

/-- the same symbols, read by the general-class model -/
def bbrunCylindrical_eq_general_params (p : BBRunCylindrical.P) : BBRunGen2.P := { gamma := p.gamma, x0 := p.x0, x1 := p.x1, x2 := p.x2 }

theorem bbrunCylindrical_eq_general (p : BBRunCylindrical.P) (r t : ℝ) :
    BBRunCylindrical.outcome p r t = BBRunGen2.outcome (bbrunCylindrical_eq_general_params p) r t ∧
    BBRunCylindrical.position p r t = BBRunGen2.position (bbrunCylindrical_eq_general_params p) r t ∧
    BBRunCylindrical.density p r t = BBRunGen2.density (bbrunCylindrical_eq_general_params p) r t ∧
    BBRunCylindrical.pressure p r t = BBRunGen2.pressure (bbrunCylindrical_eq_general_params p) r t ∧
    BBRunCylindrical.specific_internal_energy p r t = BBRunGen2.specific_internal_energy (bbrunCylindrical_eq_general_params p) r t ∧
    BBRunCylindrical.velocity p r t = BBRunGen2.velocity (bbrunCylindrical_eq_general_params p) r t ∧
    BBRunCylindrical.resF0 p r t = BBRunGen2.resF0 (bbrunCylindrical_eq_general_params p) r t ∧
    BBRunCylindrical.resF1 p r t = BBRunGen2.resF1 (bbrunCylindrical_eq_general_params p) r t ∧
    BBRunCylindrical.resF2 p r t = BBRunGen2.resF2 (bbrunCylindrical_eq_general_params p) r t ∧
    BBRunCylindrical.res_symmetry p r t = BBRunGen2.res_symmetry (bbrunCylindrical_eq_general_params p) r t ∧
    BBRunCylindrical.run_symmetry p r t = BBRunGen2.run_symmetry (bbrunCylindrical_eq_general_params p) r t ∧
    BBRunCylindrical.guess0 p r t = BBRunGen2.guess0 (bbrunCylindrical_eq_general_params p) r t ∧
    BBRunCylindrical.guess1 p r t = BBRunGen2.guess1 (bbrunCylindrical_eq_general_params p) r t ∧
    BBRunCylindrical.guess2 p r t = BBRunGen2.guess2 (bbrunCylindrical_eq_general_params p) r t :=
  ⟨rfl, rfl, rfl, rfl, rfl, rfl, rfl, rfl, rfl, rfl, rfl, rfl, rfl, rfl⟩

/-- the same symbols, read by the general-class model -/
def bbrunSpherical_eq_general_params (p : BBRunSpherical.P) : BBRunGen3.P := { gamma := p.gamma, x0 := p.x0, x1 := p.x1, x2 := p.x2 }

theorem bbrunSpherical_eq_general (p : BBRunSpherical.P) (r t : ℝ) :
    BBRunSpherical.outcome p r t = BBRunGen3.outcome (bbrunSpherical_eq_general_params p) r t ∧
    BBRunSpherical.position p r t = BBRunGen3.position (bbrunSpherical_eq_general_params p) r t ∧
    BBRunSpherical.density p r t = BBRunGen3.density (bbrunSpherical_eq_general_params p) r t ∧
    BBRunSpherical.pressure p r t = BBRunGen3.pressure (bbrunSpherical_eq_general_params p) r t ∧
    BBRunSpherical.specific_internal_energy p r t = BBRunGen3.specific_internal_energy (bbrunSpherical_eq_general_params p) r t ∧
    BBRunSpherical.velocity p r t = BBRunGen3.velocity (bbrunSpherical_eq_general_params p) r t ∧
    BBRunSpherical.resF0 p r t = BBRunGen3.resF0 (bbrunSpherical_eq_general_params p) r t ∧
    BBRunSpherical.resF1 p r t = BBRunGen3.resF1 (bbrunSpherical_eq_general_params p) r t ∧
    BBRunSpherical.resF2 p r t = BBRunGen3.resF2 (bbrunSpherical_eq_general_params p) r t ∧
    BBRunSpherical.res_symmetry p r t = BBRunGen3.res_symmetry (bbrunSpherical_eq_general_params p) r t ∧
    BBRunSpherical.run_symmetry p r t = BBRunGen3.run_symmetry (bbrunSpherical_eq_general_params p) r t ∧
    BBRunSpherical.guess0 p r t = BBRunGen3.guess0 (bbrunSpherical_eq_general_params p) r t ∧
    BBRunSpherical.guess1 p r t = BBRunGen3.guess1 (bbrunSpherical_eq_general_params p) r t ∧
    BBRunSpherical.guess2 p r t = BBRunGen3.guess2 (bbrunSpherical_eq_general_params p) r t :=
  ⟨rfl, rfl, rfl, rfl, rfl, rfl, rfl, rfl, rfl, rfl, rfl, rfl, rfl, rfl⟩

/-- the same symbols, read by the general-class model -/
def bbrunSpherical_eq_base_params (p : BBRunSpherical.P) : BBRunBase.P := { gamma := p.gamma, x0 := p.x0, x1 := p.x1, x2 := p.x2 }

theorem bbrunSpherical_eq_base (p : BBRunSpherical.P) (r t : ℝ) :
    BBRunSpherical.outcome p r t = BBRunBase.outcome (bbrunSpherical_eq_base_params p) r t ∧
    BBRunSpherical.position p r t = BBRunBase.position (bbrunSpherical_eq_base_params p) r t ∧
    BBRunSpherical.density p r t = BBRunBase.density (bbrunSpherical_eq_base_params p) r t ∧
    BBRunSpherical.pressure p r t = BBRunBase.pressure (bbrunSpherical_eq_base_params p) r t ∧
    BBRunSpherical.specific_internal_energy p r t = BBRunBase.specific_internal_energy (bbrunSpherical_eq_base_params p) r t ∧
    BBRunSpherical.velocity p r t = BBRunBase.velocity (bbrunSpherical_eq_base_params p) r t ∧
    BBRunSpherical.resF0 p r t = BBRunBase.resF0 (bbrunSpherical_eq_base_params p) r t ∧
    BBRunSpherical.resF1 p r t = BBRunBase.resF1 (bbrunSpherical_eq_base_params p) r t ∧
    BBRunSpherical.resF2 p r t = BBRunBase.resF2 (bbrunSpherical_eq_base_params p) r t ∧
    BBRunSpherical.res_symmetry p r t = BBRunBase.res_symmetry (bbrunSpherical_eq_base_params p) r t ∧
    BBRunSpherical.run_symmetry p r t = BBRunBase.run_symmetry (bbrunSpherical_eq_base_params p) r t ∧
    BBRunSpherical.guess0 p r t = BBRunBase.guess0 (bbrunSpherical_eq_base_params p) r t ∧
    BBRunSpherical.guess1 p r t = BBRunBase.guess1 (bbrunSpherical_eq_base_params p) r t ∧
    BBRunSpherical.guess2 p r t = BBRunBase.guess2 (bbrunSpherical_eq_base_params p) r t :=
  ⟨rfl, rfl, rfl, rfl, rfl, rfl, rfl, rfl, rfl, rfl, rfl, rfl, rfl, rfl⟩

end EPV.C07
