/-
C07 — Sedov wrapper classes: the trace of the wrapper and the trace of `Sedov` at that geometry with the DOCUMENTED
values (rho0 = 1, omega = 0, E0 = 0.0673185 / 0.311357 / 0.851072) are the same function, output by output:
constructor attributes (…Init) and the whole of `_run` (…Run: standard type; …RunSing / …RunVac: spherical only).
GENERATED ONCE by tools/dev/mk_c07rest.py and committed.  Proofs are `rfl`: both models unfold to the same term.
-/
import EPV.Gen.SedovWPlanarInit
import EPV.Gen.SedovG1Init
import EPV.Gen.SedovWCylindricalInit
import EPV.Gen.SedovG2Init
import EPV.Gen.SedovWSphericalInit
import EPV.Gen.SedovG3Init
import EPV.Gen.SedovWPlanarRun
import EPV.Gen.SedovG1Run
import EPV.Gen.SedovWCylindricalRun
import EPV.Gen.SedovG2Run
import EPV.Gen.SedovWSphericalRun
import EPV.Gen.SedovG3Run
import EPV.Gen.SedovWSphericalRunSing
import EPV.Gen.SedovG3RunSing
import EPV.Gen.SedovWSphericalRunVac
import EPV.Gen.SedovG3RunVac

set_option linter.all false

open EPV EPV.Gen

namespace EPV.C07

/-- the same symbols, read by the general-class model -/
def sedovPlanar_init_eq_general_params (p : SedovWPlanarInit.P) : SedovG1Init.P := { eval1_quad := p.eval1_quad, eval2_quad := p.eval2_quad, gamma := p.gamma }

theorem sedovPlanar_init_eq_general (p : SedovWPlanarInit.P) :
    SedovWPlanarInit.outcome p = SedovG1Init.outcome (sedovPlanar_init_eq_general_params p) ∧
    SedovWPlanarInit.geometry p = SedovG1Init.geometry (sedovPlanar_init_eq_general_params p) ∧
    SedovWPlanarInit.gamma p = SedovG1Init.gamma (sedovPlanar_init_eq_general_params p) ∧
    SedovWPlanarInit.rho0 p = SedovG1Init.rho0 (sedovPlanar_init_eq_general_params p) ∧
    SedovWPlanarInit.omega p = SedovG1Init.omega (sedovPlanar_init_eq_general_params p) ∧
    SedovWPlanarInit.eblast p = SedovG1Init.eblast (sedovPlanar_init_eq_general_params p) ∧
    SedovWPlanarInit.a0 p = SedovG1Init.a0 (sedovPlanar_init_eq_general_params p) ∧
    SedovWPlanarInit.a1 p = SedovG1Init.a1 (sedovPlanar_init_eq_general_params p) ∧
    SedovWPlanarInit.a2 p = SedovG1Init.a2 (sedovPlanar_init_eq_general_params p) ∧
    SedovWPlanarInit.a3 p = SedovG1Init.a3 (sedovPlanar_init_eq_general_params p) ∧
    SedovWPlanarInit.a4 p = SedovG1Init.a4 (sedovPlanar_init_eq_general_params p) ∧
    SedovWPlanarInit.a5 p = SedovG1Init.a5 (sedovPlanar_init_eq_general_params p) ∧
    SedovWPlanarInit.a_val p = SedovG1Init.a_val (sedovPlanar_init_eq_general_params p) ∧
    SedovWPlanarInit.alpha p = SedovG1Init.alpha (sedovPlanar_init_eq_general_params p) ∧
    SedovWPlanarInit.b_val p = SedovG1Init.b_val (sedovPlanar_init_eq_general_params p) ∧
    SedovWPlanarInit.c_val p = SedovG1Init.c_val (sedovPlanar_init_eq_general_params p) ∧
    SedovWPlanarInit.d_val p = SedovG1Init.d_val (sedovPlanar_init_eq_general_params p) ∧
    SedovWPlanarInit.denom2 p = SedovG1Init.denom2 (sedovPlanar_init_eq_general_params p) ∧
    SedovWPlanarInit.denom3 p = SedovG1Init.denom3 (sedovPlanar_init_eq_general_params p) ∧
    SedovWPlanarInit.e_val p = SedovG1Init.e_val (sedovPlanar_init_eq_general_params p) ∧
    SedovWPlanarInit.eval1 p = SedovG1Init.eval1 (sedovPlanar_init_eq_general_params p) ∧
    SedovWPlanarInit.eval2 p = SedovG1Init.eval2 (sedovPlanar_init_eq_general_params p) ∧
    SedovWPlanarInit.gamm1 p = SedovG1Init.gamm1 (sedovPlanar_init_eq_general_params p) ∧
    SedovWPlanarInit.gamp1 p = SedovG1Init.gamp1 (sedovPlanar_init_eq_general_params p) ∧
    SedovWPlanarInit.gpogm p = SedovG1Init.gpogm (sedovPlanar_init_eq_general_params p) ∧
    SedovWPlanarInit.rvv p = SedovG1Init.rvv (sedovPlanar_init_eq_general_params p) ∧
    SedovWPlanarInit.solution_type p = SedovG1Init.solution_type (sedovPlanar_init_eq_general_params p) ∧
    SedovWPlanarInit.special_singularity p = SedovG1Init.special_singularity (sedovPlanar_init_eq_general_params p) ∧
    SedovWPlanarInit.v0 p = SedovG1Init.v0 (sedovPlanar_init_eq_general_params p) ∧
    SedovWPlanarInit.v2 p = SedovG1Init.v2 (sedovPlanar_init_eq_general_params p) ∧
    SedovWPlanarInit.vmin p = SedovG1Init.vmin (sedovPlanar_init_eq_general_params p) ∧
    SedovWPlanarInit.vstar p = SedovG1Init.vstar (sedovPlanar_init_eq_general_params p) ∧
    SedovWPlanarInit.vv p = SedovG1Init.vv (sedovPlanar_init_eq_general_params p) ∧
    SedovWPlanarInit.xg2 p = SedovG1Init.xg2 (sedovPlanar_init_eq_general_params p) ∧
    SedovWPlanarInit.attr_mask p = SedovG1Init.attr_mask (sedovPlanar_init_eq_general_params p) ∧
    SedovWPlanarInit.n_instance_attrs p = SedovG1Init.n_instance_attrs (sedovPlanar_init_eq_general_params p) :=
  ⟨rfl, rfl, rfl, rfl, rfl, rfl, rfl, rfl, rfl, rfl, rfl, rfl, rfl, rfl, rfl, rfl, rfl, rfl, rfl, rfl, rfl, rfl, rfl, rfl, rfl, rfl, rfl, rfl, rfl, rfl, rfl, rfl, rfl, rfl, rfl, rfl⟩

/-- the same symbols, read by the general-class model -/
def sedovCylindrical_init_eq_general_params (p : SedovWCylindricalInit.P) : SedovG2Init.P := { eval1_quad := p.eval1_quad, eval2_quad := p.eval2_quad, gamma := p.gamma }

theorem sedovCylindrical_init_eq_general (p : SedovWCylindricalInit.P) :
    SedovWCylindricalInit.outcome p = SedovG2Init.outcome (sedovCylindrical_init_eq_general_params p) ∧
    SedovWCylindricalInit.geometry p = SedovG2Init.geometry (sedovCylindrical_init_eq_general_params p) ∧
    SedovWCylindricalInit.gamma p = SedovG2Init.gamma (sedovCylindrical_init_eq_general_params p) ∧
    SedovWCylindricalInit.rho0 p = SedovG2Init.rho0 (sedovCylindrical_init_eq_general_params p) ∧
    SedovWCylindricalInit.omega p = SedovG2Init.omega (sedovCylindrical_init_eq_general_params p) ∧
    SedovWCylindricalInit.eblast p = SedovG2Init.eblast (sedovCylindrical_init_eq_general_params p) ∧
    SedovWCylindricalInit.a0 p = SedovG2Init.a0 (sedovCylindrical_init_eq_general_params p) ∧
    SedovWCylindricalInit.a1 p = SedovG2Init.a1 (sedovCylindrical_init_eq_general_params p) ∧
    SedovWCylindricalInit.a2 p = SedovG2Init.a2 (sedovCylindrical_init_eq_general_params p) ∧
    SedovWCylindricalInit.a3 p = SedovG2Init.a3 (sedovCylindrical_init_eq_general_params p) ∧
    SedovWCylindricalInit.a4 p = SedovG2Init.a4 (sedovCylindrical_init_eq_general_params p) ∧
    SedovWCylindricalInit.a5 p = SedovG2Init.a5 (sedovCylindrical_init_eq_general_params p) ∧
    SedovWCylindricalInit.a_val p = SedovG2Init.a_val (sedovCylindrical_init_eq_general_params p) ∧
    SedovWCylindricalInit.alpha p = SedovG2Init.alpha (sedovCylindrical_init_eq_general_params p) ∧
    SedovWCylindricalInit.b_val p = SedovG2Init.b_val (sedovCylindrical_init_eq_general_params p) ∧
    SedovWCylindricalInit.c_val p = SedovG2Init.c_val (sedovCylindrical_init_eq_general_params p) ∧
    SedovWCylindricalInit.d_val p = SedovG2Init.d_val (sedovCylindrical_init_eq_general_params p) ∧
    SedovWCylindricalInit.denom2 p = SedovG2Init.denom2 (sedovCylindrical_init_eq_general_params p) ∧
    SedovWCylindricalInit.denom3 p = SedovG2Init.denom3 (sedovCylindrical_init_eq_general_params p) ∧
    SedovWCylindricalInit.e_val p = SedovG2Init.e_val (sedovCylindrical_init_eq_general_params p) ∧
    SedovWCylindricalInit.eval1 p = SedovG2Init.eval1 (sedovCylindrical_init_eq_general_params p) ∧
    SedovWCylindricalInit.eval2 p = SedovG2Init.eval2 (sedovCylindrical_init_eq_general_params p) ∧
    SedovWCylindricalInit.gamm1 p = SedovG2Init.gamm1 (sedovCylindrical_init_eq_general_params p) ∧
    SedovWCylindricalInit.gamp1 p = SedovG2Init.gamp1 (sedovCylindrical_init_eq_general_params p) ∧
    SedovWCylindricalInit.gpogm p = SedovG2Init.gpogm (sedovCylindrical_init_eq_general_params p) ∧
    SedovWCylindricalInit.rvv p = SedovG2Init.rvv (sedovCylindrical_init_eq_general_params p) ∧
    SedovWCylindricalInit.solution_type p = SedovG2Init.solution_type (sedovCylindrical_init_eq_general_params p) ∧
    SedovWCylindricalInit.special_singularity p = SedovG2Init.special_singularity (sedovCylindrical_init_eq_general_params p) ∧
    SedovWCylindricalInit.v0 p = SedovG2Init.v0 (sedovCylindrical_init_eq_general_params p) ∧
    SedovWCylindricalInit.v2 p = SedovG2Init.v2 (sedovCylindrical_init_eq_general_params p) ∧
    SedovWCylindricalInit.vmin p = SedovG2Init.vmin (sedovCylindrical_init_eq_general_params p) ∧
    SedovWCylindricalInit.vstar p = SedovG2Init.vstar (sedovCylindrical_init_eq_general_params p) ∧
    SedovWCylindricalInit.vv p = SedovG2Init.vv (sedovCylindrical_init_eq_general_params p) ∧
    SedovWCylindricalInit.xg2 p = SedovG2Init.xg2 (sedovCylindrical_init_eq_general_params p) ∧
    SedovWCylindricalInit.attr_mask p = SedovG2Init.attr_mask (sedovCylindrical_init_eq_general_params p) ∧
    SedovWCylindricalInit.n_instance_attrs p = SedovG2Init.n_instance_attrs (sedovCylindrical_init_eq_general_params p) :=
  ⟨rfl, rfl, rfl, rfl, rfl, rfl, rfl, rfl, rfl, rfl, rfl, rfl, rfl, rfl, rfl, rfl, rfl, rfl, rfl, rfl, rfl, rfl, rfl, rfl, rfl, rfl, rfl, rfl, rfl, rfl, rfl, rfl, rfl, rfl, rfl, rfl⟩

/-- the same symbols, read by the general-class model -/
def sedovSpherical_init_eq_general_params (p : SedovWSphericalInit.P) : SedovG3Init.P := { eval1_quad := p.eval1_quad, eval2_quad := p.eval2_quad, gamma := p.gamma }

theorem sedovSpherical_init_eq_general (p : SedovWSphericalInit.P) :
    SedovWSphericalInit.outcome p = SedovG3Init.outcome (sedovSpherical_init_eq_general_params p) ∧
    SedovWSphericalInit.geometry p = SedovG3Init.geometry (sedovSpherical_init_eq_general_params p) ∧
    SedovWSphericalInit.gamma p = SedovG3Init.gamma (sedovSpherical_init_eq_general_params p) ∧
    SedovWSphericalInit.rho0 p = SedovG3Init.rho0 (sedovSpherical_init_eq_general_params p) ∧
    SedovWSphericalInit.omega p = SedovG3Init.omega (sedovSpherical_init_eq_general_params p) ∧
    SedovWSphericalInit.eblast p = SedovG3Init.eblast (sedovSpherical_init_eq_general_params p) ∧
    SedovWSphericalInit.a0 p = SedovG3Init.a0 (sedovSpherical_init_eq_general_params p) ∧
    SedovWSphericalInit.a1 p = SedovG3Init.a1 (sedovSpherical_init_eq_general_params p) ∧
    SedovWSphericalInit.a2 p = SedovG3Init.a2 (sedovSpherical_init_eq_general_params p) ∧
    SedovWSphericalInit.a3 p = SedovG3Init.a3 (sedovSpherical_init_eq_general_params p) ∧
    SedovWSphericalInit.a4 p = SedovG3Init.a4 (sedovSpherical_init_eq_general_params p) ∧
    SedovWSphericalInit.a5 p = SedovG3Init.a5 (sedovSpherical_init_eq_general_params p) ∧
    SedovWSphericalInit.a_val p = SedovG3Init.a_val (sedovSpherical_init_eq_general_params p) ∧
    SedovWSphericalInit.alpha p = SedovG3Init.alpha (sedovSpherical_init_eq_general_params p) ∧
    SedovWSphericalInit.b_val p = SedovG3Init.b_val (sedovSpherical_init_eq_general_params p) ∧
    SedovWSphericalInit.c_val p = SedovG3Init.c_val (sedovSpherical_init_eq_general_params p) ∧
    SedovWSphericalInit.d_val p = SedovG3Init.d_val (sedovSpherical_init_eq_general_params p) ∧
    SedovWSphericalInit.denom2 p = SedovG3Init.denom2 (sedovSpherical_init_eq_general_params p) ∧
    SedovWSphericalInit.denom3 p = SedovG3Init.denom3 (sedovSpherical_init_eq_general_params p) ∧
    SedovWSphericalInit.e_val p = SedovG3Init.e_val (sedovSpherical_init_eq_general_params p) ∧
    SedovWSphericalInit.eval1 p = SedovG3Init.eval1 (sedovSpherical_init_eq_general_params p) ∧
    SedovWSphericalInit.eval2 p = SedovG3Init.eval2 (sedovSpherical_init_eq_general_params p) ∧
    SedovWSphericalInit.gamm1 p = SedovG3Init.gamm1 (sedovSpherical_init_eq_general_params p) ∧
    SedovWSphericalInit.gamp1 p = SedovG3Init.gamp1 (sedovSpherical_init_eq_general_params p) ∧
    SedovWSphericalInit.gpogm p = SedovG3Init.gpogm (sedovSpherical_init_eq_general_params p) ∧
    SedovWSphericalInit.rvv p = SedovG3Init.rvv (sedovSpherical_init_eq_general_params p) ∧
    SedovWSphericalInit.solution_type p = SedovG3Init.solution_type (sedovSpherical_init_eq_general_params p) ∧
    SedovWSphericalInit.special_singularity p = SedovG3Init.special_singularity (sedovSpherical_init_eq_general_params p) ∧
    SedovWSphericalInit.v0 p = SedovG3Init.v0 (sedovSpherical_init_eq_general_params p) ∧
    SedovWSphericalInit.v2 p = SedovG3Init.v2 (sedovSpherical_init_eq_general_params p) ∧
    SedovWSphericalInit.vmin p = SedovG3Init.vmin (sedovSpherical_init_eq_general_params p) ∧
    SedovWSphericalInit.vstar p = SedovG3Init.vstar (sedovSpherical_init_eq_general_params p) ∧
    SedovWSphericalInit.vv p = SedovG3Init.vv (sedovSpherical_init_eq_general_params p) ∧
    SedovWSphericalInit.xg2 p = SedovG3Init.xg2 (sedovSpherical_init_eq_general_params p) ∧
    SedovWSphericalInit.attr_mask p = SedovG3Init.attr_mask (sedovSpherical_init_eq_general_params p) ∧
    SedovWSphericalInit.n_instance_attrs p = SedovG3Init.n_instance_attrs (sedovSpherical_init_eq_general_params p) :=
  ⟨rfl, rfl, rfl, rfl, rfl, rfl, rfl, rfl, rfl, rfl, rfl, rfl, rfl, rfl, rfl, rfl, rfl, rfl, rfl, rfl, rfl, rfl, rfl, rfl, rfl, rfl, rfl, rfl, rfl, rfl, rfl, rfl, rfl, rfl, rfl, rfl⟩

/-- the same symbols, read by the general-class model -/
def sedovPlanar_run_eq_general_params (p : SedovWPlanarRun.P) : SedovG1Run.P := { alpha := p.alpha, f_0 := p.f_0, g_0 := p.g_0, g_1 := p.g_1, g_2 := p.g_2, gamma := p.gamma, h_0 := p.h_0, v_0 := p.v_0, v_1 := p.v_1 }

theorem sedovPlanar_run_eq_general (p : SedovWPlanarRun.P) (r t : ℝ) :
    SedovWPlanarRun.outcome p r t = SedovG1Run.outcome (sedovPlanar_run_eq_general_params p) r t ∧
    SedovWPlanarRun.position p r t = SedovG1Run.position (sedovPlanar_run_eq_general_params p) r t ∧
    SedovWPlanarRun.density p r t = SedovG1Run.density (sedovPlanar_run_eq_general_params p) r t ∧
    SedovWPlanarRun.pressure p r t = SedovG1Run.pressure (sedovPlanar_run_eq_general_params p) r t ∧
    SedovWPlanarRun.specific_internal_energy p r t = SedovG1Run.specific_internal_energy (sedovPlanar_run_eq_general_params p) r t ∧
    SedovWPlanarRun.velocity p r t = SedovG1Run.velocity (sedovPlanar_run_eq_general_params p) r t ∧
    SedovWPlanarRun.sound_speed p r t = SedovG1Run.sound_speed (sedovPlanar_run_eq_general_params p) r t :=
  ⟨rfl, rfl, rfl, rfl, rfl, rfl, rfl⟩

/-- the same symbols, read by the general-class model -/
def sedovCylindrical_run_eq_general_params (p : SedovWCylindricalRun.P) : SedovG2Run.P := { alpha := p.alpha, f_0 := p.f_0, g_0 := p.g_0, g_1 := p.g_1, g_2 := p.g_2, gamma := p.gamma, h_0 := p.h_0, v_0 := p.v_0, v_1 := p.v_1 }

theorem sedovCylindrical_run_eq_general (p : SedovWCylindricalRun.P) (r t : ℝ) :
    SedovWCylindricalRun.outcome p r t = SedovG2Run.outcome (sedovCylindrical_run_eq_general_params p) r t ∧
    SedovWCylindricalRun.position p r t = SedovG2Run.position (sedovCylindrical_run_eq_general_params p) r t ∧
    SedovWCylindricalRun.density p r t = SedovG2Run.density (sedovCylindrical_run_eq_general_params p) r t ∧
    SedovWCylindricalRun.pressure p r t = SedovG2Run.pressure (sedovCylindrical_run_eq_general_params p) r t ∧
    SedovWCylindricalRun.specific_internal_energy p r t = SedovG2Run.specific_internal_energy (sedovCylindrical_run_eq_general_params p) r t ∧
    SedovWCylindricalRun.velocity p r t = SedovG2Run.velocity (sedovCylindrical_run_eq_general_params p) r t ∧
    SedovWCylindricalRun.sound_speed p r t = SedovG2Run.sound_speed (sedovCylindrical_run_eq_general_params p) r t :=
  ⟨rfl, rfl, rfl, rfl, rfl, rfl, rfl⟩

/-- the same symbols, read by the general-class model -/
def sedovSpherical_run_eq_general_params (p : SedovWSphericalRun.P) : SedovG3Run.P := { alpha := p.alpha, f_0 := p.f_0, g_0 := p.g_0, g_1 := p.g_1, g_2 := p.g_2, gamma := p.gamma, h_0 := p.h_0, v_0 := p.v_0, v_1 := p.v_1 }

theorem sedovSpherical_run_eq_general (p : SedovWSphericalRun.P) (r t : ℝ) :
    SedovWSphericalRun.outcome p r t = SedovG3Run.outcome (sedovSpherical_run_eq_general_params p) r t ∧
    SedovWSphericalRun.position p r t = SedovG3Run.position (sedovSpherical_run_eq_general_params p) r t ∧
    SedovWSphericalRun.density p r t = SedovG3Run.density (sedovSpherical_run_eq_general_params p) r t ∧
    SedovWSphericalRun.pressure p r t = SedovG3Run.pressure (sedovSpherical_run_eq_general_params p) r t ∧
    SedovWSphericalRun.specific_internal_energy p r t = SedovG3Run.specific_internal_energy (sedovSpherical_run_eq_general_params p) r t ∧
    SedovWSphericalRun.velocity p r t = SedovG3Run.velocity (sedovSpherical_run_eq_general_params p) r t ∧
    SedovWSphericalRun.sound_speed p r t = SedovG3Run.sound_speed (sedovSpherical_run_eq_general_params p) r t :=
  ⟨rfl, rfl, rfl, rfl, rfl, rfl, rfl⟩

/-- the same symbols, read by the general-class model -/
def sedovSpherical_runSing_eq_general_params (p : SedovWSphericalRunSing.P) : SedovG3RunSing.P := { alpha := p.alpha, gamma := p.gamma }

theorem sedovSpherical_runSing_eq_general (p : SedovWSphericalRunSing.P) (r t : ℝ) :
    SedovWSphericalRunSing.outcome p r t = SedovG3RunSing.outcome (sedovSpherical_runSing_eq_general_params p) r t ∧
    SedovWSphericalRunSing.position p r t = SedovG3RunSing.position (sedovSpherical_runSing_eq_general_params p) r t ∧
    SedovWSphericalRunSing.density p r t = SedovG3RunSing.density (sedovSpherical_runSing_eq_general_params p) r t ∧
    SedovWSphericalRunSing.pressure p r t = SedovG3RunSing.pressure (sedovSpherical_runSing_eq_general_params p) r t ∧
    SedovWSphericalRunSing.specific_internal_energy p r t = SedovG3RunSing.specific_internal_energy (sedovSpherical_runSing_eq_general_params p) r t ∧
    SedovWSphericalRunSing.velocity p r t = SedovG3RunSing.velocity (sedovSpherical_runSing_eq_general_params p) r t ∧
    SedovWSphericalRunSing.sound_speed p r t = SedovG3RunSing.sound_speed (sedovSpherical_runSing_eq_general_params p) r t :=
  ⟨rfl, rfl, rfl, rfl, rfl, rfl, rfl⟩

/-- the same symbols, read by the general-class model -/
def sedovSpherical_runVac_eq_general_params (p : SedovWSphericalRunVac.P) : SedovG3RunVac.P := { alpha := p.alpha, f_0 := p.f_0, g_0 := p.g_0, g_1 := p.g_1, gamma := p.gamma, h_0 := p.h_0, l_vv := p.l_vv, v_0 := p.v_0, v_1 := p.v_1 }

theorem sedovSpherical_runVac_eq_general (p : SedovWSphericalRunVac.P) (r t : ℝ) :
    SedovWSphericalRunVac.outcome p r t = SedovG3RunVac.outcome (sedovSpherical_runVac_eq_general_params p) r t ∧
    SedovWSphericalRunVac.position p r t = SedovG3RunVac.position (sedovSpherical_runVac_eq_general_params p) r t ∧
    SedovWSphericalRunVac.density p r t = SedovG3RunVac.density (sedovSpherical_runVac_eq_general_params p) r t ∧
    SedovWSphericalRunVac.pressure p r t = SedovG3RunVac.pressure (sedovSpherical_runVac_eq_general_params p) r t ∧
    SedovWSphericalRunVac.specific_internal_energy p r t = SedovG3RunVac.specific_internal_energy (sedovSpherical_runVac_eq_general_params p) r t ∧
    SedovWSphericalRunVac.velocity p r t = SedovG3RunVac.velocity (sedovSpherical_runVac_eq_general_params p) r t ∧
    SedovWSphericalRunVac.sound_speed p r t = SedovG3RunVac.sound_speed (sedovSpherical_runVac_eq_general_params p) r t :=
  ⟨rfl, rfl, rfl, rfl, rfl, rfl, rfl⟩

end EPV.C07
