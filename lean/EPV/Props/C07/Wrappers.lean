/-
C07 — every geometry-specific wrapper class returns the fields of the general class at that
geometry.

GENERATED ONCE by tools/dev/mk_c07_wrappers.py and committed (the statements are fixed by
the table in that script: geometry from the class *name*, undeclared parameters at their
documented values).  For each wrapper `W` of a general class `M`:

    theorem <w>_eq_general (p : W.P) (q : M.P) (r t : ℝ)
        (declared parameters of W agree: q.x = p.x) (q.geometry = 1|2|3) (undeclared: q.y = documented value) :
        W.outcome p r t = M.outcome q r t ∧ W.<field> p r t = M.<field> q r t ∧ …   (every returned field)

Both models are traces of the same inherited `_run`; in the wrapper's model the fixed
attributes are literals (folded by Python: `geometry - 1.` is already a number), in the
general model they are symbols.  No hypothesis on parameters, r or t is needed: the two
sides are the same expression after evaluating the literals.  (The conduction symbols
`a_rad … lam0_` of the general Coggeshall models belong to the derived heat flux and do
not occur in the returned fields; they are left free.)
-/
import EPV.Gen.Cog1
import EPV.Gen.Cog2
import EPV.Gen.Cog3
import EPV.Gen.Cog4
import EPV.Gen.Cog6
import EPV.Gen.Cog7
import EPV.Gen.Cog8
import EPV.Gen.Cog9
import EPV.Gen.Cog10
import EPV.Gen.Cog11
import EPV.Gen.Cog12
import EPV.Gen.Cog13
import EPV.Gen.Cog14
import EPV.Gen.Cog16
import EPV.Gen.Cog17
import EPV.Gen.Cog18
import EPV.Gen.Cog19
import EPV.Gen.Cog20
import EPV.Gen.Noh
import EPV.Gen.Noh2
import EPV.Gen.PlanarCog1
import EPV.Gen.CylindricalCog1
import EPV.Gen.SphericalCog1
import EPV.Gen.PlanarCog2
import EPV.Gen.CylindricalCog2
import EPV.Gen.SphericalCog2
import EPV.Gen.PlanarCog3
import EPV.Gen.CylindricalCog3
import EPV.Gen.SphericalCog3
import EPV.Gen.PlanarCog4
import EPV.Gen.CylindricalCog4
import EPV.Gen.SphericalCog4
import EPV.Gen.PlanarCog6
import EPV.Gen.CylindricalCog6
import EPV.Gen.SphericalCog6
import EPV.Gen.PlanarCog7
import EPV.Gen.CylindricalCog7
import EPV.Gen.SphericalCog7
import EPV.Gen.PlanarCog8
import EPV.Gen.CylindricalCog8
import EPV.Gen.SphericalCog8
import EPV.Gen.PlanarCog9
import EPV.Gen.CylindricalCog9
import EPV.Gen.SphericalCog9
import EPV.Gen.CylindricalCog10
import EPV.Gen.SphericalCog10
import EPV.Gen.PlanarCog11
import EPV.Gen.CylindricalCog11
import EPV.Gen.SphericalCog11
import EPV.Gen.PlanarCog12
import EPV.Gen.CylindricalCog12
import EPV.Gen.SphericalCog12
import EPV.Gen.PlanarCog13
import EPV.Gen.CylindricalCog13
import EPV.Gen.SphericalCog13
import EPV.Gen.PlanarCog14
import EPV.Gen.CylindricalCog14
import EPV.Gen.SphericalCog14
import EPV.Gen.CylindricalCog16
import EPV.Gen.SphericalCog16
import EPV.Gen.PlanarCog17
import EPV.Gen.CylindricalCog17
import EPV.Gen.SphericalCog17
import EPV.Gen.PlanarCog18
import EPV.Gen.CylindricalCog18
import EPV.Gen.SphericalCog18
import EPV.Gen.PlanarCog19
import EPV.Gen.CylindricalCog19
import EPV.Gen.SphericalCog19
import EPV.Gen.PlanarCog20
import EPV.Gen.CylindricalCog20
import EPV.Gen.SphericalCog20
import EPV.Gen.Kidder74
import EPV.Gen.Kidder76
import EPV.Gen.PlanarNoh
import EPV.Gen.PlanarNoh2
import EPV.Gen.CylindricalNoh
import EPV.Gen.CylindricalNoh2
import EPV.Gen.SphericalNoh
import EPV.Gen.SphericalNoh2
import EPV.Tactics

set_option linter.all false

open EPV EPV.Gen
open Classical

namespace EPV.C07

/-- a path condition of the general model is the wrapper's condition once the parameter
agreement is substituted and the literals are evaluated -/
macro "wrapper_cond" : tactic =>
  `(tactic| (
    simp only [epv_cond, *]
    try first
      | exact Iff.rfl
      | (norm_num; done)
      | (constructor <;> intro h <;> norm_num at h ⊢ <;> linarith)))

/-- unfold both trees, rewrite the general model's path conditions into the wrapper's (so both
sides branch on literally the same propositions), split, and compare the leaves: substitute the
parameter agreement, evaluate the literals; what is left differs at most by ring normalisation -/
macro "wrapper_eq" : tactic =>
  `(tactic| (
    simp only [epv_tree, *]
    (repeat' constructor) <;> (try split_ifs) <;> (try simp only [epv_leaf, *]) <;>
      first | rfl | ring1 | (norm_num; done) | (ring_nf; done) | (field_simp; done) | (field_simp; ring1)))

theorem planarCog1_eq_general (p : PlanarCog1.P) (q : Cog1.P) (r t : ℝ)
    (h_Gamma : q.Gamma = p.Gamma) (h_b : q.b = p.b) (h_gamma : q.gamma = p.gamma) (h_geometry : q.geometry = 1) (h_rho0 : q.rho0 = p.rho0) (h_temp0 : q.temp0 = p.temp0) :
    PlanarCog1.outcome p r t = Cog1.outcome q r t ∧
    PlanarCog1.position p r t = Cog1.position q r t ∧
    PlanarCog1.density p r t = Cog1.density q r t ∧
    PlanarCog1.velocity p r t = Cog1.velocity q r t ∧
    PlanarCog1.temperature p r t = Cog1.temperature q r t ∧
    PlanarCog1.pressure p r t = Cog1.pressure q r t ∧
    PlanarCog1.specific_internal_energy p r t = Cog1.specific_internal_energy q r t := by
  have hc0 : Cog1.c0 q r t ↔ PlanarCog1.c0 p r t := by wrapper_cond
  wrapper_eq

example (p : PlanarCog1.P) : ∃ q : Cog1.P, q.Gamma = p.Gamma ∧ q.b = p.b ∧ q.gamma = p.gamma ∧ q.geometry = 1 ∧ q.rho0 = p.rho0 ∧ q.temp0 = p.temp0 :=
  ⟨{ Gamma := p.Gamma, a_rad := 0, alpha_ := 0, b := p.b, beta_ := 0, c_light := 0, gamma := p.gamma, geometry := 1, lam0_ := 0, rho0 := p.rho0, temp0 := p.temp0 }, rfl, rfl, rfl, rfl, rfl, rfl⟩

theorem cylindricalCog1_eq_general (p : CylindricalCog1.P) (q : Cog1.P) (r t : ℝ)
    (h_Gamma : q.Gamma = p.Gamma) (h_b : q.b = p.b) (h_gamma : q.gamma = p.gamma) (h_geometry : q.geometry = 2) (h_rho0 : q.rho0 = p.rho0) (h_temp0 : q.temp0 = p.temp0) :
    CylindricalCog1.outcome p r t = Cog1.outcome q r t ∧
    CylindricalCog1.position p r t = Cog1.position q r t ∧
    CylindricalCog1.density p r t = Cog1.density q r t ∧
    CylindricalCog1.velocity p r t = Cog1.velocity q r t ∧
    CylindricalCog1.temperature p r t = Cog1.temperature q r t ∧
    CylindricalCog1.pressure p r t = Cog1.pressure q r t ∧
    CylindricalCog1.specific_internal_energy p r t = Cog1.specific_internal_energy q r t := by
  have hc0 : Cog1.c0 q r t ↔ CylindricalCog1.c0 p r t := by wrapper_cond
  wrapper_eq

example (p : CylindricalCog1.P) : ∃ q : Cog1.P, q.Gamma = p.Gamma ∧ q.b = p.b ∧ q.gamma = p.gamma ∧ q.geometry = 2 ∧ q.rho0 = p.rho0 ∧ q.temp0 = p.temp0 :=
  ⟨{ Gamma := p.Gamma, a_rad := 0, alpha_ := 0, b := p.b, beta_ := 0, c_light := 0, gamma := p.gamma, geometry := 2, lam0_ := 0, rho0 := p.rho0, temp0 := p.temp0 }, rfl, rfl, rfl, rfl, rfl, rfl⟩

theorem sphericalCog1_eq_general (p : SphericalCog1.P) (q : Cog1.P) (r t : ℝ)
    (h_Gamma : q.Gamma = p.Gamma) (h_b : q.b = p.b) (h_gamma : q.gamma = p.gamma) (h_geometry : q.geometry = 3) (h_rho0 : q.rho0 = p.rho0) (h_temp0 : q.temp0 = p.temp0) :
    SphericalCog1.outcome p r t = Cog1.outcome q r t ∧
    SphericalCog1.position p r t = Cog1.position q r t ∧
    SphericalCog1.density p r t = Cog1.density q r t ∧
    SphericalCog1.velocity p r t = Cog1.velocity q r t ∧
    SphericalCog1.temperature p r t = Cog1.temperature q r t ∧
    SphericalCog1.pressure p r t = Cog1.pressure q r t ∧
    SphericalCog1.specific_internal_energy p r t = Cog1.specific_internal_energy q r t := by
  have hc0 : Cog1.c0 q r t ↔ SphericalCog1.c0 p r t := by wrapper_cond
  wrapper_eq

example (p : SphericalCog1.P) : ∃ q : Cog1.P, q.Gamma = p.Gamma ∧ q.b = p.b ∧ q.gamma = p.gamma ∧ q.geometry = 3 ∧ q.rho0 = p.rho0 ∧ q.temp0 = p.temp0 :=
  ⟨{ Gamma := p.Gamma, a_rad := 0, alpha_ := 0, b := p.b, beta_ := 0, c_light := 0, gamma := p.gamma, geometry := 3, lam0_ := 0, rho0 := p.rho0, temp0 := p.temp0 }, rfl, rfl, rfl, rfl, rfl, rfl⟩

theorem planarCog2_eq_general (p : PlanarCog2.P) (q : Cog2.P) (r t : ℝ)
    (h_Gamma : q.Gamma = p.Gamma) (h_b : q.b = p.b) (h_gamma : q.gamma = p.gamma) (h_geometry : q.geometry = 1) (h_rho0 : q.rho0 = p.rho0) :
    PlanarCog2.outcome p r t = Cog2.outcome q r t ∧
    PlanarCog2.position p r t = Cog2.position q r t ∧
    PlanarCog2.density p r t = Cog2.density q r t ∧
    PlanarCog2.velocity p r t = Cog2.velocity q r t ∧
    PlanarCog2.temperature p r t = Cog2.temperature q r t ∧
    PlanarCog2.pressure p r t = Cog2.pressure q r t ∧
    PlanarCog2.specific_internal_energy p r t = Cog2.specific_internal_energy q r t := by
  have hc0 : Cog2.c0 q r t ↔ PlanarCog2.c0 p r t := by wrapper_cond
  wrapper_eq

example (p : PlanarCog2.P) : ∃ q : Cog2.P, q.Gamma = p.Gamma ∧ q.b = p.b ∧ q.gamma = p.gamma ∧ q.geometry = 1 ∧ q.rho0 = p.rho0 :=
  ⟨{ Gamma := p.Gamma, a_rad := 0, alpha_ := 0, b := p.b, beta_ := 0, c_light := 0, gamma := p.gamma, geometry := 1, lam0_ := 0, rho0 := p.rho0 }, rfl, rfl, rfl, rfl, rfl⟩

theorem cylindricalCog2_eq_general (p : CylindricalCog2.P) (q : Cog2.P) (r t : ℝ)
    (h_Gamma : q.Gamma = p.Gamma) (h_b : q.b = p.b) (h_gamma : q.gamma = p.gamma) (h_geometry : q.geometry = 2) (h_rho0 : q.rho0 = p.rho0) :
    CylindricalCog2.outcome p r t = Cog2.outcome q r t ∧
    CylindricalCog2.position p r t = Cog2.position q r t ∧
    CylindricalCog2.density p r t = Cog2.density q r t ∧
    CylindricalCog2.velocity p r t = Cog2.velocity q r t ∧
    CylindricalCog2.temperature p r t = Cog2.temperature q r t ∧
    CylindricalCog2.pressure p r t = Cog2.pressure q r t ∧
    CylindricalCog2.specific_internal_energy p r t = Cog2.specific_internal_energy q r t := by
  have hc0 : Cog2.c0 q r t ↔ CylindricalCog2.c0 p r t := by wrapper_cond
  wrapper_eq

example (p : CylindricalCog2.P) : ∃ q : Cog2.P, q.Gamma = p.Gamma ∧ q.b = p.b ∧ q.gamma = p.gamma ∧ q.geometry = 2 ∧ q.rho0 = p.rho0 :=
  ⟨{ Gamma := p.Gamma, a_rad := 0, alpha_ := 0, b := p.b, beta_ := 0, c_light := 0, gamma := p.gamma, geometry := 2, lam0_ := 0, rho0 := p.rho0 }, rfl, rfl, rfl, rfl, rfl⟩

theorem sphericalCog2_eq_general (p : SphericalCog2.P) (q : Cog2.P) (r t : ℝ)
    (h_Gamma : q.Gamma = p.Gamma) (h_b : q.b = p.b) (h_gamma : q.gamma = p.gamma) (h_geometry : q.geometry = 3) (h_rho0 : q.rho0 = p.rho0) :
    SphericalCog2.outcome p r t = Cog2.outcome q r t ∧
    SphericalCog2.position p r t = Cog2.position q r t ∧
    SphericalCog2.density p r t = Cog2.density q r t ∧
    SphericalCog2.velocity p r t = Cog2.velocity q r t ∧
    SphericalCog2.temperature p r t = Cog2.temperature q r t ∧
    SphericalCog2.pressure p r t = Cog2.pressure q r t ∧
    SphericalCog2.specific_internal_energy p r t = Cog2.specific_internal_energy q r t := by
  have hc0 : Cog2.c0 q r t ↔ SphericalCog2.c0 p r t := by wrapper_cond
  wrapper_eq

example (p : SphericalCog2.P) : ∃ q : Cog2.P, q.Gamma = p.Gamma ∧ q.b = p.b ∧ q.gamma = p.gamma ∧ q.geometry = 3 ∧ q.rho0 = p.rho0 :=
  ⟨{ Gamma := p.Gamma, a_rad := 0, alpha_ := 0, b := p.b, beta_ := 0, c_light := 0, gamma := p.gamma, geometry := 3, lam0_ := 0, rho0 := p.rho0 }, rfl, rfl, rfl, rfl, rfl⟩

theorem planarCog3_eq_general (p : PlanarCog3.P) (q : Cog3.P) (r t : ℝ)
    (h_Gamma : q.Gamma = p.Gamma) (h_b : q.b = p.b) (h_geometry : q.geometry = 1) (h_rho0 : q.rho0 = p.rho0) (h_v : q.v = p.v) :
    PlanarCog3.outcome p r t = Cog3.outcome q r t ∧
    PlanarCog3.position p r t = Cog3.position q r t ∧
    PlanarCog3.density p r t = Cog3.density q r t ∧
    PlanarCog3.velocity p r t = Cog3.velocity q r t ∧
    PlanarCog3.temperature p r t = Cog3.temperature q r t ∧
    PlanarCog3.pressure p r t = Cog3.pressure q r t ∧
    PlanarCog3.specific_internal_energy p r t = Cog3.specific_internal_energy q r t := by
  wrapper_eq

example (p : PlanarCog3.P) : ∃ q : Cog3.P, q.Gamma = p.Gamma ∧ q.b = p.b ∧ q.geometry = 1 ∧ q.rho0 = p.rho0 ∧ q.v = p.v :=
  ⟨{ Gamma := p.Gamma, a_rad := 0, alpha_ := 0, b := p.b, beta_ := 0, c_light := 0, geometry := 1, lam0_ := 0, rho0 := p.rho0, v := p.v }, rfl, rfl, rfl, rfl, rfl⟩

theorem cylindricalCog3_eq_general (p : CylindricalCog3.P) (q : Cog3.P) (r t : ℝ)
    (h_Gamma : q.Gamma = p.Gamma) (h_b : q.b = p.b) (h_geometry : q.geometry = 2) (h_rho0 : q.rho0 = p.rho0) (h_v : q.v = p.v) :
    CylindricalCog3.outcome p r t = Cog3.outcome q r t ∧
    CylindricalCog3.position p r t = Cog3.position q r t ∧
    CylindricalCog3.density p r t = Cog3.density q r t ∧
    CylindricalCog3.velocity p r t = Cog3.velocity q r t ∧
    CylindricalCog3.temperature p r t = Cog3.temperature q r t ∧
    CylindricalCog3.pressure p r t = Cog3.pressure q r t ∧
    CylindricalCog3.specific_internal_energy p r t = Cog3.specific_internal_energy q r t := by
  wrapper_eq

example (p : CylindricalCog3.P) : ∃ q : Cog3.P, q.Gamma = p.Gamma ∧ q.b = p.b ∧ q.geometry = 2 ∧ q.rho0 = p.rho0 ∧ q.v = p.v :=
  ⟨{ Gamma := p.Gamma, a_rad := 0, alpha_ := 0, b := p.b, beta_ := 0, c_light := 0, geometry := 2, lam0_ := 0, rho0 := p.rho0, v := p.v }, rfl, rfl, rfl, rfl, rfl⟩

theorem sphericalCog3_eq_general (p : SphericalCog3.P) (q : Cog3.P) (r t : ℝ)
    (h_Gamma : q.Gamma = p.Gamma) (h_b : q.b = p.b) (h_geometry : q.geometry = 3) (h_rho0 : q.rho0 = p.rho0) (h_v : q.v = p.v) :
    SphericalCog3.outcome p r t = Cog3.outcome q r t ∧
    SphericalCog3.position p r t = Cog3.position q r t ∧
    SphericalCog3.density p r t = Cog3.density q r t ∧
    SphericalCog3.velocity p r t = Cog3.velocity q r t ∧
    SphericalCog3.temperature p r t = Cog3.temperature q r t ∧
    SphericalCog3.pressure p r t = Cog3.pressure q r t ∧
    SphericalCog3.specific_internal_energy p r t = Cog3.specific_internal_energy q r t := by
  wrapper_eq

example (p : SphericalCog3.P) : ∃ q : Cog3.P, q.Gamma = p.Gamma ∧ q.b = p.b ∧ q.geometry = 3 ∧ q.rho0 = p.rho0 ∧ q.v = p.v :=
  ⟨{ Gamma := p.Gamma, a_rad := 0, alpha_ := 0, b := p.b, beta_ := 0, c_light := 0, geometry := 3, lam0_ := 0, rho0 := p.rho0, v := p.v }, rfl, rfl, rfl, rfl, rfl⟩

theorem planarCog4_eq_general (p : PlanarCog4.P) (q : Cog4.P) (r t : ℝ)
    (h_Gamma : q.Gamma = p.Gamma) (h_gamma : q.gamma = p.gamma) (h_geometry : q.geometry = 1) (h_rho0 : q.rho0 = p.rho0) (h_u0 : q.u0 = p.u0) :
    PlanarCog4.outcome p r t = Cog4.outcome q r t ∧
    PlanarCog4.position p r t = Cog4.position q r t ∧
    PlanarCog4.density p r t = Cog4.density q r t ∧
    PlanarCog4.velocity p r t = Cog4.velocity q r t ∧
    PlanarCog4.temperature p r t = Cog4.temperature q r t ∧
    PlanarCog4.pressure p r t = Cog4.pressure q r t ∧
    PlanarCog4.specific_internal_energy p r t = Cog4.specific_internal_energy q r t := by
  wrapper_eq

example (p : PlanarCog4.P) : ∃ q : Cog4.P, q.Gamma = p.Gamma ∧ q.gamma = p.gamma ∧ q.geometry = 1 ∧ q.rho0 = p.rho0 ∧ q.u0 = p.u0 :=
  ⟨{ Gamma := p.Gamma, a_rad := 0, alpha_ := 0, beta_ := 0, c_light := 0, gamma := p.gamma, geometry := 1, lam0_ := 0, rho0 := p.rho0, u0 := p.u0 }, rfl, rfl, rfl, rfl, rfl⟩

theorem cylindricalCog4_eq_general (p : CylindricalCog4.P) (q : Cog4.P) (r t : ℝ)
    (h_Gamma : q.Gamma = p.Gamma) (h_gamma : q.gamma = p.gamma) (h_geometry : q.geometry = 2) (h_rho0 : q.rho0 = p.rho0) (h_u0 : q.u0 = p.u0) :
    CylindricalCog4.outcome p r t = Cog4.outcome q r t ∧
    CylindricalCog4.position p r t = Cog4.position q r t ∧
    CylindricalCog4.density p r t = Cog4.density q r t ∧
    CylindricalCog4.velocity p r t = Cog4.velocity q r t ∧
    CylindricalCog4.temperature p r t = Cog4.temperature q r t ∧
    CylindricalCog4.pressure p r t = Cog4.pressure q r t ∧
    CylindricalCog4.specific_internal_energy p r t = Cog4.specific_internal_energy q r t := by
  wrapper_eq

example (p : CylindricalCog4.P) : ∃ q : Cog4.P, q.Gamma = p.Gamma ∧ q.gamma = p.gamma ∧ q.geometry = 2 ∧ q.rho0 = p.rho0 ∧ q.u0 = p.u0 :=
  ⟨{ Gamma := p.Gamma, a_rad := 0, alpha_ := 0, beta_ := 0, c_light := 0, gamma := p.gamma, geometry := 2, lam0_ := 0, rho0 := p.rho0, u0 := p.u0 }, rfl, rfl, rfl, rfl, rfl⟩

theorem sphericalCog4_eq_general (p : SphericalCog4.P) (q : Cog4.P) (r t : ℝ)
    (h_Gamma : q.Gamma = p.Gamma) (h_gamma : q.gamma = p.gamma) (h_geometry : q.geometry = 3) (h_rho0 : q.rho0 = p.rho0) (h_u0 : q.u0 = p.u0) :
    SphericalCog4.outcome p r t = Cog4.outcome q r t ∧
    SphericalCog4.position p r t = Cog4.position q r t ∧
    SphericalCog4.density p r t = Cog4.density q r t ∧
    SphericalCog4.velocity p r t = Cog4.velocity q r t ∧
    SphericalCog4.temperature p r t = Cog4.temperature q r t ∧
    SphericalCog4.pressure p r t = Cog4.pressure q r t ∧
    SphericalCog4.specific_internal_energy p r t = Cog4.specific_internal_energy q r t := by
  wrapper_eq

example (p : SphericalCog4.P) : ∃ q : Cog4.P, q.Gamma = p.Gamma ∧ q.gamma = p.gamma ∧ q.geometry = 3 ∧ q.rho0 = p.rho0 ∧ q.u0 = p.u0 :=
  ⟨{ Gamma := p.Gamma, a_rad := 0, alpha_ := 0, beta_ := 0, c_light := 0, gamma := p.gamma, geometry := 3, lam0_ := 0, rho0 := p.rho0, u0 := p.u0 }, rfl, rfl, rfl, rfl, rfl⟩

theorem planarCog6_eq_general (p : PlanarCog6.P) (q : Cog6.P) (r t : ℝ)
    (h_Gamma : q.Gamma = p.Gamma) (h_b : q.b = p.b) (h_geometry : q.geometry = 1) (h_rho0 : q.rho0 = p.rho0) (h_tau : q.tau = p.tau) :
    PlanarCog6.outcome p r t = Cog6.outcome q r t ∧
    PlanarCog6.position p r t = Cog6.position q r t ∧
    PlanarCog6.density p r t = Cog6.density q r t ∧
    PlanarCog6.velocity p r t = Cog6.velocity q r t ∧
    PlanarCog6.temperature p r t = Cog6.temperature q r t ∧
    PlanarCog6.pressure p r t = Cog6.pressure q r t ∧
    PlanarCog6.specific_internal_energy p r t = Cog6.specific_internal_energy q r t := by
  wrapper_eq

example (p : PlanarCog6.P) : ∃ q : Cog6.P, q.Gamma = p.Gamma ∧ q.b = p.b ∧ q.geometry = 1 ∧ q.rho0 = p.rho0 ∧ q.tau = p.tau :=
  ⟨{ Gamma := p.Gamma, a_rad := 0, alpha_ := 0, b := p.b, beta_ := 0, c_light := 0, geometry := 1, lam0_ := 0, rho0 := p.rho0, tau := p.tau }, rfl, rfl, rfl, rfl, rfl⟩

theorem cylindricalCog6_eq_general (p : CylindricalCog6.P) (q : Cog6.P) (r t : ℝ)
    (h_Gamma : q.Gamma = p.Gamma) (h_b : q.b = p.b) (h_geometry : q.geometry = 2) (h_rho0 : q.rho0 = p.rho0) (h_tau : q.tau = p.tau) :
    CylindricalCog6.outcome p r t = Cog6.outcome q r t ∧
    CylindricalCog6.position p r t = Cog6.position q r t ∧
    CylindricalCog6.density p r t = Cog6.density q r t ∧
    CylindricalCog6.velocity p r t = Cog6.velocity q r t ∧
    CylindricalCog6.temperature p r t = Cog6.temperature q r t ∧
    CylindricalCog6.pressure p r t = Cog6.pressure q r t ∧
    CylindricalCog6.specific_internal_energy p r t = Cog6.specific_internal_energy q r t := by
  wrapper_eq

example (p : CylindricalCog6.P) : ∃ q : Cog6.P, q.Gamma = p.Gamma ∧ q.b = p.b ∧ q.geometry = 2 ∧ q.rho0 = p.rho0 ∧ q.tau = p.tau :=
  ⟨{ Gamma := p.Gamma, a_rad := 0, alpha_ := 0, b := p.b, beta_ := 0, c_light := 0, geometry := 2, lam0_ := 0, rho0 := p.rho0, tau := p.tau }, rfl, rfl, rfl, rfl, rfl⟩

theorem sphericalCog6_eq_general (p : SphericalCog6.P) (q : Cog6.P) (r t : ℝ)
    (h_Gamma : q.Gamma = p.Gamma) (h_b : q.b = p.b) (h_geometry : q.geometry = 3) (h_rho0 : q.rho0 = p.rho0) (h_tau : q.tau = p.tau) :
    SphericalCog6.outcome p r t = Cog6.outcome q r t ∧
    SphericalCog6.position p r t = Cog6.position q r t ∧
    SphericalCog6.density p r t = Cog6.density q r t ∧
    SphericalCog6.velocity p r t = Cog6.velocity q r t ∧
    SphericalCog6.temperature p r t = Cog6.temperature q r t ∧
    SphericalCog6.pressure p r t = Cog6.pressure q r t ∧
    SphericalCog6.specific_internal_energy p r t = Cog6.specific_internal_energy q r t := by
  wrapper_eq

example (p : SphericalCog6.P) : ∃ q : Cog6.P, q.Gamma = p.Gamma ∧ q.b = p.b ∧ q.geometry = 3 ∧ q.rho0 = p.rho0 ∧ q.tau = p.tau :=
  ⟨{ Gamma := p.Gamma, a_rad := 0, alpha_ := 0, b := p.b, beta_ := 0, c_light := 0, geometry := 3, lam0_ := 0, rho0 := p.rho0, tau := p.tau }, rfl, rfl, rfl, rfl, rfl⟩

theorem planarCog7_eq_general (p : PlanarCog7.P) (q : Cog7.P) (r t : ℝ)
    (h_Gamma : q.Gamma = p.Gamma) (h_R0 : q.R0 = p.R0) (h_Ri : q.Ri = p.Ri) (h_b : q.b = p.b) (h_geometry : q.geometry = 1) (h_tau : q.tau = p.tau) :
    PlanarCog7.outcome p r t = Cog7.outcome q r t ∧
    PlanarCog7.position p r t = Cog7.position q r t ∧
    PlanarCog7.density p r t = Cog7.density q r t ∧
    PlanarCog7.velocity p r t = Cog7.velocity q r t ∧
    PlanarCog7.temperature p r t = Cog7.temperature q r t ∧
    PlanarCog7.pressure p r t = Cog7.pressure q r t ∧
    PlanarCog7.specific_internal_energy p r t = Cog7.specific_internal_energy q r t := by
  have hc0 : Cog7.c0 q r t ↔ PlanarCog7.c0 p r t := by wrapper_cond
  wrapper_eq

example (p : PlanarCog7.P) : ∃ q : Cog7.P, q.Gamma = p.Gamma ∧ q.R0 = p.R0 ∧ q.Ri = p.Ri ∧ q.b = p.b ∧ q.geometry = 1 ∧ q.tau = p.tau :=
  ⟨{ Gamma := p.Gamma, R0 := p.R0, Ri := p.Ri, a_rad := 0, alpha_ := 0, b := p.b, beta_ := 0, c_light := 0, geometry := 1, lam0_ := 0, tau := p.tau }, rfl, rfl, rfl, rfl, rfl, rfl⟩

theorem cylindricalCog7_eq_general (p : CylindricalCog7.P) (q : Cog7.P) (r t : ℝ)
    (h_Gamma : q.Gamma = p.Gamma) (h_R0 : q.R0 = p.R0) (h_Ri : q.Ri = p.Ri) (h_b : q.b = p.b) (h_geometry : q.geometry = 2) (h_tau : q.tau = p.tau) :
    CylindricalCog7.outcome p r t = Cog7.outcome q r t ∧
    CylindricalCog7.position p r t = Cog7.position q r t ∧
    CylindricalCog7.density p r t = Cog7.density q r t ∧
    CylindricalCog7.velocity p r t = Cog7.velocity q r t ∧
    CylindricalCog7.temperature p r t = Cog7.temperature q r t ∧
    CylindricalCog7.pressure p r t = Cog7.pressure q r t ∧
    CylindricalCog7.specific_internal_energy p r t = Cog7.specific_internal_energy q r t := by
  have hc0 : Cog7.c0 q r t ↔ CylindricalCog7.c0 p r t := by wrapper_cond
  wrapper_eq

example (p : CylindricalCog7.P) : ∃ q : Cog7.P, q.Gamma = p.Gamma ∧ q.R0 = p.R0 ∧ q.Ri = p.Ri ∧ q.b = p.b ∧ q.geometry = 2 ∧ q.tau = p.tau :=
  ⟨{ Gamma := p.Gamma, R0 := p.R0, Ri := p.Ri, a_rad := 0, alpha_ := 0, b := p.b, beta_ := 0, c_light := 0, geometry := 2, lam0_ := 0, tau := p.tau }, rfl, rfl, rfl, rfl, rfl, rfl⟩

theorem sphericalCog7_eq_general (p : SphericalCog7.P) (q : Cog7.P) (r t : ℝ)
    (h_Gamma : q.Gamma = p.Gamma) (h_R0 : q.R0 = p.R0) (h_Ri : q.Ri = p.Ri) (h_b : q.b = p.b) (h_geometry : q.geometry = 3) (h_tau : q.tau = p.tau) :
    SphericalCog7.outcome p r t = Cog7.outcome q r t ∧
    SphericalCog7.position p r t = Cog7.position q r t ∧
    SphericalCog7.density p r t = Cog7.density q r t ∧
    SphericalCog7.velocity p r t = Cog7.velocity q r t ∧
    SphericalCog7.temperature p r t = Cog7.temperature q r t ∧
    SphericalCog7.pressure p r t = Cog7.pressure q r t ∧
    SphericalCog7.specific_internal_energy p r t = Cog7.specific_internal_energy q r t := by
  have hc0 : Cog7.c0 q r t ↔ SphericalCog7.c0 p r t := by wrapper_cond
  wrapper_eq

example (p : SphericalCog7.P) : ∃ q : Cog7.P, q.Gamma = p.Gamma ∧ q.R0 = p.R0 ∧ q.Ri = p.Ri ∧ q.b = p.b ∧ q.geometry = 3 ∧ q.tau = p.tau :=
  ⟨{ Gamma := p.Gamma, R0 := p.R0, Ri := p.Ri, a_rad := 0, alpha_ := 0, b := p.b, beta_ := 0, c_light := 0, geometry := 3, lam0_ := 0, tau := p.tau }, rfl, rfl, rfl, rfl, rfl, rfl⟩

theorem planarCog8_eq_general (p : PlanarCog8.P) (q : Cog8.P) (r t : ℝ)
    (h_Gamma : q.Gamma = p.Gamma) (h_alpha : q.alpha = p.alpha) (h_beta : q.beta = p.beta) (h_gamma : q.gamma = p.gamma) (h_geometry : q.geometry = 1) (h_rho0 : q.rho0 = p.rho0) (h_temp0 : q.temp0 = p.temp0) :
    PlanarCog8.outcome p r t = Cog8.outcome q r t ∧
    PlanarCog8.position p r t = Cog8.position q r t ∧
    PlanarCog8.density p r t = Cog8.density q r t ∧
    PlanarCog8.velocity p r t = Cog8.velocity q r t ∧
    PlanarCog8.temperature p r t = Cog8.temperature q r t ∧
    PlanarCog8.pressure p r t = Cog8.pressure q r t ∧
    PlanarCog8.specific_internal_energy p r t = Cog8.specific_internal_energy q r t := by
  have hc0 : Cog8.c0 q r t ↔ PlanarCog8.c0 p r t := by wrapper_cond
  wrapper_eq

example (p : PlanarCog8.P) : ∃ q : Cog8.P, q.Gamma = p.Gamma ∧ q.alpha = p.alpha ∧ q.beta = p.beta ∧ q.gamma = p.gamma ∧ q.geometry = 1 ∧ q.rho0 = p.rho0 ∧ q.temp0 = p.temp0 :=
  ⟨{ Gamma := p.Gamma, a_rad := 0, alpha := p.alpha, alpha_ := 0, beta := p.beta, beta_ := 0, c_light := 0, gamma := p.gamma, geometry := 1, lam0_ := 0, rho0 := p.rho0, temp0 := p.temp0 }, rfl, rfl, rfl, rfl, rfl, rfl, rfl⟩

theorem cylindricalCog8_eq_general (p : CylindricalCog8.P) (q : Cog8.P) (r t : ℝ)
    (h_Gamma : q.Gamma = p.Gamma) (h_alpha : q.alpha = p.alpha) (h_beta : q.beta = p.beta) (h_gamma : q.gamma = p.gamma) (h_geometry : q.geometry = 2) (h_rho0 : q.rho0 = p.rho0) (h_temp0 : q.temp0 = p.temp0) :
    CylindricalCog8.outcome p r t = Cog8.outcome q r t ∧
    CylindricalCog8.position p r t = Cog8.position q r t ∧
    CylindricalCog8.density p r t = Cog8.density q r t ∧
    CylindricalCog8.velocity p r t = Cog8.velocity q r t ∧
    CylindricalCog8.temperature p r t = Cog8.temperature q r t ∧
    CylindricalCog8.pressure p r t = Cog8.pressure q r t ∧
    CylindricalCog8.specific_internal_energy p r t = Cog8.specific_internal_energy q r t := by
  have hc0 : Cog8.c0 q r t ↔ CylindricalCog8.c0 p r t := by wrapper_cond
  wrapper_eq

example (p : CylindricalCog8.P) : ∃ q : Cog8.P, q.Gamma = p.Gamma ∧ q.alpha = p.alpha ∧ q.beta = p.beta ∧ q.gamma = p.gamma ∧ q.geometry = 2 ∧ q.rho0 = p.rho0 ∧ q.temp0 = p.temp0 :=
  ⟨{ Gamma := p.Gamma, a_rad := 0, alpha := p.alpha, alpha_ := 0, beta := p.beta, beta_ := 0, c_light := 0, gamma := p.gamma, geometry := 2, lam0_ := 0, rho0 := p.rho0, temp0 := p.temp0 }, rfl, rfl, rfl, rfl, rfl, rfl, rfl⟩

theorem sphericalCog8_eq_general (p : SphericalCog8.P) (q : Cog8.P) (r t : ℝ)
    (h_Gamma : q.Gamma = p.Gamma) (h_alpha : q.alpha = p.alpha) (h_beta : q.beta = p.beta) (h_gamma : q.gamma = p.gamma) (h_geometry : q.geometry = 3) (h_rho0 : q.rho0 = p.rho0) (h_temp0 : q.temp0 = p.temp0) :
    SphericalCog8.outcome p r t = Cog8.outcome q r t ∧
    SphericalCog8.position p r t = Cog8.position q r t ∧
    SphericalCog8.density p r t = Cog8.density q r t ∧
    SphericalCog8.velocity p r t = Cog8.velocity q r t ∧
    SphericalCog8.temperature p r t = Cog8.temperature q r t ∧
    SphericalCog8.pressure p r t = Cog8.pressure q r t ∧
    SphericalCog8.specific_internal_energy p r t = Cog8.specific_internal_energy q r t := by
  have hc0 : Cog8.c0 q r t ↔ SphericalCog8.c0 p r t := by wrapper_cond
  wrapper_eq

example (p : SphericalCog8.P) : ∃ q : Cog8.P, q.Gamma = p.Gamma ∧ q.alpha = p.alpha ∧ q.beta = p.beta ∧ q.gamma = p.gamma ∧ q.geometry = 3 ∧ q.rho0 = p.rho0 ∧ q.temp0 = p.temp0 :=
  ⟨{ Gamma := p.Gamma, a_rad := 0, alpha := p.alpha, alpha_ := 0, beta := p.beta, beta_ := 0, c_light := 0, gamma := p.gamma, geometry := 3, lam0_ := 0, rho0 := p.rho0, temp0 := p.temp0 }, rfl, rfl, rfl, rfl, rfl, rfl, rfl⟩

theorem planarCog9_eq_general (p : PlanarCog9.P) (q : Cog9.P) (r t : ℝ)
    (h_Gamma : q.Gamma = p.Gamma) (h_alpha : q.alpha = p.alpha) (h_beta : q.beta = p.beta) (h_gamma : q.gamma = p.gamma) (h_geometry : q.geometry = 1) (h_rho0 : q.rho0 = p.rho0) :
    PlanarCog9.outcome p r t = Cog9.outcome q r t ∧
    PlanarCog9.position p r t = Cog9.position q r t ∧
    PlanarCog9.density p r t = Cog9.density q r t ∧
    PlanarCog9.velocity p r t = Cog9.velocity q r t ∧
    PlanarCog9.temperature p r t = Cog9.temperature q r t ∧
    PlanarCog9.pressure p r t = Cog9.pressure q r t ∧
    PlanarCog9.specific_internal_energy p r t = Cog9.specific_internal_energy q r t := by
  have hc0 : Cog9.c0 q r t ↔ PlanarCog9.c0 p r t := by wrapper_cond
  wrapper_eq

example (p : PlanarCog9.P) : ∃ q : Cog9.P, q.Gamma = p.Gamma ∧ q.alpha = p.alpha ∧ q.beta = p.beta ∧ q.gamma = p.gamma ∧ q.geometry = 1 ∧ q.rho0 = p.rho0 :=
  ⟨{ Gamma := p.Gamma, a_rad := 0, alpha := p.alpha, alpha_ := 0, beta := p.beta, beta_ := 0, c_light := 0, gamma := p.gamma, geometry := 1, lam0_ := 0, rho0 := p.rho0 }, rfl, rfl, rfl, rfl, rfl, rfl⟩

theorem cylindricalCog9_eq_general (p : CylindricalCog9.P) (q : Cog9.P) (r t : ℝ)
    (h_Gamma : q.Gamma = p.Gamma) (h_alpha : q.alpha = p.alpha) (h_beta : q.beta = p.beta) (h_gamma : q.gamma = p.gamma) (h_geometry : q.geometry = 2) (h_rho0 : q.rho0 = p.rho0) :
    CylindricalCog9.outcome p r t = Cog9.outcome q r t ∧
    CylindricalCog9.position p r t = Cog9.position q r t ∧
    CylindricalCog9.density p r t = Cog9.density q r t ∧
    CylindricalCog9.velocity p r t = Cog9.velocity q r t ∧
    CylindricalCog9.temperature p r t = Cog9.temperature q r t ∧
    CylindricalCog9.pressure p r t = Cog9.pressure q r t ∧
    CylindricalCog9.specific_internal_energy p r t = Cog9.specific_internal_energy q r t := by
  have hc0 : Cog9.c0 q r t ↔ CylindricalCog9.c0 p r t := by wrapper_cond
  wrapper_eq

example (p : CylindricalCog9.P) : ∃ q : Cog9.P, q.Gamma = p.Gamma ∧ q.alpha = p.alpha ∧ q.beta = p.beta ∧ q.gamma = p.gamma ∧ q.geometry = 2 ∧ q.rho0 = p.rho0 :=
  ⟨{ Gamma := p.Gamma, a_rad := 0, alpha := p.alpha, alpha_ := 0, beta := p.beta, beta_ := 0, c_light := 0, gamma := p.gamma, geometry := 2, lam0_ := 0, rho0 := p.rho0 }, rfl, rfl, rfl, rfl, rfl, rfl⟩

theorem sphericalCog9_eq_general (p : SphericalCog9.P) (q : Cog9.P) (r t : ℝ)
    (h_Gamma : q.Gamma = p.Gamma) (h_alpha : q.alpha = p.alpha) (h_beta : q.beta = p.beta) (h_gamma : q.gamma = p.gamma) (h_geometry : q.geometry = 3) (h_rho0 : q.rho0 = p.rho0) :
    SphericalCog9.outcome p r t = Cog9.outcome q r t ∧
    SphericalCog9.position p r t = Cog9.position q r t ∧
    SphericalCog9.density p r t = Cog9.density q r t ∧
    SphericalCog9.velocity p r t = Cog9.velocity q r t ∧
    SphericalCog9.temperature p r t = Cog9.temperature q r t ∧
    SphericalCog9.pressure p r t = Cog9.pressure q r t ∧
    SphericalCog9.specific_internal_energy p r t = Cog9.specific_internal_energy q r t := by
  have hc0 : Cog9.c0 q r t ↔ SphericalCog9.c0 p r t := by wrapper_cond
  wrapper_eq

example (p : SphericalCog9.P) : ∃ q : Cog9.P, q.Gamma = p.Gamma ∧ q.alpha = p.alpha ∧ q.beta = p.beta ∧ q.gamma = p.gamma ∧ q.geometry = 3 ∧ q.rho0 = p.rho0 :=
  ⟨{ Gamma := p.Gamma, a_rad := 0, alpha := p.alpha, alpha_ := 0, beta := p.beta, beta_ := 0, c_light := 0, gamma := p.gamma, geometry := 3, lam0_ := 0, rho0 := p.rho0 }, rfl, rfl, rfl, rfl, rfl, rfl⟩

theorem cylindricalCog10_eq_general (p : CylindricalCog10.P) (q : Cog10.P) (r t : ℝ)
    (h_Gamma : q.Gamma = p.Gamma) (h_beta : q.beta = p.beta) (h_gamma : q.gamma = p.gamma) (h_geometry : q.geometry = 2) (h_lambda0 : q.lambda0 = p.lambda0) (h_rho0 : q.rho0 = p.rho0) (h_temp0 : q.temp0 = p.temp0) :
    CylindricalCog10.outcome p r t = Cog10.outcome q r t ∧
    CylindricalCog10.position p r t = Cog10.position q r t ∧
    CylindricalCog10.density p r t = Cog10.density q r t ∧
    CylindricalCog10.velocity p r t = Cog10.velocity q r t ∧
    CylindricalCog10.temperature p r t = Cog10.temperature q r t ∧
    CylindricalCog10.pressure p r t = Cog10.pressure q r t ∧
    CylindricalCog10.specific_internal_energy p r t = Cog10.specific_internal_energy q r t := by
  have hc0 : Cog10.c0 q r t ↔ CylindricalCog10.c0 p r t := by wrapper_cond
  have hc1 : Cog10.c1 q r t ↔ CylindricalCog10.c1 p r t := by wrapper_cond
  wrapper_eq

example (p : CylindricalCog10.P) : ∃ q : Cog10.P, q.Gamma = p.Gamma ∧ q.beta = p.beta ∧ q.gamma = p.gamma ∧ q.geometry = 2 ∧ q.lambda0 = p.lambda0 ∧ q.rho0 = p.rho0 ∧ q.temp0 = p.temp0 :=
  ⟨{ Gamma := p.Gamma, a_rad := 0, alpha_ := 0, beta := p.beta, beta_ := 0, c_light := 0, gamma := p.gamma, geometry := 2, lam0_ := 0, lambda0 := p.lambda0, rho0 := p.rho0, temp0 := p.temp0 }, rfl, rfl, rfl, rfl, rfl, rfl, rfl⟩

theorem sphericalCog10_eq_general (p : SphericalCog10.P) (q : Cog10.P) (r t : ℝ)
    (h_Gamma : q.Gamma = p.Gamma) (h_beta : q.beta = p.beta) (h_gamma : q.gamma = p.gamma) (h_geometry : q.geometry = 3) (h_lambda0 : q.lambda0 = p.lambda0) (h_rho0 : q.rho0 = p.rho0) (h_temp0 : q.temp0 = p.temp0) :
    SphericalCog10.outcome p r t = Cog10.outcome q r t ∧
    SphericalCog10.position p r t = Cog10.position q r t ∧
    SphericalCog10.density p r t = Cog10.density q r t ∧
    SphericalCog10.velocity p r t = Cog10.velocity q r t ∧
    SphericalCog10.temperature p r t = Cog10.temperature q r t ∧
    SphericalCog10.pressure p r t = Cog10.pressure q r t ∧
    SphericalCog10.specific_internal_energy p r t = Cog10.specific_internal_energy q r t := by
  have hc0 : Cog10.c0 q r t ↔ SphericalCog10.c0 p r t := by wrapper_cond
  have hc1 : Cog10.c1 q r t ↔ SphericalCog10.c1 p r t := by wrapper_cond
  wrapper_eq

example (p : SphericalCog10.P) : ∃ q : Cog10.P, q.Gamma = p.Gamma ∧ q.beta = p.beta ∧ q.gamma = p.gamma ∧ q.geometry = 3 ∧ q.lambda0 = p.lambda0 ∧ q.rho0 = p.rho0 ∧ q.temp0 = p.temp0 :=
  ⟨{ Gamma := p.Gamma, a_rad := 0, alpha_ := 0, beta := p.beta, beta_ := 0, c_light := 0, gamma := p.gamma, geometry := 3, lam0_ := 0, lambda0 := p.lambda0, rho0 := p.rho0, temp0 := p.temp0 }, rfl, rfl, rfl, rfl, rfl, rfl, rfl⟩

theorem planarCog11_eq_general (p : PlanarCog11.P) (q : Cog11.P) (r t : ℝ)
    (h_Gamma : q.Gamma = p.Gamma) (h_beta : q.beta = p.beta) (h_gamma : q.gamma = p.gamma) (h_geometry : q.geometry = 1) (h_rho0 : q.rho0 = p.rho0) (h_temp0 : q.temp0 = p.temp0) :
    PlanarCog11.outcome p r t = Cog11.outcome q r t ∧
    PlanarCog11.position p r t = Cog11.position q r t ∧
    PlanarCog11.density p r t = Cog11.density q r t ∧
    PlanarCog11.velocity p r t = Cog11.velocity q r t ∧
    PlanarCog11.temperature p r t = Cog11.temperature q r t ∧
    PlanarCog11.pressure p r t = Cog11.pressure q r t ∧
    PlanarCog11.specific_internal_energy p r t = Cog11.specific_internal_energy q r t := by
  have hc0 : Cog11.c0 q r t ↔ PlanarCog11.c0 p r t := by wrapper_cond
  have hc1 : Cog11.c1 q r t ↔ PlanarCog11.c1 p r t := by wrapper_cond
  have hc2 : Cog11.c2 q r t ↔ PlanarCog11.c2 p r t := by wrapper_cond
  wrapper_eq

example (p : PlanarCog11.P) : ∃ q : Cog11.P, q.Gamma = p.Gamma ∧ q.beta = p.beta ∧ q.gamma = p.gamma ∧ q.geometry = 1 ∧ q.rho0 = p.rho0 ∧ q.temp0 = p.temp0 :=
  ⟨{ Gamma := p.Gamma, a_rad := 0, alpha_ := 0, beta := p.beta, beta_ := 0, c_light := 0, gamma := p.gamma, geometry := 1, lam0_ := 0, rho0 := p.rho0, temp0 := p.temp0 }, rfl, rfl, rfl, rfl, rfl, rfl⟩

theorem cylindricalCog11_eq_general (p : CylindricalCog11.P) (q : Cog11.P) (r t : ℝ)
    (h_Gamma : q.Gamma = p.Gamma) (h_beta : q.beta = p.beta) (h_gamma : q.gamma = p.gamma) (h_geometry : q.geometry = 2) (h_rho0 : q.rho0 = p.rho0) (h_temp0 : q.temp0 = p.temp0) :
    CylindricalCog11.outcome p r t = Cog11.outcome q r t ∧
    CylindricalCog11.position p r t = Cog11.position q r t ∧
    CylindricalCog11.density p r t = Cog11.density q r t ∧
    CylindricalCog11.velocity p r t = Cog11.velocity q r t ∧
    CylindricalCog11.temperature p r t = Cog11.temperature q r t ∧
    CylindricalCog11.pressure p r t = Cog11.pressure q r t ∧
    CylindricalCog11.specific_internal_energy p r t = Cog11.specific_internal_energy q r t := by
  have hc0 : Cog11.c0 q r t ↔ CylindricalCog11.c0 p r t := by wrapper_cond
  have hc1 : Cog11.c1 q r t ↔ CylindricalCog11.c1 p r t := by wrapper_cond
  have hc2 : Cog11.c2 q r t ↔ CylindricalCog11.c2 p r t := by wrapper_cond
  wrapper_eq

example (p : CylindricalCog11.P) : ∃ q : Cog11.P, q.Gamma = p.Gamma ∧ q.beta = p.beta ∧ q.gamma = p.gamma ∧ q.geometry = 2 ∧ q.rho0 = p.rho0 ∧ q.temp0 = p.temp0 :=
  ⟨{ Gamma := p.Gamma, a_rad := 0, alpha_ := 0, beta := p.beta, beta_ := 0, c_light := 0, gamma := p.gamma, geometry := 2, lam0_ := 0, rho0 := p.rho0, temp0 := p.temp0 }, rfl, rfl, rfl, rfl, rfl, rfl⟩

theorem sphericalCog11_eq_general (p : SphericalCog11.P) (q : Cog11.P) (r t : ℝ)
    (h_Gamma : q.Gamma = p.Gamma) (h_beta : q.beta = p.beta) (h_gamma : q.gamma = p.gamma) (h_geometry : q.geometry = 3) (h_rho0 : q.rho0 = p.rho0) (h_temp0 : q.temp0 = p.temp0) :
    SphericalCog11.outcome p r t = Cog11.outcome q r t ∧
    SphericalCog11.position p r t = Cog11.position q r t ∧
    SphericalCog11.density p r t = Cog11.density q r t ∧
    SphericalCog11.velocity p r t = Cog11.velocity q r t ∧
    SphericalCog11.temperature p r t = Cog11.temperature q r t ∧
    SphericalCog11.pressure p r t = Cog11.pressure q r t ∧
    SphericalCog11.specific_internal_energy p r t = Cog11.specific_internal_energy q r t := by
  have hc0 : Cog11.c0 q r t ↔ SphericalCog11.c0 p r t := by wrapper_cond
  have hc1 : Cog11.c1 q r t ↔ SphericalCog11.c1 p r t := by wrapper_cond
  have hc2 : Cog11.c2 q r t ↔ SphericalCog11.c2 p r t := by wrapper_cond
  wrapper_eq

example (p : SphericalCog11.P) : ∃ q : Cog11.P, q.Gamma = p.Gamma ∧ q.beta = p.beta ∧ q.gamma = p.gamma ∧ q.geometry = 3 ∧ q.rho0 = p.rho0 ∧ q.temp0 = p.temp0 :=
  ⟨{ Gamma := p.Gamma, a_rad := 0, alpha_ := 0, beta := p.beta, beta_ := 0, c_light := 0, gamma := p.gamma, geometry := 3, lam0_ := 0, rho0 := p.rho0, temp0 := p.temp0 }, rfl, rfl, rfl, rfl, rfl, rfl⟩

theorem planarCog12_eq_general (p : PlanarCog12.P) (q : Cog12.P) (r t : ℝ)
    (h_Gamma : q.Gamma = p.Gamma) (h_beta : q.beta = p.beta) (h_gamma : q.gamma = p.gamma) (h_geometry : q.geometry = 1) (h_rho0 : q.rho0 = p.rho0) (h_u0 : q.u0 = p.u0) :
    PlanarCog12.outcome p r t = Cog12.outcome q r t ∧
    PlanarCog12.position p r t = Cog12.position q r t ∧
    PlanarCog12.density p r t = Cog12.density q r t ∧
    PlanarCog12.velocity p r t = Cog12.velocity q r t ∧
    PlanarCog12.temperature p r t = Cog12.temperature q r t ∧
    PlanarCog12.pressure p r t = Cog12.pressure q r t ∧
    PlanarCog12.specific_internal_energy p r t = Cog12.specific_internal_energy q r t := by
  have hc0 : Cog12.c0 q r t ↔ PlanarCog12.c0 p r t := by wrapper_cond
  have hc1 : Cog12.c1 q r t ↔ PlanarCog12.c1 p r t := by wrapper_cond
  wrapper_eq

example (p : PlanarCog12.P) : ∃ q : Cog12.P, q.Gamma = p.Gamma ∧ q.beta = p.beta ∧ q.gamma = p.gamma ∧ q.geometry = 1 ∧ q.rho0 = p.rho0 ∧ q.u0 = p.u0 :=
  ⟨{ Gamma := p.Gamma, a_rad := 0, alpha_ := 0, beta := p.beta, beta_ := 0, c_light := 0, gamma := p.gamma, geometry := 1, lam0_ := 0, rho0 := p.rho0, u0 := p.u0 }, rfl, rfl, rfl, rfl, rfl, rfl⟩

theorem cylindricalCog12_eq_general (p : CylindricalCog12.P) (q : Cog12.P) (r t : ℝ)
    (h_Gamma : q.Gamma = p.Gamma) (h_beta : q.beta = p.beta) (h_gamma : q.gamma = p.gamma) (h_geometry : q.geometry = 2) (h_rho0 : q.rho0 = p.rho0) (h_u0 : q.u0 = p.u0) :
    CylindricalCog12.outcome p r t = Cog12.outcome q r t ∧
    CylindricalCog12.position p r t = Cog12.position q r t ∧
    CylindricalCog12.density p r t = Cog12.density q r t ∧
    CylindricalCog12.velocity p r t = Cog12.velocity q r t ∧
    CylindricalCog12.temperature p r t = Cog12.temperature q r t ∧
    CylindricalCog12.pressure p r t = Cog12.pressure q r t ∧
    CylindricalCog12.specific_internal_energy p r t = Cog12.specific_internal_energy q r t := by
  have hc0 : Cog12.c0 q r t ↔ CylindricalCog12.c0 p r t := by wrapper_cond
  have hc1 : Cog12.c1 q r t ↔ CylindricalCog12.c1 p r t := by wrapper_cond
  wrapper_eq

example (p : CylindricalCog12.P) : ∃ q : Cog12.P, q.Gamma = p.Gamma ∧ q.beta = p.beta ∧ q.gamma = p.gamma ∧ q.geometry = 2 ∧ q.rho0 = p.rho0 ∧ q.u0 = p.u0 :=
  ⟨{ Gamma := p.Gamma, a_rad := 0, alpha_ := 0, beta := p.beta, beta_ := 0, c_light := 0, gamma := p.gamma, geometry := 2, lam0_ := 0, rho0 := p.rho0, u0 := p.u0 }, rfl, rfl, rfl, rfl, rfl, rfl⟩

theorem sphericalCog12_eq_general (p : SphericalCog12.P) (q : Cog12.P) (r t : ℝ)
    (h_Gamma : q.Gamma = p.Gamma) (h_beta : q.beta = p.beta) (h_gamma : q.gamma = p.gamma) (h_geometry : q.geometry = 3) (h_rho0 : q.rho0 = p.rho0) (h_u0 : q.u0 = p.u0) :
    SphericalCog12.outcome p r t = Cog12.outcome q r t ∧
    SphericalCog12.position p r t = Cog12.position q r t ∧
    SphericalCog12.density p r t = Cog12.density q r t ∧
    SphericalCog12.velocity p r t = Cog12.velocity q r t ∧
    SphericalCog12.temperature p r t = Cog12.temperature q r t ∧
    SphericalCog12.pressure p r t = Cog12.pressure q r t ∧
    SphericalCog12.specific_internal_energy p r t = Cog12.specific_internal_energy q r t := by
  have hc0 : Cog12.c0 q r t ↔ SphericalCog12.c0 p r t := by wrapper_cond
  have hc1 : Cog12.c1 q r t ↔ SphericalCog12.c1 p r t := by wrapper_cond
  wrapper_eq

example (p : SphericalCog12.P) : ∃ q : Cog12.P, q.Gamma = p.Gamma ∧ q.beta = p.beta ∧ q.gamma = p.gamma ∧ q.geometry = 3 ∧ q.rho0 = p.rho0 ∧ q.u0 = p.u0 :=
  ⟨{ Gamma := p.Gamma, a_rad := 0, alpha_ := 0, beta := p.beta, beta_ := 0, c_light := 0, gamma := p.gamma, geometry := 3, lam0_ := 0, rho0 := p.rho0, u0 := p.u0 }, rfl, rfl, rfl, rfl, rfl, rfl⟩

theorem planarCog13_eq_general (p : PlanarCog13.P) (q : Cog13.P) (r t : ℝ)
    (h_Gamma : q.Gamma = p.Gamma) (h_alpha : q.alpha = p.alpha) (h_beta : q.beta = p.beta) (h_gamma : q.gamma = p.gamma) (h_geometry : q.geometry = 1) (h_lambda0 : q.lambda0 = p.lambda0) (h_rho0 : q.rho0 = p.rho0) :
    PlanarCog13.outcome p r t = Cog13.outcome q r t ∧
    PlanarCog13.position p r t = Cog13.position q r t ∧
    PlanarCog13.density p r t = Cog13.density q r t ∧
    PlanarCog13.velocity p r t = Cog13.velocity q r t ∧
    PlanarCog13.temperature p r t = Cog13.temperature q r t ∧
    PlanarCog13.pressure p r t = Cog13.pressure q r t ∧
    PlanarCog13.specific_internal_energy p r t = Cog13.specific_internal_energy q r t := by
  have hc0 : Cog13.c0 q r t ↔ PlanarCog13.c0 p r t := by wrapper_cond
  wrapper_eq

example (p : PlanarCog13.P) : ∃ q : Cog13.P, q.Gamma = p.Gamma ∧ q.alpha = p.alpha ∧ q.beta = p.beta ∧ q.gamma = p.gamma ∧ q.geometry = 1 ∧ q.lambda0 = p.lambda0 ∧ q.rho0 = p.rho0 :=
  ⟨{ Gamma := p.Gamma, a_rad := 0, alpha := p.alpha, alpha_ := 0, beta := p.beta, beta_ := 0, c_light := 0, gamma := p.gamma, geometry := 1, lam0_ := 0, lambda0 := p.lambda0, rho0 := p.rho0 }, rfl, rfl, rfl, rfl, rfl, rfl, rfl⟩

theorem cylindricalCog13_eq_general (p : CylindricalCog13.P) (q : Cog13.P) (r t : ℝ)
    (h_Gamma : q.Gamma = p.Gamma) (h_alpha : q.alpha = p.alpha) (h_beta : q.beta = p.beta) (h_gamma : q.gamma = p.gamma) (h_geometry : q.geometry = 2) (h_lambda0 : q.lambda0 = p.lambda0) (h_rho0 : q.rho0 = p.rho0) :
    CylindricalCog13.outcome p r t = Cog13.outcome q r t ∧
    CylindricalCog13.position p r t = Cog13.position q r t ∧
    CylindricalCog13.density p r t = Cog13.density q r t ∧
    CylindricalCog13.velocity p r t = Cog13.velocity q r t ∧
    CylindricalCog13.temperature p r t = Cog13.temperature q r t ∧
    CylindricalCog13.pressure p r t = Cog13.pressure q r t ∧
    CylindricalCog13.specific_internal_energy p r t = Cog13.specific_internal_energy q r t := by
  have hc0 : Cog13.c0 q r t ↔ CylindricalCog13.c0 p r t := by wrapper_cond
  wrapper_eq

example (p : CylindricalCog13.P) : ∃ q : Cog13.P, q.Gamma = p.Gamma ∧ q.alpha = p.alpha ∧ q.beta = p.beta ∧ q.gamma = p.gamma ∧ q.geometry = 2 ∧ q.lambda0 = p.lambda0 ∧ q.rho0 = p.rho0 :=
  ⟨{ Gamma := p.Gamma, a_rad := 0, alpha := p.alpha, alpha_ := 0, beta := p.beta, beta_ := 0, c_light := 0, gamma := p.gamma, geometry := 2, lam0_ := 0, lambda0 := p.lambda0, rho0 := p.rho0 }, rfl, rfl, rfl, rfl, rfl, rfl, rfl⟩

theorem sphericalCog13_eq_general (p : SphericalCog13.P) (q : Cog13.P) (r t : ℝ)
    (h_Gamma : q.Gamma = p.Gamma) (h_alpha : q.alpha = p.alpha) (h_beta : q.beta = p.beta) (h_gamma : q.gamma = p.gamma) (h_geometry : q.geometry = 3) (h_lambda0 : q.lambda0 = p.lambda0) (h_rho0 : q.rho0 = p.rho0) :
    SphericalCog13.outcome p r t = Cog13.outcome q r t ∧
    SphericalCog13.position p r t = Cog13.position q r t ∧
    SphericalCog13.density p r t = Cog13.density q r t ∧
    SphericalCog13.velocity p r t = Cog13.velocity q r t ∧
    SphericalCog13.temperature p r t = Cog13.temperature q r t ∧
    SphericalCog13.pressure p r t = Cog13.pressure q r t ∧
    SphericalCog13.specific_internal_energy p r t = Cog13.specific_internal_energy q r t := by
  have hc0 : Cog13.c0 q r t ↔ SphericalCog13.c0 p r t := by wrapper_cond
  wrapper_eq

example (p : SphericalCog13.P) : ∃ q : Cog13.P, q.Gamma = p.Gamma ∧ q.alpha = p.alpha ∧ q.beta = p.beta ∧ q.gamma = p.gamma ∧ q.geometry = 3 ∧ q.lambda0 = p.lambda0 ∧ q.rho0 = p.rho0 :=
  ⟨{ Gamma := p.Gamma, a_rad := 0, alpha := p.alpha, alpha_ := 0, beta := p.beta, beta_ := 0, c_light := 0, gamma := p.gamma, geometry := 3, lam0_ := 0, lambda0 := p.lambda0, rho0 := p.rho0 }, rfl, rfl, rfl, rfl, rfl, rfl, rfl⟩

theorem planarCog14_eq_general (p : PlanarCog14.P) (q : Cog14.P) (r t : ℝ)
    (h_Gamma : q.Gamma = p.Gamma) (h_alpha : q.alpha = p.alpha) (h_beta : q.beta = p.beta) (h_gamma : q.gamma = p.gamma) (h_geometry : q.geometry = 1) (h_lambda0 : q.lambda0 = p.lambda0) (h_rho0 : q.rho0 = p.rho0) :
    PlanarCog14.outcome p r t = Cog14.outcome q r t ∧
    PlanarCog14.position p r t = Cog14.position q r t ∧
    PlanarCog14.density p r t = Cog14.density q r t ∧
    PlanarCog14.velocity p r t = Cog14.velocity q r t ∧
    PlanarCog14.temperature p r t = Cog14.temperature q r t ∧
    PlanarCog14.pressure p r t = Cog14.pressure q r t ∧
    PlanarCog14.specific_internal_energy p r t = Cog14.specific_internal_energy q r t := by
  wrapper_eq

example (p : PlanarCog14.P) : ∃ q : Cog14.P, q.Gamma = p.Gamma ∧ q.alpha = p.alpha ∧ q.beta = p.beta ∧ q.gamma = p.gamma ∧ q.geometry = 1 ∧ q.lambda0 = p.lambda0 ∧ q.rho0 = p.rho0 :=
  ⟨{ Gamma := p.Gamma, a_rad := 0, alpha := p.alpha, alpha_ := 0, beta := p.beta, beta_ := 0, c_light := 0, gamma := p.gamma, geometry := 1, lam0_ := 0, lambda0 := p.lambda0, rho0 := p.rho0 }, rfl, rfl, rfl, rfl, rfl, rfl, rfl⟩

theorem cylindricalCog14_eq_general (p : CylindricalCog14.P) (q : Cog14.P) (r t : ℝ)
    (h_Gamma : q.Gamma = p.Gamma) (h_alpha : q.alpha = p.alpha) (h_beta : q.beta = p.beta) (h_gamma : q.gamma = p.gamma) (h_geometry : q.geometry = 2) (h_lambda0 : q.lambda0 = p.lambda0) (h_rho0 : q.rho0 = p.rho0) :
    CylindricalCog14.outcome p r t = Cog14.outcome q r t ∧
    CylindricalCog14.position p r t = Cog14.position q r t ∧
    CylindricalCog14.density p r t = Cog14.density q r t ∧
    CylindricalCog14.velocity p r t = Cog14.velocity q r t ∧
    CylindricalCog14.temperature p r t = Cog14.temperature q r t ∧
    CylindricalCog14.pressure p r t = Cog14.pressure q r t ∧
    CylindricalCog14.specific_internal_energy p r t = Cog14.specific_internal_energy q r t := by
  wrapper_eq

example (p : CylindricalCog14.P) : ∃ q : Cog14.P, q.Gamma = p.Gamma ∧ q.alpha = p.alpha ∧ q.beta = p.beta ∧ q.gamma = p.gamma ∧ q.geometry = 2 ∧ q.lambda0 = p.lambda0 ∧ q.rho0 = p.rho0 :=
  ⟨{ Gamma := p.Gamma, a_rad := 0, alpha := p.alpha, alpha_ := 0, beta := p.beta, beta_ := 0, c_light := 0, gamma := p.gamma, geometry := 2, lam0_ := 0, lambda0 := p.lambda0, rho0 := p.rho0 }, rfl, rfl, rfl, rfl, rfl, rfl, rfl⟩

theorem sphericalCog14_eq_general (p : SphericalCog14.P) (q : Cog14.P) (r t : ℝ)
    (h_Gamma : q.Gamma = p.Gamma) (h_alpha : q.alpha = p.alpha) (h_beta : q.beta = p.beta) (h_gamma : q.gamma = p.gamma) (h_geometry : q.geometry = 3) (h_lambda0 : q.lambda0 = p.lambda0) (h_rho0 : q.rho0 = p.rho0) :
    SphericalCog14.outcome p r t = Cog14.outcome q r t ∧
    SphericalCog14.position p r t = Cog14.position q r t ∧
    SphericalCog14.density p r t = Cog14.density q r t ∧
    SphericalCog14.velocity p r t = Cog14.velocity q r t ∧
    SphericalCog14.temperature p r t = Cog14.temperature q r t ∧
    SphericalCog14.pressure p r t = Cog14.pressure q r t ∧
    SphericalCog14.specific_internal_energy p r t = Cog14.specific_internal_energy q r t := by
  wrapper_eq

example (p : SphericalCog14.P) : ∃ q : Cog14.P, q.Gamma = p.Gamma ∧ q.alpha = p.alpha ∧ q.beta = p.beta ∧ q.gamma = p.gamma ∧ q.geometry = 3 ∧ q.lambda0 = p.lambda0 ∧ q.rho0 = p.rho0 :=
  ⟨{ Gamma := p.Gamma, a_rad := 0, alpha := p.alpha, alpha_ := 0, beta := p.beta, beta_ := 0, c_light := 0, gamma := p.gamma, geometry := 3, lam0_ := 0, lambda0 := p.lambda0, rho0 := p.rho0 }, rfl, rfl, rfl, rfl, rfl, rfl, rfl⟩

theorem cylindricalCog16_eq_general (p : CylindricalCog16.P) (q : Cog16.P) (r t : ℝ)
    (h_Gamma : q.Gamma = p.Gamma) (h_b : q.b = p.b) (h_gamma : q.gamma = p.gamma) (h_geometry : q.geometry = 2) (h_lambda0 : q.lambda0 = p.lambda0) (h_u0 : q.u0 = p.u0) :
    CylindricalCog16.outcome p r t = Cog16.outcome q r t ∧
    CylindricalCog16.position p r t = Cog16.position q r t ∧
    CylindricalCog16.density p r t = Cog16.density q r t ∧
    CylindricalCog16.velocity p r t = Cog16.velocity q r t ∧
    CylindricalCog16.temperature p r t = Cog16.temperature q r t ∧
    CylindricalCog16.pressure p r t = Cog16.pressure q r t ∧
    CylindricalCog16.specific_internal_energy p r t = Cog16.specific_internal_energy q r t := by
  wrapper_eq

example (p : CylindricalCog16.P) : ∃ q : Cog16.P, q.Gamma = p.Gamma ∧ q.b = p.b ∧ q.gamma = p.gamma ∧ q.geometry = 2 ∧ q.lambda0 = p.lambda0 ∧ q.u0 = p.u0 :=
  ⟨{ Gamma := p.Gamma, a_rad := 0, alpha_ := 0, b := p.b, beta_ := 0, c_light := 0, gamma := p.gamma, geometry := 2, lam0_ := 0, lambda0 := p.lambda0, u0 := p.u0 }, rfl, rfl, rfl, rfl, rfl, rfl⟩

theorem sphericalCog16_eq_general (p : SphericalCog16.P) (q : Cog16.P) (r t : ℝ)
    (h_Gamma : q.Gamma = p.Gamma) (h_b : q.b = p.b) (h_gamma : q.gamma = p.gamma) (h_geometry : q.geometry = 3) (h_lambda0 : q.lambda0 = p.lambda0) (h_u0 : q.u0 = p.u0) :
    SphericalCog16.outcome p r t = Cog16.outcome q r t ∧
    SphericalCog16.position p r t = Cog16.position q r t ∧
    SphericalCog16.density p r t = Cog16.density q r t ∧
    SphericalCog16.velocity p r t = Cog16.velocity q r t ∧
    SphericalCog16.temperature p r t = Cog16.temperature q r t ∧
    SphericalCog16.pressure p r t = Cog16.pressure q r t ∧
    SphericalCog16.specific_internal_energy p r t = Cog16.specific_internal_energy q r t := by
  wrapper_eq

example (p : SphericalCog16.P) : ∃ q : Cog16.P, q.Gamma = p.Gamma ∧ q.b = p.b ∧ q.gamma = p.gamma ∧ q.geometry = 3 ∧ q.lambda0 = p.lambda0 ∧ q.u0 = p.u0 :=
  ⟨{ Gamma := p.Gamma, a_rad := 0, alpha_ := 0, b := p.b, beta_ := 0, c_light := 0, gamma := p.gamma, geometry := 3, lam0_ := 0, lambda0 := p.lambda0, u0 := p.u0 }, rfl, rfl, rfl, rfl, rfl, rfl⟩

theorem planarCog17_eq_general (p : PlanarCog17.P) (q : Cog17.P) (r t : ℝ)
    (h_Gamma : q.Gamma = p.Gamma) (h_alpha : q.alpha = p.alpha) (h_beta : q.beta = p.beta) (h_gamma : q.gamma = p.gamma) (h_geometry : q.geometry = 1) (h_lambda0 : q.lambda0 = p.lambda0) :
    PlanarCog17.outcome p r t = Cog17.outcome q r t ∧
    PlanarCog17.position p r t = Cog17.position q r t ∧
    PlanarCog17.density p r t = Cog17.density q r t ∧
    PlanarCog17.velocity p r t = Cog17.velocity q r t ∧
    PlanarCog17.temperature p r t = Cog17.temperature q r t ∧
    PlanarCog17.pressure p r t = Cog17.pressure q r t ∧
    PlanarCog17.specific_internal_energy p r t = Cog17.specific_internal_energy q r t := by
  have hc0 : Cog17.c0 q r t ↔ PlanarCog17.c0 p r t := by wrapper_cond
  wrapper_eq

example (p : PlanarCog17.P) : ∃ q : Cog17.P, q.Gamma = p.Gamma ∧ q.alpha = p.alpha ∧ q.beta = p.beta ∧ q.gamma = p.gamma ∧ q.geometry = 1 ∧ q.lambda0 = p.lambda0 :=
  ⟨{ Gamma := p.Gamma, a_rad := 0, alpha := p.alpha, alpha_ := 0, beta := p.beta, beta_ := 0, c_light := 0, gamma := p.gamma, geometry := 1, lam0_ := 0, lambda0 := p.lambda0 }, rfl, rfl, rfl, rfl, rfl, rfl⟩

theorem cylindricalCog17_eq_general (p : CylindricalCog17.P) (q : Cog17.P) (r t : ℝ)
    (h_Gamma : q.Gamma = p.Gamma) (h_alpha : q.alpha = p.alpha) (h_beta : q.beta = p.beta) (h_gamma : q.gamma = p.gamma) (h_geometry : q.geometry = 2) (h_lambda0 : q.lambda0 = p.lambda0) :
    CylindricalCog17.outcome p r t = Cog17.outcome q r t ∧
    CylindricalCog17.position p r t = Cog17.position q r t ∧
    CylindricalCog17.density p r t = Cog17.density q r t ∧
    CylindricalCog17.velocity p r t = Cog17.velocity q r t ∧
    CylindricalCog17.temperature p r t = Cog17.temperature q r t ∧
    CylindricalCog17.pressure p r t = Cog17.pressure q r t ∧
    CylindricalCog17.specific_internal_energy p r t = Cog17.specific_internal_energy q r t := by
  have hc0 : Cog17.c0 q r t ↔ CylindricalCog17.c0 p r t := by wrapper_cond
  wrapper_eq

example (p : CylindricalCog17.P) : ∃ q : Cog17.P, q.Gamma = p.Gamma ∧ q.alpha = p.alpha ∧ q.beta = p.beta ∧ q.gamma = p.gamma ∧ q.geometry = 2 ∧ q.lambda0 = p.lambda0 :=
  ⟨{ Gamma := p.Gamma, a_rad := 0, alpha := p.alpha, alpha_ := 0, beta := p.beta, beta_ := 0, c_light := 0, gamma := p.gamma, geometry := 2, lam0_ := 0, lambda0 := p.lambda0 }, rfl, rfl, rfl, rfl, rfl, rfl⟩

theorem sphericalCog17_eq_general (p : SphericalCog17.P) (q : Cog17.P) (r t : ℝ)
    (h_Gamma : q.Gamma = p.Gamma) (h_alpha : q.alpha = p.alpha) (h_beta : q.beta = p.beta) (h_gamma : q.gamma = p.gamma) (h_geometry : q.geometry = 3) (h_lambda0 : q.lambda0 = p.lambda0) :
    SphericalCog17.outcome p r t = Cog17.outcome q r t ∧
    SphericalCog17.position p r t = Cog17.position q r t ∧
    SphericalCog17.density p r t = Cog17.density q r t ∧
    SphericalCog17.velocity p r t = Cog17.velocity q r t ∧
    SphericalCog17.temperature p r t = Cog17.temperature q r t ∧
    SphericalCog17.pressure p r t = Cog17.pressure q r t ∧
    SphericalCog17.specific_internal_energy p r t = Cog17.specific_internal_energy q r t := by
  have hc0 : Cog17.c0 q r t ↔ SphericalCog17.c0 p r t := by wrapper_cond
  wrapper_eq

example (p : SphericalCog17.P) : ∃ q : Cog17.P, q.Gamma = p.Gamma ∧ q.alpha = p.alpha ∧ q.beta = p.beta ∧ q.gamma = p.gamma ∧ q.geometry = 3 ∧ q.lambda0 = p.lambda0 :=
  ⟨{ Gamma := p.Gamma, a_rad := 0, alpha := p.alpha, alpha_ := 0, beta := p.beta, beta_ := 0, c_light := 0, gamma := p.gamma, geometry := 3, lam0_ := 0, lambda0 := p.lambda0 }, rfl, rfl, rfl, rfl, rfl, rfl⟩

theorem planarCog18_eq_general (p : PlanarCog18.P) (q : Cog18.P) (r t : ℝ)
    (h_Gamma : q.Gamma = p.Gamma) (h_alpha : q.alpha = p.alpha) (h_beta : q.beta = p.beta) (h_geometry : q.geometry = 1) (h_rho0 : q.rho0 = p.rho0) (h_tau : q.tau = p.tau) :
    PlanarCog18.outcome p r t = Cog18.outcome q r t ∧
    PlanarCog18.position p r t = Cog18.position q r t ∧
    PlanarCog18.density p r t = Cog18.density q r t ∧
    PlanarCog18.velocity p r t = Cog18.velocity q r t ∧
    PlanarCog18.temperature p r t = Cog18.temperature q r t ∧
    PlanarCog18.pressure p r t = Cog18.pressure q r t ∧
    PlanarCog18.specific_internal_energy p r t = Cog18.specific_internal_energy q r t := by
  wrapper_eq

example (p : PlanarCog18.P) : ∃ q : Cog18.P, q.Gamma = p.Gamma ∧ q.alpha = p.alpha ∧ q.beta = p.beta ∧ q.geometry = 1 ∧ q.rho0 = p.rho0 ∧ q.tau = p.tau :=
  ⟨{ Gamma := p.Gamma, a_rad := 0, alpha := p.alpha, alpha_ := 0, beta := p.beta, beta_ := 0, c_light := 0, geometry := 1, lam0_ := 0, rho0 := p.rho0, tau := p.tau }, rfl, rfl, rfl, rfl, rfl, rfl⟩

theorem cylindricalCog18_eq_general (p : CylindricalCog18.P) (q : Cog18.P) (r t : ℝ)
    (h_Gamma : q.Gamma = p.Gamma) (h_alpha : q.alpha = p.alpha) (h_beta : q.beta = p.beta) (h_geometry : q.geometry = 2) (h_rho0 : q.rho0 = p.rho0) (h_tau : q.tau = p.tau) :
    CylindricalCog18.outcome p r t = Cog18.outcome q r t ∧
    CylindricalCog18.position p r t = Cog18.position q r t ∧
    CylindricalCog18.density p r t = Cog18.density q r t ∧
    CylindricalCog18.velocity p r t = Cog18.velocity q r t ∧
    CylindricalCog18.temperature p r t = Cog18.temperature q r t ∧
    CylindricalCog18.pressure p r t = Cog18.pressure q r t ∧
    CylindricalCog18.specific_internal_energy p r t = Cog18.specific_internal_energy q r t := by
  wrapper_eq

example (p : CylindricalCog18.P) : ∃ q : Cog18.P, q.Gamma = p.Gamma ∧ q.alpha = p.alpha ∧ q.beta = p.beta ∧ q.geometry = 2 ∧ q.rho0 = p.rho0 ∧ q.tau = p.tau :=
  ⟨{ Gamma := p.Gamma, a_rad := 0, alpha := p.alpha, alpha_ := 0, beta := p.beta, beta_ := 0, c_light := 0, geometry := 2, lam0_ := 0, rho0 := p.rho0, tau := p.tau }, rfl, rfl, rfl, rfl, rfl, rfl⟩

theorem sphericalCog18_eq_general (p : SphericalCog18.P) (q : Cog18.P) (r t : ℝ)
    (h_Gamma : q.Gamma = p.Gamma) (h_alpha : q.alpha = p.alpha) (h_beta : q.beta = p.beta) (h_geometry : q.geometry = 3) (h_rho0 : q.rho0 = p.rho0) (h_tau : q.tau = p.tau) :
    SphericalCog18.outcome p r t = Cog18.outcome q r t ∧
    SphericalCog18.position p r t = Cog18.position q r t ∧
    SphericalCog18.density p r t = Cog18.density q r t ∧
    SphericalCog18.velocity p r t = Cog18.velocity q r t ∧
    SphericalCog18.temperature p r t = Cog18.temperature q r t ∧
    SphericalCog18.pressure p r t = Cog18.pressure q r t ∧
    SphericalCog18.specific_internal_energy p r t = Cog18.specific_internal_energy q r t := by
  wrapper_eq

example (p : SphericalCog18.P) : ∃ q : Cog18.P, q.Gamma = p.Gamma ∧ q.alpha = p.alpha ∧ q.beta = p.beta ∧ q.geometry = 3 ∧ q.rho0 = p.rho0 ∧ q.tau = p.tau :=
  ⟨{ Gamma := p.Gamma, a_rad := 0, alpha := p.alpha, alpha_ := 0, beta := p.beta, beta_ := 0, c_light := 0, geometry := 3, lam0_ := 0, rho0 := p.rho0, tau := p.tau }, rfl, rfl, rfl, rfl, rfl, rfl⟩

theorem planarCog19_eq_general (p : PlanarCog19.P) (q : Cog19.P) (r t : ℝ)
    (h_Gamma : q.Gamma = p.Gamma) (h_gamma : q.gamma = p.gamma) (h_geometry : q.geometry = 1) (h_rho0 : q.rho0 = p.rho0) (h_u0 : q.u0 = p.u0) :
    PlanarCog19.outcome p r t = Cog19.outcome q r t ∧
    PlanarCog19.position p r t = Cog19.position q r t ∧
    PlanarCog19.density p r t = Cog19.density q r t ∧
    PlanarCog19.velocity p r t = Cog19.velocity q r t ∧
    PlanarCog19.temperature p r t = Cog19.temperature q r t ∧
    PlanarCog19.pressure p r t = Cog19.pressure q r t ∧
    PlanarCog19.specific_internal_energy p r t = Cog19.specific_internal_energy q r t := by
  have hc0 : Cog19.c0 q r t ↔ PlanarCog19.c0 p r t := by wrapper_cond
  wrapper_eq

example (p : PlanarCog19.P) : ∃ q : Cog19.P, q.Gamma = p.Gamma ∧ q.gamma = p.gamma ∧ q.geometry = 1 ∧ q.rho0 = p.rho0 ∧ q.u0 = p.u0 :=
  ⟨{ Gamma := p.Gamma, a_rad := 0, alpha_ := 0, beta_ := 0, c_light := 0, gamma := p.gamma, geometry := 1, lam0_ := 0, rho0 := p.rho0, u0 := p.u0 }, rfl, rfl, rfl, rfl, rfl⟩

theorem cylindricalCog19_eq_general (p : CylindricalCog19.P) (q : Cog19.P) (r t : ℝ)
    (h_Gamma : q.Gamma = p.Gamma) (h_gamma : q.gamma = p.gamma) (h_geometry : q.geometry = 2) (h_rho0 : q.rho0 = p.rho0) (h_u0 : q.u0 = p.u0) :
    CylindricalCog19.outcome p r t = Cog19.outcome q r t ∧
    CylindricalCog19.position p r t = Cog19.position q r t ∧
    CylindricalCog19.density p r t = Cog19.density q r t ∧
    CylindricalCog19.velocity p r t = Cog19.velocity q r t ∧
    CylindricalCog19.temperature p r t = Cog19.temperature q r t ∧
    CylindricalCog19.pressure p r t = Cog19.pressure q r t ∧
    CylindricalCog19.specific_internal_energy p r t = Cog19.specific_internal_energy q r t := by
  have hc0 : Cog19.c0 q r t ↔ CylindricalCog19.c0 p r t := by wrapper_cond
  wrapper_eq

example (p : CylindricalCog19.P) : ∃ q : Cog19.P, q.Gamma = p.Gamma ∧ q.gamma = p.gamma ∧ q.geometry = 2 ∧ q.rho0 = p.rho0 ∧ q.u0 = p.u0 :=
  ⟨{ Gamma := p.Gamma, a_rad := 0, alpha_ := 0, beta_ := 0, c_light := 0, gamma := p.gamma, geometry := 2, lam0_ := 0, rho0 := p.rho0, u0 := p.u0 }, rfl, rfl, rfl, rfl, rfl⟩

theorem sphericalCog19_eq_general (p : SphericalCog19.P) (q : Cog19.P) (r t : ℝ)
    (h_Gamma : q.Gamma = p.Gamma) (h_gamma : q.gamma = p.gamma) (h_geometry : q.geometry = 3) (h_rho0 : q.rho0 = p.rho0) (h_u0 : q.u0 = p.u0) :
    SphericalCog19.outcome p r t = Cog19.outcome q r t ∧
    SphericalCog19.position p r t = Cog19.position q r t ∧
    SphericalCog19.density p r t = Cog19.density q r t ∧
    SphericalCog19.velocity p r t = Cog19.velocity q r t ∧
    SphericalCog19.temperature p r t = Cog19.temperature q r t ∧
    SphericalCog19.pressure p r t = Cog19.pressure q r t ∧
    SphericalCog19.specific_internal_energy p r t = Cog19.specific_internal_energy q r t := by
  have hc0 : Cog19.c0 q r t ↔ SphericalCog19.c0 p r t := by wrapper_cond
  wrapper_eq

example (p : SphericalCog19.P) : ∃ q : Cog19.P, q.Gamma = p.Gamma ∧ q.gamma = p.gamma ∧ q.geometry = 3 ∧ q.rho0 = p.rho0 ∧ q.u0 = p.u0 :=
  ⟨{ Gamma := p.Gamma, a_rad := 0, alpha_ := 0, beta_ := 0, c_light := 0, gamma := p.gamma, geometry := 3, lam0_ := 0, rho0 := p.rho0, u0 := p.u0 }, rfl, rfl, rfl, rfl, rfl⟩

theorem planarCog20_eq_general (p : PlanarCog20.P) (q : Cog20.P) (r t : ℝ)
    (h_Gamma : q.Gamma = p.Gamma) (h_a : q.a = p.a) (h_gamma : q.gamma = p.gamma) (h_geometry : q.geometry = 1) (h_rho0 : q.rho0 = p.rho0) (h_u0 : q.u0 = p.u0) :
    PlanarCog20.outcome p r t = Cog20.outcome q r t ∧
    PlanarCog20.position p r t = Cog20.position q r t ∧
    PlanarCog20.density p r t = Cog20.density q r t ∧
    PlanarCog20.velocity p r t = Cog20.velocity q r t ∧
    PlanarCog20.temperature p r t = Cog20.temperature q r t ∧
    PlanarCog20.pressure p r t = Cog20.pressure q r t ∧
    PlanarCog20.specific_internal_energy p r t = Cog20.specific_internal_energy q r t := by
  have hc0 : Cog20.c0 q r t ↔ PlanarCog20.c0 p r t := by wrapper_cond
  wrapper_eq

example (p : PlanarCog20.P) : ∃ q : Cog20.P, q.Gamma = p.Gamma ∧ q.a = p.a ∧ q.gamma = p.gamma ∧ q.geometry = 1 ∧ q.rho0 = p.rho0 ∧ q.u0 = p.u0 :=
  ⟨{ Gamma := p.Gamma, a := p.a, a_rad := 0, alpha_ := 0, beta_ := 0, c_light := 0, gamma := p.gamma, geometry := 1, lam0_ := 0, rho0 := p.rho0, u0 := p.u0 }, rfl, rfl, rfl, rfl, rfl, rfl⟩

theorem cylindricalCog20_eq_general (p : CylindricalCog20.P) (q : Cog20.P) (r t : ℝ)
    (h_Gamma : q.Gamma = p.Gamma) (h_a : q.a = p.a) (h_gamma : q.gamma = p.gamma) (h_geometry : q.geometry = 2) (h_rho0 : q.rho0 = p.rho0) (h_u0 : q.u0 = p.u0) :
    CylindricalCog20.outcome p r t = Cog20.outcome q r t ∧
    CylindricalCog20.position p r t = Cog20.position q r t ∧
    CylindricalCog20.density p r t = Cog20.density q r t ∧
    CylindricalCog20.velocity p r t = Cog20.velocity q r t ∧
    CylindricalCog20.temperature p r t = Cog20.temperature q r t ∧
    CylindricalCog20.pressure p r t = Cog20.pressure q r t ∧
    CylindricalCog20.specific_internal_energy p r t = Cog20.specific_internal_energy q r t := by
  have hc0 : Cog20.c0 q r t ↔ CylindricalCog20.c0 p r t := by wrapper_cond
  wrapper_eq

example (p : CylindricalCog20.P) : ∃ q : Cog20.P, q.Gamma = p.Gamma ∧ q.a = p.a ∧ q.gamma = p.gamma ∧ q.geometry = 2 ∧ q.rho0 = p.rho0 ∧ q.u0 = p.u0 :=
  ⟨{ Gamma := p.Gamma, a := p.a, a_rad := 0, alpha_ := 0, beta_ := 0, c_light := 0, gamma := p.gamma, geometry := 2, lam0_ := 0, rho0 := p.rho0, u0 := p.u0 }, rfl, rfl, rfl, rfl, rfl, rfl⟩

theorem sphericalCog20_eq_general (p : SphericalCog20.P) (q : Cog20.P) (r t : ℝ)
    (h_Gamma : q.Gamma = p.Gamma) (h_a : q.a = p.a) (h_gamma : q.gamma = p.gamma) (h_geometry : q.geometry = 3) (h_rho0 : q.rho0 = p.rho0) (h_u0 : q.u0 = p.u0) :
    SphericalCog20.outcome p r t = Cog20.outcome q r t ∧
    SphericalCog20.position p r t = Cog20.position q r t ∧
    SphericalCog20.density p r t = Cog20.density q r t ∧
    SphericalCog20.velocity p r t = Cog20.velocity q r t ∧
    SphericalCog20.temperature p r t = Cog20.temperature q r t ∧
    SphericalCog20.pressure p r t = Cog20.pressure q r t ∧
    SphericalCog20.specific_internal_energy p r t = Cog20.specific_internal_energy q r t := by
  have hc0 : Cog20.c0 q r t ↔ SphericalCog20.c0 p r t := by wrapper_cond
  wrapper_eq

example (p : SphericalCog20.P) : ∃ q : Cog20.P, q.Gamma = p.Gamma ∧ q.a = p.a ∧ q.gamma = p.gamma ∧ q.geometry = 3 ∧ q.rho0 = p.rho0 ∧ q.u0 = p.u0 :=
  ⟨{ Gamma := p.Gamma, a := p.a, a_rad := 0, alpha_ := 0, beta_ := 0, c_light := 0, gamma := p.gamma, geometry := 3, lam0_ := 0, rho0 := p.rho0, u0 := p.u0 }, rfl, rfl, rfl, rfl, rfl, rfl⟩

theorem kidder74_eq_general (p : Kidder74.P) (q : Cog6.P) (r t : ℝ)
    (h_Gamma : q.Gamma = p.Gamma) (h_b : q.b = 3) (h_geometry : q.geometry = 3) (h_rho0 : q.rho0 = p.rho0) (h_tau : q.tau = p.tau) :
    Kidder74.outcome p r t = Cog6.outcome q r t ∧
    Kidder74.position p r t = Cog6.position q r t ∧
    Kidder74.density p r t = Cog6.density q r t ∧
    Kidder74.velocity p r t = Cog6.velocity q r t ∧
    Kidder74.temperature p r t = Cog6.temperature q r t ∧
    Kidder74.pressure p r t = Cog6.pressure q r t ∧
    Kidder74.specific_internal_energy p r t = Cog6.specific_internal_energy q r t := by
  wrapper_eq

example (p : Kidder74.P) : ∃ q : Cog6.P, q.Gamma = p.Gamma ∧ q.b = 3 ∧ q.geometry = 3 ∧ q.rho0 = p.rho0 ∧ q.tau = p.tau :=
  ⟨{ Gamma := p.Gamma, a_rad := 0, alpha_ := 0, b := 3, beta_ := 0, c_light := 0, geometry := 3, lam0_ := 0, rho0 := p.rho0, tau := p.tau }, rfl, rfl, rfl, rfl, rfl⟩

theorem kidder76_eq_general (p : Kidder76.P) (q : Cog7.P) (r t : ℝ)
    (h_Gamma : q.Gamma = p.Gamma) (h_R0 : q.R0 = p.R0) (h_Ri : q.Ri = p.Ri) (h_b : q.b = 0) (h_geometry : q.geometry = 3) (h_tau : q.tau = p.tau) :
    Kidder76.outcome p r t = Cog7.outcome q r t ∧
    Kidder76.position p r t = Cog7.position q r t ∧
    Kidder76.density p r t = Cog7.density q r t ∧
    Kidder76.velocity p r t = Cog7.velocity q r t ∧
    Kidder76.temperature p r t = Cog7.temperature q r t ∧
    Kidder76.pressure p r t = Cog7.pressure q r t ∧
    Kidder76.specific_internal_energy p r t = Cog7.specific_internal_energy q r t := by
  have hc0 : Cog7.c0 q r t ↔ Kidder76.c0 p r t := by wrapper_cond
  wrapper_eq

example (p : Kidder76.P) : ∃ q : Cog7.P, q.Gamma = p.Gamma ∧ q.R0 = p.R0 ∧ q.Ri = p.Ri ∧ q.b = 0 ∧ q.geometry = 3 ∧ q.tau = p.tau :=
  ⟨{ Gamma := p.Gamma, R0 := p.R0, Ri := p.Ri, a_rad := 0, alpha_ := 0, b := 0, beta_ := 0, c_light := 0, geometry := 3, lam0_ := 0, tau := p.tau }, rfl, rfl, rfl, rfl, rfl, rfl⟩

theorem planarNoh_eq_general (p : PlanarNoh.P) (q : Noh.P) (r t : ℝ)
    (h_gamma : q.gamma = p.gamma) (h_geometry : q.geometry = 1) (h_rho0 : q.rho0 = 1) (h_u0 : q.u0 = (-1)) :
    PlanarNoh.outcome p r t = Noh.outcome q r t ∧
    PlanarNoh.position p r t = Noh.position q r t ∧
    PlanarNoh.density p r t = Noh.density q r t ∧
    PlanarNoh.pressure p r t = Noh.pressure q r t ∧
    PlanarNoh.specific_internal_energy p r t = Noh.specific_internal_energy q r t ∧
    PlanarNoh.velocity p r t = Noh.velocity q r t := by
  have hc0 : Noh.c0 q r t ↔ PlanarNoh.c0 p r t := by wrapper_cond
  wrapper_eq

example (p : PlanarNoh.P) : ∃ q : Noh.P, q.gamma = p.gamma ∧ q.geometry = 1 ∧ q.rho0 = 1 ∧ q.u0 = (-1) :=
  ⟨{ gamma := p.gamma, geometry := 1, rho0 := 1, u0 := (-1) }, rfl, rfl, rfl, rfl⟩

theorem planarNoh2_eq_general (p : PlanarNoh2.P) (q : Noh2.P) (r t : ℝ)
    (h_e0 : q.e0 = p.e0) (h_gamma : q.gamma = p.gamma) (h_geometry : q.geometry = 1) (h_rho0 : q.rho0 = p.rho0) :
    PlanarNoh2.outcome p r t = Noh2.outcome q r t ∧
    PlanarNoh2.position p r t = Noh2.position q r t ∧
    PlanarNoh2.density p r t = Noh2.density q r t ∧
    PlanarNoh2.pressure p r t = Noh2.pressure q r t ∧
    PlanarNoh2.specific_internal_energy p r t = Noh2.specific_internal_energy q r t ∧
    PlanarNoh2.velocity p r t = Noh2.velocity q r t := by
  have hc0 : Noh2.c0 q r t ↔ PlanarNoh2.c0 p r t := by wrapper_cond
  wrapper_eq

example (p : PlanarNoh2.P) : ∃ q : Noh2.P, q.e0 = p.e0 ∧ q.gamma = p.gamma ∧ q.geometry = 1 ∧ q.rho0 = p.rho0 :=
  ⟨{ e0 := p.e0, gamma := p.gamma, geometry := 1, rho0 := p.rho0 }, rfl, rfl, rfl, rfl⟩

theorem cylindricalNoh_eq_general (p : CylindricalNoh.P) (q : Noh.P) (r t : ℝ)
    (h_gamma : q.gamma = p.gamma) (h_geometry : q.geometry = 2) (h_rho0 : q.rho0 = 1) (h_u0 : q.u0 = (-1)) :
    CylindricalNoh.outcome p r t = Noh.outcome q r t ∧
    CylindricalNoh.position p r t = Noh.position q r t ∧
    CylindricalNoh.density p r t = Noh.density q r t ∧
    CylindricalNoh.pressure p r t = Noh.pressure q r t ∧
    CylindricalNoh.specific_internal_energy p r t = Noh.specific_internal_energy q r t ∧
    CylindricalNoh.velocity p r t = Noh.velocity q r t := by
  have hc0 : Noh.c0 q r t ↔ CylindricalNoh.c0 p r t := by wrapper_cond
  wrapper_eq

example (p : CylindricalNoh.P) : ∃ q : Noh.P, q.gamma = p.gamma ∧ q.geometry = 2 ∧ q.rho0 = 1 ∧ q.u0 = (-1) :=
  ⟨{ gamma := p.gamma, geometry := 2, rho0 := 1, u0 := (-1) }, rfl, rfl, rfl, rfl⟩

theorem cylindricalNoh2_eq_general (p : CylindricalNoh2.P) (q : Noh2.P) (r t : ℝ)
    (h_e0 : q.e0 = p.e0) (h_gamma : q.gamma = p.gamma) (h_geometry : q.geometry = 2) (h_rho0 : q.rho0 = p.rho0) :
    CylindricalNoh2.outcome p r t = Noh2.outcome q r t ∧
    CylindricalNoh2.position p r t = Noh2.position q r t ∧
    CylindricalNoh2.density p r t = Noh2.density q r t ∧
    CylindricalNoh2.pressure p r t = Noh2.pressure q r t ∧
    CylindricalNoh2.specific_internal_energy p r t = Noh2.specific_internal_energy q r t ∧
    CylindricalNoh2.velocity p r t = Noh2.velocity q r t := by
  have hc0 : Noh2.c0 q r t ↔ CylindricalNoh2.c0 p r t := by wrapper_cond
  wrapper_eq

example (p : CylindricalNoh2.P) : ∃ q : Noh2.P, q.e0 = p.e0 ∧ q.gamma = p.gamma ∧ q.geometry = 2 ∧ q.rho0 = p.rho0 :=
  ⟨{ e0 := p.e0, gamma := p.gamma, geometry := 2, rho0 := p.rho0 }, rfl, rfl, rfl, rfl⟩

theorem sphericalNoh_eq_general (p : SphericalNoh.P) (q : Noh.P) (r t : ℝ)
    (h_gamma : q.gamma = p.gamma) (h_geometry : q.geometry = 3) (h_rho0 : q.rho0 = 1) (h_u0 : q.u0 = (-1)) :
    SphericalNoh.outcome p r t = Noh.outcome q r t ∧
    SphericalNoh.position p r t = Noh.position q r t ∧
    SphericalNoh.density p r t = Noh.density q r t ∧
    SphericalNoh.pressure p r t = Noh.pressure q r t ∧
    SphericalNoh.specific_internal_energy p r t = Noh.specific_internal_energy q r t ∧
    SphericalNoh.velocity p r t = Noh.velocity q r t := by
  have hc0 : Noh.c0 q r t ↔ SphericalNoh.c0 p r t := by wrapper_cond
  wrapper_eq

example (p : SphericalNoh.P) : ∃ q : Noh.P, q.gamma = p.gamma ∧ q.geometry = 3 ∧ q.rho0 = 1 ∧ q.u0 = (-1) :=
  ⟨{ gamma := p.gamma, geometry := 3, rho0 := 1, u0 := (-1) }, rfl, rfl, rfl, rfl⟩

theorem sphericalNoh2_eq_general (p : SphericalNoh2.P) (q : Noh2.P) (r t : ℝ)
    (h_e0 : q.e0 = p.e0) (h_gamma : q.gamma = p.gamma) (h_geometry : q.geometry = 3) (h_rho0 : q.rho0 = p.rho0) :
    SphericalNoh2.outcome p r t = Noh2.outcome q r t ∧
    SphericalNoh2.position p r t = Noh2.position q r t ∧
    SphericalNoh2.density p r t = Noh2.density q r t ∧
    SphericalNoh2.pressure p r t = Noh2.pressure q r t ∧
    SphericalNoh2.specific_internal_energy p r t = Noh2.specific_internal_energy q r t ∧
    SphericalNoh2.velocity p r t = Noh2.velocity q r t := by
  have hc0 : Noh2.c0 q r t ↔ SphericalNoh2.c0 p r t := by wrapper_cond
  wrapper_eq

example (p : SphericalNoh2.P) : ∃ q : Noh2.P, q.e0 = p.e0 ∧ q.gamma = p.gamma ∧ q.geometry = 3 ∧ q.rho0 = p.rho0 :=
  ⟨{ e0 := p.e0, gamma := p.gamma, geometry := 3, rho0 := p.rho0 }, rfl, rfl, rfl, rfl⟩

end EPV.C07
