/-
C07 — FINDINGS about how the black-box Noh classes select the geometry (see BBNohWrappers.lean for what does hold).

* `bbnoh_geometry_keyword_finding` — "the general class with that geometry" read as `NohBlackBoxEos(eos, geometry=k)`: the
  documented parameter `geometry` ("1=planar, 2=cylindrical, 3=spherical") is only range-checked; the geometry actually
  used is `initial_conditions['symmetry']`, default 2.  `NohBlackBoxEos(eos, geometry=1)` is the SPHERICAL solution
  (`bbinitGeomOnly_symmetry`, `bbrunGeomOnly_eq_base`): γ = 5/3, density behind the shock 64; `PlanarNohBlackBox(eos)` gives 4.
* `bbnoh_shared_ic_finding` — the wrappers write into the caller's dictionary and keep a reference to it, and
  `solve_jump_conditions` re-reads it at the first call: `d = {…}; a = PlanarNohBlackBox(eos, d); SphericalNohBlackBox(eos, d)`
  makes `a` solve the SPHERICAL jump conditions (density 64 behind the shock) while assembling the unshocked state with
  its own planar exponent (`bbrunSharedIC_symmetries`, `bbrunSharedIC_hybrid`) — a state that is neither solution, and a
  value of `a(r, t)` that depends on whether another object was constructed in between (also a C06 matter).

Both models are traces of the real constructors and the real `solve_jump_conditions` / `_run` (targets/t_c07rest.py:
BBInitGeomOnly*, BBRunGeomOnly*, BBRunSharedIC), Newton loop = atoms.  When the code is repaired these theorems stop
building and the oracles stop reproducing the witnesses.
-/
import EPV.Gen.BBInitGeomOnly1
import EPV.Gen.BBInitGeomOnly2
import EPV.Gen.BBInitGeomOnly3
import EPV.Gen.BBRunGeomOnly1
import EPV.Gen.BBRunGeomOnly2
import EPV.Gen.BBRunSharedIC
import EPV.Gen.BBRunPlanar
import EPV.Gen.BBRunSpherical
import EPV.Gen.BBRunBase
import EPV.Tactics

set_option linter.all false
set_option maxRecDepth 100000

open EPV EPV.Gen
open Classical

namespace EPV.C07

/-! ### finding: the documented parameter `geometry` does not select the geometry -/

/-- `NohBlackBoxEos(eos, geometry=k)` with the default dictionary: whatever k ∈ {1, 2, 3} is given, the symmetry in all
three places is 2 (spherical); `geometry` is stored and never read again -/
theorem bbinitGeomOnly_symmetry (γ : ℝ) :
    (BBInitGeomOnly1.outcome ⟨γ⟩ = .ok → BBInitGeomOnly1.geometry ⟨γ⟩ = 1 ∧ BBInitGeomOnly1.symmetry ⟨γ⟩ = 2 ∧
      BBInitGeomOnly1.ic_symmetry ⟨γ⟩ = 2 ∧ BBInitGeomOnly1.res_symmetry ⟨γ⟩ = 2) ∧
    (BBInitGeomOnly2.outcome ⟨γ⟩ = .ok → BBInitGeomOnly2.geometry ⟨γ⟩ = 2 ∧ BBInitGeomOnly2.symmetry ⟨γ⟩ = 2 ∧
      BBInitGeomOnly2.ic_symmetry ⟨γ⟩ = 2 ∧ BBInitGeomOnly2.res_symmetry ⟨γ⟩ = 2) ∧
    (BBInitGeomOnly3.outcome ⟨γ⟩ = .ok → BBInitGeomOnly3.geometry ⟨γ⟩ = 3 ∧ BBInitGeomOnly3.symmetry ⟨γ⟩ = 2 ∧
      BBInitGeomOnly3.ic_symmetry ⟨γ⟩ = 2 ∧ BBInitGeomOnly3.res_symmetry ⟨γ⟩ = 2) := by
  refine ⟨?_, ?_, ?_⟩ <;> intro h <;> refine ⟨?_, ?_, ?_, ?_⟩ <;> epv_on_leaves (simp only [epv_leaf])

/-- the route `NohBlackBoxEos(eos, geometry=1)` (and `geometry=2`) is, output by output, the route of the general class
at its defaults, i.e. the spherical one -/
theorem bbrunGeomOnly_eq_base (γ x0 x1 x2 r t : ℝ) :
    BBRunGeomOnly1.outcome ⟨γ, x0, x1, x2⟩ r t = BBRunBase.outcome ⟨γ, x0, x1, x2⟩ r t ∧
    BBRunGeomOnly1.density ⟨γ, x0, x1, x2⟩ r t = BBRunBase.density ⟨γ, x0, x1, x2⟩ r t ∧
    BBRunGeomOnly1.pressure ⟨γ, x0, x1, x2⟩ r t = BBRunBase.pressure ⟨γ, x0, x1, x2⟩ r t ∧
    BBRunGeomOnly1.specific_internal_energy ⟨γ, x0, x1, x2⟩ r t = BBRunBase.specific_internal_energy ⟨γ, x0, x1, x2⟩ r t ∧
    BBRunGeomOnly1.velocity ⟨γ, x0, x1, x2⟩ r t = BBRunBase.velocity ⟨γ, x0, x1, x2⟩ r t ∧
    BBRunGeomOnly1.resF0 ⟨γ, x0, x1, x2⟩ r t = BBRunBase.resF0 ⟨γ, x0, x1, x2⟩ r t ∧
    BBRunGeomOnly2.outcome ⟨γ, x0, x1, x2⟩ r t = BBRunBase.outcome ⟨γ, x0, x1, x2⟩ r t ∧
    BBRunGeomOnly2.density ⟨γ, x0, x1, x2⟩ r t = BBRunBase.density ⟨γ, x0, x1, x2⟩ r t ∧
    BBRunGeomOnly2.resF0 ⟨γ, x0, x1, x2⟩ r t = BBRunBase.resF0 ⟨γ, x0, x1, x2⟩ r t :=
  ⟨rfl, rfl, rfl, rfl, rfl, rfl, rfl, rfl, rfl⟩

/-- the property "PlanarNohBlackBox(eos) and NohBlackBoxEos(eos, geometry = 1) return the same fields whenever both
Newton results are roots of the residual they were given" -/
def GeometryKeywordSelectsGeometry : Prop :=
  ∀ (p : BBRunPlanar.P) (q : BBRunGeomOnly1.P) (r t : ℝ), q.gamma = p.gamma →
    BBRunPlanar.outcome p r t = .ok → BBRunGeomOnly1.outcome q r t = .ok →
    BBRunPlanar.resF0 p r t = 0 → BBRunPlanar.resF1 p r t = 0 → BBRunPlanar.resF2 p r t = 0 →
    BBRunGeomOnly1.resF0 q r t = 0 → BBRunGeomOnly1.resF1 q r t = 0 → BBRunGeomOnly1.resF2 q r t = 0 →
    BBRunPlanar.density p r t = BBRunGeomOnly1.density q r t

/-- **Finding.**  γ = 5/3, r = 1/10, t = 1 (behind both shocks, D = 1/3): the planar wrapper's root is (4, 1/2, 1/3) and it
returns density 4; `NohBlackBoxEos(eos, geometry=1)` is given the spherical residual, its root is (64, 1/2, 1/3) and
it returns 64. -/
theorem bbnoh_geometry_keyword_finding : ¬ GeometryKeywordSelectsGeometry := by
  intro H
  have h := H ⟨5 / 3, 4, 1 / 2, 1 / 3⟩ ⟨5 / 3, 64, 1 / 2, 1 / 3⟩ (1 / 10) 1 rfl
    (by simp only [epv_tree, epv_cond]; norm_num) (by simp only [epv_tree, epv_cond]; norm_num)
    (by simp only [epv_tree, epv_cond, epv_leaf]; norm_num) (by simp only [epv_tree, epv_cond, epv_leaf]; norm_num)
    (by simp only [epv_tree, epv_cond, epv_leaf]; norm_num) (by simp only [epv_tree, epv_cond, epv_leaf]; norm_num)
    (by simp only [epv_tree, epv_cond, epv_leaf]; norm_num) (by simp only [epv_tree, epv_cond, epv_leaf]; norm_num)
  simp only [epv_tree, epv_cond, epv_leaf] at h
  norm_num at h

/-! ### finding: one user dictionary handed to two wrappers -/

/-- after `d = {1, -1, 0}; a = PlanarNohBlackBox(eos, d); SphericalNohBlackBox(eos, d)`, `a` solves the jump conditions for
symmetry 2 and assembles the unshocked state with symmetry 0 -/
theorem bbrunSharedIC_symmetries (γ x0 x1 x2 r t : ℝ) (h : BBRunSharedIC.outcome ⟨γ, x0, x1, x2⟩ r t = .ok) :
    BBRunSharedIC.res_symmetry ⟨γ, x0, x1, x2⟩ r t = 2 ∧ BBRunSharedIC.run_symmetry ⟨γ, x0, x1, x2⟩ r t = 0 := by
  refine ⟨?_, ?_⟩ <;> epv_on_leaves (simp only [epv_leaf])

/-- the property "a PlanarNohBlackBox built from a user dictionary returns the fields of a PlanarNohBlackBox, whatever is
constructed from the same dictionary afterwards" -/
def SharedDictionaryHarmless : Prop :=
  ∀ (p : BBRunPlanar.P) (q : BBRunSharedIC.P) (r t : ℝ), q.gamma = p.gamma →
    BBRunPlanar.outcome p r t = .ok → BBRunSharedIC.outcome q r t = .ok →
    BBRunPlanar.resF0 p r t = 0 → BBRunPlanar.resF1 p r t = 0 → BBRunPlanar.resF2 p r t = 0 →
    BBRunSharedIC.resF0 q r t = 0 → BBRunSharedIC.resF1 q r t = 0 → BBRunSharedIC.resF2 q r t = 0 →
    BBRunPlanar.density p r t = BBRunSharedIC.density q r t

/-- **Finding.**  Same witness: the planar object whose dictionary was reused returns density 64 behind the shock. -/
theorem bbnoh_shared_ic_finding : ¬ SharedDictionaryHarmless := by
  intro H
  have h := H ⟨5 / 3, 4, 1 / 2, 1 / 3⟩ ⟨5 / 3, 64, 1 / 2, 1 / 3⟩ (1 / 10) 1 rfl
    (by simp only [epv_tree, epv_cond]; norm_num) (by simp only [epv_tree, epv_cond]; norm_num)
    (by simp only [epv_tree, epv_cond, epv_leaf]; norm_num) (by simp only [epv_tree, epv_cond, epv_leaf]; norm_num)
    (by simp only [epv_tree, epv_cond, epv_leaf]; norm_num) (by simp only [epv_tree, epv_cond, epv_leaf]; norm_num)
    (by simp only [epv_tree, epv_cond, epv_leaf]; norm_num) (by simp only [epv_tree, epv_cond, epv_leaf]; norm_num)
  simp only [epv_tree, epv_cond, epv_leaf] at h
  norm_num at h

/-- … and ahead of the shock the same object uses the planar exponent: at r = 1, t = 1 it returns density 1, the
spherical solution it solved the jump for has (1 + t/r)² = 4 there -/
theorem bbrunSharedIC_hybrid :
    BBRunSharedIC.outcome ⟨5 / 3, 64, 1 / 2, 1 / 3⟩ 1 1 = .ok ∧ BBRunSharedIC.density ⟨5 / 3, 64, 1 / 2, 1 / 3⟩ 1 1 = 1 ∧
    BBRunSpherical.outcome ⟨5 / 3, 64, 1 / 2, 1 / 3⟩ 1 1 = .ok ∧ BBRunSpherical.density ⟨5 / 3, 64, 1 / 2, 1 / 3⟩ 1 1 = 4 := by
  refine ⟨?_, ?_, ?_, ?_⟩ <;> simp only [epv_tree, epv_cond, epv_leaf] <;> norm_num

end EPV.C07
