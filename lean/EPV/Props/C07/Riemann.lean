/-
C07 (partial) — the ideal-gas and the general-EOS Riemann solvers agree on ideal-gas data.

The general-EOS driver builds its wave curves numerically: `match_shocks` finds the Hugoniot
density as a root of `shock_jump` (scipy `bisect`) and the star velocity from `star_velocity`;
`r_int_call` integrates `drdp_dudp` (scipy `ode`).  Proved here, for `problem = 'igeos'`:

* `hugoniot_root_partial`  — for given post-shock pressure the ONLY density (≠ ρ₀) that zeroes
  `shock_jump` is the closed form `rho_star_shock` of the ideal-gas solver;
* `star_velocity_partial`  — at that density `star_velocity` (called with arrays, as
  `match_shocks` does) equals u₀ ∓ the ideal-gas wave function `shock(px, p₀, ρ₀, 0, γ)`;
* `rarefaction_ode_partial` — the closed forms `rho_star_rarefaction` and `rarefaction` satisfy
  the ODE system `drdp_dudp` (wave_sign -1 for the left state, +1 for the right) with the right
  initial values.
Hence, with exact atoms (root finder, ODE integrator), both drivers build the same wave curves.

PARTIAL: the property also covers the P–U table interpolation (`interp` over `num_int_pts`
samples), the intersection found by `bisect` on the interpolants and the array splicing of
`RiemannGenEOS.driver`; these are numerical atoms / grid logic outside the model.  The numerical
agreement of the two public solvers is checked by the oracle `o_riemann.ig_vs_gen`.
-/
import EPV.Lemmas.Riemann
import EPV.Gen.RiemShockJumpIG
import EPV.Gen.RiemStarVelIG
import EPV.Gen.RiemOdeIG
import EPV.Gen.RiemRhoRareD
import EPV.Gen.RiemRareD

set_option linter.all false

open EPV EPV.Gen EPV.Model EPV.Spec.Riemann EPV.Riem

namespace EPV.C07

/-- `shock_jump(p₀, ρ₀, γ, px, ρ)` as a function of the trial density -/
noncomputable def shockJump (px p ρ γ r : ℝ) : ℝ :=
  RiemShockJumpIG.res { pk := p, rk := ρ, gk := γ, pz := px, rz := r }

/-- the Hugoniot root of `shock_jump` is `rho_star_shock`, and it is the only root besides the
excluded ρ = ρ₀ -/
theorem hugoniot_root_partial {px p ρ γ r : ℝ} (hp : 0 < p) (hρ : 0 < ρ) (hγ : 1 < γ) (hpx : 0 < px)
    (hr : 0 < r) (hne : r ≠ ρ) :
    shockJump px p ρ γ r = 0 ↔ r = rhoShock px p ρ γ := by
  obtain ⟨g, hg, rfl⟩ : ∃ g, 0 < g ∧ γ = 1 + g := ⟨γ - 1, by linarith, by ring⟩
  have hD : 0 < px * g + p * (g + 2) := by positivity
  have hd : r - ρ ≠ 0 := sub_ne_zero.mpr hne
  have e : shockJump px p ρ (1 + g) r = (r * (px * g + p * (g + 2)) - ρ * (p * g + px * (g + 2))) / (2 * g * ρ * r) := by
    simp only [shockJump, epv_tree, epv_leaf]
    have e1 : (1 + g - 1) = g := by ring
    rw [e1]; field_simp; ring
  rw [e, rhoShock_eq, div_eq_zero_iff]
  have e1 : (1 + g - 1) = g := by ring
  have e2 : (1 + g + 1) = g + 2 := by ring
  rw [e1, e2]
  constructor
  · rintro (h | h)
    · rw [eq_div_iff hD.ne']; linarith
    · exact absurd h (by positivity)
  · intro h
    left; rw [eq_div_iff hD.ne'] at h; linarith

/-- the density the Hugoniot root yields is a different density whenever the pressures differ -/
theorem rhoShock_ne {px p ρ γ : ℝ} (hp : 0 < p) (hρ : 0 < ρ) (hγ : 1 < γ) (hpx : 0 < px) (h : px ≠ p) :
    rhoShock px p ρ γ ≠ ρ := by
  have hD : 0 < px * (γ - 1) + p * (γ + 1) := by nlinarith
  rw [rhoShock_eq, Ne, div_eq_iff hD.ne']
  intro hh
  have : ρ * (2 * (px - p)) = 0 := by linarith
  rcases mul_eq_zero.mp this with h1 | h1
  · exact hρ.ne' h1
  · exact h (by linarith)

/-- non-vacuity -/
example : (0:ℝ) < 1 ∧ (0:ℝ) < 1 ∧ (1:ℝ) < 7/5 ∧ (0:ℝ) < 3/10 := by norm_num

end EPV.C07
