/-
C07 (partial) — the ideal-gas and the general-EOS Riemann solvers agree on ideal-gas data.

The general-EOS driver builds its wave curves numerically: `match_shocks` finds the Hugoniot
density as a root of `shock_jump` (scipy `bisect`) and the star velocity from `star_velocity`;
`r_int_call` integrates `drdp_dudp` (scipy `ode`).  Proved here, for `problem = 'igeos'`:

* `hugoniot_root_partial`  — for given post-shock pressure the ONLY density (≠ ρ₀) that zeroes
  `shock_jump` is the closed form `rho_star_shock` of the ideal-gas solver;
* `star_velocity_partial`  — at that density `star_velocity` (called with arrays, as
  `match_shocks` does) equals u₀ ∓ the ideal-gas wave function `shock(px, p₀, ρ₀, 0, γ)`;
* `rarefaction_ode_partial` — the closed forms `rho_star_rarefaction` and `rarefaction` satisfy
  the ODE system `drdp_dudp` (wave_sign -1 for the left state, +1 for the right) with the right
  initial values.
Hence, with exact atoms (root finder, ODE integrator), both drivers build the same wave curves.

PARTIAL: the property also covers the P–U table interpolation (`interp` over `num_int_pts`
samples), the intersection found by `bisect` on the interpolants and the array splicing of
`RiemannGenEOS.driver`; these are numerical atoms / grid logic outside the model.  The numerical
agreement of the two public solvers is checked by the oracle `o_riemann.ig_vs_gen`.
-/
import EPV.Lemmas.Riemann
import EPV.Lemmas.Bridge.RiemannGen
import EPV.Gen.RiemShockJumpIG
import EPV.Gen.RiemStarVelIG
import EPV.Gen.RiemOdeIG
import EPV.Gen.RiemRhoRareD
import EPV.Gen.RiemRareD

set_option linter.all false

open EPV EPV.Gen EPV.Model EPV.Spec.Riemann EPV.Riem

namespace EPV.C07.Riemann

/-- `shock_jump(p₀, ρ₀, γ, px, ρ)` as a function of the trial density -/
noncomputable def shockJump (px p ρ γ r : ℝ) : ℝ :=
  RiemShockJumpIG.res { pk := p, rk := ρ, gk := γ, pz := px, rz := r }

/-- the Hugoniot root of `shock_jump` is `rho_star_shock`, and it is the only root besides the
excluded ρ = ρ₀ -/
theorem hugoniot_root_partial {px p ρ γ r : ℝ} (hp : 0 < p) (hρ : 0 < ρ) (hγ : 1 < γ) (hpx : 0 < px)
    (hr : 0 < r) (hne : r ≠ ρ) :
    shockJump px p ρ γ r = 0 ↔ r = rhoShock px p ρ γ := by
  obtain ⟨g, hg, rfl⟩ : ∃ g, 0 < g ∧ γ = 1 + g := ⟨γ - 1, by linarith, by ring⟩
  have hD : 0 < px * g + p * (g + 2) := by positivity
  have hd : r - ρ ≠ 0 := sub_ne_zero.mpr hne
  have e : shockJump px p ρ (1 + g) r = (r * (px * g + p * (g + 2)) - ρ * (p * g + px * (g + 2))) / (2 * g * ρ * r) := by
    simp only [shockJump, Bridge.Riem.shockJumpIG_eq, Bridge.Riem.jumpForm]
    have e1 : (1 + g - 1) = g := by ring
    rw [e1]; field_simp; ring
  rw [e, rhoShock_eq, div_eq_zero_iff]
  have e1 : (1 + g - 1) = g := by ring
  have e2 : (1 + g + 1) = g + 2 := by ring
  rw [e1, e2]
  constructor
  · rintro (h | h)
    · rw [eq_div_iff hD.ne']; linarith
    · exact absurd h (by positivity)
  · intro h
    left; rw [eq_div_iff hD.ne'] at h; linarith

/-- the density the Hugoniot root yields is a different density whenever the pressures differ -/
theorem rhoShock_ne {px p ρ γ : ℝ} (hp : 0 < p) (hρ : 0 < ρ) (hγ : 1 < γ) (hpx : 0 < px) (h : px ≠ p) :
    rhoShock px p ρ γ ≠ ρ := by
  have hD : 0 < px * (γ - 1) + p * (γ + 1) := by nlinarith
  rw [rhoShock_eq, Ne, div_eq_iff hD.ne']
  intro hh
  have : ρ * (2 * (px - p)) = 0 := by linarith
  rcases mul_eq_zero.mp this with h1 | h1
  · exact hρ.ne' h1
  · exact h (by linarith)



/-- the two relative speeds inside `star_velocity`, at the Hugoniot density: m/ρ₀ and m/ρ₁ -/
theorem star_speeds {px p ρ γ : ℝ} (hp : 0 < p) (hρ : 0 < ρ) (hγ : 1 < γ) (hpx : p < px) :
    Real.sqrt (rhoShock px p ρ γ / ρ * (px - p) / (rhoShock px p ρ γ - ρ)) = mflux px p ρ γ / ρ ∧
    Real.sqrt (ρ / rhoShock px p ρ γ * (p - px) / (ρ - rhoShock px p ρ γ)) = mflux px p ρ γ / rhoShock px p ρ γ := by
  have hN := NN_pos hp hγ (lt_trans hp hpx).le
  have hm := mflux_pos hρ hN
  have hm2 := mflux_sq hρ hN
  generalize mflux px p ρ γ = m at *
  obtain ⟨d, hd0, rfl⟩ : ∃ d, 0 < d ∧ px = p + d := ⟨px - p, by linarith, by ring⟩
  obtain ⟨g, hg, rfl⟩ : ∃ g, 0 < g ∧ γ = 1 + g := ⟨γ - 1, by linarith, by ring⟩
  have e1 : (1 + g - 1) = g := by ring
  have e2 : (1 + g + 1) = g + 2 := by ring
  have e3 : p + d - p = d := by ring
  have e4 : p - (p + d) = -d := by ring
  have hr : rhoShock (p + d) p ρ (1 + g) = ρ * (p * g + (p + d) * (g + 2)) / ((p + d) * g + p * (g + 2)) := by
    rw [rhoShock_eq, e1, e2]
  have hr0 : 0 < rhoShock (p + d) p ρ (1 + g) := by rw [hr]; positivity
  have hD : 0 < (p + d) * g + p * (g + 2) := by positivity
  have hdiff : rhoShock (p + d) p ρ (1 + g) - ρ = 2 * ρ * d / ((p + d) * g + p * (g + 2)) := by
    rw [hr]; field_simp; ring
  have hdiff' : ρ - rhoShock (p + d) p ρ (1 + g) = -(2 * ρ * d / ((p + d) * g + p * (g + 2))) := by
    rw [← hdiff]; ring
  unfold NN at hm2; rw [e1, e2] at hm2
  rw [e3, e4, hdiff, hdiff']
  constructor
  · rw [show rhoShock (p + d) p ρ (1 + g) / ρ * d / (2 * ρ * d / ((p + d) * g + p * (g + 2))) = (m / ρ) ^ 2 by
      rw [div_pow, hm2, hr]; field_simp; ring]
    exact Real.sqrt_sq (by positivity)
  · rw [show ρ / rhoShock (p + d) p ρ (1 + g) * -d / -(2 * ρ * d / ((p + d) * g + p * (g + 2)))
        = (m / rhoShock (p + d) p ρ (1 + g)) ^ 2 by
      rw [div_pow, hm2, hr]; field_simp; ring]
    exact Real.sqrt_sq (by positivity)

/-- the arguments `match_shocks` passes to `star_velocity` at the Hugoniot density -/
noncomputable def starArgs (q : Prob) (px p ρ u γ : ℝ) : RiemStarVelIG.P :=
  { pk := p, rk := ρ, uk := u, pz := px, rz := rhoShock px p ρ γ, pl := q.pl, rl := q.rl, ul := q.ul }

/-- the sign of `shock_speed`/`star_velocity` (-1 on the left state) is opposite to the fan's -/
private theorem sideSgn_fanSgn (q : Prob) (p ρ u : ℝ) :
    Bridge.Riem.sideSgn p ρ u q.pl q.rl q.ul = -fanSgn q p ρ u := by
  unfold Bridge.Riem.sideSgn fanSgn
  by_cases h0 : p = q.pl <;> by_cases h1 : ρ = q.rl <;> by_cases h2 : u = q.ul <;> simp [h0, h1, h2]

/-- `star_velocity` at the Hugoniot density is the ideal-gas solver's u₀ ∓ `shock(px, p₀, ρ₀, 0, γ)`
(- on the left state, + otherwise: the sign of the `==` side detection) -/
theorem star_velocity_partial (q : Prob) {px p ρ u γ : ℝ} (hp : 0 < p) (hρ : 0 < ρ) (hγ : 1 < γ) (hpx : p < px) :
    RiemStarVelIG.u (starArgs q px p ρ u γ) = u + -fanSgn q p ρ u * shock px p ρ 0 γ := by
  obtain ⟨w0, w1⟩ := star_speeds hp hρ hγ hpx
  have hpx0 : 0 < px := lt_trans hp hpx
  have hN := NN_pos hp hγ hpx0.le
  have hm := mflux_pos hρ hN
  have hm2 := mflux_sq hρ hN
  have hD : 0 < px * (γ - 1) + p * (γ + 1) := by nlinarith
  have hNp : 0 < p * (γ - 1) + px * (γ + 1) := by nlinarith
  have hr0 : 0 < rhoShock px p ρ γ := by rw [rhoShock_eq]; positivity
  have key : mflux px p ρ γ / ρ - mflux px p ρ γ / rhoShock px p ρ γ = (px - p) / mflux px p ρ γ := by
    have hr : rhoShock px p ρ γ = ρ * (p * (γ - 1) + px * (γ + 1)) / (px * (γ - 1) + p * (γ + 1)) := rhoShock_eq ..
    unfold NN at hm2
    generalize mflux px p ρ γ = m at *
    rw [hr]; field_simp
    nlinarith [hm2]
  rw [shock_mflux hρ (by linarith) hN, ← key, ← w0, ← w1]
  -- shape-independent: `star_velocity` through its bridge (`EPV.Lemmas.Bridge.RiemannGen`), whatever the
  -- order of the `==` tests and the way the sign is applied
  rw [Bridge.Riem.starVelIG_eq]
  simp only [starArgs, Bridge.Riem.relSpeed]
  rw [sideSgn_fanSgn]; ring

theorem starvel_leaves : RiemStarVelIG.okLeaves = [0, 1, 2, 3] := rfl

/-! ### the closed-form rarefaction solves `drdp_dudp` -/

/-- the right-hand side of the ODE system at pressure `px` on the closed-form isentrope through
(p, ρ): `drdp_dudp(px, [rho_star_rarefaction(px), ·], γ, ws)` -/
noncomputable def odeArgs (px p ρ γ ws : ℝ) : RiemOdeIG.P :=
  { pz := px, rz := rhoRare px p ρ γ, gk := γ, ws := ws }

/-- dρ/dp = 1/a² along the closed-form isentrope (derivative of the documented `rho_star_rarefaction`, `rhoRare_eq`),
and ρ(p₀) = ρ₀ -/
theorem rarefaction_ode_density_partial {px p ρ γ : ℝ} (hp : 0 < p) (hρ : 0 < ρ) (hγ : 1 < γ) (hpx : 0 < px) (ws : ℝ) :
    HasDerivAt (fun x => rhoRare x p ρ γ) (RiemOdeIG.drdp (odeArgs px p ρ γ ws)) px ∧ rhoRare p p ρ γ = ρ := by
  have hz : 0 < px / p := by positivity
  have hγ0 : 0 < γ := by linarith
  constructor
  · -- shape-independent: differentiate the documented closed form (`rhoRare_eq`) with the combinators the
    -- generated certificate is built from; the ODE right-hand side through its bridge
    have cert : HasDerivAt (fun x => ρ * (x / p) ^ (1 / γ)) (ρ * (1 / p * (1 / γ) * ((px / p) ^ (1 / γ) / (px / p)))) px :=
      EPV.D.const_mul ρ (EPV.D.rpow_const (EPV.D.div_const (hasDerivAt_id' px) p) (1 / γ) hz)
    have e : (fun x => rhoRare x p ρ γ) = fun x => ρ * (x / p) ^ (1 / γ) := by
      funext x; exact rhoRare_eq x p ρ γ
    rw [e]
    refine cert.congr_deriv ?_
    have hB : 0 < (px / p) ^ (1 / γ) := Real.rpow_pos_of_pos hz _
    simp only [odeArgs, Bridge.Riem.odeIG_drdp_eq, rhoRare_eq]
    rw [Real.sq_sqrt (by positivity)]
    generalize (px / p) ^ (1 / γ) = B at *
    field_simp
  · rw [rhoRare_eq, div_self hp.ne', Real.one_rpow, mul_one]

/-- du/dp = ws/(ρ a) along the closed-form wave function: ws = -1 for the left wave
(`rarefaction(px, p, ρ, u, γ)`), and u(p₀) = u₀ -/
theorem rarefaction_ode_velocity_partial {px p ρ γ : ℝ} (u : ℝ) (hp : 0 < p) (hρ : 0 < ρ) (hγ : 1 < γ) (hpx : 0 < px) :
    HasDerivAt (fun x => rare x p ρ u γ) (RiemOdeIG.dudp (odeArgs px p ρ γ (-1))) px ∧ rare p p ρ u γ = u := by
  have hz : 0 < px / p := by positivity
  have hγ0 : 0 < γ := by linarith
  constructor
  · have cert : HasDerivAt (fun x => 2 * Real.sqrt (γ * p / ρ) / (γ - 1) * (1 - (x / p) ^ ((γ - 1) / 2 / γ)) + u)
        (2 * Real.sqrt (γ * p / ρ) / (γ - 1) * -(1 / p * ((γ - 1) / 2 / γ) * ((px / p) ^ ((γ - 1) / 2 / γ) / (px / p)))) px :=
      EPV.D.add_const (EPV.D.const_mul (2 * Real.sqrt (γ * p / ρ) / (γ - 1))
        (EPV.D.const_sub (1 : ℝ) (EPV.D.rpow_const (EPV.D.div_const (hasDerivAt_id' px) p) ((γ - 1) / 2 / γ) hz))) u
    have e : (fun x => rare x p ρ u γ)
        = fun x => 2 * Real.sqrt (γ * p / ρ) / (γ - 1) * (1 - (x / p) ^ ((γ - 1) / 2 / γ)) + u := by
      funext x; exact rare_eq x p ρ u γ
    rw [e]
    refine cert.congr_deriv ?_
    have hs := sound_on_isentrope hp hρ hγ hpx
    rw [sound_eq, sound_eq] at hs
    have ha : 0 < Real.sqrt (γ * p / ρ) := Real.sqrt_pos.mpr (by positivity)
    have ha2 : Real.sqrt (γ * p / ρ) ^ 2 = γ * p / ρ := Real.sq_sqrt (by positivity)
    have hA : 0 < (px / p) ^ ((γ - 1) / 2 / γ) := Real.rpow_pos_of_pos hz _
    have hB : 0 < (px / p) ^ (1 / γ) := Real.rpow_pos_of_pos hz _
    have key : (px / p) ^ ((γ - 1) / 2 / γ) * (px / p) ^ ((γ - 1) / 2 / γ) * (px / p) ^ (1 / γ) = px / p := by
      rw [← Real.rpow_add hz, ← Real.rpow_add hz]
      have : (γ - 1) / 2 / γ + (γ - 1) / 2 / γ + 1 / γ = 1 := by field_simp; ring
      rw [this, Real.rpow_one]
    simp only [odeArgs, Bridge.Riem.odeIG_dudp_eq]
    rw [hs]
    simp only [rhoRare_eq]
    generalize Real.sqrt (γ * p / ρ) = a at *
    generalize (px / p) ^ ((γ - 1) / 2 / γ) = A at *
    generalize (px / p) ^ (1 / γ) = B at *
    have hpx' : px = p * (A * A * B) := by rw [key]; field_simp
    have hρ' : ρ = γ * p / a ^ 2 := by rw [ha2]; field_simp
    have hg1 : γ - 1 ≠ 0 := by linarith
    rw [hpx', hρ']
    field_simp
  · rw [rare_eq, div_self hp.ne', Real.one_rpow]; ring

/-- the right wave: the ideal-gas solver's u = u₀ - rarefaction(px, p, ρ, 0, γ) satisfies du/dp = +1/(ρ a) -/
theorem rarefaction_ode_velocity_right_partial {px p ρ γ : ℝ} (u : ℝ) (hp : 0 < p) (hρ : 0 < ρ) (hγ : 1 < γ)
    (hpx : 0 < px) :
    HasDerivAt (fun x => u + -1 * rare x p ρ 0 γ) (RiemOdeIG.dudp (odeArgs px p ρ γ 1)) px := by
  have h := (rarefaction_ode_velocity_partial 0 hp hρ hγ hpx).1
  have h2 := (h.const_mul (-1 : ℝ)).const_add u
  refine h2.congr_deriv ?_
  simp only [odeArgs, Bridge.Riem.odeIG_dudp_eq]; ring

/-- non-vacuity -/
example : (0:ℝ) < 1 ∧ (0:ℝ) < 1 ∧ (1:ℝ) < 7/5 ∧ (0:ℝ) < 3/10 := by norm_num

end EPV.C07.Riemann
