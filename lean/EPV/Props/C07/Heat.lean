/-
C07 (heat share) — independent routes agree:

  * PlanarSandwich / PlanarSandwichHot / PlanarSandwichHalf  =  Rod1D with the boundary parameters their
    constructors derive (traced: `SandwichInit`, `SandwichHotInit`, `SandwichHalfInit`):
        PlanarSandwich      (TB, TT)  ↦ (α₁,β₁,γ₁ | α₂,β₂,γ₂) = (1, 0, TB | 1, 0, TT)     → BC1
        PlanarSandwichHot   (F)       ↦ (0, 1, F  | 0, 1, F )                              → BC2
        PlanarSandwichHalf  (TB, FT)  ↦ (1, 0, TB | 0, 1, FT)                              → BC3
    The mapping does not involve N.  With it, the traced end-to-end models (constructor + `_run`, Nsum = 3) of the
    three sandwiches equal the traced end-to-end model of Rod1D (`Rod3`) at the mapped parameters, and both equal
    the hand model `rodBC1/2/3 3`; for general N the sandwich classes inherit `modes_BC*` and `_run` unchanged, so
    the statement is the hand model's `rodBC? N` at the mapped parameters (the tie `o_heat.tie_sandwich` runs the
    real sandwich classes against it at random N).
  * Rod BC3 at x  =  Rod BC4 with the ends exchanged at L − x, TERM BY TERM for every truncation order N
    (`cos((2n+1)π/2) = 0`, `sin((2n+1)π/2) = (−1)^n`):  `rodBC3_eq_mirror_rodBC4`.
-/
import EPV.Lemmas.HeatSeries
import EPV.Lemmas.HeatTraced
import EPV.Gen.SandwichInit
import EPV.Gen.SandwichHotInit
import EPV.Gen.SandwichHalfInit
import EPV.Gen.Sandwich3
import EPV.Gen.SandwichHot3
import EPV.Gen.SandwichHalf3
import EPV.Gen.Rod3
import EPV.Tactics
import EPV.Lemmas.Bridge.HeatTac

set_option linter.all false

open EPV EPV.Gen EPV.Spec.Heat EPV.Model.HeatSeries EPV.Lemmas.Heat Finset

namespace EPV.C07

noncomputable section

/-! ### constructor mappings (independent of N) -/

/-- `PlanarSandwich.__init__`: (TB, TT) ↦ (1, 0, TB | 1, 0, TT), everything else unchanged -/
theorem sandwich_mapping (p : SandwichInit.P) :
    SandwichInit.alpha1 p = 1 ∧ SandwichInit.beta1 p = 0 ∧ SandwichInit.gamma1 p = p.TB
      ∧ SandwichInit.alpha2 p = 1 ∧ SandwichInit.beta2 p = 0 ∧ SandwichInit.gamma2 p = p.TT
      ∧ SandwichInit.TL p = p.TL ∧ SandwichInit.TR p = p.TR ∧ SandwichInit.L p = p.L ∧ SandwichInit.kappa p = p.kappa
      ∧ SandwichInit.outcome p = .ok := by
  simp [epv_tree, epv_leaf]

/-- `PlanarSandwichHot.__init__`: F ↦ (0, 1, F | 0, 1, F) -/
theorem sandwichHot_mapping (p : SandwichHotInit.P) :
    SandwichHotInit.alpha1 p = 0 ∧ SandwichHotInit.beta1 p = 1 ∧ SandwichHotInit.gamma1 p = p.F
      ∧ SandwichHotInit.alpha2 p = 0 ∧ SandwichHotInit.beta2 p = 1 ∧ SandwichHotInit.gamma2 p = p.F
      ∧ SandwichHotInit.TL p = p.TL ∧ SandwichHotInit.TR p = p.TR ∧ SandwichHotInit.L p = p.L
      ∧ SandwichHotInit.kappa p = p.kappa ∧ SandwichHotInit.outcome p = .ok := by
  simp [epv_tree, epv_leaf]

/-- `PlanarSandwichHalf.__init__`: (TB, FT) ↦ (1, 0, TB | 0, 1, FT) -/
theorem sandwichHalf_mapping (p : SandwichHalfInit.P) :
    SandwichHalfInit.alpha1 p = 1 ∧ SandwichHalfInit.beta1 p = 0 ∧ SandwichHalfInit.gamma1 p = p.TB
      ∧ SandwichHalfInit.alpha2 p = 0 ∧ SandwichHalfInit.beta2 p = 1 ∧ SandwichHalfInit.gamma2 p = p.FT
      ∧ SandwichHalfInit.TL p = p.TL ∧ SandwichHalfInit.TR p = p.TR ∧ SandwichHalfInit.L p = p.L
      ∧ SandwichHalfInit.kappa p = p.kappa ∧ SandwichHalfInit.outcome p = .ok := by
  simp [epv_tree, epv_leaf]

/-- the coefficients the sandwich constructor stores are those of the rod model at the mapped parameters (n < 3) -/
theorem sandwich_coefficients (p : SandwichInit.P) :
    let r : RodP ℝ := ⟨p.kappa, p.L, p.TL, p.TR, 1, 0, p.TB, 1, 0, p.TT⟩
    SandwichInit.kn0 p = knInt r.L 0 ∧ SandwichInit.kn1 p = knInt r.L 1 ∧ SandwichInit.kn2 p = knInt r.L 2
      ∧ SandwichInit.Bn0 p = bc1B r 0 ∧ SandwichInit.Bn1 p = bc1B r 1 ∧ SandwichInit.Bn2 p = bc1B r 2
      ∧ SandwichInit.An0 p = 0 ∧ SandwichInit.An1 p = 0 ∧ SandwichInit.An2 p = 0 := by
  intro r
  simp only [knInt_real, bc1B_real, epv_tree, epv_leaf, r]
  heat_num_conj

/-! ### end-to-end traces (Nsum = 3) against the hand model -/

theorem sandwich3_eq_model (p : Sandwich3.P) (x t : ℝ) :
    Sandwich3.temperature p x t = rodBC1 3 (sandwichP p) x t := sandwich3_model p x t

theorem sandwichHot3_eq_model (p : SandwichHot3.P) (x t : ℝ) :
    SandwichHot3.temperature p x t = rodBC2 3 (sandwichHotP p) x t := sandwichHot3_model p x t

theorem sandwichHalf3_eq_model (p : SandwichHalf3.P) (x t : ℝ) :
    SandwichHalf3.temperature p x t = rodBC3 3 (sandwichHalfP p) x t := sandwichHalf3_model p x t

theorem rod3_bc1 (q : Rod3.P) (x t : ℝ) (h1 : q.alpha1 ≠ 0) (h2 : q.beta1 = 0) (h3 : q.alpha2 ≠ 0) (h4 : q.beta2 = 0) :
    Rod3.temperature q x t = rodBC1 3 (rod3P q) x t ∧ Rod3.outcome q x t = .ok := rod3_bc1_model q x t h1 h2 h3 h4

theorem rod3_bc2 (q : Rod3.P) (x t : ℝ) (h1 : q.alpha1 = 0) (h2 : q.beta1 ≠ 0) (h3 : q.alpha2 = 0) (h4 : q.beta2 ≠ 0)
    (hF : q.gamma1 / q.beta1 = q.gamma2 / q.beta2) :
    Rod3.temperature q x t = rodBC2 3 (rod3P q) x t ∧ Rod3.outcome q x t = .ok := rod3_bc2_model q x t h1 h2 h3 h4 hF

theorem rod3_bc3 (q : Rod3.P) (x t : ℝ) (h1 : q.alpha1 ≠ 0) (h2 : q.beta1 = 0) (h3 : q.alpha2 = 0) (h4 : q.beta2 ≠ 0) :
    Rod3.temperature q x t = rodBC3 3 (rod3P q) x t ∧ Rod3.outcome q x t = .ok := rod3_bc3_model q x t h1 h2 h3 h4

theorem rod3_bc4 (q : Rod3.P) (x t : ℝ) (h1 : q.alpha1 = 0) (h2 : q.beta1 ≠ 0) (h3 : q.alpha2 ≠ 0) (h4 : q.beta2 = 0) :
    Rod3.temperature q x t = rodBC4 3 (rod3P q) x t ∧ Rod3.outcome q x t = .ok := rod3_bc4_model q x t h1 h2 h3 h4

/-- **PlanarSandwich = Rod1D with the mapped parameters** (traced code against traced code, Nsum = 3) -/
theorem sandwich3_eq_rod3 (p : Sandwich3.P) (x t μ0 μ1 μ2 : ℝ) :
    Sandwich3.temperature p x t
      = Rod3.temperature ⟨p.L, p.TL, p.TR, 1, 1, 0, 0, p.TB, p.TT, p.kappa, μ0, μ1, μ2⟩ x t := by
  rw [sandwich3_eq_model, (rod3_bc1 _ x t (by norm_num) rfl (by norm_num) rfl).1]
  rfl

theorem sandwichHot3_eq_rod3 (p : SandwichHot3.P) (x t μ0 μ1 μ2 : ℝ) :
    SandwichHot3.temperature p x t
      = Rod3.temperature ⟨p.L, p.TL, p.TR, 0, 0, 1, 1, p.F, p.F, p.kappa, μ0, μ1, μ2⟩ x t := by
  rw [sandwichHot3_eq_model, (rod3_bc2 _ x t rfl (by norm_num) rfl (by norm_num) rfl).1]
  rfl

theorem sandwichHalf3_eq_rod3 (p : SandwichHalf3.P) (x t μ0 μ1 μ2 : ℝ) :
    SandwichHalf3.temperature p x t
      = Rod3.temperature ⟨p.L, p.TL, p.TR, 1, 0, 0, 1, p.TB, p.FT, p.kappa, μ0, μ1, μ2⟩ x t := by
  rw [sandwichHalf3_eq_model, (rod3_bc3 _ x t (by norm_num) rfl rfl (by norm_num)).1]
  rfl

/-! ### BC3 is the mirror image of BC4, term by term, every N -/

/-- exchange the ends: x ↦ L − x swaps the initial end temperatures, moves each boundary condition to the other
end and reverses the sign of the prescribed flux -/
def mirror (p : RodP ℝ) : RodP ℝ := ⟨p.κ, p.L, p.TR, p.TL, p.α2, p.β2, -p.γ2, p.α1, p.β1, p.γ1⟩

/-- coefficient relation `B³_n = (−1)^n A⁴_n(mirror)` -/
theorem bc3B_eq_mirror (p : RodP ℝ) (n : ℕ) : bc3B p n = (-1) ^ n * bc4A (mirror p) n := by
  rw [bc3B_real, bc4A_real]
  simp only [mirror, neg_div]
  have h : ((-1 : ℝ) ^ n) * ((-1) ^ n) = 1 := by rw [← mul_pow]; norm_num
  linear_combination (-(4 * (p.TL - p.γ1 / p.α1) / ((2 * (n : ℝ) + 1) * Real.pi))) * h

/-- **Rod BC3 at x = Rod BC4 with the ends exchanged at L − x**, every N, all parameters (L ≠ 0), all x and t -/
theorem rodBC3_eq_mirror_rodBC4 (N : ℕ) (p : RodP ℝ) (hL : p.L ≠ 0) (x t : ℝ) :
    rodBC3 N p x t = rodBC4 N (mirror p) (p.L - x) t := by
  unfold rodBC3 rodBC4
  rw [rodSeries_real, rodSeries_real]
  have hst : bc3Static p x = bc4Static (mirror p) (p.L - x) := by
    rw [bc3Static_real, bc4Static_real]
    simp only [mirror, neg_div]
    ring
  rw [hst]
  congr 1
  refine Finset.sum_congr rfl fun n _ => ?_
  have hk : knHalf (mirror p).L n = knHalf p.L n := rfl
  have hκ : (mirror p).κ = p.κ := rfl
  have hcos : Real.cos (knHalf p.L n * (p.L - x)) = (-1) ^ n * Real.sin (knHalf p.L n * x) := by
    rw [mul_sub, Real.cos_sub, cos_knHalf_L p.L hL, sin_knHalf_L p.L hL]
    ring
  rw [hk, hκ, hcos, bc3B_eq_mirror]
  try simp only [zeroCoef_real]
  ring

/-- non-vacuity: PlanarSandwichHalf defaults, L = 2 -/
example : (⟨1, 2, 3, 3, 1, 0, 1, 0, 1, 0⟩ : RodP ℝ).L ≠ 0 := by norm_num

end

end EPV.C07
