/-
C07 — independent routes to the same hydro solution agree, field by field, as theorems
between generated models:

* Noh  =  Coggeshall 19 with the same (γ, geometry, ρ₀, u₀): same branch, same density,
  velocity, pressure, specific internal energy, and T_Cog19 = (γ-1) e_Noh / Γ;
* Noh2 =  Noh2Cog (Noh's second problem through Coggeshall 1);
* Noh2Cog = Coggeshall 1 with b = 0, Γ = 1, T₀ = e₀ (γ-1)/Γ evaluated at time 1 - t with
  the velocity negated.

(The geometry-specific wrapper classes are in `Wrappers.lean`.)
-/
import EPV.Gen.Noh
import EPV.Gen.Cog19
import EPV.Gen.Noh2
import EPV.Gen.Noh2Cog
import EPV.Gen.Cog1
import EPV.Lemmas.HydroRobust
import EPV.Lemmas.Bridge.Noh
import EPV.Lemmas.Bridge.Cog19
import EPV.Tactics

set_option linter.all false

open EPV EPV.Gen
open Classical

namespace EPV.C07

/-! ### Noh = Coggeshall 19 -/

/-- the Noh problem with the parameters of a Coggeshall-19 problem -/
def nohOfCog19 (q : Cog19.P) : Noh.P := ⟨q.gamma, q.geometry, q.rho0, q.u0⟩

/-- both solvers put the shock at the same place (u₀ ≤ 0: |u₀| = -u₀) -/
theorem noh_cog19_branch (q : Cog19.P) (r t : ℝ) (hu : q.u0 ≤ 0) :
    Noh.c0 (nohOfCog19 q) r t ↔ Cog19.c0 q r t := by
  rw [EPV.Bridge.noh_c0_iff, EPV.Bridge.cog19_c0_iff]
  simp only [nohOfCog19, abs_of_nonpos hu]
  constructor <;> intro h <;> linarith

theorem noh_cog19_outcome (q : Cog19.P) (r t : ℝ) :
    Noh.outcome (nohOfCog19 q) r t = .ok ∧ Cog19.outcome q r t = .ok := by
  constructor <;> simp only [epv_tree] <;> split_ifs <;> rfl

/-- Noh and Coggeshall 19 return the same fields, for u₀ ≤ 0, γ > 1, ρ₀ ≠ 0, Γ ≠ 0 at every
r ≠ 0 and every t (every real geometry exponent); the Coggeshall temperature is the Noh
energy through e = Γ T / (γ - 1). -/
theorem noh_eq_cog19 (q : Cog19.P) (r t : ℝ) (hu : q.u0 ≤ 0) (hγ : 1 < q.gamma) (hρ : q.rho0 ≠ 0)
    (hΓ : q.Gamma ≠ 0) (hr : r ≠ 0) :
    Noh.density (nohOfCog19 q) r t = Cog19.density q r t ∧
    Noh.velocity (nohOfCog19 q) r t = Cog19.velocity q r t ∧
    Noh.pressure (nohOfCog19 q) r t = Cog19.pressure q r t ∧
    Noh.specific_internal_energy (nohOfCog19 q) r t = Cog19.specific_internal_energy q r t ∧
    Cog19.temperature q r t = (q.gamma - 1) * Noh.specific_internal_energy (nohOfCog19 q) r t / q.Gamma ∧
    Noh.position (nohOfCog19 q) r t = Cog19.position q r t := by
  have hb := noh_cog19_branch q r t hu
  have hA : 0 < (q.gamma + 1) / (q.gamma - 1) := div_pos (by linarith) (by linarith)
  have hg1 : q.gamma - 1 ≠ 0 := by linarith
  have hg2 : 0 < q.gamma - 1 := by linarith
  have hg3 : 0 < q.gamma + 1 := by linarith
  simp only [epv_tree, hb]
  refine ⟨?_, ?_, ?_, ?_, ?_, ?_⟩ <;> split_ifs <;>
    simp only [epv_leaf, nohOfCog19, abs_of_nonpos hu] <;> epv_hydro_closed

example : ∃ q : Cog19.P, ∃ r : ℝ, q.u0 ≤ 0 ∧ 1 < q.gamma ∧ q.rho0 ≠ 0 ∧ q.Gamma ≠ 0 ∧ r ≠ 0 :=
  ⟨⟨40, 1, 1, 1, 1, 7 / 5, 3, 1, 9 / 5, -23 / 10⟩, 1, by norm_num, by norm_num, by norm_num, by norm_num, by norm_num⟩

/-! ### Noh2 = Noh2Cog -/

/-- the same four parameters, read by the Coggeshall-form class -/
def noh2cogOf (p : Noh2.P) : Noh2Cog.P := ⟨p.e0, p.gamma, p.geometry, p.rho0⟩

/-- the two classes accept and reject the same requests (geometry ∈ {1,2,3}): ValueError for
t ≥ 1, fields otherwise -/
theorem noh2_noh2cog_outcome (p : Noh2.P) (r t : ℝ)
    (hg : p.geometry = 1 ∨ p.geometry = 2 ∨ p.geometry = 3) :
    Noh2Cog.outcome (noh2cogOf p) r t = Noh2.outcome p r t := by
  have hc4 : (1 - t ≤ 0) ↔ (1 ≤ t) := by constructor <;> intro h <;> linarith
  simp only [epv_tree, epv_cond, noh2cogOf, hc4]
  rcases hg with h | h | h <;> simp only [h] <;> norm_num <;> split_ifs <;> simp [*]

/-- Noh2 and its Coggeshall form return the same fields for t < 1 (γ ≠ 1 and ρ₀ ≠ 0 because
the Coggeshall route divides by γ - 1 and by the density) -/
theorem noh2_eq_noh2cog (p : Noh2.P) (r t : ℝ)
    (hg : p.geometry = 1 ∨ p.geometry = 2 ∨ p.geometry = 3) (ht : t < 1) (hγ : p.gamma ≠ 1) (hρ : p.rho0 ≠ 0) :
    Noh2Cog.density (noh2cogOf p) r t = Noh2.density p r t ∧
    Noh2Cog.velocity (noh2cogOf p) r t = Noh2.velocity p r t ∧
    Noh2Cog.pressure (noh2cogOf p) r t = Noh2.pressure p r t ∧
    Noh2Cog.specific_internal_energy (noh2cogOf p) r t = Noh2.specific_internal_energy p r t ∧
    Noh2Cog.position (noh2cogOf p) r t = Noh2.position p r t := by
  have h1 : 0 < 1 - t := by linarith
  have hg1 : p.gamma - 1 ≠ 0 := sub_ne_zero.mpr hγ
  have c1 : ¬ (1 ≤ t) := by linarith
  have c4 : ¬ (1 - t ≤ 0) := by linarith
  simp only [epv_tree, epv_cond, noh2cogOf, c1, c4, if_false]
  refine ⟨?_, ?_, ?_, ?_, ?_⟩ <;> split_ifs <;> (try simp only [epv_leaf, pow_zero])
  all_goals first
    | (exfalso; tauto)
    | epv_hydro_closed

example : ∃ p : Noh2.P, ∃ t : ℝ, (p.geometry = 1 ∨ p.geometry = 2 ∨ p.geometry = 3) ∧ t < 1 ∧ p.gamma ≠ 1 ∧ p.rho0 ≠ 0 :=
  ⟨⟨1, 5 / 3, 3, 1⟩, 1 / 2, by norm_num, by norm_num, by norm_num, by norm_num⟩

/-! ### Noh2Cog = Coggeshall 1 at b = 0, time reversed -/

/-- `q` is the Coggeshall-1 problem that `Noh2Cog.__init__` sets up from `p`: b = 0, Γ = 1 (class
attributes), T₀ = e₀ (γ-1)/Γ (constructor), everything else copied.  (The four conduction symbols
of the derived heat flux in `Cog1.P` do not enter the returned fields and are left free.) -/
def IsNoh2Cog1 (p : Noh2Cog.P) (q : Cog1.P) : Prop :=
  q.Gamma = 1 ∧ q.b = 0 ∧ q.gamma = p.gamma ∧ q.geometry = p.geometry ∧ q.rho0 = p.rho0 ∧
    q.temp0 = p.e0 * ((p.gamma - 1) / q.Gamma)

/-- Noh2Cog at time t is Coggeshall 1 (b = 0) at time 1 - t with the velocity negated: every
returned field, for geometry ∈ {1, 2, 3} and t < 1, all real γ, ρ₀, e₀, r. -/
theorem noh2cog_eq_cog1 (p : Noh2Cog.P) (q : Cog1.P) (r t : ℝ) (hq : IsNoh2Cog1 p q)
    (hg : p.geometry = 1 ∨ p.geometry = 2 ∨ p.geometry = 3) (ht : t < 1) :
    Noh2Cog.density p r t = Cog1.density q r (1 - t) ∧
    Noh2Cog.velocity p r t = -Cog1.velocity q r (1 - t) ∧
    Noh2Cog.temperature p r t = Cog1.temperature q r (1 - t) ∧
    Noh2Cog.pressure p r t = Cog1.pressure q r (1 - t) ∧
    Noh2Cog.specific_internal_energy p r t = Cog1.specific_internal_energy q r (1 - t) ∧
    Noh2Cog.position p r t = Cog1.position q r (1 - t) := by
  obtain ⟨hG, hb, hγ, hgeo, hρ, hT⟩ := hq
  have c1 : ¬ (1 ≤ t) := by linarith
  have c4 : ¬ (1 - t ≤ 0) := by linarith
  rw [hG] at hT
  simp only [epv_tree, epv_cond, c1, c4, if_false]
  refine ⟨?_, ?_, ?_, ?_, ?_, ?_⟩ <;> split_ifs <;>
    (try simp only [epv_leaf, hG, hb, hγ, hgeo, hρ, hT, neg_zero, Real.rpow_zero, pow_zero])
  all_goals first
    | (exfalso; tauto)
    | epv_hydro_closed

/-- both routes return numbers on that domain -/
theorem noh2cog_cog1_outcome (p : Noh2Cog.P) (q : Cog1.P) (r t : ℝ)
    (hg : p.geometry = 1 ∨ p.geometry = 2 ∨ p.geometry = 3) (ht : t < 1) :
    Noh2Cog.outcome p r t = .ok ∧ Cog1.outcome q r (1 - t) = .ok := by
  have c1 : ¬ (1 ≤ t) := by linarith
  have c4 : ¬ (1 - t ≤ 0) := by linarith
  simp only [epv_tree, epv_cond, c1, c4, if_false]
  refine ⟨?_, trivial⟩
  rcases hg with h | h | h <;> simp only [h] <;> norm_num

example : ∃ p : Noh2Cog.P, ∃ q : Cog1.P, ∃ t : ℝ,
    IsNoh2Cog1 p q ∧ (p.geometry = 1 ∨ p.geometry = 2 ∨ p.geometry = 3) ∧ t < 1 :=
  ⟨⟨1, 5 / 3, 3, 1⟩, ⟨1, 1, 1, 0, 1, 1, 5 / 3, 3, 1, 1, 2 / 3⟩, 1 / 2,
    ⟨rfl, rfl, rfl, rfl, rfl, by norm_num⟩, by norm_num, by norm_num⟩

end EPV.C07
