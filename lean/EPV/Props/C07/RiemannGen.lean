/-
C07 (P) — on ideal-gas data the GENERAL-EOS Riemann driver and the IDEAL-GAS driver agree: same wave pattern,
same wave speeds, same constant states, same fan profile.

Both sides are hand models over ℝ, each tied to its driver on every run:
`EPV.Model.RiemannGen` (general driver + `GenEOS_Solver`; tie `o_geneos.tie_geneos`) and `EPV.Model.RiemannIG`
(ideal-gas driver + `IGEOS_Solver`; tie `o_riemann.tie_assembly`).

With EXACT atoms (`EPV.Lemmas.RiemannGenExact`: the star density on a shock side is a root of the traced
`shock_jump` and the star velocity the traced `star_velocity` there; on a rarefaction side the star values and
all rows of the fan table lie on a solution of the traced ODE system `drdp_dudp` through the initial state;
the two P–U curves cross at `px`):

  * `isentrope_unique_ig`      the solution of `drdp_dudp` through `(p0, ρ0, u0)` is unique and is the closed form
                               of the ideal-gas solver: `ρ = rho_star_rarefaction`, `u = u0 ∓ rarefaction`
                               (the closed forms solve the ODE — `EPV.C07.Riemann.rarefaction_ode_*_partial`;
                               uniqueness: `ρ / ρ_closed` and `u - u_closed` have zero derivative);
  * `hugoniot_exact_ig`        the Hugoniot root is `rho_star_shock`, the star velocity `u0 ∓ shock`;
  * `gen_root_*`               `px` is a root of the residual `X_call` the ideal-gas driver hands to `bisect`;
  * `classify_of_root_*`, `gen_pattern_eq_ig_partial`
                               the ideal-gas driver's Gottlieb–Groth classification selects the pattern the general
                               driver reads off `px < p0` / `px > p0` (monotonicity of the four residuals);
  * `gen_vregs_eq_ig_*`        `Vregs` of the two drivers coincide;
  * `gen_eq_ig_*_partial`      the `reg_state_geos` sequence and the `reg_state` sequence return the same region
                               index and the same (p, ρ, u, e) at every grid node outside the smeared cells and off
                               the wave positions — in a fan: at the rows of the fan table.

PARTIAL (named `_partial`): conditional on the atoms being exact; between two rows of a fan table the general
driver interpolates linearly (tested by the oracle `o_geneos.ig_vs_gen` on the two public solvers, tolerance of
the table resolution); L ≠ R (`Distinct`, the known identical-states finding); the vacuum pattern and `px = p0`
(for which the general driver fails) are excluded by `0 < px`, `px ≠ pl`, `px ≠ pr`.
-/
import EPV.Lemmas.RiemannGenExact
import EPV.Lemmas.RiemannMono
import EPV.Lemmas.RiemannOrder
import EPV.Lemmas.RiemannIGBridge
import EPV.Props.C07.Riemann
import EPV.Props.C02.RiemannGen
import Mathlib.Analysis.Calculus.Deriv.MeanValue

set_option linter.all false

open EPV EPV.Gen EPV.Model EPV.Riem EPV.RiemGen

namespace EPV.C07.RiemannGen

open RiemannGen (Eos Jwl Atoms P3)
open EPV.C07.Riemann (hugoniot_root_partial star_velocity_partial starArgs rarefaction_ode_density_partial
  rarefaction_ode_velocity_partial rarefaction_ode_velocity_right_partial odeArgs star_speeds)

/-! ### uniqueness of the isentrope (ideal gas) -/

/-- a function with zero derivative on `[a, b]` is constant there -/
theorem const_of_hasDerivAt_zero {f : ℝ → ℝ} {a b : ℝ} (h : ∀ x ∈ Set.Icc a b, HasDerivAt f 0 x) :
    ∀ x ∈ Set.Icc a b, f x = f b := by
  intro x hx
  rcases hx.2.lt_or_eq with hlt | heq
  · have hsub : Set.Icc x b ⊆ Set.Icc a b := Set.Icc_subset_Icc_left hx.1
    obtain ⟨c, -, hc⟩ := exists_hasDerivAt_eq_slope f (fun _ => (0 : ℝ)) hlt
      (fun y hy => (h y (hsub hy)).continuousAt.continuousWithinAt)
      (fun y hy => h y (hsub (Set.Ioo_subset_Icc_self hy)))
    have hne : b - x ≠ 0 := by linarith
    have : f b - f x = 0 := by
      rcases div_eq_zero_iff.mp hc.symm with h0 | h0
      · exact h0
      · exact absurd h0 hne
    linarith
  · rw [heq]

/-- the ideal-gas closure switch gives the ideal-gas right-hand side -/
theorem odeR_ig (g p r ws : ℝ) : odeR eosIG g p r ws = RiemOdeIG.drdp { gk := g, pz := p, rz := r, ws := ws } := by
  simp [odeR, eosIG]
theorem odeU_ig (g p r ws : ℝ) : odeU eosIG g p r ws = RiemOdeIG.dudp { gk := g, pz := p, rz := r, ws := ws } := by
  simp [odeU, eosIG]

/-- **the density along any solution of `drdp_dudp` through `(p0, ρ0)` is `rho_star_rarefaction`** -/
theorem isentrope_density_ig {g ws p0 r0 u0 lo : ℝ} {R U : ℝ → ℝ} (hg : 1 < g) (hp0 : 0 < p0) (hr0 : 0 < r0)
    (hlo : 0 < lo) (h : IsentropeSolution eosIG g ws p0 r0 u0 lo R U) :
    ∀ p ∈ Set.Icc lo p0, R p = rhoRare p p0 r0 g := by
  have hg0 : 0 < g := by linarith
  -- the quotient R / ρ_closed has zero derivative
  have hq : ∀ p ∈ Set.Icc lo p0, HasDerivAt (fun x => R x / rhoRare x p0 r0 g) 0 p := by
    intro p hp
    have hpp : 0 < p := lt_of_lt_of_le hlo hp.1
    have hRp := h.pos p hp
    have hQ := (rarefaction_ode_density_partial hp0 hr0 hg hpp ws).1
    have hQpos : 0 < rhoRare p p0 r0 g := rhoRare_pos hp0 hr0 hpp
    have hR := h.hR p hp
    rw [odeR_ig] at hR
    have hdiv := hR.div hQ hQpos.ne'
    refine hdiv.congr_deriv ?_
    simp only [odeArgs, Bridge.Riem.odeIG_drdp_eq]
    rw [Real.sq_sqrt (by positivity), Real.sq_sqrt (by positivity)]
    field_simp
    ring
  intro p hp
  have hc := const_of_hasDerivAt_zero hq p hp
  beta_reduce at hc
  have hpp : 0 < p := lt_of_lt_of_le hlo hp.1
  have hQpos : 0 < rhoRare p p0 r0 g := rhoRare_pos hp0 hr0 hpp
  have e0 : rhoRare p0 p0 r0 g = r0 := (rarefaction_ode_density_partial hp0 hr0 hg hp0 ws).2
  rw [h.R0, e0, div_self hr0.ne', div_eq_one_iff_eq hQpos.ne'] at hc
  exact hc

/-- **… and the velocity is `u0 - ws · rarefaction(p, p0, ρ0, 0, γ)`** (`ws = -1` left wave, `+1` right wave) -/
theorem isentrope_velocity_ig {g ws p0 r0 u0 lo : ℝ} {R U : ℝ → ℝ} (hws : ws = 1 ∨ ws = -1) (hg : 1 < g) (hp0 : 0 < p0)
    (hr0 : 0 < r0) (hlo : 0 < lo) (h : IsentropeSolution eosIG g ws p0 r0 u0 lo R U) :
    ∀ p ∈ Set.Icc lo p0, U p = u0 - ws * rare p p0 r0 0 g := by
  have hR := isentrope_density_ig hg hp0 hr0 hlo h
  have hq : ∀ p ∈ Set.Icc lo p0, HasDerivAt (fun x => U x - (u0 - ws * rare x p0 r0 0 g)) 0 p := by
    intro p hp
    have hpp : 0 < p := lt_of_lt_of_le hlo hp.1
    have hU := h.hU p hp
    rw [odeU_ig, hR p hp] at hU
    rcases hws with rfl | rfl
    · have hc := rarefaction_ode_velocity_right_partial u0 hp0 hr0 hg hpp
      have hd := hU.sub hc
      refine (hd.congr_deriv ?_).congr_of_eventuallyEq ?_
      · simp only [odeArgs]; ring
      · exact Filter.Eventually.of_forall fun x => by simp only [Pi.sub_apply]; ring
    · have hc := (rarefaction_ode_velocity_partial 0 hp0 hr0 hg hpp).1
      have hd := hU.sub (hc.const_add u0)
      refine (hd.congr_deriv ?_).congr_of_eventuallyEq ?_
      · simp only [odeArgs]; ring
      · exact Filter.Eventually.of_forall fun x => by simp only [Pi.sub_apply]; ring
  intro p hp
  have hc := const_of_hasDerivAt_zero hq p hp
  beta_reduce at hc
  have e0 : rare p0 p0 r0 0 g = 0 := by rw [rare_self hp0.ne']
  rw [h.U0, e0] at hc
  linarith

/-- **exact atoms on a rarefaction side, ideal gas**: star values and every row of the fan table are the closed
forms of the ideal-gas solver -/
theorem fan_exact_ig {g ws p0 r0 u0 px rx ux : ℝ} {tab : List (P3 ℝ)} (hws : ws = 1 ∨ ws = -1) (hg : 1 < g)
    (hp0 : 0 < p0) (hr0 : 0 < r0) (h : FanAtom eosIG g ws p0 r0 u0 px rx ux tab) :
    rx = rhoRare px p0 r0 g ∧ ux = u0 - ws * rare px p0 r0 0 g ∧
    ∀ q ∈ tab, q.p ∈ Set.Icc px p0 ∧ q.r = rhoRare q.p p0 r0 g ∧ q.u = u0 - ws * rare q.p p0 r0 0 g := by
  obtain ⟨hlo, hle, R, U, hsol, hRx, hUx, htab⟩ := h
  have hR := isentrope_density_ig hg hp0 hr0 hlo hsol
  have hU := isentrope_velocity_ig hws hg hp0 hr0 hlo hsol
  refine ⟨?_, ?_, ?_⟩
  · rw [← hRx]; exact hR px ⟨le_rfl, hle⟩
  · rw [← hUx]; exact hU px ⟨le_rfl, hle⟩
  · intro q hq
    obtain ⟨hm, h1, h2⟩ := htab q hq
    exact ⟨hm, by rw [h1]; exact hR _ hm, by rw [h2]; exact hU _ hm⟩

/-! ### the Hugoniot root (ideal gas) -/

theorem shockJump_ig (p0 r0 g px rx : ℝ) :
    RiemGen.shockJump eosIG p0 r0 g px rx = EPV.C07.Riemann.shockJump px p0 r0 g rx := by
  simp [RiemGen.shockJump, eosIG, EPV.C07.Riemann.shockJump]

/-- **exact atoms on a shock side, ideal gas**: the star density is `rho_star_shock`, the star velocity
`u0 ∓ shock(px, p0, ρ0, 0, γ)` with the sign of the `==` side detection -/
theorem hugoniot_exact_ig (q : Prob) {p0 r0 u0 g px rx ux : ℝ} (hp0 : 0 < p0) (hg : 1 < g) (hpx : p0 < px)
    (h : HugoniotAtom eosIG (toData q) p0 r0 u0 g px rx ux) :
    rx = rhoShock px p0 r0 g ∧ ux = u0 + -fanSgn q p0 r0 u0 * shock px p0 r0 0 g := by
  obtain ⟨hr0, hrx, hne, hK, hroot, hvel⟩ := h
  rw [shockJump_ig] at hroot
  have e1 : rx = rhoShock px p0 r0 g := (hugoniot_root_partial hp0 hr0 hg (lt_trans hp0 hpx) hrx hne).mp hroot
  refine ⟨e1, ?_⟩
  rw [hvel, starVelocity_gen, e1]
  exact star_velocity_partial q hp0 hr0 hg hpx

/-! ### the pattern: position of `px` relative to `pl`, `pr`  ⇒  the Gottlieb–Groth classification -/

theorem chain_eq_SCS {pl pr ur a b c d e : ℝ} (h : (pl ≤ pr ∧ ur ≤ a) ∨ (pr < pl ∧ ur ≤ b)) :
    chain pl pr ur a b c d e = .SCS := by
  unfold chain; rw [if_pos h]

theorem chain_eq_SCR {pl pr ur a b c d e : ℝ} (h0 : pl ≤ pr) (h1 : a < ur) (h2 : ur ≤ c) :
    chain pl pr ur a b c d e = .SCR := by
  unfold chain
  rw [if_neg, if_pos ⟨h0, h1, h2⟩]
  rintro (⟨-, h⟩ | ⟨h, -⟩) <;> linarith

theorem chain_eq_RCS {pl pr ur a b c d e : ℝ} (h0 : pr < pl) (h1 : b < ur) (h2 : ur ≤ d) :
    chain pl pr ur a b c d e = .RCS := by
  unfold chain
  rw [if_neg, if_neg, if_pos ⟨h0, h1, h2⟩]
  · rintro ⟨h, -⟩; linarith
  · rintro (⟨h, -⟩ | ⟨-, h⟩) <;> linarith

theorem chain_eq_RCR {pl pr ur a b c d e : ℝ}
    (h : (pl ≤ pr ∧ a < ur ∧ c < ur) ∨ (pr < pl ∧ b < ur ∧ d < ur)) (he : ur ≤ e) :
    chain pl pr ur a b c d e = .RCR := by
  unfold chain
  rcases h with ⟨h0, h1, h2⟩ | ⟨h0, h1, h2⟩
  · rw [if_neg, if_neg, if_neg, if_pos (Or.inl ⟨h0, h2, he⟩)]
    · rintro ⟨h, -⟩; linarith
    · rintro ⟨-, -, h⟩; linarith
    · rintro (⟨-, h⟩ | ⟨h, -⟩) <;> linarith
  · rw [if_neg, if_neg, if_neg, if_pos (Or.inr ⟨h0, h2, he⟩)]
    · rintro ⟨-, -, h⟩; linarith
    · rintro ⟨h, -⟩; linarith
    · rintro (⟨h, -⟩ | ⟨-, h⟩) <;> linarith

/-- the thresholds lie on the expected side of `ul` -/
theorem uSCN_le (q : Prob) (hq : q.Admissible) (h : q.pl ≤ q.pr) : uSCN q q.pr ≤ q.ul := by
  obtain ⟨hpl, hrl, hgl, hpr, hrr, hgr⟩ := id hq
  rw [uSCN_mflux q hq hpr.le]
  have hm := mflux_pos hrl (NN_pos hpl hgl hpr.le)
  have : 0 ≤ (q.pr - q.pl) / mflux q.pr q.pl q.rl q.gl := div_nonneg (by linarith) hm.le
  linarith
theorem uNCS_le (q : Prob) (hq : q.Admissible) (h : q.pr < q.pl) : uNCS q q.pr ≤ q.ul := by
  obtain ⟨hpl, hrl, hgl, hpr, hrr, hgr⟩ := id hq
  rw [uNCS_mflux q hq hpr]
  have hm := mflux_pos hrr (NN_pos hpr hgr hpl.le)
  have : 0 ≤ (q.pl - q.pr) / mflux q.pl q.pr q.rr q.gr := div_nonneg (by linarith) hm.le
  linarith
theorem rare_ge {px p ρ u γ : ℝ} (hp : 0 < p) (hρ : 0 < ρ) (hγ : 1 < γ) (hpx : 0 < px) (h : px ≤ p) :
    u ≤ rare px p ρ u γ := by
  rw [rare_eq]
  have hz : px / p ≤ 1 := (div_le_one hp).mpr h
  have hk : 0 ≤ (γ - 1) / 2 / γ := by
    have : 0 < γ - 1 := by linarith
    positivity
  have hA : (px / p) ^ ((γ - 1) / 2 / γ) ≤ 1 := Real.rpow_le_one (by positivity) hz hk
  have ha : 0 ≤ Real.sqrt (γ * p / ρ) := Real.sqrt_nonneg _
  have hg : 0 < γ - 1 := by linarith
  have : 0 ≤ 2 * Real.sqrt (γ * p / ρ) / (γ - 1) * (1 - (px / p) ^ ((γ - 1) / 2 / γ)) := by
    apply mul_nonneg
    · positivity
    · linarith
  linarith
theorem uNCR_ge (q : Prob) (hq : q.Admissible) (h : q.pl ≤ q.pr) : q.ul ≤ uNCR q q.pr := by
  obtain ⟨hpl, hrl, hgl, hpr, hrr, hgr⟩ := id hq
  rw [uNCR_rare]; exact rare_ge hpr hrr hgr hpl h
theorem uRCN_ge (q : Prob) (hq : q.Admissible) (h : q.pr ≤ q.pl) : q.ul ≤ uRCN q q.pr := by
  obtain ⟨hpl, hrl, hgl, hpr, hrr, hgr⟩ := id hq
  rw [uRCN_rare]; exact rare_ge hpl hrl hgl hpr h

/-- a root of `RCR_call` at a positive pressure is below the vacuum threshold -/
theorem rcr_root_lt_vacuum (q : Prob) (hq : q.Admissible) {px : ℝ} (hpx : 0 < px) (h0 : RCR q px = 0) :
    q.ur ≤ uRCVR q q.pr := by
  obtain ⟨hpl, hrl, hgl, hpr, hrr, hgr⟩ := id hq
  rw [RCR_eq, rare_eq, rare_eq] at h0
  rw [uRCVR_eq]
  have h1 : 0 < (px / q.pr) ^ ((q.gr - 1) / 2 / q.gr) := Real.rpow_pos_of_pos (by positivity) _
  have h2 : 0 < (px / q.pl) ^ ((q.gl - 1) / 2 / q.gl) := Real.rpow_pos_of_pos (by positivity) _
  have a1 : 0 ≤ 2 * Real.sqrt (q.gr * q.pr / q.rr) / (q.gr - 1) := by
    have : 0 < q.gr - 1 := by linarith
    have := Real.sqrt_nonneg (q.gr * q.pr / q.rr)
    positivity
  have a2 : 0 ≤ 2 * Real.sqrt (q.gl * q.pl / q.rl) / (q.gl - 1) := by
    have : 0 < q.gl - 1 := by linarith
    have := Real.sqrt_nonneg (q.gl * q.pl / q.rl)
    positivity
  nlinarith [mul_nonneg a1 h1.le, mul_nonneg a2 h2.le]

private theorem mono_lt' {f : ℝ → ℝ} (hf : StrictMonoOn f (Set.Ioi 0)) {a x : ℝ} (ha : 0 < a) (hx : 0 < x) (h : a < x) :
    f a < f x := hf ha hx h
private theorem anti_lt' {f : ℝ → ℝ} (hf : StrictAntiOn f (Set.Ioi 0)) {a x : ℝ} (ha : 0 < a) (hx : 0 < x) (h : a < x) :
    f x < f a := hf ha hx h

/-- **SCS**: a root above both initial pressures ⇒ the ideal-gas driver classifies shock–contact–shock -/
theorem classify_of_root_SCS (q : Prob) (hq : q.Admissible) {px : ℝ} (h0 : SCS q px = 0) (hL : q.pl < px) (hR : q.pr < px) :
    RiemannIG.classify (toData q) = .SCS := by
  obtain ⟨hpl, hrl, hgl, hpr, hrr, hgr⟩ := id hq
  have hm := SCS_strictMono q hq
  rw [classify_eq]
  apply chain_eq_SCS
  rcases le_or_gt q.pl q.pr with h | h
  · left
    have := mono_lt' hm hpr (lt_trans hpr hR) hR
    simp only [h0, SCS_at_pr q hq] at this
    exact ⟨h, by linarith⟩
  · right
    have := mono_lt' hm hpl (lt_trans hpl hL) hL
    simp only [h0, SCS_at_pl q hq] at this
    exact ⟨h, by linarith⟩

/-- **SCR**: `pl < px < pr` -/
theorem classify_of_root_SCR (q : Prob) (hq : q.Admissible) {px : ℝ} (h0 : SCR q px = 0) (hL : q.pl < px) (hR : px < q.pr) :
    RiemannIG.classify (toData q) = .SCR := by
  obtain ⟨hpl, hrl, hgl, hpr, hrr, hgr⟩ := id hq
  have hm := SCR_strictAnti q hq
  have hpx : 0 < px := lt_trans hpl hL
  rw [classify_eq]
  have h1 := anti_lt' hm hpl hpx hL
  have h2 := anti_lt' hm hpx hpr hR
  simp only [h0, SCR_at_pl q hq, SCR_at_pr q hq] at h1 h2
  exact chain_eq_SCR (by linarith) (by linarith) (by linarith)

/-- **RCS**: `pr < px < pl` -/
theorem classify_of_root_RCS (q : Prob) (hq : q.Admissible) {px : ℝ} (h0 : RCS q px = 0) (hL : px < q.pl) (hR : q.pr < px) :
    RiemannIG.classify (toData q) = .RCS := by
  obtain ⟨hpl, hrl, hgl, hpr, hrr, hgr⟩ := id hq
  have hm := RCS_strictMono q hq
  have hpx : 0 < px := lt_trans hpr hR
  rw [classify_eq]
  have h1 := mono_lt' hm hpx hpl hL
  have h2 := mono_lt' hm hpr hpx hR
  simp only [h0, RCS_at_pl q hq, RCS_at_pr q hq] at h1 h2
  exact chain_eq_RCS (by linarith) (by linarith) (by linarith)

/-- **RCR**: a positive root below both initial pressures -/
theorem classify_of_root_RCR (q : Prob) (hq : q.Admissible) {px : ℝ} (hpx : 0 < px) (h0 : RCR q px = 0) (hL : px < q.pl)
    (hR : px < q.pr) : RiemannIG.classify (toData q) = .RCR := by
  obtain ⟨hpl, hrl, hgl, hpr, hrr, hgr⟩ := id hq
  have hm := RCR_strictAnti q hq
  rw [classify_eq]
  apply chain_eq_RCR _ (rcr_root_lt_vacuum q hq hpx h0)
  rcases le_or_gt q.pl q.pr with h | h
  · left
    have h1 := anti_lt' hm hpx hpl hL
    simp only [h0, RCR_at_pl q hq] at h1
    have := uSCN_le q hq h
    have := uNCR_ge q hq h
    exact ⟨h, by linarith, by linarith⟩
  · right
    have h1 := anti_lt' hm hpx hpr hR
    simp only [h0, RCR_at_pr q hq] at h1
    have := uNCS_le q hq h
    have := uRCN_ge q hq h.le
    exact ⟨h, by linarith, by linarith⟩

/-! ### exact atoms for the whole problem, ideal gas -/

/-- what is assumed of the numerical atoms: on each side the hypothesis that belongs to the side's wave
(`px < p0`: rarefaction table exact; `px > p0`: Hugoniot root exact), and the crossing of the P–U curves -/
structure ExactIG (q : Prob) (a : Atoms ℝ) : Prop where
  px_pos : 0 < a.px
  fanL : a.px < q.pl → FanAtom eosIG q.gl (-1) q.pl q.rl q.ul a.px a.rx1 a.ux1 a.tabL
  shockL : q.pl < a.px → HugoniotAtom eosIG (toData q) q.pl q.rl q.ul q.gl a.px a.rx1 a.ux1
  fanR : a.px < q.pr → FanAtom eosIG q.gr 1 q.pr q.rr q.ur a.px a.rx2 a.ux2 a.tabR
  shockR : q.pr < a.px → HugoniotAtom eosIG (toData q) q.pr q.rr q.ur q.gr a.px a.rx2 a.ux2
  cross : Crossing a

section star
variable {q : Prob} {a : Atoms ℝ} (hq : q.Admissible) (hd : q.Distinct) (hx : ExactIG q a)
include hq hx

/-- left rarefaction: the star values are those of the ideal-gas driver -/
theorem starL_fan_exact (hL : a.px < q.pl) : a.rx1 = rhoRare a.px q.pl q.rl q.gl ∧ a.ux1 = uxF q a.px := by
  obtain ⟨hpl, hrl, hgl, hpr, hrr, hgr⟩ := id hq
  obtain ⟨h1, h2, -⟩ := fan_exact_ig (Or.inr rfl) hgl hpl hrl (hx.fanL hL)
  exact ⟨h1, by rw [h2]; unfold uxF; ring⟩

/-- left shock -/
theorem starL_shock_exact (hL : q.pl < a.px) : a.rx1 = rhoShock a.px q.pl q.rl q.gl ∧ a.ux1 = uxS q a.px := by
  obtain ⟨hpl, hrl, hgl, hpr, hrr, hgr⟩ := id hq
  obtain ⟨h1, h2⟩ := hugoniot_exact_ig q hpl hgl hL (hx.shockL hL)
  exact ⟨h1, by rw [h2, fanSgn_left]; rfl⟩

/-- right rarefaction -/
theorem starR_fan_exact (hR : a.px < q.pr) :
    a.rx2 = rhoRare a.px q.pr q.rr q.gr ∧ a.ux2 = q.ur + -1 * rare a.px q.pr q.rr 0 q.gr := by
  obtain ⟨hpl, hrl, hgl, hpr, hrr, hgr⟩ := id hq
  obtain ⟨h1, h2, -⟩ := fan_exact_ig (Or.inl rfl) hgr hpr hrr (hx.fanR hR)
  exact ⟨h1, by rw [h2]; ring⟩

include hd in
/-- right shock (L ≠ R: the side detection labels the right state correctly) -/
theorem starR_shock_exact (hR : q.pr < a.px) :
    a.rx2 = rhoShock a.px q.pr q.rr q.gr ∧ a.ux2 = q.ur + 1 * shock a.px q.pr q.rr 0 q.gr := by
  obtain ⟨hpl, hrl, hgl, hpr, hrr, hgr⟩ := id hq
  obtain ⟨h1, h2⟩ := hugoniot_exact_ig q hpr hgr hR (hx.shockR hR)
  exact ⟨h1, by rw [h2, fanSgn_right q hd]; ring⟩

/-! #### `px` is a root of the residual the ideal-gas driver solves -/

include hd in
theorem gen_root_SCS (hL : q.pl < a.px) (hR : q.pr < a.px) : SCS q a.px = 0 := by
  have h1 := (starL_shock_exact hq hx hL).2
  have h2 := (starR_shock_exact hq hd hx hR).2
  have hc : a.ux1 = a.ux2 := hx.cross
  rw [SCS_eq, shock_u a.px q.pr, shock_u a.px q.pl]
  unfold uxS at h1
  linarith

theorem gen_root_SCR (hL : q.pl < a.px) (hR : a.px < q.pr) : SCR q a.px = 0 := by
  have h1 := (starL_shock_exact hq hx hL).2
  have h2 := (starR_fan_exact hq hx hR).2
  have hc : a.ux1 = a.ux2 := hx.cross
  rw [SCR_eq, rare_u a.px q.pr, shock_u a.px q.pl]
  unfold uxS at h1
  linarith

include hd in
theorem gen_root_RCS (hL : a.px < q.pl) (hR : q.pr < a.px) : RCS q a.px = 0 := by
  have h1 := (starL_fan_exact hq hx hL).2
  have h2 := (starR_shock_exact hq hd hx hR).2
  have hc : a.ux1 = a.ux2 := hx.cross
  rw [RCS_eq, shock_u a.px q.pr, rare_u a.px q.pl]
  unfold uxF at h1
  linarith

theorem gen_root_RCR (hL : a.px < q.pl) (hR : a.px < q.pr) : RCR q a.px = 0 := by
  have h1 := (starL_fan_exact hq hx hL).2
  have h2 := (starR_fan_exact hq hx hR).2
  have hc : a.ux1 = a.ux2 := hx.cross
  rw [RCR_eq, rare_u a.px q.pr, rare_u a.px q.pl]
  unfold uxF at h1
  linarith

end star

/-- the pattern the general driver reads off the position of `px` -/
def patOf : RiemannGen.Side → RiemannGen.Side → RiemannIG.Pattern
  | .S, .S => .SCS
  | .S, .R => .SCR
  | .R, .S => .RCS
  | .R, .R => .RCR
  | _, _ => .none

/-- **C07 (P), pattern.**  With exact atoms the ideal-gas driver's classification (thresholds `u_SCN`, `u_NCS`,
`u_NCR`, `u_RCN`, `u_RCVR` at `pr`) selects the pattern the general driver selects (`px < p0` / `px > p0` on
each side), and `px` is a root of the residual the ideal-gas driver then hands to `bisect`. -/
theorem gen_pattern_eq_ig_partial (q : Prob) (hq : q.Admissible) (hd : q.Distinct) (a : Atoms ℝ) (hx : ExactIG q a)
    (hnl : a.px ≠ q.pl) (hnr : a.px ≠ q.pr) :
    RiemannIG.classify (toData q) = patOf (RiemannGen.sideL (toData q) a) (RiemannGen.sideR (toData q) a) ∧
    (match RiemannIG.classify (toData q) with
      | .SCS => SCS q a.px = 0 | .SCR => SCR q a.px = 0 | .RCS => RCS q a.px = 0 | .RCR => RCR q a.px = 0
      | _ => False) := by
  rcases lt_or_gt_of_ne hnl with hL | hL <;> rcases lt_or_gt_of_ne hnr with hR | hR
  · have h0 := gen_root_RCR hq hx hL hR
    have hc := classify_of_root_RCR q hq hx.px_pos h0 hL hR
    rw [hc]
    simp only [RiemannGen.sideL, RiemannGen.sideR, toData, side_R hL, side_R hR, patOf]
    exact ⟨trivial, h0⟩
  · have h0 := gen_root_RCS hq hd hx hL hR
    have hc := classify_of_root_RCS q hq h0 hL hR
    rw [hc]
    simp only [RiemannGen.sideL, RiemannGen.sideR, toData, side_R hL, side_S hR, patOf]
    exact ⟨trivial, h0⟩
  · have h0 := gen_root_SCR hq hx hL hR
    have hc := classify_of_root_SCR q hq h0 hL hR
    rw [hc]
    simp only [RiemannGen.sideL, RiemannGen.sideR, toData, side_S hL, side_R hR, patOf]
    exact ⟨trivial, h0⟩
  · have h0 := gen_root_SCS hq hd hx hL hR
    have hc := classify_of_root_SCS q hq h0 hL hR
    rw [hc]
    simp only [RiemannGen.sideL, RiemannGen.sideR, toData, side_S hL, side_S hR, patOf]
    exact ⟨trivial, h0⟩

/-! ### wave speeds and constant states -/

theorem vHeadL_ig (q : Prob) : RiemannGen.vHeadL eosIG (toData q) = q.ul - sound q.pl q.rl q.gl := by
  simp only [RiemannGen.vHeadL, eosIG, sound_ig, toData]
theorem vHeadR_ig (q : Prob) : RiemannGen.vHeadR eosIG (toData q) = q.ur + sound q.pr q.rr q.gr := by
  simp only [RiemannGen.vHeadR, eosIG, sound_ig, toData]

theorem leftState_ig (q : Prob) : RiemannGen.leftState eosIG (toData q) = RiemannIG.leftState (toData q) := by
  simp only [RiemannGen.leftState, RiemannGen.st, eosIG, sie_ig, RiemannIG.leftState, m_sie, toData]
theorem rightState_ig (q : Prob) : RiemannGen.rightState eosIG (toData q) = RiemannIG.rightState (toData q) := by
  simp only [RiemannGen.rightState, RiemannGen.st, eosIG, sie_ig, RiemannIG.rightState, m_sie, toData]

section speeds
variable {q : Prob} {a : Atoms ℝ} (hq : q.Admissible) (hd : q.Distinct) (hx : ExactIG q a)
include hq hx

theorem vTailL_ig (hL : a.px < q.pl) :
    RiemannGen.vTailL eosIG (toData q) a = uxF q a.px - sound a.px (rhoRare a.px q.pl q.rl q.gl) q.gl := by
  obtain ⟨h1, h2⟩ := starL_fan_exact hq hx hL
  simp only [RiemannGen.vTailL, eosIG, sound_ig, toData, h1, h2]

theorem vTailR_ig (hR : a.px < q.pr) :
    RiemannGen.vTailR eosIG (toData q) a = a.ux1 + sound a.px (rhoRare a.px q.pr q.rr q.gr) q.gr := by
  obtain ⟨h1, h2⟩ := starR_fan_exact hq hx hR
  have hc : a.ux1 = a.ux2 := hx.cross
  simp only [RiemannGen.vTailR, eosIG, sound_ig, toData, h1, hc]

theorem vShockL_ig (hL : q.pl < a.px) :
    RiemannGen.vShockL (toData q) a = shockVel q a.px q.pl q.rl q.ul q.gl := by
  obtain ⟨hpl, hrl, hgl, hpr, hrr, hgr⟩ := id hq
  obtain ⟨h1, -⟩ := starL_shock_exact hq hx hL
  rw [shockVel_left_mflux q hq hx.px_pos.le, ← (star_speeds hpl hrl hgl hL).1, ← h1]
  simp [RiemannGen.vShockL, RiemannGen.shockSpeed, RiemannGen.isLeft, toData]
  ring

include hd in
theorem vShockR_ig (hR : q.pr < a.px) :
    RiemannGen.vShockR (toData q) a = shockVel q a.px q.pr q.rr q.ur q.gr := by
  obtain ⟨hpl, hrl, hgl, hpr, hrr, hgr⟩ := id hq
  obtain ⟨h1, -⟩ := starR_shock_exact hq hd hx hR
  rw [shockVel_right_mflux q hq hd hx.px_pos.le, ← (star_speeds hpr hrr hgr hR).1, ← h1]
  have := (EPV.C02.RiemannGen.gen_shock_orientation q hd a).2
  rw [this]; ring

/-! #### `Vregs` -/

include hd in
theorem gen_vregs_eq_ig_SCS (hL : q.pl < a.px) (hR : q.pr < a.px) :
    RiemannGen.vregs eosIG (toData q) a = RiemannIG.vregs (toData q) .SCS a.px := by
  rw [vregs_SS eosIG (d := toData q) hL hR, vregs_SCS, vShockL_ig hq hx hL, vShockR_ig hq hd hx hR,
    (starL_shock_exact hq hx hL).2]

theorem gen_vregs_eq_ig_SCR (hL : q.pl < a.px) (hR : a.px < q.pr) :
    RiemannGen.vregs eosIG (toData q) a = RiemannIG.vregs (toData q) .SCR a.px := by
  rw [vregs_SR eosIG (d := toData q) hL hR, vregs_SCR, vShockL_ig hq hx hL, vTailR_ig hq hx hR, vHeadR_ig,
    (starL_shock_exact hq hx hL).2]

include hd in
theorem gen_vregs_eq_ig_RCS (hL : a.px < q.pl) (hR : q.pr < a.px) :
    RiemannGen.vregs eosIG (toData q) a = RiemannIG.vregs (toData q) .RCS a.px := by
  rw [vregs_RS eosIG (d := toData q) hL hR, vregs_RCS, vHeadL_ig, vTailL_ig hq hx hL, vShockR_ig hq hd hx hR,
    (starL_fan_exact hq hx hL).2]

theorem gen_vregs_eq_ig_RCR (hL : a.px < q.pl) (hR : a.px < q.pr) :
    RiemannGen.vregs eosIG (toData q) a = RiemannIG.vregs (toData q) .RCR a.px := by
  rw [vregs_RR eosIG (d := toData q) hL hR, vregs_RCR, vHeadL_ig, vTailL_ig hq hx hL, vTailR_ig hq hx hR, vHeadR_ig,
    (starL_fan_exact hq hx hL).2]

/-! #### the star states -/

theorem starL_ig_shock (pat : RiemannIG.Pattern) (hp : pat = .SCS ∨ pat = .SCR) (hL : q.pl < a.px) :
    RiemannGen.starL eosIG (toData q) a = RiemannIG.starL (toData q) pat a.px := by
  obtain ⟨h1, h2⟩ := starL_shock_exact hq hx hL
  rw [starL_shock q a.px pat hp]
  simp only [RiemannGen.starL, RiemannGen.st, eosIG, sie_ig, toData, h1, h2]

theorem starL_ig_fan (pat : RiemannIG.Pattern) (hp : pat = .RCS ∨ pat = .RCR) (hL : a.px < q.pl) :
    RiemannGen.starL eosIG (toData q) a = RiemannIG.starL (toData q) pat a.px := by
  obtain ⟨h1, h2⟩ := starL_fan_exact hq hx hL
  rw [starL_fan q a.px pat hp]
  simp only [RiemannGen.starL, RiemannGen.st, eosIG, sie_ig, toData, h1, h2]

include hd in
theorem starR_ig_shock (pat : RiemannIG.Pattern) (hp : pat = .SCS ∨ pat = .RCS) (hR : q.pr < a.px)
    (hu : a.ux1 = RiemannIG.ux (toData q) pat a.px) :
    RiemannGen.starR eosIG (toData q) a = RiemannIG.starR (toData q) pat a.px := by
  obtain ⟨h1, -⟩ := starR_shock_exact hq hd hx hR
  have hc : a.ux1 = a.ux2 := hx.cross
  rw [starR_shock q a.px pat hp, ← hu, hc]
  simp only [RiemannGen.starR, RiemannGen.st, eosIG, sie_ig, toData, h1]

theorem starR_ig_fan (pat : RiemannIG.Pattern) (hp : pat = .SCR ∨ pat = .RCR) (hR : a.px < q.pr)
    (hu : a.ux1 = RiemannIG.ux (toData q) pat a.px) :
    RiemannGen.starR eosIG (toData q) a = RiemannIG.starR (toData q) pat a.px := by
  obtain ⟨h1, -⟩ := starR_fan_exact hq hx hR
  have hc : a.ux1 = a.ux2 := hx.cross
  rw [starR_fan q a.px pat hp, ← hu, hc]
  simp only [RiemannGen.starR, RiemannGen.st, eosIG, sie_ig, toData, h1]

end speeds

/-! ### the fan profile at the rows of the fan table -/

theorem toSpec_inj {s s' : RiemannIG.State ℝ} (h : EPV.C04.toSpec s = EPV.C04.toSpec s') : s = s' := by
  cases s; cases s'
  simp only [EPV.C04.toSpec, Spec.State.mk.injEq] at h
  obtain ⟨h1, h2, h3, h4⟩ := h
  simp [h1, h2, h3, h4]

/-- the closed-form LEFT fan of the ideal-gas driver, evaluated at the position `xd0 + t (u' - a')` of a point
`(p', ρ', u')` of the exact isentrope, returns that point -/
theorem ig_fanL_at_row (q : Prob) (hq : q.Admissible) {xd0 t p' r' u' x : ℝ} (ht : t ≠ 0) (hp' : 0 < p')
    (hr : r' = rhoRare p' q.pl q.rl q.gl) (hu : u' = q.ul - -1 * rare p' q.pl q.rl 0 q.gl)
    (hxe : x = xd0 + t * (u' + -1 * sound p' r' q.gl)) :
    RiemannIG.fanState (toData q) q.pl q.rl q.ul q.gl x xd0 t = RiemannGen.st eosIG q.gl p' r' u' := by
  obtain ⟨hpl, hrl, hgl, hpr, hrr, hgr⟩ := id hq
  apply toSpec_inj
  rw [EPV.C04.m_fan_left]
  have ha := EPV.C04.aL_pos hq
  have hss : sound p' r' q.gl = EPV.C04.aL q * EPV.C04.fanPi q.gl q.pl p' := by
    rw [hr, sound_eq, rhoRare_eq]
    exact EPV.C04.fan_star_sound hgl ha (EPV.C04.aL_sq hq) hpl hrl hp'
  have hu' : u' = q.ul + 1 * EPV.C04.rareDu q.gl (EPV.C04.aL q) q.pl p' := by
    rw [hu, rare_eq]; simp only [EPV.C04.rareDu, EPV.C04.fanPi, EPV.C04.aL]; ring
  have hξ : (x - xd0) / t
      = q.ul + 1 * EPV.C04.rareDu q.gl (EPV.C04.aL q) q.pl p' - 1 * (EPV.C04.aL q * EPV.C04.fanPi q.gl q.pl p') := by
    rw [hxe, hss, hu']; field_simp; ring
  have ft := EPV.C04.fan_tail 1 q.gl (EPV.C04.aL q) q.pl q.rl q.ul p' (Or.inl rfl) hgl ha hpl hp'
  rw [hξ]
  unfold EPV.C04.aL at ft ⊢
  rw [ft]
  simp only [EPV.C04.toSpec, RiemannGen.st, eosIG, sie_ig, sie_eq, EPV.C04.igSie, EPV.C04.rareRho, hr, rhoRare_eq, hu',
    EPV.C04.aL, sub_zero]

/-- … and the RIGHT fan (`L ≠ R`: the side detection of `rho_p_u_rarefaction`) at `xd0 + t (u' + a')` -/
theorem ig_fanR_at_row (q : Prob) (hq : q.Admissible) (hd : q.Distinct) {xd0 t p' r' u' x : ℝ} (ht : t ≠ 0) (hp' : 0 < p')
    (hr : r' = rhoRare p' q.pr q.rr q.gr) (hu : u' = q.ur - 1 * rare p' q.pr q.rr 0 q.gr)
    (hxe : x = xd0 + t * (u' + 1 * sound p' r' q.gr)) :
    RiemannIG.fanState (toData q) q.pr q.rr q.ur q.gr x xd0 t = RiemannGen.st eosIG q.gr p' r' u' := by
  obtain ⟨hpl, hrl, hgl, hpr, hrr, hgr⟩ := id hq
  apply toSpec_inj
  rw [EPV.C04.m_fan_right q hd]
  have ha := EPV.C04.aR_pos hq
  have hss : sound p' r' q.gr = EPV.C04.aR q * EPV.C04.fanPi q.gr q.pr p' := by
    rw [hr, sound_eq, rhoRare_eq]
    exact EPV.C04.fan_star_sound hgr ha (EPV.C04.aR_sq hq) hpr hrr hp'
  have hu' : u' = q.ur + -1 * EPV.C04.rareDu q.gr (EPV.C04.aR q) q.pr p' := by
    rw [hu, rare_eq]; simp only [EPV.C04.rareDu, EPV.C04.fanPi, EPV.C04.aR]; ring
  have hξ : (x - xd0) / t
      = q.ur + -1 * EPV.C04.rareDu q.gr (EPV.C04.aR q) q.pr p' - -1 * (EPV.C04.aR q * EPV.C04.fanPi q.gr q.pr p') := by
    rw [hxe, hss, hu']; field_simp; ring
  have ft := EPV.C04.fan_tail (-1) q.gr (EPV.C04.aR q) q.pr q.rr q.ur p' (Or.inr rfl) hgr ha hpr hp'
  rw [hξ]
  unfold EPV.C04.aR at ft ⊢
  rw [ft]
  simp only [EPV.C04.toSpec, RiemannGen.st, eosIG, sie_ig, sie_eq, EPV.C04.igSie, EPV.C04.rareRho, hr, rhoRare_eq, hu',
    EPV.C04.aR, sub_zero]

/-! ### the assembled solutions -/

/-- the abscissae the driver hands to `np.interp` for a fan are strictly increasing (`np.interp`'s own precondition) -/
def FanIncrL (q : Prob) (a : Atoms ℝ) (xd0 t : ℝ) : Prop :=
  Sorted (RiemannGen.fanTab eosIG q.gl (-RiemannIG.Num.ofNat 1) xd0 t a.tabL)
def FanIncrR (q : Prob) (a : Atoms ℝ) (xd0 t : ℝ) : Prop :=
  Sorted (RiemannGen.fanTab eosIG q.gr (RiemannIG.Num.ofNat 1) xd0 t a.tabR)

/-- the position at which the driver places row `r` of the left / right fan table -/
noncomputable def rowXL (q : Prob) (xd0 t : ℝ) (r : P3 ℝ) : ℝ := xd0 + t * (r.u + -1 * sound r.p r.r q.gl)
noncomputable def rowXR (q : Prob) (xd0 t : ℝ) (r : P3 ℝ) : ℝ := xd0 + t * (r.u + 1 * sound r.p r.r q.gr)

theorem fanL_row_mem (q : Prob) (a : Atoms ℝ) (xd0 t : ℝ) {r : P3 ℝ} (hr : r ∈ a.tabL) :
    (rowXL q xd0 t r, RiemannGen.st eosIG q.gl r.p r.r r.u)
      ∈ RiemannGen.fanTab eosIG q.gl (-RiemannIG.Num.ofNat 1) xd0 t a.tabL := by
  simp only [RiemannGen.fanTab, List.mem_map]
  refine ⟨r, hr, ?_⟩
  simp only [rowXL, eosIG, sound_ig, num_ofNat, Nat.cast_one]
theorem fanR_row_mem (q : Prob) (a : Atoms ℝ) (xd0 t : ℝ) {r : P3 ℝ} (hr : r ∈ a.tabR) :
    (rowXR q xd0 t r, RiemannGen.st eosIG q.gr r.p r.r r.u)
      ∈ RiemannGen.fanTab eosIG q.gr (RiemannIG.Num.ofNat 1) xd0 t a.tabR := by
  simp only [RiemannGen.fanTab, List.mem_map]
  refine ⟨r, hr, ?_⟩
  simp only [rowXR, eosIG, sound_ig, num_ofNat, Nat.cast_one]

/-- the characteristic speed `u - a` along the exact left isentrope is strictly decreasing in the pressure -/
theorem xiL_strictAnti {p0 r0 u0 g p1 p2 : ℝ} (hp0 : 0 < p0) (hr0 : 0 < r0) (hg : 1 < g) (h1 : 0 < p1) (h12 : p1 < p2) :
    (u0 - -1 * rare p2 p0 r0 0 g) + -1 * sound p2 (rhoRare p2 p0 r0 g) g
      < (u0 - -1 * rare p1 p0 r0 0 g) + -1 * sound p1 (rhoRare p1 p0 r0 g) g := by
  have h2 : 0 < p2 := lt_trans h1 h12
  have hk : 0 < (g - 1) / 2 / g := by
    have : 0 < g - 1 := by linarith
    positivity
  have hπ : (p1 / p0) ^ ((g - 1) / 2 / g) < (p2 / p0) ^ ((g - 1) / 2 / g) :=
    Real.rpow_lt_rpow (by positivity) (div_lt_div_of_pos_right h12 hp0) hk
  have ha := sound_pos hp0 hr0 (by linarith : 0 < g)
  rw [sound_on_isentrope hp0 hr0 hg h1, sound_on_isentrope hp0 hr0 hg h2, rare_eq, rare_eq, ← sound_eq]
  generalize (p1 / p0) ^ ((g - 1) / 2 / g) = A at *
  generalize (p2 / p0) ^ ((g - 1) / 2 / g) = B at *
  generalize sound p0 r0 g = c at *
  have hg1 : 0 < g - 1 := by linarith
  have hc : 0 < 2 * c / (g - 1) + c := by positivity
  nlinarith [mul_pos hc (sub_pos.mpr hπ)]

/-- … and `u + a` along the exact right isentrope strictly increasing -/
theorem xiR_strictMono {p0 r0 u0 g p1 p2 : ℝ} (hp0 : 0 < p0) (hr0 : 0 < r0) (hg : 1 < g) (h1 : 0 < p1) (h12 : p1 < p2) :
    (u0 - 1 * rare p1 p0 r0 0 g) + 1 * sound p1 (rhoRare p1 p0 r0 g) g
      < (u0 - 1 * rare p2 p0 r0 0 g) + 1 * sound p2 (rhoRare p2 p0 r0 g) g := by
  have h2 : 0 < p2 := lt_trans h1 h12
  have hk : 0 < (g - 1) / 2 / g := by
    have : 0 < g - 1 := by linarith
    positivity
  have hπ : (p1 / p0) ^ ((g - 1) / 2 / g) < (p2 / p0) ^ ((g - 1) / 2 / g) :=
    Real.rpow_lt_rpow (by positivity) (div_lt_div_of_pos_right h12 hp0) hk
  have ha := sound_pos hp0 hr0 (by linarith : 0 < g)
  rw [sound_on_isentrope hp0 hr0 hg h1, sound_on_isentrope hp0 hr0 hg h2, rare_eq, rare_eq, ← sound_eq]
  generalize (p1 / p0) ^ ((g - 1) / 2 / g) = A at *
  generalize (p2 / p0) ^ ((g - 1) / 2 / g) = B at *
  generalize sound p0 r0 g = c at *
  have hg1 : 0 < g - 1 := by linarith
  have hc : 0 < 2 * c / (g - 1) + c := by positivity
  nlinarith [mul_pos hc (sub_pos.mpr hπ)]

/-- with exact atoms, a LEFT fan table whose pressures strictly decrease (as the driver builds it: `pl`, the
reversed ladder above `px`, `px`) has strictly increasing abscissae -/
theorem fanIncrL_of_exact {q : Prob} {a : Atoms ℝ} (hq : q.Admissible) (hx : ExactIG q a) (hL : a.px < q.pl)
    (xd0 : ℝ) {t : ℝ} (ht : 0 < t) (hp : a.tabL.Pairwise (fun r s => s.p < r.p)) : FanIncrL q a xd0 t := by
  obtain ⟨hpl, hrl, hgl, hpr, hrr, hgr⟩ := id hq
  obtain ⟨-, -, hrows⟩ := fan_exact_ig (Or.inr rfl) hgl hpl hrl (hx.fanL hL)
  unfold FanIncrL Sorted RiemannGen.fanTab
  rw [List.pairwise_map]
  refine hp.imp_of_mem ?_
  intro r s hr hs hlt
  obtain ⟨hm1, e1, e2⟩ := hrows r hr
  obtain ⟨hm2, f1, f2⟩ := hrows s hs
  have hs0 : 0 < s.p := lt_of_lt_of_le hx.px_pos hm2.1
  have key := xiL_strictAnti (u0 := q.ul) hpl hrl hgl hs0 hlt
  simp only [eosIG, sound_ig, num_ofNat, Nat.cast_one, e1, e2, f1, f2]
  have := mul_lt_mul_of_pos_left key ht
  linarith

/-- … and a RIGHT fan table whose pressures strictly increase -/
theorem fanIncrR_of_exact {q : Prob} {a : Atoms ℝ} (hq : q.Admissible) (hx : ExactIG q a) (hR : a.px < q.pr)
    (xd0 : ℝ) {t : ℝ} (ht : 0 < t) (hp : a.tabR.Pairwise (fun r s => r.p < s.p)) : FanIncrR q a xd0 t := by
  obtain ⟨hpl, hrl, hgl, hpr, hrr, hgr⟩ := id hq
  obtain ⟨-, -, hrows⟩ := fan_exact_ig (Or.inl rfl) hgr hpr hrr (hx.fanR hR)
  unfold FanIncrR Sorted RiemannGen.fanTab
  rw [List.pairwise_map]
  refine hp.imp_of_mem ?_
  intro r s hr hs hlt
  obtain ⟨hm1, e1, e2⟩ := hrows r hr
  obtain ⟨hm2, f1, f2⟩ := hrows s hs
  have hr0 : 0 < r.p := lt_of_lt_of_le hx.px_pos hm1.1
  have key := xiR_strictMono (u0 := q.ur) hpr hrr hgr hr0 hlt
  simp only [eosIG, sound_ig, num_ofNat, Nat.cast_one, e1, e2, f1, f2]
  have := mul_lt_mul_of_pos_left key ht
  linarith

section assembled
variable (q : Prob) (hq : q.Admissible) (hd : q.Distinct) (a : Atoms ℝ) (hx : ExactIG q a)
  (prev next : ℝ → ℝ) (xd0 t xmaxW : ℝ) (ht : 0 < t)

local notation "node" => RiemannGen.solveAtNode eosIG (toData q) a prev next xd0 t xmaxW
local notation "X" => RiemannGen.xpos xd0 t

include hq hd hx ht in
/-- **C07 (P), rarefaction–contact–shock.**  Same region index and same (p, ρ, u, e) as the ideal-gas driver:
left of the fan, at every row of the fan table inside the fan, in both star regions (up to the node before the
contact / the shock) and right of the shock. -/
theorem gen_eq_ig_rcs_partial (hL : a.px < q.pl) (hR : q.pr < a.px) (g : GridRCS eosIG (toData q) a prev xd0 t)
    (hs : FanIncrL q a xd0 t) :
    (∀ x, x < X (RiemannGen.vHeadL eosIG (toData q)) → node x = RiemannIG.solveWith (toData q) .RCS a.px xd0 x t) ∧
    (∀ r ∈ a.tabL, X (RiemannGen.vHeadL eosIG (toData q)) < rowXL q xd0 t r →
        rowXL q xd0 t r < X (RiemannGen.vTailL eosIG (toData q) a) →
        node (rowXL q xd0 t r) = RiemannIG.solveWith (toData q) .RCS a.px xd0 (rowXL q xd0 t r) t) ∧
    (∀ x, X (RiemannGen.vTailL eosIG (toData q) a) < x → x ≤ prev (X a.ux1) →
        node x = RiemannIG.solveWith (toData q) .RCS a.px xd0 x t) ∧
    (∀ x, X a.ux1 < x → x ≤ prev (X (RiemannGen.vShockR (toData q) a)) →
        node x = RiemannIG.solveWith (toData q) .RCS a.px xd0 x t) ∧
    (∀ x, X (RiemannGen.vShockR (toData q) a) < x → node x = RiemannIG.solveWith (toData q) .RCS a.px xd0 x t) := by
  have hig : ∀ x, RiemannIG.solveWith (toData q) .RCS a.px xd0 x t
      = RiemannIG.assemble x
          [X (RiemannGen.vHeadL eosIG (toData q)), X (RiemannGen.vTailL eosIG (toData q) a), X a.ux1,
           X (RiemannGen.vShockR (toData q) a)]
          [RiemannIG.fanState (toData q) q.pl q.rl q.ul q.gl x xd0 t, RiemannGen.starL eosIG (toData q) a,
           RiemannGen.starR eosIG (toData q) a, RiemannGen.rightState eosIG (toData q)] 0
          (0, RiemannGen.leftState eosIG (toData q)) := by
    intro x
    have hu : a.ux1 = RiemannIG.ux (toData q) .RCS a.px := by
      rw [ux_fan q a.px .RCS (Or.inl rfl)]; exact (starL_fan_exact hq hx hL).2
    rw [RiemannIG.solveWith, ← gen_vregs_eq_ig_RCS hq hd hx hL hR, vregs_RS eosIG (d := toData q) hL hR,
      starL_ig_fan hq hx .RCS (Or.inl rfl) hL, starR_ig_shock hq hd hx .RCS (Or.inr rfl) hR hu, leftState_ig,
      rightState_ig]
    rfl
  obtain ⟨h01, h1c, hpc, hc3, hp3⟩ := id g
  refine ⟨fun x h => ?_, fun r hr h0 h1 => ?_, fun x h1 h2 => ?_, fun x h1 h2 => ?_, fun x h => ?_⟩
  · rw [rcs_zone_left eosIG (toData q) a prev next xd0 t xmaxW hL hR g h.le, hig,
      assemble_cons_gt h, assemble_cons_gt (by linarith), assemble_cons_gt (by linarith),
      assemble_cons_gt (by linarith), assemble_nil]
  · rw [rcs_zone_fan eosIG (toData q) a prev next xd0 t xmaxW hL hR g h0 h1.le, hig,
      assemble_cons_le h0.le, assemble_cons_gt h1, assemble_cons_gt (by linarith),
      assemble_cons_gt (by linarith), assemble_nil]
    obtain ⟨hpl, hrl, hgl, hpr, hrr, hgr⟩ := id hq
    obtain ⟨-, -, hrows⟩ := fan_exact_ig (Or.inr rfl) hgl hpl hrl (hx.fanL hL)
    obtain ⟨hm, e1, e2⟩ := hrows r hr
    have hp' : 0 < r.p := lt_of_lt_of_le hx.px_pos hm.1
    rw [ig_fanL_at_row q hq (x := rowXL q xd0 t r) ht.ne' hp' e1 e2 rfl]
    exact congrArg (Prod.mk 1)
      (interpG_mem RiemannGen.lerpS _ (RiemannGen.leftState eosIG (toData q)) hs (fanL_row_mem q a xd0 t hr))
  · rw [rcs_zone_starL eosIG (toData q) a prev next xd0 t xmaxW hL hR g h1 h2, hig,
      assemble_cons_le (by linarith), assemble_cons_le h1.le, assemble_cons_gt (by linarith),
      assemble_cons_gt (by linarith), assemble_nil]
  · rw [rcs_zone_starR eosIG (toData q) a prev next xd0 t xmaxW hL hR g h1 h2, hig,
      assemble_cons_le (by linarith), assemble_cons_le (by linarith), assemble_cons_le h1.le,
      assemble_cons_gt (by linarith), assemble_nil]
  · rw [rcs_zone_right eosIG (toData q) a prev next xd0 t xmaxW hL hR g h.le, hig,
      assemble_cons_le (by linarith), assemble_cons_le (by linarith), assemble_cons_le (by linarith),
      assemble_cons_le h.le, assemble_nil]

include hq hd hx ht in
/-- **C07 (P), shock–contact–rarefaction.** -/
theorem gen_eq_ig_scr_partial (hL : q.pl < a.px) (hR : a.px < q.pr) (g : GridSCR eosIG (toData q) a prev next xd0 t)
    (hs : FanIncrR q a xd0 t) :
    (∀ x, x < X (RiemannGen.vShockL (toData q) a) → node x = RiemannIG.solveWith (toData q) .SCR a.px xd0 x t) ∧
    (∀ x, next (X (RiemannGen.vShockL (toData q) a)) ≤ x → x < X a.ux1 →
        node x = RiemannIG.solveWith (toData q) .SCR a.px xd0 x t) ∧
    (∀ x, X a.ux1 < x → x < X (RiemannGen.vTailR eosIG (toData q) a) →
        node x = RiemannIG.solveWith (toData q) .SCR a.px xd0 x t) ∧
    (∀ r ∈ a.tabR, X (RiemannGen.vTailR eosIG (toData q) a) < rowXR q xd0 t r →
        rowXR q xd0 t r ≤ prev (X (RiemannGen.vHeadR eosIG (toData q))) →
        node (rowXR q xd0 t r) = RiemannIG.solveWith (toData q) .SCR a.px xd0 (rowXR q xd0 t r) t) ∧
    (∀ x, X (RiemannGen.vHeadR eosIG (toData q)) ≤ x → node x = RiemannIG.solveWith (toData q) .SCR a.px xd0 x t) := by
  have hig : ∀ x, RiemannIG.solveWith (toData q) .SCR a.px xd0 x t
      = RiemannIG.assemble x
          [X (RiemannGen.vShockL (toData q) a), X a.ux1, X (RiemannGen.vTailR eosIG (toData q) a),
           X (RiemannGen.vHeadR eosIG (toData q))]
          [RiemannGen.starL eosIG (toData q) a, RiemannGen.starR eosIG (toData q) a,
           RiemannIG.fanState (toData q) q.pr q.rr q.ur q.gr x xd0 t, RiemannGen.rightState eosIG (toData q)] 0
          (0, RiemannGen.leftState eosIG (toData q)) := by
    intro x
    have hu : a.ux1 = RiemannIG.ux (toData q) .SCR a.px := by
      rw [ux_shock q a.px .SCR (Or.inr rfl)]; exact (starL_shock_exact hq hx hL).2
    rw [RiemannIG.solveWith, ← gen_vregs_eq_ig_SCR hq hx hL hR, vregs_SR eosIG (d := toData q) hL hR,
      starL_ig_shock hq hx .SCR (Or.inr rfl) hL, starR_ig_fan hq hx .SCR (Or.inl rfl) hR hu, leftState_ig,
      rightState_ig]
    rfl
  obtain ⟨h0n, hnc, hc2, h23, hp3⟩ := id g
  refine ⟨fun x h => ?_, fun x h1 h2 => ?_, fun x h1 h2 => ?_, fun r hr h0 h1 => ?_, fun x h => ?_⟩
  · rw [scr_zone_left eosIG (toData q) a prev next xd0 t xmaxW hL hR g h.le, hig,
      assemble_cons_gt h, assemble_cons_gt (by linarith), assemble_cons_gt (by linarith),
      assemble_cons_gt (by linarith), assemble_nil]
  · rw [scr_zone_starL eosIG (toData q) a prev next xd0 t xmaxW hL hR g h1 h2.le, hig,
      assemble_cons_le (by linarith), assemble_cons_gt h2, assemble_cons_gt (by linarith),
      assemble_cons_gt (by linarith), assemble_nil]
  · rw [scr_zone_starR eosIG (toData q) a prev next xd0 t xmaxW hL hR g h1 h2.le, hig,
      assemble_cons_le (by linarith), assemble_cons_le h1.le, assemble_cons_gt h2,
      assemble_cons_gt (by linarith), assemble_nil]
  · rw [scr_zone_fan eosIG (toData q) a prev next xd0 t xmaxW hL hR g h0 h1, hig,
      assemble_cons_le (by linarith), assemble_cons_le (by linarith), assemble_cons_le h0.le,
      assemble_cons_gt (by linarith), assemble_nil]
    obtain ⟨hpl, hrl, hgl, hpr, hrr, hgr⟩ := id hq
    obtain ⟨-, -, hrows⟩ := fan_exact_ig (Or.inl rfl) hgr hpr hrr (hx.fanR hR)
    obtain ⟨hm, e1, e2⟩ := hrows r hr
    have hp' : 0 < r.p := lt_of_lt_of_le hx.px_pos hm.1
    rw [ig_fanR_at_row q hq hd (x := rowXR q xd0 t r) ht.ne' hp' e1 e2 rfl]
    exact congrArg (Prod.mk 3)
      (interpG_mem RiemannGen.lerpS _ (RiemannGen.starR eosIG (toData q) a) hs (fanR_row_mem q a xd0 t hr))
  · rw [scr_zone_right eosIG (toData q) a prev next xd0 t xmaxW hL hR g h, hig,
      assemble_cons_le (by linarith), assemble_cons_le (by linarith), assemble_cons_le (by linarith),
      assemble_cons_le h, assemble_nil]

include hq hd hx ht in
/-- **C07 (P), rarefaction–contact–rarefaction.** -/
theorem gen_eq_ig_rcr_partial (hL : a.px < q.pl) (hR : a.px < q.pr) (g : GridRCR eosIG (toData q) a prev xd0 t)
    (hsL : FanIncrL q a xd0 t) (hsR : FanIncrR q a xd0 t) :
    (∀ x, x < X (RiemannGen.vHeadL eosIG (toData q)) → node x = RiemannIG.solveWith (toData q) .RCR a.px xd0 x t) ∧
    (∀ r ∈ a.tabL, X (RiemannGen.vHeadL eosIG (toData q)) < rowXL q xd0 t r →
        rowXL q xd0 t r < X (RiemannGen.vTailL eosIG (toData q) a) →
        node (rowXL q xd0 t r) = RiemannIG.solveWith (toData q) .RCR a.px xd0 (rowXL q xd0 t r) t) ∧
    (∀ x, X (RiemannGen.vTailL eosIG (toData q) a) < x → x < X a.ux1 →
        node x = RiemannIG.solveWith (toData q) .RCR a.px xd0 x t) ∧
    (∀ x, X a.ux1 < x → x < X (RiemannGen.vTailR eosIG (toData q) a) →
        node x = RiemannIG.solveWith (toData q) .RCR a.px xd0 x t) ∧
    (∀ r ∈ a.tabR, X (RiemannGen.vTailR eosIG (toData q) a) < rowXR q xd0 t r →
        rowXR q xd0 t r ≤ prev (X (RiemannGen.vHeadR eosIG (toData q))) →
        node (rowXR q xd0 t r) = RiemannIG.solveWith (toData q) .RCR a.px xd0 (rowXR q xd0 t r) t) ∧
    (∀ x, X (RiemannGen.vHeadR eosIG (toData q)) ≤ x → node x = RiemannIG.solveWith (toData q) .RCR a.px xd0 x t) := by
  have hig : ∀ x, RiemannIG.solveWith (toData q) .RCR a.px xd0 x t
      = RiemannIG.assemble x
          [X (RiemannGen.vHeadL eosIG (toData q)), X (RiemannGen.vTailL eosIG (toData q) a), X a.ux1,
           X (RiemannGen.vTailR eosIG (toData q) a), X (RiemannGen.vHeadR eosIG (toData q))]
          [RiemannIG.fanState (toData q) q.pl q.rl q.ul q.gl x xd0 t, RiemannGen.starL eosIG (toData q) a,
           RiemannGen.starR eosIG (toData q) a, RiemannIG.fanState (toData q) q.pr q.rr q.ur q.gr x xd0 t,
           RiemannGen.rightState eosIG (toData q)] 0
          (0, RiemannGen.leftState eosIG (toData q)) := by
    intro x
    have hu : a.ux1 = RiemannIG.ux (toData q) .RCR a.px := by
      rw [ux_fan q a.px .RCR (Or.inr rfl)]; exact (starL_fan_exact hq hx hL).2
    rw [RiemannIG.solveWith, ← gen_vregs_eq_ig_RCR hq hx hL hR, vregs_RR eosIG (d := toData q) hL hR,
      starL_ig_fan hq hx .RCR (Or.inr rfl) hL, starR_ig_fan hq hx .RCR (Or.inr rfl) hR hu, leftState_ig,
      rightState_ig]
    rfl
  obtain ⟨h01, h1c, hc3, h34, hp4⟩ := id g
  obtain ⟨hpl, hrl, hgl, hpr, hrr, hgr⟩ := id hq
  refine ⟨fun x h => ?_, fun r hr h0 h1 => ?_, fun x h1 h2 => ?_, fun x h1 h2 => ?_, fun r hr h0 h1 => ?_,
    fun x h => ?_⟩
  · rw [rcr_zone_left eosIG (toData q) a prev next xd0 t xmaxW hL hR g h.le, hig,
      assemble_cons_gt h, assemble_cons_gt (by linarith), assemble_cons_gt (by linarith),
      assemble_cons_gt (by linarith), assemble_cons_gt (by linarith), assemble_nil]
  · rw [rcr_zone_fanL eosIG (toData q) a prev next xd0 t xmaxW hL hR g h0 h1.le, hig,
      assemble_cons_le h0.le, assemble_cons_gt h1, assemble_cons_gt (by linarith),
      assemble_cons_gt (by linarith), assemble_cons_gt (by linarith), assemble_nil]
    obtain ⟨-, -, hrows⟩ := fan_exact_ig (Or.inr rfl) hgl hpl hrl (hx.fanL hL)
    obtain ⟨hm, e1, e2⟩ := hrows r hr
    have hp' : 0 < r.p := lt_of_lt_of_le hx.px_pos hm.1
    rw [ig_fanL_at_row q hq (x := rowXL q xd0 t r) ht.ne' hp' e1 e2 rfl]
    exact congrArg (Prod.mk 1)
      (interpG_mem RiemannGen.lerpS _ (RiemannGen.leftState eosIG (toData q)) hsL (fanL_row_mem q a xd0 t hr))
  · rw [rcr_zone_starL eosIG (toData q) a prev next xd0 t xmaxW hL hR g h1 h2.le, hig,
      assemble_cons_le (by linarith), assemble_cons_le h1.le, assemble_cons_gt h2,
      assemble_cons_gt (by linarith), assemble_cons_gt (by linarith), assemble_nil]
  · rw [rcr_zone_starR eosIG (toData q) a prev next xd0 t xmaxW hL hR g h1 h2.le, hig,
      assemble_cons_le (by linarith), assemble_cons_le (by linarith), assemble_cons_le h1.le,
      assemble_cons_gt h2, assemble_cons_gt (by linarith), assemble_nil]
  · rw [rcr_zone_fanR eosIG (toData q) a prev next xd0 t xmaxW hL hR g h0 h1, hig,
      assemble_cons_le (by linarith), assemble_cons_le (by linarith), assemble_cons_le (by linarith),
      assemble_cons_le h0.le, assemble_cons_gt (by linarith), assemble_nil]
    obtain ⟨-, -, hrows⟩ := fan_exact_ig (Or.inl rfl) hgr hpr hrr (hx.fanR hR)
    obtain ⟨hm, e1, e2⟩ := hrows r hr
    have hp' : 0 < r.p := lt_of_lt_of_le hx.px_pos hm.1
    rw [ig_fanR_at_row q hq hd (x := rowXR q xd0 t r) ht.ne' hp' e1 e2 rfl]
    exact congrArg (Prod.mk 4)
      (interpG_mem RiemannGen.lerpS _ (RiemannGen.starR eosIG (toData q) a) hsR (fanR_row_mem q a xd0 t hr))
  · rw [rcr_zone_right eosIG (toData q) a prev next xd0 t xmaxW hL hR g h, hig,
      assemble_cons_le (by linarith), assemble_cons_le (by linarith), assemble_cons_le (by linarith),
      assemble_cons_le (by linarith), assemble_cons_le h, assemble_nil]

include hq hd hx in
/-- **C07 (P), shock–contact–shock.** -/
theorem gen_eq_ig_scs_partial (hL : q.pl < a.px) (hR : q.pr < a.px) (g : GridSCS (toData q) a prev next xd0 t) :
    (∀ x, x < X (RiemannGen.vShockL (toData q) a) → node x = RiemannIG.solveWith (toData q) .SCS a.px xd0 x t) ∧
    (∀ x, next (X (RiemannGen.vShockL (toData q) a)) ≤ x → x < X a.ux1 →
        node x = RiemannIG.solveWith (toData q) .SCS a.px xd0 x t) ∧
    (∀ x, X a.ux1 < x → x ≤ prev (X (RiemannGen.vShockR (toData q) a)) →
        node x = RiemannIG.solveWith (toData q) .SCS a.px xd0 x t) ∧
    (∀ x, X (RiemannGen.vShockR (toData q) a) ≤ x → node x = RiemannIG.solveWith (toData q) .SCS a.px xd0 x t) := by
  have hig : ∀ x, RiemannIG.solveWith (toData q) .SCS a.px xd0 x t
      = RiemannIG.assemble x
          [X (RiemannGen.vShockL (toData q) a), X a.ux1, X (RiemannGen.vShockR (toData q) a)]
          [RiemannGen.starL eosIG (toData q) a, RiemannGen.starR eosIG (toData q) a,
           RiemannGen.rightState eosIG (toData q)] 0
          (0, RiemannGen.leftState eosIG (toData q)) := by
    intro x
    have hu : a.ux1 = RiemannIG.ux (toData q) .SCS a.px := by
      rw [ux_shock q a.px .SCS (Or.inl rfl)]; exact (starL_shock_exact hq hx hL).2
    rw [RiemannIG.solveWith, ← gen_vregs_eq_ig_SCS hq hd hx hL hR, vregs_SS eosIG (d := toData q) hL hR,
      starL_ig_shock hq hx .SCS (Or.inl rfl) hL, starR_ig_shock hq hd hx .SCS (Or.inl rfl) hR hu, leftState_ig,
      rightState_ig]
    rfl
  obtain ⟨h0n, hnc, hc2, hp2⟩ := id g
  refine ⟨fun x h => ?_, fun x h1 h2 => ?_, fun x h1 h2 => ?_, fun x h => ?_⟩
  · rw [scs_zone_left eosIG (toData q) a prev next xd0 t xmaxW hL hR g h.le, hig,
      assemble_cons_gt h, assemble_cons_gt (by linarith), assemble_cons_gt (by linarith), assemble_nil]
  · rw [scs_zone_starL eosIG (toData q) a prev next xd0 t xmaxW hL hR g h1 h2.le, hig,
      assemble_cons_le (by linarith), assemble_cons_gt h2, assemble_cons_gt (by linarith), assemble_nil]
  · rw [scs_zone_starR eosIG (toData q) a prev next xd0 t xmaxW hL hR g h1 h2, hig,
      assemble_cons_le (by linarith), assemble_cons_le h1.le, assemble_cons_gt (by linarith), assemble_nil]
  · rw [scs_zone_right eosIG (toData q) a prev next xd0 t xmaxW hL hR g h, hig,
      assemble_cons_le (by linarith), assemble_cons_le (by linarith), assemble_cons_le h, assemble_nil]

end assembled

/-! ### non-vacuity: exact atoms exist — the closed forms of the ideal-gas solver ARE exact atoms -/

/-- the closed forms solve the traced ODE system through `(p0, ρ0, u0)` on every `[lo, p0]`, `lo > 0` -/
theorem closedForm_isentrope {g ws p0 r0 lo : ℝ} (u0 : ℝ) (hws : ws = 1 ∨ ws = -1) (hg : 1 < g) (hp0 : 0 < p0)
    (hr0 : 0 < r0) (hlo : 0 < lo) :
    IsentropeSolution eosIG g ws p0 r0 u0 lo (fun p => rhoRare p p0 r0 g) (fun p => u0 - ws * rare p p0 r0 0 g) where
  hR p hp := by
    have hpp : 0 < p := lt_of_lt_of_le hlo hp.1
    rw [odeR_ig]
    exact (rarefaction_ode_density_partial hp0 hr0 hg hpp ws).1
  hU p hp := by
    have hpp : 0 < p := lt_of_lt_of_le hlo hp.1
    rw [odeU_ig]
    rcases hws with rfl | rfl
    · have hc := rarefaction_ode_velocity_right_partial u0 hp0 hr0 hg hpp
      refine hc.congr_of_eventuallyEq (Filter.Eventually.of_forall fun x => ?_)
      ring
    · have hc := ((rarefaction_ode_velocity_partial 0 hp0 hr0 hg hpp).1).const_add u0
      refine hc.congr_of_eventuallyEq (Filter.Eventually.of_forall fun x => ?_)
      ring
  pos p hp := rhoRare_pos hp0 hr0 (lt_of_lt_of_le hlo hp.1)
  R0 := (rarefaction_ode_density_partial hp0 hr0 hg hp0 ws).2
  U0 := by simp only [rare_self hp0.ne']; ring

/-- a two-row fan table (initial state, star state) on the closed-form isentrope is an exact fan atom -/
theorem fanAtom_closedForm {g ws p0 r0 px : ℝ} (u0 : ℝ) (hws : ws = 1 ∨ ws = -1) (hg : 1 < g) (hp0 : 0 < p0)
    (hr0 : 0 < r0) (hpx : 0 < px) (hle : px ≤ p0) :
    FanAtom eosIG g ws p0 r0 u0 px (rhoRare px p0 r0 g) (u0 - ws * rare px p0 r0 0 g)
      [⟨p0, r0, u0⟩, ⟨px, rhoRare px p0 r0 g, u0 - ws * rare px p0 r0 0 g⟩] := by
  refine ⟨hpx, hle, _, _, closedForm_isentrope u0 hws hg hp0 hr0 hpx, rfl, rfl, ?_⟩
  intro r hr
  simp only [List.mem_cons, List.not_mem_nil, or_false] at hr
  rcases hr with rfl | rfl
  · refine ⟨⟨hle, le_rfl⟩, ?_, ?_⟩
    · exact ((rarefaction_ode_density_partial hp0 hr0 hg hp0 ws).2).symm
    · simp only [rare_self hp0.ne']; ring
  · exact ⟨⟨le_rfl, hle⟩, rfl, rfl⟩

/-- `rho_star_shock` and `u0 ∓ shock` are an exact Hugoniot atom -/
theorem hugoniotAtom_closedForm (q : Prob) {p0 r0 g px : ℝ} (u0 : ℝ) (hp0 : 0 < p0) (hr0 : 0 < r0) (hg : 1 < g)
    (hpx : p0 < px) :
    HugoniotAtom eosIG (toData q) p0 r0 u0 g px (rhoShock px p0 r0 g)
      (u0 + -fanSgn q p0 r0 u0 * shock px p0 r0 0 g) := by
  have hpx0 : 0 < px := lt_trans hp0 hpx
  have hrx := rhoShock_pos hp0 hr0 hg hpx0
  have hne := EPV.C07.Riemann.rhoShock_ne hp0 hr0 hg hpx0 hpx.ne'
  have hdiff : 0 < rhoShock px p0 r0 g - r0 := by
    have hD : 0 < px * (g - 1) + p0 * (g + 1) := by nlinarith
    have hD' := hD.ne'
    have : rhoShock px p0 r0 g - r0 = 2 * r0 * (px - p0) / (px * (g - 1) + p0 * (g + 1)) := by
      rw [rhoShock_eq, div_sub' hD', div_left_inj' hD']; ring
    rw [this]
    have : 0 < px - p0 := by linarith
    positivity
  refine ⟨hr0, hrx, hne, ?_, ?_, ?_⟩
  · exact div_nonneg (by linarith) hdiff.le
  · rw [shockJump_ig]
    exact (hugoniot_root_partial hp0 hr0 hg hpx0 hrx hne).mpr rfl
  · rw [starVelocity_gen]
    exact (star_velocity_partial q hp0 hr0 hg hpx).symm

/-- γ = 3 on both sides, rational star state: pl = 1, ρl = 3, ul = 0 | pr = 1/12, ρr = 3/4, ur = 5/12; px = 1/8 -/
noncomputable def qEx : Prob := { pl := 1, rl := 3, ul := 0, gl := 3, pr := 1 / 12, rr := 3 / 4, ur := 5 / 12, gr := 3 }

noncomputable def aEx : Atoms ℝ :=
  { px := 1 / 8, rx1 := rhoRare (1 / 8) 1 3 3, ux1 := 0 - -1 * rare (1 / 8) 1 3 0 3,
    rx2 := rhoShock (1 / 8) (1 / 12) (3 / 4) 3,
    ux2 := 5 / 12 + -fanSgn qEx (1 / 12) (3 / 4) (5 / 12) * shock (1 / 8) (1 / 12) (3 / 4) 0 3,
    tabL := [⟨1, 3, 0⟩, ⟨1 / 8, rhoRare (1 / 8) 1 3 3, 0 - -1 * rare (1 / 8) 1 3 0 3⟩], tabR := [] }

theorem qEx_ok : qEx.Admissible ∧ qEx.Distinct := by
  constructor
  · unfold Prob.Admissible qEx; norm_num
  · unfold Prob.Distinct qEx; norm_num

theorem ex_cube_root : ((1 / 8 : ℝ) / 1) ^ (((3 : ℝ) - 1) / 2 / 3) = 1 / 2 := by
  rw [show ((1 / 8 : ℝ) / 1) = (1 / 2) ^ (3 : ℕ) by norm_num,
    show ((3 : ℝ) - 1) / 2 / 3 = ((3 : ℕ) : ℝ)⁻¹ by norm_num,
    Real.pow_rpow_inv_natCast (by norm_num) (by norm_num)]

/-- **the hypotheses of `gen_pattern_eq_ig_partial` and `gen_eq_ig_rcs_partial` are satisfiable** -/
theorem ex_exactIG : ExactIG qEx aEx where
  px_pos := by norm_num [aEx]
  fanL _ := fanAtom_closedForm (g := 3) (ws := -1) (p0 := 1) (r0 := 3) (px := 1 / 8) 0 (Or.inr rfl) (by norm_num)
    (by norm_num) (by norm_num) (by norm_num) (by norm_num)
  shockL h := by norm_num [aEx, qEx] at h
  fanR h := by norm_num [aEx, qEx] at h
  shockR _ := hugoniotAtom_closedForm qEx (p0 := 1 / 12) (r0 := 3 / 4) (g := 3) (px := 1 / 8) (5 / 12) (by norm_num)
    (by norm_num) (by norm_num) (by norm_num)
  cross := by
    have hs : fanSgn qEx (1 / 12) (3 / 4) (5 / 12) = -1 := fanSgn_right qEx qEx_ok.2
    have e : (2 : ℝ) / (3 + 1) / (3 / 4) / (1 / 8 + (3 - 1) / (3 + 1) * (1 / 12)) = 2 ^ 2 := by norm_num
    have e2 : (3 : ℝ) * 1 / 3 = 1 := by norm_num
    simp only [Crossing, aEx, hs, shock_eq, rare_eq, e, e2, Real.sqrt_one, ex_cube_root]
    rw [Real.sqrt_sq (by norm_num)]
    norm_num

example : aEx.px ≠ qEx.pl ∧ aEx.px ≠ qEx.pr ∧ aEx.px < qEx.pl ∧ qEx.pr < aEx.px := by
  refine ⟨?_, ?_, ?_, ?_⟩ <;> norm_num [aEx, qEx]

end EPV.C07.RiemannGen
