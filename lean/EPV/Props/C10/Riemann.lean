/-
C10 — the 1-D ideal-gas Riemann solution depends on position and time only through
(x - xd0)/t.

* the fan profile `rho_p_u_rarefaction` at (xd0 + s (x - xd0), s t) equals its value at (x, t)
  for every s ≠ 0 — on the generated tree, every leaf (`fan_selfsimilar`);
* the WHOLE assembled solution (hand model `EPV.Model.RiemannIG` over ℝ: same pattern — which
  does not involve x, t at all —, same region, same p, ρ, u, e) is invariant under
  (x - xd0, t) ↦ (s (x - xd0), s t) for every s > 0 (`solve_selfsimilar`); the region boundaries
  are `Xregs = xd0 + t·Vregs` with `Vregs` independent of x and t.
-/
import EPV.Lemmas.Riemann

set_option linter.all false

open EPV EPV.Gen EPV.Model EPV.Spec.Riemann EPV.Riem

namespace EPV.C10.Riemann

/-- the fan formulas see x and t only through (x - xd0)/t: generated tree, all leaves -/
theorem fan_selfsimilar (P : RiemFan.P) (x t s : ℝ) (hs : s ≠ 0) (ht : t ≠ 0) :
    RiemFan.density P (P.xd0 + s * (x - P.xd0)) (s * t) = RiemFan.density P x t ∧
    RiemFan.pressure P (P.xd0 + s * (x - P.xd0)) (s * t) = RiemFan.pressure P x t ∧
    RiemFan.velocity P (P.xd0 + s * (x - P.xd0)) (s * t) = RiemFan.velocity P x t := by
  -- shape-independent: every `P` is a `toFan` record, and on those the tree-level closed forms `fanRho_eq`,
  -- `fanP_eq`, `fanU_eq` (all leaves of the side detection) see x, t only through (x - xd0)/t
  have key : ∀ (q : Prob) (p ρ u γ xd0 : ℝ),
      RiemFan.density (toFan q p ρ u γ xd0) (xd0 + s * (x - xd0)) (s * t) = RiemFan.density (toFan q p ρ u γ xd0) x t ∧
      RiemFan.pressure (toFan q p ρ u γ xd0) (xd0 + s * (x - xd0)) (s * t) = RiemFan.pressure (toFan q p ρ u γ xd0) x t ∧
      RiemFan.velocity (toFan q p ρ u γ xd0) (xd0 + s * (x - xd0)) (s * t)
        = RiemFan.velocity (toFan q p ρ u γ xd0) x t := by
    intro q p ρ u γ xd0
    have e : (xd0 + s * (x - xd0) - xd0) / (s * t) = (x - xd0) / t := by field_simp; ring
    have hy : fanY q p ρ u γ xd0 (xd0 + s * (x - xd0)) (s * t) = fanY q p ρ u γ xd0 x t := by
      unfold fanY; rw [e]
    refine ⟨?_, ?_, ?_⟩
    · show fanRho q p ρ u γ xd0 _ _ = fanRho q p ρ u γ xd0 x t
      rw [fanRho_eq, fanRho_eq, hy]
    · show fanP q p ρ u γ xd0 _ _ = fanP q p ρ u γ xd0 x t
      rw [fanP_eq, fanP_eq, hy]
    · show fanU q p ρ u γ xd0 _ _ = fanU q p ρ u γ xd0 x t
      rw [fanU_eq, fanU_eq, e]
  have hP : P = toFan { pl := P.pl, rl := P.rl, ul := P.ul, gl := 0, pr := 0, rr := 0, ur := 0, gr := 0 }
      P.pk P.rk P.uk P.gk P.xd0 := by cases P; rfl
  have h := key { pl := P.pl, rl := P.rl, ul := P.ul, gl := 0, pr := 0, rr := 0, ur := 0, gr := 0 }
    P.pk P.rk P.uk P.gk P.xd0
  rw [← hP] at h
  exact h

/-- the same for the views used by the assembly -/
theorem fan_similar (q : Prob) (p ρ u γ xd0 x t s : ℝ) (hs : s ≠ 0) (ht : t ≠ 0) :
    fanRho q p ρ u γ xd0 (xd0 + s * (x - xd0)) (s * t) = fanRho q p ρ u γ xd0 x t ∧
    fanP q p ρ u γ xd0 (xd0 + s * (x - xd0)) (s * t) = fanP q p ρ u γ xd0 x t ∧
    fanU q p ρ u γ xd0 (xd0 + s * (x - xd0)) (s * t) = fanU q p ρ u γ xd0 x t :=
  fan_selfsimilar (toFan q p ρ u γ xd0) x t s hs ht

private theorem bnd {xd0 t s x V : ℝ} (hs : 0 < s) : (xd0 + s * t * V ≤ xd0 + s * (x - xd0) ↔ xd0 + t * V ≤ x) := by
  constructor
  · intro h
    have : s * (xd0 + t * V) ≤ s * x := by nlinarith
    exact le_of_mul_le_mul_left this hs
  · intro h
    have : s * (xd0 + t * V) ≤ s * x := mul_le_mul_of_nonneg_left h hs.le
    nlinarith

/-- C10 for the assembled solution, any given pattern -/
theorem solveWith_selfsimilar (q : Prob) (pat : RiemannIG.Pattern) (px xd0 x t s : ℝ) (hs : 0 < s) (ht : t ≠ 0) :
    RiemannIG.solveWith (toData q) pat px xd0 (xd0 + s * (x - xd0)) (s * t)
      = RiemannIG.solveWith (toData q) pat px xd0 x t := by
  have hfL : RiemannIG.fanState (toData q) q.pl q.rl q.ul q.gl (xd0 + s * (x - xd0)) xd0 (s * t)
      = RiemannIG.fanState (toData q) q.pl q.rl q.ul q.gl x xd0 t := by
    obtain ⟨f1, f2, f3⟩ := fan_similar q q.pl q.rl q.ul q.gl xd0 x t s hs.ne' ht
    rw [fanState_eq, fanState_eq, f1, f2, f3]
  have hfR : RiemannIG.fanState (toData q) q.pr q.rr q.ur q.gr (xd0 + s * (x - xd0)) xd0 (s * t)
      = RiemannIG.fanState (toData q) q.pr q.rr q.ur q.gr x xd0 t := by
    obtain ⟨f1, f2, f3⟩ := fan_similar q q.pr q.rr q.ur q.gr xd0 x t s hs.ne' ht
    rw [fanState_eq, fanState_eq, f1, f2, f3]
  have dl : (toData q).pl = q.pl ∧ (toData q).rl = q.rl ∧ (toData q).ul = q.ul ∧ (toData q).gl = q.gl ∧
      (toData q).pr = q.pr ∧ (toData q).rr = q.rr ∧ (toData q).ur = q.ur ∧ (toData q).gr = q.gr :=
    ⟨rfl, rfl, rfl, rfl, rfl, rfl, rfl, rfl⟩
  obtain ⟨d1, d2, d3, d4, d5, d6, d7, d8⟩ := dl
  have key := assemble_rel id x (xd0 + s * (x - xd0))
  unfold RiemannIG.solveWith
  have fin : ∀ (Xs Xs' : List ℝ) (ss ss' : List (RiemannIG.State ℝ)),
      List.Forall₂ (fun X X' => (X' ≤ xd0 + s * (x - xd0) ↔ X ≤ x)) Xs Xs' →
      List.Forall₂ (fun a b => b = id a) ss ss' →
      RiemannIG.assemble (xd0 + s * (x - xd0)) Xs' ss' 0 (0, RiemannIG.leftState (toData q))
        = RiemannIG.assemble x Xs ss 0 (0, RiemannIG.leftState (toData q)) := by
    intro Xs Xs' ss ss' h1 h2
    have := key Xs Xs' ss ss' 0 (0, RiemannIG.leftState (toData q)) h1 h2
    simpa using this
  apply fin
  · cases pat <;>
      simp only [RiemannIG.vregs, RiemannIG.xregs, List.map] <;>
      repeat (first | exact List.Forall₂.nil
                    | refine List.Forall₂.cons (bnd hs) ?_)
  · cases pat <;>
      simp only [RiemannIG.regStates, d1, d2, d3, d4, d5, d6, d7, d8, hfL, hfR] <;>
      repeat (first | exact List.Forall₂.nil | refine List.Forall₂.cons rfl ?_)

/-- C10: the Riemann solution (pattern, region, p, ρ, u, e) at (xd0 + s (x - xd0), s t) equals the
solution at (x, t), for every s > 0 and t ≠ 0 — i.e. it depends on x and t only through
(x - xd0)/t.  The classification does not involve x or t at all. -/
theorem solve_selfsimilar (q : Prob) (px xd0 x t s : ℝ) (hs : 0 < s) (ht : t ≠ 0) :
    Riem.solve q px xd0 (xd0 + s * (x - xd0)) (s * t) = Riem.solve q px xd0 x t := by
  simp only [Riem.solve, RiemannIG.solve]
  rw [solveWith_selfsimilar q _ px xd0 x t s hs ht]

/-- non-vacuity (solver default time t = 0.25, scale 2) -/
example : (0 : ℝ) < 2 ∧ (1 / 4 : ℝ) ≠ 0 := by norm_num

end EPV.C10.Riemann
