/-
C10 — escape of HE products, region I (the Taylor wave behind the detonation front): the returned
fields depend on position and time only through x/t.

`ehep_region_I_self_similar` (tree level): for accepted parameters, when the polygon test puts
both (x, t) and its image (s x, s t), s > 0, into region I (the atom `region` = 1), the returned
density, pressure, internal energy, sound speed and velocity coincide — including the
`ρ = 0` twin branch.  Region I is a triangle, not a cone (it ends where the reflected
characteristics arrive), so the image has to be in region I as well; the hand model
EPV/Model/EHEP.lean gives the half-planes.  `ehep_region_I_xi`: the fields as explicit functions
of ξ = x/t.
-/
import EPV.Lemmas.EHEP
import EPV.Gen.EHEPInit
import EPV.Lemmas.Bridge.DetonTactics

set_option linter.all false

open EPV EPV.Gen EPV.EHEPL

namespace EPV.C10

theorem ehep_region_I_self_similar (p : EHEP.P) (x t s : ℝ) (ha : Accepted p) (hr : p.region = 1) (hs : 0 < s) :
    EHEP.density p (s * x) (s * t) = EHEP.density p x t ∧
    EHEP.pressure p (s * x) (s * t) = EHEP.pressure p x t ∧
    EHEP.specific_internal_energy p (s * x) (s * t) = EHEP.specific_internal_energy p x t ∧
    EHEP.sound_speed p (s * x) (s * t) = EHEP.sound_speed p x t ∧
    EHEP.velocity p (s * x) (s * t) = EHEP.velocity p x t := by
  obtain ⟨a1, a2, a3, a4, a5⟩ := region_I p x t ha hr
  obtain ⟨b1, b2, b3, b4, b5⟩ := region_I p (s * x) (s * t) ha hr
  rw [a1, a2, a3, a4, a5, b1, b2, b3, b4, b5]
  simp only [epv_leaf, mul_div_mul_left _ _ hs.ne', and_self]

/-- region I in the similarity variable ξ = x/t: c = (ξ + D/2)/2, u = (ξ - D/2)/2 -/
theorem ehep_region_I_xi (p : EHEP.P) (x t : ℝ) (ha : Accepted p) (hr : p.region = 1) :
    EHEP.sound_speed p x t = (x / t + p.D / 2) / 2 ∧ EHEP.velocity p x t = (x / t - p.D / 2) / 2 ∧
    EHEP.density p x t = 16 / 9 * p.rho_0 * EHEP.sound_speed p x t / p.D ∧
    EHEP.pressure p x t = 16 / 27 * p.rho_0 * p.D ^ 2 * (EHEP.sound_speed p x t / p.D) ^ 3 := by
  obtain ⟨a1, a2, a3, a4, a5⟩ := region_I p x t ha hr
  have hD : p.D ≠ 0 := ha.1.ne'
  rw [a1, a2, a4, a5]
  simp only [epv_leaf]
  refine ⟨?_, ?_, ?_, ?_⟩ <;> epv_deton_feq

/-- **Region I by half-planes.**  The three edge cross products `(b - a) × (P - a)` of the traced polygon
`corners['I']` (`EHEPInit`, corners 0, 1, 2 in the code's order) are positive multiples of
  `D t - x` (left of the front, curve A), `-(D/2)(t - t̃) - (x - x̃)` (before the first reflected
  characteristic, curve D) and `x - (2 u_p + D/2) t` (right of curve C):
the half-planes the hand model EPV/Model/EHEP.lean tests (`insideHP`) are the ones the C17 hypotheses name.
The factor of the middle one is positive iff u_p < D/4, i.e. for the documented γ = 3. -/
theorem ehep_region_I_halfplanes (p : EHEPInit.P) (x t : ℝ) (h : EHEPInit.outcome p = .ok) :
    (EHEPInit.cI_1_x p - EHEPInit.cI_0_x p) * (t - EHEPInit.cI_0_t p)
        - (EHEPInit.cI_1_t p - EHEPInit.cI_0_t p) * (x - EHEPInit.cI_0_x p)
      = p.xtilde / p.D * (p.D * t - x) ∧
    (EHEPInit.cI_2_x p - EHEPInit.cI_1_x p) * (t - EHEPInit.cI_1_t p)
        - (EHEPInit.cI_2_t p - EHEPInit.cI_1_t p) * (x - EHEPInit.cI_1_x p)
      = (EHEPInit.cI_2_t p - EHEPInit.cI_1_t p) * (-(p.D / 2) * (t - p.xtilde / p.D) - (x - p.xtilde)) ∧
    (EHEPInit.cI_0_x p - EHEPInit.cI_2_x p) * (t - EHEPInit.cI_2_t p)
        - (EHEPInit.cI_0_t p - EHEPInit.cI_2_t p) * (x - EHEPInit.cI_2_x p)
      = EHEPInit.cI_2_t p * (x - (2 * p.up + p.D / 2) * t) ∧
    0 < p.xtilde / p.D ∧ 0 < EHEPInit.cI_2_t p ∧
    (0 < EHEPInit.cI_2_t p - EHEPInit.cI_1_t p ↔ p.up < p.D / 4) := by
  simp only [epv_tree] at *
  split_ifs at * <;> first
    | epv_absurd
    | (simp only [epv_cond, not_le, not_lt] at *
       have hD : p.D ≠ 0 := by linarith
       have h2 : 0 < 2 * p.up + p.D := by linarith
       have h4 : 4 * p.up + 2 * p.D ≠ 0 := by linarith
       refine ⟨by simp only [epv_leaf]; epv_deton_feqd, by simp only [epv_leaf]; epv_deton_feqd, by simp only [epv_leaf]; epv_deton_feqd,
         by (try simp only [epv_leaf]); positivity, by (try simp only [epv_leaf]); positivity, ?_⟩
       -- closed form of the difference of the two corner times, whatever the constructor writes
       generalize hA : (_ - _ : ℝ) = A
       have hA' : A = p.xtilde * (p.D / 4 - p.up) * (2 / (p.D * (2 * p.up + p.D))) := by
         rw [← hA]; simp only [epv_leaf]; epv_deton_feqd
       rw [hA']
       have : 0 < 2 / (p.D * (2 * p.up + p.D)) := by positivity
       rw [mul_pos_iff_of_pos_right this, mul_pos_iff_of_pos_left (by assumption)]
       constructor <;> intro h' <;> linarith)

/-- non-vacuity: the default parameters are accepted -/
example : ∃ p : EHEP.P, Accepted p ∧ p.region = 1 := by
  refine ⟨⟨17/20, 3, 1, 8/5, 10, 1/20, 10, 1⟩, ?_, rfl⟩
  unfold Accepted; norm_num

end EPV.C10
