/-
C10 — Mader: "depends on position and time only through x/t (for Mader, whose values are cell
averages, when the cell size is scaled with t as well)".

`mader_self_similar`: for every s > 0, evaluating `rare` at (s · xlab, s · time) with cell width
s · dx returns the same velocity, pressure, sound speed and density, takes the same branch (fan /
transition cell / constant state), and `xdet` scales with s.  Tree level (all branches, including
the transition cell), all real parameters, no restriction on γ.  It is the case a = b = s, m = 1 of
the scaling group `MaderL.mader_scaling`.

The position argument of `rare` is `xlab` with the front at xlab = 0 … `xdet = d_cj · time - xlab`
is what the similarity variable is built from; scaling xlab and time together scales xdet.
-/
import EPV.Lemmas.MaderScaling

set_option linter.all false

open EPV EPV.Gen EPV.MaderL

namespace EPV.C10

theorem mader_self_similar (p : MaderRare.P) (xlab time s : ℝ) (hs : 0 < s) :
    MaderRare.velocity ⟨p.d_cj, p.dx * s, p.gam, p.p_cj, p.u_piston⟩ (s * xlab) (s * time) = MaderRare.velocity p xlab time ∧
    MaderRare.pressure ⟨p.d_cj, p.dx * s, p.gam, p.p_cj, p.u_piston⟩ (s * xlab) (s * time) = MaderRare.pressure p xlab time ∧
    MaderRare.sound_speed ⟨p.d_cj, p.dx * s, p.gam, p.p_cj, p.u_piston⟩ (s * xlab) (s * time)
      = MaderRare.sound_speed p xlab time ∧
    MaderRare.density ⟨p.d_cj, p.dx * s, p.gam, p.p_cj, p.u_piston⟩ (s * xlab) (s * time) = MaderRare.density p xlab time ∧
    MaderRare.xdet ⟨p.d_cj, p.dx * s, p.gam, p.p_cj, p.u_piston⟩ (s * xlab) (s * time) = s * MaderRare.xdet p xlab time ∧
    MaderRare.leaf ⟨p.d_cj, p.dx * s, p.gam, p.p_cj, p.u_piston⟩ (s * xlab) (s * time) = MaderRare.leaf p xlab time := by
  have h := mader_scaling p xlab time s s 1 hs hs one_pos
  have e : scaleP p s s 1 = ⟨p.d_cj, p.dx * s, p.gam, p.p_cj, p.u_piston⟩ := by
    simp only [scaleP, div_self hs.ne', mul_one]
  rw [e] at h
  obtain ⟨h1, h2, h3, h4, h5, h6⟩ := h
  refine ⟨?_, ?_, ?_, ?_, h5, h6⟩
  · rw [h1, div_self hs.ne', one_mul]
  · rw [h3, one_mul]
  · rw [h2, div_self hs.ne', one_mul]
  · rw [h4, div_self hs.ne']; ring

/-- non-vacuity -/
example : ∃ s : ℝ, 0 < s := ⟨2, by norm_num⟩

end EPV.C10
