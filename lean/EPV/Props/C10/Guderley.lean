/-
C10 — Guderley: the returned fields depend on position and time only through the similarity
variable x = t_L / r^λ (t_L = Lazarus time = t / 0.750024322 - 1) and the documented power-law
prefactors (Lazarus 1981, Eq. 2.5):

    ρ = ρ₀ R(x) ,  u = r^(1-λ)/(-λ x) V(x) ,  c = r^(1-λ)/(-λ x) C(x) ,  p = ρ c²/γ ,  e = p/((γ-1)ρ)

for ARBITRARY functions (V, C, R) — the numerical atoms — and arbitrary real λ, B.

* `guderley_power_law_form` : the form above, behind the converging shock (x ≥ -1); ahead of it
  the undisturbed state (ρ₀, 0, 0, 0, 0).
* `guderley_similarity` : the similarity map.  For every s > 0 the point (s r, t_L' = s^λ t_L) has
  the same similarity coordinate as (r, t_L), lies on the same branch of `state`, and
      ρ' = ρ ,  u' = s^(1-λ) u ,  c' = s^(1-λ) c ,  p' = s^(2(1-λ)) p ,  e' = s^(2(1-λ)) e .
  In terms of the solver's own time argument the image time is
      t' = 0.750024322 (s^λ (t / 0.750024322 - 1) + 1)         (`solverTime (s^λ * lazarus t)`).

Partial only in that (V, C, R), λ, B are atoms: that the SAME functions (V, C, R) serve all points
of one call is how `state` works (it integrates from x = -1 to the point's x); it is checked on the
real code by the similarity oracle (thorough tier).
-/
import EPV.Spec.Guderley

set_option linter.all false

open EPV EPV.Gen EPV.Spec.Guderley

namespace EPV.C10

/-- behind the converging shock: Lazarus' Eq. (2.5) with the coded prefactors -/
theorem guderley_power_law_form (i : Inp) (a : Atoms) (r t : ℝ) (hx : -1 ≤ xi i a r t) :
    density i a r t = a.R (xi i a r t) * i.rho0
    ∧ velocity i a r t = a.V (xi i a r t) * r ^ (1 - a.lam) / (xi i a r t * (-1) * a.lam)
    ∧ sound_speed i a r t = a.C (xi i a r t) * r ^ (1 - a.lam) / (xi i a r t * (-1) * a.lam)
    ∧ pressure i a r t = (a.C (xi i a r t) * r ^ (1 - a.lam) / (xi i a r t * (-1) * a.lam)) ^ 2
        / (i.gamma * (1 / i.rho0) * (1 / a.R (xi i a r t)))
    ∧ sie i a r t = (a.C (xi i a r t) * r ^ (1 - a.lam) / (xi i a r t * (-1) * a.lam)) ^ 2
        / (i.gamma * (1 / i.rho0) * (1 / a.R (xi i a r t))) / ((i.gamma - 1) * i.rho0 * a.R (xi i a r t)) :=
  power_law_form i a r t hx

/-- ahead of the converging shock: the undisturbed gas -/
theorem guderley_ahead (i : Inp) (a : Atoms) (r t : ℝ) (hx : xi i a r t < -1) :
    density i a r t = i.rho0 ∧ velocity i a r t = 0 ∧ sound_speed i a r t = 0 ∧ pressure i a r t = 0
    ∧ sie i a r t = 0 :=
  ahead_form i a r t hx

/-- the similarity coordinate is invariant under (r, t_L) ↦ (s r, s^λ t_L) -/
theorem xi_similarity (i : Inp) (a : Atoms) (r tL s : ℝ) (hs : 0 < s) (hr : 0 < r) :
    xi i a (s * r) (solverTime (s ^ a.lam * tL)) = xi i a r (solverTime tL) := by
  rw [xi_solverTime, xi_solverTime, Real.mul_rpow hs.le hr.le]
  have h1 : s ^ a.lam ≠ 0 := (Real.rpow_pos_of_pos hs _).ne'
  have h2 : r ^ a.lam ≠ 0 := (Real.rpow_pos_of_pos hr _).ne'
  field_simp

/-- **C10, Guderley.**  The similarity map with the documented exponents. -/
theorem guderley_similarity (i : Inp) (a : Atoms) (r tL s : ℝ) (hs : 0 < s) (hr : 0 < r) :
    let t := solverTime tL
    let t' := solverTime (s ^ a.lam * tL)
    density i a (s * r) t' = density i a r t
    ∧ velocity i a (s * r) t' = s ^ (1 - a.lam) * velocity i a r t
    ∧ sound_speed i a (s * r) t' = s ^ (1 - a.lam) * sound_speed i a r t
    ∧ pressure i a (s * r) t' = (s ^ (1 - a.lam)) ^ 2 * pressure i a r t
    ∧ sie i a (s * r) t' = (s ^ (1 - a.lam)) ^ 2 * sie i a r t := by
  intro t t'
  have hxi : xi i a (s * r) t' = xi i a r t := xi_similarity i a r tL s hs hr
  by_cases hx : xi i a r t < -1
  · obtain ⟨h1, h2, h3, h4, h5⟩ := guderley_ahead i a r t hx
    obtain ⟨g1, g2, g3, g4, g5⟩ := guderley_ahead i a (s * r) t' (by rw [hxi]; exact hx)
    rw [h1, h2, h3, h4, h5, g1, g2, g3, g4, g5]
    simp
  · obtain ⟨h1, h2, h3, h4, h5⟩ := guderley_power_law_form i a r t (not_lt.mp hx)
    obtain ⟨g1, g2, g3, g4, g5⟩ := guderley_power_law_form i a (s * r) t' (by rw [hxi]; exact not_lt.mp hx)
    rw [h1, h2, h3, h4, h5, g1, g2, g3, g4, g5, hxi, Real.mul_rpow hs.le hr.le]
    refine ⟨rfl, ?_, ?_, ?_, ?_⟩ <;> ring

/-- the image time in the solver's own time argument -/
theorem solverTime_image (s lam t : ℝ) :
    solverTime (s ^ lam * lazarus t) = fC * (s ^ lam * (t / fC - 1) + 1) := rfl

/-- non-vacuity: s = 2, r = 1/2 -/
example : ∃ s r : ℝ, 0 < s ∧ 0 < r := ⟨2, 1 / 2, by norm_num, by norm_num⟩

end EPV.C10
