/-
C10 — self-similarity of Noh and Coggeshall 19.

Both solutions depend on position and time only through r/t: for every s > 0 the call at
(s·r, s·t) takes the same branch of the traced decision tree as the call at (r, t) and
returns the same density, velocity, pressure, specific internal energy (and temperature);
the returned `position` is the input position and scales with s.  All real parameters, all
real r and t (no sign or range restriction is needed: the map only has to cancel s).
-/
import EPV.Gen.Noh
import EPV.Lemmas.Bridge.Noh
import EPV.Gen.Cog19
import EPV.Lemmas.Bridge.Cog19
import EPV.Lemmas.HydroRobust
import EPV.Tactics

set_option linter.all false

open EPV EPV.Gen
open Classical

namespace EPV.C10

/-! ### Noh -/

/-- the shock test is invariant under (r, t) ↦ (s r, s t), s > 0 -/
theorem noh_cond_similar (p : Noh.P) (r t s : ℝ) (hs : 0 < s) :
    Noh.c0 p (s * r) (s * t) ↔ Noh.c0 p r t := by
  rw [EPV.Bridge.noh_c0_iff, EPV.Bridge.noh_c0_iff]
  rw [show |p.u0| * (s * t) * (p.gamma - 1) / 2 = s * (|p.u0| * t * (p.gamma - 1) / 2) by ring]
  exact mul_lt_mul_iff_of_pos_left hs

/-- same branch of the decision tree -/
theorem noh_leaf_similar (p : Noh.P) (r t s : ℝ) (hs : 0 < s) :
    Noh.leaf p (s * r) (s * t) = Noh.leaf p r t := by
  simp only [Noh.leaf, noh_cond_similar p r t s hs]

theorem noh_outcome_similar (p : Noh.P) (r t s : ℝ) (hs : 0 < s) :
    Noh.outcome p (s * r) (s * t) = Noh.outcome p r t := by
  simp only [Noh.outcome, noh_cond_similar p r t s hs]

/-- every thermodynamic and kinematic field is a function of r/t alone -/
theorem noh_fields_similar (p : Noh.P) (r t s : ℝ) (hs : 0 < s) :
    Noh.density p (s * r) (s * t) = Noh.density p r t ∧
    Noh.velocity p (s * r) (s * t) = Noh.velocity p r t ∧
    Noh.pressure p (s * r) (s * t) = Noh.pressure p r t ∧
    Noh.specific_internal_energy p (s * r) (s * t) = Noh.specific_internal_energy p r t := by
  have hs' := hs.ne'
  simp only [epv_tree, noh_cond_similar p r t s hs]
  -- r = 0: every quotient by r is 0 on both sides; r ≠ 0: the factor s cancels in every quotient
  by_cases hr : r = 0
  · subst hr
    refine ⟨?_, ?_, ?_, ?_⟩ <;> split_ifs <;>
      simp only [epv_leaf, mul_zero, zero_mul, div_zero, zero_div, sub_zero, zero_sub, add_zero, zero_add] <;>
      epv_hydro_closed
  · refine ⟨?_, ?_, ?_, ?_⟩ <;> split_ifs <;> simp only [epv_leaf] <;> epv_hydro_closed

/-- the returned position is the input position: it scales with s -/
theorem noh_position_similar (p : Noh.P) (r t s : ℝ) (hs : 0 < s) :
    Noh.position p (s * r) (s * t) = s * Noh.position p r t := by
  simp only [epv_tree, noh_cond_similar p r t s hs]
  split_ifs <;> simp only [epv_leaf]

example : ∃ s : ℝ, 0 < s := ⟨2, by norm_num⟩

/-! ### Coggeshall 19 -/

theorem cog19_cond_similar (p : Cog19.P) (r t s : ℝ) (hs : 0 < s) :
    Cog19.c0 p (s * r) (s * t) ↔ Cog19.c0 p r t := by
  rw [EPV.Bridge.cog19_c0_iff, EPV.Bridge.cog19_c0_iff]
  rw [show -(p.gamma - 1) * p.u0 * (s * t) / 2 = s * (-(p.gamma - 1) * p.u0 * t / 2) by ring]
  exact mul_lt_mul_iff_of_pos_left hs

theorem cog19_leaf_similar (p : Cog19.P) (r t s : ℝ) (hs : 0 < s) :
    Cog19.leaf p (s * r) (s * t) = Cog19.leaf p r t := by
  simp only [Cog19.leaf, cog19_cond_similar p r t s hs]

theorem cog19_outcome_similar (p : Cog19.P) (r t s : ℝ) (hs : 0 < s) :
    Cog19.outcome p (s * r) (s * t) = Cog19.outcome p r t := by
  simp only [Cog19.outcome, cog19_cond_similar p r t s hs]

theorem cog19_fields_similar (p : Cog19.P) (r t s : ℝ) (hs : 0 < s) :
    Cog19.density p (s * r) (s * t) = Cog19.density p r t ∧
    Cog19.velocity p (s * r) (s * t) = Cog19.velocity p r t ∧
    Cog19.temperature p (s * r) (s * t) = Cog19.temperature p r t ∧
    Cog19.pressure p (s * r) (s * t) = Cog19.pressure p r t ∧
    Cog19.specific_internal_energy p (s * r) (s * t) = Cog19.specific_internal_energy p r t := by
  have hs' := hs.ne'
  simp only [epv_tree, cog19_cond_similar p r t s hs]
  -- r = 0: every quotient by r is 0 on both sides; r ≠ 0: the factor s cancels in every quotient
  by_cases hr : r = 0
  · subst hr
    refine ⟨?_, ?_, ?_, ?_, ?_⟩ <;> split_ifs <;>
      simp only [epv_leaf, mul_zero, zero_mul, div_zero, zero_div, sub_zero, zero_sub, add_zero, zero_add] <;>
      epv_hydro_closed
  · refine ⟨?_, ?_, ?_, ?_, ?_⟩ <;> split_ifs <;> simp only [epv_leaf] <;> epv_hydro_closed

theorem cog19_position_similar (p : Cog19.P) (r t s : ℝ) (hs : 0 < s) :
    Cog19.position p (s * r) (s * t) = s * Cog19.position p r t := by
  simp only [epv_tree, cog19_cond_similar p r t s hs]
  split_ifs <;> simp only [epv_leaf]

end EPV.C10
