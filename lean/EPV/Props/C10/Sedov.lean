/-
C10 (Sedov share) — self-similarity with the documented exponents.

On the generated model SedovShock (`_run` lines 185-242) and the similarity assembly
ρ = ρ₂ g(λ), u = u₂ f(λ), p = p₂ h(λ), λ = r/r2(t) (EPV.Sedov.density/velocity/pressure, f, g, h
arbitrary):  r2(t) = r2(1) · t^(2/(k+2-ω)), and the fields at equal λ at two times differ only by
the factors  t^(-ω·2/(k+2-ω)) (density),  r2/t (velocity),  r2^(-ω) (r2/t)² (pressure).
Holds for every real geometry, γ, ω with k+2-ω ≠ 0 and E/(αρ₀) > 0 (so in particular on the
documented domain, `EPV.Sedov.Admissible`).
-/
import EPV.Lemmas.SedovFields

set_option linter.all false

open EPV EPV.Gen EPV.Sedov

namespace EPV.C10

noncomputable section

/-- the shock radius is proportional to t^(2/(k+2-ω)) -/
theorem sedov_r2_power_law (p : SedovShock.P) {t : ℝ} (ht : 0 < t) :
    SedovShock.r2 p t = SedovShock.r2 p 1 * t ^ (2 / (p.geometry + 2 - p.omega)) := by
  rw [r2_eq p ht, r2_eq p one_pos, Real.one_rpow, mul_one]

/-- ratio form: r2(t)/r2(s) = (t/s)^(2/(k+2-ω)) -/
theorem sedov_r2_ratio (p : SedovShock.P) {s t : ℝ} (hs : 0 < s) (ht : 0 < t) :
    SedovShock.r2 p t * s ^ (2 / (p.geometry + 2 - p.omega))
      = SedovShock.r2 p s * t ^ (2 / (p.geometry + 2 - p.omega)) := by
  rw [sedov_r2_power_law p ht, sedov_r2_power_law p hs]; ring

/-- at equal λ the similarity argument is the same: (λ r2(t)) / r2(t) = λ -/
theorem lam_arg (p : SedovShock.P) (k : ℕ) (A : Admissible p k) {t : ℝ} (ht : 0 < t) (lam : ℝ) :
    lam * SedovShock.r2 p t / SedovShock.r2 p t = lam := by
  field_simp [(r2_pos A ht).ne']

/-- density at equal λ scales like r2^(-ω) -/
theorem sedov_density_similarity (p : SedovShock.P) (k : ℕ) (A : Admissible p k) (g : ℝ → ℝ)
    {s t : ℝ} (hs : 0 < s) (ht : 0 < t) (lam : ℝ) :
    density p g t (lam * SedovShock.r2 p t) * SedovShock.r2 p s ^ (-p.omega)
      = density p g s (lam * SedovShock.r2 p s) * SedovShock.r2 p t ^ (-p.omega) := by
  unfold density
  rw [lam_arg p k A ht, lam_arg p k A hs, rho2_eq p ht, rho2_eq p hs, rho1_eq p ht, rho1_eq p hs]
  ring

/-- velocity at equal λ scales like r2/t -/
theorem sedov_velocity_similarity (p : SedovShock.P) (k : ℕ) (A : Admissible p k) (f : ℝ → ℝ)
    {s t : ℝ} (hs : 0 < s) (ht : 0 < t) (lam : ℝ) :
    velocity p f t (lam * SedovShock.r2 p t) * (SedovShock.r2 p s / s)
      = velocity p f s (lam * SedovShock.r2 p s) * (SedovShock.r2 p t / t) := by
  unfold velocity
  rw [lam_arg p k A ht, lam_arg p k A hs, u2_eq p ht, u2_eq p hs, us_eq p ht, us_eq p hs]
  ring

/-- pressure at equal λ scales like r2^(-ω) (r2/t)² -/
theorem sedov_pressure_similarity (p : SedovShock.P) (k : ℕ) (A : Admissible p k) (h : ℝ → ℝ)
    {s t : ℝ} (hs : 0 < s) (ht : 0 < t) (lam : ℝ) :
    pressure p h t (lam * SedovShock.r2 p t) * (SedovShock.r2 p s ^ (-p.omega) * (SedovShock.r2 p s / s) ^ 2)
      = pressure p h s (lam * SedovShock.r2 p s) * (SedovShock.r2 p t ^ (-p.omega) * (SedovShock.r2 p t / t) ^ 2) := by
  unfold pressure
  rw [lam_arg p k A ht, lam_arg p k A hs, p2_eq p ht, p2_eq p hs, us_eq p ht, us_eq p hs,
    rho1_eq p ht, rho1_eq p hs]
  ring

/-- the documented time exponents: ρ₂(t) = ρ₂(1) t^(-ω·2/(k+2-ω)), u₂(t) = u₂(1) t^(2/(k+2-ω) - 1),
p₂(t) = p₂(1) t^(-ω·2/(k+2-ω)) (t^(2/(k+2-ω) - 1))² -/
theorem sedov_time_exponents (p : SedovShock.P) (k : ℕ) (A : Admissible p k) {t : ℝ} (ht : 0 < t) :
    SedovShock.rho2 p t = SedovShock.rho2 p 1 * t ^ (-p.omega * (2 / (p.geometry + 2 - p.omega))) ∧
    SedovShock.u2 p t = SedovShock.u2 p 1 * t ^ (2 / (p.geometry + 2 - p.omega) - 1) ∧
    SedovShock.p2 p t = SedovShock.p2 p 1 * t ^ (-p.omega * (2 / (p.geometry + 2 - p.omega)))
      * (t ^ (2 / (p.geometry + 2 - p.omega) - 1)) ^ 2 := by
  have hR1 := r2_pos A one_pos
  have hpow : SedovShock.r2 p t ^ (-p.omega)
      = SedovShock.r2 p 1 ^ (-p.omega) * t ^ (-p.omega * (2 / (p.geometry + 2 - p.omega))) := by
    rw [sedov_r2_power_law p ht, Real.mul_rpow hR1.le (Real.rpow_nonneg ht.le _), ← Real.rpow_mul ht.le]
    congr 2; ring
  have hdiv : SedovShock.r2 p t / t = SedovShock.r2 p 1 * t ^ (2 / (p.geometry + 2 - p.omega) - 1) := by
    rw [sedov_r2_power_law p ht, Real.rpow_sub_one ht.ne' (2 / (p.geometry + 2 - p.omega))]; ring
  have hus : SedovShock.us p t = SedovShock.us p 1 * t ^ (2 / (p.geometry + 2 - p.omega) - 1) := by
    rw [us_eq p ht, us_eq p one_pos, mul_div_assoc, hdiv]; ring
  refine ⟨?_, ?_, ?_⟩
  · rw [rho2_eq p ht, rho2_eq p one_pos, rho1_eq p ht, rho1_eq p one_pos, hpow]; ring
  · rw [u2_eq p ht, u2_eq p one_pos, hus]; ring
  · rw [p2_eq p ht, p2_eq p one_pos, rho1_eq p ht, rho1_eq p one_pos, hpow, hus]; ring

/-- non-vacuity: the default spherical problem is admissible (see `EPV.Sedov.Admissible`) -/
example : ∃ (p : SedovShock.P) (k : ℕ), Admissible p k :=
  ⟨⟨851072/1000000, 851072/1000000, 7/5, 3, 0, 1⟩, 3,
    ⟨Or.inr (Or.inr rfl), by norm_num, by norm_num, by norm_num, by norm_num, by norm_num, by norm_num, by norm_num⟩⟩

end

end EPV.C10
