/-
C14 / C20 — FINDINGS (1-D rod, general Robin boundary conditions).

1. NaN (`Rod1D:robin-nan`).  `modes_BCgen` asks `fsolve` for "a root" of the traced function
   func(μ) = tan μ - (α₂b₁ - α₁b₂) μ / (α₁α₂ + b₁b₂ μ²), starting at μ = nπ.  μ = 0 is ALWAYS a root, and at μ = 0
   the coefficient formulas divide by k_n = μ/L = 0 (`finding_robin_zero_root`): for ordinary coefficients
   (α₁ = 1.71, β₁ = 0, α₂ = 1.28, β₂ = -1.15) fsolve does land on 0 for n = 5, 8, 9 and the solver returns NaN;
   other starts land on a duplicate or a negative root.  The root-finder contract ("returns a root") is met —
   the defect is in the code around the atom.
2. Static part (`Rod1D:robin-static`).  `_run` forms the static profile with b_i = β_i/L in the denominator
   `a1*b2 - a2*b1 + L*a1*a2`; the linear system for the end temperatures has the determinant
   α₁β₂ - α₂β₁ + L α₁α₂.  They agree only for L = 1 (or α₁β₂ = α₂β₁): for L = 2, (α₁,β₁,γ₁) = (1,-1,1.2),
   (α₂,β₂,γ₂) = (1,2,2.3) — the parameters of test_heat_rod1d_regression8 — the static profile gives
   α₁T̄(0) + β₁T̄'(0) = 73/70 ≠ 1.2 and α₂T̄(L) + β₂T̄'(L) = 183/70 ≠ 2.3  (`finding_robin_static`).
   By `RodRobin.lean: rod_bc_of_modes` the full solution inherits exactly these wrong boundary values for every N.
3. Initial profile (`Rod1D:robin-initial`, oracle only): the coefficient formulas of the general case do not
   reproduce T_L + (T_R - T_L)x/L as t → 0⁺ (e.g. 0.44, 0.07, -0.37 against 3.25, 3.5, 3.75).
Oracle reproductions on the real code: `o_heat.robin_nan`, `o_heat.rod_boundary` (Robin stream), `o_heat.initial_limit`.
-/
import EPV.Lemmas.HeatSeries
import EPV.Gen.RodModesGen
import EPV.Lemmas.Bridge.RodModesGen
import EPV.Tactics

set_option linter.all false

open EPV EPV.Gen EPV.Spec.Heat EPV.Model.HeatSeries EPV.Lemmas.Heat Finset

namespace EPV.C14

noncomputable section

/-- **Finding 1.**  For every parameter set with α₁ ≠ 0 and mode index n ≠ 0: μ = 0 is a root of the traced
transcendental equation, and at that root the traced coefficient formulas are not well defined (0/0). -/
theorem finding_robin_zero_root (q : RodModesGen.P) (hα : q.alpha1 ≠ 0) (hn : q.n ≠ 0) :
    RodModesGen.residual { q with mu := 0 } = 0 ∧ RodModesGen.leaf { q with mu := 0 } = 2
      ∧ ¬ RodModesGen.L2.WellDefined { q with mu := 0 } := by
  refine ⟨?_, ?_, ?_⟩
  · -- through the bridge (no leaf number, no shape of the traced residual): tan 0 - (…) * 0 / (…) = 0
    rw [Bridge.rodModesGen_residual_ne { q with mu := 0 } hα hn]
    simp
  · simp [epv_tree, epv_cond, hα, hn]
  · unfold RodModesGen.L2.WellDefined
    simp

/-- the recorded witness α₁ = 1.71, β₁ = 0, α₂ = 1.28, β₂ = -1.15 (L = 2, T_L = T_R = 3) is such a parameter set -/
example : ((⟨2, 3, 3, 1.71, 1.28, 0, -1.15, 0, 5⟩ : RodModesGen.P).alpha1 ≠ 0)
    ∧ ((⟨2, 3, 3, 1.71, 1.28, 0, -1.15, 0, 5⟩ : RodModesGen.P).n ≠ 0) := by norm_num

/-- **Finding 2.**  The static profile of the general case misses both declared boundary values at the parameters
of test_heat_rod1d_regression8 (L = 2). -/
theorem finding_robin_static :
    let p : RodP ℝ := ⟨1, 2, 0, 0, 1, -1, 1.2, 1, 2, 2.3⟩
    p.α1 * genStatic p 0 + p.β1 * genSlope p = 73 / 70 ∧ p.α1 * genStatic p 0 + p.β1 * genSlope p ≠ p.γ1
      ∧ p.α2 * genStatic p p.L + p.β2 * genSlope p = 183 / 70 ∧ p.α2 * genStatic p p.L + p.β2 * genSlope p ≠ p.γ2 := by
  intro p
  have hs : genSlope p = 11 / 35 := by
    simp only [genSlope, p]; norm_num
  have h0 : genStatic p 0 = 19 / 14 := by
    show (p.β2 / p.L * p.γ1 - p.β1 / p.L * p.γ2 + p.L * p.α2 * p.γ1) / (p.α1 * (p.β2 / p.L) - p.α2 * (p.β1 / p.L) + p.L * p.α1 * p.α2)
      + ((p.β2 / p.L * p.γ1 - p.β1 / p.L * p.γ2 + p.L * p.α1 * p.γ2) / (p.α1 * (p.β2 / p.L) - p.α2 * (p.β1 / p.L) + p.L * p.α1 * p.α2)
        - (p.β2 / p.L * p.γ1 - p.β1 / p.L * p.γ2 + p.L * p.α2 * p.γ1) / (p.α1 * (p.β2 / p.L) - p.α2 * (p.β1 / p.L) + p.L * p.α1 * p.α2)) * 0 / p.L = _
    simp only [p]; norm_num
  have hL : genStatic p p.L = 139 / 70 := by
    show (p.β2 / p.L * p.γ1 - p.β1 / p.L * p.γ2 + p.L * p.α2 * p.γ1) / (p.α1 * (p.β2 / p.L) - p.α2 * (p.β1 / p.L) + p.L * p.α1 * p.α2)
      + ((p.β2 / p.L * p.γ1 - p.β1 / p.L * p.γ2 + p.L * p.α1 * p.γ2) / (p.α1 * (p.β2 / p.L) - p.α2 * (p.β1 / p.L) + p.L * p.α1 * p.α2)
        - (p.β2 / p.L * p.γ1 - p.β1 / p.L * p.γ2 + p.L * p.α2 * p.γ1) / (p.α1 * (p.β2 / p.L) - p.α2 * (p.β1 / p.L) + p.L * p.α1 * p.α2)) * p.L / p.L = _
    simp only [p]; norm_num
  rw [hs, h0, hL]
  simp only [p]
  norm_num

/-- for unit length the same static profile is correct (so the suite's L = 1-free cases do not see it): general
identity for the left end, `α₁ T̄(0) + β₁ T̄' - γ₁ = (β₁/L)(L - 1)(α₁γ₂ - α₂γ₁) / den` -/
theorem robin_static_left_defect (p : RodP ℝ) (hL : p.L ≠ 0)
    (hden : p.α1 * (p.β2 / p.L) - p.α2 * (p.β1 / p.L) + p.L * p.α1 * p.α2 ≠ 0) :
    p.α1 * genStatic p 0 + p.β1 * genSlope p - p.γ1
      = p.β1 / p.L * (p.L - 1) * (p.α1 * p.γ2 - p.α2 * p.γ1) / (p.α1 * (p.β2 / p.L) - p.α2 * (p.β1 / p.L) + p.L * p.α1 * p.α2) := by
  have h0 : genStatic p 0 = (p.β2 / p.L * p.γ1 - p.β1 / p.L * p.γ2 + p.L * p.α2 * p.γ1) / (p.α1 * (p.β2 / p.L) - p.α2 * (p.β1 / p.L) + p.L * p.α1 * p.α2) := by
    show _ + _ * 0 / p.L = _
    simp
  rw [h0, genSlope]
  generalize hX : p.β2 / p.L * p.γ1 - p.β1 / p.L * p.γ2 + p.L * p.α2 * p.γ1 = X
  generalize hY : p.β2 / p.L * p.γ1 - p.β1 / p.L * p.γ2 + p.L * p.α1 * p.γ2 = Y
  have key : p.α1 * X + p.β1 * ((Y - X) / p.L) - p.γ1 * (p.α1 * (p.β2 / p.L) - p.α2 * (p.β1 / p.L) + p.L * p.α1 * p.α2)
      = p.β1 / p.L * (p.L - 1) * (p.α1 * p.γ2 - p.α2 * p.γ1) := by
    rw [← hX, ← hY]; field_simp; ring
  generalize p.α1 * (p.β2 / p.L) - p.α2 * (p.β1 / p.L) + p.L * p.α1 * p.α2 = d at hden key ⊢
  have e1 : p.α1 * (X / d) + p.β1 * ((Y / d - X / d) / p.L) - p.γ1 = (p.α1 * X + p.β1 * ((Y - X) / p.L) - p.γ1 * d) / d := by
    field_simp
  rw [e1, key]

end

end EPV.C14
